(* Proofs about Model/Strategy.v. *)
From Helios Require Import Base.Prelude Base.Wrap Model.Hash Model.Strategy Proofs.HashProofs.

Local Arguments Z.mul : simpl never.
Local Arguments Z.add : simpl never.
Local Arguments Z.sub : simpl never.
Local Arguments Z.div : simpl never.
Local Arguments Z.modulo : simpl never.

Lemma zlen_nonneg {A} (l : list A) : 0 <= zlen l.
Proof. unfold zlen. lia. Qed.

Lemma zlen_app {A} (a b : list A) : zlen (a ++ b) = zlen a + zlen b.
Proof. unfold zlen. rewrite app_length. lia. Qed.

Lemma zlen_pos {A} (l : list A) : l <> [] -> 1 <= zlen l.
Proof. destruct l; [congruence|]. unfold zlen. cbn [length]. lia. Qed.

Lemma nthZ_in {A} (l : list A) i : 0 <= i < zlen l -> exists x, nthZ l i = Some x /\ In x l.
Proof.
  intros H. unfold nthZ. assert (E : (i <? 0) = false) by lia. rewrite E.
  destruct (nth_error l (Z.to_nat i)) as [x|] eqn:En.
  - exists x. split; [reflexivity|]. eapply nth_error_In; eauto.
  - apply nth_error_None in En. unfold zlen in H. lia.
Qed.

Lemma nthZ_app_l {A} (a b : list A) i : 0 <= i < zlen a -> nthZ (a ++ b) i = nthZ a i.
Proof.
  intros H. unfold nthZ. assert (E : (i <? 0) = false) by lia. rewrite E.
  apply nth_error_app1. unfold zlen in H. lia.
Qed.

Lemma nthZ_app_last {A} (a : list A) x : nthZ (a ++ [x]) (zlen a) = Some x.
Proof.
  unfold nthZ. pose proof (zlen_nonneg a). assert (E : (zlen a <? 0) = false) by lia. rewrite E.
  unfold zlen. rewrite Nat2Z.id. rewrite nth_error_app2 by lia. rewrite Nat.sub_diag. reflexivity.
Qed.

Lemma healthy_app pool nb : bflag nb = true -> healthy (pool ++ [nb]) = healthy pool ++ [nb].
Proof. intros H. unfold healthy. rewrite filter_app. cbn [filter]. rewrite H. reflexivity. Qed.

(* ---- C06 ---- *)
Lemma hash_affinity p1 p2 r1 r2 :
  healthy p1 = healthy p2 -> hash_client r1 = hash_client r2 ->
  iph_pick p1 r1 = iph_pick p2 r2 /\ iphc_pick p1 r1 = iphc_pick p2 r2.
Proof. intros Hp Hr. unfold iph_pick, iphc_pick. rewrite Hp, Hr. split; reflexivity. Qed.

Lemma hash_valid pool r :
  healthy pool <> [] -> zlen (healthy pool) < 2147483648 ->
  (exists b, iph_pick pool r = Some b /\ In b (healthy pool))
  /\ (exists b, iphc_pick pool r = Some b /\ In b (healthy pool)).
Proof.
  intros Hne Hlt. pose proof (zlen_pos _ Hne) as Hpos. unfold iph_pick, iphc_pick.
  destruct (healthy pool) as [|h0 ht] eqn:Eh; [congruence|]. rewrite <- Eh in *. split.
  - apply nthZ_in. apply Z.mod_pos_bound. lia.
  - pose proof (fnv32a_range (hash_client r)) as Hf.
    destruct (jump_hash_range (fnv32a (hash_client r)) (zlen (healthy pool)) ltac:(lia) ltac:(lia)) as (i & Ei & Hi).
    rewrite Ei. apply nthZ_in. exact Hi.
Qed.

Lemma iphc_append pool nb r :
  bflag nb = true -> zlen (healthy pool) + 1 < 2147483648 -> healthy pool <> [] ->
  iphc_pick (pool ++ [nb]) r = iphc_pick pool r \/ iphc_pick (pool ++ [nb]) r = Some nb.
Proof.
  intros Hf Hlt Hne. pose proof (zlen_pos _ Hne) as Hpos. unfold iphc_pick.
  rewrite healthy_app by exact Hf. set (hs := healthy pool) in *.
  pose proof (fnv32a_range (hash_client r)) as Hk. set (k := fnv32a (hash_client r)) in *.
  destruct (hs ++ [nb]) as [|x0 xt] eqn:Eapp; [destruct hs; discriminate|]. rewrite <- Eapp. clear Eapp x0 xt.
  destruct hs as [|h0 ht] eqn:Eh; [congruence|]. rewrite <- Eh in *. clear Eh h0 ht.
  rewrite zlen_app. change (zlen [nb]) with 1.
  destruct (jump_hash_range k (zlen hs) ltac:(lia) ltac:(lia)) as (i & Ei & Hi).
  destruct (jump_hash_remap k (zlen hs) ltac:(lia) ltac:(lia) ltac:(lia)) as [E|E]; rewrite E.
  - left. rewrite Ei. apply nthZ_app_l. exact Hi.
  - right. apply nthZ_app_last.
Qed.

(* ------------------------------------------------------------------------------------------ *)
(* C05 : round robin                                                                            *)

Lemma div_succ n y : 0 < n -> (y + 1) / n = y / n + (if (y + 1) mod n =? 0 then 1 else 0).
Proof.
  intros Hn.
  pose proof (Z.div_mod y n ltac:(lia)) as E1. pose proof (Z.mod_pos_bound y n Hn) as B1.
  pose proof (Z.div_mod (y + 1) n ltac:(lia)) as E2. pose proof (Z.mod_pos_bound (y + 1) n Hn) as B2.
  destruct ((y + 1) mod n =? 0) eqn:E; nia.
Qed.

Lemma mod_eq_shift n x i : 0 < n -> 0 <= i < n -> (x mod n =? i) = ((x - i) mod n =? 0).
Proof.
  intros Hn Hi.
  pose proof (Z.div_mod x n ltac:(lia)) as E1. pose proof (Z.mod_pos_bound x n Hn) as B1.
  pose proof (Z.div_mod (x - i) n ltac:(lia)) as E2. pose proof (Z.mod_pos_bound (x - i) n Hn) as B2.
  destruct (x mod n =? i) eqn:Ea; destruct ((x - i) mod n =? 0) eqn:Eb; try reflexivity; exfalso.
  - assert (x - i = n * (x / n)) by lia.
    assert (Hm : (x - i) mod n = 0) by (rewrite H, Z.mul_comm; apply Z_mod_mult). lia.
  - assert (x = n * ((x - i) / n) + i) by lia.
    assert (Hm : x mod n = i) by (rewrite H, Z.mul_comm, Z.add_comm, Z_mod_plus_full; apply Z.mod_small; lia). lia.
Qed.

(* number of t in [1, len] with (c + t) mod n = i *)
Fixpoint cnt (n i c : Z) (len : nat) : Z :=
  match len with
  | O => 0
  | S k => cnt n i c k + (if (c + Z.of_nat (S k)) mod n =? i then 1 else 0)
  end.

Lemma cnt_formula n i c len : 0 < n -> 0 <= i < n ->
  cnt n i c len = (c + Z.of_nat len - i) / n - (c - i) / n.
Proof.
  intros Hn Hi. induction len as [|k IH]; cbn [cnt].
  - replace (c + Z.of_nat 0 - i) with (c - i) by lia. lia.
  - rewrite IH. rewrite (mod_eq_shift n _ i Hn Hi).
    replace (c + Z.of_nat (S k) - i) with ((c + Z.of_nat k - i) + 1) by lia.
    rewrite (div_succ n (c + Z.of_nat k - i) Hn). lia.
Qed.

(* every residue is hit exactly m times by any n*m consecutive counter values *)
Theorem rr_window n i c m : 0 < n -> 0 <= i < n -> 0 <= m ->
  cnt n i c (Z.to_nat (n * m)) = m.
Proof.
  intros Hn Hi Hm. rewrite cnt_formula by lia. rewrite Z2Nat.id by nia.
  replace (c + n * m - i) with ((c - i) + m * n) by lia. rewrite Z.div_add by lia. lia.
Qed.

Definition all_flag (p : list backend) : Prop := Forall (fun b => bflag b = true) p.

(* the index handed out by a pick after counter value c when every backend is eligible
   (no 2^64 wrap inside the window) *)
Lemma rr_pick_index pool c : all_flag pool -> pool <> [] -> 0 <= c -> c + 1 < 18446744073709551616 ->
  rr_pick pool c = (nthZ pool ((c + 1) mod zlen pool), c + 1).
Proof.
  intros Hf Hne Hc Hw. unfold rr_pick. destruct pool as [|b t] eqn:Ep; [congruence|]. rewrite <- Ep in *.
  assert (El : length pool = S (length t)) by (rewrite Ep; reflexivity). rewrite El. cbn [rr_scan].
  rewrite wrap_u64_id by lia.
  pose proof (zlen_pos pool Hne) as Hl.
  destruct (nthZ_in pool ((c + 1) mod zlen pool) ltac:(apply Z.mod_pos_bound; lia)) as (x & Ex & Hx).
  rewrite Ex. rewrite (proj1 (Forall_forall _ _) Hf x Hx). reflexivity.
Qed.

(* a scan that gives up has seen only ineligible backends *)
Lemma rr_scan_none fuel : forall pool c,
  pool <> [] -> 0 <= c -> c + Z.of_nat fuel < 18446744073709551616 ->
  fst (rr_scan fuel pool c) = None ->
  forall t, 1 <= t <= Z.of_nat fuel ->
    match nthZ pool ((c + t) mod zlen pool) with Some b => bflag b = false | None => False end.
Proof.
  induction fuel as [|f IH]; intros pool c Hne Hc Hw Hn t Ht; [lia|].
  cbn [rr_scan] in Hn. rewrite wrap_u64_id in Hn by lia.
  pose proof (zlen_pos pool Hne) as Hl.
  destruct (nthZ_in pool ((c + 1) mod zlen pool) ltac:(apply Z.mod_pos_bound; lia)) as (x & Ex & Hx).
  rewrite Ex in Hn. destruct (bflag x) eqn:Efx; [cbn in Hn; discriminate|].
  destruct (Z.eq_dec t 1) as [->|Hne1].
  - rewrite Ex. exact Efx.
  - specialize (IH pool (c + 1) Hne ltac:(lia) ltac:(lia) Hn (t - 1) ltac:(lia)).
    replace (c + 1 + (t - 1)) with (c + t) in IH by lia. exact IH.
Qed.

Lemma rr_scan_flagged fuel : forall pool c b c',
  rr_scan fuel pool c = (Some b, c') -> In b pool /\ bflag b = true.
Proof.
  induction fuel as [|f IH]; intros pool c b c' H; cbn [rr_scan] in H; [discriminate|].
  destruct (nthZ pool (wrap_u64 (c + 1) mod zlen pool)) as [x|] eqn:Ex; [|discriminate].
  destruct (bflag x) eqn:Ef.
  - inversion H; subst. split; [|exact Ef]. unfold nthZ in Ex.
    destruct (_ <? 0); [discriminate|]. eapply nth_error_In; eauto.
  - eapply IH; eauto.
Qed.

Lemma cnt_pos_exists n i c len : 0 < cnt n i c len -> exists t, 1 <= t <= Z.of_nat len /\ (c + t) mod n = i.
Proof.
  induction len as [|k IH]; cbn [cnt]; [lia|]. intros H.
  destruct ((c + Z.of_nat (S k)) mod n =? i) eqn:E.
  - exists (Z.of_nat (S k)). split; [lia|]. apply Z.eqb_eq. exact E.
  - destruct IH as (t & Ht & Et); [lia|]. exists t. split; [lia|exact Et].
Qed.

Lemma In_nthZ {A} (l : list A) x : In x l -> exists i, 0 <= i < zlen l /\ nthZ l i = Some x.
Proof.
  intros H. apply In_nth_error in H. destruct H as (k & Hk).
  exists (Z.of_nat k). assert (k < length l)%nat by (apply nth_error_Some; congruence).
  split; [unfold zlen; lia|]. unfold nthZ. assert (E : (Z.of_nat k <? 0) = false) by lia. rewrite E.
  rewrite Nat2Z.id. exact Hk.
Qed.

(* round robin finds an eligible backend whenever one exists *)
Theorem rr_finds_flagged pool c :
  0 <= c -> c + zlen pool < 18446744073709551616 ->
  (exists b, In b pool /\ bflag b = true) ->
  exists b c', rr_pick pool c = (Some b, c') /\ In b pool /\ bflag b = true.
Proof.
  intros Hc Hw (b0 & Hb0 & Hf0).
  assert (Hne : pool <> []) by (destruct pool; [destruct Hb0|discriminate]).
  unfold rr_pick. destruct pool as [|x t] eqn:Ep; [congruence|]. rewrite <- Ep in *.
  destruct (rr_scan (length pool) pool c) as [ob c'] eqn:Es.
  destruct ob as [b|].
  - exists b, c'. split; [reflexivity|]. eapply rr_scan_flagged; eauto.
  - exfalso. pose proof (zlen_pos pool Hne) as Hl.
    destruct (In_nthZ pool b0 Hb0) as (i & Hi & Ei).
    pose proof (rr_window (zlen pool) i c 1 ltac:(lia) Hi ltac:(lia)) as Hcnt.
    rewrite Z.mul_1_r in Hcnt. unfold zlen in Hcnt at 2. rewrite Nat2Z.id in Hcnt.
    destruct (cnt_pos_exists (zlen pool) i c (length pool) ltac:(lia)) as (t0 & Ht0 & Et0).
    pose proof (rr_scan_none (length pool) pool c Hne Hc ltac:(unfold zlen in Hw; lia)
                  ltac:(rewrite Es; reflexivity) t0 Ht0) as Hno.
    rewrite Et0, Ei in Hno. congruence.
Qed.

(* ------------------------------------------------------------------------------------------ *)
(* C05 : least connections                                                                      *)

Lemma lc_scan_spec pool : forall best minc,
  (match best with Some bb => bactive bb = minc /\ bflag bb = true | None => True end) ->
  match lc_scan best minc pool with
  | Some r => (In r pool \/ best = Some r) /\ bflag r = true /\ bactive r <= minc
              /\ (forall x, In x pool -> bflag x = true -> bactive r <= bactive x)
  | None => best = None /\ (forall x, In x pool -> bflag x = true -> minc <= bactive x)
  end.
Proof.
  induction pool as [|b t IH]; intros best minc Hb; cbn [lc_scan].
  - destruct best as [bb|]; [|split; [reflexivity|intros x []]].
    destruct Hb as [Hb1 Hb2]. split; [right; reflexivity|]. split; [exact Hb2|]. split; [lia|intros x []].
  - destruct (bflag b && (bactive b <? minc)) eqn:E.
    + apply andb_true_iff in E. destruct E as [Ef El].
      specialize (IH (Some b) (bactive b) (conj eq_refl Ef)).
      destruct (lc_scan (Some b) (bactive b) t) as [r|].
      * destruct IH as (Hin & Hfr & Hle & Hall). split; [|split; [exact Hfr|split]].
        -- destruct Hin as [Hin|Hin]; [left; right; exact Hin | left; left; congruence].
        -- lia.
        -- intros x [->|Hx] Hfx; [lia|auto].
      * destruct IH as [IH _]. discriminate.
    + specialize (IH best minc Hb).
      destruct (lc_scan best minc t) as [r|].
      * destruct IH as (Hin & Hfr & Hle & Hall). split; [|split; [exact Hfr|split]].
        -- destruct Hin as [Hin|Hin]; [left; right; exact Hin | right; exact Hin].
        -- exact Hle.
        -- intros x [->|Hx] Hfx; [|auto]. rewrite Hfx in E. cbn [andb] in E. lia.
      * destruct IH as [IH1 IH2]. split; [exact IH1|]. intros x [->|Hx] Hfx; [|auto].
        rewrite Hfx in E. cbn [andb] in E. lia.
Qed.

(* the pick is eligible and has a minimal in-flight count among the eligible backends *)
Theorem lc_min pool :
  (exists b, In b pool /\ bflag b = true) -> (forall x, In x pool -> bactive x < 2147483647) ->
  exists b, lc_pick pool = Some b /\ In b pool /\ bflag b = true
            /\ forall x, In x pool -> bflag x = true -> bactive b <= bactive x.
Proof.
  intros (b0 & Hb0 & Hf0) Hlt. unfold lc_pick. pose proof (lc_scan_spec pool None 2147483647 I) as H.
  destruct (lc_scan None 2147483647 pool) as [r|].
  - destruct H as (Hin & Hfr & _ & Hall). exists r. split; [reflexivity|]. split; [|split; [exact Hfr|exact Hall]].
    destruct Hin as [Hin|Hin]; [exact Hin|discriminate].
  - destruct H as [_ H]. specialize (H b0 Hb0 Hf0). specialize (Hlt b0 Hb0). lia.
Qed.

(* ------------------------------------------------------------------------------------------ *)
(* C05 : smooth weighted round robin — exactness from a fresh pool                              *)

Definition Wt (p : list backend) : Z := sumZ (map bweight p).
Definition Scw (p : list backend) : Z := sumZ (map bcw p).

Lemma wrr_total_all p : all_flag p -> wrr_total p = Wt p.
Proof.
  induction 1 as [|b t Hb Ht IH]; cbn [wrr_total Wt map sumZ]; [reflexivity|].
  rewrite Hb. unfold Wt in IH. rewrite IH. reflexivity.
Qed.

Lemma wrr_bump_all p : all_flag p -> wrr_bump p = map (fun b => set_cw (bcw b + bweight b) b) p.
Proof.
  induction 1 as [|b t Hb Ht IH]; cbn [wrr_bump map]; [reflexivity|].
  rewrite Hb. f_equal. exact IH.
Qed.

Lemma wrr_best_spec p : forall best,
  all_flag p ->
  match wrr_best best p with
  | Some x => (In x p \/ best = Some x) /\ (forall y, In y p -> bcw y <= bcw x)
              /\ (forall b0, best = Some b0 -> bcw b0 <= bcw x)
  | None => best = None /\ p = []
  end.
Proof.
  induction p as [|b t IH]; intros best Hf; cbn [wrr_best].
  - destruct best as [x|]; [|auto]. split; [right; reflexivity|]. split; [intros y []|]. intros b0 E. inversion E. lia.
  - inversion Hf as [|? ? Hb Ht]; subst. rewrite Hb.
    destruct best as [x|].
    + destruct (bcw x <? bcw b) eqn:E.
      * specialize (IH (Some b) Ht). destruct (wrr_best (Some b) t) as [r|]; [|destruct IH; discriminate].
        destruct IH as (Hin & Hall & Hb0). specialize (Hb0 b eq_refl). split; [|split].
        -- destruct Hin as [Hin|Hin]; [left; right; exact Hin|left; left; congruence].
        -- intros y [->|Hy]; [lia|auto].
        -- intros b0 E0. inversion E0; subst. lia.
      * specialize (IH (Some x) Ht). destruct (wrr_best (Some x) t) as [r|]; [|destruct IH; discriminate].
        destruct IH as (Hin & Hall & Hb0). specialize (Hb0 x eq_refl). split; [|split].
        -- destruct Hin as [Hin|Hin]; [left; right; exact Hin|right; exact Hin].
        -- intros y [->|Hy]; [lia|auto].
        -- intros b0 E0. inversion E0; subst. lia.
    + specialize (IH (Some b) Ht). destruct (wrr_best (Some b) t) as [r|]; [|destruct IH; discriminate].
      destruct IH as (Hin & Hall & Hb0). specialize (Hb0 b eq_refl). split; [|split].
      * destruct Hin as [Hin|Hin]; [left; right; exact Hin|left; left; congruence].
      * intros y [->|Hy]; [lia|auto].
      * intros b0 E0. discriminate.
Qed.

(* one pick, as a map over the pool *)
Definition after_pick (xid w : Z) (b : backend) : backend :=
  set_cw (bcw b + bweight b - (if Z.eqb (bid b) xid then w else 0)) b.

Lemma wrr_pick_spec p :
  all_flag p -> p <> [] -> NoDup (map bid p) ->
  exists x, In x p
    /\ fst (wrr_pick p) = Some (set_cw (bcw x + bweight x) x)
    /\ (forall y, In y p -> bcw y + bweight y <= bcw x + bweight x)
    /\ snd (wrr_pick p) = map (after_pick (bid x) (Wt p)) p.
Proof.
  intros Hf Hne Hnd. unfold wrr_pick. rewrite wrr_bump_all by exact Hf.
  set (bumped := map (fun b => set_cw (bcw b + bweight b) b) p).
  assert (Hfb : all_flag bumped).
  { unfold bumped, all_flag. rewrite Forall_map. eapply Forall_impl; [|exact Hf]. intros a Ha. exact Ha. }
  pose proof (wrr_best_spec bumped None Hfb) as Hs.
  destruct (wrr_best None bumped) as [xb|].
  2:{ destruct Hs as [_ E]. unfold bumped in E. destruct p; [congruence|discriminate]. }
  destruct Hs as (Hin & Hmax & _). destruct Hin as [Hin|Hin]; [|discriminate].
  unfold bumped in Hin. apply in_map_iff in Hin. destruct Hin as (x & Ex & Hx).
  exists x. split; [exact Hx|]. cbn [fst snd]. split; [rewrite <- Ex; reflexivity|]. split.
  - intros y Hy. specialize (Hmax (set_cw (bcw y + bweight y) y)).
    rewrite <- Ex in Hmax. cbn in Hmax. apply Hmax. unfold bumped.
    exact (in_map (fun b => set_cw (bcw b + bweight b) b) p y Hy).
  - rewrite wrr_total_all by exact Hf. unfold upd_id, bumped. rewrite map_map.
    apply map_ext_in. intros b Hb. rewrite <- Ex. cbn [bid set_cw bcw].
    unfold after_pick. destruct (Z.eqb (bid b) (bid x)) eqn:E.
    + (* same id => same element, by NoDup *)
      apply Z.eqb_eq in E.
      assert (b = x).
      { clear -Hnd Hb Hx E. induction p as [|a t IH]; [destruct Hb|].
        cbn [map] in Hnd. inversion Hnd as [|? ? Hni Hnd']; subst.
        destruct Hb as [->|Hb]; destruct Hx as [->|Hx]; auto.
        - exfalso. apply Hni. rewrite E. apply in_map. exact Hx.
        - exfalso. apply Hni. rewrite <- E. apply in_map. exact Hb. }
      subst b. cbn. reflexivity.
    + rewrite Z.sub_0_r. reflexivity.
Qed.

Lemma map_after_pick_static xid w p :
  map bid (map (after_pick xid w) p) = map bid p
  /\ map bweight (map (after_pick xid w) p) = map bweight p
  /\ (all_flag p -> all_flag (map (after_pick xid w) p)).
Proof.
  rewrite !map_map. split; [|split].
  - apply map_ext. intros b. reflexivity.
  - apply map_ext. intros b. reflexivity.
  - intros Hf. unfold all_flag. rewrite Forall_map. eapply Forall_impl; [|exact Hf]. intros a Ha. exact Ha.
Qed.

Lemma Wt_after_pick xid w p : Wt (map (after_pick xid w) p) = Wt p.
Proof. unfold Wt. rewrite map_map. f_equal. Qed.

Lemma Scw_after_pick x p :
  NoDup (map bid p) -> In x p -> Scw (map (after_pick (bid x) (Wt p)) p) = Scw p.
Proof.
  intros Hnd Hx. unfold Scw. rewrite map_map.
  assert (G : forall q w, NoDup (map bid q) ->
              sumZ (map (fun b => bcw (after_pick (bid x) w b)) q)
              = sumZ (map bcw q) + sumZ (map bweight q) - (if existsb (fun b => Z.eqb (bid b) (bid x)) q then w else 0)).
  { intros q w. induction q as [|a t IH]; intros Hn; cbn [map sumZ existsb]; [lia|].
    inversion Hn as [|? ? Hni Hn']; subst. rewrite (IH Hn'). cbn [after_pick set_cw bcw].
    destruct (Z.eqb (bid a) (bid x)) eqn:E; cbn [orb].
    - assert (Ex : existsb (fun b => Z.eqb (bid b) (bid x)) t = false).
      { apply not_true_is_false. intros Ht. apply existsb_exists in Ht. destruct Ht as (y & Hy & Ey).
        apply Z.eqb_eq in E, Ey. apply Hni. rewrite E, <- Ey. apply in_map. exact Hy. }
      rewrite Ex. lia.
    - lia. }
  rewrite (G p (Wt p) Hnd).
  assert (Ex : existsb (fun b => Z.eqb (bid b) (bid x)) p = true).
  { apply existsb_exists. exists x. split; [exact Hx|apply Z.eqb_refl]. }
  rewrite Ex. unfold Wt. lia.
Qed.

(* run k picks, collecting the picked ids *)
Fixpoint wrun (k : nat) (p : list backend) : list Z * list backend :=
  match k with
  | O => ([], p)
  | S n => let '(b, p1) := wrr_pick p in
           let '(l, p2) := wrun n p1 in
           ((match b with Some x => bid x | None => -1 end) :: l, p2)
  end.

Fixpoint count_in (id : Z) (l : list Z) : Z :=
  match l with [] => 0 | x :: t => (if Z.eqb x id then 1 else 0) + count_in id t end.

Lemma sum_le_avg (p : list backend) (m : Z) :
  p <> [] -> (forall y, In y p -> bcw y + bweight y <= m) -> Scw p + Wt p <= m * zlen p.
Proof.
  intros Hne Hall. unfold Scw, Wt, zlen. clear Hne.
  induction p as [|a t IH]; cbn [map sumZ length]; [lia|].
  pose proof (Hall a (or_introl eq_refl)). specialize (IH (fun y Hy => Hall y (or_intror Hy))).
  rewrite Nat2Z.inj_succ. lia.
Qed.

(* invariant kept by every pick of a run that started fresh:
   running weights sum to zero and each stays above -W *)
Definition WInv (p : list backend) : Prop :=
  Scw p = 0 /\ Forall (fun b => - Wt p < bcw b) p.

Definition weights_pos (p : list backend) : Prop := Forall (fun b => 1 <= bweight b) p.

Lemma Wt_pos p : p <> [] -> weights_pos p -> 0 < Wt p.
Proof.
  intros Hne Hw. destruct p as [|a t]; [congruence|]. unfold Wt. cbn [map sumZ].
  inversion Hw as [|? ? Ha Ht]; subst.
  assert (0 <= sumZ (map bweight t)).
  { clear -Ht. induction Ht as [|b t Hb Ht IH]; cbn [map sumZ]; lia. }
  lia.
Qed.

Lemma wrr_pick_step p :
  all_flag p -> p <> [] -> NoDup (map bid p) -> weights_pos p -> WInv p ->
  exists x, In x p
    /\ fst (wrr_pick p) = Some (set_cw (bcw x + bweight x) x)
    /\ snd (wrr_pick p) = map (after_pick (bid x) (Wt p)) p
    /\ WInv (map (after_pick (bid x) (Wt p)) p).
Proof.
  intros Hf Hne Hnd Hw [Hs Hlb].
  destruct (wrr_pick_spec p Hf Hne Hnd) as (x & Hx & E1 & Hmax & E2).
  exists x. split; [exact Hx|]. split; [exact E1|]. split; [exact E2|].
  pose proof (Wt_pos p Hne Hw) as HW.
  destruct (map_after_pick_static (bid x) (Wt p) p) as (Eid & Ewt & _).
  split.
  - rewrite Scw_after_pick by auto. exact Hs.
  - rewrite Wt_after_pick. rewrite Forall_map. rewrite Forall_forall. intros b Hb.
    cbn [after_pick set_cw bcw].
    pose proof (proj1 (Forall_forall _ _) Hlb b Hb) as Hb1. cbn beta in Hb1.
    pose proof (proj1 (Forall_forall _ _) Hw b Hb) as Hb2. cbn beta in Hb2.
    destruct (Z.eqb (bid b) (bid x)) eqn:E; [|lia].
    (* the selected one: its bumped weight is at least the average, which is positive *)
    pose proof (sum_le_avg p (bcw x + bweight x) Hne Hmax) as Havg. rewrite Hs in Havg.
    pose proof (zlen_pos p Hne) as Hlen.
    assert (Hbx : bcw b + bweight b <= bcw x + bweight x) by (apply Hmax; exact Hb).
    assert (0 < bcw x + bweight x) by nia.
    (* b has the id of x; by NoDup b = x, but the inequality for b suffices only via x: use equality *)
    apply Z.eqb_eq in E.
    assert (b = x).
    { clear -Hnd Hb Hx E. induction p as [|a t IH]; [destruct Hb|].
      cbn [map] in Hnd. inversion Hnd as [|? ? Hni Hnd']; subst.
      destruct Hb as [->|Hb]; destruct Hx as [->|Hx]; auto.
      - exfalso. apply Hni. rewrite E. apply in_map. exact Hx.
      - exfalso. apply Hni. rewrite <- E. apply in_map. exact Hb. }
    subst b. lia.
Qed.

(* closed form of the state after a run: cw_b = cw0_b + k*w_b - W*count_b *)
Definition after_run (k W : Z) (ps : list Z) (b : backend) : backend :=
  set_cw (bcw b + k * bweight b - W * count_in (bid b) ps) b.

Lemma wrun_spec k : forall p,
  all_flag p -> p <> [] -> NoDup (map bid p) -> weights_pos p -> WInv p ->
  let '(ps, p') := wrun k p in
  p' = map (after_run (Z.of_nat k) (Wt p) ps) p
  /\ WInv p' /\ length ps = k /\ Forall (fun x => In x (map bid p)) ps.
Proof.
  induction k as [|n IH]; intros p Hf Hne Hnd Hw Hi; cbn [wrun].
  - split; [|auto]. transitivity (map (fun x : backend => x) p); [symmetry; apply map_id|].
    apply map_ext. intros b. unfold after_run. cbn [count_in].
    destruct b; unfold set_cw; cbn. f_equal. lia.
  - destruct (wrr_pick_step p Hf Hne Hnd Hw Hi) as (x & Hx & E1 & E2 & Hi1).
    destruct (wrr_pick p) as [ob p1]. cbn [fst snd] in E1, E2. subst ob p1.
    destruct (map_after_pick_static (bid x) (Wt p) p) as (Eid & Ewt & Hfl).
    set (p1 := map (after_pick (bid x) (Wt p)) p) in *.
    assert (Hne1 : p1 <> []) by (unfold p1; destruct p; [congruence|discriminate]).
    assert (Hnd1 : NoDup (map bid p1)) by (rewrite Eid; exact Hnd).
    assert (Hw1 : weights_pos p1).
    { unfold weights_pos, p1. rewrite Forall_map. eapply Forall_impl; [|exact Hw]. intros a Ha. exact Ha. }
    assert (EW : Wt p1 = Wt p) by apply Wt_after_pick.
    specialize (IH p1 (Hfl Hf) Hne1 Hnd1 Hw1 Hi1).
    destruct (wrun n p1) as [ps p2]. destruct IH as (Ep2 & Hi2 & Hlen & Hall).
    split; [|split; [exact Hi2|split; [cbn [length]; lia|]]].
    + rewrite Ep2, EW. unfold p1. rewrite map_map. apply map_ext. intros b.
      unfold after_run, after_pick. cbn [count_in].
      rewrite (Z.eqb_sym (bid x)). destruct b as [i0 n0 w0 f0 u0 a0 c0]; unfold set_cw; cbn.
      f_equal. destruct (Z.eqb i0 (bid x)); lia.
    + constructor; [cbn; apply in_map; exact Hx|]. rewrite Eid in Hall. exact Hall.
Qed.

Lemma sum_indicator x p :
  NoDup (map bid p) -> In x (map bid p) ->
  sumZ (map (fun b => if Z.eqb x (bid b) then 1 else 0) p) = 1.
Proof.
  induction p as [|a t IH]; intros Hnd Hin; [destruct Hin|].
  cbn [map sumZ] in *. inversion Hnd as [|? ? Hni Hnd']; subst.
  destruct (Z.eqb x (bid a)) eqn:E.
  - apply Z.eqb_eq in E. subst x.
    assert (Hz : sumZ (map (fun b => if Z.eqb (bid a) (bid b) then 1 else 0) t) = 0).
    { clear -Hni. induction t as [|c t IH]; cbn [map sumZ]; [reflexivity|].
      destruct (Z.eqb (bid a) (bid c)) eqn:E.
      - exfalso. apply Hni. left. apply Z.eqb_eq in E. congruence.
      - rewrite IH; [lia|]. intros H. apply Hni. right. exact H. }
    lia.
  - destruct Hin as [Hin|Hin]; [apply Z.eqb_neq in E; congruence|]. rewrite (IH Hnd' Hin). lia.
Qed.

Lemma sum_counts ps p :
  NoDup (map bid p) -> Forall (fun x => In x (map bid p)) ps ->
  sumZ (map (fun b => count_in (bid b) ps) p) = Z.of_nat (length ps).
Proof.
  intros Hnd. induction 1 as [|x t Hx Ht IH]; cbn [count_in length].
  - induction p as [|a q IHq]; cbn [map sumZ]; [reflexivity|].
    inversion Hnd; subst. rewrite IHq by assumption. reflexivity.
  - assert (E : sumZ (map (fun b => (if Z.eqb x (bid b) then 1 else 0) + count_in (bid b) t) p)
                = sumZ (map (fun b => if Z.eqb x (bid b) then 1 else 0) p) + sumZ (map (fun b => count_in (bid b) t) p)).
    { clear. induction p as [|a q IHq]; cbn [map sumZ]; [reflexivity|]. rewrite IHq. lia. }
    rewrite E, IH, (sum_indicator x p Hnd Hx). lia.
Qed.

Lemma pointwise_eq (f g : backend -> Z) p :
  (forall b, In b p -> f b <= g b) -> sumZ (map f p) = sumZ (map g p) -> forall b, In b p -> f b = g b.
Proof.
  induction p as [|a t IH]; intros Hle Hs b Hb; [destruct Hb|].
  cbn [map sumZ] in Hs.
  assert (Ht : sumZ (map f t) <= sumZ (map g t)).
  { clear -Hle. induction t as [|c t IH]; cbn [map sumZ]; [lia|].
    pose proof (Hle c (or_intror (or_introl eq_refl))).
    assert (forall b, In b (a :: t) -> f b <= g b) by (intros b [->|Hb]; apply Hle; [left|right; right]; auto).
    specialize (IH H0). lia. }
  pose proof (Hle a (or_introl eq_refl)) as Ha.
  destruct Hb as [->|Hb]; [lia|].
  apply IH; auto. intros c Hc. apply Hle. right. exact Hc. lia.
Qed.

Definition fresh (p : list backend) : Prop := Forall (fun b => bcw b = 0) p.

Lemma fresh_inv p : p <> [] -> weights_pos p -> fresh p -> WInv p.
Proof.
  intros Hne Hw Hfr. pose proof (Wt_pos p Hne Hw) as HW. split.
  - unfold Scw. clear -Hfr. induction Hfr as [|b t Hb Ht IH]; cbn [map sumZ]; lia.
  - eapply Forall_impl; [|exact Hfr]. intros a Ha. cbn beta in *. lia.
Qed.

(* From a fresh pool, after W = sum of weights picks every backend was picked exactly w_i times
   and the pool is fresh again (literally the same state). *)
Theorem swrr_exact p :
  all_flag p -> p <> [] -> NoDup (map bid p) -> weights_pos p -> fresh p ->
  let '(ps, p') := wrun (Z.to_nat (Wt p)) p in
  (forall b, In b p -> count_in (bid b) ps = bweight b) /\ p' = p.
Proof.
  intros Hf Hne Hnd Hw Hfr.
  pose proof (Wt_pos p Hne Hw) as HW.
  pose proof (wrun_spec (Z.to_nat (Wt p)) p Hf Hne Hnd Hw (fresh_inv p Hne Hw Hfr)) as H.
  destruct (wrun (Z.to_nat (Wt p)) p) as [ps p']. destruct H as (Ep & [Hs Hlb] & Hlen & Hall).
  rewrite Z2Nat.id in Ep by lia.
  assert (EW : Wt p' = Wt p).
  { rewrite Ep. unfold Wt. rewrite map_map. f_equal. }
  rewrite EW in Hlb.
  assert (Hcnt : forall b, In b p -> count_in (bid b) ps = bweight b).
  { apply (pointwise_eq (fun b => count_in (bid b) ps) bweight p).
    - intros b Hb. rewrite Ep in Hlb. rewrite Forall_map in Hlb.
      pose proof (proj1 (Forall_forall _ _) Hlb b Hb) as Hb1. cbn beta in Hb1.
      unfold after_run in Hb1. cbn [set_cw bcw] in Hb1.
      pose proof (proj1 (Forall_forall _ _) Hfr b Hb) as Hb0. cbn beta in Hb0. rewrite Hb0 in Hb1.
      nia.
    - rewrite (sum_counts ps p Hnd Hall). rewrite Hlen. rewrite Z2Nat.id by lia. reflexivity. }
  split; [exact Hcnt|].
  rewrite Ep. transitivity (map (fun x : backend => x) p); [|apply map_id].
  apply map_ext_in. intros b Hb.
  unfold after_run. rewrite (Hcnt b Hb).
  pose proof (proj1 (Forall_forall _ _) Hfr b Hb) as Hb0. cbn beta in Hb0.
  destruct b; unfold set_cw; cbn in *. subst. f_equal. lia.
Qed.

Lemma wrun_app a : forall b p,
  wrun (a + b) p = let '(l1, p1) := wrun a p in let '(l2, p2) := wrun b p1 in (l1 ++ l2, p2).
Proof.
  induction a as [|n IH]; intros b p; cbn [wrun Nat.add].
  - destruct (wrun b p). reflexivity.
  - destruct (wrr_pick p) as [ob p1]. rewrite IH.
    destruct (wrun n p1) as [l1 p2]. destruct (wrun b p2) as [l2 p3]. reflexivity.
Qed.

Lemma count_in_app id a b : count_in id (a ++ b) = count_in id a + count_in id b.
Proof. induction a as [|x t IH]; cbn [count_in app]; lia. Qed.

(* every window of W consecutive picks, at any offset, contains exactly w_i picks of backend i *)
Theorem swrr_sliding p a :
  all_flag p -> p <> [] -> NoDup (map bid p) -> weights_pos p -> fresh p ->
  forall b, In b p ->
    count_in (bid b) (fst (wrun (Z.to_nat (Wt p) + a) p)) - count_in (bid b) (fst (wrun a p)) = bweight b.
Proof.
  intros Hf Hne Hnd Hw Hfr b Hb.
  pose proof (swrr_exact p Hf Hne Hnd Hw Hfr) as H.
  rewrite wrun_app. destruct (wrun (Z.to_nat (Wt p)) p) as [ps p']. destruct H as [Hcnt Ep]. subst p'.
  destruct (wrun a p) as [l2 p2]. cbn [fst]. rewrite count_in_app, (Hcnt b Hb). lia.
Qed.

(* ------------------------------------------------------------------------------------------ *)
(* C02 at strategy level: every strategy returns an eligible backend whenever one exists        *)

Lemma wrr_best_flagged p : forall best,
  (match best with Some x => bflag x = true | None => True end) ->
  match wrr_best best p with
  | Some x => bflag x = true /\ (best = Some x \/ In x p)
  | None => best = None /\ forall y, In y p -> bflag y = false
  end.
Proof.
  induction p as [|b t IH]; intros best Hb; cbn [wrr_best].
  - destruct best as [x|]; [split; [exact Hb|left; reflexivity]|split; [reflexivity|intros y []]].
  - destruct (bflag b) eqn:Ef.
    + assert (Hnew : match wrr_best (Some b) t with
                     | Some x => bflag x = true /\ (In x (b :: t))
                     | None => False end).
      { specialize (IH (Some b) Ef). destruct (wrr_best (Some b) t) as [r|]; [|destruct IH; discriminate].
        destruct IH as [Hr Hor]. split; [exact Hr|]. destruct Hor as [E|Hin]; [inversion E; subst; left; reflexivity|right; exact Hin]. }
      destruct best as [x|].
      * destruct (bcw x <? bcw b).
        -- destruct (wrr_best (Some b) t) as [r|]; [|destruct Hnew]. destruct Hnew as [Hr Hin]. split; [exact Hr|right; exact Hin].
        -- specialize (IH (Some x) Hb). destruct (wrr_best (Some x) t) as [r|]; [|destruct IH; discriminate].
           destruct IH as [Hr Hor]. split; [exact Hr|]. destruct Hor as [E|Hin]; [left; exact E|right; right; exact Hin].
      * destruct (wrr_best (Some b) t) as [r|]; [|destruct Hnew]. destruct Hnew as [Hr Hin]. split; [exact Hr|right; exact Hin].
    + specialize (IH best Hb). destruct (wrr_best best t) as [r|].
      * destruct IH as [Hr Hor]. split; [exact Hr|]. destruct Hor as [E|Hin]; [left; exact E|right; right; exact Hin].
      * destruct IH as [E Hall]. split; [exact E|]. intros y [->|Hy]; auto.
Qed.

Lemma wrr_bump_flags p : map bflag (wrr_bump p) = map bflag p /\ map bid (wrr_bump p) = map bid p.
Proof.
  unfold wrr_bump. rewrite !map_map. split; apply map_ext; intros b; destruct (bflag b) eqn:E; cbn; auto.
Qed.

Lemma In_map_flag (p q : list backend) :
  map bflag p = map bflag q -> map bid p = map bid q ->
  forall y, In y q -> exists x, In x p /\ bflag x = bflag y /\ bid x = bid y.
Proof.
  revert q. induction p as [|a t IH]; intros q Hf Hi y Hy; destruct q as [|c u]; cbn [map] in *; try discriminate; [destruct Hy|].
  inversion Hf. inversion Hi. destruct Hy as [->|Hy].
  - exists a. split; [left; reflexivity|auto].
  - destruct (IH u H1 H3 y Hy) as (x & Hx & E1 & E2). exists x. split; [right; exact Hx|auto].
Qed.

(* the pick of each strategy: flagged, and a member of the pool by identity; None only if nothing is flagged *)
Theorem pick_eligible s r :
  0 <= sctr s -> sctr s + zlen (spool s) < 18446744073709551616 ->
  zlen (healthy (spool s)) < 2147483648 ->
  (forall x, In x (spool s) -> bactive x < 2147483647) ->
  match fst (s_pick s r) with
  | Some b => bflag b = true /\ In (bid b) (map bid (spool s))
  | None => forall y, In y (spool s) -> bflag y = false
  end.
Proof.
  intros Hc Hw Hlen Hact. unfold s_pick. destruct (skd s).
  - (* RR *)
    destruct (rr_pick (spool s) (sctr s)) as [ob c'] eqn:E. cbn [fst].
    destruct ob as [b|].
    + unfold rr_pick in E. destruct (spool s) as [|x t] eqn:Ep; [inversion E|]. rewrite <- Ep in *.
      destruct (rr_scan_flagged _ _ _ _ _ E) as [Hin Hf]. split; [exact Hf|apply in_map; exact Hin].
    + intros y Hy. destruct (bflag y) eqn:Ef; [|reflexivity]. exfalso.
      destruct (rr_finds_flagged (spool s) (sctr s) Hc Hw (ex_intro _ y (conj Hy Ef))) as (b & c2 & E2 & _).
      rewrite E in E2. discriminate.
  - (* LC *)
    cbn [fst]. destruct (lc_pick (spool s)) as [b|] eqn:E.
    + unfold lc_pick in E. pose proof (lc_scan_spec (spool s) None 2147483647 I) as H. rewrite E in H.
      destruct H as (Hin & Hf & _). split; [exact Hf|]. destruct Hin as [Hin|Hin]; [apply in_map; exact Hin|discriminate].
    + intros y Hy. destruct (bflag y) eqn:Ef; [|reflexivity]. exfalso.
      destruct (lc_min (spool s) (ex_intro _ y (conj Hy Ef)) Hact) as (b & E2 & _). rewrite E in E2. discriminate.
  - (* WRR *)
    unfold wrr_pick. pose proof (wrr_best_flagged (wrr_bump (spool s)) None I) as H.
    destruct (wrr_bump_flags (spool s)) as [Ef Ei].
    destruct (wrr_best None (wrr_bump (spool s))) as [x|]; cbn [fst].
    + destruct H as [Hf [E|Hin]]; [discriminate|]. split; [exact Hf|]. rewrite <- Ei. apply in_map. exact Hin.
    + destruct H as [_ Hall]. intros y Hy.
      destruct (In_map_flag (wrr_bump (spool s)) (spool s) Ef Ei y Hy) as (x & Hx & E1 & _).
      rewrite <- E1. apply Hall. exact Hx.
  - (* IPH *)
    cbn [fst]. destruct (healthy (spool s)) as [|h0 ht] eqn:Eh.
    + unfold iph_pick. rewrite Eh. intros y Hy. destruct (bflag y) eqn:Ef; [|reflexivity]. exfalso.
      assert (In y (healthy (spool s))) by (unfold healthy; apply filter_In; auto). rewrite Eh in H. destruct H.
    + rewrite <- Eh in Hlen. destruct (hash_valid (spool s) r ltac:(rewrite Eh; discriminate) Hlen) as [(b & E & Hin) _].
      rewrite E. unfold healthy in Hin. apply filter_In in Hin. destruct Hin as [Hin Hf]. split; [exact Hf|apply in_map; exact Hin].
  - (* IPHC *)
    cbn [fst]. destruct (healthy (spool s)) as [|h0 ht] eqn:Eh.
    + unfold iphc_pick. rewrite Eh. intros y Hy. destruct (bflag y) eqn:Ef; [|reflexivity]. exfalso.
      assert (In y (healthy (spool s))) by (unfold healthy; apply filter_In; auto). rewrite Eh in H. destruct H.
    + rewrite <- Eh in Hlen. destruct (hash_valid (spool s) r ltac:(rewrite Eh; discriminate) Hlen) as [_ (b & E & Hin)].
      rewrite E. unfold healthy in Hin. apply filter_In in Hin. destruct Hin as [Hin Hf]. split; [exact Hf|apply in_map; exact Hin].
Qed.
