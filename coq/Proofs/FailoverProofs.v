(* C02, the composition: a request is answered "no healthy backend" only if every pooled backend is inside its unhealthy
   window at that moment.  Needs: object identities in the pool are pairwise distinct (an invariant of every reachable
   state, proved below), the post-condition of the lazy expiry of the whole pool, and the eligibility of every strategy. *)
From Helios Require Import Base.Prelude Base.Wrap Base.Bytes Model.Hash Model.Strategy Model.ClientIP
                           Model.Limiter Model.Breaker Model.LB Proofs.StrategyProofs Proofs.LBProofs.

Local Arguments Z.add : simpl never.
Local Arguments Z.sub : simpl never.
Local Arguments Z.mul : simpl never.
Local Arguments zlen : simpl never.

(* ---------- identities ---------- *)
Definition keeps_id (f : backend -> backend) : Prop := forall b, bid (f b) = bid b.

Lemma upd_id_ids id f p : keeps_id f -> map bid (upd_id id f p) = map bid p.
Proof.
  intros Hf. unfold upd_id. rewrite map_map. apply map_ext. intros b. destruct (Z.eqb (bid b) id); [apply Hf|reflexivity].
Qed.

Lemma keeps_set_flag v : keeps_id (set_flag v). Proof. intros b; reflexivity. Qed.
Lemma keeps_set_until v : keeps_id (set_until v). Proof. intros b; reflexivity. Qed.
Lemma keeps_set_active v : keeps_id (set_active v). Proof. intros b; reflexivity. Qed.
Lemma keeps_set_cw v : keeps_id (set_cw v). Proof. intros b; reflexivity. Qed.

Lemma find_id_in id p b : find_id id p = Some b -> In b p /\ bid b = id.
Proof.
  induction p as [|x t IH]; cbn [find_id]; [discriminate|].
  destruct (Z.eqb (bid x) id) eqn:E.
  - intros H. injection H as <-. split; [left; reflexivity|apply Z.eqb_eq; exact E].
  - intros H. destruct (IH H) as [A B]. split; [right; exact A|exact B].
Qed.

Lemma find_id_some id p : In id (map bid p) -> exists b, find_id id p = Some b.
Proof.
  induction p as [|x t IH]; cbn [map find_id]; [intros []|].
  destruct (Z.eqb (bid x) id) eqn:E; [eauto|].
  intros [H|H]; [apply Z.eqb_neq in E; congruence|apply IH; exact H].
Qed.

(* with distinct identities, the object found by id is THE object of the pool with that id *)
Lemma find_id_unique id p x : NoDup (map bid p) -> In x p -> bid x = id -> find_id id p = Some x.
Proof.
  induction p as [|y t IH]; cbn [map find_id]; intros Hnd Hin Hid; [destruct Hin|].
  inversion Hnd as [|a l Hnin Hnd']; subst.
  destruct Hin as [->|Hin].
  - rewrite Z.eqb_refl. reflexivity.
  - destruct (Z.eqb (bid y) (bid x)) eqn:E.
    + apply Z.eqb_eq in E. exfalso. apply Hnin. rewrite E. apply in_map. exact Hin.
    + apply IH; auto.
Qed.

Lemma map_ext_in_id {A} (f : A -> A) (l : list A) : (forall x, In x l -> f x = x) -> map f l = l.
Proof. intros H. rewrite <- (map_id l) at 2. apply map_ext_in. exact H. Qed.

(* ---------- the lazy expiry of the whole pool ---------- *)
Definition expire (t : Z) (b : backend) : backend :=
  if negb (bflag b) && (buntil b <? t) then set_flag true b else b.

Lemma expire_flag t b : bflag (expire t b) = negb (in_window b t).
Proof.
  unfold expire, in_window. destruct (bflag b) eqn:Ef; cbn [negb andb]; [rewrite Ef; reflexivity|].
  destruct (buntil b <? t) eqn:E; cbn [bflag set_flag]; [|rewrite Ef]; lia.
Qed.

Lemma expire_id t b : bid (expire t b) = bid b.
Proof. unfold expire. destruct (negb (bflag b) && (buntil b <? t)); reflexivity. Qed.

(* pool after the objects whose id is in [ids] were looked at *)
Definition expire_some (t : Z) (ids : list Z) (p : list backend) : list backend :=
  map (fun b => if memZ (bid b) ids then expire t b else b) p.

Lemma memZ_In x l : memZ x l = true <-> In x l.
Proof.
  induction l as [|y t IH]; cbn [memZ In]; [split; [discriminate|intros []]|].
  rewrite orb_true_iff, IH, Z.eqb_eq. split; intros [H|H]; auto.
Qed.

Lemma pool_upd_obj s id f : pool (upd_obj s id f) = upd_id id f (pool s).
Proof. reflexivity. Qed.
Lemma pool_mirror_health s n h : pool (mirror_health s n h) = pool s.
Proof. reflexivity. Qed.
Lemma now_upd_obj s id f : now (upd_obj s id f) = now s. Proof. reflexivity. Qed.
Lemma now_mirror_health s n h : now (mirror_health s n h) = now s. Proof. reflexivity. Qed.

Lemma is_healthy_pool s b :
  In b (pool s) -> NoDup (map bid (pool s)) ->
  pool (snd (is_healthy s b)) = expire_some (now s) [bid b] (pool s) /\ now (snd (is_healthy s b)) = now s.
Proof.
  intros Hin Hnd. unfold is_healthy, expire_some.
  assert (Hsame : forall (g : backend -> backend), (forall x, In x (pool s) -> bid x = bid b -> g x = x) ->
            (forall x, In x (pool s) -> bid x <> bid b -> g x = x) -> map g (pool s) = pool s).
  { intros g H1 H2. rewrite <- (map_id (pool s)) at 2. apply map_ext_in. intros x Hx.
    destruct (Z.eq_dec (bid x) (bid b)); auto. }
  assert (Huniq : forall x, In x (pool s) -> bid x = bid b -> x = b).
  { intros x Hx He. pose proof (find_id_unique (bid b) (pool s) x Hnd Hx He) as A.
    pose proof (find_id_unique (bid b) (pool s) b Hnd Hin eq_refl) as B. congruence. }
  destruct (bflag b) eqn:Ef; cbn [snd].
  - split; [|reflexivity]. symmetry. apply map_ext_in_id. intros x Hx. cbn [memZ]. rewrite orb_false_r.
    destruct (Z.eqb (bid x) (bid b)) eqn:E; [|reflexivity]. apply Z.eqb_eq in E. rewrite (Huniq x Hx E).
    unfold expire. rewrite Ef. reflexivity.
  - destruct (buntil b <? now s) eqn:El; cbn [snd].
    + rewrite pool_mirror_health, pool_upd_obj, now_mirror_health, now_upd_obj. split; [|reflexivity].
      unfold upd_id. apply map_ext_in. intros x Hx. cbn [memZ]. rewrite orb_false_r.
      destruct (Z.eqb (bid x) (bid b)) eqn:E; [|reflexivity]. apply Z.eqb_eq in E. rewrite (Huniq x Hx E).
      unfold expire. rewrite Ef, El. reflexivity.
    + split; [|reflexivity]. symmetry. apply map_ext_in_id. intros x Hx. cbn [memZ]. rewrite orb_false_r.
      destruct (Z.eqb (bid x) (bid b)) eqn:E; [|reflexivity]. apply Z.eqb_eq in E. rewrite (Huniq x Hx E).
      unfold expire. rewrite Ef, El. reflexivity.
Qed.

Lemma expire_some_ids t ids p : map bid (expire_some t ids p) = map bid p.
Proof.
  unfold expire_some. rewrite map_map. apply map_ext. intros b. destruct (memZ (bid b) ids); [apply expire_id|reflexivity].
Qed.

Lemma expire_idem t b : expire t (expire t b) = expire t b.
Proof.
  unfold expire. destruct (bflag b) eqn:Ef; cbn [negb andb]; [rewrite Ef; reflexivity|].
  destruct (buntil b <? t) eqn:E; cbn [bflag set_flag buntil negb andb]; [reflexivity|rewrite Ef, E; reflexivity].
Qed.

Lemma expire_some_compose t id ids p :
  expire_some t ids (expire_some t [id] p) = expire_some t (id :: ids) p.
Proof.
  unfold expire_some. rewrite map_map. apply map_ext. intros b. cbn [memZ]. rewrite orb_false_r.
  destruct (Z.eqb (bid b) id) eqn:E; cbn [orb].
  - rewrite expire_id. destruct (memZ (bid b) ids); [apply expire_idem|reflexivity].
  - reflexivity.
Qed.

Lemma refresh_ids_pool ids : forall s,
  NoDup (map bid (pool s)) -> (forall id, In id ids -> In id (map bid (pool s))) ->
  pool (refresh_ids ids s) = expire_some (now s) ids (pool s) /\ now (refresh_ids ids s) = now s.
Proof.
  induction ids as [|id t IH]; intros s Hnd Hsub; cbn [refresh_ids].
  - split; [|reflexivity]. unfold expire_some. cbn [memZ]. symmetry. apply map_id.
  - destruct (find_id_some id (pool s) (Hsub id (or_introl eq_refl))) as [b Hb].
    unfold find_obj. rewrite Hb. destruct (find_id_in id (pool s) b Hb) as [Hin Hid].
    destruct (is_healthy_pool s b Hin Hnd) as [Hp Hn]. rewrite Hid in Hp.
    destruct (IH (snd (is_healthy s b))) as [A B].
    + rewrite Hp, expire_some_ids. exact Hnd.
    + intros x Hx. rewrite Hp, expire_some_ids. apply Hsub. right. exact Hx.
    + rewrite A, B, Hp, Hn. split; [apply expire_some_compose|reflexivity].
Qed.

Lemma refresh_all_pool s :
  NoDup (map bid (pool s)) -> pool (refresh_all s) = map (expire (now s)) (pool s) /\ now (refresh_all s) = now s.
Proof.
  intros Hnd. unfold refresh_all. destruct (refresh_ids_pool (map bid (pool s)) s Hnd (fun id H => H)) as [A B].
  split; [|exact B]. rewrite A. unfold expire_some. apply map_ext_in. intros b Hb.
  replace (memZ (bid b) (map bid (pool s))) with true; [reflexivity|]. symmetry. apply memZ_In. apply in_map. exact Hb.
Qed.

(* ---------- the strategies hand out an object of the pool that is flagged ---------- *)
Lemma pick_eligible_obj s r :
  0 <= sctr s -> sctr s + zlen (spool s) < 18446744073709551616 ->
  zlen (healthy (spool s)) < 2147483648 -> (forall x, In x (spool s) -> bactive x < 2147483647) ->
  match fst (s_pick s r) with
  | Some b => exists x, In x (spool s) /\ bid x = bid b /\ bflag x = true
  | None => forall y, In y (spool s) -> bflag y = false
  end.
Proof.
  intros Hc Hw Hlen Hact. pose proof (pick_eligible s r Hc Hw Hlen Hact) as H.
  destruct (fst (s_pick s r)) as [b|] eqn:E; [|exact H].
  unfold s_pick in E. destruct (skd s).
  - destruct (rr_pick (spool s) (sctr s)) as [ob c'] eqn:E2. cbn [fst] in E. subst ob.
    unfold rr_pick in E2. destruct (spool s) as [|x t] eqn:Ep; [inversion E2|]. rewrite <- Ep in *.
    destruct (rr_scan_flagged _ _ _ _ _ E2) as [Hin Hf]. exists b. auto.
  - cbn [fst] in E. unfold lc_pick in E. pose proof (lc_scan_spec (spool s) None 2147483647 I) as L. rewrite E in L.
    destruct L as (Hin & Hf & _). destruct Hin as [Hin|Hin]; [exists b; auto|discriminate].
  - unfold wrr_pick in E. pose proof (wrr_best_flagged (wrr_bump (spool s)) None I) as L.
    destruct (wrr_bump_flags (spool s)) as [Ef Ei].
    destruct (wrr_best None (wrr_bump (spool s))) as [x|]; cbn [fst] in E; [|discriminate]. injection E as <-.
    destruct L as [Hf [E0|Hin]]; [discriminate|].
    destruct (In_map_flag (spool s) (wrr_bump (spool s)) (eq_sym Ef) (eq_sym Ei) x Hin) as (y & Hy & E1 & E2).
    exists y. split; [exact Hy|]. split; [exact E2|congruence].
  - cbn [fst] in E. destruct (healthy (spool s)) as [|h0 ht] eqn:Eh; [unfold iph_pick in E; rewrite Eh in E; discriminate|].
    rewrite <- Eh in Hlen. destruct (hash_valid (spool s) r ltac:(rewrite Eh; discriminate) Hlen) as [(b' & E' & Hin) _].
    rewrite E in E'. injection E' as <-. unfold healthy in Hin. apply filter_In in Hin. destruct Hin as [Hin Hf]. exists b. auto.
  - cbn [fst] in E. destruct (healthy (spool s)) as [|h0 ht] eqn:Eh; [unfold iphc_pick in E; rewrite Eh in E; discriminate|].
    rewrite <- Eh in Hlen. destruct (hash_valid (spool s) r ltac:(rewrite Eh; discriminate) Hlen) as [_ (b' & E' & Hin)].
    rewrite E in E'. injection E' as <-. unfold healthy in Hin. apply filter_In in Hin. destruct Hin as [Hin Hf]. exists b. auto.
Qed.

(* a pick changes neither the identities nor the flags of the pool (running weights and the counter only) *)
Lemma s_pick_keeps s r :
  map bid (spool (snd (s_pick s r))) = map bid (spool s) /\ map bflag (spool (snd (s_pick s r))) = map bflag (spool s).
Proof.
  unfold s_pick. destruct (skd s); cbn [snd spool]; auto.
  - destruct (rr_pick (spool s) (sctr s)); cbn; auto.
  - unfold wrr_pick. destruct (wrr_bump_flags (spool s)) as [Ef Ei].
    destruct (wrr_best None (wrr_bump (spool s))) as [x|]; cbn [snd spool]; [|auto].
    split.
    + rewrite upd_id_ids by apply keeps_set_cw. exact Ei.
    + unfold upd_id. rewrite map_map. rewrite <- Ef. apply map_ext. intros b. destruct (Z.eqb (bid b) (bid x)); reflexivity.
Qed.

Lemma flag_by_id (p q : list backend) x y :
  map bid p = map bid q -> map bflag p = map bflag q -> NoDup (map bid p) ->
  In x p -> In y q -> bid x = bid y -> bflag x = bflag y.
Proof.
  revert q. induction p as [|a t IH]; intros q Hi Hf Hnd Hx Hy Hid; destruct q as [|c u]; cbn [map] in *; try discriminate; [destruct Hx|].
  injection Hi as Hi1 Hi2. injection Hf as Hf1 Hf2. inversion Hnd as [|z l Hnin Hnd']; subst.
  destruct Hx as [->|Hx], Hy as [->|Hy]; auto.
  - exfalso. apply Hnin. rewrite Hid, Hi2. apply in_map. exact Hy.
  - exfalso. apply Hnin. rewrite Hi1, <- Hid. apply in_map. exact Hx.
  - apply (IH u); auto.
Qed.

(* ---------- the composition ---------- *)
(* numeric side conditions of the strategies (counter below 2^64, fewer than 2^31 backends and in-flight requests) *)
Definition sane (s : lb) : Prop :=
  0 <= sctr (ss s) /\ sctr (ss s) + zlen (pool s) < 18446744073709551616 /\ zlen (pool s) < 2147483648
  /\ (forall x, In x (pool s) -> bactive x < 2147483647).

Lemma healthy_len_le p : zlen (healthy p) <= zlen p.
Proof. unfold healthy, zlen. induction p as [|b t IH]; cbn [filter length]; [lia|]. destruct (bflag b); cbn [length]; lia. Qed.

(* after the lazy expiry, one round of the loop already decides: a flagged backend exists => it is dispatched *)
Lemma find_healthy_loop_none fuel s r :
  NoDup (map bid (pool s)) -> sane s -> (0 < fuel)%nat ->
  fst (find_healthy_loop fuel s r) = None -> forall y, In y (pool s) -> bflag y = false.
Proof.
  intros Hnd (Hc & Hw & Hl & Ha) Hfuel Hnone. destruct fuel as [|f]; [lia|]. cbn [find_healthy_loop] in Hnone.
  pose proof (pick_eligible_obj (ss s) r Hc Hw ltac:(pose proof (healthy_len_le (spool (ss s))); unfold pool in Hl; lia) Ha) as Hp.
  destruct (s_pick_keeps (ss s) r) as [Ki Kf].
  destruct (s_pick (ss s) r) as [ob ss'] eqn:Es. cbn [fst snd] in *.
  destruct ob as [b|]; [|exact Hp].
  exfalso. destruct Hp as (x & Hx & Hid & Hf).
  (* the object with that identity in the state after the pick *)
  assert (Hin' : In (bid b) (map bid (spool ss'))) by (rewrite Ki, <- Hid; apply in_map; exact Hx).
  destruct (find_id_some (bid b) (spool ss') Hin') as [b' Hb'].
  unfold find_obj in Hnone. change (pool (with_ss s ss')) with (spool ss') in Hnone. rewrite Hb' in Hnone.
  destruct (find_id_in _ _ _ Hb') as [Hb'in Hb'id].
  assert (Hflag : bflag b' = true).
  { rewrite <- Hf. symmetry. apply (flag_by_id (spool (ss s)) (spool ss') x b'); auto. congruence. }
  unfold is_healthy in Hnone. rewrite Hflag in Hnone. cbn [fst snd] in Hnone.
  change (pool (with_ss s ss')) with (spool ss') in Hnone. rewrite Hb' in Hnone. discriminate.
Qed.

Lemma sane_refresh s : NoDup (map bid (pool s)) -> sane s -> sane (refresh_all s) /\ NoDup (map bid (pool (refresh_all s))).
Proof.
  intros Hnd (Hc & Hw & Hl & Ha). destruct (refresh_all_pool s Hnd) as [Hp _].
  assert (Hss : sctr (ss (refresh_all s)) = sctr (ss s)).
  { unfold refresh_all. generalize (map bid (pool s)). intros ids. revert s Hnd Hc Hw Hl Ha Hp. induction ids as [|id t IH]; intros s Hnd Hc Hw Hl Ha Hp; cbn [refresh_ids]; [reflexivity|].
    destruct (find_obj s id) as [b|]; [|apply IH; auto; destruct (refresh_all_pool s Hnd); auto].
    unfold is_healthy. destruct (bflag b); cbn [snd]; [apply IH; auto|]. destruct (buntil b <? now s); cbn [snd]; [|apply IH; auto].
    set (s1 := mirror_health (upd_obj s (bid b) (set_flag true)) (bname b) true).
    assert (E1 : sctr (ss s1) = sctr (ss s)) by reflexivity.
    assert (P1 : map bid (pool s1) = map bid (pool s)) by (subst s1; rewrite pool_mirror_health, pool_upd_obj; apply upd_id_ids; apply keeps_set_flag).
    rewrite <- E1. apply IH; try (rewrite ?E1; assumption).
    - rewrite P1. exact Hnd.
    - rewrite E1. unfold zlen in *. rewrite <- (map_length bid (pool s1)), P1, map_length. exact Hw.
    - unfold zlen in *. rewrite <- (map_length bid (pool s1)), P1, map_length. exact Hl.
    - intros x Hx. subst s1. rewrite pool_mirror_health, pool_upd_obj in Hx. unfold upd_id in Hx. apply in_map_iff in Hx as [y [<- Hy]].
      destruct (Z.eqb (bid y) (bid b)); cbn; apply Ha; exact Hy.
    - destruct (refresh_all_pool s1 ltac:(rewrite P1; exact Hnd)); auto. }
  assert (Hlen : zlen (pool (refresh_all s)) = zlen (pool s)) by (rewrite Hp; unfold zlen; rewrite map_length; reflexivity).
  split.
  - repeat split; rewrite ?Hss, ?Hlen; auto.
    intros x Hx. rewrite Hp in Hx. apply in_map_iff in Hx as [y [<- Hy]]. unfold expire.
    destruct (negb (bflag y) && (buntil y <? now s)); cbn; apply Ha; exact Hy.
  - rewrite Hp, map_map. erewrite map_ext; [exact Hnd|]. intros b. apply expire_id.
Qed.

Theorem find_healthy_none s r :
  NoDup (map bid (pool s)) -> sane s ->
  fst (find_healthy 3 s r) = None -> forall b, In b (pool s) -> in_window b (now s) = true.
Proof.
  intros Hnd Hs Hnone b Hb. unfold find_healthy in Hnone.
  destruct (sane_refresh s Hnd Hs) as [Hs' Hnd'].
  pose proof (find_healthy_loop_none 3 (refresh_all s) r Hnd' Hs' ltac:(lia) Hnone) as Hall.
  destruct (refresh_all_pool s Hnd) as [Hp _].
  specialize (Hall (expire (now s) b)). rewrite Hp in Hall. specialize (Hall (in_map _ _ _ Hb)).
  rewrite expire_flag in Hall. destruct (in_window b (now s)); [reflexivity|discriminate].
Qed.

(* ---------- object identities are pairwise distinct in every reachable state ---------- *)
From Coq Require Import Permutation.

Definition IdsOK (s : lb) : Prop := NoDup (map bid (pool s)) /\ Forall (fun b => bid b < nextid s) (pool s).

(* [same_ids s s']: the step changed neither the identities in the pool nor the id counter *)
Definition same_ids (s s' : lb) : Prop := map bid (pool s') = map bid (pool s) /\ nextid s' = nextid s.

Lemma same_ids_refl s : same_ids s s. Proof. split; reflexivity. Qed.
Lemma same_ids_trans a b c : same_ids a b -> same_ids b c -> same_ids a c.
Proof. intros [A1 A2] [B1 B2]. split; congruence. Qed.

Lemma same_ids_ok s s' : same_ids s s' -> IdsOK s -> IdsOK s'.
Proof.
  intros [Hi Hn] [Hnd Hlt]. split; [rewrite Hi; exact Hnd|].
  rewrite Forall_forall in *. intros x Hx. rewrite Hn.
  assert (In (bid x) (map bid (pool s))) by (rewrite <- Hi; apply in_map; exact Hx).
  apply in_map_iff in H as [y [Hy Hyin]]. rewrite <- Hy. apply Hlt. exact Hyin.
Qed.

Lemma same_ids_upd_obj s id f : keeps_id f -> same_ids s (upd_obj s id f).
Proof. intros Hf. split; [rewrite pool_upd_obj; apply upd_id_ids; exact Hf|reflexivity]. Qed.

Lemma same_ids_is_healthy s b : same_ids s (snd (is_healthy s b)).
Proof.
  unfold is_healthy. destruct (bflag b); [apply same_ids_refl|]. destruct (buntil b <? now s); [|apply same_ids_refl].
  cbn [snd]. split; [rewrite pool_mirror_health, pool_upd_obj; apply upd_id_ids; apply keeps_set_flag|reflexivity].
Qed.

Lemma same_ids_refresh ids : forall s, same_ids s (refresh_ids ids s).
Proof.
  induction ids as [|id t IH]; intros s; cbn [refresh_ids]; [apply same_ids_refl|].
  destruct (find_obj s id) as [b|]; [|apply IH].
  eapply same_ids_trans; [apply same_ids_is_healthy|apply IH].
Qed.

Lemma same_ids_pick s r : same_ids s (with_ss s (snd (s_pick (ss s) r))).
Proof. destruct (s_pick_keeps (ss s) r) as [Ki _]. split; [exact Ki|reflexivity]. Qed.

Lemma same_ids_loop fuel : forall s r, same_ids s (snd (find_healthy_loop fuel s r)).
Proof.
  induction fuel as [|f IH]; intros s r; cbn [find_healthy_loop]; [apply same_ids_refl|].
  pose proof (same_ids_pick s r) as Hp. destruct (s_pick (ss s) r) as [ob ss']. cbn [snd] in Hp.
  destruct ob as [b|]; [|exact Hp].
  destruct (find_obj (with_ss s ss') (bid b)) as [b'|]; [|exact Hp].
  pose proof (same_ids_is_healthy (with_ss s ss') b') as Hh.
  destruct (is_healthy (with_ss s ss') b') as [h s2]. cbn [snd] in *.
  destruct h; cbn [snd]; [eapply same_ids_trans; eauto|].
  eapply same_ids_trans; [exact Hp|]. eapply same_ids_trans; [exact Hh|apply IH].
Qed.

Lemma same_ids_find_healthy fuel s r : same_ids s (snd (find_healthy fuel s r)).
Proof. unfold find_healthy. eapply same_ids_trans; [apply same_ids_refresh|apply same_ids_loop]. Qed.

Lemma same_ids_begin cfg s rid q : same_ids s (fst (lb_begin cfg s rid q)).
Proof.
  unfold lb_begin.
  set (s0 := with_counts s (total s + 1) (succ s) (failed s) (rlim s)).
  assert (H0 : same_ids s s0) by (split; reflexivity).
  destruct (c_lim cfg).
  - destruct (allow (c_lcfg cfg) {| lnow := now s0; lbuckets := lbuckets (lims s0) |} (q_client q)) as [l' ok].
    set (s1 := with_lims s0 l'). assert (H1 : same_ids s s1) by (split; reflexivity).
    destruct ok; cbn [negb]; [|cbn [fst]; split; reflexivity].
    destruct (c_brk cfg).
    + destruct (begin (c_bcfg cfg) (advance (brk s1) (now s1 - bnow (brk s1))) rid) as [b' code].
      set (s2 := with_brk s1 b'). assert (H2 : same_ids s s2) by (split; reflexivity).
      destruct (Z.eqb code 1); [cbn [fst]; split; reflexivity|]. destruct (Z.eqb code 2); [cbn [fst]; split; reflexivity|].
      pose proof (same_ids_find_healthy 3 s2 (q_h q)) as Hf. destruct (find_healthy 3 s2 (q_h q)) as [ob s3]. cbn [snd] in Hf.
      destruct ob as [b|]; cbn [fst].
      * eapply same_ids_trans; [exact H2|]. eapply same_ids_trans; [exact Hf|].
        split; [cbn; rewrite upd_id_ids by apply keeps_set_active; reflexivity|reflexivity].
      * eapply same_ids_trans; [exact H2|]. eapply same_ids_trans; [exact Hf|]. split; reflexivity.
    + cbn [Z.eqb]. pose proof (same_ids_find_healthy 3 s1 (q_h q)) as Hf. destruct (find_healthy 3 s1 (q_h q)) as [ob s3]. cbn [snd] in Hf.
      destruct ob as [b|]; cbn [fst].
      * eapply same_ids_trans; [exact H1|]. eapply same_ids_trans; [exact Hf|].
        split; [cbn; rewrite upd_id_ids by apply keeps_set_active; reflexivity|reflexivity].
      * eapply same_ids_trans; [exact H1|]. eapply same_ids_trans; [exact Hf|]. split; reflexivity.
  - cbn [negb]. destruct (c_brk cfg).
    + destruct (begin (c_bcfg cfg) (advance (brk s0) (now s0 - bnow (brk s0))) rid) as [b' code].
      set (s2 := with_brk s0 b'). assert (H2 : same_ids s s2) by (split; reflexivity).
      destruct (Z.eqb code 1); [cbn [fst]; split; reflexivity|]. destruct (Z.eqb code 2); [cbn [fst]; split; reflexivity|].
      pose proof (same_ids_find_healthy 3 s2 (q_h q)) as Hf. destruct (find_healthy 3 s2 (q_h q)) as [ob s3]. cbn [snd] in Hf.
      destruct ob as [b|]; cbn [fst].
      * eapply same_ids_trans; [exact H2|]. eapply same_ids_trans; [exact Hf|].
        split; [cbn; rewrite upd_id_ids by apply keeps_set_active; reflexivity|reflexivity].
      * eapply same_ids_trans; [exact H2|]. eapply same_ids_trans; [exact Hf|]. split; reflexivity.
    + cbn [Z.eqb]. pose proof (same_ids_find_healthy 3 s0 (q_h q)) as Hf. destruct (find_healthy 3 s0 (q_h q)) as [ob s3]. cbn [snd] in Hf.
      destruct ob as [b|]; cbn [fst].
      * eapply same_ids_trans; [exact H0|]. eapply same_ids_trans; [exact Hf|].
        split; [cbn; rewrite upd_id_ids by apply keeps_set_active; reflexivity|reflexivity].
      * eapply same_ids_trans; [exact H0|]. eapply same_ids_trans; [exact Hf|]. split; reflexivity.
Qed.

Lemma keeps_compose f g : keeps_id f -> keeps_id g -> keeps_id (fun b => f (g b)).
Proof. intros Hf Hg b. rewrite Hf. apply Hg. Qed.

Lemma same_ids_mark cfg s id name : same_ids s (mark_unhealthy cfg s id name).
Proof.
  unfold mark_unhealthy. split; [|reflexivity]. rewrite pool_mirror_health, pool_upd_obj. apply upd_id_ids.
  intros b. reflexivity.
Qed.

Lemma same_ids_passive cfg s id name : same_ids s (passive_fail cfg s id name).
Proof.
  unfold passive_fail. destruct (c_pthr cfg <=? _); [|split; reflexivity].
  destruct (same_ids_mark cfg (with_pass s (update name ((match lookup name (pass s) with Some n => n | None => 0 end) + 1) (pass s))) id name) as [A B].
  split; [exact A|exact B].
Qed.

Lemma same_ids_end cfg s rid o : same_ids s (fst (lb_end cfg s rid o)).
Proof.
  unfold lb_end. destruct (lookup rid (infl s)) as [[id name]|]; [|apply same_ids_refl].
  set (s0 := with_infl s (remove_infl rid (infl s))). assert (H0 : same_ids s s0) by (split; reflexivity).
  assert (Hrel : forall x, same_ids x (mirror_gauge (upd_obj x id (set_active (match find_obj x id with Some b => bactive b - 1 | None => 0 end))) name
                                                   (match find_obj x id with Some b => bactive b - 1 | None => 0 end))).
  { intros x. split; [|reflexivity]. cbn. rewrite upd_id_ids by apply keeps_set_active. reflexivity. }
  destruct o as [code|].
  - set (s1 := record_backend (record_response s0 (code <? 500)) name (code <? 500)).
    assert (H1 : same_ids s s1) by (split; reflexivity).
    set (s2 := if (500 <=? code) && c_passive cfg then passive_fail cfg s1 id name else s1).
    assert (H2 : same_ids s s2).
    { subst s2. destruct ((500 <=? code) && c_passive cfg); [eapply same_ids_trans; [exact H1|apply same_ids_passive]|exact H1]. }
    cbn [fst]. destruct (c_brk cfg); cbn [fst].
    + eapply same_ids_trans; [exact H2|]. destruct (Hrel s2) as [A B]. split; [exact A|exact B].
    + eapply same_ids_trans; [exact H2|apply Hrel].
  - cbn [fst]. destruct (c_brk cfg); cbn [fst].
    + eapply same_ids_trans; [exact H0|]. destruct (Hrel s0) as [A B]. split; [exact A|exact B].
    + eapply same_ids_trans; [exact H0|]. destruct (Hrel s0) as [A B]. split; [exact A|exact B].
Qed.

Lemma same_ids_probe cfg s id ok : same_ids s (lb_probe cfg s id ok).
Proof.
  unfold lb_probe. destruct (stopped s); [apply same_ids_refl|]. destruct (find_obj s id) as [b|]; [|apply same_ids_refl].
  pose proof (same_ids_is_healthy s b) as Hh. destruct (is_healthy s b) as [h s1]. cbn [snd] in Hh.
  destruct h; cbn [negb]; [|exact Hh]. destruct ok.
  - eapply same_ids_trans; [exact Hh|]. split; [rewrite pool_mirror_health, pool_upd_obj; apply upd_id_ids; apply keeps_set_flag|reflexivity].
  - eapply same_ids_trans; [exact Hh|apply same_ids_mark].
Qed.

(* remove_swap keeps distinctness and only ever drops objects *)
Lemma remove_swap_perm id p : exists q, Permutation (remove_swap id p ++ q) p.
Proof.
  induction p as [|b t IH]; cbn [remove_swap]; [exists []; constructor|].
  destruct (Z.eqb (bid b) id).
  - destruct (rev t) as [|l r] eqn:Er.
    + exists [b]. assert (t = []) by (destruct t; [reflexivity|]; apply (f_equal (@length _)) in Er; rewrite rev_length in Er; discriminate). subst. constructor. constructor.
    + assert (Ht : t = rev r ++ [l]) by (rewrite <- (rev_involutive t), Er; reflexivity).
      assert (Hrl : removelast t = rev r) by (rewrite Ht; apply removelast_last).
      exists [b]. rewrite Hrl, Ht. cbn [app].
      apply Permutation_trans with (b :: l :: rev r); [|constructor; apply Permutation_cons_append].
      apply Permutation_trans with (l :: b :: rev r); [|constructor].
      constructor. apply Permutation_sym. apply Permutation_cons_append.
  - destruct IH as [q Hq]. exists q. cbn [app]. constructor. exact Hq.
Qed.

Lemma nodup_app_l {A} (a b : list A) : NoDup (a ++ b) -> NoDup a.
Proof.
  induction a as [|x t IH]; intros H; [constructor|]. cbn [app] in H. inversion H as [|y l Hn Hd]; subst.
  constructor; [intros Hin; apply Hn; apply in_or_app; left; exact Hin|apply IH; exact Hd].
Qed.

Lemma remove_swap_nodup id p : NoDup (map bid p) -> NoDup (map bid (remove_swap id p)).
Proof.
  intros H. destruct (remove_swap_perm id p) as [q Hq].
  assert (Hp : Permutation (map bid (remove_swap id p) ++ map bid q) (map bid p)) by (rewrite <- map_app; apply Permutation_map; exact Hq).
  apply (Permutation_NoDup (Permutation_sym Hp)) in H. apply nodup_app_l in H. exact H.
Qed.

Lemma remove_swap_in id p x : In x (remove_swap id p) -> In x p.
Proof.
  intros H. destruct (remove_swap_perm id p) as [q Hq]. apply (Permutation_in x Hq). apply in_or_app. left. exact H.
Qed.

Lemma s_remove_ok s id :
  NoDup (map bid (spool s)) -> NoDup (map bid (spool (s_remove s id)))
  /\ forall x, In x (map bid (spool (s_remove s id))) -> In x (map bid (spool s)).
Proof.
  intros H. unfold s_remove. cbn [spool]. destruct (mem_id id (spool s)); [|auto].
  rewrite map_map. split.
  - rewrite (map_ext (fun x => bid (set_cw 0 x)) bid) by (intros; reflexivity). apply remove_swap_nodup; exact H.
  - intros x Hx. rewrite (map_ext (fun x => bid (set_cw 0 x)) bid) in Hx by (intros; reflexivity). apply in_map_iff in Hx as [y [<- Hy]].
    apply in_map. apply (remove_swap_in id). exact Hy.
Qed.

Lemma remove_named_ok name snapshot : forall s, IdsOK s -> IdsOK (remove_named name snapshot s).
Proof.
  induction snapshot as [|b t IH]; intros s H; cbn [remove_named]; [exact H|].
  destruct (Z.eqb (bname b) name); [|apply IH; exact H]. apply IH.
  destruct H as [Hnd Hlt]. destruct (s_remove_ok (ss s) (bid b) Hnd) as [A B]. split; [exact A|].
  rewrite Forall_forall in *. intros x Hx. cbn [nextid with_dead with_ss].
  assert (Hin : In (bid x) (map bid (pool s))) by (apply B; apply in_map; exact Hx).
  apply in_map_iff in Hin as [y [Hy Hyin]]. rewrite <- Hy. apply Hlt. exact Hyin.
Qed.

Lemma NoDup_snoc (l : list Z) x : NoDup l -> ~ In x l -> NoDup (l ++ [x]).
Proof.
  induction l as [|y t IH]; intros Hnd Hn; cbn [app]; [constructor; [intros []|constructor]|].
  inversion Hnd as [|z zs Hy Ht]; subst. constructor.
  - intros Hin. apply in_app_or in Hin as [Hin|[Heq|[]]]; [contradiction|]. apply Hn. left. symmetry. exact Heq.
  - apply IH; [assumption|]. intros Hin. apply Hn. right. exact Hin.
Qed.

Lemma add_ok s name w a : IdsOK s -> IdsOK (fst (lb_add s name w a)).
Proof.
  intros [Hnd Hlt]. unfold lb_add. destruct a; cbn [negb fst]; [|split; assumption].
  destruct (has_name name (pool s)); cbn [fst]; [split; assumption|].
  split.
  - cbn. rewrite map_app. cbn [map bid set_cw]. apply NoDup_snoc; [exact Hnd|].
    intros Hin. apply in_map_iff in Hin as [y [Hy Hyin]]. rewrite Forall_forall in Hlt. specialize (Hlt y Hyin). lia.
  - rewrite Forall_forall in *. cbn. intros x Hx. apply in_app_or in Hx as [Hx|[<-|[]]]; [specialize (Hlt x Hx); lia|cbn; lia].
Qed.

Lemma strategy_ok s k : IdsOK s -> IdsOK (fst (lb_set_strategy s k)).
Proof.
  intros [Hnd Hlt]. unfold lb_set_strategy. destruct ((0 <=? k) && (k <=? 4)); cbn [fst]; [|split; assumption].
  split.
  - cbn. rewrite map_map. erewrite map_ext; [exact Hnd|]. intros b; reflexivity.
  - rewrite Forall_forall in *. cbn. intros x Hx. apply in_map_iff in Hx as [y [<- Hy]]. cbn. apply Hlt. exact Hy.
Qed.

Theorem lb_step_ids cfg s o : IdsOK s -> IdsOK (fst (lb_step cfg s o)).
Proof.
  intros H. destruct o; cbn [lb_step].
  - pose proof (same_ids_begin cfg s rid q) as Hs. destruct (lb_begin cfg s rid q) as [s' [k x]]. cbn [fst] in *. eapply same_ids_ok; eauto.
  - pose proof (same_ids_end cfg s rid o) as Hs. destruct (lb_end cfg s rid o) as [s' st]. cbn [fst] in *. eapply same_ids_ok; eauto.
  - cbn [fst]. destruct H. split; assumption.
  - pose proof (add_ok s name w addr_ok H) as Hs. destruct (lb_add s name w addr_ok) as [s' r]. exact Hs.
  - cbn [fst]. apply remove_named_ok. exact H.
  - pose proof (strategy_ok s k H) as Hs. destruct (lb_set_strategy s k) as [s' r]. exact Hs.
  - exact H.
  - exact H.
  - cbn [fst]. eapply same_ids_ok; [apply same_ids_probe|exact H].
  - cbn [fst]. destruct H. split; assumption.
  - cbn [fst]. destruct H. split; assumption.
Qed.

Theorem lb_run_ids cfg ops : forall s, IdsOK s -> IdsOK (fst (lb_run cfg s ops)).
Proof.
  induction ops as [|o t IH]; intros s H; cbn [lb_run]; [exact H|].
  pose proof (lb_step_ids cfg s o H) as H1. destruct (lb_step cfg s o) as [s1 out]. cbn [fst] in H1.
  specialize (IH s1 H1). destruct (lb_run cfg s1 t) as [s2 outs]. exact IH.
Qed.

Lemma init_ids cfg k t0 : IdsOK (lb_init cfg k t0).
Proof. split; cbn; constructor. Qed.

(* ---------- C02: 503 "no healthy backend" only if every pooled backend is inside its window ---------- *)
Theorem begin_503_all_in_window cfg s rid q s' :
  IdsOK s -> sane s -> lb_begin cfg s rid q = (s', (1, 4)) ->
  forall b, In b (pool s) -> in_window b (now s) = true.
Proof.
  intros [Hnd _] Hsane Hb. unfold lb_begin in Hb.
  set (s0 := with_counts s (total s + 1) (succ s) (failed s) (rlim s)) in *.
  assert (K : forall x, pool x = pool s -> now x = now s -> ss x = ss s ->
              forall r s3, find_healthy 3 x r = (None, s3) -> forall b, In b (pool s) -> in_window b (now s) = true).
  { intros x Hp Hn Hss r s3 Hf b Hin. rewrite <- Hn. apply (find_healthy_none x r).
    - rewrite Hp. exact Hnd.
    - destruct Hsane as (A & B & C & D). unfold sane. rewrite Hss, Hp. auto.
    - rewrite Hf. reflexivity.
    - rewrite Hp. exact Hin. }
  destruct (c_lim cfg).
  - destruct (allow (c_lcfg cfg) {| lnow := now s0; lbuckets := lbuckets (lims s0) |} (q_client q)) as [l' ok].
    destruct ok; cbn [negb] in Hb; [|inversion Hb].
    destruct (c_brk cfg).
    + destruct (begin (c_bcfg cfg) (advance (brk (with_lims s0 l')) (now (with_lims s0 l') - bnow (brk (with_lims s0 l')))) rid) as [b' code].
      destruct (Z.eqb code 1); [inversion Hb|]. destruct (Z.eqb code 2); [inversion Hb|].
      destruct (find_healthy 3 (with_brk (with_lims s0 l') b') (q_h q)) as [ob s3] eqn:Ef.
      destruct ob as [bb|]; [inversion Hb|]. eapply (K (with_brk (with_lims s0 l') b')); eauto.
    + cbn [Z.eqb] in Hb. destruct (find_healthy 3 (with_lims s0 l') (q_h q)) as [ob s3] eqn:Ef.
      destruct ob as [bb|]; [inversion Hb|]. eapply (K (with_lims s0 l')); eauto.
  - cbn [negb] in Hb. destruct (c_brk cfg).
    + destruct (begin (c_bcfg cfg) (advance (brk s0) (now s0 - bnow (brk s0))) rid) as [b' code].
      destruct (Z.eqb code 1); [inversion Hb|]. destruct (Z.eqb code 2); [inversion Hb|].
      destruct (find_healthy 3 (with_brk s0 b') (q_h q)) as [ob s3] eqn:Ef.
      destruct ob as [bb|]; [inversion Hb|]. eapply (K (with_brk s0 b')); eauto.
    + cbn [Z.eqb] in Hb. destruct (find_healthy 3 s0 (q_h q)) as [ob s3] eqn:Ef.
      destruct ob as [bb|]; [inversion Hb|]. eapply (K s0); eauto.
Qed.

(* ---------- C02: whatever findHealthyBackend returns is marked eligible, hence outside its window ---------- *)
Lemma find_obj_in s id b : find_obj s id = Some b -> bid b = id.
Proof.
  unfold find_obj. destruct (find_id id (pool s)) as [x|] eqn:E.
  - intros H. injection H as <-. apply (find_id_in _ _ _ E).
  - intros H. apply (find_id_in _ _ _ H).
Qed.

Lemma find_obj_upd_flag s id b :
  find_obj s id = Some b ->
  find_obj (mirror_health (upd_obj s id (set_flag true)) (bname b) true) id = Some (set_flag true b).
Proof.
  unfold find_obj. intros H.
  change (pool (mirror_health (upd_obj s id (set_flag true)) (bname b) true)) with (upd_id id (set_flag true) (pool s)).
  change (dead (mirror_health (upd_obj s id (set_flag true)) (bname b) true)) with (upd_id id (set_flag true) (dead s)).
  rewrite !find_id_upd by (intros; reflexivity). rewrite Z.eqb_refl.
  destruct (find_id id (pool s)) as [x|]; cbn [option_map]; [injection H as <-; reflexivity|].
  rewrite H. reflexivity.
Qed.

Lemma find_healthy_loop_some fuel : forall s r b,
  fst (find_healthy_loop fuel s r) = Some b -> bflag b = true.
Proof.
  induction fuel as [|f IH]; intros s r b H; cbn [find_healthy_loop] in H; [discriminate|].
  destruct (s_pick (ss s) r) as [ob ss']. destruct ob as [b0|]; [|discriminate].
  destruct (find_obj (with_ss s ss') (bid b0)) as [b'|] eqn:Eb; [|discriminate].
  pose proof (find_obj_in _ _ _ Eb) as Hid.
  unfold is_healthy in H. destruct (bflag b') eqn:Ef.
  - cbn [fst] in H. rewrite Eb in H. injection H as <-. exact Ef.
  - destruct (buntil b' <? now (with_ss s ss')).
    + cbn [fst] in H. rewrite Hid in H. rewrite (find_obj_upd_flag _ _ _ Eb) in H. injection H as <-. reflexivity.
    + apply (IH _ _ _ H).
Qed.

Theorem find_healthy_some fuel s r b t : fst (find_healthy fuel s r) = Some b -> in_window b t = false.
Proof. intros H. apply flag_not_in_window. apply (find_healthy_loop_some fuel _ _ _ H). Qed.
