(* C15, the decode statement: for every well-formed handler script (headers, interim responses, at most one final WriteHeader,
   then writes and flushes - what httputil.ReverseProxy does) the client of the gzip wrapper sees the handler's status, interim
   responses, content type and application headers, and DECODES - under the Content-Encoding it receives - exactly the body a
   client of the bare handler decodes.  By simulation between the wrapper (gz_run / gz_finish) driving the connection machine
   and the handler driving it directly. *)
From Helios Require Import Base.Prelude Model.RespWriter Proofs.WriterProofs.

Local Arguments Z.add : simpl never.
Local Arguments Z.sub : simpl never.
Local Arguments zlen : simpl never.

Definition raw_call (c : wcall) : bool := match c with CWrite (PGz _) => false | _ => true end.
Definition raw_script (cs : list wcall) : bool := forallb raw_call cs.

Definition pos_raw (p : payload) : Prop := exists n, p = PRaw n /\ 0 < n.

Lemma raw_total_snoc l n : raw_total (l ++ [PRaw n]) = option_map (fun s => s + n) (raw_total l).
Proof.
  induction l as [|p t IH]; cbn [app raw_total]; [cbn; f_equal; lia|].
  destruct p as [m|m]; [|reflexivity]. rewrite IH. destruct (raw_total t); cbn [option_map]; [f_equal; lia|reflexivity].
Qed.

Lemma pos_raw_total l : Forall pos_raw l -> exists s, raw_total l = Some s /\ 0 <= s /\ (l = [] <-> s = 0).
Proof.
  induction l as [|p t IH]; intros H; cbn [raw_total].
  - exists 0. split; [reflexivity|]. split; [lia|tauto].
  - inversion H as [|x xs (n & -> & Hn) Ht]; subst. destruct (IH Ht) as (s & E & Hs & _). rewrite E. cbn [option_map].
    exists (n + s). split; [reflexivity|]. split; [lia|]. split; [discriminate|lia].
Qed.

(* decoding a body of raw pieces: under "gzip" only the empty body decodes (to nothing) *)
Lemma decode_raw ce l : Forall pos_raw l ->
  decode ce l = match ce with Some 1 => (match l with [] => Some 0 | _ => None end) | _ => raw_total l end.
Proof.
  intros H. unfold decode. destruct ce as [z|]; [|reflexivity].
  destruct (Z.eq_dec z 1) as [->|Hz]; [|destruct z as [|[p|p|]|]; try reflexivity; exfalso; apply Hz; reflexivity].
  destruct l as [|p t]; [reflexivity|]. inversion H as [|x xs (n & -> & _) _]; subst. destruct t; reflexivity.
Qed.

(* ---------- the connection machine, by projections ---------- *)
Definition cur (b : base) : Z * hmap := match b_commit b with Some x => x | None => (200, b_hdr b) end.

Lemma bs_write b p :
  let b' := base_step b (CWrite p) in
  b_interim b' = b_interim b /\ b_hdr b' = b_hdr b /\ b_commit b' = Some (cur b)
  /\ b_body b' = if (payload_len p <=? 0) || negb (body_allowed (fst (cur b))) then b_body b else b_body b ++ [p].
Proof.
  cbn zeta. unfold cur. cbn [base_step]. unfold commit. destruct (b_commit b) as [[st h]|] eqn:E; cbn [b_commit fst].
  - rewrite E. cbn [fst]. destruct ((payload_len p <=? 0) || negb (body_allowed st)); cbn; rewrite ?E; auto.
  - destruct ((payload_len p <=? 0) || negb (body_allowed 200)); cbn; auto.
Qed.

Lemma bs_flush b :
  let b' := base_step b CFlush in
  b_interim b' = b_interim b /\ b_hdr b' = b_hdr b /\ b_commit b' = Some (cur b) /\ b_body b' = b_body b.
Proof.
  cbn zeta. unfold cur. cbn [base_step]. unfold commit. destruct (b_commit b) as [[st h]|] eqn:E; cbn; rewrite ?E; auto.
Qed.

Lemma bs_head b c : b_commit b = None -> is_interim c = false ->
  let b' := base_step b (CHead c) in
  b_interim b' = b_interim b /\ b_hdr b' = b_hdr b /\ b_commit b' = Some (c, b_hdr b) /\ b_body b' = b_body b.
Proof. intros E Hi. cbn zeta. cbn [base_step]. rewrite E, Hi. unfold commit. rewrite E. cbn. auto. Qed.

Lemma step_commit_write b p : base_step (commit b 200) (CWrite p) = base_step b (CWrite p).
Proof. cbn [base_step]. unfold commit. destruct (b_commit b) as [[st h]|] eqn:E; cbn; rewrite ?E; reflexivity. Qed.
Lemma step_commit_flush b : base_step (commit b 200) CFlush = base_step b CFlush.
Proof. cbn [base_step]. unfold commit. destruct (b_commit b) as [[st h]|] eqn:E; cbn; rewrite ?E; reflexivity. Qed.

Lemma cur_commit b : cur (commit b 200) = cur b.
Proof. unfold cur, commit. destruct (b_commit b) as [[st h]|] eqn:E; cbn; rewrite ?E; reflexivity. Qed.

(* ---------- the simulation invariant ---------- *)
Definition gz_status_of (w : gzw) : Z := if g_wrote w then g_status w else 200.

Record GInv (w : gzw) (D T : base) : Prop := {
  gi_interim : b_interim T = b_interim D;
  gi_hdrT : b_hdr T = g_hdr w;
  gi_hdrD : b_hdr D = g_hdr w;
  gi_rawD : Forall pos_raw (b_body D);
  gi_buf : 0 <= g_buf w;
  gi_final : is_interim (gz_status_of w) = false;
  gi_mode :
    if g_stream w then
      b_commit T = b_commit D /\ b_commit D <> None
      /\ Forall pos_raw (b_body T) /\ raw_total (b_body T) = raw_total (b_body D) /\ (b_body T = [] <-> b_body D = [])
    else
      b_commit T = None /\ b_body T = [] /\ g_committed w = false
      /\ cur D = (gz_status_of w, g_hdr w)
      /\ raw_total (b_body D) = Some (if body_allowed (gz_status_of w) then g_buf w else 0)
}.

Definition Pristine (w : gzw) (D : base) : Prop :=
  g_stream w = false /\ b_commit D = None /\ g_wrote w = false /\ g_buf w = 0 /\ b_body D = [].

Lemma ginv_init : GInv gzw0 base0 base0 /\ Pristine gzw0 base0.
Proof. split; [constructor; cbn; auto; try lia; constructor|repeat split]. Qed.

Section Cfg.
Variable cfg : gzcfg.

(* header calls while nothing is decided yet *)
Lemma step_header w D T c :
  (exists k v, c = CSet k v) \/ (exists k, c = CDel k) -> Pristine w D -> GInv w D T ->
  GInv (fst (gz_step cfg w c)) (base_step D c) (base_run T (snd (gz_step cfg w c))) /\ Pristine (fst (gz_step cfg w c)) (base_step D c).
Proof.
  intros Hc (Hs & Hd & Hw & Hb & Hbd) [I1 I2 I3 I4 I5 I6 I7]. rewrite Hs in I7. destruct I7 as (A & B & C & E & F).
  assert (Hst : forall h, gz_status_of {| g_status := g_status w; g_wrote := g_wrote w; g_committed := g_committed w; g_buf := g_buf w;
                                           g_bufparts := g_bufparts w; g_stream := g_stream w; g_hdr := h |} = gz_status_of w) by reflexivity.
  destruct Hc as [(k & v & ->)|(k & ->)]; cbn [gz_step fst snd base_run fold_left base_step].
  - split; [|repeat split; cbn; assumption].
    constructor; cbn [b_interim b_hdr b_body b_commit g_hdr g_buf g_stream]; rewrite ?Hst.
    + exact I1.
    + rewrite I2. reflexivity.
    + rewrite I3. reflexivity.
    + exact I4.
    + exact I5.
    + exact I6.
    + rewrite Hs. split; [exact A|]. split; [exact B|]. split; [exact C|]. unfold cur. cbn [b_commit b_hdr]. rewrite Hd.
      unfold gz_status_of in *. rewrite Hw in *. split; [rewrite I3; reflexivity|exact F].
  - split; [|repeat split; cbn; assumption].
    constructor; cbn [b_interim b_hdr b_body b_commit g_hdr g_buf g_stream]; rewrite ?Hst.
    + exact I1.
    + rewrite I2. reflexivity.
    + rewrite I3. reflexivity.
    + exact I4.
    + exact I5.
    + exact I6.
    + rewrite Hs. split; [exact A|]. split; [exact B|]. split; [exact C|]. unfold cur. cbn [b_commit b_hdr]. rewrite Hd.
      unfold gz_status_of in *. rewrite Hw in *. split; [rewrite I3; reflexivity|exact F].
Qed.

Lemma step_interim w D T c :
  is_interim c = true -> Pristine w D -> GInv w D T ->
  GInv (fst (gz_step cfg w (CHead c))) (base_step D (CHead c)) (base_run T (snd (gz_step cfg w (CHead c))))
  /\ Pristine (fst (gz_step cfg w (CHead c))) (base_step D (CHead c)).
Proof.
  intros Hi (Hs & Hd & Hw & Hb & Hbd) [I1 I2 I3 I4 I5 I6 I7]. rewrite Hs in I7. destruct I7 as (A & B & C & E & F).
  cbn [gz_step]. rewrite Hw, Hi. cbn [fst snd base_run fold_left base_step]. rewrite Hd, A, Hi.
  split; [|repeat split; cbn; assumption].
  constructor; cbn [b_interim b_hdr b_body b_commit g_hdr g_buf g_stream].
  - rewrite I1. reflexivity.
  - exact I2.
  - exact I3.
  - exact I4.
  - exact I5.
  - exact I6.
  - rewrite Hs. split; [reflexivity|]. split; [exact B|]. split; [exact C|]. split; [|exact F].
    unfold cur in *. cbn [b_commit b_hdr]. rewrite Hd in E. exact E.
Qed.

Lemma step_final w D T c :
  is_interim c = false -> Pristine w D -> GInv w D T ->
  GInv (fst (gz_step cfg w (CHead c))) (base_step D (CHead c)) (base_run T (snd (gz_step cfg w (CHead c)))).
Proof.
  intros Hi (Hs & Hd & Hw & Hb & Hbd) [I1 I2 I3 I4 I5 I6 I7]. rewrite Hs in I7. destruct I7 as (A & B & C & E & F).
  cbn [gz_step]. rewrite Hw, Hi. cbn [fst snd base_run fold_left].
  destruct (bs_head D c Hd Hi) as (H1 & H2 & H3 & H4). cbn zeta in *.
  constructor; cbn [g_hdr g_buf g_stream g_wrote g_status g_committed].
  - rewrite H1. exact I1.
  - exact I2.
  - rewrite H2. exact I3.
  - rewrite H4. exact I4.
  - exact I5.
  - unfold gz_status_of. cbn [g_wrote g_status]. exact Hi.
  - rewrite Hs. split; [exact A|]. split; [exact B|]. split; [exact C|].
    unfold cur. rewrite H3. unfold gz_status_of. cbn [g_wrote g_status]. split; [rewrite I3; reflexivity|].
    rewrite H4, Hbd, Hb. cbn. destruct (body_allowed c); reflexivity.
Qed.

(* the wrapper goes over to streaming: the header goes out with the handler's status, the buffered bytes follow *)
Lemma stream_switch w D T :
  g_stream w = false -> GInv w D T ->
  GInv (fst (gz_stream w)) (commit D 200) (base_run T (snd (gz_stream w))) /\ g_stream (fst (gz_stream w)) = true.
Proof.
  intros Hs [I1 I2 I3 I4 I5 I6 I7]. rewrite Hs in I7. destruct I7 as (A & B & C & E & F).
  unfold gz_stream. rewrite Hs. unfold gz_commit. rewrite C. cbn [fst snd].
  fold (gz_status_of w). set (st := gz_status_of w) in *.
  split; [|reflexivity].
  rewrite base_run_app. change (base_run T [CHead st]) with (base_step T (CHead st)).
  destruct (bs_head T st A I6) as (H1 & H2 & H3 & H4). cbn zeta in *.
  set (T1 := base_step T (CHead st)) in *.
  assert (HcurT1 : cur T1 = (st, g_hdr w)) by (unfold cur; rewrite H3, I2; reflexivity).
  assert (HDc : b_commit (commit D 200) = Some (st, g_hdr w)).
  { unfold commit. destruct (b_commit D) as [[sd hd]|] eqn:Ed; cbn [b_commit]; [rewrite Ed|]; unfold cur in E; rewrite Ed in E; rewrite E; reflexivity. }
  assert (HDb : b_body (commit D 200) = b_body D) by (unfold commit; destruct (b_commit D) as [[sd hd]|]; reflexivity).
  assert (HDh : b_hdr (commit D 200) = b_hdr D) by (unfold commit; destruct (b_commit D) as [[sd hd]|]; reflexivity).
  assert (HDi : b_interim (commit D 200) = b_interim D) by (unfold commit; destruct (b_commit D) as [[sd hd]|]; reflexivity).
  destruct (pos_raw_total _ I4) as (s & Es & Hs0 & Hse). rewrite Es in F. injection F as Fs.
  destruct (0 <? g_buf w) eqn:Eb.
  - cbn [base_run fold_left]. destruct (bs_write T1 (PRaw (g_buf w))) as (W1 & W2 & W3 & W4). cbn zeta in *.
    rewrite HcurT1 in W3, W4. cbn [fst payload_len] in W4.
    constructor; cbn [g_hdr g_buf g_stream g_wrote g_status g_committed]; try congruence; try lia.
    + unfold gz_status_of. cbn [g_wrote g_status]. destruct (g_wrote w); exact I6.
    + split; [congruence|]. split; [congruence|]. rewrite HDb, W4, H4, B.
      destruct (body_allowed st) eqn:Ea.
      * replace (g_buf w <=? 0) with false by lia. cbn [orb negb app].
        split; [constructor; [exists (g_buf w); split; [reflexivity|lia]|constructor]|]. split; [cbn; rewrite Es; f_equal; lia|].
        split; [discriminate|]. intros Hd. apply Hse in Hd. lia.
      * rewrite orb_true_r. split; [constructor|]. split; [cbn; rewrite Es; f_equal; lia|]. split; [intros _; apply Hse; lia|reflexivity].
  - cbn [base_run fold_left app].
    constructor; cbn [g_hdr g_buf g_stream g_wrote g_status g_committed]; try congruence; try lia.
    + unfold gz_status_of. cbn [g_wrote g_status]. destruct (g_wrote w); exact I6.
    + split; [congruence|]. split; [congruence|]. rewrite HDb, H4, B.
      split; [constructor|]. assert (Hz : s = 0) by (rewrite Fs; destruct (body_allowed st); lia).
      split; [rewrite Es; cbn [raw_total]; f_equal; symmetry; exact Hz|]. split; [intros _; apply Hse; exact Hz|reflexivity].
Qed.

(* a write or a flush once the wrapper streams *)
Lemma tail_stream w D T c :
  (exists n, c = CWrite (PRaw n)) \/ c = CFlush -> g_stream w = true -> GInv w D T ->
  GInv (fst (gz_step cfg w c)) (base_step D c) (base_run T (snd (gz_step cfg w c))) /\ g_stream (fst (gz_step cfg w c)) = true.
Proof.
  intros Hc Hs [I1 I2 I3 I4 I5 I6 I7]. rewrite Hs in I7. destruct I7 as (A & B & C & E & F).
  assert (Hcur : cur T = cur D) by (unfold cur; rewrite A; destruct (b_commit D); [reflexivity|contradiction]).
  destruct Hc as [(n & ->)| ->].
  - cbn [gz_step]. rewrite Hs. cbn [fst snd base_run fold_left]. split; [|exact Hs].
    destruct (bs_write T (PRaw n)) as (T1 & T2 & T3 & T4). destruct (bs_write D (PRaw n)) as (D1 & D2 & D3 & D4). cbn zeta in *.
    rewrite Hcur in T3, T4. cbn [payload_len] in *.
    constructor; try congruence.
    + rewrite D4. destruct ((n <=? 0) || negb (body_allowed (fst (cur D)))) eqn:Ec; [exact I4|].
      apply Forall_app. split; [exact I4|]. constructor; [|constructor]. exists n. split; [reflexivity|]. apply orb_false_iff in Ec as [Ec _]. lia.
    + rewrite Hs. split; [congruence|]. split; [rewrite D3; discriminate|]. rewrite T4, D4.
      destruct ((n <=? 0) || negb (body_allowed (fst (cur D)))) eqn:Ec; [auto|].
      assert (Hn : 0 < n) by (apply orb_false_iff in Ec as [Ec _]; lia).
      split; [apply Forall_app; split; [exact C|]; constructor; [exists n; auto|constructor]|].
      split; [rewrite !raw_total_snoc, E; reflexivity|]. split; intros Hx; destruct (b_body T), (b_body D); discriminate.
  - cbn [gz_step]. unfold gz_stream. rewrite Hs. cbn [fst snd app base_run fold_left]. split; [|exact Hs].
    destruct (bs_flush T) as (T1 & T2 & T3 & T4). destruct (bs_flush D) as (D1 & D2 & D3 & D4). cbn zeta in *. rewrite Hcur in T3.
    constructor; try congruence.
    rewrite Hs. split; [congruence|]. split; [rewrite D3; discriminate|]. rewrite T4, D4. auto.
Qed.

(* a Write without a WriteHeader before it fixes the status at 200: nothing observable changes *)
Definition imply200 (w : gzw) : gzw :=
  if g_wrote w then w
  else {| g_status := 200; g_wrote := true; g_committed := g_committed w; g_buf := g_buf w; g_bufparts := g_bufparts w;
          g_stream := g_stream w; g_hdr := g_hdr w |}.

Lemma imply200_inv w D T : GInv w D T -> GInv (imply200 w) D T /\ g_stream (imply200 w) = g_stream w.
Proof.
  intros H. unfold imply200. destruct (g_wrote w) eqn:Ew; [split; [exact H|reflexivity]|].
  split; [|reflexivity]. destruct H as [I1 I2 I3 I4 I5 I6 I7].
  assert (Hst : gz_status_of w = 200) by (unfold gz_status_of; rewrite Ew; reflexivity).
  constructor; cbn [g_hdr g_buf g_stream g_committed].
  - exact I1.
  - exact I2.
  - exact I3.
  - exact I4.
  - exact I5.
  - unfold gz_status_of. cbn [g_wrote g_status]. reflexivity.
  - destruct (g_stream w); [exact I7|]. destruct I7 as (A & B & C & E & F). rewrite Hst in E, F.
    unfold gz_status_of. cbn [g_wrote g_status]. auto.
Qed.

Lemma gz_step_write_ns w n : g_stream w = false ->
  gz_step cfg w (CWrite (PRaw n)) =
    if gz_cap cfg <? g_buf (imply200 w) + n then (fst (gz_stream (imply200 w)), snd (gz_stream (imply200 w)) ++ [CWrite (PRaw n)])
    else ({| g_status := g_status (imply200 w); g_wrote := g_wrote (imply200 w); g_committed := g_committed (imply200 w);
             g_buf := g_buf (imply200 w) + Z.max 0 n; g_bufparts := g_bufparts (imply200 w) + 1; g_stream := false; g_hdr := g_hdr (imply200 w) |}, []).
Proof.
  intros Hs. unfold imply200. cbn [gz_step payload_len]. rewrite Hs. destruct (g_wrote w) eqn:Ew.
  - destruct (gz_cap cfg <? g_buf w + n); [|reflexivity]. destruct (gz_stream w); reflexivity.
  - cbn [g_buf]. destruct (gz_cap cfg <? g_buf w + n); [|reflexivity].
    match goal with |- context [gz_stream ?x] => destruct (gz_stream x) end. reflexivity.
Qed.

(* a write or a flush in general *)
Lemma tail_step w D T c :
  (exists n, c = CWrite (PRaw n)) \/ c = CFlush -> GInv w D T ->
  GInv (fst (gz_step cfg w c)) (base_step D c) (base_run T (snd (gz_step cfg w c))).
Proof.
  intros Hc H. destruct (g_stream w) eqn:Hs; [apply tail_stream; assumption|].
  destruct Hc as [(n & ->)| ->].
  - rewrite (gz_step_write_ns w n Hs).
    destruct (imply200_inv w D T H) as [H' Hs']. rewrite Hs in Hs'. clear H. set (w' := imply200 w) in *.
    destruct (gz_cap cfg <? g_buf w' + n) eqn:Ecap.
    + (* the buffer would overflow: stream what is buffered, then this write *)
      destruct (stream_switch w' D T Hs' H') as [H1 Hs1].
      destruct (gz_stream w') as [w1 pre] eqn:Eg. cbn [fst snd] in *.
      rewrite base_run_app. rewrite <- (step_commit_write D).
      pose proof (tail_stream w1 (commit D 200) (base_run T pre) (CWrite (PRaw n)) (or_introl (ex_intro _ n eq_refl)) Hs1 H1) as [H2 _].
      cbn [gz_step] in H2. rewrite Hs1 in H2. cbn [fst snd] in H2. exact H2.
    + (* buffered *)
      cbn [fst snd base_run fold_left].
      destruct H' as [I1 I2 I3 I4 I5 I6 I7]. rewrite Hs' in I7. destruct I7 as (A & B & C & E & F).
      destruct (bs_write D (PRaw n)) as (D1 & D2 & D3 & D4). cbn zeta in *. rewrite E in D3, D4. cbn [fst payload_len] in D4.
      assert (Hst : gz_status_of {| g_status := g_status w'; g_wrote := g_wrote w'; g_committed := g_committed w'; g_buf := g_buf w' + Z.max 0 n;
                                    g_bufparts := g_bufparts w' + 1; g_stream := false; g_hdr := g_hdr w' |} = gz_status_of w') by reflexivity.
      constructor; cbn [g_hdr g_buf g_stream g_committed]; try congruence; try lia.
      * rewrite D4. destruct ((n <=? 0) || negb (body_allowed (gz_status_of w'))) eqn:Ec; [exact I4|].
        apply Forall_app. split; [exact I4|]. constructor; [|constructor]. exists n. split; [reflexivity|]. apply orb_false_iff in Ec as [Ec _]. lia.
      * rewrite Hst. split; [exact A|]. split; [exact B|]. split; [exact C|]. split; [unfold cur; rewrite D3; reflexivity|].
        rewrite D4. destruct (body_allowed (gz_status_of w')) eqn:Ea; cbn [negb].
        -- rewrite orb_false_r. destruct (n <=? 0) eqn:En; [rewrite F; f_equal; lia|]. rewrite raw_total_snoc, F. cbn. f_equal. lia.
        -- rewrite orb_true_r. exact F.
  - cbn [gz_step].
    destruct (stream_switch w D T Hs H) as [H1 Hs1].
    destruct (gz_stream w) as [w1 pre] eqn:Eg. cbn [fst snd] in *.
    rewrite base_run_app. rewrite <- (step_commit_flush D).
    pose proof (tail_stream w1 (commit D 200) (base_run T pre) CFlush (or_intror eq_refl) Hs1 H1) as [H2 _].
    cbn [gz_step] in H2. unfold gz_stream in H2. rewrite Hs1 in H2. cbn [fst snd app] in H2. exact H2.
Qed.

(* ---------- whole scripts ---------- *)
Lemma run_tail cs : forall w D T,
  wf_tail cs = true -> raw_script cs = true -> GInv w D T ->
  GInv (fst (gz_run cfg w cs)) (base_run D cs) (base_run T (snd (gz_run cfg w cs))).
Proof.
  induction cs as [|c t IH]; intros w D T Hwf Hraw H; cbn [gz_run]; [exact H|].
  assert (Hc : (exists n, c = CWrite (PRaw n)) \/ c = CFlush).
  { destruct c as [| | |p|]; cbn in Hwf; try discriminate; [|right; reflexivity]. destruct p as [n|n]; [left; eauto|cbn in Hraw; discriminate]. }
  assert (Hwf' : wf_tail t = true) by (destruct Hc as [(n & ->)| ->]; exact Hwf).
  assert (Hraw' : raw_script t = true) by (cbn in Hraw; apply andb_prop in Hraw as [_ Hr]; exact Hr).
  pose proof (tail_step w D T c Hc H) as H1.
  destruct (gz_step cfg w c) as [w1 o1]. cbn [fst snd] in H1.
  specialize (IH w1 (base_step D c) (base_run T o1) Hwf' Hraw' H1).
  destruct (gz_run cfg w1 t) as [w2 o2]. cbn [fst snd] in *. rewrite base_run_app. exact IH.
Qed.

Lemma run_mid cs : forall w D T,
  wf_mid cs = true -> raw_script cs = true -> Pristine w D -> GInv w D T ->
  GInv (fst (gz_run cfg w cs)) (base_run D cs) (base_run T (snd (gz_run cfg w cs))).
Proof.
  induction cs as [|c t IH]; intros w D T Hwf Hraw Hp H; [cbn; exact H|].
  destruct c as [k v|k|code|p|]; try (apply run_tail; [exact Hwf|exact Hraw|exact H]).
  cbn [wf_mid] in Hwf. assert (Hraw' : raw_script t = true) by (cbn in Hraw; exact Hraw).
  cbn [gz_run]. destruct (is_interim code) eqn:Ei.
  - destruct (step_interim w D T code Ei Hp H) as [H1 Hp1].
    destruct (gz_step cfg w (CHead code)) as [w1 o1]. cbn [fst snd] in *.
    specialize (IH w1 (base_step D (CHead code)) (base_run T o1) Hwf Hraw' Hp1 H1).
    destruct (gz_run cfg w1 t) as [w2 o2]. cbn [fst snd] in *. rewrite base_run_app. exact IH.
  - pose proof (step_final w D T code Ei Hp H) as H1.
    destruct (gz_step cfg w (CHead code)) as [w1 o1]. cbn [fst snd] in *.
    pose proof (run_tail t w1 (base_step D (CHead code)) (base_run T o1) Hwf Hraw' H1) as H2.
    destruct (gz_run cfg w1 t) as [w2 o2]. cbn [fst snd] in *. rewrite base_run_app. exact H2.
Qed.

Lemma run_script cs : forall w D T,
  wf_script cs = true -> raw_script cs = true -> Pristine w D -> GInv w D T ->
  GInv (fst (gz_run cfg w cs)) (base_run D cs) (base_run T (snd (gz_run cfg w cs))).
Proof.
  induction cs as [|c t IH]; intros w D T Hwf Hraw Hp H; [cbn; exact H|].
  assert (Hraw' : raw_script t = true) by (cbn in Hraw; apply andb_prop in Hraw as [_ Hr]; exact Hr).
  destruct c as [k v|k|code|p|]; try (apply run_mid; [exact Hwf|exact Hraw|exact Hp|exact H]).
  - cbn [wf_script] in Hwf. cbn [gz_run].
    destruct (step_header w D T (CSet k v) (or_introl (ex_intro _ k (ex_intro _ v eq_refl))) Hp H) as [H1 Hp1].
    destruct (gz_step cfg w (CSet k v)) as [w1 o1]. cbn [fst snd] in *.
    specialize (IH w1 (base_step D (CSet k v)) (base_run T o1) Hwf Hraw' Hp1 H1).
    destruct (gz_run cfg w1 t) as [w2 o2]. cbn [fst snd] in *. rewrite base_run_app. exact IH.
  - cbn [wf_script] in Hwf. cbn [gz_run].
    destruct (step_header w D T (CDel k) (or_intror (ex_intro _ k eq_refl)) Hp H) as [H1 Hp1].
    destruct (gz_step cfg w (CDel k)) as [w1 o1]. cbn [fst snd] in *.
    specialize (IH w1 (base_step D (CDel k)) (base_run T o1) Hwf Hraw' Hp1 H1).
    destruct (gz_run cfg w1 t) as [w2 o2]. cbn [fst snd] in *. rewrite base_run_app. exact IH.
Qed.

(* ---------- what the two clients see ---------- *)
Definition view_eq (a b : cview) : Prop :=
  v_interim a = v_interim b /\ v_status a = v_status b /\ v_ct a = v_ct b /\ v_app a = v_app b /\ v_decoded a = v_decoded b.

Lemma view_commit b : view (commit b 200) = view b.
Proof. unfold view, base_finish. f_equal. unfold commit. destruct (b_commit b) as [[st h]|] eqn:E; cbn; rewrite ?E; reflexivity. Qed.

Lemma view_cur b :
  view b = {| v_interim := b_interim b; v_status := fst (cur b);
              v_ct := (if Z.eqb (fst (cur b)) 304 then None else lookup H_CT (snd (cur b))); v_ce := lookup H_CE (snd (cur b));
              v_app := filter (fun kv => 10 <=? fst kv) (snd (cur b)); v_decoded := decode (lookup H_CE (snd (cur b))) (b_body b);
              v_raw_parts := zlen (b_body b) |}.
Proof.
  unfold view, base_finish, commit, cur. destruct (b_commit b) as [[st h]|] eqn:E; cbn [b_commit]; rewrite ?E; reflexivity.
Qed.

Lemma view_stream w D T : g_stream w = true -> GInv w D T -> view_eq (view T) (view D).
Proof.
  intros Hs [I1 I2 I3 I4 I5 I6 I7]. rewrite Hs in I7. destruct I7 as (A & B & C & E & F).
  assert (Hcur : cur T = cur D) by (unfold cur; rewrite A; destruct (b_commit D); [reflexivity|contradiction]).
  rewrite !view_cur, Hcur. unfold view_eq. cbn [v_interim v_status v_ct v_app v_decoded].
  repeat split; auto. rewrite (decode_raw _ _ C), (decode_raw _ _ I4).
  destruct (lookup H_CE (snd (cur D))) as [z|]; [|exact E]. destruct (Z.eq_dec z 1) as [->|Hz].
  - destruct (b_body T), (b_body D); try reflexivity; [destruct F as [F _]; specialize (F eq_refl); discriminate|destruct F as [_ F]; specialize (F eq_refl); discriminate].
  - destruct z as [|[p|p|]|]; try exact E. exfalso; apply Hz; reflexivity.
Qed.

Lemma filter_app_hdr (h : hmap) k v : k < 10 -> filter (fun kv => 10 <=? fst kv) (update k v h) = filter (fun kv => 10 <=? fst kv) h.
Proof.
  intros Hk. induction h as [|[k' v'] t IH]; cbn [update filter fst].
  - replace (10 <=? k) with false by lia. reflexivity.
  - destruct (Z.eqb k k') eqn:E; cbn [filter fst].
    + apply Z.eqb_eq in E. subst k'. replace (10 <=? k) with false by lia. reflexivity.
    + rewrite IH. reflexivity.
Qed.

Lemma filter_remove_hdr (h : hmap) k : k < 10 -> filter (fun kv => 10 <=? fst kv) (remove_key k h) = filter (fun kv => 10 <=? fst kv) h.
Proof.
  intros Hk. induction h as [|[k' v'] t IH]; cbn [remove_key filter fst]; [reflexivity|].
  destruct (Z.eqb k k') eqn:E; cbn [filter fst].
  - apply Z.eqb_eq in E. subst k'. replace (10 <=? k) with false by lia. exact IH.
  - rewrite IH. reflexivity.
Qed.

(* the end of the exchange *)
Lemma finish_view w D T :
  GInv w D T -> view_eq (view (base_run T (gz_finish cfg w))) (view D).
Proof.
  intros H. unfold gz_finish. destruct (g_stream w) eqn:Hs; [cbn [base_run fold_left]; apply (view_stream w); assumption|].
  destruct (gz_should cfg w) eqn:Esh.
  - (* compressed *)
    destruct H as [I1 I2 I3 I4 I5 I6 I7]. rewrite Hs in I7. destruct I7 as (A & B & C & E & F).
    unfold gz_commit. rewrite C. cbn [app]. fold (gz_status_of w). set (st := gz_status_of w) in *.
    unfold gz_should in Esh. repeat (apply andb_prop in Esh as [Esh ?]).
    assert (Hbuf : 0 < g_buf w) by lia.
    assert (Hce : lookup H_CE (g_hdr w) = None) by (destruct (lookup H_CE (g_hdr w)); [discriminate|reflexivity]).
    cbn [base_run fold_left].
    set (T1 := base_step (base_step T (CSet H_CE 1)) (CDel H_CL)).
    assert (T1c : b_commit T1 = None) by (subst T1; cbn; exact A).
    assert (T1h : b_hdr T1 = remove_key H_CL (update H_CE 1 (g_hdr w))) by (subst T1; cbn; rewrite I2; reflexivity).
    assert (T1i : b_interim T1 = b_interim D) by (subst T1; cbn; exact I1).
    assert (T1b : b_body T1 = []) by (subst T1; cbn; exact B).
    destruct (bs_head T1 st T1c I6) as (G1 & G2 & G3 & G4). cbn zeta in *. set (T2 := base_step T1 (CHead st)) in *.
    destruct (bs_write T2 (PGz (g_buf w))) as (W1 & W2 & W3 & W4). cbn zeta in *.
    assert (HcurT2 : cur T2 = (st, b_hdr T1)) by (unfold cur; rewrite G3; reflexivity).
    rewrite HcurT2 in W3, W4. cbn [fst payload_len] in W4. set (T3 := base_step T2 (CWrite (PGz (g_buf w)))) in *.
    assert (HcurT3 : cur T3 = (st, b_hdr T1)) by (unfold cur; rewrite W3; reflexivity).
    assert (HCE : lookup H_CE (b_hdr T1) = Some 1).
    { rewrite T1h. rewrite lookup_remove_other by (unfold H_CL, H_CE; lia). apply lookup_update_same. }
    rewrite !view_cur, HcurT3, E. unfold view_eq. cbn [fst snd v_interim v_status v_ct v_app v_decoded].
    split; [congruence|]. split; [reflexivity|]. split; [|split].
    + destruct (Z.eqb st 304); [reflexivity|]. rewrite T1h. rewrite lookup_remove_other by (unfold H_CL, H_CT; lia).
      rewrite lookup_update_other by (unfold H_CE, H_CT; lia). reflexivity.
    + rewrite T1h. rewrite filter_remove_hdr by (unfold H_CL; lia). apply filter_app_hdr. unfold H_CE. lia.
    + rewrite HCE, Hce. rewrite W4, G4, T1b. rewrite (decode_raw None _ I4), F. unfold decode.
      destruct (body_allowed st); cbn [negb]; [replace (g_buf w <=? 0) with false by lia; reflexivity|rewrite orb_true_r; reflexivity].
  - (* not compressed: exactly the switch to streaming, at the very end *)
    destruct (stream_switch w D T Hs H) as [H1 Hs1]. unfold gz_stream in H1, Hs1. rewrite Hs in H1, Hs1. cbn [fst snd] in H1.
    destruct (gz_commit w) as [w1 pre]. cbn [fst snd] in *.
    rewrite <- (view_commit D). eapply view_stream; [|exact H1]. reflexivity.
Qed.
End Cfg.

(* C15: for every configuration of the plugin and every well-formed script of a handler that writes its body as it is *)
Theorem gz_decodes cfg ae cs :
  wf_script cs = true -> raw_script cs = true ->
  view_eq (view (base_run base0 (gz_transform cfg ae cs))) (view (base_run base0 cs)).
Proof.
  intros Hwf Hraw. unfold gz_transform. destruct ae; cbn [negb]; [|repeat split].
  destruct ginv_init as [H0 Hp0].
  pose proof (run_script cfg cs gzw0 base0 base0 Hwf Hraw Hp0 H0) as H.
  destruct (gz_run cfg gzw0 cs) as [w out]. cbn [fst snd] in H.
  rewrite base_run_app. apply (finish_view cfg w). exact H.
Qed.
