(* Jump consistent hash: the generated loop equals its hand reading; termination, range, and the
   minimal-remapping lemma jh k (n+1) in {jh k n, n}. *)
From Helios Require Import Base.Prelude Base.Wrap Gen.JumpGen Model.Hash.

Local Arguments Z.mul : simpl never.
Local Arguments Z.add : simpl never.
Local Arguments Z.sub : simpl never.
Local Arguments Z.div : simpl never.
Local Arguments Z.modulo : simpl never.
Local Arguments Z.quot : simpl never.
Local Arguments Z.shiftr : simpl never.
Local Arguments Z.pow : simpl never.

Lemma lcg_range k : 0 <= lcg k < 18446744073709551616.
Proof. unfold lcg. apply Z.mod_pos_bound. lia. Qed.

Lemma shr33_range k : 0 <= k < 18446744073709551616 -> 0 <= Z.shiftr k 33 < 2147483648.
Proof.
  intros H. rewrite Z.shiftr_div_pow2 by lia. change (2 ^ 33) with 8589934592.
  split; [apply Z.div_pos; lia|]. apply Z.div_lt_upper_bound; lia.
Qed.

Lemma quotient_range s : 0 <= s < 2147483648 -> 1 <= 2147483648 / (s + 1) <= 2147483648.
Proof.
  intros H. split.
  - apply Z.div_le_lower_bound; lia.
  - apply Z.div_le_upper_bound; try lia.
Qed.

Lemma nextj_gt k' j : 0 <= k' < 18446744073709551616 -> 0 <= j -> j + 1 <= nextj k' j.
Proof.
  intros Hk Hj. unfold nextj. pose proof (quotient_range _ (shr33_range _ Hk)) as Hq. nia.
Qed.

Lemma nextj_bound k' j : 0 <= k' < 18446744073709551616 -> 0 <= j < 2147483648 ->
  0 <= nextj k' j <= 4611686018427387904.
Proof.
  intros Hk Hj. unfold nextj. pose proof (quotient_range _ (shr33_range _ Hk)) as Hq. nia.
Qed.

(* ---- the generated definitions agree with the hand reading (this is where a changed constant,
        shift, operator or conversion in the source breaks the proof) ---- *)
Lemma gen_init : jh_init_b = -1 /\ jh_init_j = 0.
Proof. split; reflexivity. Qed.

Lemma gen_cond key b j n : -2147483648 <= n < 2147483648 -> jh_cond key b j n = (j <? n).
Proof. intros Hn. unfold jh_cond. rewrite wrap_s64_id by lia. reflexivity. Qed.

Lemma gen_body key b j :
  0 <= key < 18446744073709551616 -> 0 <= j < 2147483648 ->
  jh_body key b j = (lcg key, j, nextj (lcg key) j).
Proof.
  intros Hk Hj. unfold jh_body.
  assert (E1 : wrap_u64 (Z.add (wrap_u64 (Z.mul key 2862933555777941757)) 1) = lcg key).
  { unfold wrap_u64, lcg. rewrite Zplus_mod_idemp_l. reflexivity. }
  rewrite E1.
  pose proof (lcg_range key) as Hl. pose proof (shr33_range _ Hl) as Hs.
  pose proof (quotient_range _ Hs) as Hq.
  rewrite (wrap_u64_id (Z.shiftr (lcg key) 33)) by lia.
  rewrite (wrap_u64_id (Z.add (Z.shiftr (lcg key) 33) 1)) by lia.
  rewrite (wrap_s64_id (Z.add (Z.shiftr (lcg key) 33) 1)) by lia.
  rewrite Z.quot_div_nonneg by lia.
  rewrite (wrap_s64_id (2147483648 / _)) by lia.
  rewrite (wrap_s64_id (Z.add j 1)) by lia.
  unfold nextj. set (q := 2147483648 / (Z.shiftr (lcg key) 33 + 1)) in *.
  rewrite wrap_s64_id by nia.
  reflexivity.
Qed.

Lemma gen_ret key b j : -2147483648 <= b < 2147483648 -> jh_ret key b j = b.
Proof. intros H. unfold jh_ret. apply wrap_s32_id. exact H. Qed.

Lemma loop_eq fuel : forall key b j n,
  0 <= key < 18446744073709551616 -> 0 <= j -> -1 <= b < 2147483648 -> 0 <= n < 2147483648 ->
  jh_loop fuel key b j n = jump fuel key b j n.
Proof.
  induction fuel as [|f IH]; intros key b j n Hk Hj Hb Hn; cbn [jh_loop jump]; [reflexivity|].
  rewrite gen_cond by lia. destruct (j <? n) eqn:E.
  - rewrite gen_body by lia. apply IH.
    + apply lcg_range.
    + pose proof (nextj_gt (lcg key) j (lcg_range key) Hj). lia.
    + lia.
    + exact Hn.
  - rewrite gen_ret by lia. reflexivity.
Qed.

Lemma jump_hash_eq key n :
  0 <= key < 18446744073709551616 -> 0 <= n < 2147483648 ->
  jump_hash key n = jump (Z.to_nat n + 2) key (-1) 0 n.
Proof.
  intros Hk Hn. unfold jump_hash. destruct gen_init as [-> ->]. apply loop_eq; lia.
Qed.

(* ---- termination and range ---- *)
Lemma jump_some fuel : forall key b j n,
  0 <= key < 18446744073709551616 -> 0 <= j -> Z.max 0 (n - j) < Z.of_nat fuel ->
  -1 <= b < n -> (0 <= b \/ j < n) ->
  exists r, jump fuel key b j n = Some r /\ 0 <= r < n.
Proof.
  induction fuel as [|f IH]; intros key b j n Hk Hj Hf Hb Hor.
  - cbn in Hf. exfalso. lia.
  - cbn [jump]. destruct (j <? n) eqn:E.
    + apply IH.
      * apply lcg_range.
      * pose proof (nextj_gt (lcg key) j (lcg_range key) Hj). lia.
      * pose proof (nextj_gt (lcg key) j (lcg_range key) Hj). lia.
      * lia.
      * left. lia.
    + exists b. split; [reflexivity|]. destruct Hor; lia.
Qed.

(* ---- minimal remapping ---- *)
Lemma jump_stop_next key b j n f :
  0 <= key < 18446744073709551616 -> 0 <= j -> n <= j ->
  jump (S (S f)) key b j (n + 1) = jump (S f) key b j n \/ jump (S (S f)) key b j (n + 1) = Some n.
Proof.
  intros Hk Hj Hn.
  change (jump (S (S f)) key b j (n + 1)) with
    (if j <? n + 1 then jump (S f) (lcg key) j (nextj (lcg key) j) (n + 1) else Some b).
  change (jump (S f) key b j n) with
    (if j <? n then jump f (lcg key) j (nextj (lcg key) j) n else Some b).
  pose proof (nextj_gt (lcg key) j (lcg_range key) Hj) as Hgt.
  assert (E : (j <? n) = false) by lia. rewrite E.
  destruct (j <? n + 1) eqn:E1.
  - right. assert (j = n) by lia. subst j. cbn [jump].
    assert (E2 : (nextj (lcg key) n <? n + 1) = false) by lia. rewrite E2. reflexivity.
  - left. reflexivity.
Qed.

Lemma jump_remap fuel : forall key b j n,
  0 <= key < 18446744073709551616 -> 0 <= j -> n - j <= Z.of_nat fuel ->
  jump (S (S fuel)) key b j (n + 1) = jump (S fuel) key b j n
  \/ jump (S (S fuel)) key b j (n + 1) = Some n.
Proof.
  induction fuel as [|f IH]; intros key b j n Hk Hj Hf.
  - apply jump_stop_next; auto. cbn in Hf. lia.
  - destruct (Z.lt_ge_cases j n) as [Hlt|Hge]; [|apply jump_stop_next; auto].
    change (jump (S (S (S f))) key b j (n + 1)) with
      (if j <? n + 1 then jump (S (S f)) (lcg key) j (nextj (lcg key) j) (n + 1) else Some b).
    change (jump (S (S f)) key b j n) with
      (if j <? n then jump (S f) (lcg key) j (nextj (lcg key) j) n else Some b).
    pose proof (nextj_gt (lcg key) j (lcg_range key) Hj) as Hgt.
    assert (E : (j <? n) = true) by lia. assert (E1 : (j <? n + 1) = true) by lia. rewrite E, E1.
    apply IH; [apply lcg_range | lia | lia].
Qed.

(* ---- the theorems about jump_hash (the generated loop) ---- *)
Theorem jump_hash_range key n :
  0 <= key < 18446744073709551616 -> 1 <= n < 2147483648 ->
  exists r, jump_hash key n = Some r /\ 0 <= r < n.
Proof.
  intros Hk Hn. rewrite jump_hash_eq by lia. apply jump_some; try lia.
Qed.

Theorem jump_hash_remap key n :
  0 <= key < 18446744073709551616 -> 1 <= n -> n + 1 < 2147483648 ->
  jump_hash key (n + 1) = jump_hash key n \/ jump_hash key (n + 1) = Some n.
Proof.
  intros Hk Hn Hn1. rewrite !jump_hash_eq by lia.
  replace (Z.to_nat (n + 1) + 2)%nat with (S (S (S (Z.to_nat n)))) by lia.
  replace (Z.to_nat n + 2)%nat with (S (S (Z.to_nat n))) by lia.
  apply jump_remap; lia.
Qed.

Lemma fnv_step_range h b : 0 <= fnv_step h b < 4294967296.
Proof. unfold fnv_step. apply Z.mod_pos_bound. lia. Qed.

Lemma fnv32a_range bytes : 0 <= fnv32a bytes < 4294967296.
Proof.
  unfold fnv32a. assert (H0 : 0 <= fnv_offset < 4294967296) by (unfold fnv_offset; lia).
  revert H0. generalize fnv_offset. induction bytes as [|b t IH]; intros h Hh; cbn [fold_left]; [exact Hh|].
  apply IH. apply fnv_step_range.
Qed.
