(* The validator regenerated from the current source accepts exactly the configurations that meet the documented constraints. *)
From Coq Require Import ZArith String List Bool Lia.
From Helios Require Import Gen.ConfigGen Model.ConfigSpec.
Import ListNotations.
Open Scope Z_scope.

Ltac split_ifs :=
  repeat match goal with
  | |- context [if ?b then _ else _] => let E := fresh "E" in destruct b eqn:E
  | H : context [if ?b then _ else _] |- _ => let E := fresh "E" in destruct b eqn:E
  end.

Ltac norm_atoms :=
  cbn [existsb In] in *;
  repeat rewrite ?orb_true_iff, ?orb_false_iff, ?andb_true_iff, ?andb_false_iff, ?negb_true_iff, ?negb_false_iff,
                 ?Z.leb_le, ?Z.leb_gt, ?Z.ltb_lt, ?Z.ltb_ge, ?Z.eqb_eq, ?Z.eqb_neq, ?String.eqb_eq, ?String.eqb_neq in *.

Ltac finish := repeat split; intros; try discriminate; try tauto; try lia; try congruence;
               intuition (try discriminate; try lia; try congruence).

Ltac section_proof := split; [intros H; split_ifs; norm_atoms; finish | intros H; split_ifs; norm_atoms; finish].

Lemma server_ok c : validateServer c = true <-> SpecServer c.
Proof. unfold validateServer, SpecServer, port_ok. section_proof. Qed.

Lemma timeouts_ok c : validateTimeouts c = true <-> SpecTimeouts c.
Proof. unfold validateTimeouts, SpecTimeouts. section_proof. Qed.

Lemma loadbalancer_ok c : validateLoadBalancer c = true <-> SpecLoadBalancer c.
Proof. unfold validateLoadBalancer, SpecLoadBalancer, strategies. section_proof. Qed.

Lemma healthchecks_ok c : validateHealthChecks c = true <-> SpecHealthChecks c.
Proof. unfold validateHealthChecks, SpecHealthChecks. section_proof. Qed.

Lemma ratelimit_ok c : validateRateLimit c = true <-> SpecRateLimit c.
Proof. unfold validateRateLimit, SpecRateLimit. section_proof. Qed.

Lemma circuitbreaker_ok c : validateCircuitBreaker c = true <-> SpecCircuitBreaker c.
Proof. unfold validateCircuitBreaker, SpecCircuitBreaker. section_proof. Qed.

Lemma metrics_ok c : validateMetrics c = true <-> SpecMetrics c.
Proof. unfold validateMetrics, SpecMetrics, port_ok. section_proof. Qed.

Lemma adminapi_ok c : validateAdminAPI c = true <-> SpecAdminAPI c.
Proof. unfold validateAdminAPI, SpecAdminAPI, port_ok. section_proof. Qed.

Lemma logging_ok c : validateLogging c = true <-> SpecLogging c.
Proof. unfold validateLogging, SpecLogging, log_levels, log_formats. section_proof. Qed.

Lemma backends_ok c : validateBackends c = true <-> SpecBackends c.
Proof.
  unfold validateBackends, SpecBackends. rewrite Forall_forall.
  destruct (Config_Backends c) as [|b0 t] eqn:Eb.
  - cbn. split; [discriminate|intros [H _]; congruence].
  - rewrite <- Eb. assert (Hlen : Z.eqb (Z.of_nat (List.length (Config_Backends c))) 0 = false).
    { rewrite Eb. cbn [List.length]. apply Z.eqb_neq. lia. }
    rewrite Hlen.
    split.
    + intros H. split; [rewrite Eb; discriminate|]. intros b Hb.
      destruct (forallb _ (Config_Backends c)) eqn:F; [|discriminate].
      rewrite forallb_forall in F. specialize (F b Hb). cbv beta in F. split_ifs; norm_atoms; finish.
    + intros [_ H].
      assert (F : forallb (fun v_backend =>
         if String.eqb (BackendConfig_Name v_backend) "" then false
         else if String.eqb (BackendConfig_Address v_backend) "" then false
         else if Z.ltb (BackendConfig_Weight v_backend) 0 then false else true) (Config_Backends c) = true).
      { apply forallb_forall. intros b Hb. specialize (H b Hb). split_ifs; norm_atoms; finish. }
      rewrite F. reflexivity.
Qed.

Theorem validate_iff_spec c : Validate c = true <-> Spec c.
Proof.
  unfold Validate, Spec.
  rewrite <- backends_ok, <- server_ok, <- timeouts_ok, <- loadbalancer_ok, <- healthchecks_ok, <- ratelimit_ok,
          <- circuitbreaker_ok, <- metrics_ok, <- adminapi_ok, <- logging_ok.
  destruct (validateBackends c), (validateServer c), (validateTimeouts c), (validateLoadBalancer c), (validateHealthChecks c),
           (validateRateLimit c), (validateCircuitBreaker c), (validateMetrics c), (validateAdminAPI c), (validateLogging c);
    split; intros H; try discriminate; try reflexivity; try tauto; repeat split; try reflexivity; intuition discriminate.
Qed.

(* the executable oracle used on implementation runs is the same specification *)
Ltac spec_section := unfold imp, nonempty, port_okb, port_ok; split;
  [intros H; norm_atoms; finish | intros H; norm_atoms; finish].

Lemma server_b_iff c : server_b c = true <-> SpecServer c.
Proof. unfold server_b, SpecServer. cbv zeta. destruct (TLSConfig_Enabled _); spec_section. Qed.
Lemma timeouts_b_iff c : timeouts_b c = true <-> SpecTimeouts c.
Proof. unfold timeouts_b, SpecTimeouts. cbv zeta. spec_section. Qed.
Lemma loadbalancer_b_iff c : loadbalancer_b c = true <-> SpecLoadBalancer c.
Proof.
  unfold loadbalancer_b, SpecLoadBalancer, strategies. cbv zeta. destruct (WebSocketPoolConfig_Enabled _);
    [destruct (0 <? WebSocketPoolConfig_MaxActive _) eqn:E|]; spec_section.
Qed.
Lemma healthchecks_b_iff c : healthchecks_b c = true <-> SpecHealthChecks c.
Proof. unfold healthchecks_b, SpecHealthChecks. cbv zeta. destruct (ActiveHealthCheckConfig_Enabled _), (PassiveHealthCheckConfig_Enabled _); spec_section. Qed.
Lemma ratelimit_b_iff c : ratelimit_b c = true <-> SpecRateLimit c.
Proof. unfold ratelimit_b, SpecRateLimit. cbv zeta. destruct (RateLimitConfig_Enabled _); spec_section. Qed.
Lemma circuitbreaker_b_iff c : circuitbreaker_b c = true <-> SpecCircuitBreaker c.
Proof.
  unfold circuitbreaker_b, SpecCircuitBreaker. cbv zeta. destruct (CircuitBreakerConfig_Enabled _);
    [destruct (0 <? CircuitBreakerConfig_MaxRequests _) eqn:E|]; spec_section.
Qed.
Lemma metrics_b_iff c : metrics_b c = true <-> SpecMetrics c.
Proof. unfold metrics_b, SpecMetrics. cbv zeta. destruct (MetricsConfig_Enabled _); spec_section. Qed.
Lemma adminapi_b_iff c : adminapi_b c = true <-> SpecAdminAPI c.
Proof. unfold adminapi_b, SpecAdminAPI. cbv zeta. destruct (AdminAPIConfig_Enabled _); spec_section. Qed.
Lemma logging_b_iff c : logging_b c = true <-> SpecLogging c.
Proof. unfold logging_b, SpecLogging, log_levels, log_formats. cbv zeta. spec_section. Qed.
Lemma backends_b_iff c : backends_b c = true <-> SpecBackends c.
Proof.
  unfold backends_b, SpecBackends. rewrite Forall_forall, andb_true_iff, forallb_forall.
  split.
  - intros [H1 H2]. split; [destruct (Config_Backends c); [discriminate|discriminate]|].
    intros b Hb. specialize (H2 b Hb). unfold nonempty in H2. norm_atoms. finish.
  - intros [H1 H2]. split; [destruct (Config_Backends c); [congruence|reflexivity]|].
    intros b Hb. specialize (H2 b Hb). unfold nonempty. norm_atoms. finish.
Qed.

Theorem spec_b_iff c : spec_b c = true <-> Spec c.
Proof.
  unfold spec_b, Spec. rewrite !andb_true_iff.
  rewrite backends_b_iff, server_b_iff, timeouts_b_iff, loadbalancer_b_iff, healthchecks_b_iff, ratelimit_b_iff,
          circuitbreaker_b_iff, metrics_b_iff, adminapi_b_iff, logging_b_iff. tauto.
Qed.

Theorem validate_eq_spec_b c : Validate c = spec_b c.
Proof.
  destruct (Validate c) eqn:V, (spec_b c) eqn:S; try reflexivity.
  - apply validate_iff_spec, spec_b_iff in V. congruence.
  - apply spec_b_iff, validate_iff_spec in S. congruence.
Qed.
