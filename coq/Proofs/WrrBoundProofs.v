(* C05, weighted round robin after ANY history of membership and health changes: the running weights stay bounded, so the
   deviation of every backend from its proportional share over a stable stretch does not grow with the number of requests.
   The invariant is a family of subset-sum bounds: for every set S of members,
        sum_{b in S} cw_b  <=  |S| * (n - |S|) * W_T          (n members, W_T their total weight),
   together with sum_{all} cw_b = 0.  It is kept by a pick with ANY eligible set, by health changes, by additions, and
   re-established by removals (which start a fresh cycle). *)
From Helios Require Import Base.Prelude Base.Wrap Model.Hash Model.Strategy Proofs.StrategyProofs Proofs.FailoverProofs.

Local Arguments Z.add : simpl never.
Local Arguments Z.sub : simpl never.
Local Arguments Z.mul : simpl never.
Local Arguments zlen : simpl never.

(* ------------------------------------------------------------------------------------------ *)
(* one pick with an arbitrary eligible set, as a map over the pool *)

Definition after_pick_g (xid w : Z) (b : backend) : backend :=
  if bflag b then set_cw (bcw b + bweight b - (if Z.eqb (bid b) xid then w else 0)) b else b.

Lemma wrr_best_gen p : forall best,
  (match best with Some x => bflag x = true | None => True end) ->
  match wrr_best best p with
  | Some x => bflag x = true /\ (In x p \/ best = Some x)
              /\ (forall y, In y p -> bflag y = true -> bcw y <= bcw x)
              /\ (forall b0, best = Some b0 -> bcw b0 <= bcw x)
  | None => best = None /\ forall y, In y p -> bflag y = false
  end.
Proof.
  induction p as [|b t IH]; intros best Hb; cbn [wrr_best].
  - destruct best as [x|]; [|split; [reflexivity|intros y []]].
    split; [exact Hb|]. split; [right; reflexivity|]. split; [intros y []|]. intros b0 E. inversion E. lia.
  - destruct (bflag b) eqn:Ef.
    + destruct best as [x|].
      * destruct (bcw x <? bcw b) eqn:E.
        -- specialize (IH (Some b) Ef). destruct (wrr_best (Some b) t) as [r|]; [|destruct IH; discriminate].
           destruct IH as (Hr & Hin & Hall & Hb0). specialize (Hb0 b eq_refl). split; [exact Hr|]. split; [|split].
           ++ destruct Hin as [Hin|Hin]; [left; right; exact Hin|left; left; congruence].
           ++ intros y [->|Hy] Hfy; [lia|auto].
           ++ intros b0 E0. inversion E0; subst. lia.
        -- specialize (IH (Some x) Hb). destruct (wrr_best (Some x) t) as [r|]; [|destruct IH; discriminate].
           destruct IH as (Hr & Hin & Hall & Hb0). specialize (Hb0 x eq_refl). split; [exact Hr|]. split; [|split].
           ++ destruct Hin as [Hin|Hin]; [left; right; exact Hin|right; exact Hin].
           ++ intros y [->|Hy] Hfy; [lia|auto].
           ++ intros b0 E0. inversion E0; subst. lia.
      * specialize (IH (Some b) Ef). destruct (wrr_best (Some b) t) as [r|]; [|destruct IH; discriminate].
        destruct IH as (Hr & Hin & Hall & Hb0). specialize (Hb0 b eq_refl). split; [exact Hr|]. split; [|split].
        -- destruct Hin as [Hin|Hin]; [left; right; exact Hin|left; left; congruence].
        -- intros y [->|Hy] Hfy; [lia|auto].
        -- intros b0 E0. discriminate.
    + specialize (IH best Hb). destruct (wrr_best best t) as [r|].
      * destruct IH as (Hr & Hin & Hall & Hb0). split; [exact Hr|]. split; [|split].
        -- destruct Hin as [Hin|Hin]; [left; right; exact Hin|right; exact Hin].
        -- intros y [->|Hy] Hfy; [congruence|auto].
        -- exact Hb0.
      * destruct IH as [E Hall]. split; [exact E|]. intros y [->|Hy]; auto.
Qed.

Lemma same_id_same p b x : NoDup (map bid p) -> In b p -> In x p -> bid b = bid x -> b = x.
Proof.
  intros Hnd Hb Hx E. induction p as [|a t IH]; [destruct Hb|].
  cbn [map] in Hnd. inversion Hnd as [|? ? Hni Hnd']; subst.
  destruct Hb as [->|Hb]; destruct Hx as [->|Hx]; auto.
  - exfalso. apply Hni. rewrite E. apply in_map. exact Hx.
  - exfalso. apply Hni. rewrite <- E. apply in_map. exact Hb.
Qed.

Lemma wrr_pick_gen p :
  NoDup (map bid p) -> (exists b, In b p /\ bflag b = true) ->
  exists x, In x p /\ bflag x = true
    /\ (forall y, In y p -> bflag y = true -> bcw y + bweight y <= bcw x + bweight x)
    /\ fst (wrr_pick p) = Some (set_cw (bcw x + bweight x) x)
    /\ snd (wrr_pick p) = map (after_pick_g (bid x) (wrr_total p)) p.
Proof.
  intros Hnd (b0 & Hb0 & Hf0). unfold wrr_pick.
  set (bump := fun b => if bflag b then set_cw (bcw b + bweight b) b else b).
  change (wrr_bump p) with (map bump p).
  pose proof (wrr_best_gen (map bump p) None I) as Hs.
  destruct (wrr_best None (map bump p)) as [xb|].
  2:{ destruct Hs as [_ Hall]. specialize (Hall (bump b0) (in_map bump p b0 Hb0)). unfold bump in Hall. rewrite Hf0 in Hall. cbn in Hall. congruence. }
  destruct Hs as (Hfx & Hin & Hmax & _). destruct Hin as [Hin|Hin]; [|discriminate].
  apply in_map_iff in Hin. destruct Hin as (x & Ex & Hx).
  assert (Hfl : bflag x = true). { unfold bump in Ex. destruct (bflag x) eqn:E; [reflexivity|]. subst xb. congruence. }
  assert (Exb : xb = set_cw (bcw x + bweight x) x). { unfold bump in Ex. rewrite Hfl in Ex. symmetry. exact Ex. }
  exists x. split; [exact Hx|]. split; [exact Hfl|]. cbn [fst snd]. split; [|split; [rewrite Exb; reflexivity|]].
  - intros y Hy Hfy. specialize (Hmax (bump y) (in_map bump p y Hy)). unfold bump in Hmax. rewrite Hfy in Hmax.
    rewrite Exb in Hmax. cbn in Hmax. apply Hmax. exact Hfy.
  - unfold upd_id. rewrite map_map. apply map_ext_in. intros b Hb. rewrite Exb. cbn [bid set_cw bcw].
    unfold after_pick_g, bump. destruct (bflag b) eqn:Efb.
    + cbn [bid set_cw]. destruct (Z.eqb (bid b) (bid x)) eqn:E.
      * apply Z.eqb_eq in E. assert (b = x) by (eapply same_id_same; eauto). subst b. cbn. reflexivity.
      * rewrite Z.sub_0_r. reflexivity.
    + destruct (Z.eqb (bid b) (bid x)) eqn:E; [|reflexivity].
      apply Z.eqb_eq in E. assert (b = x) by (eapply same_id_same; eauto). subst b. congruence.
Qed.

Lemma wrr_pick_none p : (forall b, In b p -> bflag b = false) -> wrr_pick p = (None, p).
Proof.
  intros Hall. unfold wrr_pick.
  assert (Eb : wrr_bump p = p).
  { unfold wrr_bump. transitivity (map (fun b : backend => b) p); [|apply map_id]. apply map_ext_in. intros b Hb. rewrite (Hall b Hb). reflexivity. }
  rewrite Eb. pose proof (wrr_best_gen p None I) as Hs. destruct (wrr_best None p) as [x|]; [|reflexivity].
  destruct Hs as (Hf & [Hin|Hin] & _); [|discriminate]. rewrite (Hall x Hin) in Hf. discriminate.
Qed.

(* ------------------------------------------------------------------------------------------ *)
(* sums over a subset of the members, given as a predicate on members *)

Definition msum (f : backend -> bool) (p : list backend) : Z := sumZ (map (fun b => if f b then bcw b else 0) p).
Definition mcnt (f : backend -> bool) (p : list backend) : Z := sumZ (map (fun b => if f b then 1 else 0) p).
Definition mwt (f : backend -> bool) (p : list backend) : Z := sumZ (map (fun b => if f b then bweight b else 0) p).

Lemma mcnt_bounds f p : 0 <= mcnt f p <= zlen p.
Proof.
  unfold mcnt, zlen. induction p as [|a t IH]; cbn [map sumZ length]; [lia|]. rewrite Nat2Z.inj_succ. destruct (f a); lia.
Qed.

Lemma mcnt_lt f p x : In x p -> f x = false -> mcnt f p <= zlen p - 1.
Proof.
  unfold mcnt, zlen. induction p as [|a t IH]; intros Hin Hf; [destruct Hin|]. cbn [map sumZ length]. rewrite Nat2Z.inj_succ.
  destruct Hin as [->|Hin].
  - rewrite Hf. pose proof (mcnt_bounds f t) as Hb. unfold mcnt, zlen in Hb. lia.
  - specialize (IH Hin Hf). destruct (f a); lia.
Qed.

Lemma msum_split f g p :
  msum f p = msum (fun b => f b && g b) p + msum (fun b => f b && negb (g b)) p
  /\ mcnt f p = mcnt (fun b => f b && g b) p + mcnt (fun b => f b && negb (g b)) p.
Proof.
  unfold msum, mcnt. induction p as [|a t [IH1 IH2]]; cbn [map sumZ]; [split; reflexivity|].
  rewrite IH1, IH2. destruct (f a), (g a); cbn [andb negb]; split; lia.
Qed.

Lemma msum_add_one f p x :
  NoDup (map bid p) -> In x p -> f x = false ->
  msum (fun b => f b || Z.eqb (bid b) (bid x)) p = msum f p + bcw x
  /\ mcnt (fun b => f b || Z.eqb (bid b) (bid x)) p = mcnt f p + 1.
Proof.
  intros Hnd Hx Hf.
  assert (G : forall q, (forall b, In b q -> In b p) -> NoDup (map bid q) ->
            msum (fun b => f b || Z.eqb (bid b) (bid x)) q = msum f q + (if existsb (fun b => Z.eqb (bid b) (bid x)) q then bcw x else 0)
            /\ mcnt (fun b => f b || Z.eqb (bid b) (bid x)) q = mcnt f q + (if existsb (fun b => Z.eqb (bid b) (bid x)) q then 1 else 0)).
  { unfold msum, mcnt. induction q as [|a t IH]; intros Hsub Hn; cbn [map sumZ existsb]; [split; lia|].
    inversion Hn as [|? ? Hni Hn']; subst.
    destruct (IH (fun b Hb => Hsub b (or_intror Hb)) Hn') as [IH1 IH2]. rewrite IH1, IH2.
    destruct (Z.eqb (bid a) (bid x)) eqn:E; cbn [orb].
    - apply Z.eqb_eq in E. assert (a = x) by (apply (same_id_same p a x Hnd (Hsub a (or_introl eq_refl)) Hx E)). subst a.
      assert (Ex : existsb (fun b => Z.eqb (bid b) (bid x)) t = false).
      { apply not_true_is_false. intros Ht. apply existsb_exists in Ht. destruct Ht as (y & Hy & Ey).
        apply Z.eqb_eq in Ey. apply Hni. rewrite <- Ey. apply in_map. exact Hy. }
      rewrite Ex, Hf, orb_true_r. split; lia.
    - rewrite orb_false_r. split; lia. }
  destruct (G p (fun b Hb => Hb) Hnd) as [G1 G2].
  assert (Ex : existsb (fun b => Z.eqb (bid b) (bid x)) p = true) by (apply existsb_exists; exists x; split; [exact Hx|apply Z.eqb_refl]).
  rewrite Ex in G1, G2. split; assumption.
Qed.

Lemma wrr_total_mwt p : wrr_total p = mwt bflag p.
Proof. unfold mwt. induction p as [|a t IH]; cbn [wrr_total map sumZ]; [reflexivity|]. rewrite IH. reflexivity. Qed.

Lemma mwt_nonneg f p : weights_pos p -> 0 <= mwt f p.
Proof.
  unfold mwt. induction 1 as [|a t Ha Ht IH]; cbn [map sumZ]; [lia|]. destruct (f a); lia.
Qed.

Lemma mwt_le_Wt f p : weights_pos p -> mwt f p <= Wt p.
Proof.
  unfold mwt, Wt. induction 1 as [|a t Ha Ht IH]; cbn [map sumZ]; [lia|]. destruct (f a); lia.
Qed.

(* the eligible members of S, and the chosen member when it is not in S, are part of the eligible weight *)
Lemma mwt_room h p x :
  weights_pos p -> In x p -> bflag x = true -> h x = false ->
  mwt (fun b => h b && bflag b) p + bweight x <= mwt bflag p.
Proof.
  intros Hw Hx Hfx Hhx. unfold mwt. induction Hw as [|a t Ha Ht IH]; [destruct Hx|]. cbn [map sumZ].
  destruct Hx as [->|Hx].
  - rewrite Hhx, Hfx. cbn [andb].
    assert (sumZ (map (fun b => if h b && bflag b then bweight b else 0) t) <= sumZ (map (fun b => if bflag b then bweight b else 0) t)).
    { clear -Ht. induction Ht as [|c u Hc Hu IHu]; cbn [map sumZ]; [lia|]. destruct (h c), (bflag c); cbn [andb]; lia. }
    lia.
  - specialize (IH Hx). destruct (h a), (bflag a); cbn [andb]; lia.
Qed.

Lemma mwt_sub h p : weights_pos p -> mwt (fun b => h b && bflag b) p <= mwt bflag p.
Proof.
  intros Hw. unfold mwt. induction Hw as [|a t Ha Ht IH]; cbn [map sumZ]; [lia|]. destruct (h a), (bflag a); cbn [andb]; lia.
Qed.

(* every eligible member's bumped weight is at most the chosen one's *)
Lemma sum_le_max h p M :
  (forall y, In y p -> bflag y = true -> bcw y + bweight y <= M) ->
  msum (fun b => h b && bflag b) p + mwt (fun b => h b && bflag b) p <= mcnt (fun b => h b && bflag b) p * M.
Proof.
  unfold msum, mwt, mcnt. induction p as [|a t IH]; intros Hall; cbn [map sumZ]; [lia|].
  specialize (IH (fun y Hy => Hall y (or_intror Hy))). pose proof (Hall a (or_introl eq_refl)) as Ha.
  destruct (h a), (bflag a); cbn [andb]; try specialize (Ha eq_refl); lia.
Qed.

(* the pool after a pick, summed over S: the members of S before the pick, their increments, and the chosen one's decrement *)
Lemma msum_after_pick f p x w :
  NoDup (map bid p) -> In x p -> bflag x = true ->
  let g := after_pick_g (bid x) w in
  let h := fun b => f (g b) in
  msum f (map g p) = msum h p + mwt (fun b => h b && bflag b) p - (if h x then w else 0)
  /\ mcnt f (map g p) = mcnt h p.
Proof.
  intros Hnd Hx Hfx g h.
  assert (G : forall q, (forall b, In b q -> In b p) -> NoDup (map bid q) ->
            msum f (map g q) = msum h q + mwt (fun b => h b && bflag b) q
                               - (if existsb (fun b => Z.eqb (bid b) (bid x)) q then (if h x then w else 0) else 0)
            /\ mcnt f (map g q) = mcnt h q).
  { unfold msum, mcnt, mwt. induction q as [|a t IH]; intros Hsub Hn; cbn [map sumZ existsb]; [split; lia|].
    inversion Hn as [|? ? Hni Hn']; subst.
    destruct (IH (fun b Hb => Hsub b (or_intror Hb)) Hn') as [IH1 IH2]. rewrite IH1, IH2. fold (h a).
    split; [|reflexivity].
    destruct (Z.eqb (bid a) (bid x)) eqn:E; cbn [orb].
    - apply Z.eqb_eq in E. assert (a = x) by (apply (same_id_same p a x Hnd (Hsub a (or_introl eq_refl)) Hx E)). subst a.
      assert (Ex : existsb (fun b => Z.eqb (bid b) (bid x)) t = false).
      { apply not_true_is_false. intros Ht. apply existsb_exists in Ht. destruct Ht as (y & Hy & Ey).
        apply Z.eqb_eq in Ey. apply Hni. rewrite <- Ey. apply in_map. exact Hy. }
      rewrite Ex. unfold g at 1. unfold after_pick_g. rewrite Hfx, Z.eqb_refl. cbn [bcw set_cw].
      destruct (h x); cbn [andb]; lia.
    - unfold g at 1. unfold after_pick_g. rewrite E. destruct (bflag a) eqn:Efa; cbn [bcw set_cw]; destruct (h a); cbn [andb]; lia. }
  destruct (G p (fun b Hb => Hb) Hnd) as [G1 G2].
  assert (Ex : existsb (fun b => Z.eqb (bid b) (bid x)) p = true) by (apply existsb_exists; exists x; split; [exact Hx|apply Z.eqb_refl]).
  rewrite Ex in G1. split; assumption.
Qed.

(* ------------------------------------------------------------------------------------------ *)
(* the invariant *)

Definition SInv (p : list backend) : Prop :=
  Scw p = 0 /\ forall f, msum f p <= mcnt f p * (zlen p - mcnt f p) * Wt p.

Lemma key_arith (X XP XQ A cx wx s pc q n WT : Z) :
  X = XP + XQ -> s = pc + q -> 0 <= pc -> 0 <= q -> s <= n - 1 -> 0 <= WT -> 0 <= A -> A + wx <= WT -> 0 <= wx ->
  XP + A <= pc * (cx + wx) ->
  X + cx <= (s + 1) * (n - (s + 1)) * WT ->
  XQ <= q * (n - q) * WT ->
  X + A <= s * (n - s) * WT.
Proof.
  intros EX Es Hpc Hq Hs HWT HA HAw Hwx Ha Hb Hc.
  assert (H1 : pc * (X + cx) <= pc * ((s + 1) * (n - (s + 1)) * WT)) by (apply Z.mul_le_mono_nonneg_l; assumption).
  assert (H2 : pc * (A + wx) <= pc * WT) by (apply Z.mul_le_mono_nonneg_l; assumption).
  assert (H3 : (pc + 1) * (X + A) <= (pc * ((s + 1) * (n - (s + 1))) + q * (n - q) + pc) * WT) by lia.
  assert (H4 : pc * ((s + 1) * (n - (s + 1))) + q * (n - q) + pc = (pc + 1) * (s * (n - s)) - pc * pc) by (subst s; ring).
  rewrite H4 in H3.
  assert (H5 : 0 <= pc * pc * WT) by (apply Z.mul_nonneg_nonneg; [apply Z.mul_nonneg_nonneg|]; assumption).
  assert (H6 : (pc + 1) * (X + A) <= (pc + 1) * (s * (n - s) * WT)) by lia.
  apply Z.mul_le_mono_pos_l in H6; [exact H6|lia].
Qed.

Lemma Wt_nonneg p : weights_pos p -> 0 <= Wt p.
Proof. unfold Wt. induction 1 as [|a t Ha Ht IH]; cbn [map sumZ]; lia. Qed.

Lemma bound_nonneg f p : weights_pos p -> 0 <= mcnt f p * (zlen p - mcnt f p) * Wt p.
Proof.
  intros Hw. pose proof (mcnt_bounds f p). pose proof (Wt_nonneg p Hw).
  apply Z.mul_nonneg_nonneg; [apply Z.mul_nonneg_nonneg|]; lia.
Qed.

Lemma after_pick_g_static xid w p :
  map bid (map (after_pick_g xid w) p) = map bid p
  /\ map bweight (map (after_pick_g xid w) p) = map bweight p
  /\ map bflag (map (after_pick_g xid w) p) = map bflag p.
Proof.
  rewrite !map_map. repeat split; apply map_ext; intros b; unfold after_pick_g; destruct (bflag b) eqn:E; cbn; auto.
Qed.

Lemma msum_true p : msum (fun _ => true) p = Scw p.
Proof. reflexivity. Qed.

(* a pick, whatever the eligible set, keeps the invariant *)
Lemma SInv_pick p x :
  NoDup (map bid p) -> weights_pos p -> SInv p -> In x p -> bflag x = true ->
  (forall y, In y p -> bflag y = true -> bcw y + bweight y <= bcw x + bweight x) ->
  SInv (map (after_pick_g (bid x) (wrr_total p)) p).
Proof.
  intros Hnd Hw [Hs Hinv] Hx Hfx Hmax.
  set (g := after_pick_g (bid x) (wrr_total p)).
  destruct (after_pick_g_static (bid x) (wrr_total p) p) as (Eid & Ewt & Efl).
  assert (EW : Wt (map g p) = Wt p) by (unfold Wt, g; rewrite Ewt; reflexivity).
  assert (EL : zlen (map g p) = zlen p) by (unfold zlen; rewrite map_length; reflexivity).
  split.
  - destruct (msum_after_pick (fun _ => true) p x (wrr_total p) Hnd Hx Hfx) as [E _]. fold g in E. cbn beta in E.
    rewrite msum_true in E. rewrite E. rewrite msum_true, Hs.
    assert (mwt (fun b => true && bflag b) p = mwt bflag p) by reflexivity. rewrite H, <- wrr_total_mwt. lia.
  - intros f. destruct (msum_after_pick f p x (wrr_total p) Hnd Hx Hfx) as [E1 E2]. fold g in E1, E2. cbn zeta in E1, E2.
    set (h := fun b => f (g b)) in *. rewrite E1, E2, EW, EL.
    change (f (g x)) with (h x). change (fun b : backend => f (g b) && bflag b) with (fun b : backend => h b && bflag b).
    pose proof (Wt_nonneg p Hw) as HWT.
    pose proof (mwt_nonneg (fun b => h b && bflag b) p Hw) as HA.
    pose proof (mwt_le_Wt bflag p Hw) as HWE. rewrite <- wrr_total_mwt in HWE.
    destruct (h x) eqn:Ehx.
    + (* the chosen member is in S: the sum does not grow *)
      pose proof (mwt_sub h p Hw) as Hsub. rewrite <- wrr_total_mwt in Hsub. specialize (Hinv h). lia.
    + (* the chosen member is outside S *)
      pose proof (mwt_room h p x Hw Hx Hfx Ehx) as Hroom. rewrite <- wrr_total_mwt in Hroom.
      destruct (msum_split h bflag p) as [S1 S2].
      destruct (msum_add_one h p x Hnd Hx Ehx) as [A1 A2].
      pose proof (Hinv (fun b => h b || Z.eqb (bid b) (bid x))) as Ib. rewrite A1, A2 in Ib.
      pose proof (Hinv (fun b => h b && negb (bflag b))) as Ic.
      pose proof (sum_le_max h p (bcw x + bweight x) Hmax) as Ia.
      pose proof (mcnt_bounds (fun b => h b && bflag b) p) as Bp.
      pose proof (mcnt_bounds (fun b => h b && negb (bflag b)) p) as Bq.
      pose proof (mcnt_lt h p x Hx Ehx) as Bs.
      assert (Hwx : 0 <= bweight x). { pose proof (proj1 (Forall_forall _ _) Hw x Hx) as H1. cbn beta in H1. lia. }
      rewrite Z.sub_0_r.
      apply (key_arith (msum h p) (msum (fun b => h b && bflag b) p) (msum (fun b => h b && negb (bflag b)) p)
                       (mwt (fun b => h b && bflag b) p) (bcw x) (bweight x) (mcnt h p)
                       (mcnt (fun b => h b && bflag b) p) (mcnt (fun b => h b && negb (bflag b)) p) (zlen p) (Wt p));
        try assumption; try lia.
Qed.

(* health changes (and anything else that leaves ids, weights and running weights alone) keep it *)
Lemma SInv_map g p :
  (forall b, bcw (g b) = bcw b /\ bweight (g b) = bweight b) -> SInv p -> SInv (map g p).
Proof.
  intros Hg [Hs Hinv].
  assert (EW : Wt (map g p) = Wt p). { unfold Wt. rewrite map_map. f_equal. apply map_ext. intros b. apply Hg. }
  assert (EL : zlen (map g p) = zlen p) by (unfold zlen; rewrite map_length; reflexivity).
  assert (ES : forall f, msum f (map g p) = msum (fun b => f (g b)) p /\ mcnt f (map g p) = mcnt (fun b => f (g b)) p).
  { intros f. unfold msum, mcnt. rewrite !map_map. split; f_equal; apply map_ext; intros b; rewrite ?(proj1 (Hg b)); reflexivity. }
  split.
  - rewrite <- msum_true, (proj1 (ES _)). exact Hs.
  - intros f. destruct (ES f) as [E1 E2]. rewrite E1, E2, EW, EL. apply Hinv.
Qed.

Lemma SInv_upd id g p :
  (forall b, bcw (g b) = bcw b /\ bweight (g b) = bweight b) -> SInv p -> SInv (upd_id id g p).
Proof.
  intros Hg. unfold upd_id. apply SInv_map. intros b. destruct (Z.eqb (bid b) id); [apply Hg|auto].
Qed.

(* a fresh cycle *)
Lemma SInv_fresh p : weights_pos p -> fresh p -> SInv p.
Proof.
  intros Hw Hf.
  assert (Z0 : forall f, msum f p = 0).
  { intros f. unfold msum. induction Hf as [|a t Ha Ht IH]; cbn [map sumZ]; [reflexivity|].
    inversion Hw; subst. rewrite IH by assumption. rewrite Ha. destruct (f a); reflexivity. }
  split; [rewrite <- msum_true; apply Z0|]. intros f. rewrite Z0. apply bound_nonneg. exact Hw.
Qed.

(* an addition: the new member starts at 0 *)
Lemma SInv_add p b : weights_pos p -> 0 <= bweight b -> SInv p -> SInv (p ++ [set_cw 0 b]).
Proof.
  intros Hw Hb [Hs Hinv].
  assert (ES : forall f, msum f (p ++ [set_cw 0 b]) = msum f p
                         /\ mcnt f (p ++ [set_cw 0 b]) = mcnt f p + (if f (set_cw 0 b) then 1 else 0)).
  { intros f. unfold msum, mcnt. rewrite !map_app, !sumZ_app. cbn [map sumZ bcw set_cw]. destruct (f (set_cw 0 b)); split; lia. }
  assert (EW : Wt (p ++ [set_cw 0 b]) = Wt p + bweight b) by (unfold Wt; rewrite map_app, sumZ_app; cbn; lia).
  assert (EL : zlen (p ++ [set_cw 0 b]) = zlen p + 1) by (unfold zlen; rewrite app_length; cbn [length]; lia).
  split.
  - rewrite <- msum_true, (proj1 (ES _)). exact Hs.
  - intros f. destruct (ES f) as [E1 E2]. rewrite E1, E2, EW, EL. specialize (Hinv f).
    pose proof (mcnt_bounds f p) as Bs. pose proof (Wt_nonneg p Hw) as HWT.
    set (s := mcnt f p) in *. set (n := zlen p) in *. set (W := Wt p) in *. set (wb := bweight b) in *.
    assert (H0 : 0 <= s * (n - s)) by (apply Z.mul_nonneg_nonneg; lia).
    destruct (f (set_cw 0 b)).
    + assert (s * (n - s) * W <= (s + 1) * (n + 1 - (s + 1)) * (W + wb)); [|lia].
      replace (n + 1 - (s + 1)) with (n - s) by lia.
      assert (s * (n - s) * W <= (s + 1) * (n - s) * W) by (apply Z.mul_le_mono_nonneg_r; [exact HWT|apply Z.mul_le_mono_nonneg_r; lia]).
      assert (0 <= (s + 1) * (n - s) * wb) by (apply Z.mul_nonneg_nonneg; [apply Z.mul_nonneg_nonneg|]; lia).
      lia.
    + assert (s * (n - s) * W <= (s + 0) * (n + 1 - (s + 0)) * (W + wb)); [|lia].
      replace (s + 0) with s by lia.
      assert (s * (n - s) * W <= s * (n + 1 - s) * W) by (apply Z.mul_le_mono_nonneg_r; [exact HWT|apply Z.mul_le_mono_nonneg_l; lia]).
      assert (0 <= s * (n + 1 - s) * wb) by (apply Z.mul_nonneg_nonneg; [apply Z.mul_nonneg_nonneg|]; lia).
      lia.
Qed.

(* ------------------------------------------------------------------------------------------ *)
(* consequences for single members *)

Lemma msum_ext f g p : (forall b, f b = g b) -> msum f p = msum g p /\ mcnt f p = mcnt g p.
Proof.
  intros H. unfold msum, mcnt. split; f_equal; apply map_ext; intros b; rewrite H; reflexivity.
Qed.

Lemma mcnt_true p : mcnt (fun _ => true) p = zlen p.
Proof. unfold mcnt, zlen. induction p as [|a t IH]; cbn [map sumZ length]; [reflexivity|]. rewrite Nat2Z.inj_succ. lia. Qed.

Lemma msum_false p : msum (fun _ => false) p = 0 /\ mcnt (fun _ => false) p = 0.
Proof. unfold msum, mcnt. induction p as [|a t [IH1 IH2]]; cbn [map sumZ]; [split; reflexivity|]. split; lia. Qed.

Theorem cw_bounded p b :
  NoDup (map bid p) -> SInv p -> In b p -> Z.abs (bcw b) <= (zlen p - 1) * Wt p.
Proof.
  intros Hnd [Hs Hinv] Hb.
  destruct (msum_add_one (fun _ => false) p b Hnd Hb eq_refl) as [A1 A2].
  destruct (msum_false p) as [F1 F2]. rewrite F1 in A1. rewrite F2 in A2. cbn [orb] in A1, A2.
  pose proof (Hinv (fun y => Z.eqb (bid y) (bid b))) as Up. rewrite A1, A2 in Up.
  destruct (msum_split (fun _ => true) (fun y => Z.eqb (bid y) (bid b)) p) as [S1 S2]. cbn [andb] in S1, S2.
  rewrite msum_true, Hs, A1 in S1. rewrite mcnt_true, A2 in S2.
  pose proof (Hinv (fun y => negb (Z.eqb (bid y) (bid b)))) as Lo.
  replace (mcnt (fun y => negb (Z.eqb (bid y) (bid b))) p) with (zlen p - 1) in Lo by lia.
  replace (msum (fun y => negb (Z.eqb (bid y) (bid b))) p) with (- bcw b) in Lo by lia.
  replace (zlen p - (zlen p - 1)) with 1 in Lo by lia.
  lia.
Qed.

(* ------------------------------------------------------------------------------------------ *)
(* a stable stretch with any eligible set: closed form of the state after k picks *)

Definition after_run_g (k W : Z) (ps : list Z) (b : backend) : backend :=
  if bflag b then set_cw (bcw b + k * bweight b - W * count_in (bid b) ps) b else b.

Lemma wrr_total_static (g : backend -> backend) p :
  (forall b, bflag (g b) = bflag b /\ bweight (g b) = bweight b) -> wrr_total (map g p) = wrr_total p.
Proof.
  intros Hg. induction p as [|a t IH]; cbn [map wrr_total]; [reflexivity|]. destruct (Hg a) as [-> ->]. rewrite IH. reflexivity.
Qed.

Lemma after_pick_g_keeps xid w b :
  bflag (after_pick_g xid w b) = bflag b /\ bweight (after_pick_g xid w b) = bweight b /\ bid (after_pick_g xid w b) = bid b.
Proof. unfold after_pick_g. destruct (bflag b) eqn:E; cbn; auto. Qed.

Lemma wrun_gen k : forall p,
  NoDup (map bid p) -> weights_pos p -> SInv p -> (exists b, In b p /\ bflag b = true) ->
  let '(ps, p') := wrun k p in
  p' = map (after_run_g (Z.of_nat k) (wrr_total p) ps) p /\ SInv p' /\ length ps = k.
Proof.
  induction k as [|n IH]; intros p Hnd Hw Hi Hex; cbn [wrun].
  - split; [|auto]. transitivity (map (fun x : backend => x) p); [symmetry; apply map_id|].
    apply map_ext. intros b. unfold after_run_g. cbn [count_in]. destruct (bflag b); [|reflexivity].
    destruct b; unfold set_cw; cbn. f_equal. lia.
  - destruct (wrr_pick_gen p Hnd Hex) as (x & Hx & Hfx & Hmax & E1 & E2).
    pose proof (SInv_pick p x Hnd Hw Hi Hx Hfx Hmax) as Hi1.
    destruct (wrr_pick p) as [ob p1]. cbn [fst snd] in E1, E2. subst ob p1.
    set (g := after_pick_g (bid x) (wrr_total p)) in *.
    destruct (after_pick_g_static (bid x) (wrr_total p) p) as (Eid & Ewt & Efl). fold g in Eid, Ewt, Efl.
    assert (Hnd1 : NoDup (map bid (map g p))) by (rewrite Eid; exact Hnd).
    assert (Hw1 : weights_pos (map g p)).
    { unfold weights_pos. rewrite Forall_map. eapply Forall_impl; [|exact Hw]. intros a Ha. cbn beta. unfold g.
      destruct (after_pick_g_keeps (bid x) (wrr_total p) a) as (_ & -> & _). exact Ha. }
    assert (ET : wrr_total (map g p) = wrr_total p).
    { apply wrr_total_static. intros b. destruct (after_pick_g_keeps (bid x) (wrr_total p) b) as (A & B & _). split; assumption. }
    assert (Hex1 : exists b, In b (map g p) /\ bflag b = true).
    { exists (g x). split; [apply in_map; exact Hx|]. destruct (after_pick_g_keeps (bid x) (wrr_total p) x) as (A & _). unfold g. rewrite A. exact Hfx. }
    specialize (IH (map g p) Hnd1 Hw1 Hi1 Hex1).
    destruct (wrun n (map g p)) as [ps p2]. destruct IH as (Ep2 & Hi2 & Hlen).
    split; [|split; [exact Hi2|cbn [length]; lia]].
    rewrite Ep2, ET. rewrite map_map. apply map_ext. intros b.
    unfold after_run_g, g, after_pick_g. cbn [count_in bid set_cw].
    destruct (bflag b) eqn:Efb; [|rewrite Efb; reflexivity]. cbn [bflag set_cw bid bcw bweight].
    rewrite (Z.eqb_sym (bid x)). destruct b as [i0 n0 w0 f0 u0 a0 c0]; unfold set_cw; cbn in *. subst f0.
    f_equal. destruct (Z.eqb i0 (bid x)); lia.
Qed.

(* ------------------------------------------------------------------------------------------ *)
(* every history of additions, removals, health changes, in-flight updates and picks *)

Inductive hop :=
| HAdd (b : backend)
| HRemove (id : Z)
| HFlag (id : Z) (f : bool)
| HActive (id a : Z)
| HPick (r : hreq).

Definition h_step (s : sstate) (o : hop) : sstate :=
  match o with
  | HAdd b => s_add s b
  | HRemove id => s_remove s id
  | HFlag id f => s_upd s id (set_flag f)
  | HActive id a => s_upd s id (set_active a)
  | HPick r => snd (s_pick s r)
  end.

(* additions bring a fresh object and a weight of at least 1 (the balancer clamps weights below 1) *)
Fixpoint h_valid (s : sstate) (ops : list hop) : Prop :=
  match ops with
  | [] => True
  | o :: t => (match o with HAdd b => 1 <= bweight b /\ ~ In (bid b) (map bid (spool s)) | _ => True end) /\ h_valid (h_step s o) t
  end.

Definition HInv (s : sstate) : Prop :=
  skd s = WRR /\ NoDup (map bid (spool s)) /\ weights_pos (spool s) /\ SInv (spool s).

Lemma upd_id_static id g p :
  (forall b, bid (g b) = bid b /\ bweight (g b) = bweight b) ->
  map bid (upd_id id g p) = map bid p /\ map bweight (upd_id id g p) = map bweight p.
Proof.
  intros Hg. unfold upd_id. rewrite !map_map. split; apply map_ext; intros b; destruct (Z.eqb (bid b) id); try reflexivity; apply Hg.
Qed.

Lemma weights_pos_of_map p q : map bweight p = map bweight q -> weights_pos q -> weights_pos p.
Proof.
  unfold weights_pos. revert q. induction p as [|a t IH]; intros q E H; [constructor|]. destruct q as [|c u]; [discriminate|].
  cbn [map] in E. inversion E. inversion H; subst. constructor; [lia|]. eapply IH; eauto.
Qed.

Lemma NoDup_app_snoc (l : list Z) x : NoDup l -> ~ In x l -> NoDup (l ++ [x]).
Proof.
  induction l as [|a t IH]; intros Hn Hx; cbn [app]; [constructor; [intros []|constructor]|].
  inversion Hn as [|? ? Hna Hn']; subst. constructor.
  - intros Hin. apply in_app_or in Hin. destruct Hin as [Hin|[E|[]]]; [contradiction|]. apply Hx. left. symmetry. exact E.
  - apply IH; [exact Hn'|]. intros Hin. apply Hx. right. exact Hin.
Qed.

Lemma HInv_step s o : HInv s -> (match o with HAdd b => 1 <= bweight b /\ ~ In (bid b) (map bid (spool s)) | _ => True end) -> HInv (h_step s o).
Proof.
  intros (Hk & Hnd & Hw & Hi) Hok. destruct o as [b|id|id f|id a|r]; cbn [h_step].
  - destruct Hok as [Hwb Hfresh]. unfold s_add, HInv. cbn [skd spool]. split; [exact Hk|]. split; [|split].
    + rewrite map_app. cbn [map bid set_cw]. apply NoDup_app_snoc; assumption.
    + unfold weights_pos. apply Forall_app. split; [exact Hw|]. constructor; [cbn; exact Hwb|constructor].
    + apply SInv_add; [exact Hw|lia|exact Hi].
  - unfold s_remove, HInv. cbn [skd spool]. split; [exact Hk|]. destruct (mem_id id (spool s)); [|auto].
    assert (Hw' : weights_pos (map (set_cw 0) (remove_swap id (spool s)))).
    { unfold weights_pos. rewrite Forall_map. apply Forall_forall. intros y Hy. cbn.
      apply (proj1 (Forall_forall _ _) Hw). eapply remove_swap_in. exact Hy. }
    split; [|split; [exact Hw'|]].
    + rewrite map_map. rewrite (map_ext (fun x => bid (set_cw 0 x)) bid) by (intros; reflexivity). apply remove_swap_nodup. exact Hnd.
    + apply SInv_fresh; [exact Hw'|]. unfold fresh. rewrite Forall_map. apply Forall_forall. intros y _. reflexivity.
  - unfold s_upd, HInv. cbn [skd spool].
    destruct (upd_id_static id (set_flag f) (spool s)) as [E1 E2]; [intros b; split; reflexivity|].
    split; [exact Hk|]. split; [rewrite E1; exact Hnd|]. split; [eapply weights_pos_of_map; eauto|].
    apply SInv_upd; [intros b; split; reflexivity|exact Hi].
  - unfold s_upd, HInv. cbn [skd spool].
    destruct (upd_id_static id (set_active a) (spool s)) as [E1 E2]; [intros b; split; reflexivity|].
    split; [exact Hk|]. split; [rewrite E1; exact Hnd|]. split; [eapply weights_pos_of_map; eauto|].
    apply SInv_upd; [intros b; split; reflexivity|exact Hi].
  - unfold s_pick. rewrite Hk.
    destruct (existsb bflag (spool s)) eqn:Eex.
    + apply existsb_exists in Eex. destruct Eex as (b0 & Hb0 & Hf0).
      destruct (wrr_pick_gen (spool s) Hnd (ex_intro _ b0 (conj Hb0 Hf0))) as (x & Hx & Hfx & Hmax & E1 & E2).
      destruct (wrr_pick (spool s)) as [ob p1]. cbn [fst snd] in *. subst p1. unfold HInv. cbn [skd spool].
      destruct (after_pick_g_static (bid x) (wrr_total (spool s)) (spool s)) as (Eid & Ewt & _).
      split; [reflexivity|]. split; [rewrite Eid; exact Hnd|]. split; [eapply weights_pos_of_map; eauto|].
      apply SInv_pick; assumption.
    + assert (Hall : forall b, In b (spool s) -> bflag b = false).
      { intros b Hb. destruct (bflag b) eqn:E; [|reflexivity]. assert (existsb bflag (spool s) = true) by (apply existsb_exists; eauto). congruence. }
      rewrite (wrr_pick_none _ Hall). cbn [snd]. unfold HInv. cbn [skd spool]. auto.
Qed.

Theorem history_inv ops : forall s, HInv s -> h_valid s ops -> HInv (fold_left h_step ops s).
Proof.
  induction ops as [|o t IH]; intros s Hs Hv; cbn [fold_left]; [exact Hs|].
  destruct Hv as [Hok Hv]. apply IH; [apply HInv_step; assumption|exact Hv].
Qed.

Lemma HInv_init : HInv (s_init WRR).
Proof.
  unfold HInv, s_init. cbn [skd spool]. split; [reflexivity|]. split; [constructor|]. split; [constructor|].
  apply SInv_fresh; constructor.
Qed.

(* The statement: after ANY history, in a stable stretch of k picks (any k) every eligible backend stays within
   2 * (n - 1) * W_T / W_E of its proportional share k * w_i / W_E - a bound that does not depend on k. *)
Theorem wrr_deviation_bounded ops :
  h_valid (s_init WRR) ops ->
  let p := spool (fold_left h_step ops (s_init WRR)) in
  forall k b, In b p -> bflag b = true ->
    Z.abs (count_in (bid b) (fst (wrun k p)) * wrr_total p - Z.of_nat k * bweight b) <= 2 * ((zlen p - 1) * Wt p).
Proof.
  intros Hv p k b Hb Hfb.
  destruct (history_inv ops (s_init WRR) HInv_init Hv) as (_ & Hnd & Hw & Hi). fold p in Hnd, Hw, Hi.
  pose proof (wrun_gen k p Hnd Hw Hi (ex_intro _ b (conj Hb Hfb))) as Hr.
  destruct (wrun k p) as [ps p'] eqn:Er. destruct Hr as (Ep' & Hi' & _). cbn [fst].
  set (g := after_run_g (Z.of_nat k) (wrr_total p) ps) in *.
  assert (Eid : map bid p' = map bid p).
  { rewrite Ep', map_map. apply map_ext. intros y. unfold g, after_run_g. destruct (bflag y); reflexivity. }
  assert (EW : Wt p' = Wt p).
  { unfold Wt. rewrite Ep', map_map. f_equal. apply map_ext. intros y. unfold g, after_run_g. destruct (bflag y); reflexivity. }
  assert (EL : zlen p' = zlen p) by (unfold zlen; rewrite Ep', map_length; reflexivity).
  pose proof (cw_bounded p b Hnd Hi Hb) as B0.
  assert (Hb' : In (g b) p') by (rewrite Ep'; apply in_map; exact Hb).
  pose proof (cw_bounded p' (g b) ltac:(rewrite Eid; exact Hnd) Hi' Hb') as B1. rewrite EW, EL in B1.
  unfold g, after_run_g in B1. rewrite Hfb in B1. cbn [bcw set_cw] in B1.
  lia.
Qed.

(* ------------------------------------------------------------------------------------------ *)
(* The bound cannot be 2 * W_T / W_E.  Five backends of weights 8,1,1,1,1 (W_T = 12): a history of 88 picks between health
   changes drives the running weights to (-12, 16, -6, 8, -6); in the stable stretch that follows, with backend 4 ejected
   (W_E = 11), backend 2 receives 3 of the next 7 requests where its share is 7/11: |3 * 11 - 7 * 1| = 26 > 24 = 2 * W_T. *)
Definition nr : hreq := {| h_xff := []; h_xri := []; h_remote := [] |}.
Definition flap_history : list hop :=
  [ HAdd (mkB 1 1 8 true 0 0 0); HAdd (mkB 2 2 1 true 0 0 0); HAdd (mkB 3 3 1 true 0 0 0); HAdd (mkB 4 4 1 true 0 0 0); HAdd (mkB 5 5 1 true 0 0 0); HFlag 2 false; HFlag 4 false; HPick nr;
  HFlag 2 true; HFlag 4 true; HPick nr; HPick nr; HFlag 3 false; HPick nr; HPick nr; HPick nr;
  HFlag 5 false; HPick nr; HPick nr; HFlag 5 true; HPick nr; HFlag 2 false; HFlag 4 false; HPick nr;
  HFlag 3 true; HPick nr; HPick nr; HPick nr; HFlag 5 false; HPick nr; HPick nr; HPick nr;
  HFlag 3 false; HFlag 5 true; HPick nr; HPick nr; HPick nr; HFlag 4 true; HFlag 5 false; HPick nr;
  HFlag 2 true; HPick nr; HFlag 4 false; HPick nr; HPick nr; HFlag 4 true; HPick nr; HPick nr;
  HFlag 2 false; HPick nr; HPick nr; HPick nr; HPick nr; HFlag 5 true; HPick nr; HFlag 4 false;
  HPick nr; HPick nr; HPick nr; HFlag 3 true; HPick nr; HPick nr; HFlag 5 false; HPick nr;
  HPick nr; HPick nr; HPick nr; HPick nr; HFlag 3 false; HFlag 5 true; HPick nr; HPick nr;
  HFlag 4 true; HFlag 5 false; HPick nr; HPick nr; HFlag 2 true; HFlag 4 false; HPick nr; HFlag 4 true;
  HPick nr; HFlag 2 false; HPick nr; HPick nr; HPick nr; HPick nr; HFlag 5 true; HPick nr;
  HPick nr; HFlag 4 false; HPick nr; HPick nr; HPick nr; HPick nr; HPick nr; HPick nr;
  HFlag 4 true; HPick nr; HFlag 4 false; HPick nr; HPick nr; HPick nr; HFlag 3 true; HPick nr;
  HPick nr; HPick nr; HFlag 5 false; HPick nr; HPick nr; HPick nr; HPick nr; HPick nr;
  HFlag 3 false; HFlag 5 true; HPick nr; HFlag 3 true; HPick nr; HFlag 3 false; HFlag 4 true; HFlag 5 false;
  HPick nr; HFlag 1 false; HFlag 3 true; HFlag 4 false; HFlag 5 true; HPick nr; HPick nr; HFlag 1 true;
  HFlag 2 true; HFlag 3 false; HFlag 4 true; HFlag 5 false; HPick nr; HFlag 2 false; HPick nr; HPick nr;
  HPick nr; HPick nr; HPick nr; HPick nr; HFlag 3 true; HPick nr; HFlag 4 false; HFlag 5 true;
  HPick nr; HPick nr; HPick nr; HPick nr; HPick nr; HFlag 2 true ].

Lemma flap_history_valid : h_valid (s_init WRR) flap_history.
Proof. cbv -[Z.le]. repeat split; try lia; intuition discriminate. Qed.

Theorem two_ratio_refuted :
  let p := spool (fold_left h_step flap_history (s_init WRR)) in
  map bcw p = [-12; 16; -6; 8; -6] /\ map bflag p = [true; true; true; false; true]
  /\ Wt p = 12 /\ wrr_total p = 11 /\ fst (wrun 7 p) = [2; 2; 1; 1; 1; 1; 2]
  /\ Z.abs (count_in 2 (fst (wrun 7 p)) * wrr_total p - 7 * 1) = 26 /\ 2 * Wt p = 24.
Proof. vm_compute. repeat split; reflexivity. Qed.
