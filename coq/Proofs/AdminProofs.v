(* Proofs about Model/Admin.v (C10). *)
From Helios Require Import Base.Prelude Base.Bytes Model.Strategy Model.LB Model.Admin.

(* bearer-token authentication: every endpoint except /v1/health (and unknown paths, which serve no
   data) answers 401 "unauthorized" and leaves the balancer untouched unless the first Authorization
   value is exactly "Bearer " ++ token *)
Lemma bytes_eqb_eq a : forall b, bytes_eqb a b = true <-> a = b.
Proof.
  induction a as [|x t IH]; intros [|y u]; cbn [bytes_eqb]; split; intros H; try discriminate; try reflexivity.
  - apply andb_true_iff in H. destruct H as [E1 E2]. apply Z.eqb_eq in E1. apply IH in E2. congruence.
  - inversion H; subst. rewrite Z.eqb_refl. cbn. apply IH. reflexivity.
Qed.

Lemma prefixb_app p : forall s, prefixb p s = true -> s = p ++ skipn (length p) s.
Proof.
  induction p as [|x t IH]; intros s H; cbn [prefixb length skipn app] in *; [reflexivity|].
  destruct s as [|y u]; [discriminate|]. apply andb_true_iff in H. destruct H as [E1 E2].
  apply Z.eqb_eq in E1. subst y. cbn [skipn]. f_equal. apply IH. exact E2.
Qed.

Lemma auth_exact c authz : a_token c <> [] -> (auth_ok c authz = true <-> authz = bearer ++ a_token c).
Proof.
  intros Ht. unfold auth_ok. destruct (a_token c) as [|t0 tt] eqn:Et; [congruence|]. cbn [is_nil]. split.
  - intros H. apply andb_true_iff in H. destruct H as [Hp He]. apply bytes_eqb_eq in He.
    pose proof (prefixb_app bearer authz Hp) as E. change (length bearer) with 7%nat in E. rewrite He in E. exact E.
  - intros ->. apply andb_true_iff. split.
    + unfold bearer. cbn. reflexivity.
    + change (skipn 7 (bearer ++ t0 :: tt)) with (t0 :: tt). apply bytes_eqb_eq. reflexivity.
Qed.

Theorem auth_gate c s r :
  a_token c <> [] -> r_authz r <> bearer ++ a_token c ->
  match r_ep r with EHealth | EOther => True | _ =>
    admin_step c s r = (s, (401, 1)) \/ admin_step c s r = (s, (403, 2)) end.
Proof.
  intros Ht Hne. assert (Ha : auth_ok c (r_authz r) = false).
  { destruct (auth_ok c (r_authz r)) eqn:E; [|reflexivity]. apply (auth_exact c _ Ht) in E. congruence. }
  unfold admin_step. destruct (filter_stage c (r_peer r)); cbn [negb].
  - destruct (r_ep r); auto; rewrite Ha; cbn [negb]; left; reflexivity.
  - destruct (r_ep r); auto.
Qed.

(* whatever the request, an unauthenticated or filtered request never changes the balancer *)
Theorem refused_changes_nothing c s r :
  (snd (admin_step c s r) = (401, 1) \/ snd (admin_step c s r) = (403, 2)) -> fst (admin_step c s r) = s.
Proof.
  unfold admin_step. destruct (filter_stage c (r_peer r)); cbn [negb]; [|reflexivity].
  destruct (r_ep r); try reflexivity; destruct (auth_ok c (r_authz r)); cbn [negb]; try reflexivity;
    intros [H|H]; exfalso.
  all: repeat match goal with
       | H : snd (if ?c then _ else _) = _ |- _ => destruct c
       | H : snd (match ?b with Some _ => _ | None => _ end) = _ |- _ => destruct b
       | H : snd (let '(_, _) := ?x in _) = _ |- _ => destruct x
       end; cbn in H; try discriminate.
Qed.

(* IP filter: with lists configured, a request passes the filter exactly when the PEER address parses,
   is in no deny entry, and the allow list is empty or contains it; a malformed entry refuses everyone *)
Theorem filter_decision c peer :
  (a_allow c <> [] \/ a_deny c <> []) ->
  filter_stage c peer = true <->
    (has_bad (a_allow c) = false /\ has_bad (a_deny c) = false /\ peer <> AUnparsable
     /\ any_contains (a_deny c) peer = false /\ (a_allow c = [] \/ any_contains (a_allow c) peer = true)).
Proof.
  intros Hcfg. unfold filter_stage.
  assert (E : is_nil (a_allow c) && is_nil (a_deny c) = false).
  { destruct (a_allow c); destruct (a_deny c); cbn; auto; destruct Hcfg; congruence. }
  rewrite E. destruct (has_bad (a_allow c)); cbn [orb]; [split; [discriminate|intros (H & _); discriminate]|].
  destruct (has_bad (a_deny c)); [split; [discriminate|intros (_ & H & _); discriminate]|].
  unfold is_allowed. destruct peer as [|f v].
  - split; [discriminate|intros (_ & _ & H & _); congruence].
  - destruct (any_contains (a_deny c) (AIP f v)); [split; [discriminate|intros (_ & _ & _ & H & _); discriminate]|].
    destruct (a_allow c) as [|e t]; cbn [is_nil].
    + split; auto. intros _. repeat split; auto. discriminate.
    + split.
      * intros H. repeat split; auto. discriminate.
      * intros (_ & _ & _ & _ & [H|H]); [discriminate|exact H].
Qed.

(* deny wins, and adding a deny entry never admits more *)
Theorem deny_wins c peer : any_contains (a_deny c) peer = true -> filter_stage c peer = false.
Proof.
  intros H. unfold filter_stage.
  assert (E : is_nil (a_deny c) = false) by (destruct (a_deny c); [cbn in H; discriminate|reflexivity]).
  rewrite E, andb_false_r. destruct (has_bad (a_allow c) || has_bad (a_deny c)); [reflexivity|].
  unfold is_allowed. destruct peer; [reflexivity|]. rewrite H. reflexivity.
Qed.

(* the decision is a function of the peer address only: request headers cannot influence it *)
Theorem filter_ignores_headers c r1 r2 s :
  r_peer r1 = r_peer r2 -> filter_stage c (r_peer r1) = false ->
  admin_step c s r1 = (s, (403, 2)) /\ admin_step c s r2 = (s, (403, 2)).
Proof. intros E H. unfold admin_step. rewrite <- E, H. cbn. auto. Qed.
