(* The limiter model (Model/Limiter.v), on which the C09 theorems are proved, against the functions go2coq regenerates from
   ratelimiter.go on every run (Gen/LimiterGen.v): refillTokens, the per-bucket part of Allow, bucketMaxAge. *)
From Helios Require Import Base.Prelude Model.Limiter Gen.LimiterGen.

Definition abs_rl (cfg : lcfg) (tick : Z) : TokenBucketRateLimiter := mkTokenBucketRateLimiter (lmax cfg) (lrate cfg) tick.
Definition abs_b (b : Limiter.bucket) : LimiterGen.bucket := mkbucket (tokens b) (last b).

Lemma refill_refines cfg tick b now :
  1 <= lrate cfg -> last b <= now ->
  rl_refillTokens (abs_rl cfg tick) (abs_b b) now = (abs_b (refill cfg b now), 0).
Proof.
  intros Hr Hl. unfold rl_refillTokens, refill, abs_rl, abs_b. cbn [rl_refillRate rl_maxTokens bk_lastRefill bk_tokens].
  rewrite Z.quot_div_nonneg by lia.
  destruct (0 <? (now - last b) / lrate cfg) eqn:E; [|reflexivity].
  unfold bk_set_tokens, bk_set_lastRefill. cbn [bk_tokens bk_lastRefill].
  destruct (lmax cfg <? tokens b + (now - last b) / lrate cfg) eqn:E2; cbn [tokens Limiter.last]; f_equal; f_equal; lia.
Qed.

(* Allow on the bucket getOrCreateBucket handed out *)
Lemma allow_refines cfg tick b now :
  1 <= lrate cfg -> last b <= now ->
  rl_Allow (abs_rl cfg tick) (abs_b b) now
  = (abs_b (fst (allow_bucket cfg (Some b) now)), snd (allow_bucket cfg (Some b) now)).
Proof.
  intros Hr Hl. unfold rl_Allow, allow_bucket. rewrite refill_refines by assumption. cbn [fst].
  unfold abs_b at 1 2. cbn [bk_tokens]. destruct (0 <? tokens (refill cfg b now)); reflexivity.
Qed.

(* a client without a bucket gets a full one, stamped now (getOrCreateBucket): the model's None case is the Some case on it *)
Lemma allow_new_client cfg now :
  allow_bucket cfg None now = allow_bucket cfg (Some {| tokens := lmax cfg; Limiter.last := now |}) now.
Proof. reflexivity. Qed.

(* bucketMaxAge: at least one hour and at least the time of a complete refill.  (In Z the overflow guard of the source is
   dead code; where the int64 product overflows the source answers "never", which is what an unbounded product means here.) *)
Lemma maxage_refines cfg tick now :
  1 <= lmax cfg -> 1 <= lrate cfg ->
  snd (rl_bucketMaxAge (abs_rl cfg tick) now) = cleanup_age cfg.
Proof.
  intros Hm Hr. unfold rl_bucketMaxAge, cleanup_age, abs_rl, hour. cbn [rl_maxTokens rl_refillRate].
  replace (0 <? lmax cfg) with true by lia. replace (0 <? lrate cfg) with true by lia. cbn [andb].
  rewrite Z.mul_comm, Z.quot_mul by lia. rewrite Z.eqb_refl. cbn [negb].
  rewrite (Z.mul_comm (lrate cfg)). destruct (3600000000000 <? lmax cfg * lrate cfg) eqn:E; cbn [snd]; lia.
Qed.
