(* Proofs about Model/Limiter.v: potential-function window bound, clean-up invisibility,
   isolation, new-client burst, idle refill. *)
From Helios Require Import Base.Prelude Model.Limiter.

Local Arguments Z.mul : simpl never.
Local Arguments Z.add : simpl never.
Local Arguments Z.sub : simpl never.
Local Arguments Z.div : simpl never.

Definition cap (cfg : lcfg) : Z := lmax cfg * lrate cfg + lrate cfg - 1.

Definition binv (cfg : lcfg) (now : Z) (b : bucket) : Prop :=
  0 <= tokens b <= lmax cfg /\ last b <= now.

Definition obinv (cfg : lcfg) (now : Z) (ob : option bucket) : Prop :=
  match ob with Some b => binv cfg now b | None => True end.

Definition sinv (cfg : lcfg) (st : lstate) : Prop :=
  forall c, obinv cfg (lnow st) (get_bucket st c).

Definition phi (cfg : lcfg) (now : Z) (ob : option bucket) : Z :=
  match ob with
  | None => cap cfg
  | Some b => Z.min (cap cfg) (tokens b * lrate cfg + (now - last b))
  end.

Lemma phi_nonneg cfg now ob : wf_cfg cfg -> obinv cfg now ob -> 0 <= phi cfg now ob.
Proof.
  intros [Hm Hr] H. unfold phi, cap. destruct ob as [b|]; [|nia].
  destruct H as [[H1 H2] H3]. apply Z.min_glb; nia.
Qed.

Lemma phi_le_cap cfg now ob : phi cfg now ob <= cap cfg.
Proof. unfold phi. destruct ob; lia. Qed.

(* one Allow on one bucket: invariant kept, potential drops by r per admission *)
Lemma allow_bucket_phi cfg ob now :
  wf_cfg cfg -> obinv cfg now ob ->
  let '(b', ok) := allow_bucket cfg ob now in
  binv cfg now b' /\ phi cfg now (Some b') + (if ok then lrate cfg else 0) <= phi cfg now ob.
Proof.
  intros [Hm Hr] Hinv. unfold allow_bucket, refill, phi, cap, binv in *.
  destruct ob as [b|]; cbn [obinv] in Hinv.
  - destruct Hinv as [[H1 H2] H3].
    set (add := (now - last b) / lrate cfg).
    assert (Hadd : lrate cfg * add <= now - last b < lrate cfg * add + lrate cfg)
      by (subst add; apply div_bounds; lia).
    clearbody add.
    destruct (0 <? add) eqn:Ea; cbn [tokens last].
    + destruct (0 <? Z.min (lmax cfg) (tokens b + add)) eqn:Et; cbn [tokens last]; split; try nia.
    + destruct (0 <? tokens b) eqn:Et; cbn [tokens last]; split; try nia.
  - set (add := (now - last {| tokens := lmax cfg; last := now |}) / lrate cfg).
    assert (Hadd : add = 0) by (subst add; cbn [last]; rewrite Z.sub_diag; apply Z.div_0_l; lia).
    clearbody add. subst add. cbn [Z.ltb Z.compare tokens last].
    destruct (0 <? lmax cfg) eqn:Et; cbn [tokens last]; split; try nia.
Qed.

Lemma get_bucket_update_same st c ob now :
  get_bucket {| lnow := now; lbuckets := update c ob (lbuckets st) |} c =
  match ob with Some b => Some b | None => None end.
Proof. unfold get_bucket; cbn [lbuckets]. rewrite lookup_update_same. destruct ob; reflexivity. Qed.

Lemma get_bucket_update_other st c c' ob now :
  c <> c' ->
  get_bucket {| lnow := now; lbuckets := update c ob (lbuckets st) |} c' = get_bucket st c'.
Proof. intros H. unfold get_bucket; cbn [lbuckets]. rewrite lookup_update_other by exact H. reflexivity. Qed.

Lemma allow_now cfg st c : lnow (fst (allow cfg st c)) = lnow st.
Proof. unfold allow. destruct (allow_bucket _ _ _). reflexivity. Qed.

Lemma allow_sinv cfg st c : wf_cfg cfg -> sinv cfg st -> sinv cfg (fst (allow cfg st c)).
Proof.
  intros Hw Hs c'. unfold allow.
  pose proof (allow_bucket_phi cfg (get_bucket st c) (lnow st) Hw (Hs c)) as H.
  destruct (allow_bucket cfg (get_bucket st c) (lnow st)) as [b ok]. cbn [fst lnow].
  destruct (Z.eq_dec c c') as [->|Hne].
  - rewrite get_bucket_update_same. exact (proj1 H).
  - rewrite get_bucket_update_other by exact Hne. apply Hs.
Qed.

Lemma get_bucket_cleanup cfg st c :
  get_bucket (cleanup cfg st) c =
  match get_bucket st c with
  | Some b => if stale cfg (lnow st) b then None else Some b
  | None => None
  end.
Proof.
  unfold get_bucket, cleanup; cbn [lbuckets]. rewrite lookup_amap.
  destruct (lookup c (lbuckets st)) as [[b|]|]; cbn [option_map]; try reflexivity.
  destruct (stale cfg (lnow st) b); reflexivity.
Qed.

Lemma lstep_sinv cfg st o : wf_cfg cfg -> op_wf o -> sinv cfg st -> sinv cfg (fst (lstep cfg st o)).
Proof.
  intros Hw Ho Hs. destruct o as [c|dt|]; cbn [lstep].
  - pose proof (allow_sinv cfg st c Hw Hs). destruct (allow cfg st c). exact H.
  - cbn [fst]. intros c. specialize (Hs c). unfold get_bucket in *; cbn [lbuckets lnow] in *.
    destruct (lookup c (lbuckets st)) as [[b|]|]; cbn [obinv] in *; auto.
    cbn [op_wf] in Ho. unfold binv in *. lia.
  - cbn [fst]. intros c. rewrite get_bucket_cleanup. specialize (Hs c).
    cbn [cleanup lnow]. destruct (get_bucket st c) as [b|]; cbn [obinv]; auto.
    destruct (stale cfg (lnow st) b); cbn [obinv]; auto.
Qed.

Lemma lrun_sinv cfg ops : forall st,
  wf_cfg cfg -> Forall op_wf ops -> sinv cfg st -> sinv cfg (fst (lrun cfg st ops)).
Proof.
  induction ops as [|o t IH]; intros st Hw Hf Hs; cbn [lrun fst]; [exact Hs|].
  inversion Hf as [|? ? Ho Ht]; subst.
  pose proof (lstep_sinv cfg st o Hw Ho Hs) as H1.
  destruct (lstep cfg st o) as [st1 out1]. cbn [fst] in H1.
  specialize (IH st1 Hw Ht H1). destruct (lrun cfg st1 t) as [st2 out2]. exact IH.
Qed.

Lemma linit_sinv cfg t0 : sinv cfg (linit t0).
Proof. intros c. unfold get_bucket, linit; cbn. exact I. Qed.

Definition no_cleanup (o : lop) : Prop := match o with LCleanup => False | _ => True end.

Lemma admitted_app c a b : admitted c (a ++ b) = admitted c a + admitted c b.
Proof. induction a as [|[c' ok] t IH]; cbn [admitted app]; lia. Qed.

(* the telescoping inequality, for histories without clean-up *)
Lemma potential_nocleanup cfg c ops : forall st,
  wf_cfg cfg -> sinv cfg st -> Forall op_wf ops -> Forall no_cleanup ops ->
  admitted c (snd (lrun cfg st ops)) * lrate cfg
    + phi cfg (lnow (fst (lrun cfg st ops))) (get_bucket (fst (lrun cfg st ops)) c)
  <= phi cfg (lnow st) (get_bucket st c) + dur ops.
Proof.
  induction ops as [|o t IH]; intros st Hw Hs Hf Hn; cbn [lrun fst snd dur admitted]; [lia|].
  inversion Hf as [|? ? Ho Ht]; subst. inversion Hn as [|? ? Hno Hnt]; subst.
  pose proof (lstep_sinv cfg st o Hw Ho Hs) as Hs1.
  destruct o as [c'|dt|]; cbn [lstep] in *; [| |contradiction].
  - (* Allow c' *)
    unfold allow in *.
    pose proof (allow_bucket_phi cfg (get_bucket st c') (lnow st) Hw (Hs c')) as Hb.
    destruct (allow_bucket cfg (get_bucket st c') (lnow st)) as [b ok]. cbn [fst] in Hs1.
    specialize (IH _ Hw Hs1 Ht Hnt).
    destruct (lrun cfg _ t) as [st2 out2]. cbn [fst snd app admitted dur] in *.
    destruct (Z.eq_dec c' c) as [->|Hne].
    + rewrite get_bucket_update_same in IH. cbn [lnow] in IH. rewrite Z.eqb_refl. cbn [andb].
      destruct Hb as [_ Hb]. destruct ok; lia.
    + rewrite get_bucket_update_other in IH by exact Hne. cbn [lnow] in IH.
      assert (E : Z.eqb c c' = false) by (apply Z.eqb_neq; congruence). rewrite E. cbn [andb]. lia.
  - (* Advance dt *)
    cbn [fst] in Hs1. specialize (IH _ Hw Hs1 Ht Hnt).
    destruct (lrun cfg _ t) as [st2 out2]. cbn [fst snd app] in *.
    cbn [lnow] in IH. cbn [op_wf] in Ho.
    assert (Hphi : phi cfg (lnow st + dt) (get_bucket {| lnow := lnow st + dt; lbuckets := lbuckets st |} c)
                   <= phi cfg (lnow st) (get_bucket st c) + dt).
    { unfold get_bucket; cbn [lbuckets]. destruct (lookup c (lbuckets st)) as [[b|]|]; unfold phi; lia. }
    lia.
Qed.

(* Window bound without clean-up, in its sharp multiplicative form *)
Lemma window_nocleanup cfg c ops st :
  wf_cfg cfg -> sinv cfg st -> Forall op_wf ops -> Forall no_cleanup ops ->
  admitted c (snd (lrun cfg st ops)) * lrate cfg <= lmax cfg * lrate cfg + (lrate cfg - 1) + dur ops.
Proof.
  intros Hw Hs Hf Hn.
  pose proof (potential_nocleanup cfg c ops st Hw Hs Hf Hn) as H.
  pose proof (lrun_sinv cfg ops st Hw Hf Hs) as Hs2.
  pose proof (phi_nonneg cfg _ _ Hw (Hs2 c)) as Hp.
  pose proof (phi_le_cap cfg (lnow st) (get_bucket st c)) as Hc.
  unfold cap in Hc. lia.
Qed.

Lemma dur_nonneg ops : Forall op_wf ops -> 0 <= dur ops.
Proof.
  induction 1 as [|o t Ho Ht IH]; cbn [dur]; [lia|].
  destruct o; cbn [op_wf] in *; lia.
Qed.

(* ------------------------------------------------------------------------------------ *)
(* Clean-up is invisible when max * rate <= cleanup_age                                   *)

Fixpoint strip (ops : list lop) : list lop :=
  match ops with
  | [] => []
  | LCleanup :: t => strip t
  | o :: t => o :: strip t
  end.

Lemma strip_no_cleanup ops : Forall no_cleanup (strip ops).
Proof. induction ops as [|o t IH]; cbn [strip]; [constructor|]. destruct o; try constructor; cbn; auto. Qed.

Lemma strip_wf ops : Forall op_wf ops -> Forall op_wf (strip ops).
Proof. induction 1 as [|o t Ho Ht IH]; cbn [strip]; [constructor|]. destruct o; try constructor; auto. Qed.

Lemma strip_dur ops : dur (strip ops) = dur ops.
Proof. induction ops as [|o t IH]; cbn [strip dur]; [reflexivity|]. destruct o; cbn [dur]; lia. Qed.

Lemma strip_app a b : strip (a ++ b) = strip a ++ strip b.
Proof. induction a as [|o t IH]; cbn [strip app]; [reflexivity|]. destruct o; cbn [app]; congruence. Qed.

(* st1 runs with clean-ups, st2 without *)
Definition osim (cfg : lcfg) (now : Z) (o1 o2 : option bucket) : Prop :=
  o1 = o2 \/ (o1 = None /\ exists b, o2 = Some b /\ last b < now - cleanup_age cfg).

Definition sim (cfg : lcfg) (st1 st2 : lstate) : Prop :=
  lnow st1 = lnow st2 /\ forall c, osim cfg (lnow st1) (get_bucket st1 c) (get_bucket st2 c).

Lemma allow_bucket_stale cfg now b :
  wf_cfg cfg -> lmax cfg * lrate cfg <= cleanup_age cfg -> binv cfg now b ->
  last b < now - cleanup_age cfg ->
  allow_bucket cfg (Some b) now = allow_bucket cfg None now.
Proof.
  intros [Hm Hr] Hage [[H1 H2] H3] Hst. unfold allow_bucket, refill. cbn [last tokens].
  rewrite Z.sub_diag, Z.div_0_l by lia. cbn [Z.ltb Z.compare tokens last].
  set (add := (now - last b) / lrate cfg).
  assert (Hadd : lrate cfg * add <= now - last b < lrate cfg * add + lrate cfg)
    by (subst add; apply div_bounds; lia).
  clearbody add.
  assert (Hge : lmax cfg <= add) by nia.
  assert (E : (0 <? add) = true) by lia. rewrite E. cbn [tokens last].
  assert (E2 : Z.min (lmax cfg) (tokens b + add) = lmax cfg) by lia. rewrite E2.
  reflexivity.
Qed.

Lemma sim_step cfg st1 st2 o :
  wf_cfg cfg -> lmax cfg * lrate cfg <= cleanup_age cfg -> op_wf o ->
  sim cfg st1 st2 -> sinv cfg st2 ->
  match o with
  | LCleanup => sim cfg (fst (lstep cfg st1 o)) st2 /\ snd (lstep cfg st1 o) = []
  | _ => sim cfg (fst (lstep cfg st1 o)) (fst (lstep cfg st2 o))
         /\ snd (lstep cfg st1 o) = snd (lstep cfg st2 o)
  end.
Proof.
  intros Hw Hage Ho [Hnow Hsim] Hs2. destruct o as [c|dt|]; cbn [lstep].
  - (* Allow *)
    unfold allow.
    assert (E : allow_bucket cfg (get_bucket st1 c) (lnow st1) = allow_bucket cfg (get_bucket st2 c) (lnow st2)).
    { rewrite <- Hnow. destruct (Hsim c) as [E0|[E1 [b [E2 Hb]]]]; [rewrite E0; reflexivity|].
      rewrite E1, E2. symmetry. apply allow_bucket_stale; auto.
      specialize (Hs2 c). rewrite E2 in Hs2. cbn [obinv] in Hs2. rewrite Hnow. exact Hs2. }
    rewrite E. destruct (allow_bucket cfg (get_bucket st2 c) (lnow st2)) as [b ok]. cbn [fst snd].
    split; [|reflexivity]. split; [exact Hnow|]. cbn [lnow]. intros c'.
    destruct (Z.eq_dec c c') as [->|Hne].
    + rewrite !get_bucket_update_same. left; reflexivity.
    + rewrite !get_bucket_update_other by exact Hne. apply Hsim.
  - (* Advance *)
    cbn [fst snd]. split; [|reflexivity]. split; [cbn [lnow]; lia|]. cbn [lnow]. intros c.
    specialize (Hsim c). unfold get_bucket in *; cbn [lbuckets].
    destruct Hsim as [E|[E [b [E2 Hb]]]].
    + left. exact E.
    + right. split; [exact E|]. exists b. split; [exact E2|]. cbn [op_wf] in Ho. lia.
  - (* Cleanup on the left only *)
    cbn [fst snd]. split; [|reflexivity]. split; [exact Hnow|]. cbn [cleanup lnow]. intros c.
    rewrite get_bucket_cleanup. specialize (Hsim c).
    destruct Hsim as [E|[E [b [E2 Hb]]]].
    + rewrite E. destruct (get_bucket st2 c) as [b|]; [|left; reflexivity].
      unfold stale. destruct (last b <? lnow st1 - cleanup_age cfg) eqn:Es.
      * right. split; [reflexivity|]. exists b. split; [reflexivity|lia].
      * left; reflexivity.
    + rewrite E. right. split; [reflexivity|]. exists b. auto.
Qed.

Lemma sim_run cfg ops : forall st1 st2,
  wf_cfg cfg -> lmax cfg * lrate cfg <= cleanup_age cfg -> Forall op_wf ops ->
  sim cfg st1 st2 -> sinv cfg st2 ->
  snd (lrun cfg st1 ops) = snd (lrun cfg st2 (strip ops))
  /\ sim cfg (fst (lrun cfg st1 ops)) (fst (lrun cfg st2 (strip ops)))
  /\ sinv cfg (fst (lrun cfg st2 (strip ops))).
Proof.
  induction ops as [|o t IH]; intros st1 st2 Hw Hage Hf Hsim Hs2; cbn [lrun strip fst snd]; [auto|].
  inversion Hf as [|? ? Ho Ht]; subst.
  pose proof (sim_step cfg st1 st2 o Hw Hage Ho Hsim Hs2) as Hstep.
  destruct o as [c|dt|].
  - destruct Hstep as [Hsim' Hout]. cbn [lrun].
    pose proof (lstep_sinv cfg st2 (LAllow c) Hw Ho Hs2) as Hs2'.
    destruct (lstep cfg st1 (LAllow c)) as [s1 o1]. destruct (lstep cfg st2 (LAllow c)) as [s2 o2].
    cbn [fst snd] in *. subst o2.
    specialize (IH s1 s2 Hw Hage Ht Hsim' Hs2').
    destruct (lrun cfg s1 t) as [s1' o1']. destruct (lrun cfg s2 (strip t)) as [s2' o2'].
    cbn [fst snd] in *. destruct IH as [-> [? ?]]. auto.
  - destruct Hstep as [Hsim' Hout]. cbn [lrun].
    pose proof (lstep_sinv cfg st2 (LAdvance dt) Hw Ho Hs2) as Hs2'.
    destruct (lstep cfg st1 (LAdvance dt)) as [s1 o1]. destruct (lstep cfg st2 (LAdvance dt)) as [s2 o2].
    cbn [fst snd] in *. subst o2.
    specialize (IH s1 s2 Hw Hage Ht Hsim' Hs2').
    destruct (lrun cfg s1 t) as [s1' o1']. destruct (lrun cfg s2 (strip t)) as [s2' o2'].
    cbn [fst snd] in *. destruct IH as [-> [? ?]]. auto.
  - destruct Hstep as [Hsim' Hout].
    destruct (lstep cfg st1 LCleanup) as [s1 o1]. cbn [fst snd] in *. subst o1.
    specialize (IH s1 st2 Hw Hage Ht Hsim' Hs2).
    destruct (lrun cfg s1 t) as [s1' o1']. cbn [fst snd app] in *. exact IH.
Qed.

Lemma sim_refl cfg st : sim cfg st st.
Proof. split; [reflexivity|]. intros c. left. reflexivity. Qed.

Lemma lrun_app cfg a b st :
  lrun cfg st (a ++ b) =
  let '(s1, o1) := lrun cfg st a in let '(s2, o2) := lrun cfg s1 b in (s2, o1 ++ o2).
Proof.
  revert st. induction a as [|o t IH]; intros st; cbn [lrun app].
  - destruct (lrun cfg st b). reflexivity.
  - destruct (lstep cfg st o) as [s1 o1]. rewrite IH.
    destruct (lrun cfg s1 t) as [s2 o2]. destruct (lrun cfg s2 b) as [s3 o3].
    rewrite app_assoc. reflexivity.
Qed.

(* The window theorem over every segment of every history, clean-ups included
   (sharp form: admitted * r <= max * r + (r - 1) + T). *)
Theorem window_sharp cfg t0 pre mid c :
  wf_cfg cfg -> lmax cfg * lrate cfg <= cleanup_age cfg -> Forall op_wf (pre ++ mid) ->
  admitted c (snd (lrun cfg (fst (lrun cfg (linit t0) pre)) mid)) * lrate cfg
    <= lmax cfg * lrate cfg + (lrate cfg - 1) + dur mid.
Proof.
  intros Hw Hage Hf. apply Forall_app in Hf. destruct Hf as [Hfp Hfm].
  destruct (sim_run cfg pre (linit t0) (linit t0) Hw Hage Hfp (sim_refl _ _) (linit_sinv _ _))
    as [_ [Hsim Hs2]].
  destruct (sim_run cfg mid _ _ Hw Hage Hfm Hsim Hs2) as [Hout _].
  rewrite Hout. rewrite <- (strip_dur mid).
  apply window_nocleanup; auto using strip_no_cleanup, strip_wf.
Qed.

Theorem window_bound cfg t0 pre mid c :
  wf_cfg cfg -> lmax cfg * lrate cfg <= cleanup_age cfg -> Forall op_wf (pre ++ mid) ->
  admitted c (snd (lrun cfg (fst (lrun cfg (linit t0) pre)) mid))
    <= lmax cfg + dur mid / lrate cfg + 1.
Proof.
  intros Hw Hage Hf. pose proof (window_sharp cfg t0 pre mid c Hw Hage Hf) as H.
  apply Forall_app in Hf. destruct Hf as [_ Hfm]. pose proof (dur_nonneg mid Hfm) as Hd.
  destruct Hw as [Hm Hr].
  set (a := admitted c _) in *. clearbody a.
  assert (Hq : lrate cfg * (dur mid / lrate cfg) <= dur mid < lrate cfg * (dur mid / lrate cfg) + lrate cfg)
    by (apply div_bounds; lia).
  nia.
Qed.

(* burst: no time passes in mid => at most max admissions *)
Theorem burst_bound cfg t0 pre mid c :
  wf_cfg cfg -> lmax cfg * lrate cfg <= cleanup_age cfg -> Forall op_wf (pre ++ mid) ->
  dur mid = 0 ->
  admitted c (snd (lrun cfg (fst (lrun cfg (linit t0) pre)) mid)) <= lmax cfg.
Proof.
  intros Hw Hage Hf Hd. pose proof (window_sharp cfg t0 pre mid c Hw Hage Hf) as H.
  rewrite Hd in H. destruct Hw as [Hm Hr]. nia.
Qed.

(* ------------------------------------------------------------------------------------ *)
(* Isolation: the outcomes of client c depend only on c's own requests, time and clean-ups *)

Fixpoint only (c : Z) (ops : list lop) : list lop :=
  match ops with
  | [] => []
  | LAllow c' :: t => if Z.eqb c c' then LAllow c' :: only c t else only c t
  | o :: t => o :: only c t
  end.

Definition outs_of (c : Z) (out : list (Z * bool)) : list (Z * bool) :=
  filter (fun p => Z.eqb (fst p) c) out.

Lemma outs_of_app c a b : outs_of c (a ++ b) = outs_of c a ++ outs_of c b.
Proof. unfold outs_of. apply filter_app. Qed.

Definition agree (c : Z) (st1 st2 : lstate) : Prop :=
  lnow st1 = lnow st2 /\ get_bucket st1 c = get_bucket st2 c.

Lemma isolation_gen cfg c ops : forall st1 st2,
  agree c st1 st2 ->
  outs_of c (snd (lrun cfg st1 ops)) = outs_of c (snd (lrun cfg st2 (only c ops)))
  /\ agree c (fst (lrun cfg st1 ops)) (fst (lrun cfg st2 (only c ops))).
Proof.
  induction ops as [|o t IH]; intros st1 st2 [Hn Hb]; cbn [lrun only fst snd]; [split; [reflexivity|split; auto]|].
  destruct o as [c'|dt|].
  - destruct (Z.eqb c c') eqn:E.
    + apply Z.eqb_eq in E. subst c'. cbn [lrun lstep]. unfold allow. rewrite Hb, Hn.
      destruct (allow_bucket cfg (get_bucket st2 c) (lnow st2)) as [b ok].
      match goal with |- context [lrun cfg ?s1 t] =>
        match goal with |- context [lrun cfg ?s2 (only c t)] =>
          assert (Ha : agree c s1 s2) by (split; [reflexivity| rewrite !get_bucket_update_same; reflexivity]);
          specialize (IH s1 s2 Ha); destruct (lrun cfg s1 t) as [s1' o1']; destruct (lrun cfg s2 (only c t)) as [s2' o2']
        end end.
      cbn [fst snd] in *. destruct IH as [IH1 IH2]. split; [|exact IH2].
      rewrite !outs_of_app. rewrite IH1. reflexivity.
    + cbn [lstep]. unfold allow.
      destruct (allow_bucket cfg (get_bucket st1 c') (lnow st1)) as [b ok].
      match goal with |- context [lrun cfg ?s1 t] =>
          assert (Ha : agree c s1 st2);
          [ split; [exact Hn | rewrite get_bucket_update_other by (apply Z.eqb_neq in E; congruence); exact Hb]
          | specialize (IH s1 st2 Ha); destruct (lrun cfg s1 t) as [s1' o1'] ]
      end.
      cbn [fst snd] in *. destruct IH as [IH1 IH2]. split; [|exact IH2].
      rewrite outs_of_app. cbn [outs_of filter fst]. rewrite Z.eqb_sym, E. exact IH1.
  - cbn [lrun lstep].
    match goal with |- context [lrun cfg ?s1 t] =>
      match goal with |- context [lrun cfg ?s2 (only c t)] =>
        assert (Ha : agree c s1 s2) by (split; [cbn [lnow]; lia | unfold get_bucket in *; cbn [lbuckets]; exact Hb]);
        specialize (IH s1 s2 Ha); destruct (lrun cfg s1 t) as [s1' o1']; destruct (lrun cfg s2 (only c t)) as [s2' o2']
      end end.
    cbn [fst snd app] in *. exact IH.
  - cbn [lrun lstep].
    assert (Ha : agree c (cleanup cfg st1) (cleanup cfg st2)).
    { split; [exact Hn|]. rewrite !get_bucket_cleanup. rewrite Hb, Hn. reflexivity. }
    specialize (IH _ _ Ha).
    destruct (lrun cfg (cleanup cfg st1) t) as [s1' o1']. destruct (lrun cfg (cleanup cfg st2) (only c t)) as [s2' o2'].
    cbn [fst snd app] in *. exact IH.
Qed.

Theorem isolation cfg c ops st :
  outs_of c (snd (lrun cfg st ops)) = outs_of c (snd (lrun cfg st (only c ops))).
Proof. apply isolation_gen. split; reflexivity. Qed.

(* ------------------------------------------------------------------------------------ *)
(* Availability: how many simultaneous requests the next burst will admit                   *)

Definition avail (cfg : lcfg) (now : Z) (ob : option bucket) : Z :=
  match ob with
  | None => lmax cfg
  | Some b => Z.min (lmax cfg) (tokens b + (now - last b) / lrate cfg)
  end.

Lemma allow_bucket_avail cfg ob now :
  wf_cfg cfg -> obinv cfg now ob ->
  let '(b', ok) := allow_bucket cfg ob now in
  ok = (1 <=? avail cfg now ob) /\
  avail cfg now (Some b') = avail cfg now ob - (if ok then 1 else 0).
Proof.
  intros [Hm Hr] Hinv. unfold allow_bucket, refill, avail, binv in *.
  destruct ob as [b|]; cbn [obinv] in Hinv.
  - destruct Hinv as [[H1 H2] H3].
    set (add := (now - last b) / lrate cfg).
    assert (Hadd : lrate cfg * add <= now - last b < lrate cfg * add + lrate cfg)
      by (subst add; apply div_bounds; lia).
    clearbody add.
    destruct (0 <? add) eqn:Ea; cbn [tokens last].
    + destruct (0 <? Z.min (lmax cfg) (tokens b + add)) eqn:Et; cbn [tokens last];
        rewrite Z.sub_diag, Z.div_0_l by lia; split; lia.
    + assert (add = 0) by nia. subst add.
      destruct (0 <? tokens b) eqn:Et; cbn [tokens last].
      * assert (E : (now - last b) / lrate cfg = 0) by (apply Z.div_small; lia). rewrite E. split; lia.
      * assert (E : (now - last b) / lrate cfg = 0) by (apply Z.div_small; lia). rewrite E. split; lia.
  - cbn [last tokens]. rewrite Z.sub_diag, Z.div_0_l by lia.
    change (0 <? 0) with false. cbv iota. cbn [tokens last].
    assert (Et : (0 <? lmax cfg) = true) by lia. rewrite Et. cbn [tokens last].
    rewrite Z.sub_diag, Z.div_0_l by lia. split; lia.
Qed.

Fixpoint all_admitted (c : Z) (out : list (Z * bool)) : Prop :=
  match out with [] => True | p :: t => p = (c, true) /\ all_admitted c t end.

(* n simultaneous requests, n <= avail, are all admitted *)
Lemma burst_admitted cfg c n : forall st,
  wf_cfg cfg -> sinv cfg st ->
  Z.of_nat n <= avail cfg (lnow st) (get_bucket st c) ->
  snd (lrun cfg st (repeat_op n (LAllow c))) = repeat_op n (c, true).
Proof.
  induction n as [|n IH]; intros st Hw Hs Hn; cbn [repeat_op lrun snd]; [reflexivity|].
  cbn [lstep]. pose proof (allow_sinv cfg st c Hw Hs) as Hs1. unfold allow in *.
  pose proof (allow_bucket_avail cfg (get_bucket st c) (lnow st) Hw (Hs c)) as Ha.
  destruct (allow_bucket cfg (get_bucket st c) (lnow st)) as [b ok]. cbn [fst] in Hs1.
  destruct Ha as [Hok Hav].
  assert (Hok' : ok = true) by (rewrite Hok; lia). clear Hok. subst ok.
  specialize (IH _ Hw Hs1). cbn [lnow] in IH. rewrite get_bucket_update_same in IH.
  rewrite Hav in IH. cbv iota in IH. rewrite Nat2Z.inj_succ in Hn. specialize (IH ltac:(lia)).
  destruct (lrun cfg _ (repeat_op n (LAllow c))) as [s2 o2]. cbn [snd] in *. rewrite IH. reflexivity.
Qed.

Theorem new_client_full cfg c n st :
  wf_cfg cfg -> sinv cfg st -> get_bucket st c = None -> Z.of_nat n <= lmax cfg ->
  snd (lrun cfg st (repeat_op n (LAllow c))) = repeat_op n (c, true).
Proof. intros Hw Hs Hb Hn. apply burst_admitted; auto. rewrite Hb. exact Hn. Qed.

(* capped credit in token*ns units; avail = credit / r *)
Definition credit (cfg : lcfg) (now : Z) (ob : option bucket) : Z :=
  match ob with
  | None => lmax cfg * lrate cfg
  | Some b => Z.min (lmax cfg * lrate cfg) (tokens b * lrate cfg + (now - last b))
  end.

Definition no_allow_of (c : Z) (o : lop) : Prop :=
  match o with LAllow c' => c' <> c | _ => True end.

Lemma credit_idle cfg c ops : forall st,
  wf_cfg cfg -> sinv cfg st -> Forall op_wf ops -> Forall (no_allow_of c) ops ->
  Z.min (lmax cfg * lrate cfg) (credit cfg (lnow st) (get_bucket st c) + dur ops)
  <= credit cfg (lnow (fst (lrun cfg st ops))) (get_bucket (fst (lrun cfg st ops)) c).
Proof.
  induction ops as [|o t IH]; intros st Hw Hs Hf Hn; cbn [lrun fst dur].
  - unfold credit. destruct (get_bucket st c); lia.
  - inversion Hf as [|? ? Ho Ht]; subst. inversion Hn as [|? ? Hno Hnt]; subst.
    pose proof (lstep_sinv cfg st o Hw Ho Hs) as Hs1.
    pose proof (dur_nonneg t Ht) as Hdt.
    destruct o as [c'|dt|]; cbn [lstep] in *.
    + unfold allow in *. destruct (allow_bucket cfg (get_bucket st c') (lnow st)) as [b ok]. cbn [fst] in Hs1.
      specialize (IH _ Hw Hs1 Ht Hnt). destruct (lrun cfg _ t) as [s2 o2]. cbn [fst] in *.
      rewrite get_bucket_update_other in IH by exact Hno. cbn [lnow] in IH. exact IH.
    + cbn [fst] in Hs1. specialize (IH _ Hw Hs1 Ht Hnt). destruct (lrun cfg _ t) as [s2 o2]. cbn [fst] in *.
      cbn [lnow] in IH. cbn [op_wf] in Ho.
      etransitivity; [|exact IH]. unfold get_bucket; cbn [lbuckets].
      destruct (lookup c (lbuckets st)) as [[b|]|]; unfold credit; lia.
    + cbn [fst] in Hs1. specialize (IH _ Hw Hs1 Ht Hnt). destruct (lrun cfg _ t) as [s2 o2]. cbn [fst] in *.
      etransitivity; [|exact IH]. rewrite get_bucket_cleanup. cbn [cleanup lnow].
      destruct (get_bucket st c) as [b|]; [|unfold credit; lia].
      destruct (stale cfg (lnow st) b); unfold credit; lia.
Qed.

Lemma avail_credit cfg now ob :
  wf_cfg cfg -> avail cfg now ob = credit cfg now ob / lrate cfg.
Proof.
  intros [Hm Hr]. unfold avail, credit. destruct ob as [b|].
  - pose proof (div_bounds (now - last b) (lrate cfg) ltac:(lia)) as H1.
    pose proof (div_bounds (Z.min (lmax cfg * lrate cfg) (tokens b * lrate cfg + (now - last b))) (lrate cfg) ltac:(lia)) as H2.
    set (q1 := (now - last b) / lrate cfg) in *. set (q2 := Z.min _ _ / lrate cfg) in *. clearbody q1 q2.
    nia.
  - rewrite Z.div_mul by lia. reflexivity.
Qed.

(* a client with no event for at least k refill periods is admitted min(k,max) more times at once *)
Theorem idle_refill cfg c k n idle st :
  wf_cfg cfg -> sinv cfg st -> Forall op_wf idle -> Forall (no_allow_of c) idle ->
  0 <= k -> k * lrate cfg <= dur idle -> Z.of_nat n <= Z.min k (lmax cfg) ->
  snd (lrun cfg (fst (lrun cfg st idle)) (repeat_op n (LAllow c))) = repeat_op n (c, true).
Proof.
  intros Hw Hs Hf Hn Hk Hd Hle.
  pose proof (lrun_sinv cfg idle st Hw Hf Hs) as Hs1.
  apply burst_admitted; auto.
  rewrite avail_credit by exact Hw.
  pose proof (credit_idle cfg c idle st Hw Hs Hf Hn) as Hc.
  assert (H0 : 0 <= credit cfg (lnow st) (get_bucket st c)).
  { specialize (Hs c). destruct Hw as [Hm Hr]. unfold credit. destruct (get_bucket st c) as [b|]; [|nia].
    cbn [obinv] in Hs. destruct Hs as [[? ?] ?]. apply Z.min_glb; nia. }
  destruct Hw as [Hm Hr].
  set (cr := credit cfg (lnow (fst (lrun cfg st idle))) _) in *. clearbody cr.
  pose proof (div_bounds cr (lrate cfg) ltac:(lia)) as Hq. set (q := cr / lrate cfg) in *. clearbody q.
  nia.
Qed.

(* ------------------------------------------------------------------------------------ *)
(* bucketMaxAge() makes the side condition of the clean-up lemmas hold for every configuration *)
Lemma age_ok cfg : lmax cfg * lrate cfg <= cleanup_age cfg.
Proof. unfold cleanup_age. lia. Qed.

(* Witness kept for the record: with the former fixed one-hour cut-off (max * rate > 1h) the
   clean-up re-granted a burst; [old_cleanup] is that former behaviour. *)
Definition old_cleanup (st : lstate) : lstate :=
  {| lnow := lnow st;
     lbuckets := amap (fun _ ob => match ob with
                                   | Some b => if last b <? lnow st - hour then None else Some b
                                   | None => None end) (lbuckets st) |}.
Definition refute_cfg : lcfg := {| lmax := 2; lrate := 7200 * 1000000000 |}.
Lemma old_cleanup_regrants :
  let st1 := fst (lrun refute_cfg (linit 0) [LAllow 1; LAllow 1; LAdvance (70 * 60 * 1000000000)]) in
  snd (lrun refute_cfg (old_cleanup st1) [LAdvance (60 * 1000000000); LAllow 1; LAllow 1]) = [(1, true); (1, true)]
  /\ snd (lrun refute_cfg (cleanup refute_cfg st1) [LAdvance (60 * 1000000000); LAllow 1; LAllow 1]) = [(1, false); (1, false)].
Proof. vm_compute. split; reflexivity. Qed.
