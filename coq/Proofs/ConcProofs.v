(* Proofs about Model/Conc.v: properties of the step-level models that hold for EVERY schedule and any number of threads. *)
From Helios Require Import Base.Prelude Model.Conc.

Local Arguments Z.add : simpl never.
Local Arguments Z.sub : simpl never.

(* ---- generic: an invariant of the shared state preserved by every section is preserved by every schedule ---- *)
Lemma run_sched_inv {Sh Lo} (P : Sh -> Prop) (ths : list (thr Sh Lo)) :
  (forall th s l pc, In th ths -> P s -> P (fst (fst (t_step _ _ th s l pc)))) ->
  forall sched s ts tr, P s -> P (fst (fst (run_sched ths s ts sched tr))).
Proof.
  intros Hstep. induction sched as [|i rest IH]; intros s ts tr Hs; cbn [run_sched]; [exact Hs|].
  destruct (nth_error ths (Z.to_nat i)) as [th|] eqn:Eth; [|apply IH; exact Hs].
  destruct (nth_error ts (Z.to_nat i)) as [st|] eqn:Est; [|apply IH; exact Hs].
  destruct (ts_pc st) as [pc|]; [|apply IH; exact Hs].
  pose proof (Hstep th s (ts_local st) pc (nth_error_In _ _ Eth) Hs) as H.
  destruct (t_step _ _ th s (ts_local st) pc) as [[s' l'] next]. cbn [fst] in H. apply IH. exact H.
Qed.

(* ---- generic: an invariant of shared state and thread states together ---- *)
Lemma run_sched_joint {Sh Lo} (Q : Sh -> list (tstate Lo) -> Prop) (ths : list (thr Sh Lo)) :
  (forall i th st pc s ts, nth_error ths i = Some th -> nth_error ts i = Some st -> ts_pc st = Some pc -> Q s ts ->
     Q (fst (fst (t_step _ _ th s (ts_local st) pc)))
       (nth_upd i (fun _ => mkTS (snd (fst (t_step _ _ th s (ts_local st) pc))) (snd (t_step _ _ th s (ts_local st) pc))) ts)) ->
  forall sched s ts tr, Q s ts -> Q (fst (fst (run_sched ths s ts sched tr))) (snd (fst (run_sched ths s ts sched tr))).
Proof.
  intros Hstep. induction sched as [|i rest IH]; intros s ts tr Hq; cbn [run_sched]; [exact Hq|].
  destruct (nth_error ths (Z.to_nat i)) as [th|] eqn:Eth; [|apply IH; exact Hq].
  destruct (nth_error ts (Z.to_nat i)) as [st|] eqn:Est; [|apply IH; exact Hq].
  destruct (ts_pc st) as [pc|] eqn:Epc; [|apply IH; exact Hq].
  pose proof (Hstep (Z.to_nat i) th st pc s ts Eth Est Epc Hq) as H.
  destruct (t_step _ _ th s (ts_local st) pc) as [[s' l'] next]. cbn [fst snd] in H. apply IH. exact H.
Qed.

(* ---- Scenario 1 (C04): a backend is never marked healthy while inside a fresh window, for every schedule of any number of
   lazy-expiry checkers and ejectors ---- *)
Definition HInv (s : hs) : Prop := h_flag s = true -> h_fresh s = false.

Lemma checker_inv s l pc : HInv s -> HInv (fst (fst (t_step _ _ checker s l pc))).
Proof.
  unfold HInv, checker. cbn [t_step]. intros H. destruct (Z.eqb pc 0).
  - destruct (negb (h_flag s) && negb (h_fresh s)); cbn; exact H.
  - destruct (h_flag s) eqn:Ef, (h_fresh s) eqn:Eh; cbn; rewrite ?Ef, ?Eh; auto.
Qed.

Lemma ejector_inv s l pc : HInv s -> HInv (fst (fst (t_step _ _ ejector s l pc))).
Proof. unfold HInv, ejector. cbn. discriminate. Qed.

Theorem s1_all_schedules kinds sched : s1_ok (fst (s1_run kinds sched)) = true.
Proof.
  unfold s1_run.
  set (ths := map (fun k => if Z.eqb k 0 then checker else ejector) kinds).
  set (ts0 := map (fun _ : Z => mkTS (-1, (false, false)) (Some 0)) kinds).
  assert (H : HInv (fst (fst (run_sched ths (mkHS false false) ts0 sched [])))).
  { apply run_sched_inv; [|unfold HInv; cbn; discriminate].
    intros th s l pc Hin Hs. subst ths. apply in_map_iff in Hin as [k [<- _]].
    destruct (Z.eqb k 0); [apply checker_inv|apply ejector_inv]; exact Hs. }
  destruct (run_sched ths (mkHS false false) ts0 sched []) as [[s ts] tr]. cbn [fst] in *.
  unfold s1_ok, HInv in *. destruct (h_flag s); cbn; [rewrite H by reflexivity; reflexivity|reflexivity].
Qed.

(* ---- Scenario 2 (C07): at most max_requests callers are admitted, for every schedule of any number of concurrent callers ---- *)
Definition adm (st : tstate Z) : Z :=
  match ts_pc st with
  | Some pc => if Z.eqb pc 2 then 1 else 0
  | None => if Z.eqb (ts_local st) 0 then 1 else 0
  end.
Definition admitted (ts : list (tstate Z)) : Z := sumZ (map adm ts).

Lemma admitted_upd i v ts old :
  nth_error ts i = Some old -> admitted (nth_upd i (fun _ => v) ts) = admitted ts - adm old + adm v.
Proof.
  unfold admitted. revert i. induction ts as [|x t IH]; intros [|i] H; cbn in *; try discriminate.
  - injection H as <-. lia.
  - rewrite (IH i H). lia.
Qed.

Record BInv (maxreq : Z) (s : bs) (ts : list (tstate Z)) : Prop := {
  bi_state : bsl_state s = 1 \/ bsl_state s = 2;
  bi_req : 0 <= bsl_req s <= maxreq;
  bi_adm : admitted ts = (if Z.eqb (bsl_state s) 2 then bsl_req s else 0);
  bi_pcs : Forall (fun st => match ts_pc st with Some pc => ts_local st = -1 /\ (pc = 0 \/ pc = 1 \/ pc = 2) | None => True end) ts
}.

Lemma forall_upd {A} (P : A -> Prop) i v (l : list A) : Forall P l -> P v -> Forall P (nth_upd i (fun _ => v) l).
Proof.
  revert i. induction l as [|x t IH]; intros [|i] Hl Hv; cbn; auto; inversion Hl; subst; constructor; auto.
Qed.

Lemma caller_step_inv maxreq i st pc s ts :
  0 <= maxreq -> nth_error ts i = Some st -> ts_pc st = Some pc -> BInv maxreq s ts ->
  BInv maxreq (fst (fst (t_step _ _ (caller maxreq) s (ts_local st) pc)))
       (nth_upd i (fun _ => mkTS (snd (fst (t_step _ _ (caller maxreq) s (ts_local st) pc))) (snd (t_step _ _ (caller maxreq) s (ts_local st) pc))) ts).
Proof.
  intros Hm Hi Hpc [Hst Hreq Hadm Hpcs].
  assert (Hold : ts_local st = -1 /\ (pc = 0 \/ pc = 1 \/ pc = 2)).
  { rewrite Forall_forall in Hpcs. specialize (Hpcs st (nth_error_In _ _ Hi)). rewrite Hpc in Hpcs. exact Hpcs. }
  destruct Hold as [Hl Hpcv].
  assert (Hadm_old : adm st = if Z.eqb pc 2 then 1 else 0) by (unfold adm; rewrite Hpc; reflexivity).
  unfold caller. cbn [t_step].
  (* each case: the four parts of the invariant *)
  Ltac binv Hi Hadm_old A Hpcs Hl :=
    constructor; cbn [bsl_state bsl_req bsl_succ fst snd];
    [ auto
    | try lia
    | rewrite (admitted_upd _ _ _ _ Hi), Hadm_old, A; unfold adm; cbn; try reflexivity; try lia
    | apply forall_upd; [exact Hpcs|]; cbn [ts_pc ts_local fst snd]; rewrite ?Hl; auto ].
  destruct Hpcv as [-> | [-> | ->]]; cbn.
  - (* RLock section: nothing changes but the pc *)
    assert (E0 : Z.eqb (bsl_state s) 0 = false) by (destruct Hst as [H|H]; rewrite H; reflexivity).
    rewrite E0. cbn.
    binv Hi Hadm_old Hadm Hpcs Hl.
  - (* Lock section: decide and account *)
    destruct Hst as [H1|H2].
    + (* open -> half-open, budget fresh *)
      rewrite H1. cbn.
      assert (Hadm0 : admitted ts = 0) by (rewrite Hadm, H1; reflexivity).
      destruct (maxreq <=? 0) eqn:Em; cbn; binv Hi Hadm_old Hadm0 Hpcs Hl.
    + rewrite H2. cbn. rewrite H2. cbn.
      assert (Hadm2 : admitted ts = bsl_req s) by (rewrite Hadm, H2; reflexivity).
      destruct (maxreq <=? bsl_req s) eqn:Em; cbn; binv Hi Hadm_old Hadm2 Hpcs Hl; try (rewrite H2; reflexivity).
  - (* afterRequest *)
    destruct Hst as [H1|H2].
    + rewrite H1. cbn. binv Hi Hadm_old Hadm Hpcs Hl; try (rewrite H1; reflexivity).
    + rewrite H2. cbn. binv Hi Hadm_old Hadm Hpcs Hl; try (rewrite H2; cbn; lia).
Qed.

Lemma zeros_le_admitted ts :
  Forall (fun st => match ts_pc st with Some pc => ts_local st = -1 /\ (pc = 0 \/ pc = 1 \/ pc = 2) | None => True end) ts ->
  zlen (filter (Z.eqb 0) (map (fun st => ts_local st) ts)) <= admitted ts.
Proof.
  unfold admitted, zlen. induction ts as [|st t IH]; intros H; cbn [map filter sumZ length]; [lia|].
  inversion H as [|x xs Hx Ht]; subst. specialize (IH Ht).
  assert (0 <= adm st) by (unfold adm; destruct (ts_pc st) as [pc|]; [destruct (Z.eqb pc 2)|destruct (Z.eqb (ts_local st) 0)]; lia).
  destruct (Z.eqb 0 (ts_local st)) eqn:E; cbn [length]; [|lia].
  apply Z.eqb_eq in E.
  assert (Ha : adm st = 1).
  { unfold adm. destruct (ts_pc st) as [pc|]; [destruct Hx as [Hl _]; exfalso; rewrite Hl in E; discriminate|]. rewrite <- E. reflexivity. }
  rewrite Ha, Nat2Z.inj_succ. lia.
Qed.

Lemma repeat_op_nth {A} n (x : A) i y : nth_error (repeat_op n x) i = Some y -> y = x.
Proof. revert i. induction n as [|n IH]; intros [|i] H; cbn in *; try discriminate; [congruence|eauto]. Qed.

Lemma repeat_op_forall {A} (P : A -> Prop) n x : P x -> Forall P (repeat_op n x).
Proof. intros H. induction n; cbn; constructor; auto. Qed.

Lemma admitted_repeat n : admitted (repeat_op n (mkTS (-1) (Some 0))) = 0.
Proof. unfold admitted. induction n; cbn; auto. Qed.

Theorem s2_all_schedules n maxreq sched : 0 <= maxreq -> s2_ok maxreq (fst (s2_run n maxreq sched)) = true.
Proof.
  intros Hm. unfold s2_run.
  set (ths := repeat_op (Z.to_nat n) (caller maxreq)). set (ts0 := repeat_op (Z.to_nat n) (mkTS (-1) (Some 0))).
  assert (H : BInv maxreq (fst (fst (run_sched ths (mkBS 1 0 0) ts0 sched []))) (snd (fst (run_sched ths (mkBS 1 0 0) ts0 sched [])))).
  { apply (run_sched_joint (BInv maxreq)).
    - intros i th st pc s ts Hth Hst Hpc Hq. subst ths. apply repeat_op_nth in Hth. subst th.
      apply caller_step_inv; assumption.
    - constructor; cbn; auto; try lia.
      + subst ts0. apply admitted_repeat.
      + subst ts0. apply repeat_op_forall. cbn. auto. }
  destruct (run_sched ths (mkBS 1 0 0) ts0 sched []) as [[s ts] tr]. cbn [fst snd] in *.
  destruct H as [Hst Hreq Hadm Hpcs]. unfold s2_ok.
  pose proof (zeros_le_admitted ts Hpcs) as Hz.
  apply Z.leb_le. rewrite Hadm in Hz. destruct (Z.eqb (bsl_state s) 2); lia.
Qed.

(* ---- Scenario 3 (C11): in every reachable state of every schedule, a completed add is listed and a completed remove is
   absent, whatever strategy switches and other admin operations (on other names) run concurrently ---- *)
Definition names_ok (ops : list (Z * Z)) : Prop :=
  forall i j oi oj, i <> j -> nth_error ops i = Some oi -> nth_error ops j = Some oj ->
    fst oi <> 0 -> fst oj <> 0 -> snd oi <> snd oj.

Definition AInv (ops : list (Z * Z)) (s : list Z) (ts : list (tstate Z)) : Prop :=
  length ts = length ops /\
  forall i op st, nth_error ops i = Some op -> nth_error ts i = Some st -> ts_pc st = None ->
    (fst op = 1 -> memZ (snd op) s = true) /\ (fst op = 2 -> memZ (snd op) s = false).

Lemma memZ_app x a b : memZ x (a ++ b) = memZ x a || memZ x b.
Proof. induction a as [|y t IH]; cbn [memZ app]; [reflexivity|]. rewrite IH, orb_assoc. reflexivity. Qed.

Lemma memZ_filter_ne x y l : x <> y -> memZ x (filter (fun z => negb (Z.eqb z y)) l) = memZ x l.
Proof.
  intros Hne. induction l as [|z t IH]; cbn [filter memZ]; [reflexivity|].
  destruct (Z.eqb z y) eqn:E; cbn [negb memZ].
  - apply Z.eqb_eq in E. subst z. rewrite IH. replace (Z.eqb x y) with false by (symmetry; apply Z.eqb_neq; exact Hne). reflexivity.
  - rewrite IH. reflexivity.
Qed.

Lemma memZ_filter_same y l : memZ y (filter (fun z => negb (Z.eqb z y)) l) = false.
Proof.
  induction l as [|z t IH]; cbn [filter memZ]; [reflexivity|].
  destruct (Z.eqb z y) eqn:E; cbn [negb memZ]; [exact IH|].
  rewrite IH, orb_false_r. rewrite Z.eqb_sym. exact E.
Qed.

Lemma nth_upd_same {A} i (v : A) l x : nth_error l i = Some x -> nth_error (nth_upd i (fun _ => v) l) i = Some v.
Proof. revert i; induction l as [|y t IH]; intros [|i] H; cbn in *; try discriminate; auto. Qed.

Lemma nth_upd_other {A} i j (v : A) l : i <> j -> nth_error (nth_upd i (fun _ => v) l) j = nth_error l j.
Proof. revert i j; induction l as [|y t IH]; intros [|i] [|j] H; cbn; auto; try congruence. Qed.

Lemma nth_upd_length {A} i (f : A -> A) l : length (nth_upd i f l) = length l.
Proof. revert i; induction l as [|y t IH]; intros [|i]; cbn; auto. Qed.

Lemma map_nth_error' {A B} (f : A -> B) l i y : nth_error (map f l) i = Some y -> exists x, nth_error l i = Some x /\ y = f x.
Proof. revert i; induction l as [|x t IH]; intros [|i] H; cbn in *; try discriminate; [injection H as <-; eauto|eauto]. Qed.

Theorem s3_completed_ops_hold ops sched :
  names_ok ops ->
  let ths := map (fun o => admin_thr (fst o) (snd o)) ops in
  let ts0 := map (fun _ : Z * Z => mkTS (-1) (Some 0)) ops in
  AInv ops (fst (fst (run_sched ths [1; 2] ts0 sched []))) (snd (fst (run_sched ths [1; 2] ts0 sched []))).
Proof.
  intros Hn ths ts0. apply (run_sched_joint (AInv ops)).
  - intros i th st pc s ts Hth Hst Hpc [Hlen Hq]. subst ths.
    apply map_nth_error' in Hth as [o [Ho ->]]. unfold admin_thr. cbn [t_step].
    split; [rewrite nth_upd_length; exact Hlen|].
    intros j op' st' Hop' Hst' Hpc'.
    destruct (Nat.eq_dec i j) as [<-|Hij].
    + (* the operation that has just completed *)
      rewrite Ho in Hop'. injection Hop' as <-.
      destruct (Z.eqb (fst o) 0) eqn:E0; [apply Z.eqb_eq in E0; split; intros; congruence|].
      destruct (Z.eqb (fst o) 1) eqn:E1; cbn [fst snd].
      * split; [intros _|apply Z.eqb_eq in E1; intros; congruence].
        destruct (memZ (snd o) s) eqn:Em; [exact Em|]. rewrite memZ_app. cbn. rewrite Z.eqb_refl. apply orb_true_r.
      * split; [apply Z.eqb_neq in E1; intros; congruence|intros _; apply memZ_filter_same].
    + (* another, already completed operation: not disturbed *)
      rewrite nth_upd_other in Hst' by exact Hij.
      destruct (Hq j op' st' Hop' Hst' Hpc') as [A B].
      destruct (Z.eqb (fst o) 0) eqn:E0; cbn [fst]; [split; assumption|].
      assert (Hk0 : fst o <> 0) by (apply Z.eqb_neq; exact E0).
      destruct (Z.eqb (fst o) 1) eqn:E1; cbn [fst].
      * split; [intros H1; destruct (memZ (snd o) s); [apply A; exact H1|rewrite memZ_app, (A H1); reflexivity]|].
        intros H2. destruct (memZ (snd o) s); [apply B; exact H2|]. rewrite memZ_app, (B H2). cbn.
        assert (Hne : snd o <> snd op') by (apply (Hn i j o op' Hij Ho Hop' Hk0); lia).
        replace (Z.eqb (snd op') (snd o)) with false by (symmetry; apply Z.eqb_neq; congruence). reflexivity.
      * split.
        -- intros H1. assert (Hne : snd op' <> snd o) by (intros E; apply (Hn i j o op' Hij Ho Hop' Hk0); [lia|congruence]).
           rewrite memZ_filter_ne by exact Hne. apply A. exact H1.
        -- intros H2. assert (Hne : snd op' <> snd o) by (intros E; apply (Hn i j o op' Hij Ho Hop' Hk0); [lia|congruence]).
           rewrite memZ_filter_ne by exact Hne. apply B. exact H2.
  - split; [subst ts0; rewrite map_length; reflexivity|].
    intros i op st Hop Hst Hpc. subst ts0. apply map_nth_error' in Hst as [o [_ ->]]. cbn in Hpc. discriminate.
Qed.
