(* The circuit-breaker model (Model/Breaker.v), on which the C07 / C08 theorems are proved, against the functions go2coq
   regenerates from circuitbreaker.go on every run (Gen/BreakerGen.v): admission is beforeRequest, completion is afterRequest,
   field for field.  A change of the source that changes what these functions compute breaks these lemmas. *)
From Helios Require Import Base.Prelude Model.Breaker Gen.BreakerGen.

Definition abs_cb (cfg : bcfg) (s : bstate) (lastSuccess : Z) : CircuitBreaker :=
  mkCircuitBreaker (maxReq cfg) (interval cfg) (btimeout cfg) (fthr cfg) (sthr cfg)
                   (bst_code (st s)) (fc s) (sc s) (rc s)
                   (match lastFail s with Some t => t | None => 0 end) lastSuccess (nextAttempt s).

(* times are positive (the zero time.Time stands for "never") *)
Definition times_pos (s : bstate) : Prop := 0 < bnow s /\ forall lf, lastFail s = Some lf -> 0 < lf.

Lemma before_refines cfg s rid l :
  bwf_cfg cfg -> times_pos s ->
  cb_beforeRequest (abs_cb cfg s l) (bnow s) = (abs_cb cfg (fst (begin cfg s rid)) l, snd (begin cfg s rid)).
Proof.
  intros (Hm & _) [Hnow Hlf]. unfold cb_beforeRequest, begin, abs_cb.
  destruct (st s) eqn:Est; cbn [bst_code cb_state cb_lastFailureTime cb_interval cb_nextAttempt cb_maxRequests cb_requestCount Z.eqb fst snd].
  - (* closed *)
    destruct (lastFail s) as [lf|] eqn:El.
    + specialize (Hlf lf eq_refl). replace (Z.eqb lf 0) with false by lia. cbn [negb andb].
      destruct (lf + interval cfg <? bnow s) eqn:E; cbn; rewrite ?Est, ?El; reflexivity.
    + cbn. rewrite ?Est, ?El. reflexivity.
  - (* open *)
    destruct (nextAttempt s <? bnow s) eqn:E; cbn [negb].
    + unfold cb_setState. cbn. replace (maxReq cfg <=? 0) with false by lia. cbn. reflexivity.
    + cbn. rewrite Est. reflexivity.
  - (* half-open *)
    destruct (maxReq cfg <=? rc s) eqn:E; cbn; rewrite ?Est; reflexivity.
Qed.

Lemma after_refines cfg s rid ok l :
  fst (cb_afterRequest (abs_cb cfg s l) (bnow s) ok) = abs_cb cfg (finish cfg s rid ok) (if ok then bnow s else l).
Proof.
  unfold cb_afterRequest, finish, finish0, abs_cb. destruct ok.
  - destruct (st s) eqn:Est; cbn; rewrite ?Est; try reflexivity.
    destruct (sthr cfg <=? sc s + 1) eqn:E; cbn; reflexivity.
  - destruct (st s) eqn:Est; cbn; rewrite ?Est; try reflexivity.
    destruct (fthr cfg <=? fc s + 1) eqn:E; cbn; reflexivity.
Qed.

(* afterRequest returns nothing *)
Lemma after_returns cfg s ok l : snd (cb_afterRequest (abs_cb cfg s l) (bnow s) ok) = 0.
Proof.
  unfold cb_afterRequest, abs_cb. destruct ok; destruct (st s); cbn; try reflexivity.
  - destruct (sthr cfg <=? sc s + 1); reflexivity.
  - destruct (fthr cfg <=? fc s + 1); reflexivity.
Qed.

(* the hypothesis on times is an invariant of every history that starts at a positive time *)
Lemma times_pos_step cfg s o : bop_wf o -> times_pos s -> times_pos (fst (bstep cfg s o)).
Proof.
  intros Hw [Hn Hl]. destruct o as [rid|rid ok|dt]; cbn [bstep].
  - destruct (begin cfg s rid) as [s' code] eqn:E. cbn [fst]. unfold begin in E.
    destruct (st s); [| |].
    + injection E as <- _. cbn. split; auto.
    + destruct (nextAttempt s <? bnow s); injection E as <- _; cbn; split; auto.
    + destruct (maxReq cfg <=? rc s); injection E as <- _; cbn; split; auto.
  - cbn [fst]. unfold finish, finish0. destruct ok; destruct (st s); cbn; try (split; [exact Hn|exact Hl]);
      repeat match goal with |- context [if ?c then _ else _] => destruct c end; cbn; split; auto; intros lf H; injection H as <-; exact Hn.
  - cbn [fst]. unfold bop_wf in Hw. unfold times_pos, advance. cbn [bnow lastFail]. split; [lia|exact Hl].
Qed.

(* State() only reads: no transition hides in the query the balancer and the metrics use *)
Lemma state_query_is_pure self now : cb_State self now = (self, cb_state self).
Proof. reflexivity. Qed.
