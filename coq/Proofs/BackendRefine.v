(* The accessors of one backend object as go2coq regenerates them from loadbalancer.go (Gen/BackendGen.v: markedHealthy,
   IncrementConnections, DecrementConnections, GetActiveConnections) against the fields of Model.Strategy.backend: what the
   strategy-loop translator takes as configuration (markedHealthy() is the flag, GetActiveConnections() the in-flight gauge) and
   what the accounting model does at dispatch and completion (the gauge goes up by one and down by one, nothing else moves). *)
From Helios Require Import Base.Prelude Base.Wrap Model.Hash Model.Strategy Gen.BackendGen.

Definition abs_bo (b : backend) : Backend := mkBackend (bflag b) (buntil b) (bactive b) (bweight b).

Lemma marked_healthy_is_flag b now : bo_markedHealthy (abs_bo b) now = (abs_bo b, bflag b).
Proof. reflexivity. Qed.

Lemma active_connections_is_gauge b now : bo_GetActiveConnections (abs_bo b) now = (abs_bo b, bactive b).
Proof. reflexivity. Qed.

Lemma increment_is_plus_one b now : fst (bo_IncrementConnections (abs_bo b) now) = abs_bo (set_active (bactive b + 1) b).
Proof. reflexivity. Qed.

Lemma decrement_is_minus_one b now : fst (bo_DecrementConnections (abs_bo b) now) = abs_bo (set_active (bactive b - 1) b).
Proof. unfold bo_DecrementConnections, abs_bo, bo_set_ActiveConnections. cbn. f_equal. Qed.

(* up and down again: the object is as before *)
Lemma increment_decrement b now :
  fst (bo_DecrementConnections (fst (bo_IncrementConnections (abs_bo b) now)) now) = abs_bo b.
Proof. unfold bo_DecrementConnections, bo_IncrementConnections, abs_bo, bo_set_ActiveConnections. cbn. f_equal. lia. Qed.
