(* Route T for C14: the hand-written wrapper machine sl_step / sl_finish of Model/RespWriter.v against Gen/SizeLimitGen.v, which go2coq
   regenerates from internal/plugins/sizelimit.go on every run.  A change to limitedResponseWriter's Write, checkLimit,
   ensureHeaderWritten, WriteHeader or Flush changes the generated functions and these lemmas stop checking. *)
From Helios Require Import Base.Prelude Model.RespWriter Gen.SizeLimitGen.

Local Arguments Z.add : simpl never.
Local Arguments Z.max : simpl never.

(* the generated record: the model's five fields and the calls made so far on the underlying writer *)
Definition abs_sl (w : slw) (o : list wcall) : limitedResponseWriter :=
  mklimitedResponseWriter (sl_written w) (sl_limit w) (sl_reached w) (sl_wrote w) (sl_status w) o.

(* what the underlying Write reports as written: everything, or nothing when the status sent allows no body *)
Definition under_accept (w : slw) (n : Z) : Z :=
  let st := if sl_wrote w then sl_status w else if Z.eqb (sl_status w) 0 then 200 else sl_status w in
  if body_allowed st then n else 0.

Lemma ensure_refines acc w o now :
  fst (slg_ensureHeaderWritten acc (abs_sl w o) now) = abs_sl (fst (sl_ensure w)) (o ++ snd (sl_ensure w)).
Proof.
  unfold slg_ensureHeaderWritten, sl_ensure, abs_sl. cbn.
  destruct (sl_wrote w) eqn:Ew; cbn; [rewrite app_nil_r, Ew; reflexivity|].
  destruct (Z.eqb (sl_status w) 0); reflexivity.
Qed.

Lemma header_refines acc w o now code :
  fst (slg_WriteHeader acc (abs_sl w o) now code) = abs_sl (fst (sl_step w (CHead code))) (o ++ snd (sl_step w (CHead code))).
Proof.
  unfold slg_WriteHeader, sl_step, abs_sl, is_interim. cbn.
  destruct (sl_wrote w) eqn:Ew; cbn; [rewrite app_nil_r, Ew; reflexivity|].
  destruct ((100 <=? code) && (code <=? 199) && negb (Z.eqb code 101)); cbn; [rewrite Ew; reflexivity|rewrite app_nil_r; reflexivity].
Qed.

Lemma flush_refines acc w o now :
  fst (slg_Flush acc (abs_sl w o) now) = abs_sl (fst (sl_step w CFlush)) (o ++ snd (sl_step w CFlush)).
Proof.
  unfold slg_Flush. rewrite ensure_refines. unfold sl_step. destruct (sl_ensure w) as [w1 pre]. cbn. rewrite app_assoc. reflexivity.
Qed.

(* Write: the state, the calls made, and whether the write was refused *)
Lemma write_refines w o now n : 0 <= n ->
  let r := slg_Write (under_accept w) (abs_sl w o) now n in
  fst r = abs_sl (fst (sl_step w (CWrite (PRaw n)))) (o ++ snd (sl_step w (CWrite (PRaw n))))
  /\ (snd r <> 0 <-> (sl_reached w = true \/ sl_limit w < sl_written w + n)).
Proof.
  intros Hn. unfold slg_Write, slg_checkLimit, slg_ensureHeaderWritten, sl_step, sl_ensure, under_accept, payload_len, abs_sl,
    slg_set_out, slg_set_wroteHeader, slg_set_statusCode, slg_set_limitReached, slg_set_written.
  cbn [slg_written slg_limit slg_limitReached slg_wroteHeader slg_statusCode slg_out].
  destruct (sl_reached w) eqn:Er.
  { cbn. rewrite app_nil_r, Er. split; [reflexivity|]. split; [intros _; left; reflexivity|intros _; discriminate]. }
  destruct (sl_written w + n <=? sl_limit w) eqn:Hle; destruct (sl_limit w <? sl_written w + n) eqn:El; try lia;
    destruct (sl_wrote w) eqn:Ew; cbn [negb fst snd Z.eqb slg_written slg_limit slg_limitReached slg_wroteHeader slg_statusCode slg_out
                                       sl_written sl_limit sl_reached sl_wrote sl_status].
  all: try (split; [rewrite ?app_nil_r, <- ?app_assoc; reflexivity|split; [intros _; right; lia|intros _; discriminate]]).
  - rewrite Er, Ew. split; [|split; [intros H; contradiction|intros [H|H]; [discriminate|lia]]].
    destruct (body_allowed (sl_status w)); cbn; rewrite ?Z.max_r by lia; reflexivity.
  - split; [|split; [intros H; contradiction|intros [H|H]; [discriminate|lia]]].
    destruct (Z.eqb (sl_status w) 0); cbn [fst snd slg_written slg_limit slg_limitReached slg_wroteHeader slg_statusCode slg_out
                                       sl_written sl_limit sl_reached sl_wrote sl_status]; rewrite <- ?app_assoc; cbn [app];
      match goal with |- context [body_allowed ?s] => destruct (body_allowed s) end; rewrite ?Z.max_r by lia; reflexivity.
Qed.

(* the wrapper's `if !lrw.wroteHeader && lrw.statusCode != 0 { lrw.ensureHeaderWritten() }` after the next handler returned *)
Lemma finish_refines acc w o now :
  (if negb (slg_wroteHeader (abs_sl w o)) && negb (Z.eqb (slg_statusCode (abs_sl w o)) 0)
   then slg_out (fst (slg_ensureHeaderWritten acc (abs_sl w o) now)) else o) = o ++ sl_finish w.
Proof.
  unfold sl_finish. cbn [abs_sl slg_wroteHeader slg_statusCode].
  destruct (negb (sl_wrote w) && negb (Z.eqb (sl_status w) 0)) eqn:E; [|rewrite app_nil_r; reflexivity].
  rewrite ensure_refines. unfold sl_ensure. apply andb_prop in E as [E1 E2].
  destruct (sl_wrote w); [discriminate|]. destruct (Z.eqb (sl_status w) 0); [discriminate|]. reflexivity.
Qed.

(* the wrapper offers the underlying writer through Write, WriteHeader, Flush and Hijack only: no ReadFrom, Unwrap or FlushError
   through which net/http, httputil.ReverseProxy or an http.ResponseController would reach the underlying writer past the limit *)
Lemma interfaces_as_modelled : slg_optional_interfaces = [1; 2].
Proof. reflexivity. Qed.

(* ------------------------------------------------------------------------------------------ *)
(* Whole scripts: the regenerated methods, driven by a handler's calls, make exactly the calls of sl_transform. *)

(* a handler's call on the wrapper; Header() is the underlying writer's map, so Set and Del go straight through; the count the
   underlying Write reports is the one of under_accept, read off the generated state *)
Definition slg_accept (g : limitedResponseWriter) (n : Z) : Z :=
  let st := if slg_wroteHeader g then slg_statusCode g else if Z.eqb (slg_statusCode g) 0 then 200 else slg_statusCode g in
  if body_allowed st then n else 0.

Definition slg_step (g : limitedResponseWriter) (c : wcall) : limitedResponseWriter :=
  match c with
  | CSet k v => slg_set_out g (slg_out g ++ [CSet k v])
  | CDel k => slg_set_out g (slg_out g ++ [CDel k])
  | CHead code => fst (slg_WriteHeader (slg_accept g) g 0 code)
  | CWrite p => fst (slg_Write (slg_accept g) g 0 (payload_len p))
  | CFlush => fst (slg_Flush (slg_accept g) g 0)
  end.

(* after the next handler returned (the middleware closure of sizelimit.go) *)
Definition slg_after (g : limitedResponseWriter) : list wcall :=
  if negb (slg_wroteHeader g) && negb (Z.eqb (slg_statusCode g) 0)
  then slg_out (fst (slg_ensureHeaderWritten (slg_accept g) g 0)) else slg_out g.

(* the handler writes byte slices: raw payloads of non-negative length *)
Definition byte_call (c : wcall) : bool := match c with CWrite (PRaw n) => 0 <=? n | CWrite (PGz _) => false | _ => true end.

Lemma step_refines w o c : byte_call c = true ->
  slg_step (abs_sl w o) c = abs_sl (fst (sl_step w c)) (o ++ snd (sl_step w c)).
Proof.
  intros Hc. destruct c as [k v|k|code|p|]; cbn [slg_step].
  - reflexivity.
  - reflexivity.
  - apply header_refines.
  - destruct p as [n|n]; [|discriminate]. cbn [byte_call] in Hc. cbn [payload_len].
    change (slg_accept (abs_sl w o)) with (under_accept w). apply (write_refines w o 0 n). lia.
  - apply flush_refines.
Qed.

Lemma run_refines cs : forall w o, forallb byte_call cs = true ->
  fold_left slg_step cs (abs_sl w o) = abs_sl (fst (sl_run w cs)) (o ++ snd (sl_run w cs)).
Proof.
  induction cs as [|c t IH]; intros w o H; cbn [fold_left sl_run]; [cbn; rewrite app_nil_r; reflexivity|].
  cbn [forallb] in H. apply andb_prop in H as [Hc Ht]. rewrite (step_refines w o c Hc).
  destruct (sl_step w c) as [w1 o1]. cbn [fst snd]. rewrite (IH w1 (o ++ o1) Ht).
  destruct (sl_run w1 t) as [w2 o2]. cbn [fst snd]. rewrite app_assoc. reflexivity.
Qed.

Theorem transform_is_source limit cs : forallb byte_call cs = true ->
  slg_after (fold_left slg_step cs (mklimitedResponseWriter 0 limit false false 0 [])) = sl_transform limit cs.
Proof.
  intros H. change (mklimitedResponseWriter 0 limit false false 0 []) with (abs_sl (slw0 limit) []).
  rewrite (run_refines cs (slw0 limit) [] H). unfold sl_transform. destruct (sl_run (slw0 limit) cs) as [w out]. cbn [fst snd app].
  unfold slg_after. apply finish_refines.
Qed.
