(* Lock discipline implies race freedom in the interleaving semantics of Model/Lockset.v, for any number of threads and any schedule. *)
From Coq Require Import ZArith String List Bool Lia.
From Helios Require Import Model.Lockset.
Import ListNotations.
Open Scope Z_scope.

(* ---- list plumbing ---- *)
Lemma nth_set_same {A} i (v : A) l x : nth_error l i = Some x -> nth_error (set_nth i v l) i = Some v.
Proof. revert i; induction l as [|y t IH]; intros [|i] H; cbn in *; try discriminate; auto. Qed.

Lemma nth_set_other {A} i j (v : A) l : i <> j -> nth_error (set_nth i v l) j = nth_error l j.
Proof.
  revert i j; induction l as [|y t IH]; intros [|i] [|j] H; cbn; auto; try congruence.
Qed.

Lemma others_in {A} i j (l : list A) x : i <> j -> nth_error l j = Some x -> In x (others_of i l).
Proof.
  revert i j; induction l as [|y t IH]; intros [|i] [|j] Hne H; cbn in *; try discriminate; try congruence.
  - apply nth_error_In in H. exact H.
  - left. congruence.
  - right. apply (IH i j); congruence.
Qed.

Lemma in_release l h l' m : In (l', m) (release l h) -> In (l', m) h /\ l' <> l.
Proof.
  unfold release. intros H. apply filter_In in H as [H1 H2]. split; [exact H1|].
  cbn in H2. apply negb_true_iff in H2. apply String.eqb_neq in H2. exact H2.
Qed.

(* ---- exclusion: a lock held in write mode by one thread is held by no other ---- *)
Definition Excl (ts : list th) : Prop :=
  forall i j ti tj l mi mj, i <> j -> nth_error ts i = Some ti -> nth_error ts j = Some tj ->
    In (l, mi) (th_held ti) -> In (l, mj) (th_held tj) -> mi = 0 /\ mj = 0.

Lemma in_hstep_old h e l m : In (l, m) (hstep h e) -> In (l, m) h \/ e = Acq l m.
Proof.
  destruct e as [l0 m0|l0|x k]; cbn [hstep].
  - intros [H|H]; [right; congruence|left; exact H].
  - intros H. left. apply (in_release l0 h l m H).
  - auto.
Qed.

Lemma step_excl ts ts' : Excl ts -> step ts ts' -> Excl ts'.
Proof.
  intros Hex Hs. destruct Hs as [k ts h e rest Hk Hen].
  intros i j ti tj l mi mj Hij Hi Hj Ini Inj.
  destruct (Nat.eq_dec i k) as [->|Hik]; [|destruct (Nat.eq_dec j k) as [->|Hjk]].
  - (* i is the thread that moved *)
    rewrite (nth_set_same k _ ts _ Hk) in Hi. injection Hi as <-. cbn [th_held] in Ini.
    rewrite nth_set_other in Hj by congruence.
    destruct (in_hstep_old h e l mi Ini) as [Hold|Hacq].
    + apply (Hex k j (mkTh h (e :: rest)) tj l mi mj Hij Hk Hj); assumption.
    + subst e. cbn [enabled] in Hen.
      apply (Hen (th_held tj) mj); [apply in_map; apply (others_in k j ts tj); congruence|exact Inj].
  - (* j is the thread that moved *)
    rewrite (nth_set_same k _ ts _ Hk) in Hj. injection Hj as <-. cbn [th_held] in Inj.
    rewrite nth_set_other in Hi by congruence.
    destruct (in_hstep_old h e l mj Inj) as [Hold|Hacq].
    + apply (Hex i k ti (mkTh h (e :: rest)) l mi mj Hij Hi Hk); assumption.
    + subst e. cbn [enabled] in Hen.
      destruct (Hen (th_held ti) mi) as [A B]; [apply in_map; apply (others_in k i ts ti); congruence|exact Ini|]. auto.
  - rewrite nth_set_other in Hi by congruence. rewrite nth_set_other in Hj by congruence.
    apply (Hex i j ti tj l mi mj Hij Hi Hj); assumption.
Qed.

(* ---- the sites a thread can still reach are sites of its original program ---- *)
Definition Covered (all : list (string * Z * held)) (ts : list th) : Prop :=
  forall i t, nth_error ts i = Some t -> incl (sites_of (th_held t) (th_prog t)) all.

Lemma sites_of_step h e rest : incl (sites_of (hstep h e) rest) (sites_of h (e :: rest)).
Proof. destruct e; cbn [sites_of hstep]; intros s Hs; [exact Hs|exact Hs|right; exact Hs]. Qed.

Lemma step_covered all ts ts' : Covered all ts -> step ts ts' -> Covered all ts'.
Proof.
  intros Hc Hs. destruct Hs as [k ts h e rest Hk Hen]. intros i t Hi.
  destruct (Nat.eq_dec i k) as [->|Hik].
  - rewrite (nth_set_same k _ ts _ Hk) in Hi. injection Hi as <-. cbn [th_held th_prog].
    intros s Hs. apply (Hc k _ Hk). cbn [th_held th_prog]. apply sites_of_step. exact Hs.
  - rewrite nth_set_other in Hi by congruence. apply (Hc i t Hi).
Qed.

(* ---- the theorem ---- *)
Theorem lockset_sound all ts0 :
  Disciplined all -> Excl ts0 -> Covered all ts0 ->
  forall ts, reach_from ts0 ts -> ~ race_state ts.
Proof.
  intros Hd He Hc ts Hr.
  assert (Hinv : Excl ts /\ Covered all ts).
  { induction Hr as [|ts ts' Hr IH Hs]; [auto|]. destruct IH as [A B]. split; [eapply step_excl|eapply step_covered]; eauto. }
  destruct Hinv as [Hex Hcov].
  intros (i & j & hi & hj & x1 & k1 & r1 & x2 & k2 & r2 & Hij & Hi & Hj & Hconf).
  assert (S1 : In (x1, k1, hi) all) by (apply (Hcov i _ Hi); cbn; left; reflexivity).
  assert (S2 : In (x2, k2, hj) all) by (apply (Hcov j _ Hj); cbn; left; reflexivity).
  destruct (Hd x1 k1 hi x2 k2 hj S1 S2 Hconf) as (l & m1 & m2 & I1 & I2 & Hw).
  destruct (Hex i j _ _ l m1 m2 Hij Hi Hj I1 I2) as [A B]. cbn in *. lia.
Qed.

(* threads that start at the beginning of their programs, holding nothing *)
Definition initial (progs : list (list ev)) : list th := map (mkTh []) progs.

Lemma initial_excl progs : Excl (initial progs).
Proof.
  intros i j ti tj l mi mj _ Hi _ Ini _. unfold initial in Hi.
  rewrite nth_error_map in Hi. destruct (nth_error progs i); [|discriminate]. injection Hi as <-. destruct Ini.
Qed.

Lemma initial_covered progs : Covered (flat_map (sites_of []) progs) (initial progs).
Proof.
  intros i t Hi. unfold initial in Hi. rewrite nth_error_map in Hi.
  destruct (nth_error progs i) as [p|] eqn:E; [|discriminate]. injection Hi as <-. cbn [th_held th_prog].
  intros s Hs. apply in_flat_map. exists p. split; [eapply nth_error_In; eauto|exact Hs].
Qed.

Corollary disciplined_programs_race_free progs :
  Disciplined (flat_map (sites_of []) progs) ->
  forall ts, reach_from (initial progs) ts -> ~ race_state ts.
Proof. intros Hd. apply (lockset_sound _ _ Hd (initial_excl progs) (initial_covered progs)). Qed.

(* ---- from the generated table to the semantics: every table row is a thread that takes the recorded locks, performs the
   access and releases them ---- *)
Definition row_prog (s : site) : list ev :=
  map (fun lk => Acq (fst lk) (snd lk)) (s_locks s) ++ Acc (s_field s) (s_kind s) :: map (fun lk => Rel (fst lk)) (rev (s_locks s)).

Lemma sites_of_acqs ls h rest :
  sites_of h (map (fun lk : string * Z => Acq (fst lk) (snd lk)) ls ++ rest) = sites_of (rev ls ++ h) rest.
Proof.
  revert h. induction ls as [|[l m] t IH]; intros h; cbn [map app rev sites_of hstep fst snd]; [reflexivity|].
  rewrite IH. rewrite <- app_assoc. reflexivity.
Qed.

Lemma sites_of_rels ls h : sites_of h (map (fun lk : string * Z => Rel (fst lk)) ls) = [].
Proof. revert h. induction ls as [|lk t IH]; intros h; cbn [map sites_of]; [reflexivity|apply IH]. Qed.

Lemma sites_of_row s : sites_of [] (row_prog s) = [(s_field s, s_kind s, rev (s_locks s))].
Proof. unfold row_prog. rewrite sites_of_acqs. cbn [sites_of]. rewrite sites_of_rels, app_nil_r. reflexivity. Qed.

Lemma ordered_spec a b :
  ordered a b = true -> exists l m1 m2, In (l, m1) (s_locks a) /\ In (l, m2) (s_locks b) /\ (m1 = 1 \/ m2 = 1).
Proof.
  unfold ordered. intros H. apply existsb_exists in H as [[l1 m1] [H1 H]]. apply existsb_exists in H as [[l2 m2] [H2 H]].
  cbn [fst snd] in H. apply andb_true_iff in H as [He Hm]. apply String.eqb_eq in He. subst l2.
  exists l1, m1, m2. repeat split; auto. apply orb_true_iff in Hm as [Hm|Hm]; apply Z.eqb_eq in Hm; auto.
Qed.

Lemma disciplined_spec (l : list site) :
  disciplined l = true -> forall a b, In a l -> In b l -> conflict a b = true -> ordered a b = true.
Proof.
  unfold disciplined. intros H a b Ha Hb Hc. destruct (bad_pairs l) eqn:E; [|discriminate].
  destruct (ordered a b) eqn:Ho; [reflexivity|exfalso].
  assert (Hin : In (a, b) (bad_pairs l)).
  { unfold bad_pairs. apply in_flat_map. exists a. split; [exact Ha|]. apply in_map. apply filter_In. split; [exact Hb|].
    rewrite Hc, Ho. reflexivity. }
  rewrite E in Hin. destruct Hin.
Qed.

Theorem table_race_free (l : list site) :
  disciplined l = true ->
  forall (instances : list site), incl instances l ->
  forall ts, reach_from (initial (map row_prog instances)) ts -> ~ race_state ts.
Proof.
  intros Hd instances Hincl. apply disciplined_programs_race_free.
  intros x1 k1 h1 x2 k2 h2 I1 I2 Hc.
  apply in_flat_map in I1 as [p1 [P1 S1]]. apply in_flat_map in I2 as [p2 [P2 S2]].
  apply in_map_iff in P1 as [a [<- Ha]]. apply in_map_iff in P2 as [b [<- Hb]].
  rewrite sites_of_row in S1, S2. destruct S1 as [S1|[]]. destruct S2 as [S2|[]].
  injection S1 as <- <- <-. injection S2 as <- <- <-.
  pose proof (disciplined_spec l Hd a b (Hincl a Ha) (Hincl b Hb)) as Ho.
  assert (Hcf : conflict a b = true) by exact Hc.
  destruct (ordered_spec a b (Ho Hcf)) as (lk & m1 & m2 & A & B & C).
  exists lk, m1, m2. split; [apply in_rev in A; exact A|]. split; [apply in_rev in B; exact B|exact C].
Qed.
