(* Proofs about Model/Proxy.v: header-collection algebra, the ID middleware, the chain on the request path,
   ReverseProxy's request / response transforms. *)
From Helios Require Import Base.Prelude Base.Bytes Model.Proxy.

Local Arguments Z.add : simpl never.
Local Arguments Z.sub : simpl never.

(* ---------- byte strings ---------- *)
Lemma bytes_eqb_refl a : bytes_eqb a a = true.
Proof. induction a as [|x t IH]; cbn [bytes_eqb]; [reflexivity|]. rewrite Z.eqb_refl, IH. reflexivity. Qed.

Lemma bytes_eqb_eq a b : bytes_eqb a b = true <-> a = b.
Proof.
  split; [|intros ->; apply bytes_eqb_refl].
  revert b; induction a as [|x t IH]; intros [|y u]; cbn [bytes_eqb]; try discriminate; [reflexivity|].
  intros H. apply andb_true_iff in H as [H1 H2]. apply Z.eqb_eq in H1. subst. f_equal. apply IH. exact H2.
Qed.

Lemma bytes_eqb_neq a b : a <> b -> bytes_eqb a b = false.
Proof. intros H. destruct (bytes_eqb a b) eqn:E; [apply bytes_eqb_eq in E; contradiction|reflexivity]. Qed.

Lemma bytes_eqb_sym a b : bytes_eqb a b = bytes_eqb b a.
Proof.
  destruct (bytes_eqb a b) eqn:E.
  - apply bytes_eqb_eq in E. subst. symmetry. apply bytes_eqb_refl.
  - destruct (bytes_eqb b a) eqn:E2; [apply bytes_eqb_eq in E2; subst; rewrite bytes_eqb_refl in E; discriminate|reflexivity].
Qed.

(* ---------- header collections ---------- *)
Lemma hvalues_nil k : hvalues k [] = [].
Proof. reflexivity. Qed.

Lemma hvalues_cons k k' v h :
  hvalues k ((k', v) :: h) = if bytes_eqb k' k then v :: hvalues k h else hvalues k h.
Proof. unfold hvalues. cbn [filter fst]. destruct (bytes_eqb k' k); reflexivity. Qed.

Lemma hvalues_app k a b : hvalues k (a ++ b) = hvalues k a ++ hvalues k b.
Proof. unfold hvalues. rewrite filter_app, map_app. reflexivity. Qed.

Lemma hvalues_hdel_same k h : hvalues k (hdel k h) = [].
Proof.
  induction h as [|[k' v] t IH]; [reflexivity|]. unfold hdel in *. cbn [filter fst].
  destruct (bytes_eqb k' k) eqn:E; cbn [negb]; [exact IH|].
  rewrite hvalues_cons, E. exact IH.
Qed.

Lemma hvalues_hdel_other k k' h : k <> k' -> hvalues k (hdel k' h) = hvalues k h.
Proof.
  intros Hne. induction h as [|[k2 v] t IH]; [reflexivity|]. unfold hdel in *. cbn [filter fst].
  destruct (bytes_eqb k2 k') eqn:E; cbn [negb].
  - apply bytes_eqb_eq in E. subst k2. rewrite hvalues_cons, (bytes_eqb_neq k' k) by congruence. exact IH.
  - rewrite !hvalues_cons. destruct (bytes_eqb k2 k); [f_equal|]; exact IH.
Qed.

Lemma hvalues_hset_same k v h : hvalues k (hset k v h) = [v].
Proof. unfold hset. rewrite hvalues_app, hvalues_hdel_same, hvalues_cons, bytes_eqb_refl. reflexivity. Qed.

Lemma hvalues_hset_other k k' v h : k <> k' -> hvalues k (hset k' v h) = hvalues k h.
Proof.
  intros Hne. unfold hset. rewrite hvalues_app, hvalues_hdel_other by exact Hne.
  rewrite hvalues_cons, (bytes_eqb_neq k' k) by congruence. cbn. apply app_nil_r.
Qed.

Lemma hget_hvalues k h : hget k h = match hvalues k h with [] => None | v :: _ => Some v end.
Proof. unfold hget, hvalues. destruct (filter (fun kv => bytes_eqb (fst kv) k) h) as [|[k' v] t]; reflexivity. Qed.

Lemma hvalues_map_val k f h : hvalues k (map (fun kv => (fst kv, f (snd kv))) h) = map f (hvalues k h).
Proof.
  induction h as [|[k' v] t IH]; [reflexivity|]. cbn [map fst snd]. rewrite !hvalues_cons.
  destruct (bytes_eqb k' k); cbn [map]; [f_equal|]; exact IH.
Qed.

Lemma hvalues_fold_hdel k ks h : ~ In k ks -> hvalues k (fold_left (fun acc k0 => hdel k0 acc) ks h) = hvalues k h.
Proof.
  revert h. induction ks as [|k0 t IH]; intros h Hn; cbn [fold_left]; [reflexivity|].
  rewrite IH by (intros Hin; apply Hn; right; exact Hin).
  apply hvalues_hdel_other. intros ->. apply Hn. left. reflexivity.
Qed.

Lemma hvalues_fold_hdel_in k ks h : In k ks -> hvalues k (fold_left (fun acc k0 => hdel k0 acc) ks h) = [].
Proof.
  revert h. induction ks as [|k0 t IH]; intros h Hin; cbn [fold_left]; [destruct Hin|].
  destruct (in_dec (list_eq_dec Z.eq_dec) k t) as [Ht|Ht].
  - apply IH. exact Ht.
  - destruct Hin as [->|Hin]; [|contradiction]. rewrite hvalues_fold_hdel by exact Ht. apply hvalues_hdel_same.
Qed.

Lemma hvalues_fold_hset_other k l h :
  ~ In k (map fst l) -> hvalues k (fold_left (fun acc kv => hset (fst kv) (snd kv) acc) l h) = hvalues k h.
Proof.
  revert h. induction l as [|[k0 v0] t IH]; intros h Hn; cbn [fold_left fst snd]; [reflexivity|].
  rewrite IH by (intros Hin; apply Hn; right; exact Hin).
  apply hvalues_hset_other. intros ->. apply Hn. left. reflexivity.
Qed.

(* hop-by-hop removal leaves every other header alone, and removes the listed ones *)
Lemma remove_hop_other k h : ~ In k (connection_listed h ++ hop_headers) -> hvalues k (remove_hop h) = hvalues k h.
Proof. intros Hn. unfold remove_hop. apply hvalues_fold_hdel. exact Hn. Qed.

Lemma remove_hop_listed k h : In k (connection_listed h ++ hop_headers) -> hvalues k (remove_hop h) = [].
Proof. intros Hin. unfold remove_hop. apply hvalues_fold_hdel_in. exact Hin. Qed.

(* ---------- C16: the ID middleware ---------- *)
Lemma id_value_cases supplied gen :
  (id_value supplied gen = gen /\ (supplied = None \/ exists v, supplied = Some v /\ trim_space v = []))
  \/ (exists v, supplied = Some v /\ trim_space v <> [] /\ id_value supplied gen = trim_space v).
Proof.
  unfold id_value. destruct supplied as [v|]; [|left; auto].
  destruct (bytes_eqb (trim_space v) []) eqn:E.
  - apply bytes_eqb_eq in E. left. split; [reflexivity|]. right. exists v. auto.
  - right. exists v. split; [reflexivity|]. split; [|reflexivity]. intros H. rewrite H in E. cbn in E. discriminate.
Qed.

(* request-ID enabled: the value written into the request is the value pre-set on the response *)
Lemma id_mw_rid c h :
  c_rid c = true -> c_rid_hdr c <> c_tr_hdr c ->
  let v := id_value (hget (c_rid_hdr c) h) GEN_REQ in
  hvalues (c_rid_hdr c) (fst (id_middleware c h)) = [v] /\ hvalues (c_rid_hdr c) (snd (id_middleware c h)) = [v].
Proof.
  intros Hon Hne. unfold id_middleware. rewrite Hon. cbv beta iota. destruct (c_tr c); cbv beta iota; cbn [fst snd].
  - rewrite !hvalues_hset_other by exact Hne. rewrite hvalues_hset_same. split; [reflexivity|].
    rewrite ?hvalues_hset_other by exact Hne. rewrite hvalues_cons, bytes_eqb_refl. reflexivity.
  - rewrite hvalues_hset_same. split; [reflexivity|]. rewrite hvalues_cons, bytes_eqb_refl. reflexivity.
Qed.

Lemma id_mw_tr c h :
  c_tr c = true -> c_rid_hdr c <> c_tr_hdr c ->
  let v := id_value (hget (c_tr_hdr c) h) GEN_TRACE in
  hvalues (c_tr_hdr c) (fst (id_middleware c h)) = [v] /\ hvalues (c_tr_hdr c) (snd (id_middleware c h)) = [v].
Proof.
  intros Hon Hne. unfold id_middleware. rewrite Hon. destruct (c_rid c); cbv beta iota; cbn [fst snd].
  - rewrite !hvalues_hset_same. rewrite hget_hvalues, hvalues_hset_other by congruence. rewrite <- hget_hvalues. auto.
  - rewrite !hvalues_hset_same. auto.
Qed.

(* a disabled feature neither generates nor alters its header *)
Lemma id_mw_rid_off c h :
  c_rid c = false -> c_rid_hdr c <> c_tr_hdr c ->
  hvalues (c_rid_hdr c) (fst (id_middleware c h)) = hvalues (c_rid_hdr c) h /\ hvalues (c_rid_hdr c) (snd (id_middleware c h)) = [].
Proof.
  intros Hoff Hne. unfold id_middleware. rewrite Hoff. cbv beta iota. destruct (c_tr c); cbv beta iota; cbn [fst snd].
  - rewrite !hvalues_hset_other by exact Hne. auto.
  - auto.
Qed.

Lemma id_mw_tr_off c h :
  c_tr c = false -> c_rid_hdr c <> c_tr_hdr c ->
  hvalues (c_tr_hdr c) (fst (id_middleware c h)) = hvalues (c_tr_hdr c) h /\ hvalues (c_tr_hdr c) (snd (id_middleware c h)) = [].
Proof.
  intros Hoff Hne. unfold id_middleware. rewrite Hoff. destruct (c_rid c); cbv beta iota; cbn [fst snd].
  - rewrite hvalues_hset_other by congruence. rewrite hvalues_cons, bytes_eqb_neq by exact Hne. auto.
  - auto.
Qed.

(* ---------- the chain on the request path ---------- *)
(* header names a configured plugin writes: the `headers` plugin's request_set / set keys, and X-Request-Id for the
   request-id plugin (which only fills it in when the request does not carry one: see chain_request_keeps_id) *)
Fixpoint chain_reqset_keys (chain : list wplug) : list bytes :=
  match chain with
  | [] => []
  | WHeaders _ rs :: t => map fst rs ++ chain_reqset_keys t
  | WReqId :: t => s_xrid :: chain_reqset_keys t
  | _ :: t => chain_reqset_keys t
  end.
Fixpoint chain_set_keys (chain : list wplug) : list bytes :=
  match chain with
  | [] => []
  | WHeaders s _ :: t => map fst s ++ chain_set_keys t
  | WReqId :: t => s_xrid :: chain_set_keys t
  | _ :: t => chain_set_keys t
  end.
(* the keys of the `headers` plugins alone *)
Fixpoint hdr_reqset_keys (chain : list wplug) : list bytes :=
  match chain with [] => [] | WHeaders _ rs :: t => map fst rs ++ hdr_reqset_keys t | _ :: t => hdr_reqset_keys t end.
Fixpoint hdr_set_keys (chain : list wplug) : list bytes :=
  match chain with [] => [] | WHeaders s _ :: t => map fst s ++ hdr_set_keys t | _ :: t => hdr_set_keys t end.

(* a header no headers-plugin touches travels through the chain unchanged, in both directions, whether or not a plugin rejects *)
Lemma chain_request_keeps k chain q h pre :
  ~ In k (chain_reqset_keys chain) -> ~ In k (chain_set_keys chain) ->
  hvalues k (snd (fst (chain_request chain q h pre))) = hvalues k h /\ hvalues k (snd (chain_request chain q h pre)) = hvalues k pre.
Proof.
  revert h pre. induction chain as [|p t IH]; intros h pre H1 H2; cbn [chain_request]; [cbn; auto|].
  destruct p as [|set reqset|key|maxreq maxresp| |]; cbn [chain_reqset_keys chain_set_keys] in H1, H2.
  - apply IH; assumption.
  - rewrite in_app_iff in H1, H2.
    destruct (IH (fold_left (fun acc kv => hset (fst kv) (snd kv) acc) reqset h)
                 (fold_left (fun acc kv => hset (fst kv) (snd kv) acc) set pre)) as [A B]; [tauto|tauto|].
    rewrite A, B. rewrite !hvalues_fold_hset_other by tauto. auto.
  - destruct (bytes_eqb _ key); [apply IH; assumption|cbn; auto].
  - destruct (Z.eqb (q_framing q) 1 && (maxreq <? q_blen q)); [cbn; auto|apply IH; assumption].
  - apply IH; assumption.
  - cbn [In] in H1, H2. cbv zeta.
    destruct (IH (hset s_xrid (match hget s_xrid h with Some v => if bytes_eqb v [] then GEN_PLUG else v | None => GEN_PLUG end) h)
                 (hset s_xrid (match hget s_xrid h with Some v => if bytes_eqb v [] then GEN_PLUG else v | None => GEN_PLUG end) pre)) as [A B]; [tauto|tauto|].
    rewrite A, B. rewrite !hvalues_hset_other by (intros E; apply H1; left; symmetry; exact E). auto.
Qed.

(* The request-id plugin keeps an ID the request already carries: a header whose single non-empty value is already on the
   request and pre-set on the response (what the ID middleware leaves) travels through any chain unchanged, as long as no
   `headers` plugin overwrites it. *)
Lemma chain_request_keeps_id k v chain q : forall h pre,
  ~ In k (hdr_reqset_keys chain) -> ~ In k (hdr_set_keys chain) -> v <> [] ->
  hvalues k h = [v] -> hvalues k pre = [v] ->
  hvalues k (snd (fst (chain_request chain q h pre))) = [v] /\ hvalues k (snd (chain_request chain q h pre)) = [v].
Proof.
  induction chain as [|p t IH]; intros h pre H1 H2 Hv Hh Hp; cbn [chain_request]; [cbn; auto|].
  destruct p as [|set reqset|key|maxreq maxresp| |]; cbn [hdr_reqset_keys hdr_set_keys] in H1, H2.
  - apply IH; assumption.
  - rewrite in_app_iff in H1, H2. apply IH; try tauto.
    + rewrite hvalues_fold_hset_other by tauto. exact Hh.
    + rewrite hvalues_fold_hset_other by tauto. exact Hp.
  - destruct (bytes_eqb _ key); [apply IH; assumption|cbn; auto].
  - destruct (Z.eqb (q_framing q) 1 && (maxreq <? q_blen q)); [cbn; auto|apply IH; assumption].
  - apply IH; assumption.
  - cbv zeta. destruct (list_eq_dec Z.eq_dec k s_xrid) as [E|E].
    + subst k. rewrite hget_hvalues, Hh. rewrite (bytes_eqb_neq v []) by exact Hv.
      apply IH; try assumption; apply hvalues_hset_same.
    + apply IH; try assumption; rewrite hvalues_hset_other by exact E; assumption.
Qed.

(* ---------- ReverseProxy on the request ---------- *)
Lemma proxy_request_keeps c q h k :
  ~ In k (connection_listed h ++ hop_headers) -> k <> s_xff ->
  hvalues k (bv_hdrs (proxy_request c q h)) = hvalues k h.
Proof.
  intros Hn Hx. unfold proxy_request. cbn [bv_hdrs].
  rewrite hvalues_hset_other by exact Hx.
  assert (Hte : k <> s_te).
  { intros ->. apply Hn. apply in_or_app. right. unfold hop_headers. cbn. tauto. }
  destruct (contains_token_ci s_trailers_tok (hvalues s_te h)).
  - rewrite hvalues_hset_other by exact Hte. apply remove_hop_other. exact Hn.
  - apply remove_hop_other. exact Hn.
Qed.

Lemma proxy_request_hop c q h k :
  In k (connection_listed h ++ hop_headers) -> k <> s_xff -> k <> s_te ->
  hvalues k (bv_hdrs (proxy_request c q h)) = [].
Proof.
  intros Hin Hx Hte. unfold proxy_request. cbn [bv_hdrs].
  rewrite hvalues_hset_other by exact Hx.
  destruct (contains_token_ci s_trailers_tok (hvalues s_te h)).
  - rewrite hvalues_hset_other by exact Hte. apply remove_hop_listed. exact Hin.
  - apply remove_hop_listed. exact Hin.
Qed.

Lemma proxy_request_line c q h :
  bv_method (proxy_request c q h) = q_method q /\ bv_path (proxy_request c q h) = join_path (c_base c) (q_path q)
  /\ bv_query (proxy_request c q h) = q_query q /\ bv_host (proxy_request c q h) = q_host q /\ bv_blen (proxy_request c q h) = q_blen q.
Proof. unfold proxy_request. cbn. auto. Qed.

(* the forwarding header: exactly one value, naming the peer after whatever was there *)
Lemma proxy_request_xff c q h :
  exists v, hvalues s_xff (bv_hdrs (proxy_request c q h)) = [v].
Proof. unfold proxy_request. cbn [bv_hdrs]. eexists. apply hvalues_hset_same. Qed.

(* ---------- the response ---------- *)
Lemma id_headers_values c pre k :
  (c_rid c = true /\ k = c_rid_hdr c) \/ (c_tr c = true /\ k = c_tr_hdr c) -> hvalues k (id_headers c pre) = hvalues k pre.
Proof.
  intros Hk. unfold id_headers, hvalues. induction pre as [|[k' v] t IH]; [reflexivity|].
  cbn [filter fst]. destruct (bytes_eqb k' k) eqn:E.
  - apply bytes_eqb_eq in E. subst k'.
    assert (Hc : (c_rid c && bytes_eqb k (c_rid_hdr c)) || (c_tr c && bytes_eqb k (c_tr_hdr c)) = true).
    { destruct Hk as [[H1 ->]|[H1 ->]]; rewrite H1, bytes_eqb_refl; cbn; [reflexivity|apply orb_true_r]. }
    rewrite Hc. cbn [filter fst map]. rewrite bytes_eqb_refl. cbn [map snd]. f_equal. exact IH.
  - destruct ((c_rid c && bytes_eqb k' (c_rid_hdr c)) || (c_tr c && bytes_eqb k' (c_tr_hdr c))); [|exact IH].
    cbn [filter fst]. rewrite E. exact IH.
Qed.

(* the ID headers are on the final response whatever the backend did, interim responses included, in front of the backend's own *)
Lemma response_has_id c pre d k v :
  (c_rid c = true /\ k = c_rid_hdr c) \/ (c_tr c = true /\ k = c_tr_hdr c) ->
  hvalues k pre = [v] -> exists rest, hvalues k (response_headers c pre d) = v :: rest.
Proof.
  intros Hk Hv. unfold response_headers. rewrite hvalues_app.
  destruct (rv_interim d).
  - rewrite Hv. eexists. reflexivity.
  - rewrite id_headers_values, Hv by exact Hk. eexists. reflexivity.
Qed.

(* status, body, framing pass; an end-to-end header Helios does not manage is exactly the backend's *)
Lemma proxy_response_core c pre d :
  rv_status (proxy_response c pre d) = rv_status d /\ rv_body (proxy_response c pre d) = rv_body d
  /\ rv_framing (proxy_response c pre d) = rv_framing d /\ rv_trunc (proxy_response c pre d) = rv_trunc d.
Proof. unfold proxy_response. cbn. auto. Qed.

Lemma response_e2e c pre d k :
  hvalues k pre = [] -> ~ In k (connection_listed (rv_hdrs d) ++ hop_headers) ->
  hvalues k (response_headers c pre d) = hvalues k (rv_hdrs d).
Proof.
  intros Hp Hn. unfold response_headers. rewrite hvalues_app, remove_hop_other by exact Hn.
  destruct (rv_interim d); [rewrite Hp; reflexivity|].
  assert (Hb : hvalues k (id_headers c pre) = []).
  { unfold id_headers, hvalues in *.
    induction pre as [|[k' v] t IH]; [reflexivity|]. cbn [filter fst] in *.
    destruct (bytes_eqb k' k) eqn:E; [discriminate|].
    destruct ((c_rid c && bytes_eqb k' (c_rid_hdr c)) || (c_tr c && bytes_eqb k' (c_tr_hdr c))); [|apply IH; exact Hp].
    cbn [filter fst]. rewrite E. apply IH. exact Hp. }
  rewrite Hb. reflexivity.
Qed.

(* ---------- uniqueness of generated identifiers: hex encoding is injective ---------- *)
Lemma hexdigit_inj a b : 0 <= a < 16 -> 0 <= b < 16 -> hexdigit a = hexdigit b -> a = b.
Proof. unfold hexdigit. intros Ha Hb. destruct (a <? 10) eqn:E1, (b <? 10) eqn:E2; lia. Qed.

Definition byte_list (l : list Z) : Prop := Forall (fun b => 0 <= b < 256) l.

Lemma hex_of_inj a b : byte_list a -> byte_list b -> hex_of a = hex_of b -> a = b.
Proof.
  revert b. induction a as [|x t IH]; intros [|y u] Ha Hb H; cbn [hex_of] in H; try discriminate; [reflexivity|].
  inversion Ha as [|x0 t0 Hx Ht]; inversion Hb as [|y0 u0 Hy Hu]; subst. injection H as E1 E2 E3.
  apply hexdigit_inj in E1; [|lia|lia]. apply hexdigit_inj in E2; [|lia|lia].
  f_equal; [lia|]. apply IH; assumption.
Qed.

Lemma gen_id_inj prefix a b : byte_list a -> byte_list b -> gen_id prefix a = gen_id prefix b -> a = b.
Proof. unfold gen_id. intros Ha Hb H. apply app_inv_head in H. apply hex_of_inj; assumption. Qed.

(* ---------- composition: the whole request path ---------- *)
Lemma id_mw_other c h k :
  k <> c_rid_hdr c -> k <> c_tr_hdr c -> hvalues k (fst (id_middleware c h)) = hvalues k h.
Proof.
  intros H1 H2. unfold id_middleware. destruct (c_rid c), (c_tr c); cbv beta iota; cbn [fst snd];
    rewrite ?hvalues_hset_other by assumption; reflexivity.
Qed.

Definition parsed (q : wreq) : hdrs := map (fun kv => (fst kv, trim_ows (snd kv))) (q_hdrs q).

Definition outcome_pre (o : outcome) : hdrs := match o with Rejected _ pre => pre | Forwarded _ pre => pre end.

(* the headers the chain hands to the balancer / the response pre-set, for a key no headers-plugin manages *)
Lemma forward_pre c phase q k :
  ~ In k (chain_reqset_keys (c_chain c)) -> ~ In k (chain_set_keys (c_chain c)) ->
  hvalues k (outcome_pre (forward c phase q)) = hvalues k (snd (id_middleware c (parsed q))).
Proof.
  intros H1 H2. unfold forward. fold (parsed q).
  destruct (id_middleware c (parsed q)) as [h1 pre1] eqn:E. cbn [snd].
  pose proof (chain_request_keeps k (c_chain c) q h1 pre1 H1 H2) as [_ B].
  destruct (chain_request (c_chain c) q h1 pre1) as [[[code|] h2] pre]; cbn [snd fst] in B.
  - cbn [outcome_pre]. exact B.
  - destruct (Z.eqb phase 1); [exact B|]. destruct (Z.eqb phase 2); exact B.
Qed.

Lemma forward_backend c phase q b pre k :
  forward c phase q = Forwarded b pre ->
  ~ In k (chain_reqset_keys (c_chain c)) -> ~ In k (chain_set_keys (c_chain c)) ->
  ~ In s_connection (chain_reqset_keys (c_chain c)) ->
  s_connection <> c_rid_hdr c -> s_connection <> c_tr_hdr c ->
  ~ In k (conn_listed_vals (map trim_ows (hvalues s_connection (q_hdrs q))) ++ hop_headers) -> k <> s_xff ->
  hvalues k (bv_hdrs b) = hvalues k (fst (id_middleware c (parsed q))).
Proof.
  intros Hf H1 H2 Hc Hr Ht Hn Hx. unfold forward in Hf. fold (parsed q) in Hf.
  destruct (id_middleware c (parsed q)) as [h1 pre1] eqn:E. cbn [fst].
  pose proof (chain_request_keeps k (c_chain c) q h1 pre1 H1 H2) as [A _].
  assert (Hconn : hvalues s_connection (snd (fst (chain_request (c_chain c) q h1 pre1))) = map trim_ows (hvalues s_connection (q_hdrs q))).
  { (* Connection values travel unchanged up to the proxy *)
    assert (A2 : forall pre0, hvalues s_connection (snd (fst (chain_request (c_chain c) q h1 pre0))) = hvalues s_connection h1).
    { clear - Hc. revert h1. induction (c_chain c) as [|p t IH]; intros h1 pre0; cbn [chain_request]; [reflexivity|].
      destruct p as [|set reqset|key|maxreq maxresp| |]; cbn [chain_reqset_keys] in Hc.
      - apply IH. exact Hc.
      - rewrite in_app_iff in Hc. rewrite IH by tauto. apply hvalues_fold_hset_other. tauto.
      - destruct (bytes_eqb _ key); [apply IH; exact Hc|reflexivity].
      - destruct (Z.eqb (q_framing q) 1 && (maxreq <? q_blen q)); [reflexivity|apply IH; exact Hc].
      - apply IH. exact Hc.
      - cbn [In] in Hc. cbv zeta. rewrite IH by tauto. apply hvalues_hset_other. intros E. apply Hc. left. symmetry. exact E. }
    rewrite A2. replace h1 with (fst (id_middleware c (parsed q))) by (rewrite E; reflexivity).
    rewrite id_mw_other by assumption. unfold parsed. apply hvalues_map_val. }
  destruct (chain_request (c_chain c) q h1 pre1) as [[[code|] h2] pre2]; [discriminate|].
  cbn [fst snd] in A, Hconn.
  destruct (Z.eqb phase 1); [discriminate|]. destruct (Z.eqb phase 2); [discriminate|].
  injection Hf as <- <-.
  rewrite proxy_request_keeps; [exact A| |exact Hx].
  unfold connection_listed. rewrite Hconn. exact Hn.
Qed.

(* ---- the ID headers in the presence of the request-id plugin ---- *)
Lemma id_value_nonempty supplied gen : gen <> [] -> id_value supplied gen <> [].
Proof.
  intros Hg. destruct (id_value_cases supplied gen) as [[E _]|(v & _ & Hv & E)]; rewrite E; assumption.
Qed.

Lemma conn_through_chain chain q : forall h pre,
  ~ In s_connection (chain_reqset_keys chain) ->
  hvalues s_connection (snd (fst (chain_request chain q h pre))) = hvalues s_connection h.
Proof.
  induction chain as [|p t IH]; intros h pre Hc; cbn [chain_request]; [reflexivity|].
  destruct p as [|set reqset|key|maxreq maxresp| |]; cbn [chain_reqset_keys] in Hc.
  - apply IH. exact Hc.
  - rewrite in_app_iff in Hc. rewrite IH by tauto. apply hvalues_fold_hset_other. tauto.
  - destruct (bytes_eqb _ key); [apply IH; exact Hc|reflexivity].
  - destruct (Z.eqb (q_framing q) 1 && (maxreq <? q_blen q)); [reflexivity|apply IH; exact Hc].
  - apply IH. exact Hc.
  - cbn [In] in Hc. cbv zeta. rewrite IH by tauto. apply hvalues_hset_other. intros E. apply Hc. left. symmetry. exact E.
Qed.

(* an ID the middleware chose (single non-empty value v on the request and pre-set on the response) reaches every response
   path and the backend as v, through any chain - the request-id plugin included - whose `headers` plugins leave it alone *)
Lemma forward_id c phase q k v :
  hvalues k (fst (id_middleware c (parsed q))) = [v] -> hvalues k (snd (id_middleware c (parsed q))) = [v] -> v <> [] ->
  ~ In k (hdr_reqset_keys (c_chain c)) -> ~ In k (hdr_set_keys (c_chain c)) ->
  hvalues k (outcome_pre (forward c phase q)) = [v]
  /\ forall b pre, forward c phase q = Forwarded b pre ->
       ~ In s_connection (chain_reqset_keys (c_chain c)) -> s_connection <> c_rid_hdr c -> s_connection <> c_tr_hdr c ->
       ~ In k (conn_listed_vals (map trim_ows (hvalues s_connection (q_hdrs q))) ++ hop_headers) -> k <> s_xff ->
       hvalues k (bv_hdrs b) = [v].
Proof.
  intros Hh Hp Hv H1 H2. unfold forward. fold (parsed q).
  destruct (id_middleware c (parsed q)) as [h1 pre1] eqn:E. cbn [fst snd] in Hh, Hp.
  pose proof (chain_request_keeps_id k v (c_chain c) q h1 pre1 H1 H2 Hv Hh Hp) as [A B].
  pose proof (conn_through_chain (c_chain c) q h1 pre1) as Hconn.
  destruct (chain_request (c_chain c) q h1 pre1) as [[[code|] h2] pre]; cbn [snd fst] in A, B, Hconn.
  - split; [exact B|]. intros b pre' Hf. discriminate.
  - split; [destruct (Z.eqb phase 1); [exact B|]; destruct (Z.eqb phase 2); exact B|].
    intros b pre' Hf Hc Hr Ht Hn Hx.
    destruct (Z.eqb phase 1); [discriminate|]. destruct (Z.eqb phase 2); [discriminate|]. injection Hf as <- <-.
    rewrite proxy_request_keeps; [exact A| |exact Hx].
    unfold connection_listed. rewrite (Hconn Hc).
    replace h1 with (fst (id_middleware c (parsed q))) by (rewrite E; reflexivity).
    rewrite id_mw_other by assumption. unfold parsed. rewrite hvalues_map_val. exact Hn.
Qed.

(* end-to-end request headers reach the backend exactly as the front server parsed them *)
Lemma forward_e2e c phase q b pre k :
  forward c phase q = Forwarded b pre ->
  ~ In k (chain_reqset_keys (c_chain c)) -> ~ In k (chain_set_keys (c_chain c)) ->
  ~ In s_connection (chain_reqset_keys (c_chain c)) ->
  s_connection <> c_rid_hdr c -> s_connection <> c_tr_hdr c ->
  k <> c_rid_hdr c -> k <> c_tr_hdr c ->
  ~ In k (conn_listed_vals (map trim_ows (hvalues s_connection (q_hdrs q))) ++ hop_headers) -> k <> s_xff ->
  hvalues k (bv_hdrs b) = map trim_ows (hvalues k (q_hdrs q)).
Proof.
  intros Hf H1 H2 Hc Hr Ht Hkr Hkt Hn Hx.
  rewrite (forward_backend c phase q b pre k Hf H1 H2 Hc Hr Ht Hn Hx).
  rewrite id_mw_other by assumption. unfold parsed. apply hvalues_map_val.
Qed.

Lemma forward_line c phase q b pre :
  forward c phase q = Forwarded b pre ->
  bv_method b = q_method q /\ bv_path b = join_path (c_base c) (q_path q) /\ bv_query b = q_query q
  /\ bv_host b = q_host q /\ bv_blen b = q_blen q.
Proof.
  unfold forward. destruct (id_middleware c _) as [h1 pre1].
  destruct (chain_request (c_chain c) q h1 pre1) as [[[code|] h2] pre2]; [discriminate|].
  destruct (Z.eqb phase 1); [discriminate|]. destruct (Z.eqb phase 2); [discriminate|].
  intros H. injection H as <- _. apply proxy_request_line.
Qed.

(* a rejection by a plugin or by the balancer never contacts a backend: [forward] has no backend view to offer *)
Lemma rejected_no_backend c phase q code pre : forward c phase q = Rejected code pre -> forall b pre', forward c phase q <> Forwarded b pre'.
Proof. intros H b pre' H'. rewrite H in H'. discriminate. Qed.

(* capabilities of a stack of response-writer wrappers: a Flush / Hijack issued at the top reaches the server's writer
   iff every layer forwards it *)
From Helios Require Import Gen.Wrappers Gen.ProxyFacts.
Definition flush_reaches (stack : list wrapper) : bool := forallb wr_flush stack.
Definition hijack_reaches (stack : list wrapper) : bool := forallb wr_hijack stack.

Lemma table_forwards : forallb (fun w => wr_flush w && wr_hijack w) wrappers = true.
Proof. vm_compute. reflexivity. Qed.

Lemma caps_preserved stack : (forall w, In w stack -> In w wrappers) -> flush_reaches stack = true /\ hijack_reaches stack = true.
Proof.
  intros H. unfold flush_reaches, hijack_reaches. rewrite !forallb_forall.
  pose proof table_forwards as T. rewrite forallb_forall in T.
  split; intros w Hw; specialize (T w (H w Hw)); apply andb_true_iff in T; tauto.
Qed.
