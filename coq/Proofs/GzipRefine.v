(* Route T for C15: the hand-written wrapper machine gz_step / gz_finish of Model/RespWriter.v against Gen/GzipGen.v, which go2coq
   regenerates from internal/plugins/compression.go on every run (WriteHeader, commit, streamUncompressed, Write, Flush, Finish;
   shouldGzipBody stays an oracle: its model gz_should is tied by the correspondence suites only). *)
From Helios Require Import Base.Prelude Model.RespWriter Gen.GzipGen.

Local Arguments Z.add : simpl never.
Local Arguments Z.max : simpl never.
Local Arguments Z.mul : simpl never.
Local Arguments Z.ltb : simpl never.
Local Arguments Z.eqb : simpl never.

(* the generated record: the model's state without its ghosts (header mirror, number of buffered writes), the two configuration
   integers the translated methods never read, and the calls made so far on the underlying writer *)
Definition abs_gz (mn lv : Z) (w : gzw) (o : list wcall) : gzipResponseWriter :=
  mkgzipResponseWriter (g_status w) (g_wrote w) (g_committed w) mn lv (g_buf w) (g_stream w) o.

Ltac unf := lazy beta iota zeta delta [gzg_Finish gzg_Flush gzg_Write gzg_WriteHeader gzg_streamUncompressed gzg_commit abs_gz
  gz_finish gz_step gz_stream gz_commit payload_len fst snd
  gzg_set_out gzg_set_wroteHeader gzg_set_statusCode gzg_set_committed gzg_set_buf gzg_set_bufferExceeded
  gzg_statusCode gzg_wroteHeader gzg_committed gzg_minSize gzg_level gzg_buf gzg_bufferExceeded gzg_out
  g_status g_wrote g_committed g_buf g_bufparts g_stream g_hdr].
Ltac rw := repeat match goal with H : _ = ?b |- _ => lazymatch b with true => rewrite H | false => rewrite H end end.
Ltac crush := repeat (progress (unf; cbn [negb]; rw)); rewrite ?app_nil_r, <- ?app_assoc; cbn [app]; try reflexivity; try (f_equal; lia).
Ltac cases w := destruct w as [st wr cm buf bp sm hd]; cbn [g_buf] in *; destruct sm, wr, cm; unf.

Lemma commit_refines acc mn lv w o now :
  fst (gzg_commit acc (abs_gz mn lv w o) now) = abs_gz mn lv (fst (gz_commit w)) (o ++ snd (gz_commit w)).
Proof. cases w; crush. Qed.

Lemma stream_refines acc mn lv w o now : 0 <= g_buf w ->
  fst (gzg_streamUncompressed acc (abs_gz mn lv w o) now) = abs_gz mn lv (fst (gz_stream w)) (o ++ snd (gz_stream w)).
Proof. intros Hb. cases w; crush; destruct (0 <? buf) eqn:E0; crush. Qed.

Lemma header_refines acc mn lv cfg w o now code :
  fst (gzg_WriteHeader acc (abs_gz mn lv w o) now code)
  = abs_gz mn lv (fst (gz_step cfg w (CHead code))) (o ++ snd (gz_step cfg w (CHead code))).
Proof. destruct (is_interim code) eqn:E; pose proof E as E'; unfold is_interim in E'; cases w; crush. Qed.

Lemma flush_refines acc mn lv cfg w o now : 0 <= g_buf w ->
  fst (gzg_Flush acc (abs_gz mn lv w o) now) = abs_gz mn lv (fst (gz_step cfg w CFlush)) (o ++ snd (gz_step cfg w CFlush)).
Proof. intros Hb. cases w; crush; destruct (0 <? buf) eqn:E0; crush. Qed.

(* MaxCompressionBufferSize is a constant of the source; the model carries it in its configuration *)
Lemma write_refines acc mn lv cfg w o now n : gz_cap cfg = 10 * 1024 * 1024 -> 0 <= n -> 0 <= g_buf w ->
  fst (gzg_Write acc (abs_gz mn lv w o) now n)
  = abs_gz mn lv (fst (gz_step cfg w (CWrite (PRaw n)))) (o ++ snd (gz_step cfg w (CWrite (PRaw n)))).
Proof.
  intros Hcap Hn Hb. cases w; rewrite ?Hcap; crush; destruct (10 * 1024 * 1024 <? buf + n) eqn:Ec; crush; destruct (0 <? buf) eqn:E0; crush.
Qed.

(* Finish, with the decision of shouldGzipBody handed in *)
Lemma finish_refines acc mn lv cfg w o now : 0 <= g_buf w ->
  gzg_out (fst (gzg_Finish acc (abs_gz mn lv w o) now (gz_should cfg w))) = o ++ gz_finish cfg w.
Proof.
  intros Hb. destruct (gz_should cfg w) eqn:Esh.
  all: cases w; crush; destruct (Z.eqb buf 0) eqn:E0; destruct (0 <? buf) eqn:E1; try lia; crush.
Qed.

(* the buffer length stays non-negative: the side condition of the lemmas above holds along every script of the harness's shape *)
Lemma buf_nonneg cfg w c : 0 <= g_buf w -> 0 <= g_buf (fst (gz_step cfg w c)).
Proof.
  intros Hb. destruct c as [k v|k|code|p|].
  - cases w; crush; lia.
  - cases w; crush; lia.
  - destruct (is_interim code) eqn:E; cases w; crush; lia.
  - destruct p as [n|n]; cases w; crush; try lia; destruct (gz_cap cfg <? buf + n); crush; try lia; destruct (0 <? buf); crush; lia.
  - cases w; crush; try lia; destruct (0 <? buf); crush; lia.
Qed.

(* the wrapper offers the underlying writer through Write, WriteHeader, Flush and Hijack only: no ReadFrom, Unwrap or FlushError
   through which bytes would reach the client past the buffer *)
Lemma interfaces_as_modelled : gzg_optional_interfaces = [1; 2].
Proof. reflexivity. Qed.

(* ------------------------------------------------------------------------------------------ *)
(* Whole scripts: the regenerated methods, driven by a handler's calls, make exactly the calls of gz_transform. *)

Definition gzg_step (g : gzipResponseWriter) (c : wcall) : gzipResponseWriter :=
  match c with
  | CSet k v => gzg_set_out g (gzg_out g ++ [CSet k v])         (* Header() is the underlying writer's map *)
  | CDel k => gzg_set_out g (gzg_out g ++ [CDel k])
  | CHead code => fst (gzg_WriteHeader (fun n => n) g 0 code)
  | CWrite p => fst (gzg_Write (fun n => n) g 0 (payload_len p))
  | CFlush => fst (gzg_Flush (fun n => n) g 0)
  end.

Definition byte_call (c : wcall) : bool := match c with CWrite (PRaw n) => 0 <=? n | CWrite (PGz _) => false | _ => true end.

Lemma step_refines mn lv cfg w o c : gz_cap cfg = 10 * 1024 * 1024 -> byte_call c = true -> 0 <= g_buf w ->
  gzg_step (abs_gz mn lv w o) c = abs_gz mn lv (fst (gz_step cfg w c)) (o ++ snd (gz_step cfg w c)).
Proof.
  intros Hcap Hc Hb. destruct c as [k v|k|code|p|]; cbn [gzg_step].
  - reflexivity.
  - reflexivity.
  - apply header_refines.
  - destruct p as [n|n]; [|discriminate]. cbn [byte_call] in Hc. cbn [payload_len]. apply write_refines; [exact Hcap|lia|exact Hb].
  - apply flush_refines. exact Hb.
Qed.

Lemma run_refines mn lv cfg cs : gz_cap cfg = 10 * 1024 * 1024 -> forall w o, forallb byte_call cs = true -> 0 <= g_buf w ->
  fold_left gzg_step cs (abs_gz mn lv w o) = abs_gz mn lv (fst (gz_run cfg w cs)) (o ++ snd (gz_run cfg w cs))
  /\ 0 <= g_buf (fst (gz_run cfg w cs)).
Proof.
  intros Hcap. induction cs as [|c t IH]; intros w o H Hb; cbn [fold_left gz_run]; [cbn; rewrite app_nil_r; split; [reflexivity|exact Hb]|].
  cbn [forallb] in H. apply andb_prop in H as [Hc Ht]. rewrite (step_refines mn lv cfg w o c Hcap Hc Hb).
  pose proof (buf_nonneg cfg w c Hb) as Hb1.
  destruct (gz_step cfg w c) as [w1 o1]. cbn [fst snd] in *. destruct (IH w1 (o ++ o1) Ht Hb1) as [E Hb2]. rewrite E.
  destruct (gz_run cfg w1 t) as [w2 o2]. cbn [fst snd] in *. rewrite app_assoc. split; [reflexivity|exact Hb2].
Qed.

(* the middleware closure of compression.go for a request that accepts gzip: a fresh wrapper, the next handler, Finish - with
   shouldGzipBody's decision read off the model state *)
Theorem transform_is_source mn lv cfg cs : gz_cap cfg = 10 * 1024 * 1024 -> forallb byte_call cs = true ->
  gzg_out (fst (gzg_Finish (fun n => n) (fold_left gzg_step cs (mkgzipResponseWriter 0 false false mn lv 0 false [])) 0
                           (gz_should cfg (fst (gz_run cfg gzw0 cs)))))
  = gz_transform cfg true cs.
Proof.
  intros Hcap H. change (mkgzipResponseWriter 0 false false mn lv 0 false []) with (abs_gz mn lv gzw0 []).
  destruct (run_refines mn lv cfg cs Hcap gzw0 [] H) as [E Hb]; [cbn; lia|]. rewrite E.
  unfold gz_transform. cbn [negb]. destruct (gz_run cfg gzw0 cs) as [w out]. cbn [fst snd app] in *.
  apply finish_refines. exact Hb.
Qed.
