(* The health gate of the balancer model (Model/LB.v: is_healthy, mark_unhealthy), on which C02 / C04 rest, against the
   functions go2coq regenerates from loadbalancer.go on every run (Gen/HealthGen.v: IsBackendHealthy, MarkBackendUnhealthy). *)
From Helios Require Import Base.Prelude Model.Strategy Model.LB Gen.HealthGen.

Definition abs_be (b : backend) : Backend := mkBackend (bflag b) (buntil b) (bactive b) (bweight b).

(* the lazy expiry: what the function answers and what it leaves on the object *)
Lemma is_healthy_refines s b :
  lb_IsBackendHealthy mkLoadBalancer (abs_be b) (now s)
  = (abs_be (if negb (bflag b) && (buntil b <? now s) then set_flag true b else b), fst (is_healthy s b)).
Proof.
  unfold lb_IsBackendHealthy, is_healthy, abs_be. cbn [be_IsHealthy be_UnhealthyUntil].
  destruct (bflag b) eqn:Ef; cbn [negb andb]; [rewrite Ef; reflexivity|].
  destruct (buntil b <? now s) eqn:Eu; cbn [fst]; [reflexivity|rewrite Ef; reflexivity].
Qed.

(* ... and the model applies exactly that update to the object, and only to it *)
Lemma is_healthy_updates s b :
  pool (snd (is_healthy s b)) = (if negb (bflag b) && (buntil b <? now s) then upd_id (bid b) (set_flag true) (pool s) else pool s)
  /\ dead (snd (is_healthy s b)) = (if negb (bflag b) && (buntil b <? now s) then upd_id (bid b) (set_flag true) (dead s) else dead s).
Proof.
  unfold is_healthy. destruct (bflag b); cbn [negb andb snd]; [auto|]. destruct (buntil b <? now s); cbn [snd]; auto.
Qed.

(* an ejection: the flag goes down, the window ends `duration` from now *)
Lemma mark_refines b now d :
  fst (lb_MarkBackendUnhealthy mkLoadBalancer (abs_be b) now d) = abs_be (set_until (now + d) (set_flag false b)).
Proof. reflexivity. Qed.

Lemma mark_updates cfg s id name :
  pool (mark_unhealthy cfg s id name) = upd_id id (fun b => set_until (now s + c_ptimeout cfg) (set_flag false b)) (pool s).
Proof. reflexivity. Qed.
