(* Proofs about Model/RespWriter.v: size_limit response bound, request gate, gzip gating. *)
From Helios Require Import Base.Prelude Model.RespWriter.

Local Arguments Z.add : simpl never.
Local Arguments Z.sub : simpl never.
Local Arguments Z.max : simpl never.

Fixpoint body_total (l : list payload) : Z :=
  match l with [] => 0 | p :: t => Z.max 0 (payload_len p) + body_total t end.

Lemma body_total_app a b : body_total (a ++ b) = body_total a + body_total b.
Proof. induction a as [|p t IH]; cbn [body_total app]; lia. Qed.

Lemma body_total_nonneg l : 0 <= body_total l.
Proof. induction l as [|p t IH]; cbn [body_total]; lia. Qed.

Lemma base_run_app b a c : base_run b (a ++ c) = base_run (base_run b a) c.
Proof. unfold base_run. apply fold_left_app. Qed.

Lemma commit_some b c st h : b_commit b = Some (st, h) -> commit b c = b.
Proof. intros H. unfold commit. rewrite H. reflexivity. Qed.

(* sending a final status on an uncommitted writer commits it and touches nothing else *)
Lemma head_commits b st :
  b_commit b = None -> is_interim st = false ->
  b_commit (base_step b (CHead st)) = Some (st, b_hdr b) /\ b_body (base_step b (CHead st)) = b_body b.
Proof. intros Hc Hi. cbn [base_step]. rewrite Hc, Hi. unfold commit. rewrite Hc. cbn. auto. Qed.

(* a write on a committed writer *)
Lemma write_committed b st h p :
  b_commit b = Some (st, h) ->
  b_commit (base_step b (CWrite p)) = Some (st, h) /\
  b_body (base_step b (CWrite p)) =
    (if (payload_len p <=? 0) || negb (body_allowed st) then b_body b else b_body b ++ [p]).
Proof.
  intros Hc. cbn [base_step]. rewrite (commit_some b 200 _ _ Hc), Hc.
  destruct ((payload_len p <=? 0) || negb (body_allowed st)); cbn; auto.
Qed.

Lemma flush_committed b st h :
  b_commit b = Some (st, h) ->
  b_commit (base_step b CFlush) = Some (st, h) /\ b_body (base_step b CFlush) = b_body b.
Proof. intros Hc. cbn [base_step]. rewrite (commit_some b 200 _ _ Hc). cbn. auto. Qed.

(* coupling between the wrapper and the writer underneath it *)
Record SLInv (w : slw) (b : base) : Prop := {
  si_eq : sl_written w = body_total (b_body b);
  si_le : sl_written w <= sl_limit w;
  si_st : is_interim (sl_status w) = false;
  si_wrote : sl_wrote w = true -> exists h, b_commit b = Some (sl_status w, h);
  si_unwrote : sl_wrote w = false -> b_commit b = None /\ b_body b = []
}.

Lemma sl_step_inv w b c :
  SLInv w b -> SLInv (fst (sl_step w c)) (base_run b (snd (sl_step w c))).
Proof.
  intros Hi0. pose proof Hi0 as [H1 H2 Hs H3 H4]. destruct c as [k v|k|code|p|]; cbn [sl_step].
  - cbn [fst snd base_run fold_left base_step]. constructor; cbn; auto.
  - cbn [fst snd base_run fold_left base_step]. constructor; cbn; auto.
  - destruct (sl_wrote w) eqn:Ew; [cbn; exact Hi0|].
    destruct (H4 eq_refl) as [Hc Hb].
    destruct (is_interim code) eqn:Ei; cbn [fst snd base_run fold_left base_step].
    + rewrite Hc, Ei. constructor; cbn; auto; try congruence.
    + constructor; cbn; auto; try congruence.
  - destruct (sl_reached w); [cbn; exact Hi0|].
    destruct (sl_limit w <? sl_written w + payload_len p) eqn:El.
    + destruct (sl_wrote w) eqn:Ew.
      * cbn. constructor; cbn; auto; congruence.
      * destruct (H4 eq_refl) as [Hc Hb]. cbn [fst snd base_run fold_left].
        set (b1 := base_step b (CDel H_CL)).
        assert (Hc1 : b_commit b1 = None) by (subst b1; cbn; exact Hc).
        assert (Hb1 : b_body b1 = b_body b) by reflexivity.
        destruct (head_commits b1 413 Hc1 eq_refl) as [A B].
        destruct (flush_committed (base_step b1 (CHead 413)) _ _ A) as [A2 B2].
        constructor; cbn [sl_written sl_limit sl_status sl_wrote]; auto;
          try (rewrite B2, B, Hb1; exact H1); try (intros _; eexists; exact A2); try discriminate.
    + unfold sl_ensure. destruct (sl_wrote w) eqn:Ew.
      * destruct (H3 eq_refl) as [h Hc]. cbn [fst snd app base_run fold_left].
        destruct (write_committed b _ _ p Hc) as [A B].
        constructor; cbn [sl_written sl_limit sl_status sl_wrote]; auto;
          try (intros _; eexists; exact A); try (rewrite Ew; discriminate); try discriminate.
        -- rewrite B. destruct (body_allowed (sl_status w)); cbn [negb orb].
           ++ rewrite orb_false_r. destruct (payload_len p <=? 0) eqn:E0; [lia|]. rewrite body_total_app. cbn [body_total]. lia.
           ++ rewrite orb_true_r. lia.
        -- destruct (body_allowed (sl_status w)); lia.
      * destruct (H4 eq_refl) as [Hc Hb].
        set (st := if Z.eqb (sl_status w) 0 then 200 else sl_status w).
        assert (Hst : is_interim st = false) by (subst st; destruct (Z.eqb (sl_status w) 0); [reflexivity|exact Hs]).
        cbn [fst snd app base_run fold_left].
        destruct (head_commits b st Hc Hst) as [A B].
        destruct (write_committed (base_step b (CHead st)) _ _ p A) as [A2 B2].
        rewrite Hb in H1. cbn [body_total] in H1.
        constructor; cbn [sl_written sl_limit sl_status sl_wrote]; auto;
          try (intros _; eexists; exact A2); try discriminate.
        -- rewrite B2, B, Hb. destruct (body_allowed st); cbn [negb orb].
           ++ rewrite orb_false_r. destruct (payload_len p <=? 0) eqn:E0; cbn [body_total app]; lia.
           ++ rewrite orb_true_r. cbn [body_total]. lia.
        -- destruct (body_allowed st); lia.
  - unfold sl_ensure. destruct (sl_wrote w) eqn:Ew.
    + destruct (H3 eq_refl) as [h Hc]. cbn [fst snd app base_run fold_left].
      destruct (flush_committed b _ _ Hc) as [A B].
      constructor; auto; try (rewrite B; exact H1); try (intros _; eexists; exact A); try (rewrite Ew; discriminate).
    + destruct (H4 eq_refl) as [Hc Hb].
      set (st := if Z.eqb (sl_status w) 0 then 200 else sl_status w).
      assert (Hst : is_interim st = false) by (subst st; destruct (Z.eqb (sl_status w) 0); [reflexivity|exact Hs]).
      cbn [fst snd app base_run fold_left].
      destruct (head_commits b st Hc Hst) as [A B].
      destruct (flush_committed (base_step b (CHead st)) _ _ A) as [A2 B2].
      constructor; cbn [sl_written sl_limit sl_status sl_wrote]; auto;
        try (rewrite B2, B; exact H1); try (intros _; eexists; exact A2); try discriminate.
Qed.

Lemma sl_run_inv cs : forall w b,
  SLInv w b -> SLInv (fst (sl_run w cs)) (base_run b (snd (sl_run w cs))).
Proof.
  induction cs as [|c t IH]; intros w b Hi; cbn [sl_run fst snd]; [exact Hi|].
  pose proof (sl_step_inv w b c Hi) as H1.
  destruct (sl_step w c) as [w1 o1]. cbn [fst snd] in H1.
  specialize (IH w1 (base_run b o1) H1). destruct (sl_run w1 t) as [w2 o2]. cbn [fst snd] in *.
  rewrite base_run_app. exact IH.
Qed.

Lemma sl_init_inv limit : 0 <= limit -> SLInv (slw0 limit) base0.
Proof. intros H. constructor; cbn; auto; try lia; try discriminate. Qed.

Lemma sl_step_limit w c : sl_limit (fst (sl_step w c)) = sl_limit w.
Proof.
  destruct c as [k v|k|code|p|]; cbn [sl_step]; try reflexivity.
  - destruct (sl_wrote w); [reflexivity|]. destruct (is_interim code); reflexivity.
  - destruct (sl_reached w); [reflexivity|]. destruct (sl_limit w <? _).
    + destruct (sl_wrote w); reflexivity.
    + unfold sl_ensure. destruct (sl_wrote w); reflexivity.
  - unfold sl_ensure. destruct (sl_wrote w); reflexivity.
Qed.

Lemma sl_run_limit cs : forall w, sl_limit (fst (sl_run w cs)) = sl_limit w.
Proof.
  induction cs as [|c t IH]; intros w; cbn [sl_run fst]; [reflexivity|].
  pose proof (sl_step_limit w c) as H. destruct (sl_step w c) as [w1 o1]. cbn [fst] in H.
  specialize (IH w1). destruct (sl_run w1 t) as [w2 o2]. cbn [fst] in *. congruence.
Qed.

(* The client-side body never exceeds the limit, for every call sequence a handler can make. *)
Theorem sl_response_bound limit cs :
  0 <= limit -> body_total (b_body (base_run base0 (sl_transform limit cs))) <= limit.
Proof.
  intros Hl. unfold sl_transform.
  pose proof (sl_run_inv cs (slw0 limit) base0 (sl_init_inv limit Hl)) as Hi.
  pose proof (sl_run_limit cs (slw0 limit)) as Hlim.
  destruct (sl_run (slw0 limit) cs) as [w out]. cbn [fst snd] in Hi, Hlim.
  rewrite base_run_app.
  assert (Hb : b_body (base_run (base_run base0 out) (sl_finish w)) = b_body (base_run base0 out)).
  { unfold sl_finish. destruct (negb (sl_wrote w) && negb (Z.eqb (sl_status w) 0)); [|reflexivity].
    cbn [base_run fold_left base_step]. destruct (b_commit (base_run base0 out)) eqn:Ec; [reflexivity|].
    destruct (is_interim (sl_status w)); [reflexivity|]. unfold commit. rewrite Ec. reflexivity. }
  rewrite Hb. destruct Hi as [H1 H2 _ _ _]. rewrite <- H1. cbn in Hlim. lia.
Qed.

(* 413 when the excess is detected before anything was sent: the over-limit write on a wrapper that
   has not sent its header yet sends 413, and nothing after it is forwarded *)
Lemma sl_413 w p :
  sl_wrote w = false -> sl_reached w = false -> sl_limit w < sl_written w + payload_len p ->
  snd (sl_step w (CWrite p)) = [CDel H_CL; CHead 413; CFlush] /\ sl_reached (fst (sl_step w (CWrite p))) = true.
Proof.
  intros Hw Hr Hl. cbn [sl_step]. rewrite Hr. assert (E : (sl_limit w <? sl_written w + payload_len p) = true) by lia.
  rewrite E, Hw. cbn. auto.
Qed.

Lemma sl_reached_silent w c :
  sl_reached w = true -> sl_wrote w = true ->
  match c with CWrite _ => snd (sl_step w c) = [] /\ fst (sl_step w c) = w | _ => True end.
Proof. intros Hr Hw. destruct c; auto. cbn [sl_step]. rewrite Hr. auto. Qed.

(* request gate *)
Theorem sl_request_spec maxreq declared actual :
  0 <= actual -> 0 <= maxreq ->
  match sl_request maxreq declared actual with
  | None => exists n, declared = Some n /\ maxreq < n          (* rejected only for a declared length above the limit *)
  | Some k => k <= maxreq /\ k <= actual /\ (actual <= maxreq -> k = actual)   (* readable bytes bounded; within the limit: all *)
  end.
Proof.
  intros Ha Hm. unfold sl_request. destruct declared as [n|].
  - destruct (maxreq <? n) eqn:E; [exists n; split; [reflexivity|lia]|lia].
  - lia.
Qed.

(* gzip: no "gzip" token in Accept-Encoding => the plugin is the identity on the call sequence *)
Theorem gz_identity_without_ae cfg cs : gz_transform cfg false cs = cs.
Proof. reflexivity. Qed.

(* gzip emits a compressed payload only from gz_finish, and only when gz_should holds *)
Lemma gz_finish_compresses cfg w :
  (exists n, In (CWrite (PGz n)) (gz_finish cfg w)) -> g_stream w = false /\ gz_should cfg w = true.
Proof.
  intros (n & Hin). unfold gz_finish in Hin. destruct (g_stream w); [destruct Hin|].
  destruct (gz_should cfg w) eqn:Es; [auto|].
  exfalso. destruct (gz_commit w) as [w1 pre] eqn:Ec. apply in_app_or in Hin. destruct Hin as [Hin|Hin].
  - unfold gz_commit in Ec. destruct (g_committed w); inversion Ec; subst; cbn in Hin; intuition discriminate.
  - destruct (0 <? g_buf w); cbn in Hin; intuition discriminate.
Qed.

(* what gz_should demands *)
Lemma gz_should_conditions cfg w :
  gz_should cfg w = true ->
  0 < g_buf w /\ lookup H_CE (g_hdr w) = None /\ gz_min cfg <= g_buf w
  /\ (exists ct, lookup H_CT (g_hdr w) = Some ct /\ memZ ct (gz_types cfg) = true)
  /\ (forall cl, lookup H_CL (g_hdr w) = Some cl -> gz_min cfg <= cl).
Proof.
  unfold gz_should. intros H. repeat (apply andb_true_iff in H; destruct H as [H ?]).
  repeat split; try lia.
  - destruct (lookup H_CE (g_hdr w)); [discriminate|reflexivity].
  - destruct (lookup H_CT (g_hdr w)) as [ct|]; [exists ct; auto|discriminate].
  - intros cl E. rewrite E in *. lia.
Qed.
