(* C14, transparency: an exchange whose response body stays within max_response_body passes through size_limit unchanged -
   interim responses, status, headers, body - for every well-formed handler script (headers, interim responses, at most one
   final WriteHeader, then writes and flushes), bodiless responses included.  By simulation between the wrapper driving the
   connection machine and the handler driving it directly. *)
From Helios Require Import Base.Prelude Model.RespWriter Proofs.WriterProofs Proofs.GzipProofs.

Local Arguments Z.add : simpl never.
Local Arguments Z.sub : simpl never.
Local Arguments zlen : simpl never.

(* status codes a handler may pass to WriteHeader (net/http panics on anything below 100) *)
Definition valid_call (c : wcall) : bool := match c with CHead code => 100 <=? code | _ => true end.
Definition valid_codes (cs : list wcall) : bool := forallb valid_call cs.

(* the connection machine by all five projections *)
Lemma bf_write b p :
  let b' := base_step b (CWrite p) in
  b_interim b' = b_interim b /\ b_hdr b' = b_hdr b /\ b_commit b' = Some (cur b) /\ b_flushes b' = b_flushes b
  /\ b_body b' = if (payload_len p <=? 0) || negb (body_allowed (fst (cur b))) then b_body b else b_body b ++ [p].
Proof.
  cbn zeta. unfold cur. cbn [base_step]. unfold commit. destruct (b_commit b) as [[st h]|] eqn:E; cbn [b_commit fst].
  - rewrite E. cbn [fst]. destruct ((payload_len p <=? 0) || negb (body_allowed st)); cbn; rewrite ?E; auto.
  - destruct ((payload_len p <=? 0) || negb (body_allowed 200)); cbn; auto.
Qed.

Lemma bf_flush b :
  let b' := base_step b CFlush in
  b_interim b' = b_interim b /\ b_hdr b' = b_hdr b /\ b_commit b' = Some (cur b) /\ b_body b' = b_body b
  /\ b_flushes b' = b_flushes b ++ [zlen (b_body b)].
Proof.
  cbn zeta. unfold cur. cbn [base_step]. unfold commit. destruct (b_commit b) as [[st h]|] eqn:E; cbn; rewrite ?E; auto.
Qed.

Lemma bf_head b c : b_commit b = None -> is_interim c = false ->
  let b' := base_step b (CHead c) in
  b_interim b' = b_interim b /\ b_hdr b' = b_hdr b /\ b_commit b' = Some (c, b_hdr b) /\ b_body b' = b_body b /\ b_flushes b' = b_flushes b.
Proof. intros E Hi. cbn zeta. cbn [base_step]. rewrite E, Hi. unfold commit. rewrite E. cbn. auto. Qed.

Lemma commit_proj b :
  b_interim (commit b 200) = b_interim b /\ b_hdr (commit b 200) = b_hdr b /\ b_commit (commit b 200) = Some (cur b)
  /\ b_body (commit b 200) = b_body b /\ b_flushes (commit b 200) = b_flushes b.
Proof. unfold commit, cur. destruct (b_commit b) as [[st h]|] eqn:E; cbn; rewrite ?E; auto. Qed.

Record TInv (w : slw) (D T : base) (budget : Z) : Prop := {
  ti_interim : b_interim T = b_interim D;
  ti_hdr : b_hdr T = b_hdr D;
  ti_body : b_body T = b_body D;
  ti_flush : b_flushes T = b_flushes D;
  ti_reached : sl_reached w = false;
  ti_st : is_interim (sl_status w) = false;
  ti_budget : 0 <= sl_written w /\ 0 <= budget /\ sl_written w + budget <= sl_limit w;
  ti_mode :
    if sl_wrote w then b_commit T = b_commit D /\ b_commit D <> None /\ fst (cur D) = sl_status w
    else b_commit T = None
         /\ match b_commit D with
            | None => sl_status w = 0
            | Some (st, h) => st = sl_status w /\ st <> 0 /\ h = b_hdr D
            end
}.

Definition SPristine (w : slw) (D : base) : Prop := sl_wrote w = false /\ b_commit D = None /\ sl_status w = 0.

Lemma tinv_init limit bud : 0 <= limit -> 0 <= bud <= limit -> TInv (slw0 limit) base0 base0 bud /\ SPristine (slw0 limit) base0.
Proof. intros H1 H2. split; [constructor; cbn; auto; lia|repeat split]. Qed.

Lemma written_total_nonneg cs : 0 <= written_total cs.
Proof. induction cs as [|c t IH]; cbn [written_total]; [lia|]. destruct c; lia. Qed.

(* header calls before anything is decided *)
Lemma t_header w D T c bud :
  (exists k v, c = CSet k v) \/ (exists k, c = CDel k) -> SPristine w D -> TInv w D T bud ->
  TInv (fst (sl_step w c)) (base_step D c) (base_run T (snd (sl_step w c))) bud /\ SPristine (fst (sl_step w c)) (base_step D c).
Proof.
  intros Hc (Hw & Hd & Hs) [I1 I2 I3 I4 I5 I6 I7 I8]. rewrite Hw in I8. destruct I8 as (A & E).
  destruct Hc as [(k & v & ->)|(k & ->)]; cbn [sl_step fst snd base_run fold_left base_step].
  - split; [|repeat split; cbn; assumption]. constructor; cbn [b_interim b_hdr b_body b_commit b_flushes]; auto.
    + rewrite I2. reflexivity.
    + rewrite Hw. rewrite Hd. auto.
  - split; [|repeat split; cbn; assumption]. constructor; cbn [b_interim b_hdr b_body b_commit b_flushes]; auto.
    + rewrite I2. reflexivity.
    + rewrite Hw. rewrite Hd. auto.
Qed.

Lemma t_interim w D T c bud :
  is_interim c = true -> SPristine w D -> TInv w D T bud ->
  TInv (fst (sl_step w (CHead c))) (base_step D (CHead c)) (base_run T (snd (sl_step w (CHead c)))) bud
  /\ SPristine (fst (sl_step w (CHead c))) (base_step D (CHead c)).
Proof.
  intros Hi (Hw & Hd & Hs) [I1 I2 I3 I4 I5 I6 I7 I8]. rewrite Hw in I8. destruct I8 as (A & E).
  cbn [sl_step]. rewrite Hw, Hi. cbn [fst snd base_run fold_left base_step]. rewrite Hd, A, Hi.
  split; [|repeat split; cbn; assumption]. constructor; cbn [b_interim b_hdr b_body b_commit b_flushes]; auto.
  - rewrite I1. reflexivity.
  - rewrite Hw. rewrite Hd in E. auto.
Qed.

Lemma t_final w D T c bud :
  is_interim c = false -> 100 <= c -> SPristine w D -> TInv w D T bud ->
  TInv (fst (sl_step w (CHead c))) (base_step D (CHead c)) (base_run T (snd (sl_step w (CHead c)))) bud.
Proof.
  intros Hi Hc (Hw & Hd & Hs) [I1 I2 I3 I4 I5 I6 I7 I8]. rewrite Hw in I8. destruct I8 as (A & E).
  cbn [sl_step]. rewrite Hw, Hi. cbn [fst snd base_run fold_left].
  destruct (bf_head D c Hd Hi) as (H1 & H2 & H3 & H4 & H5). cbn zeta in *.
  constructor; cbn [sl_written sl_limit sl_reached sl_wrote sl_status]; try congruence.
  split; [exact A|]. rewrite H3. split; [reflexivity|]. split; [lia|congruence].
Qed.

(* the recorded (or default) status goes out: from then on both writers are committed alike *)
Lemma t_ensure w D T bud :
  sl_wrote w = false -> TInv w D T bud ->
  TInv (fst (sl_ensure w)) (commit D 200) (base_run T (snd (sl_ensure w))) bud /\ sl_wrote (fst (sl_ensure w)) = true.
Proof.
  intros Hw [I1 I2 I3 I4 I5 I6 I7 I8]. rewrite Hw in I8. destruct I8 as (A & E).
  unfold sl_ensure. rewrite Hw. cbn [fst snd base_run fold_left].
  set (st := if Z.eqb (sl_status w) 0 then 200 else sl_status w).
  assert (Hst : is_interim st = false /\ cur D = (st, b_hdr D)).
  { unfold cur. destruct (b_commit D) as [[sd hd]|] eqn:Ed.
    - destruct E as (E1 & E2 & E3). subst sd hd. subst st. replace (Z.eqb (sl_status w) 0) with false by lia. auto.
    - subst st. rewrite E. cbn. auto. }
  destruct Hst as [Hi Hcur].
  destruct (bf_head T st A Hi) as (H1 & H2 & H3 & H4 & H5). cbn zeta in *.
  destruct (commit_proj D) as (C1 & C2 & C3 & C4 & C5).
  split; [|reflexivity].
  constructor; cbn [sl_written sl_limit sl_reached sl_wrote sl_status]; try congruence.
  split; [rewrite H3, C3, Hcur, I2; reflexivity|]. split; [rewrite C3; discriminate|]. rewrite cur_commit, Hcur. reflexivity.
Qed.

(* a write or a flush once the status is out, while the budget lasts *)
Lemma t_tail_wrote w D T c bud :
  sl_wrote w = true -> TInv w D T bud ->
  match c with CWrite p => Z.max 0 (payload_len p) <= bud | CFlush => True | _ => False end ->
  let bud' := match c with CWrite p => bud - Z.max 0 (payload_len p) | _ => bud end in
  TInv (fst (sl_step w c)) (base_step D c) (base_run T (snd (sl_step w c))) bud' /\ sl_wrote (fst (sl_step w c)) = true.
Proof.
  intros Hw [I1 I2 I3 I4 I5 I6 I7 I8] Hc. rewrite Hw in I8. destruct I8 as (A & B & C).
  assert (Hcur : cur T = cur D) by (unfold cur; rewrite A; destruct (b_commit D); [reflexivity|contradiction]).
  destruct c as [| | |p|]; try contradiction; cbn zeta.
  - cbn [sl_step]. rewrite I5. replace (sl_limit w <? sl_written w + payload_len p) with false by lia.
    unfold sl_ensure. rewrite Hw. cbn [fst snd app base_run fold_left sl_written sl_limit sl_reached sl_wrote sl_status].
    destruct (bf_write T p) as (T1 & T2 & T3 & T4 & T5). destruct (bf_write D p) as (D1 & D2 & D3 & D4 & D5). cbn zeta in *.
    rewrite Hcur in T3, T5. split; [|exact Hw].
    constructor; cbn [sl_written sl_limit sl_reached sl_wrote sl_status].
    + congruence.
    + congruence.
    + rewrite T5, D5, I3. reflexivity.
    + congruence.
    + exact I5.
    + exact I6.
    + destruct (body_allowed (sl_status w)); lia.
    + rewrite Hw. split; [congruence|]. split; [rewrite D3; discriminate|]. unfold cur. rewrite D3. exact C.
  - cbn [sl_step]. unfold sl_ensure. rewrite Hw. cbn [fst snd app base_run fold_left].
    destruct (bf_flush T) as (T1 & T2 & T3 & T4 & T5). destruct (bf_flush D) as (D1 & D2 & D3 & D4 & D5). cbn zeta in *.
    rewrite Hcur in T3. split; [|exact Hw].
    constructor.
    + congruence.
    + congruence.
    + congruence.
    + rewrite T5, D5, I4, I3. reflexivity.
    + exact I5.
    + exact I6.
    + exact I7.
    + rewrite Hw. split; [congruence|]. split; [rewrite D3; discriminate|]. unfold cur. rewrite D3. exact C.
Qed.

Lemma sl_step_after_ensure w c :
  sl_wrote w = false -> sl_reached w = false ->
  match c with
  | CWrite p => sl_written w + payload_len p <= sl_limit w -> sl_step w c = (fst (sl_step (fst (sl_ensure w)) c), snd (sl_ensure w) ++ snd (sl_step (fst (sl_ensure w)) c))
  | CFlush => sl_step w c = (fst (sl_step (fst (sl_ensure w)) c), snd (sl_ensure w) ++ snd (sl_step (fst (sl_ensure w)) c))
  | _ => True
  end.
Proof.
  intros Hw Hr. destruct c as [| | |p|]; auto.
  - intros Hle. cbn [sl_step]. rewrite Hr. destruct (sl_limit w <? sl_written w + payload_len p) eqn:E; [lia|].
    unfold sl_ensure. rewrite Hw. cbn. rewrite Hr, E. reflexivity.
  - cbn [sl_step]. unfold sl_ensure. rewrite Hw. cbn. reflexivity.
Qed.

(* a write or a flush in general *)
Lemma t_tail w D T c bud :
  TInv w D T bud ->
  match c with CWrite p => Z.max 0 (payload_len p) <= bud | CFlush => True | _ => False end ->
  let bud' := match c with CWrite p => bud - Z.max 0 (payload_len p) | _ => bud end in
  TInv (fst (sl_step w c)) (base_step D c) (base_run T (snd (sl_step w c))) bud'.
Proof.
  intros H Hc. cbn zeta. destruct (sl_wrote w) eqn:Hw; [apply (t_tail_wrote w D T c bud Hw H Hc)|].
  destruct (t_ensure w D T bud Hw H) as [H1 Hw1].
  pose proof (t_tail_wrote (fst (sl_ensure w)) (commit D 200) (base_run T (snd (sl_ensure w))) c bud Hw1 H1 Hc) as [H2 _]. cbn zeta in H2.
  pose proof (sl_step_after_ensure w c Hw (ti_reached _ _ _ _ H)) as Hsplit.
  destruct c as [| | |p|]; try contradiction.
  - rewrite Hsplit by (destruct H as [_ _ _ _ _ _ B _]; lia). cbn [fst snd]. rewrite base_run_app, <- (step_commit_write D). exact H2.
  - rewrite Hsplit. cbn [fst snd]. rewrite base_run_app, <- (step_commit_flush D). exact H2.
Qed.

(* ---------- whole scripts ---------- *)
Lemma trun_tail cs : forall w D T,
  wf_tail cs = true -> TInv w D T (written_total cs) ->
  TInv (fst (sl_run w cs)) (base_run D cs) (base_run T (snd (sl_run w cs))) 0.
Proof.
  induction cs as [|c t IH]; intros w D T Hwf H; cbn [sl_run written_total] in *; [exact H|].
  pose proof (written_total_nonneg t) as Hnn.
  assert (Hc : match c with CWrite p => Z.max 0 (payload_len p) <= written_total (c :: t) | CFlush => True | _ => False end).
  { destruct c; cbn in Hwf; try discriminate; cbn [written_total]; [lia|exact I]. }
  assert (Hwf' : wf_tail t = true) by (destruct c; cbn in Hwf; try discriminate; exact Hwf).
  pose proof (t_tail w D T c (written_total (c :: t)) H Hc) as H1. cbn zeta in H1.
  assert (Hb : match c with CWrite p => written_total (c :: t) - Z.max 0 (payload_len p) | _ => written_total (c :: t) end = written_total t).
  { destruct c; cbn [written_total]; try lia; cbn in Hwf; discriminate. }
  rewrite Hb in H1.
  destruct (sl_step w c) as [w1 o1]. cbn [fst snd] in H1.
  specialize (IH w1 (base_step D c) (base_run T o1) Hwf' H1).
  destruct (sl_run w1 t) as [w2 o2]. cbn [fst snd] in *. rewrite base_run_app. exact IH.
Qed.

Lemma written_total_head c t : match c with CWrite _ => True | _ => written_total (c :: t) = written_total t end.
Proof. destruct c; cbn [written_total]; auto. Qed.

Lemma trun_mid cs : forall w D T,
  wf_mid cs = true -> valid_codes cs = true -> SPristine w D -> TInv w D T (written_total cs) ->
  TInv (fst (sl_run w cs)) (base_run D cs) (base_run T (snd (sl_run w cs))) 0.
Proof.
  induction cs as [|c t IH]; intros w D T Hwf Hv Hp H; [cbn; exact H|].
  destruct c as [k v|k|code|p|]; try (apply trun_tail; [exact Hwf|exact H]).
  cbn [wf_mid] in Hwf. cbn [written_total] in H.
  assert (Hv' : valid_codes t = true) by (cbn in Hv; apply andb_prop in Hv as [_ Hr]; exact Hr).
  assert (Hcode : 100 <= code) by (cbn in Hv; apply andb_prop in Hv as [Hr _]; lia).
  cbn [sl_run]. destruct (is_interim code) eqn:Ei.
  - destruct (t_interim w D T code _ Ei Hp H) as [H1 Hp1].
    destruct (sl_step w (CHead code)) as [w1 o1]. cbn [fst snd] in *.
    specialize (IH w1 (base_step D (CHead code)) (base_run T o1) Hwf Hv' Hp1 H1).
    destruct (sl_run w1 t) as [w2 o2]. cbn [fst snd] in *. rewrite base_run_app. exact IH.
  - pose proof (t_final w D T code _ Ei Hcode Hp H) as H1.
    destruct (sl_step w (CHead code)) as [w1 o1]. cbn [fst snd] in *.
    pose proof (trun_tail t w1 (base_step D (CHead code)) (base_run T o1) Hwf H1) as H2.
    destruct (sl_run w1 t) as [w2 o2]. cbn [fst snd] in *. rewrite base_run_app. exact H2.
Qed.

Lemma trun_script cs : forall w D T,
  wf_script cs = true -> valid_codes cs = true -> SPristine w D -> TInv w D T (written_total cs) ->
  TInv (fst (sl_run w cs)) (base_run D cs) (base_run T (snd (sl_run w cs))) 0.
Proof.
  induction cs as [|c t IH]; intros w D T Hwf Hv Hp H; [cbn; exact H|].
  assert (Hv' : valid_codes t = true) by (cbn in Hv; apply andb_prop in Hv as [_ Hr]; exact Hr).
  destruct c as [k v|k|code|p|]; try (apply trun_mid; [exact Hwf|exact Hv|exact Hp|exact H]).
  - cbn [wf_script] in Hwf. cbn [sl_run]. cbn [written_total] in H.
    destruct (t_header w D T (CSet k v) _ (or_introl (ex_intro _ k (ex_intro _ v eq_refl))) Hp H) as [H1 Hp1].
    destruct (sl_step w (CSet k v)) as [w1 o1]. cbn [fst snd] in *.
    specialize (IH w1 (base_step D (CSet k v)) (base_run T o1) Hwf Hv' Hp1 H1).
    destruct (sl_run w1 t) as [w2 o2]. cbn [fst snd] in *. rewrite base_run_app. exact IH.
  - cbn [wf_script] in Hwf. cbn [sl_run]. cbn [written_total] in H.
    destruct (t_header w D T (CDel k) _ (or_intror (ex_intro _ k eq_refl)) Hp H) as [H1 Hp1].
    destruct (sl_step w (CDel k)) as [w1 o1]. cbn [fst snd] in *.
    specialize (IH w1 (base_step D (CDel k)) (base_run T o1) Hwf Hv' Hp1 H1).
    destruct (sl_run w1 t) as [w2 o2]. cbn [fst snd] in *. rewrite base_run_app. exact IH.
Qed.

(* the end of the exchange: a recorded status that was never sent is sent now *)
Lemma t_finish_view w D T bud : TInv w D T bud -> view (base_run T (sl_finish w)) = view D.
Proof.
  intros [I1 I2 I3 I4 I5 I6 I7 I8]. unfold sl_finish. destruct (sl_wrote w) eqn:Hw; cbn [negb andb base_run fold_left].
  - destruct I8 as (A & B & C).
    assert (Hcur : cur T = cur D) by (unfold cur; rewrite A; destruct (b_commit D); [reflexivity|contradiction]).
    rewrite !view_cur, Hcur, I1, I3. reflexivity.
  - destruct I8 as (A & E). destruct (b_commit D) as [[sd hd]|] eqn:Ed.
    + destruct E as (E1 & E2 & E3). subst sd hd. replace (Z.eqb (sl_status w) 0) with false by lia. cbn [negb base_run fold_left].
      destruct (bf_head T (sl_status w) A I6) as (H1 & H2 & H3 & H4 & H5). cbn zeta in *.
      rewrite !view_cur. unfold cur. rewrite H3, Ed, H1, H4, I1, I2, I3. reflexivity.
    + rewrite E. cbn [Z.eqb negb base_run fold_left]. rewrite !view_cur. unfold cur. rewrite A, Ed, I1, I2, I3. reflexivity.
Qed.

(* C14: within the limit the plugin is invisible *)
Theorem sl_transparent limit cs :
  0 <= limit -> wf_script cs = true -> valid_codes cs = true -> written_total cs <= limit ->
  view (base_run base0 (sl_transform limit cs)) = view (base_run base0 cs).
Proof.
  intros Hl Hwf Hv Hle. unfold sl_transform.
  destruct (tinv_init limit (written_total cs) Hl (conj (written_total_nonneg cs) Hle)) as [H0 Hp0].
  pose proof (trun_script cs (slw0 limit) base0 base0 Hwf Hv Hp0 H0) as H.
  destruct (sl_run (slw0 limit) cs) as [w out]. cbn [fst snd] in H.
  rewrite base_run_app. apply (t_finish_view w _ _ 0). exact H.
Qed.
