(* Scenario 4 of Model/Conc.v: a strategy's pick against concurrent health flips, for EVERY schedule and any number of
   ejectors, lazy re-admissions and pickers.  The pick is nil only if no backend was healthy throughout the call, and it is
   never a backend that was ejected throughout the call. *)
From Helios Require Import Base.Prelude Base.Wrap Base.Bytes Model.Hash Model.Strategy Model.ClientIP Model.Limiter Model.Breaker
                           Model.LB Model.Conc Proofs.StrategyProofs Proofs.LBProofs Proofs.FailoverProofs Proofs.ConcProofs.

Local Arguments Z.add : simpl never.
Local Arguments Z.sub : simpl never.
Local Arguments Z.mul : simpl never.
Local Arguments zlen : simpl never.

(* ---------- lists ---------- *)
Lemma nth_nth_upd {A} (l : list A) i i' v d :
  nth i (nth_upd i' (fun _ => v) l) d = if Nat.eqb i i' && Nat.ltb i (length l) then v else nth i l d.
Proof.
  revert i i'. induction l as [|x t IH]; intros i i'; cbn [nth_upd length].
  - destruct i, i'; cbn; rewrite ?andb_false_r; reflexivity.
  - destruct i as [|i], i' as [|i']; cbn [nth_upd nth Nat.eqb]; try reflexivity.
    + rewrite IH. replace (Nat.ltb (S i) (S (length t))) with (Nat.ltb i (length t)) by reflexivity. reflexivity.
Qed.

Lemma fl_set_len s j v : length (fl_set s j v) = length s.
Proof. unfold fl_set. apply nth_upd_length. Qed.

Lemma fl_get_set s j j' v : 0 <= j -> 0 <= j' ->
  fl_get (fl_set s j v) j' = if Z.eqb j' j && (j' <? zlen s) then v else fl_get s j'.
Proof.
  intros H1 H2. unfold fl_get, fl_set. rewrite nth_nth_upd.
  assert (E1 : Nat.eqb (Z.to_nat j') (Z.to_nat j) = Z.eqb j' j).
  { destruct (Z.eqb j' j) eqn:E; [apply Z.eqb_eq in E; subst; apply Nat.eqb_refl|].
    apply Nat.eqb_neq. intros Hc. apply Z.eqb_neq in E. apply E. lia. }
  assert (E2 : Nat.ltb (Z.to_nat j') (length s) = (j' <? zlen s)).
  { unfold zlen. destruct (j' <? Z.of_nat (length s)) eqn:E; [apply Nat.ltb_lt; lia|apply Nat.ltb_ge; lia]. }
  rewrite E1, E2. reflexivity.
Qed.

Lemma nth_map_lt {A B} (f : A -> B) l k d d' : (k < length l)%nat -> nth k (map f l) d = f (nth k l d').
Proof. revert k. induction l as [|x t IH]; intros k Hk; cbn [length] in Hk; [lia|]. destruct k; cbn [map nth]; [reflexivity|apply IH; lia]. Qed.

(* ---------- the snapshot pool ---------- *)
Lemma pool_of_in i fs x : In x (pool_of i fs) ->
  exists k, (k < length fs)%nat /\ bid x = i + Z.of_nat k /\ bflag x = nth k fs false.
Proof.
  revert i. induction fs as [|f t IH]; intros i; cbn [pool_of]; [intros []|].
  intros [<-|Hin].
  - exists O. cbn. split; [lia|]. split; [lia|reflexivity].
  - destruct (IH _ Hin) as (k & Hk & Hid & Hf). exists (S k). cbn [length nth]. split; [lia|]. split; [lia|exact Hf].
Qed.

Lemma pool_of_nth i fs k : (k < length fs)%nat -> In (mkB (i + Z.of_nat k) (i + Z.of_nat k) 1 (nth k fs false) 0 0 0) (pool_of i fs).
Proof.
  revert i k. induction fs as [|f t IH]; intros i k Hk; cbn [length] in Hk; [lia|].
  destruct k as [|k]; cbn [pool_of nth].
  - left. replace (i + Z.of_nat 0) with i by lia. reflexivity.
  - right. replace (i + Z.of_nat (S k)) with (i + 1 + Z.of_nat k) by lia. apply IH. lia.
Qed.

Lemma pool_of_len i fs : zlen (pool_of i fs) = zlen fs.
Proof. unfold zlen. revert i. induction fs as [|f t IH]; intros i; cbn [pool_of length]; [reflexivity|]. rewrite !Nat2Z.inj_succ, IH. reflexivity. Qed.

Lemma pool_of_active i fs x : In x (pool_of i fs) -> bactive x = 0.
Proof. revert i. induction fs as [|f t IH]; intros i; cbn [pool_of]; [intros []|]. intros [<-|H]; [reflexivity|eapply IH; exact H]. Qed.

(* what any strategy answers on a snapshot: nil only if every flag of the snapshot is false; otherwise an identity whose
   flag in the snapshot is true *)
Lemma pick_on_snapshot_spec kind snap client :
  zlen snap < 2147483648 ->
  let r := pick_on_snapshot kind snap client in
  (r = 0 -> forall k, (k < length snap)%nat -> nth k snap false = false)
  /\ (r <> 0 -> exists k, (k < length snap)%nat /\ r = 1 + Z.of_nat k /\ nth k snap false = true).
Proof.
  intros Hn. cbn zeta. unfold pick_on_snapshot.
  set (st := {| skd := skind_of kind; spool := pool_of 1 snap; sctr := 0 |}).
  set (rq := {| h_xff := []; h_xri := []; h_remote := client |}).
  assert (Hpre : match fst (s_pick st rq) with
                 | Some b => exists x, In x (spool st) /\ bid x = bid b /\ bflag x = true
                 | None => forall y, In y (spool st) -> bflag y = false end).
  { apply pick_eligible_obj; cbn [sctr spool st].
    - lia.
    - rewrite pool_of_len. lia.
    - pose proof (healthy_len_le (pool_of 1 snap)). rewrite pool_of_len in H. lia.
    - intros x Hx. rewrite (pool_of_active _ _ _ Hx). lia. }
  destruct (fst (s_pick st rq)) as [b|].
  - destruct Hpre as (x & Hx & Hid & Hf). cbn [spool st] in Hx. destruct (pool_of_in _ _ _ Hx) as (k & Hk & Hidk & Hfk).
    split; [intros E; exfalso; lia|]. intros _. exists k. split; [exact Hk|]. split; [lia|]. rewrite <- Hfk. exact Hf.
  - split; [|intros E; exfalso; apply E; reflexivity]. intros _ k Hk.
    specialize (Hpre _ (pool_of_nth 1 snap k Hk)). exact Hpre.
Qed.

(* ---------- the scenario ---------- *)
Section S4.
  Variables (kind : Z) (client : bytes) (init kinds : list Z).
  Let n := zlen init.
  Hypothesis Hsmall : n < 2147483648.
  (* thread kinds are the picker, ejectors of backends 1.., healers of backends 1.. *)
  Hypothesis Hkinds : forall k, In k kinds -> k = 0 \/ (11 <= k < 20) \/ 21 <= k.

  Definition AH (j : Z) : Prop := always_healthy init kinds j = true.
  Definition AE (j : Z) : Prop := always_ejected init kinds j = true.

  Definition SInv (s : flags) : Prop :=
    zlen s = n /\ forall j, 1 <= j <= n -> (AH j -> fst (fl_get s (j - 1)) = true) /\ (AE j -> fst (fl_get s (j - 1)) = false).

  Definition ResOK (r : Z) : Prop :=
    r = -1 \/ (r = 0 /\ forall j, 1 <= j <= n -> ~ AH j) \/ (1 <= r <= n /\ ~ AE r).

  Definition SnapOK (snap : list bool) : Prop :=
    forall k, (k < length snap)%nat -> (AH (1 + Z.of_nat k) -> nth k snap false = true) /\ (AE (1 + Z.of_nat k) -> nth k snap false = false).

  Definition PInv (st : tstate pk_local) : Prop :=
    match ts_pc st with
    | Some pc =>
        snd (ts_local st) = -1 /\ 0 <= pc <= n /\ (pc = 0 \/ 1 <= n)
        /\ (if Z.eqb kind 0 then forall i, 1 <= i < pc -> ~ AH (i mod n + 1)
            else SnapOK (fst (ts_local st)) /\ zlen (fst (ts_local st)) = Z.max 0 (pc - 1))
    | None => ResOK (snd (ts_local st))
    end.

  Definition TInv (k : Z) (st : tstate pk_local) : Prop := if Z.eqb k 0 then PInv st else True.

  Definition Q (s : flags) (ts : list (tstate pk_local)) : Prop :=
    SInv s /\ length ts = length kinds
    /\ forall i k st, nth_error kinds i = Some k -> nth_error ts i = Some st -> TInv k st.

  Lemma memZ_in x l : In x l -> memZ x l = true.
  Proof. induction l as [|y t IH]; [intros []|]. cbn [memZ]. intros [->|H]; [rewrite Z.eqb_refl; reflexivity|rewrite (IH H); apply orb_true_r]. Qed.

  (* ejector / healer sections preserve the shared invariant *)
  Lemma ejector_SInv k s : In k kinds -> 11 <= k < 20 -> SInv s -> SInv (fl_set s (k - 11) (false, true)).
  Proof.
    intros Hin Hk [Hlen H]. split; [unfold zlen in *; rewrite fl_set_len; exact Hlen|].
    intros j Hj. rewrite fl_get_set by lia. destruct (H j Hj) as [A B].
    destruct (Z.eqb (j - 1) (k - 11) && (j - 1 <? zlen s)) eqn:E; [|split; assumption].
    apply andb_prop in E as [E _]. apply Z.eqb_eq in E. cbn [fst]. split; [|reflexivity].
    intros Hah. exfalso. unfold AH, always_healthy in Hah. apply andb_prop in Hah as [_ Hm].
    assert (10 + j = k) by lia. subst k. rewrite (memZ_in _ _ Hin) in Hm. discriminate.
  Qed.

  Lemma healer_SInv k s fr : In k kinds -> 21 <= k -> SInv s -> SInv (fl_set s (k - 21) (true, fr)).
  Proof.
    intros Hin Hk [Hlen H]. split; [unfold zlen in *; rewrite fl_set_len; exact Hlen|].
    intros j Hj. rewrite fl_get_set by lia. destruct (H j Hj) as [A B].
    destruct (Z.eqb (j - 1) (k - 21) && (j - 1 <? zlen s)) eqn:E; [|split; assumption].
    apply andb_prop in E as [E _]. apply Z.eqb_eq in E. cbn [fst]. split; [reflexivity|].
    intros Hae. exfalso. unfold AE, always_ejected in Hae. apply andb_prop in Hae as [_ Hm].
    assert (20 + j = k) by lia. subst k. rewrite (memZ_in _ _ Hin) in Hm. discriminate.
  Qed.

  Lemma snap_ok_snoc snap f s : SInv s -> SnapOK snap -> 1 + zlen snap <= n ->
    f = fst (fl_get s (zlen snap)) -> SnapOK (snap ++ [f]).
  Proof.
    intros [_ Hs] Hsn Hle -> k Hk. rewrite app_length in Hk. cbn [length] in Hk.
    destruct (Nat.eq_dec k (length snap)) as [->|Hne].
    - rewrite app_nth2 by lia. replace (length snap - length snap)%nat with O by lia. cbn [nth].
      unfold zlen in *. specialize (Hs (1 + Z.of_nat (length snap)) ltac:(lia)).
      replace (1 + Z.of_nat (length snap) - 1) with (Z.of_nat (length snap)) in Hs by lia. exact Hs.
    - rewrite app_nth1 by lia. apply Hsn. lia.
  Qed.

  Lemma picker_step st pc s :
    ts_pc st = Some pc -> SInv s -> PInv st ->
    fst (fst (t_step _ _ (picker kind n client) s (ts_local st) pc)) = s
    /\ PInv (mkTS (snd (fst (t_step _ _ (picker kind n client) s (ts_local st) pc))) (snd (t_step _ _ (picker kind n client) s (ts_local st) pc))).
  Proof.
    intros Hpc Hs Hp. unfold PInv in Hp. rewrite Hpc in Hp. destruct Hp as (Hres & Hrange & Hn1 & Hk).
    destruct (ts_local st) as [snap res] eqn:El. cbn [fst snd] in *. subst res.
    unfold picker. cbn [t_step].
    destruct (Z.eqb pc 0) eqn:E0.
    - (* the balancer's lock *)
      apply Z.eqb_eq in E0. subst pc. destruct (Z.eqb n 0) eqn:En; cbn [fst snd].
      + split; [reflexivity|]. unfold PInv. cbn [ts_pc ts_local snd]. right. left. split; [reflexivity|]. intros j Hj. apply Z.eqb_eq in En. lia.
      + split; [reflexivity|]. unfold PInv. cbn [ts_pc ts_local fst snd]. apply Z.eqb_neq in En.
        assert (0 <= n) by (unfold n, zlen; lia).
        split; [reflexivity|]. split; [lia|]. split; [right; lia|].
        destruct (Z.eqb kind 0); [intros i Hi; lia|]. destruct Hk as [A B]. split; [exact A|]. rewrite B. lia.
    - apply Z.eqb_neq in E0. assert (Hpc1 : 1 <= pc <= n) by lia. assert (Hn : 1 <= n) by lia.
      destruct (Z.eqb kind 0) eqn:Ek.
      + (* round_robin *)
        pose proof (Z.mod_pos_bound pc n ltac:(lia)) as Hmod.
        destruct Hs as [Hlen Hs'].
        destruct (fst (fl_get s (pc mod n))) eqn:Ef; cbn [fst snd].
        * split; [reflexivity|]. unfold PInv. cbn [ts_pc ts_local snd]. right. right. split; [lia|].
          intros Hae. destruct (Hs' (pc mod n + 1) ltac:(lia)) as [_ B].
          replace (pc mod n + 1 - 1) with (pc mod n) in B by lia. rewrite (B Hae) in Ef. discriminate.
        * assert (Hthis : ~ AH (pc mod n + 1)).
          { intros Hah. destruct (Hs' (pc mod n + 1) ltac:(lia)) as [A _].
            replace (pc mod n + 1 - 1) with (pc mod n) in A by lia. rewrite (A Hah) in Ef. discriminate. }
          destruct (Z.eqb pc n) eqn:En; cbn [fst snd].
          -- apply Z.eqb_eq in En. subst pc. split; [reflexivity|]. unfold PInv. cbn [ts_pc ts_local snd]. right. left.
             split; [reflexivity|]. intros j Hj Hah.
             destruct (Z.eq_dec j 1) as [->|Hj1].
             ++ apply Hthis. rewrite Z.mod_same by lia. exact Hah.
             ++ apply (Hk (j - 1) ltac:(lia)). rewrite Z.mod_small by lia. replace (j - 1 + 1) with j by lia. exact Hah.
          -- apply Z.eqb_neq in En. split; [reflexivity|]. unfold PInv. cbn [ts_pc ts_local fst snd]. rewrite Ek.
             split; [reflexivity|]. split; [lia|]. split; [right; lia|]. intros i Hi.
             destruct (Z.eq_dec i pc) as [->|Hne]; [exact Hthis|apply Hk; lia].
      + (* the strategies that read every flag once, in pool order *)
        destruct Hk as [Hsn Hlen]. assert (Hl : zlen snap = pc - 1) by lia.
        assert (Hsn' : SnapOK (snap ++ [fst (fl_get s (pc - 1))])).
        { apply (snap_ok_snoc snap _ s Hs Hsn); [lia|rewrite Hl; reflexivity]. }
        assert (Hlen' : zlen (snap ++ [fst (fl_get s (pc - 1))]) = pc).
        { unfold zlen in *. rewrite app_length. cbn [length]. lia. }
        destruct (Z.eqb pc n) eqn:En; cbn [fst snd].
        * apply Z.eqb_eq in En. split; [reflexivity|]. unfold PInv. cbn [ts_pc ts_local snd].
          set (snap' := snap ++ [fst (fl_get s (pc - 1))]) in *.
          destruct (pick_on_snapshot_spec kind snap' client ltac:(lia)) as [R0 R1]. cbn zeta in R0, R1.
          destruct (Z.eq_dec (pick_on_snapshot kind snap' client) 0) as [Ez|Enz].
          -- right. left. split; [exact Ez|]. intros j Hj Hah.
             assert (Hk' : (Z.to_nat (j - 1) < length snap')%nat) by (unfold zlen in Hlen'; lia).
             destruct (Hsn' _ Hk') as [A _]. rewrite (R0 Ez _ Hk') in A.
             replace (1 + Z.of_nat (Z.to_nat (j - 1))) with j in A by lia. specialize (A Hah). discriminate.
          -- right. right. destruct (R1 Enz) as (k & Hk' & Er & Ht). rewrite Er.
             split; [unfold zlen in Hlen'; lia|]. intros Hae. destruct (Hsn' _ Hk') as [_ B]. rewrite (B Hae) in Ht. discriminate.
        * apply Z.eqb_neq in En. split; [reflexivity|]. unfold PInv. cbn [ts_pc ts_local fst snd]. rewrite Ek.
          split; [reflexivity|]. split; [lia|]. split; [right; lia|]. split; [exact Hsn'|]. rewrite Hlen'. lia.
  Qed.

  Lemma nth_error_map_some {A B} (f : A -> B) l i y : nth_error (map f l) i = Some y -> exists x, nth_error l i = Some x /\ y = f x.
  Proof. revert i; induction l as [|x t IH]; intros [|i] H; cbn in *; try discriminate; [injection H as <-; eauto|eauto]. Qed.

  Lemma Q_step i th st pc s ts :
    nth_error (map (s4_thread kind n client) kinds) i = Some th -> nth_error ts i = Some st -> ts_pc st = Some pc -> Q s ts ->
    Q (fst (fst (t_step _ _ th s (ts_local st) pc)))
      (nth_upd i (fun _ => mkTS (snd (fst (t_step _ _ th s (ts_local st) pc))) (snd (t_step _ _ th s (ts_local st) pc))) ts).
  Proof.
    intros Hth Hst Hpc (Hs & Hlen & Hts). apply nth_error_map_some in Hth as (k & Hk & ->).
    pose proof (nth_error_In _ _ Hk) as Hin. unfold s4_thread.
    destruct (Z.eqb k 0) eqn:E0.
    - (* a picker *)
      pose proof (Hts i k st Hk Hst) as Ht. unfold TInv in Ht. rewrite E0 in Ht.
      destruct (picker_step st pc s Hpc Hs Ht) as [Es Hp]. rewrite Es.
      split; [exact Hs|]. split; [rewrite nth_upd_length; exact Hlen|].
      intros j k' st' Hk' Hst'. destruct (Nat.eq_dec i j) as [<-|Hij].
      + rewrite (nth_upd_same _ _ _ _ Hst) in Hst'. injection Hst' as <-. rewrite Hk in Hk'. injection Hk' as <-.
        unfold TInv. rewrite E0. exact Hp.
      + rewrite nth_upd_other in Hst' by exact Hij. apply (Hts j k' st' Hk' Hst').
    - (* an ejector or a healer: the picker states are untouched, the shared invariant is kept *)
      apply Z.eqb_neq in E0. destruct (Hkinds k Hin) as [->|[Hk1|Hk2]]; [lia| |].
      + assert (E : (k <? 20) = true) by lia. rewrite E. unfold flip_ejector. cbn [t_step fst snd].
        split; [apply ejector_SInv; assumption|]. split; [rewrite nth_upd_length; exact Hlen|].
        intros j k' st' Hk' Hst'. destruct (Nat.eq_dec i j) as [<-|Hij].
        * rewrite Hk in Hk'. injection Hk' as <-. unfold TInv. replace (Z.eqb k 0) with false by (symmetry; apply Z.eqb_neq; lia). exact I.
        * rewrite nth_upd_other in Hst' by exact Hij. apply (Hts j k' st' Hk' Hst').
      + assert (E : (k <? 20) = false) by lia. rewrite E. unfold flip_healer. cbn [t_step].
        assert (Hrest : forall s', SInv s' -> forall l' nx,
                  Q s' (nth_upd i (fun _ => mkTS l' nx) ts)).
        { intros s' Hs' l' nx. split; [exact Hs'|]. split; [rewrite nth_upd_length; exact Hlen|].
          intros j k' st' Hk' Hst'. destruct (Nat.eq_dec i j) as [<-|Hij].
          - rewrite Hk in Hk'. injection Hk' as <-. unfold TInv. replace (Z.eqb k 0) with false by (symmetry; apply Z.eqb_neq; lia). exact I.
          - rewrite nth_upd_other in Hst' by exact Hij. apply (Hts j k' st' Hk' Hst'). }
        destruct (fl_get s (k - 21)) as [f fr] eqn:Eg.
        destruct (Z.eqb pc 0); destruct (negb f && negb fr); cbn [fst snd]; try (apply Hrest; exact Hs).
        apply Hrest. apply healer_SInv; assumption.
  Qed.

  Lemma SInv_init : (forall v, In v init -> v = 0 \/ v = 1) -> SInv (map (fun i => (Z.eqb i 1, false)) init).
  Proof.
    intros Hv. split; [unfold zlen; rewrite map_length; reflexivity|].
    intros j Hj. unfold fl_get.
    assert (Hlt : (Z.to_nat (j - 1) < length init)%nat) by (unfold n, zlen in Hj; lia).
    rewrite (nth_map_lt _ _ _ _ 0 Hlt). cbn [fst]. split.
    - intros Hah. unfold AH, always_healthy in Hah. apply andb_prop in Hah as [Hi _].
      exact Hi.
    - intros Hae. unfold AE, always_ejected in Hae. apply andb_prop in Hae as [Hi _].
      rewrite (nth_indep _ 1 0) in Hi by exact Hlt. apply Z.eqb_eq in Hi. rewrite Hi. reflexivity.
  Qed.

  Theorem s4_invariant sched : (forall v, In v init -> v = 0 \/ v = 1) ->
    let ths := map (s4_thread kind n client) kinds in
    let ts0 := map (fun _ : Z => mkTS (([] : list bool), -1) (Some 0)) kinds in
    let s0 := map (fun i => (Z.eqb i 1, false)) init in
    Q (fst (fst (run_sched ths s0 ts0 sched []))) (snd (fst (run_sched ths s0 ts0 sched []))).
  Proof.
    intros Hv ths ts0 s0. apply (run_sched_joint Q).
    - intros i th st pc s ts Hth Hst Hpc Hq. apply Q_step; assumption.
    - split; [apply SInv_init; exact Hv|]. split; [subst ts0; rewrite map_length; reflexivity|].
      intros i k st Hk Hst. subst ts0. apply nth_error_map_some in Hst as (k' & _ & ->).
      unfold TInv. destruct (Z.eqb k 0); [|exact I]. unfold PInv. cbn [ts_pc ts_local fst snd].
      assert (0 <= n) by (unfold n, zlen; lia).
      split; [reflexivity|]. split; [lia|]. split; [left; reflexivity|].
      destruct (Z.eqb kind 0); [intros i' Hi'; lia|]. split; [intros k0 Hk0; cbn in Hk0; lia|reflexivity].
  Qed.
End S4.

(* the statement on the observables, as the evaluator checks it on the implementation (Conc.res_ok) *)
Theorem s4_all_schedules kind client init kinds sched :
  zlen init < 2147483648 -> (forall v, In v init -> v = 0 \/ v = 1) ->
  (forall k, In k kinds -> k = 0 \/ (11 <= k < 20) \/ 21 <= k) ->
  let ths := map (s4_thread kind (zlen init) client) kinds in
  let ts0 := map (fun _ : Z => mkTS (([] : list bool), -1) (Some 0)) kinds in
  let s0 := map (fun i => (Z.eqb i 1, false)) init in
  let ts := snd (fst (run_sched ths s0 ts0 sched [])) in
  forall i st, nth_error kinds i = Some 0 -> nth_error ts i = Some st -> ts_pc st = None ->
    res_ok init kinds (snd (ts_local st)) = true.
Proof.
  intros Hsmall Hv Hk ths ts0 s0 ts i st Hi Hst Hdone.
  destruct (s4_invariant kind client init kinds Hsmall Hk sched Hv) as (_ & _ & Hts).
  specialize (Hts i 0 st Hi Hst). unfold TInv in Hts. cbn in Hts. unfold PInv in Hts. rewrite Hdone in Hts.
  unfold res_ok. destruct Hts as [E|[[E Hno]|[Hr Hne]]].
  - rewrite E. reflexivity.
  - rewrite E. cbn [Z.eqb orb]. apply negb_true_iff. apply not_true_is_false. intros Hex.
    apply existsb_exists in Hex as (j & Hj & Hah). apply in_map_iff in Hj as (k & <- & Hk').
    apply in_seq in Hk'. apply (Hno (Z.of_nat k)); [unfold zlen; lia|exact Hah].
  - replace (Z.eqb (snd (ts_local st)) 0) with false by (symmetry; apply Z.eqb_neq; lia).
    replace (Z.eqb (snd (ts_local st)) (-1)) with false by (symmetry; apply Z.eqb_neq; lia). cbn [orb].
    apply andb_true_intro. split; [apply andb_true_intro; split; lia|].
    apply negb_true_iff. apply not_true_is_false. exact Hne.
Qed.
