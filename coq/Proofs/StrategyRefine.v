(* Route T for C05 / C02: the selection loops of round_robin, least_connections and weighted_round_robin as go2coq regenerates
   them from the source (Gen/StrategyGen.v: loops over slice indices, pointers into the slice as indices) compute what the
   hand-written models of Model/Strategy.v compute (rr_pick, lc_pick, wrr_pick), on which the C05 and C02 theorems are proved.
   Each proof first characterises one iteration of the generated loop body (by computation), then runs the loop by induction. *)
From Helios Require Import Base.Prelude Base.Wrap Model.Hash Model.Strategy Proofs.StrategyProofs Gen.StrategyGen.

Local Arguments Z.add : simpl never.
Local Arguments Z.sub : simpl never.
Local Arguments zlen : simpl never.
Local Arguments wrap_u64 : simpl never.

Definition at_idx (pool : list backend) (oi : option nat) : option backend := option_map (fun j => nth j pool dB) oi.

Lemma nth_app_here {A} (pre : list A) a t d : nth (length pre) (pre ++ a :: t) d = a.
Proof. rewrite app_nth2 by lia. rewrite Nat.sub_diag. reflexivity. Qed.

Lemma app_snoc_cons {A} (pre : list A) a t : (pre ++ [a]) ++ t = pre ++ a :: t.
Proof. rewrite <- app_assoc. reflexivity. Qed.

(* ------------------------------------------------------------------------------------------ *)
(* least connections *)
Section LC.
  Variable body : nat -> list backend * Z * (option nat * Z * unit) -> (option nat * (list backend * Z)) + (list backend * Z * (option nat * Z * unit)).
  Hypothesis Hbody : forall i pool ctr minc sel,
    body i (pool, ctr, (sel, minc, tt))
    = inr (pool, ctr, (if bflag (nth i pool dB) && (bactive (nth i pool dB) <? minc) then (Some i, bactive (nth i pool dB), tt) else (sel, minc, tt))).

  Lemma lc_loop l : forall pre minc sel ctr,
    exists minc' sel',
      loop_idx (seq (length pre) (length l)) (pre ++ l, ctr, (sel, minc, tt)) body = inr (pre ++ l, ctr, (sel', minc', tt))
      /\ at_idx (pre ++ l) sel' = lc_scan (at_idx (pre ++ l) sel) minc l.
  Proof.
    induction l as [|a t IH]; intros pre minc sel ctr; cbn [length seq loop_idx lc_scan].
    - exists minc, sel. split; reflexivity.
    - rewrite Hbody, nth_app_here.
      destruct (IH (pre ++ [a]) (if bflag a && (bactive a <? minc) then bactive a else minc)
                   (if bflag a && (bactive a <? minc) then Some (length pre) else sel) ctr) as (m' & s' & E & Hs).
      rewrite app_snoc_cons in E, Hs. rewrite app_length in E. cbn [length] in E. rewrite Nat.add_1_r in E.
      exists m', s'. split.
      + destruct (bflag a && (bactive a <? minc)); exact E.
      + rewrite Hs. destruct (bflag a && (bactive a <? minc)); [|reflexivity].
        unfold at_idx at 1. cbn [option_map]. rewrite nth_app_here. reflexivity.
  Qed.
End LC.

Theorem lc_is_source pool ctr :
  at_idx pool (fst (sg_lc_next pool ctr)) = lc_pick pool /\ snd (sg_lc_next pool ctr) = (pool, ctr).
Proof.
  unfold sg_lc_next, lc_pick. destruct pool as [|b0 t0] eqn:Ep; [cbn; split; reflexivity|]. rewrite <- Ep.
  assert (Hz : (zlen pool =? 0) = false) by (subst pool; reflexivity). rewrite Hz.
  match goal with |- context [loop_idx _ _ ?b] => set (body := b) end.
  assert (Hbody : forall i pool ctr minc sel,
    body i (pool, ctr, (sel, minc, tt))
    = inr (pool, ctr, (if bflag (nth i pool dB) && (bactive (nth i pool dB) <? minc) then (Some i, bactive (nth i pool dB), tt) else (sel, minc, tt)))).
  { intros i p c m s. unfold body. destruct (bflag (nth i p dB)); cbn [negb andb]; [|reflexivity]. destruct (bactive (nth i p dB) <? m); reflexivity. }
  destruct (lc_loop body Hbody pool [] 2147483647 None ctr) as (m' & s' & E & Hs). cbn [app length] in E, Hs.
  rewrite E. cbn [fst snd]. split; [exact Hs|reflexivity].
Qed.

(* ------------------------------------------------------------------------------------------ *)
(* round robin *)
Section RR.
  Variable body : nat -> list backend * Z * (Z * unit) -> (option nat * (list backend * Z)) + (list backend * Z * (Z * unit)).
  Hypothesis Hbody : forall i pool ctr n,
    body i (pool, ctr, (n, tt))
    = let c := wrap_u64 (ctr + 1) in
      if bflag (nth (Z.to_nat (c mod n)) pool dB) then inl (Some (Z.to_nat (c mod n)), (pool, c)) else inr (pool, c, (n, tt)).

  Lemma nthZ_nth pool i : 0 <= i < zlen pool -> nthZ pool i = Some (nth (Z.to_nat i) pool dB).
  Proof.
    intros H. unfold nthZ. destruct (i <? 0) eqn:E; [lia|]. apply nth_error_nth'. unfold zlen in H. lia.
  Qed.

  Lemma rr_loop pool : pool <> [] -> forall fuel k ctr,
    match loop_idx (seq k fuel) (pool, ctr, (zlen pool, tt)) body with
    | inl (oi, (p', c')) => p' = pool /\ (at_idx pool oi, c') = rr_scan fuel pool ctr
    | inr (p', c', _) => p' = pool /\ rr_scan fuel pool ctr = (None, c')
    end.
  Proof.
    intros Hne. assert (Hn : 0 < zlen pool) by (destruct pool; [congruence|unfold zlen; cbn [length]; lia]).
    induction fuel as [|f IH]; intros k ctr; cbn [seq loop_idx rr_scan]; [split; reflexivity|].
    rewrite Hbody. cbn zeta. set (c := wrap_u64 (ctr + 1)).
    pose proof (Z.mod_pos_bound c (zlen pool) Hn) as Hb. rewrite (nthZ_nth pool _ Hb).
    destruct (bflag (nth (Z.to_nat (c mod zlen pool)) pool dB)); [split; reflexivity|]. apply IH.
  Qed.
End RR.

Theorem rr_is_source pool ctr :
  (at_idx pool (fst (sg_rr_next pool ctr)), snd (snd (sg_rr_next pool ctr))) = rr_pick pool ctr
  /\ fst (snd (sg_rr_next pool ctr)) = pool.
Proof.
  unfold sg_rr_next, rr_pick. destruct pool as [|b0 t0] eqn:Ep; [cbn; split; reflexivity|]. rewrite <- Ep.
  assert (Hne : pool <> []) by (subst pool; discriminate).
  assert (Hz : (zlen pool =? 0) = false) by (subst pool; reflexivity). rewrite Hz. cbn zeta.
  match goal with |- context [loop_idx _ _ ?b] => set (body := b) end.
  assert (Hbody : forall i pool ctr n,
    body i (pool, ctr, (n, tt))
    = let c := wrap_u64 (ctr + 1) in
      if bflag (nth (Z.to_nat (c mod n)) pool dB) then inl (Some (Z.to_nat (c mod n)), (pool, c)) else inr (pool, c, (n, tt))).
  { intros i p c n. unfold body. cbn zeta. unfold pget. destruct (bflag (nth (Z.to_nat (wrap_u64 (c + 1) mod n)) p dB)); reflexivity. }
  replace (Z.to_nat (zlen pool)) with (length pool) by (unfold zlen; lia).
  pose proof (rr_loop body Hbody pool Hne (length pool) 0%nat ctr) as H.
  destruct (loop_idx (seq 0 (length pool)) (pool, ctr, (zlen pool, tt)) body) as [[oi [p' c']]|[[p' c'] u]]; cbn [fst snd].
  - destruct H as [-> H]. split; [exact H|reflexivity].
  - destruct H as [-> H]. rewrite H. destruct u as [n []]. split; reflexivity.
Qed.

(* ------------------------------------------------------------------------------------------ *)
(* smooth weighted round robin *)
Definition bump (b : backend) : backend := if bflag b then set_cw (bcw b + bweight b) b else b.

Lemma bump_static b : bid (bump b) = bid b /\ bflag (bump b) = bflag b /\ bweight (bump b) = bweight b.
Proof. unfold bump. destruct (bflag b) eqn:E; cbn; auto. Qed.

Lemma upd_nth_app_here {A} (f : A -> A) (pre : list A) a t : upd_nth (length pre) f (pre ++ a :: t) = pre ++ f a :: t.
Proof. induction pre as [|x p IH]; cbn [length app upd_nth]; [reflexivity|]. rewrite IH. reflexivity. Qed.

Section WRR.
  Variable body : nat -> list backend * Z * (Z * option nat * unit) -> (option nat * (list backend * Z)) + (list backend * Z * (Z * option nat * unit)).
  Hypothesis Hbody : forall i pool ctr best total,
    body i (pool, ctr, (total, best, tt))
    = let b := nth i pool dB in
      if bflag b then
        let pool' := upd_nth i (set_cw (bcw b + bweight b)) pool in
        inr (pool', ctr,
             (total + bweight b,
              (if (match best with None => true | Some _ => false end) || (bcw (pget best pool') <? bcw (nth i pool' dB)) then Some i else best), tt))
      else inr (pool, ctr, (total, best, tt)).

  Lemma wrr_loop l : forall P best total ctr,
    (forall j, best = Some j -> (j < length P)%nat) ->
    exists best',
      loop_idx (seq (length P) (length l)) (P ++ l, ctr, (total, best, tt)) body
      = inr (P ++ map bump l, ctr, (total + wrr_total l, best', tt))
      /\ at_idx (P ++ map bump l) best' = wrr_best (at_idx P best) (map bump l)
      /\ (forall j, best' = Some j -> (j < length P + length l)%nat).
  Proof.
    induction l as [|a t IH]; intros P best total ctr Hb; cbn [length seq loop_idx map wrr_total wrr_best].
    - exists best. rewrite app_nil_r, Z.add_0_r. split; [reflexivity|]. split; [|intros j Hj; specialize (Hb j Hj); lia].
      destruct best as [j|]; [|reflexivity]. reflexivity.
    - rewrite Hbody. cbn zeta. rewrite nth_app_here.
      destruct (bflag a) eqn:Ef.
      + (* eligible: bumped, counted, compared with the best so far *)
        rewrite upd_nth_app_here, nth_app_here.
        assert (Eb : bump a = set_cw (bcw a + bweight a) a) by (unfold bump; rewrite Ef; reflexivity). rewrite <- Eb.
        assert (Hfb : bflag (bump a) = true) by (rewrite (proj1 (proj2 (bump_static a))); exact Ef). rewrite Hfb.
        set (nb := if (match best with None => true | Some _ => false end) || (bcw (pget best (P ++ bump a :: t)) <? bcw (bump a))
                   then Some (length P) else best).
        assert (Hnb : forall j, nb = Some j -> (j < length (P ++ [bump a]))%nat).
        { intros j Hj. rewrite app_length. cbn [length]. unfold nb in Hj.
          destruct ((match best with None => true | Some _ => false end) || (bcw (pget best (P ++ bump a :: t)) <? bcw (bump a)));
            [injection Hj as <-; lia|specialize (Hb j Hj); lia]. }
        destruct (IH (P ++ [bump a]) nb (total + bweight a) ctr Hnb) as (b' & E & Hs & Hlt).
        rewrite (app_snoc_cons P (bump a) t), (app_snoc_cons P (bump a) (map bump t)) in E. rewrite (app_snoc_cons P (bump a) (map bump t)) in Hs. rewrite app_length in E, Hlt. cbn [length] in E, Hlt. rewrite Nat.add_1_r in E.
        exists b'. split; [rewrite E, Z.add_assoc; reflexivity|]. split; [|intros j Hj; specialize (Hlt j Hj); lia].
        rewrite Hs.
        (* the accumulator of the model is the element the index points to *)
        unfold nb. destruct best as [j|]; cbn [orb]; unfold at_idx; cbn [option_map].
        * assert (Hj : (j < length P)%nat) by (apply Hb; reflexivity).
          unfold pget. rewrite (app_nth1 P (bump a :: t) dB Hj).
          destruct (bcw (nth j P dB) <? bcw (bump a)); cbn [option_map].
          -- rewrite nth_app_here. reflexivity.
          -- rewrite (app_nth1 P [bump a] dB Hj). reflexivity.
        * rewrite nth_app_here. reflexivity.
      + (* not eligible: untouched *)
        assert (Eb : bump a = a) by (unfold bump; rewrite Ef; reflexivity). rewrite Eb, Ef.
        assert (Hb' : forall j, best = Some j -> (j < length (P ++ [a]))%nat) by (intros j Hj; specialize (Hb j Hj); rewrite app_length; cbn [length]; lia).
        destruct (IH (P ++ [a]) best total ctr Hb') as (b' & E & Hs & Hlt).
        rewrite (app_snoc_cons P a t), (app_snoc_cons P a (map bump t)) in E. rewrite (app_snoc_cons P a (map bump t)) in Hs. rewrite app_length in E, Hlt. cbn [length] in E, Hlt. rewrite Nat.add_1_r in E.
        exists b'. split; [rewrite E, Z.add_0_l; reflexivity|]. split; [|intros j Hj; specialize (Hlt j Hj); lia].
        rewrite Hs. f_equal. destruct best as [j|]; [|reflexivity]. unfold at_idx. cbn [option_map].
        rewrite (app_nth1 P [a] dB (Hb j eq_refl)). reflexivity.
  Qed.
End WRR.

Lemma upd_nth_upd_id f (l : list backend) j :
  NoDup (map bid l) -> (j < length l)%nat -> (forall b, bid (f b) = bid b) ->
  upd_nth j f l = upd_id (bid (nth j l dB)) f l.
Proof.
  unfold upd_id. revert j. induction l as [|a t IH]; intros j Hnd Hj Hf; [cbn in Hj; lia|].
  cbn [map] in Hnd. inversion Hnd as [|? ? Hni Hnd']; subst. destruct j as [|j]; cbn [upd_nth nth map].
  - rewrite Z.eqb_refl. f_equal. transitivity (map (fun b : backend => b) t); [symmetry; apply map_id|].
    apply map_ext_in. intros b Hb. destruct (Z.eqb (bid b) (bid a)) eqn:E; [|reflexivity].
    apply Z.eqb_eq in E. exfalso. apply Hni. rewrite <- E. apply in_map. exact Hb.
  - cbn [length] in Hj. assert (Hin : In (nth j t dB) t) by (apply nth_In; lia).
    destruct (Z.eqb (bid a) (bid (nth j t dB))) eqn:E.
    + apply Z.eqb_eq in E. exfalso. apply Hni. rewrite E. apply in_map. exact Hin.
    + f_equal. apply IH; [exact Hnd'|lia|exact Hf].
Qed.

Theorem wrr_is_source pool ctr :
  NoDup (map bid pool) ->
  fst (snd (sg_wrr_next pool ctr)) = snd (wrr_pick pool)
  /\ option_map (fun j => bid (nth j pool dB)) (fst (sg_wrr_next pool ctr)) = option_map bid (fst (wrr_pick pool))
  /\ snd (snd (sg_wrr_next pool ctr)) = ctr.
Proof.
  intros Hnd. unfold sg_wrr_next, wrr_pick. change (wrr_bump pool) with (map bump pool).
  destruct pool as [|b0 t0] eqn:Ep; [cbn; auto|]. rewrite <- Ep in *.
  assert (Hz : (zlen pool =? 0) = false) by (subst pool; reflexivity). rewrite Hz. cbn zeta.
  match goal with |- context [loop_idx _ _ ?b] => set (body := b) end.
  assert (Hbody : forall i pool ctr best total,
    body i (pool, ctr, (total, best, tt))
    = let b := nth i pool dB in
      if bflag b then
        let pool' := upd_nth i (set_cw (bcw b + bweight b)) pool in
        inr (pool', ctr,
             (total + bweight b,
              (if (match best with None => true | Some _ => false end) || (bcw (pget best pool') <? bcw (nth i pool' dB)) then Some i else best), tt))
      else inr (pool, ctr, (total, best, tt))).
  { intros i p c best total. unfold body. cbn zeta. destruct (bflag (nth i p dB)); [|reflexivity].
    destruct ((match best with None => true | Some _ => false end) || _); reflexivity. }
  destruct (wrr_loop body Hbody pool [] None 0 ctr) as (b' & E & Hs & Hlt); [intros j Hj; discriminate|].
  cbn [app length] in E, Hs, Hlt. rewrite E. cbn [at_idx option_map] in Hs. rewrite Z.add_0_l.
  destruct b' as [j|]; cbn [at_idx option_map] in Hs.
  - rewrite <- Hs. cbn [fst snd option_map]. specialize (Hlt j eq_refl). cbn [pget].
    assert (Hjl : (j < length (map bump pool))%nat) by (rewrite map_length; exact Hlt).
    assert (Hnd' : NoDup (map bid (map bump pool))).
    { rewrite map_map. rewrite (map_ext (fun x => bid (bump x)) bid) by (intros x; apply bump_static). exact Hnd. }
    split; [apply upd_nth_upd_id; [exact Hnd'|exact Hjl|intros b; reflexivity]|]. split; [|reflexivity].
    f_equal. change dB with (bump dB) at 2. rewrite map_nth. symmetry. apply bump_static.
  - rewrite <- Hs. cbn [fst snd option_map]. auto.
Qed.
