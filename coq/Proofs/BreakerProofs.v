(* Proofs about Model/Breaker.v: reachable-state invariant, block-while-open, bounded trials,
   close/re-open rules, tripping, and recovery (liveness). *)
From Helios Require Import Base.Prelude Model.Breaker.

Local Arguments Z.add : simpl never.
Local Arguments Z.sub : simpl never.
Local Arguments Z.mul : simpl never.

Fixpoint count_ep (e : Z) (l : list (Z * Z)) : Z :=
  match l with [] => 0 | (_, e') :: t => (if Z.eqb e' e then 1 else 0) + count_ep e t end.

Lemma count_ep_nonneg e l : 0 <= count_ep e l.
Proof. induction l as [|[r e'] t IH]; cbn [count_ep]; [lia|]. destruct (Z.eqb e' e); lia. Qed.

Lemma count_ep_remove e rid l : count_ep e l - 1 <= count_ep e (remove_rid rid l) <= count_ep e l.
Proof.
  induction l as [|[r e'] t IH]; cbn [count_ep remove_rid]; [lia|].
  destruct (Z.eqb r rid); cbn [count_ep]; destruct (Z.eqb e' e); lia.
Qed.

Lemma count_ep_fresh e l : Forall (fun p => snd p < e) l -> count_ep e l = 0.
Proof.
  induction 1 as [|[r e'] t H Ht IH]; cbn [count_ep]; [reflexivity|]. cbn [snd] in H.
  assert (E : Z.eqb e' e = false) by lia. rewrite E. lia.
Qed.

Lemma Forall_remove_rid (P : Z * Z -> Prop) rid l : Forall P l -> Forall P (remove_rid rid l).
Proof.
  induction 1 as [|[r e'] t H Ht IH]; cbn [remove_rid]; [constructor|].
  destruct (Z.eqb r rid); [exact Ht | constructor; auto].
Qed.

Record BInv (cfg : bcfg) (s : bstate) : Prop := {
  i_fc : 0 <= fc s;
  i_sc : 0 <= sc s;
  i_rc : 0 <= rc s;
  i_lf : match lastFail s with Some lf => lf <= bnow s | None => True end;
  i_ep : 0 <= ep s;
  i_pend : Forall (fun p => snd p <= ep s) (pend s);
  i_half : st s = HalfOpen ->
           rc s = g_trials s /\ sc s = g_succ s /\ 1 <= rc s <= maxReq cfg /\ sc s < sthr cfg
           /\ rc s <= sc s + count_ep (ep s) (pend s) /\ 1 <= ep s;
  i_open : st s = Open -> nextAttempt s <= bnow s + btimeout cfg;
  i_closed : st s = Closed -> fc s < fthr cfg
}.

Lemma binit_inv cfg t0 : bwf_cfg cfg -> BInv cfg (binit t0).
Proof. intros (Hm & Hi & Ht & Hf & Hs). constructor; cbn; try lia; try discriminate; auto. Qed.

Lemma begin_inv cfg s rid : bwf_cfg cfg -> BInv cfg s -> BInv cfg (fst (begin cfg s rid)).
Proof.
  intros (Hm & Hi & Ht & Hf & Hs) Hi0. pose proof Hi0 as [H1 H2 H3 H4 H5 H6 H7 H8 H9]. unfold begin.
  destruct (st s) eqn:Est.
  - cbn [fst]. specialize (H9 eq_refl). constructor; cbn; try lia; try discriminate; auto;
      try (intros; destruct (lastFail s) as [lf|]; [destruct (lf + interval cfg <? bnow s)|]; lia).
  - destruct (nextAttempt s <? bnow s) eqn:En; cbn [fst].
    + constructor; cbn; try lia; try discriminate; auto.
      * constructor; [cbn; lia|]. eapply Forall_impl; [|exact H6]. cbn. intros; lia.
      * intros _. rewrite Z.eqb_refl.
        rewrite (count_ep_fresh (ep s + 1) (pend s)); [lia|].
        eapply Forall_impl; [|exact H6]. cbn. intros; lia.
    + exact Hi0.
  - destruct (maxReq cfg <=? rc s) eqn:Em; cbn [fst].
    + exact Hi0.
    + specialize (H7 eq_refl). constructor; cbn; try lia; try discriminate; auto.
      * constructor; [cbn; lia|exact H6].
      * intros _. rewrite Z.eqb_refl. lia.
Qed.

Lemma finish_inv cfg s rid ok : bwf_cfg cfg -> BInv cfg s -> BInv cfg (finish cfg s rid ok).
Proof.
  intros (Hm & Hi & Ht & Hf & Hs) [H1 H2 H3 H4 H5 H6 H7 H8 H9]. unfold finish, finish0.
  pose proof (count_ep_remove (ep s) rid (pend s)) as Hc.
  destruct ok; destruct (st s) eqn:Est.
  - constructor; cbn; rewrite ?Est; try lia; try discriminate; auto using Forall_remove_rid.
  - constructor; cbn; rewrite ?Est; try lia; try discriminate; auto using Forall_remove_rid.
  - specialize (H7 eq_refl).
    destruct (sthr cfg <=? sc s + 1) eqn:E; constructor; cbn; try lia; try discriminate; auto using Forall_remove_rid;
      try (intros _; lia).
  - destruct (fthr cfg <=? fc s + 1) eqn:E; constructor; cbn; try lia; try discriminate; auto using Forall_remove_rid.
  - constructor; cbn; try lia; try discriminate; auto using Forall_remove_rid;
      try (intros _; specialize (H8 eq_refl); lia).
  - constructor; cbn; try lia; try discriminate; auto using Forall_remove_rid.
Qed.

Lemma advance_inv cfg s dt : 0 <= dt -> BInv cfg s -> BInv cfg (advance s dt).
Proof.
  intros Hd [H1 H2 H3 H4 H5 H6 H7 H8 H9]. constructor; cbn; try lia; auto;
    try (destruct (lastFail s); lia); try (intros E; specialize (H8 E); lia).
Qed.

Lemma bstep_inv cfg s o : bwf_cfg cfg -> bop_wf o -> BInv cfg s -> BInv cfg (fst (bstep cfg s o)).
Proof.
  intros Hw Ho Hi. destruct o as [rid|rid ok|dt]; cbn [bstep].
  - pose proof (begin_inv cfg s rid Hw Hi). destruct (begin cfg s rid). exact H.
  - cbn [fst]. apply finish_inv; auto.
  - cbn [fst]. apply advance_inv; auto.
Qed.

Lemma brun_inv cfg ops : forall s, bwf_cfg cfg -> Forall bop_wf ops -> BInv cfg s -> BInv cfg (fst (brun cfg s ops)).
Proof.
  induction ops as [|o t IH]; intros s Hw Hf Hi; cbn [brun fst]; [exact Hi|].
  inversion Hf as [|? ? Ho Ht]; subst.
  pose proof (bstep_inv cfg s o Hw Ho Hi) as H1.
  destruct (bstep cfg s o) as [s1 o1]. cbn [fst] in H1.
  specialize (IH s1 Hw Ht H1). destruct (brun cfg s1 t) as [s2 o2]. exact IH.
Qed.

(* ------------------------------------------------------------------------------------------ *)
(* Safety                                                                                      *)

(* While open and the timeout has not elapsed, every request is rejected, nothing changes. *)
Lemma block_while_open cfg s rid :
  st s = Open -> bnow s <= nextAttempt s -> begin cfg s rid = (s, 1).
Proof. intros Est Hn. unfold begin. rewrite Est. assert (E : (nextAttempt s <? bnow s) = false) by lia. rewrite E. reflexivity. Qed.

(* Open from a trip at time t0 stays blocking throughout [t0, t0 + timeout]. *)
Lemma trip_sets_deadline cfg s rid :
  st s <> Open -> st (finish cfg s rid false) = Open ->
  nextAttempt (finish cfg s rid false) = bnow s + btimeout cfg.
Proof.
  unfold finish, finish0. destruct (st s) eqn:E; cbn; intros Hn Ho; try congruence.
  destruct (fthr cfg <=? fc s + 1); cbn in *; [reflexivity|discriminate].
Qed.

(* In every reachable half-open state the number of admitted trials of the episode is <= max. *)
Lemma trials_bounded cfg s : BInv cfg s -> st s = HalfOpen -> g_trials s <= maxReq cfg.
Proof. intros Hi E. destruct (i_half cfg s Hi E) as (E1 & _ & H & _). lia. Qed.

(* half-open -> closed happens exactly at the success that reaches the threshold;
   any failure in half-open re-opens with a fresh deadline *)
Lemma close_rule cfg s rid :
  st s = HalfOpen ->
  (st (finish cfg s rid true) = Closed <-> sthr cfg <= sc s + 1)
  /\ (st (finish cfg s rid true) = Closed \/ st (finish cfg s rid true) = HalfOpen).
Proof.
  intros E. unfold finish, finish0. rewrite E. cbn.
  destruct (sthr cfg <=? sc s + 1) eqn:E1; cbn; split; try (split; intros; try lia; try discriminate; reflexivity); auto.
Qed.

Lemma reopen_rule cfg s rid :
  st s = HalfOpen ->
  st (finish cfg s rid false) = Open /\ nextAttempt (finish cfg s rid false) = bnow s + btimeout cfg.
Proof. intros E. unfold finish, finish0. rewrite E. cbn. split; reflexivity. Qed.

Lemma only_end_closes cfg s o :
  st s = HalfOpen -> st (fst (bstep cfg s o)) = Closed -> exists rid, o = BEnd rid true /\ sthr cfg <= sc s + 1.
Proof.
  intros E Hc. destruct o as [rid|rid ok|dt]; cbn [bstep] in Hc.
  - unfold begin in Hc. rewrite E in Hc. destruct (maxReq cfg <=? rc s); cbn in Hc; congruence.
  - cbn [fst] in Hc. destruct ok.
    + exists rid. split; [reflexivity|]. apply (proj1 (close_rule cfg s rid E)). exact Hc.
    + rewrite (proj1 (reopen_rule cfg s rid E)) in Hc. discriminate.
  - cbn in Hc. congruence.
Qed.

(* ------------------------------------------------------------------------------------------ *)
(* Tripping: fthr failures with consecutive gaps <= interval open the breaker.                 *)

(* sequential history: complete requests and time steps *)
Inductive sop := SExec (rid : Z) (ok : bool) | SAdv (dt : Z).

Definition sstep (cfg : bcfg) (s : bstate) (o : sop) : bstate :=
  match o with
  | SExec rid ok => fst (exec cfg s rid ok)
  | SAdv dt => advance s dt
  end.

Fixpoint srun (cfg : bcfg) (s : bstate) (ops : list sop) : bstate :=
  match ops with [] => s | o :: t => srun cfg (sstep cfg s o) t end.

Fixpoint fails (ops : list sop) : Z :=
  match ops with [] => 0 | SExec _ false :: t => 1 + fails t | _ :: t => fails t end.

(* g = time since the previous failure of the chain (None before the first one) *)
Fixpoint gaps_ok (intv : Z) (g : option Z) (ops : list sop) : Prop :=
  match ops with
  | [] => True
  | SAdv dt :: t => 0 <= dt /\ gaps_ok intv (option_map (fun x => x + dt) g) t
  | SExec _ true :: t => gaps_ok intv g t
  | SExec _ false :: t => match g with Some x => x <= intv | None => True end /\ gaps_ok intv (Some 0) t
  end.

Fixpoint opened (cfg : bcfg) (s : bstate) (ops : list sop) : Prop :=
  match ops with
  | [] => st s = Open
  | o :: t => st s = Open \/ opened cfg (sstep cfg s o) t
  end.

Lemma opened_now cfg s ops : st s = Open -> opened cfg s ops.
Proof. destruct ops; cbn; auto. Qed.

Lemma gaps_first intv ops : forall g,
  gaps_ok intv (Some g) ops -> 1 <= fails ops -> g <= intv.
Proof.
  induction ops as [|o t IH]; intros g Hg Hf; cbn [fails gaps_ok] in *; [lia|].
  destruct o as [rid [|]|dt].
  - apply IH; auto.
  - destruct Hg; auto.
  - destruct Hg as [Hd Hg]. cbn [option_map] in Hg. specialize (IH _ Hg Hf). lia.
Qed.

Lemma fails_nonneg ops : 0 <= fails ops.
Proof. induction ops as [|[rid [|]|dt] t IH]; cbn [fails]; lia. Qed.

(* one complete request on a closed breaker *)
Lemma exec_closed cfg s rid ok :
  st s = Closed ->
  let reset := match lastFail s with Some lf => lf + interval cfg <? bnow s | None => false end in
  let fc0 := if reset then 0 else fc s in
  let s' := fst (exec cfg s rid ok) in
  snd (exec cfg s rid ok) = 0 /\ bnow s' = bnow s /\
  (ok = true -> st s' = Closed /\ fc s' = fc0 /\ lastFail s' = lastFail s) /\
  (ok = false -> lastFail s' = Some (bnow s) /\ fc s' = fc0 + 1 /\
                 (st s' = if fthr cfg <=? fc0 + 1 then Open else Closed)).
Proof.
  intros E. unfold exec, begin. rewrite E. cbn [Z.eqb fst snd]. unfold finish, finish0. cbn.
  destruct ok; cbn; repeat split; try discriminate; auto;
    try (intros; destruct (fthr cfg <=? _); reflexivity);
    try (destruct (fthr cfg <=? _); reflexivity).
Qed.

(* chain in progress: the last failure was g ns ago and the count is still standing *)
Lemma trip_chain cfg ops : forall s g,
  st s = Closed -> 1 <= fc s < fthr cfg -> 0 <= g ->
  lastFail s = Some (bnow s - g) ->
  fthr cfg - fc s <= fails ops ->
  gaps_ok (interval cfg) (Some g) ops ->
  opened cfg s ops.
Proof.
  induction ops as [|o t IH]; intros s g Est Hfc Hg Hlf Hneed Hgaps.
  - cbn [fails] in Hneed. lia.
  - cbn [opened]. right.
    pose proof (gaps_first _ _ _ Hgaps ltac:(lia)) as Hgi.
    destruct o as [rid ok|dt]; cbn [sstep].
    + pose proof (exec_closed cfg s rid ok Est) as Hx. cbn zeta in Hx. rewrite Hlf in Hx.
      assert (Er : (bnow s - g + interval cfg <? bnow s) = false) by lia. rewrite Er in Hx.
      destruct Hx as (_ & Hnow & Hok & Hko).
      destruct ok.
      * destruct (Hok eq_refl) as (E1 & E2 & E3). cbn [fails gaps_ok] in *.
        apply (IH _ g); auto; try lia; try (rewrite E3, Hnow; reflexivity); try (rewrite E2; lia).
      * destruct (Hko eq_refl) as (E1 & E2 & E3). cbn [fails gaps_ok] in *. destruct Hgaps as [_ Hgaps].
        destruct (fthr cfg <=? fc s + 1) eqn:Et.
        -- apply opened_now. exact E3.
        -- apply (IH _ 0); auto; try lia; try (rewrite E1, Hnow; f_equal; lia); try (rewrite E2; lia).
    + cbn [fails gaps_ok option_map] in *. destruct Hgaps as [Hd Hgaps].
      apply (IH _ (g + dt)); auto; cbn; try lia; try (rewrite Hlf; f_equal; lia).
Qed.

Theorem trip cfg ops : forall s,
  bwf_cfg cfg -> BInv cfg s -> st s = Closed ->
  fthr cfg <= fails ops -> gaps_ok (interval cfg) None ops ->
  opened cfg s ops.
Proof.
  induction ops as [|o t IH]; intros s Hw Hi Est Hf Hgaps.
  - cbn [fails] in Hf. destruct Hw as (_ & _ & _ & ? & _). lia.
  - cbn [opened]. right.
    assert (Hi' : BInv cfg (sstep cfg s o)).
    { destruct o as [rid ok|dt]; cbn [sstep].
      - unfold exec. pose proof (begin_inv cfg s rid Hw Hi) as Hb.
        destruct (begin cfg s rid) as [s1 code]. cbn [fst] in *.
        destruct (Z.eqb code 0); cbn [fst]; [apply finish_inv; auto|exact Hb].
      - cbn [gaps_ok] in Hgaps. apply advance_inv; [tauto|exact Hi]. }
    destruct o as [rid ok|dt]; cbn [sstep] in *.
    + pose proof (exec_closed cfg s rid ok Est) as Hx. cbn zeta in Hx.
      destruct Hx as (_ & Hnow & Hok & Hko).
      destruct ok.
      * destruct (Hok eq_refl) as (E1 & _ & _). cbn [fails gaps_ok] in *. apply IH; auto.
      * destruct (Hko eq_refl) as (E1 & E2 & E3). cbn [fails gaps_ok] in *. destruct Hgaps as [_ Hgaps].
        set (fc0 := if match lastFail s with Some lf => lf + interval cfg <? bnow s | None => false end then 0 else fc s) in *.
        assert (H0 : 0 <= fc0) by (subst fc0; pose proof (i_fc _ _ Hi); destruct (match lastFail s with Some _ => _ | None => _ end); lia).
        destruct (fthr cfg <=? fc0 + 1) eqn:Et.
        -- apply opened_now. exact E3.
        -- pose proof (fails_nonneg t).
           apply (trip_chain cfg t _ 0); auto; try lia; try (rewrite E1, Hnow; f_equal; lia); try (rewrite E2; lia).
    + cbn [fails gaps_ok option_map] in *. destruct Hgaps as [Hd Hgaps]. apply IH; auto.
Qed.

(* ------------------------------------------------------------------------------------------ *)
(* Liveness: recovery from every reachable state when success_threshold <= max_requests        *)

(* n consecutive successful sequential requests: final state, and whether all were admitted *)
Fixpoint run_succ (cfg : bcfg) (s : bstate) (n : nat) : bstate * bool :=
  match n with
  | O => (s, true)
  | S k => let '(s1, code) := exec cfg s (Z.of_nat k) true in
           let '(s2, b) := run_succ cfg s1 k in (s2, Z.eqb code 0 && b)
  end.

Lemma closed_run cfg n : forall s,
  st s = Closed -> st (fst (run_succ cfg s n)) = Closed /\ snd (run_succ cfg s n) = true.
Proof.
  induction n as [|k IH]; intros s E; cbn [run_succ fst snd]; [auto|].
  pose proof (exec_closed cfg s (Z.of_nat k) true E) as Hx. cbn zeta in Hx.
  destruct Hx as (Hc & _ & Hok & _). destruct (Hok eq_refl) as (E1 & _).
  destruct (exec cfg s (Z.of_nat k) true) as [s1 code]. cbn [fst snd] in *. subst code.
  specialize (IH s1 E1). destruct (run_succ cfg s1 k) as [s2 b]. cbn [fst snd] in *.
  destruct IH as [? ->]. auto.
Qed.

Lemma exec_inv cfg s rid ok : bwf_cfg cfg -> BInv cfg s -> BInv cfg (fst (exec cfg s rid ok)).
Proof.
  intros Hw Hi. unfold exec. pose proof (begin_inv cfg s rid Hw Hi) as Hb.
  destruct (begin cfg s rid) as [s1 code]. cbn [fst] in *.
  destruct (Z.eqb code 0); cbn [fst]; [apply finish_inv; auto|exact Hb].
Qed.

(* a successful trial in half-open with nothing else in flight *)
Lemma exec_half cfg s rid :
  st s = HalfOpen -> pend s = [] -> rc s < maxReq cfg ->
  let s' := fst (exec cfg s rid true) in
  snd (exec cfg s rid true) = 0 /\ pend s' = [] /\ sc s' = sc s + 1 /\
  st s' = (if sthr cfg <=? sc s + 1 then Closed else HalfOpen).
Proof.
  intros E Hp Hr. unfold exec, begin. rewrite E.
  assert (Em : (maxReq cfg <=? rc s) = false) by lia. rewrite Em. cbn [Z.eqb fst snd].
  unfold finish, finish0. cbn.
  destruct (sthr cfg <=? sc s + 1); cbn; rewrite Hp, Z.eqb_refl; auto.
Qed.

Lemma half_run cfg n : forall s,
  bwf_cfg cfg -> sthr cfg <= maxReq cfg ->
  BInv cfg s -> st s = HalfOpen -> pend s = [] -> sthr cfg - sc s <= Z.of_nat n ->
  st (fst (run_succ cfg s n)) = Closed /\ snd (run_succ cfg s n) = true.
Proof.
  induction n as [|k IH]; intros s Hw Hms Hi E Hp Hn.
  - destruct (i_half _ _ Hi E) as (_ & _ & _ & Hsc & _). lia.
  - cbn [run_succ].
    destruct (i_half _ _ Hi E) as (_ & _ & Hrc & Hsc & Hle & _). rewrite Hp in Hle. cbn [count_ep] in Hle.
    pose proof (exec_half cfg s (Z.of_nat k) E Hp ltac:(lia)) as Hx. cbn zeta in Hx.
    pose proof (exec_inv cfg s (Z.of_nat k) true Hw Hi) as Hi1.
    destruct (exec cfg s (Z.of_nat k) true) as [s1 code]. cbn [fst snd] in *.
    destruct Hx as (-> & Hp1 & Hsc1 & Hst1).
    destruct (sthr cfg <=? sc s + 1) eqn:Et.
    + pose proof (closed_run cfg k s1 Hst1) as [H1 H2].
      destruct (run_succ cfg s1 k) as [s2 b]. cbn [fst snd] in *. subst b. auto.
    + specialize (IH s1 Hw Hms Hi1 Hst1 Hp1 ltac:(lia)).
      destruct (run_succ cfg s1 k) as [s2 b]. cbn [fst snd] in *. destruct IH as [? ->]. auto.
Qed.

Lemma exec_open_ready cfg s rid :
  st s = Open -> nextAttempt s < bnow s -> pend s = [] ->
  let s' := fst (exec cfg s rid true) in
  snd (exec cfg s rid true) = 0 /\ pend s' = [] /\ sc s' = 1 /\
  st s' = (if sthr cfg <=? 1 then Closed else HalfOpen).
Proof.
  intros E Hn Hp. unfold exec, begin. rewrite E.
  assert (En : (nextAttempt s <? bnow s) = true) by lia. rewrite En. cbn [Z.eqb fst snd].
  unfold finish, finish0. cbn.
  assert (E01 : 0 + 1 = 1) by lia. rewrite ?E01.
  destruct (sthr cfg <=? 1) eqn:E1; cbn; rewrite ?Hp, ?Z.eqb_refl; auto.
Qed.

(* From ANY state satisfying the reachable-state invariant with no request in flight: wait longer
   than the timeout, then success_threshold successful requests: all are admitted and the breaker
   ends closed. *)
Theorem recover cfg s dt :
  bwf_cfg cfg -> sthr cfg <= maxReq cfg ->
  BInv cfg s -> pend s = [] -> btimeout cfg < dt ->
  st (fst (run_succ cfg (advance s dt) (Z.to_nat (sthr cfg)))) = Closed
  /\ snd (run_succ cfg (advance s dt) (Z.to_nat (sthr cfg))) = true.
Proof.
  intros Hw Hms Hi Hp Hdt.
  assert (Hi1 : BInv cfg (advance s dt)) by (apply advance_inv; [destruct Hw as (_ & _ & ? & _); lia|exact Hi]).
  destruct Hw as (Hm & Hin & Ht & Hf & Hs). assert (Hw : bwf_cfg cfg) by (repeat split; auto).
  set (s1 := advance s dt) in *.
  assert (Hp1 : pend s1 = []) by exact Hp.
  destruct (st s1) eqn:E.
  - apply closed_run. exact E.
  - (* open: the deadline has passed *)
    assert (Hna : nextAttempt s1 < bnow s1).
    { pose proof (i_open _ _ Hi) as Ho. assert (Es : st s = Open) by exact E. specialize (Ho Es).
      subst s1; cbn. lia. }
    destruct (Z.to_nat (sthr cfg)) as [|k] eqn:En; [lia|]. cbn [run_succ].
    pose proof (exec_open_ready cfg s1 (Z.of_nat k) E Hna Hp1) as Hx. cbn zeta in Hx.
    pose proof (exec_inv cfg s1 (Z.of_nat k) true Hw Hi1) as Hi2.
    destruct (exec cfg s1 (Z.of_nat k) true) as [s2 code]. cbn [fst snd] in *.
    destruct Hx as (-> & Hp2 & Hsc2 & Hst2).
    destruct (sthr cfg <=? 1) eqn:E1.
    + pose proof (closed_run cfg k s2 Hst2) as [H1 H2].
      destruct (run_succ cfg s2 k) as [s3 b]. cbn [fst snd] in *. subst b. auto.
    + pose proof (half_run cfg k s2 Hw Hms Hi2 Hst2 Hp2 ltac:(lia)) as [H1 H2].
      destruct (run_succ cfg s2 k) as [s3 b]. cbn [fst snd] in *. subst b. auto.
  - apply half_run; auto. pose proof (i_sc _ _ Hi1). lia.
Qed.

(* ending every in-flight request (whatever the outcomes) empties the pending set *)
Fixpoint drain (cfg : bcfg) (s : bstate) (outs : list bool) : bstate :=
  match pend s, outs with
  | (rid, _) :: _, ok :: t => drain cfg (finish cfg s rid ok) t
  | _, _ => s
  end.

Lemma drain_inv cfg outs : forall s, bwf_cfg cfg -> BInv cfg s -> BInv cfg (drain cfg s outs).
Proof.
  induction outs as [|ok t IH]; intros s Hw Hi; destruct (pend s) as [|[rid e] p] eqn:Ep; cbn [drain]; rewrite ?Ep; auto.
  apply IH; auto. apply finish_inv; auto.
Qed.

Lemma pend_finish cfg s rid ok : pend (finish cfg s rid ok) = remove_rid rid (pend s).
Proof. unfold finish, finish0. destruct ok; destruct (st s); cbn; try reflexivity;
       repeat match goal with |- context [if ?c then _ else _] => destruct c end; reflexivity. Qed.

Lemma drain_empty cfg outs : forall s, (length (pend s) <= length outs)%nat -> pend (drain cfg s outs) = [].
Proof.
  induction outs as [|ok t IH]; intros s Hl; destruct (pend s) as [|[rid e] p] eqn:Ep; cbn [drain]; rewrite ?Ep; auto.
  - cbn in Hl. lia.
  - apply IH. rewrite pend_finish, Ep. cbn [remove_rid]. rewrite Z.eqb_refl. cbn in Hl. lia.
Qed.

(* Lock-out: half-open with the budget spent admits nothing, whatever follows. *)
Lemma stuck_forever cfg ops : forall s,
  st s = HalfOpen -> maxReq cfg <= rc s ->
  st (srun cfg s ops) = HalfOpen /\ rc (srun cfg s ops) = rc s.
Proof.
  induction ops as [|o t IH]; intros s E Hr; cbn [srun]; [auto|].
  destruct o as [rid ok|dt]; cbn [sstep].
  - unfold exec, begin. rewrite E. assert (Em : (maxReq cfg <=? rc s) = true) by lia. rewrite Em.
    cbn [Z.eqb fst]. apply IH; auto.
  - destruct (IH (advance s dt) E Hr) as [H1 H2]. split; [exact H1|exact H2].
Qed.

Definition lock_cfg : bcfg := {| maxReq := 1; interval := 60; btimeout := 60; fthr := 1; sthr := 2 |}.
Definition lock_state : bstate :=
  srun lock_cfg (binit 0) [SExec 1 false; SAdv 61; SExec 2 true].
Lemma lock_state_facts :
  st lock_state = HalfOpen /\ rc lock_state = 1 /\ pend lock_state = [] /\ maxReq lock_cfg <= rc lock_state.
Proof. vm_compute. repeat split; congruence. Qed.
