(* C13, per backend: in every reachable state of the composite balancer model
   - each *Backend object's ActiveConnections equals the number of requests in flight on that object (pooled or already
     removed), so it is back at zero when the object is idle;
   - the per-name totals of the collector count exactly the completed requests that were sent to a backend of that name,
     each as successful or failed;
   - the published (by-name) gauge equals the number of requests in flight on that name PROVIDED no name is added again
     while a removed backend of that name still has requests in flight; without that proviso the statement is false
     (the known finding), shown by a concrete history.
   Everything is proved on a projection of the state (identity, name, gauge of every object; in-flight table; next identity;
   the numeric part of the by-name mirror), for which every operation of the model has a simple effect. *)
From Coq Require Import Permutation.
From Helios Require Import Base.Prelude Base.Wrap Base.Bytes Model.Hash Model.Strategy Model.ClientIP
                           Model.Limiter Model.Breaker Model.LB Proofs.StrategyProofs Proofs.LBProofs Proofs.FailoverProofs.

Local Arguments Z.add : simpl never.
Local Arguments Z.sub : simpl never.
Local Arguments Z.mul : simpl never.
Local Arguments zlen : simpl never.

(* ---------- the projection ---------- *)
Record core := mkC { ci : Z; cn : Z; ca : Z }.
Definition core_of (b : backend) : core := mkC (bid b) (bname b) (bactive b).
Definition poolc (s : lb) : list core := map core_of (pool s).
Definition deadc (s : lb) : list core := map core_of (dead s).
Definition objc (s : lb) : list core := poolc s ++ deadc s.

(* numeric part of a mirror entry: total, successes, failures, gauge *)
Definition nums (s : lb) (n : Z) : Z * Z * Z * Z :=
  let m := bm_get s n in (m_total m, m_succ m, m_fail m, m_gauge m).

Definition keeps_core (f : backend -> backend) : Prop := forall b, core_of (f b) = core_of b.

Lemma upd_id_core id f p : keeps_core f -> map core_of (upd_id id f p) = map core_of p.
Proof.
  intros Hf. unfold upd_id. rewrite map_map. apply map_ext. intros b. destruct (Z.eqb (bid b) id); [apply Hf|reflexivity].
Qed.

Definition setact (id a : Z) (c : core) : core := if Z.eqb (ci c) id then mkC (ci c) (cn c) a else c.

Lemma upd_id_setact id a p : map core_of (upd_id id (set_active a) p) = map (setact id a) (map core_of p).
Proof.
  unfold upd_id. rewrite !map_map. apply map_ext. intros b. unfold setact, core_of. cbn [ci cn ca].
  destruct (Z.eqb (bid b) id); reflexivity.
Qed.

(* "nothing the accounting looks at has changed" *)
Definition Neutral (s s' : lb) : Prop :=
  poolc s' = poolc s /\ deadc s' = deadc s /\ infl s' = infl s /\ nextid s' = nextid s /\ forall n, nums s' n = nums s n.

Ltac nsplit := unfold Neutral; split; [|split; [|split; [|split]]].

Lemma neutral_refl s : Neutral s s.
Proof. nsplit; reflexivity. Qed.
Lemma neutral_trans a b c : Neutral a b -> Neutral b c -> Neutral a c.
Proof.
  intros (A1 & A2 & A3 & A4 & A5) (B1 & B2 & B3 & B4 & B5). nsplit; [congruence|congruence|congruence|congruence|intros n; rewrite B5; apply A5].
Qed.

Lemma bm_get_set s name m n : bm_get (bm_set s name m) n = if Z.eqb n name then m else bm_get s n.
Proof.
  unfold bm_get, bm_set. cbn [bm with_bm]. destruct (Z.eqb n name) eqn:E.
  - apply Z.eqb_eq in E. subst. rewrite lookup_update_same. reflexivity.
  - rewrite lookup_update_other by lia. reflexivity.
Qed.

Lemma neutral_upd_obj s id f : keeps_core f -> Neutral s (upd_obj s id f).
Proof.
  intros Hf. nsplit; try reflexivity; unfold poolc, deadc, upd_obj.
  - change (pool (with_dead _ _)) with (upd_id id f (pool s)). apply upd_id_core; exact Hf.
  - cbn [dead with_dead]. apply upd_id_core; exact Hf.
Qed.

Lemma neutral_mirror_health s n h : Neutral s (mirror_health s n h).
Proof.
  nsplit; try reflexivity. intros k. unfold nums, mirror_health. rewrite bm_get_set.
  destruct (Z.eqb k n) eqn:E; [|reflexivity]. apply Z.eqb_eq in E. subst. reflexivity.
Qed.

Lemma kc_flag v : keeps_core (set_flag v). Proof. intros b; reflexivity. Qed.
Lemma kc_until v : keeps_core (set_until v). Proof. intros b; reflexivity. Qed.
Lemma kc_cw v : keeps_core (set_cw v). Proof. intros b; reflexivity. Qed.

Lemma neutral_is_healthy s b : Neutral s (snd (is_healthy s b)).
Proof.
  unfold is_healthy. destruct (bflag b); [apply neutral_refl|]. destruct (buntil b <? now s); cbn [snd]; [|apply neutral_refl].
  eapply neutral_trans; [apply neutral_upd_obj, kc_flag|apply neutral_mirror_health].
Qed.

Lemma neutral_refresh ids : forall s, Neutral s (refresh_ids ids s).
Proof.
  induction ids as [|i t IH]; intros s; cbn [refresh_ids]; [apply neutral_refl|].
  destruct (find_obj s i) as [b|]; [|apply IH]. eapply neutral_trans; [apply neutral_is_healthy|apply IH].
Qed.

Lemma pick_cores s r : map core_of (spool (snd (s_pick s r))) = map core_of (spool s).
Proof.
  unfold s_pick. destruct (skd s); cbn [snd spool]; try reflexivity.
  - destruct (rr_pick (spool s) (sctr s)); reflexivity.
  - unfold wrr_pick.
    assert (Hb : map core_of (wrr_bump (spool s)) = map core_of (spool s)).
    { unfold wrr_bump. rewrite map_map. apply map_ext. intros b. destruct (bflag b); reflexivity. }
    destruct (wrr_best None (wrr_bump (spool s))) as [x|]; cbn [snd spool]; [|exact Hb].
    rewrite upd_id_core by apply kc_cw. exact Hb.
Qed.

Lemma neutral_pick s r : Neutral s (with_ss s (snd (s_pick (ss s) r))).
Proof.
  nsplit; try reflexivity. unfold poolc.
  change (pool (with_ss s (snd (s_pick (ss s) r)))) with (spool (snd (s_pick (ss s) r))). apply pick_cores.
Qed.

Lemma neutral_loop fuel : forall s r, Neutral s (snd (find_healthy_loop fuel s r)).
Proof.
  induction fuel as [|f IH]; intros s r; cbn [find_healthy_loop]; [apply neutral_refl|].
  pose proof (neutral_pick s r) as Hp. destruct (s_pick (ss s) r) as [ob ss'] eqn:Ep. cbn [snd] in Hp.
  destruct ob as [b|]; cbn [snd]; [|exact Hp].
  destruct (find_obj (with_ss s ss') (bid b)) as [b'|]; cbn [snd]; [|exact Hp].
  pose proof (neutral_is_healthy (with_ss s ss') b') as Hh. destruct (is_healthy (with_ss s ss') b') as [h s2]. cbn [snd] in Hh.
  destruct h; cbn [snd].
  - eapply neutral_trans; eassumption.
  - eapply neutral_trans; [exact Hp|]. eapply neutral_trans; [exact Hh|apply IH].
Qed.

Lemma neutral_find_healthy fuel s r : Neutral s (snd (find_healthy fuel s r)).
Proof. unfold find_healthy. eapply neutral_trans; [apply neutral_refresh|apply neutral_loop]. Qed.

Lemma kc_compose f g : keeps_core f -> keeps_core g -> keeps_core (fun b => f (g b)).
Proof. intros Hf Hg b. rewrite Hf. apply Hg. Qed.

Lemma neutral_mark cfg s id name : Neutral s (mark_unhealthy cfg s id name).
Proof.
  unfold mark_unhealthy. eapply neutral_trans; [|apply neutral_mirror_health].
  apply neutral_upd_obj. apply (kc_compose (set_until _) (set_flag false)); [apply kc_until|apply kc_flag].
Qed.

Lemma neutral_with_pass s x : Neutral s (with_pass s x).
Proof. nsplit; reflexivity. Qed.

Lemma neutral_passive cfg s id name : Neutral s (passive_fail cfg s id name).
Proof.
  unfold passive_fail. destruct (c_pthr cfg <=? _); [|apply neutral_with_pass].
  eapply neutral_trans; [apply neutral_with_pass|]. eapply neutral_trans; [apply neutral_mark|apply neutral_with_pass].
Qed.

Lemma neutral_probe cfg s id ok : Neutral s (lb_probe cfg s id ok).
Proof.
  unfold lb_probe. destruct (stopped s); [apply neutral_refl|]. destruct (find_obj s id) as [b|]; [|apply neutral_refl].
  pose proof (neutral_is_healthy s b) as Hh. destruct (is_healthy s b) as [h s1]. cbn [snd] in Hh.
  destruct h; cbn [negb]; [|exact Hh]. destruct ok.
  - eapply neutral_trans; [exact Hh|]. eapply neutral_trans; [apply neutral_upd_obj, kc_flag|apply neutral_mirror_health].
  - eapply neutral_trans; [exact Hh|apply neutral_mark].
Qed.

Lemma neutral_strategy s k : Neutral s (fst (lb_set_strategy s k)).
Proof.
  unfold lb_set_strategy. destruct ((0 <=? k) && (k <=? 4)); cbn [fst]; [|apply neutral_refl].
  nsplit; try reflexivity. unfold poolc.
  change (pool (with_ss s (s_switch (ss s) (skind_of k)))) with (map (set_cw 0) (pool s)).
  rewrite map_map. apply map_ext. intros b. reflexivity.
Qed.

(* ---------- the invariant, on the projection ---------- *)
Definition eid (e : Z * (Z * Z)) : Z := fst (snd e).
Definition ename (e : Z * (Z * Z)) : Z := snd (snd e).

(* requests in flight on object [id] / on name [n] *)
Fixpoint cnt (id : Z) (fl : list (Z * (Z * Z))) : Z :=
  match fl with [] => 0 | e :: t => (if Z.eqb (eid e) id then 1 else 0) + cnt id t end.
Fixpoint cntn (n : Z) (fl : list (Z * (Z * Z))) : Z :=
  match fl with [] => 0 | e :: t => (if Z.eqb (ename e) n then 1 else 0) + cntn n t end.

Definition InvL (l : list core) (fl : list (Z * (Z * Z))) (nx : Z) : Prop :=
  NoDup (map ci l)
  /\ (forall c, In c l -> ci c < nx)
  /\ (forall c, In c l -> ca c = cnt (ci c) fl)
  /\ (forall e, In e fl -> exists a, In (mkC (eid e) (ename e) a) l).

Lemma InvL_perm l l' fl nx : Permutation l l' -> InvL l fl nx -> InvL l' fl nx.
Proof.
  intros P (A & B & C & D). split; [|split; [|split]].
  - eapply Permutation_NoDup; [apply Permutation_map; exact P|exact A].
  - intros c Hc. apply B. eapply Permutation_in; [apply Permutation_sym; exact P|exact Hc].
  - intros c Hc. apply C. eapply Permutation_in; [apply Permutation_sym; exact P|exact Hc].
  - intros e He. destruct (D e He) as [a Ha]. exists a. eapply Permutation_in; [exact P|exact Ha].
Qed.

Lemma ci_inj l c c' : NoDup (map ci l) -> In c l -> In c' l -> ci c = ci c' -> c = c'.
Proof.
  induction l as [|x t IH]; cbn [map]; intros Hnd H1 H2 He; [destruct H1|].
  inversion Hnd as [|y ys Hn Hd]; subst.
  destruct H1 as [->|H1]; destruct H2 as [->|H2]; auto.
  - exfalso. apply Hn. rewrite He. apply in_map. exact H2.
  - exfalso. apply Hn. rewrite <- He. apply in_map. exact H1.
Qed.

Lemma setact_ci id a c : ci (setact id a c) = ci c.
Proof. unfold setact. destruct (Z.eqb (ci c) id); reflexivity. Qed.
Lemma setact_cn id a c : cn (setact id a c) = cn c.
Proof. unfold setact. destruct (Z.eqb (ci c) id); reflexivity. Qed.

Lemma map_setact_ci id a l : map ci (map (setact id a) l) = map ci l.
Proof. rewrite map_map. apply map_ext. intros c. apply setact_ci. Qed.

Lemma InvL_begin l fl nx id n a rid :
  InvL l fl nx -> In (mkC id n a) l -> InvL (map (setact id (a + 1)) l) ((rid, (id, n)) :: fl) nx.
Proof.
  intros (A & B & C & D) Hin. split; [|split; [|split]].
  - rewrite map_setact_ci. exact A.
  - intros c Hc. apply in_map_iff in Hc as [c0 [<- Hc0]]. rewrite setact_ci. apply B. exact Hc0.
  - intros c Hc. apply in_map_iff in Hc as [c0 [<- Hc0]]. rewrite setact_ci. cbn [cnt eid fst snd].
    unfold setact. destruct (Z.eqb (ci c0) id) eqn:E.
    + apply Z.eqb_eq in E. assert (c0 = mkC id n a) by (apply (ci_inj l); auto). subst c0.
      cbn [ca ci]. rewrite Z.eqb_refl. specialize (C _ Hin). cbn [ca ci] in C. lia.
    + rewrite Z.eqb_sym, E. rewrite (C _ Hc0). lia.
  - intros e [<-|He].
    + cbn [eid ename fst snd]. exists (a + 1). apply in_map_iff. exists (mkC id n a). split; [|exact Hin].
      unfold setact. cbn [ci cn]. rewrite Z.eqb_refl. reflexivity.
    + destruct (D e He) as [a0 Ha0]. destruct (Z.eqb (eid e) id) eqn:E.
      * exists (a + 1). apply in_map_iff. exists (mkC (eid e) (ename e) a0). split; [|exact Ha0].
        unfold setact. cbn [ci cn]. rewrite E. reflexivity.
      * exists a0. apply in_map_iff. exists (mkC (eid e) (ename e) a0). split; [|exact Ha0].
        unfold setact. cbn [ci]. rewrite E. reflexivity.
Qed.

Lemma lookup_in rid (fl : list (Z * (Z * Z))) v : lookup rid fl = Some v -> In (rid, v) fl.
Proof.
  induction fl as [|[k x] t IH]; cbn [lookup]; [discriminate|].
  destruct (Z.eqb rid k) eqn:E; [intros H; injection H as <-; apply Z.eqb_eq in E; subst; left; reflexivity|].
  intros H. right. apply IH. exact H.
Qed.

Lemma remove_infl_in rid fl e : In e (remove_infl rid fl) -> In e fl.
Proof.
  induction fl as [|[k x] t IH]; cbn [remove_infl]; [intros []|].
  destruct (Z.eqb k rid); [intros H; right; exact H|]. intros [H|H]; [left; exact H|right; apply IH; exact H].
Qed.

Lemma cnt_remove rid fl id n i : lookup rid fl = Some (id, n) ->
  cnt i (remove_infl rid fl) = cnt i fl - (if Z.eqb id i then 1 else 0).
Proof.
  induction fl as [|[k x] t IH]; cbn [lookup remove_infl]; [discriminate|].
  rewrite (Z.eqb_sym rid k). destruct (Z.eqb k rid) eqn:E.
  - intros H. injection H as ->. cbn [cnt eid fst snd]. lia.
  - intros H. cbn [cnt]. rewrite (IH H). lia.
Qed.

Lemma cntn_remove rid fl id n m : lookup rid fl = Some (id, n) ->
  cntn m (remove_infl rid fl) = cntn m fl - (if Z.eqb n m then 1 else 0).
Proof.
  induction fl as [|[k x] t IH]; cbn [lookup remove_infl]; [discriminate|].
  rewrite (Z.eqb_sym rid k). destruct (Z.eqb k rid) eqn:E.
  - intros H. injection H as ->. cbn [cntn ename fst snd]. lia.
  - intros H. cbn [cntn]. rewrite (IH H). lia.
Qed.

Lemma InvL_end l fl nx rid id n :
  InvL l fl nx -> lookup rid fl = Some (id, n) ->
  exists a, In (mkC id n a) l /\ InvL (map (setact id (a - 1)) l) (remove_infl rid fl) nx.
Proof.
  intros (A & B & C & D) Hl. destruct (D _ (lookup_in _ _ _ Hl)) as [a Ha]. cbn [eid ename fst snd] in Ha.
  exists a. split; [exact Ha|]. split; [|split; [|split]].
  - rewrite map_setact_ci. exact A.
  - intros c Hc. apply in_map_iff in Hc as [c0 [<- Hc0]]. rewrite setact_ci. apply B. exact Hc0.
  - intros c Hc. apply in_map_iff in Hc as [c0 [<- Hc0]]. rewrite setact_ci. rewrite (cnt_remove _ _ _ _ _ Hl).
    unfold setact. destruct (Z.eqb (ci c0) id) eqn:E.
    + apply Z.eqb_eq in E. assert (c0 = mkC id n a) by (apply (ci_inj l); auto). subst c0.
      cbn [ca ci]. rewrite Z.eqb_refl. specialize (C _ Ha). cbn [ca ci] in C. lia.
    + rewrite Z.eqb_sym, E. rewrite (C _ Hc0). lia.
  - intros e He. apply remove_infl_in in He. destruct (D e He) as [a0 Ha0]. destruct (Z.eqb (eid e) id) eqn:E.
    + exists (a - 1). apply in_map_iff. exists (mkC (eid e) (ename e) a0). split; [|exact Ha0].
      unfold setact. cbn [ci cn]. rewrite E. reflexivity.
    + exists a0. apply in_map_iff. exists (mkC (eid e) (ename e) a0). split; [|exact Ha0].
      unfold setact. cbn [ci]. rewrite E. reflexivity.
Qed.

Lemma cnt_zero_fresh l fl nx : InvL l fl nx -> cnt nx fl = 0.
Proof.
  intros (A & B & C & D). clear A C. induction fl as [|e t IH]; cbn [cnt]; [reflexivity|].
  destruct (D e (or_introl eq_refl)) as [a Ha]. specialize (B _ Ha). cbn [ci] in B.
  assert (E : Z.eqb (eid e) nx = false) by lia. rewrite E. rewrite IH; [reflexivity|].
  intros e' He'. apply D. right. exact He'.
Qed.

Lemma InvL_add l fl nx name : InvL l fl nx -> InvL (l ++ [mkC nx name 0]) fl (nx + 1).
Proof.
  intros H. pose proof (cnt_zero_fresh _ _ _ H) as Hz. destruct H as (A & B & C & D). split; [|split; [|split]].
  - rewrite map_app. cbn [map ci]. apply NoDup_snoc; [exact A|].
    intros Hin. apply in_map_iff in Hin as [c [Hc Hcin]]. specialize (B _ Hcin). lia.
  - intros c Hc. apply in_app_or in Hc as [Hc|[<-|[]]]; [specialize (B _ Hc); lia|cbn [ci]; lia].
  - intros c Hc. apply in_app_or in Hc as [Hc|[<-|[]]]; [apply C; exact Hc|cbn [ci ca]; lia].
  - intros e He. destruct (D e He) as [a Ha]. exists a. apply in_or_app. left. exact Ha.
Qed.

(* ---------- what each operation does to the projection ---------- *)

(* every strategy hands out (a snapshot of) an object of its pool *)
Lemma nthZ_some_in {A} (l : list A) i x : nthZ l i = Some x -> In x l.
Proof. unfold nthZ. destruct (i <? 0); [discriminate|]. apply nth_error_In. Qed.

Lemma rr_scan_in fuel : forall pool c b c', rr_scan fuel pool c = (Some b, c') -> In b pool.
Proof.
  induction fuel as [|f IH]; intros pool c b c'; cbn [rr_scan]; [discriminate|].
  destruct (nthZ pool (wrap_u64 (c + 1) mod zlen pool)) as [x|] eqn:E; [|discriminate].
  destruct (bflag x); [intros H; injection H as <- _; eapply nthZ_some_in; exact E|apply IH].
Qed.

Lemma lc_scan_in pool : forall best minc b, lc_scan best minc pool = Some b -> best = Some b \/ In b pool.
Proof.
  induction pool as [|x t IH]; intros best minc b; cbn [lc_scan]; [auto|].
  destruct (bflag x && (bactive x <? minc)); intros H; apply IH in H as [H|H]; auto.
  - injection H as <-. right. left. reflexivity.
  - right. right. exact H.
  - right. right. exact H.
Qed.

Lemma wrr_best_in pool : forall best b, wrr_best best pool = Some b -> best = Some b \/ In b pool.
Proof.
  induction pool as [|x t IH]; intros best b; cbn [wrr_best]; [auto|].
  destruct (bflag x).
  - destruct best as [y|].
    + destruct (bcw y <? bcw x); intros H; apply IH in H as [H|H]; auto.
      * injection H as <-. right. left. reflexivity.
      * right. right. exact H.
      * right. right. exact H.
    + intros H; apply IH in H as [H|H]; [injection H as <-; right; left; reflexivity|right; right; exact H].
  - intros H; apply IH in H as [H|H]; [auto|right; right; exact H].
Qed.

Lemma pick_in_pool s r b : fst (s_pick s r) = Some b -> In (bid b) (map bid (spool s)).
Proof.
  unfold s_pick. destruct (skd s).
  - destruct (rr_pick (spool s) (sctr s)) as [ob c'] eqn:E. cbn [fst]. intros ->.
    unfold rr_pick in E. destruct (spool s) as [|x t] eqn:Ep; [discriminate|]. rewrite <- Ep in *.
    apply in_map. eapply rr_scan_in. exact E.
  - cbn [fst]. unfold lc_pick. intros H. apply lc_scan_in in H as [H|H]; [discriminate|apply in_map; exact H].
  - unfold wrr_pick. destruct (wrr_best None (wrr_bump (spool s))) as [x|] eqn:E; cbn [fst]; [|discriminate].
    intros H. injection H as <-. apply wrr_best_in in E as [E|E]; [discriminate|].
    destruct (wrr_bump_flags (spool s)) as [_ Ei]. rewrite <- Ei. apply in_map. exact E.
  - cbn [fst]. unfold iph_pick. destruct (healthy (spool s)) as [|h0 ht] eqn:Eh; [discriminate|]. rewrite <- Eh.
    intros H. apply nthZ_some_in in H. unfold healthy in H. apply filter_In in H as [H _]. apply in_map. exact H.
  - cbn [fst]. unfold iphc_pick. destruct (healthy (spool s)) as [|h0 ht] eqn:Eh; [discriminate|]. rewrite <- Eh.
    destruct (jump_hash _ _) as [i|]; [|discriminate].
    intros H. apply nthZ_some_in in H. unfold healthy in H. apply filter_In in H as [H _]. apply in_map. exact H.
Qed.

Lemma find_obj_pool s id : In id (map bid (pool s)) -> find_obj s id = find_id id (pool s).
Proof. intros H. unfold find_obj. destruct (find_id_some _ _ H) as [b ->]. reflexivity. Qed.

(* the backend a request is dispatched to is the pool's object of that identity, read after the expiry pass *)
Lemma loop_returns fuel : forall s r b,
  fst (find_healthy_loop fuel s r) = Some b -> find_id (bid b) (pool (snd (find_healthy_loop fuel s r))) = Some b.
Proof.
  induction fuel as [|f IH]; intros s r b; cbn [find_healthy_loop]; [discriminate|].
  pose proof (same_ids_pick s r) as Hp. pose proof (pick_in_pool (ss s) r) as Hin.
  destruct (s_pick (ss s) r) as [ob ss'] eqn:Ep. cbn [snd fst] in Hp, Hin.
  destruct ob as [b0|]; cbn [fst snd]; [|discriminate].
  specialize (Hin b0 eq_refl). set (s1 := with_ss s ss') in *.
  assert (Hin1 : In (bid b0) (map bid (pool s1))) by (destruct Hp as [-> _]; exact Hin).
  rewrite (find_obj_pool s1 _ Hin1). destruct (find_id (bid b0) (pool s1)) as [b'|] eqn:Eb; cbn [fst snd]; [|discriminate].
  pose proof (same_ids_is_healthy s1 b') as Hh. destruct (is_healthy s1 b') as [h s2]. cbn [snd] in Hh.
  destruct h; cbn [fst snd]; [|apply IH].
  assert (Hin2 : In (bid b0) (map bid (pool s2))) by (destruct Hh as [-> _]; exact Hin1).
  rewrite (find_obj_pool s2 _ Hin2). intros H. pose proof (find_id_in _ _ _ H) as [_ Hid]. rewrite Hid. exact H.
Qed.

Lemma find_healthy_returns fuel s r b :
  fst (find_healthy fuel s r) = Some b -> find_id (bid b) (pool (snd (find_healthy fuel s r))) = Some b.
Proof. unfold find_healthy. apply loop_returns. Qed.

Definition set_gauge (v : Z * Z * Z * Z) (g : Z) : Z * Z * Z * Z := let '(t, su, f, _) := v in (t, su, f, g).

Lemma nums_mirror_gauge s n g m : nums (mirror_gauge s n g) m = if Z.eqb m n then set_gauge (nums s m) g else nums s m.
Proof.
  unfold nums, mirror_gauge. rewrite bm_get_set. destruct (Z.eqb m n) eqn:E; [|reflexivity].
  apply Z.eqb_eq in E. subst. reflexivity.
Qed.

Definition Dispatched (s s' : lb) (rid x : Z) : Prop :=
  exists n a, In (mkC x n a) (poolc s)
    /\ poolc s' = map (setact x (a + 1)) (poolc s) /\ deadc s' = map (setact x (a + 1)) (deadc s)
    /\ infl s' = (rid, (x, n)) :: infl s /\ nextid s' = nextid s
    /\ forall m, nums s' m = if Z.eqb m n then set_gauge (nums s m) (a + 1) else nums s m.

Lemma neutral_counts s t su f r : Neutral s (with_counts s t su f r).
Proof. nsplit; reflexivity. Qed.
Lemma neutral_lims s x : Neutral s (with_lims s x).
Proof. nsplit; reflexivity. Qed.
Lemma neutral_brk s x : Neutral s (with_brk s x).
Proof. nsplit; reflexivity. Qed.
Lemma neutral_record_response s ok : Neutral s (record_response s ok).
Proof. nsplit; reflexivity. Qed.

Definition dispatch_tail (cfg : lbcfg) (s : lb) (rid : Z) (q : req) : lb * (Z * Z) :=
  let '(ob, s) := find_healthy 3 s (q_h q) in
  match ob with
  | None =>
      let s := record_response s false in
      let s := if c_brk cfg then with_brk s (finish (c_bcfg cfg) (brk s) rid true) else s in
      (s, (1, 4))
  | Some b =>
      let s := upd_obj s (bid b) (set_active (bactive b + 1)) in
      let s := mirror_gauge s (bname b) (bactive b + 1) in
      (with_infl s ((rid, (bid b, bname b)) :: infl s), (0, bid b))
  end.

Lemma dispatch_tail_effect cfg s rid q :
  let R := dispatch_tail cfg s rid q in
  (fst (snd R) = 1 /\ Neutral s (fst R)) \/ (fst (snd R) = 0 /\ Dispatched s (fst R) rid (snd (snd R))).
Proof.
  cbn zeta. unfold dispatch_tail.
  pose proof (neutral_find_healthy 3 s (q_h q)) as Hn. pose proof (find_healthy_returns 3 s (q_h q)) as Hr.
  destruct (find_healthy 3 s (q_h q)) as [ob s3]. cbn [fst snd] in Hn, Hr. destruct ob as [b|]; cbn [fst snd].
  - right. split; [reflexivity|]. specialize (Hr b eq_refl). destruct Hn as (N1 & N2 & N3 & N4 & N5).
    exists (bname b), (bactive b). split; [|split; [|split; [|split; [|split]]]].
    + rewrite <- N1. apply find_id_in in Hr as [Hin _]. unfold poolc. apply in_map_iff. exists b. split; [reflexivity|exact Hin].
    + rewrite <- N1. unfold poolc.
      change (pool (with_infl _ _)) with (upd_id (bid b) (set_active (bactive b + 1)) (pool s3)). apply upd_id_setact.
    + rewrite <- N2. unfold deadc.
      change (dead (with_infl _ _)) with (upd_id (bid b) (set_active (bactive b + 1)) (dead s3)). apply upd_id_setact.
    + cbn [infl with_infl]. change (infl (mirror_gauge _ _ _)) with (infl s3). rewrite N3. reflexivity.
    + change (nextid (with_infl _ _)) with (nextid s3). exact N4.
    + intros m. change (nums (with_infl ?x _) m) with (nums x m). rewrite nums_mirror_gauge.
      change (nums (upd_obj s3 _ _) m) with (nums s3 m). rewrite N5. reflexivity.
  - left. split; [reflexivity|]. eapply neutral_trans; [exact Hn|]. eapply neutral_trans; [apply neutral_record_response|].
    destruct (c_brk cfg); [apply neutral_brk|apply neutral_refl].
Qed.

Lemma begin_shape cfg s rid q :
  (fst (snd (lb_begin cfg s rid q)) = 1 /\ Neutral s (fst (lb_begin cfg s rid q)))
  \/ exists s0, Neutral s s0 /\ lb_begin cfg s rid q = dispatch_tail cfg s0 rid q.
Proof.
  unfold lb_begin.
  set (s0 := with_counts s (total s + 1) (succ s) (failed s) (rlim s)).
  assert (H0 : Neutral s s0) by apply neutral_counts.
  assert (Hbrk : forall s1, Neutral s s1 ->
     (fst (snd (let '(s, bcode) := if c_brk cfg then let '(b', code) := begin (c_bcfg cfg) (advance (brk s1) (now s1 - bnow (brk s1))) rid in (with_brk s1 b', code) else (s1, 0) in
                if Z.eqb bcode 1 then (record_response s false, (1, 2)) else if Z.eqb bcode 2 then (record_response s false, (1, 3)) else dispatch_tail cfg s rid q)) = 1
      /\ Neutral s (fst (let '(s, bcode) := if c_brk cfg then let '(b', code) := begin (c_bcfg cfg) (advance (brk s1) (now s1 - bnow (brk s1))) rid in (with_brk s1 b', code) else (s1, 0) in
                if Z.eqb bcode 1 then (record_response s false, (1, 2)) else if Z.eqb bcode 2 then (record_response s false, (1, 3)) else dispatch_tail cfg s rid q)))
     \/ exists s2, Neutral s s2 /\
        (let '(s, bcode) := if c_brk cfg then let '(b', code) := begin (c_bcfg cfg) (advance (brk s1) (now s1 - bnow (brk s1))) rid in (with_brk s1 b', code) else (s1, 0) in
                if Z.eqb bcode 1 then (record_response s false, (1, 2)) else if Z.eqb bcode 2 then (record_response s false, (1, 3)) else dispatch_tail cfg s rid q)
        = dispatch_tail cfg s2 rid q).
  { intros s1 H1. destruct (c_brk cfg).
    - destruct (begin (c_bcfg cfg) (advance (brk s1) (now s1 - bnow (brk s1))) rid) as [b' code].
      assert (H2 : Neutral s (with_brk s1 b')) by (eapply neutral_trans; [exact H1|apply neutral_brk]).
      destruct (Z.eqb code 1); [left; split; [reflexivity|eapply neutral_trans; [exact H2|apply neutral_record_response]]|].
      destruct (Z.eqb code 2); [left; split; [reflexivity|eapply neutral_trans; [exact H2|apply neutral_record_response]]|].
      right. exists (with_brk s1 b'). split; [exact H2|reflexivity].
    - cbn [Z.eqb]. right. exists s1. split; [exact H1|reflexivity]. }
  destruct (c_lim cfg).
  - destruct (allow (c_lcfg cfg) {| lnow := now s0; lbuckets := lbuckets (lims s0) |} (q_client q)) as [l' ok].
    destruct ok; cbn [negb].
    + apply (Hbrk (with_lims s0 l')). eapply neutral_trans; [exact H0|apply neutral_lims].
    + left. split; [reflexivity|]. cbn [fst]. eapply neutral_trans; [exact H0|]. eapply neutral_trans; [apply neutral_lims|apply neutral_counts].
  - cbn [negb]. apply (Hbrk s0 H0).
Qed.

(* ---- the end of a request ---- *)
Definition act_of (id : Z) (l : list core) : Z :=
  match find (fun c => Z.eqb (ci c) id) l with Some c => ca c - 1 | None => 0 end.

Lemma find_map_core id p : find (fun c => Z.eqb (ci c) id) (map core_of p) = option_map core_of (find_id id p).
Proof.
  induction p as [|b t IH]; cbn [map find find_id option_map]; [reflexivity|].
  cbn [core_of ci]. destruct (Z.eqb (bid b) id); [reflexivity|exact IH].
Qed.

Lemma find_app_ {A} (f : A -> bool) a b : find f (a ++ b) = match find f a with Some x => Some x | None => find f b end.
Proof. induction a as [|x t IH]; cbn [app find]; [reflexivity|]. destruct (f x); [reflexivity|exact IH]. Qed.

Lemma act_of_obj x id : (match find_obj x id with Some b => bactive b - 1 | None => 0 end) = act_of id (objc x).
Proof.
  unfold act_of, objc, poolc, deadc, find_obj. rewrite find_app_, !find_map_core.
  destruct (find_id id (pool x)) as [b|]; cbn [option_map]; [reflexivity|].
  destruct (find_id id (dead x)) as [b|]; reflexivity.
Qed.

Definition bump_tot (v : Z * Z * Z * Z) (ok : bool) : Z * Z * Z * Z :=
  let '(t, su, f, g) := v in (t + 1, su + (if ok then 1 else 0), f + (if ok then 0 else 1), g).

Lemma nums_record_backend s n ok m : nums (record_backend s n ok) m = if Z.eqb m n then bump_tot (nums s m) ok else nums s m.
Proof.
  unfold nums, record_backend. rewrite bm_get_set. destruct (Z.eqb m n) eqn:E; [|reflexivity].
  apply Z.eqb_eq in E. subst. reflexivity.
Qed.

Definition Ended (s s' : lb) (rid id name : Z) : Prop :=
  exists ok, let act := act_of id (objc s) in
    poolc s' = map (setact id act) (poolc s) /\ deadc s' = map (setact id act) (deadc s)
    /\ infl s' = remove_infl rid (infl s) /\ nextid s' = nextid s
    /\ forall m, nums s' m = if Z.eqb m name then set_gauge (bump_tot (nums s m) ok) act else nums s m.

Definition release (id name : Z) (s : lb) : lb :=
  let act := match find_obj s id with Some b => bactive b - 1 | None => 0 end in
  mirror_gauge (upd_obj s id (set_active act)) name act.

Lemma release_effect id name x :
  let act := act_of id (objc x) in
  poolc (release id name x) = map (setact id act) (poolc x) /\ deadc (release id name x) = map (setact id act) (deadc x)
  /\ infl (release id name x) = infl x /\ nextid (release id name x) = nextid x
  /\ forall m, nums (release id name x) m = if Z.eqb m name then set_gauge (nums x m) act else nums x m.
Proof.
  cbn zeta. unfold release. rewrite act_of_obj. set (act := act_of id (objc x)).
  split; [|split; [|split; [|split]]]; try reflexivity.
  - unfold poolc. change (pool (mirror_gauge _ _ _)) with (upd_id id (set_active act) (pool x)). apply upd_id_setact.
  - unfold deadc. change (dead (mirror_gauge _ _ _)) with (upd_id id (set_active act) (dead x)). apply upd_id_setact.
  - intros m. rewrite nums_mirror_gauge. reflexivity.
Qed.

Lemma lb_end_unfold cfg s rid o id name :
  lookup rid (infl s) = Some (id, name) ->
  fst (lb_end cfg s rid o) =
    let s0 := with_infl s (remove_infl rid (infl s)) in
    match o with
    | OStatus code =>
        let ok := code <? 500 in
        let s1 := record_backend (record_response s0 ok) name ok in
        let s2 := if (500 <=? code) && c_passive cfg then passive_fail cfg s1 id name else s1 in
        let s3 := release id name s2 in
        if c_brk cfg then with_brk s3 (finish (c_bcfg cfg) (advance (brk s3) (now s3 - bnow (brk s3))) rid ok) else s3
    | OAbort =>
        let s1 := release id name s0 in
        let s2 := record_backend (record_response s1 false) name false in
        if c_brk cfg then with_brk s2 (finish (c_bcfg cfg) (advance (brk s2) (now s2 - bnow (brk s2))) rid false) else s2
    end.
Proof.
  intros Hl. unfold lb_end. rewrite Hl. destruct o as [code|]; cbn zeta; unfold release; destruct (c_brk cfg); reflexivity.
Qed.

Lemma gauge_bump_comm v ok g : set_gauge (bump_tot v ok) g = bump_tot (set_gauge v g) ok.
Proof. destruct v as [[[t su] f] g0]. reflexivity. Qed.

Lemma end_effect cfg s rid o id name :
  lookup rid (infl s) = Some (id, name) -> Ended s (fst (lb_end cfg s rid o)) rid id name.
Proof.
  intros Hl. rewrite (lb_end_unfold _ _ _ _ _ _ Hl). cbn zeta.
  set (s0 := with_infl s (remove_infl rid (infl s))).
  destruct o as [code|].
  - exists (code <? 500). cbn zeta.
    set (ok := code <? 500). set (s1 := record_backend (record_response s0 ok) name ok).
    set (s2 := if (500 <=? code) && c_passive cfg then passive_fail cfg s1 id name else s1).
    assert (N12 : Neutral s1 s2).
    { subst s2. destruct ((500 <=? code) && c_passive cfg); [apply neutral_passive|apply neutral_refl]. }
    destruct N12 as (P1 & P2 & P3 & P4 & P5).
    assert (Hobj : objc s2 = objc s) by (unfold objc; rewrite P1, P2; reflexivity).
    pose proof (release_effect id name s2) as (R1 & R2 & R3 & R4 & R5). cbn zeta in *. rewrite Hobj in *.
    set (s3 := release id name s2) in *.
    assert (Hfin : forall s4, Neutral s3 s4 ->
      poolc s4 = map (setact id (act_of id (objc s))) (poolc s) /\ deadc s4 = map (setact id (act_of id (objc s))) (deadc s)
      /\ infl s4 = remove_infl rid (infl s) /\ nextid s4 = nextid s
      /\ forall m, nums s4 m = if Z.eqb m name then set_gauge (bump_tot (nums s m) ok) (act_of id (objc s)) else nums s m).
    { intros s4 (Q1 & Q2 & Q3 & Q4 & Q5). split; [|split; [|split; [|split]]].
      - rewrite Q1, R1, P1. reflexivity.
      - rewrite Q2, R2, P2. reflexivity.
      - rewrite Q3, R3, P3. reflexivity.
      - rewrite Q4, R4, P4. reflexivity.
      - intros m. rewrite Q5, R5, P5. subst s1. rewrite nums_record_backend.
        change (nums (record_response s0 ok) m) with (nums s m). destruct (Z.eqb m name); reflexivity. }
    destruct (c_brk cfg); [apply Hfin, neutral_brk|apply Hfin, neutral_refl].
  - exists false. cbn zeta.
    pose proof (release_effect id name s0) as (R1 & R2 & R3 & R4 & R5). cbn zeta in *.
    assert (Hobj : objc s0 = objc s) by reflexivity. rewrite Hobj in *.
    set (s1 := release id name s0) in *.
    set (s2 := record_backend (record_response s1 false) name false).
    assert (Hfin : forall s4, Neutral s2 s4 ->
      poolc s4 = map (setact id (act_of id (objc s))) (poolc s) /\ deadc s4 = map (setact id (act_of id (objc s))) (deadc s)
      /\ infl s4 = remove_infl rid (infl s) /\ nextid s4 = nextid s
      /\ forall m, nums s4 m = if Z.eqb m name then set_gauge (bump_tot (nums s m) false) (act_of id (objc s)) else nums s m).
    { intros s4 (Q1 & Q2 & Q3 & Q4 & Q5). split; [|split; [|split; [|split]]].
      - rewrite Q1. exact R1.
      - rewrite Q2. exact R2.
      - rewrite Q3. exact R3.
      - rewrite Q4. exact R4.
      - intros m. rewrite Q5. subst s2. rewrite nums_record_backend.
        change (nums (record_response s1 false) m) with (nums s1 m). rewrite R5.
        change (nums s0 m) with (nums s m). destruct (Z.eqb m name); [apply eq_sym, gauge_bump_comm|reflexivity]. }
    destruct (c_brk cfg); [apply Hfin, neutral_brk|apply Hfin, neutral_refl].
Qed.

Lemma end_none cfg s rid o : lookup rid (infl s) = None -> fst (lb_end cfg s rid o) = s.
Proof. intros H. unfold lb_end. rewrite H. reflexivity. Qed.

(* ---- admin operations ---- *)
Lemma add_effect s name w a :
  (snd (lb_add s name w a) = 1 /\ fst (lb_add s name w a) = s)
  \/ (snd (lb_add s name w a) = 0 /\ has_name name (pool s) = false
      /\ poolc (fst (lb_add s name w a)) = poolc s ++ [mkC (nextid s) name 0] /\ deadc (fst (lb_add s name w a)) = deadc s
      /\ infl (fst (lb_add s name w a)) = infl s /\ nextid (fst (lb_add s name w a)) = nextid s + 1
      /\ forall m, nums (fst (lb_add s name w a)) m = nums s m).
Proof.
  unfold lb_add. destruct a; cbn [negb]; [|left; split; reflexivity].
  destruct (has_name name (pool s)) eqn:Eh; [left; split; reflexivity|]. right. cbn [fst snd].
  split; [reflexivity|]. split; [reflexivity|].
  set (b := mkB (nextid s) name (if w <? 1 then 1 else w) true 0 0 0).
  set (s1 := with_nextid (with_ss s (s_add (ss s) b)) (nextid s + 1)).
  destruct (neutral_mirror_health s1 name true) as (N1 & N2 & N3 & N4 & N5).
  split; [|split; [|split; [|split]]].
  - rewrite N1. unfold poolc. change (pool s1) with (pool s ++ [set_cw 0 b]). rewrite map_app. reflexivity.
  - rewrite N2. reflexivity.
  - rewrite N3. reflexivity.
  - rewrite N4. reflexivity.
  - intros m. rewrite N5. reflexivity.
Qed.

(* removal moves objects from the pool to the drained list; nothing else *)
Lemma find_id_core id p x : find_id id p = Some x -> In (core_of x) (map core_of p).
Proof. intros H. apply find_id_in in H as [H _]. apply in_map. exact H. Qed.

Lemma remove_swap_split id p x : NoDup (map bid p) -> find_id id p = Some x -> Permutation (x :: remove_swap id p) p.
Proof.
  induction p as [|b t IH]; cbn [find_id remove_swap map]; [discriminate|]. intros Hnd.
  inversion Hnd as [|y ys Hn Hd]; subst.
  destruct (Z.eqb (bid b) id) eqn:E.
  - intros H. injection H as <-. destruct (rev t) as [|l r] eqn:Er.
    + assert (t = []) by (destruct t; [reflexivity|]; apply (f_equal (@length _)) in Er; rewrite rev_length in Er; discriminate). subst. constructor. constructor.
    + assert (Ht : t = rev r ++ [l]) by (rewrite <- (rev_involutive t), Er; reflexivity).
      assert (Hrl : removelast t = rev r) by (rewrite Ht; apply removelast_last).
      rewrite Hrl, Ht. constructor. apply Permutation_cons_append.
  - intros H. apply Permutation_trans with (b :: x :: remove_swap id t); [constructor|]. constructor. apply IH; assumption.
Qed.

Lemma mem_id_find id p x : find_id id p = Some x -> mem_id id p = true.
Proof.
  induction p as [|b t IH]; cbn [find_id]; [discriminate|]. unfold mem_id. cbn [existsb].
  destruct (Z.eqb (bid b) id); [reflexivity|]. intros H. apply IH in H. exact H.
Qed.

Lemma s_remove_split s id x : NoDup (map bid (spool s)) -> find_id id (spool s) = Some x ->
  Permutation (core_of x :: map core_of (spool (s_remove s id))) (map core_of (spool s)).
Proof.
  intros Hnd Hf. unfold s_remove. cbn [spool]. rewrite (mem_id_find _ _ _ Hf).
  rewrite map_map. rewrite (map_ext (fun b => core_of (set_cw 0 b)) core_of) by (intros; reflexivity).
  change (core_of x :: map core_of (remove_swap id (spool s))) with (map core_of (x :: remove_swap id (spool s))).
  apply Permutation_map. apply remove_swap_split; assumption.
Qed.

Lemma remove_named_effect name snapshot : forall s,
  NoDup (map bid (pool s)) -> NoDup (map bid snapshot) -> (forall b, In b snapshot -> In (bid b) (map bid (pool s))) ->
  let s' := remove_named name snapshot s in
  exists rem, Permutation (rem ++ poolc s') (poolc s) /\ Permutation (deadc s') (rem ++ deadc s)
              /\ infl s' = infl s /\ nextid s' = nextid s /\ forall m, nums s' m = nums s m.
Proof.
  induction snapshot as [|b t IH]; intros s Hnd Hsn Hin; cbn [remove_named].
  - exists []. cbn [app]. repeat split; auto.
  - inversion Hsn as [|y ys Hnb Hsn']; subst.
    destruct (Z.eqb (bname b) name).
    + destruct (find_id_some _ _ (Hin b (or_introl eq_refl))) as [x Hx]. rewrite Hx.
      set (s1 := with_dead (with_ss s (s_remove (ss s) (bid b))) (x :: dead s)).
      destruct (s_remove_ok (ss s) (bid b) Hnd) as [Hnd1 Hsub].
      pose proof (s_remove_split (ss s) (bid b) x Hnd Hx) as Hsplit.
      assert (Hin1 : forall b', In b' t -> In (bid b') (map bid (pool s1))).
      { intros b' Hb'. specialize (Hin b' (or_intror Hb')).
        assert (Hne : bid b' <> bid b) by (intros E; apply Hnb; rewrite <- E; apply in_map; exact Hb').
        (* the identities of the new pool are those of the old one without bid b *)
        assert (Hp : Permutation (bid x :: map bid (pool s1)) (map bid (pool s))).
        { assert (Hm : forall p, map bid p = map ci (map core_of p)) by (intros p; rewrite map_map; reflexivity).
          rewrite !Hm. change (bid x) with (ci (core_of x)).
          change (ci (core_of x) :: map ci (map core_of (pool s1))) with (map ci (core_of x :: map core_of (pool s1))).
          apply Permutation_map. exact Hsplit. }
        apply (Permutation_in _ (Permutation_sym Hp)) in Hin. destruct Hin as [E|Hin]; [|exact Hin].
        apply find_id_in in Hx as [_ Hxid]. congruence. }
      destruct (IH s1 Hnd1 Hsn' Hin1) as (rem & P1 & P2 & P3 & P4 & P5). cbn zeta in *.
      exists (core_of x :: rem). split; [|split; [|split; [|split]]].
      * cbn [app]. apply Permutation_trans with (core_of x :: poolc s1); [constructor; exact P1|exact Hsplit].
      * apply Permutation_trans with (rem ++ deadc s1); [exact P2|].
        change (deadc s1) with (core_of x :: deadc s). apply Permutation_sym. apply Permutation_middle.
      * rewrite P3. reflexivity.
      * rewrite P4. reflexivity.
      * intros m. rewrite P5. reflexivity.
    + apply IH; [exact Hnd|exact Hsn'|]. intros b' Hb'. apply Hin. right. exact Hb'.
Qed.

Lemma remove_effect s name : NoDup (map bid (pool s)) ->
  let s' := lb_remove s name in
  exists rem, Permutation (rem ++ poolc s') (poolc s) /\ Permutation (deadc s') (rem ++ deadc s)
              /\ infl s' = infl s /\ nextid s' = nextid s /\ forall m, nums s' m = nums s m.
Proof.
  intros Hnd. unfold lb_remove. apply remove_named_effect; [exact Hnd|exact Hnd|]. intros b Hb. apply in_map. exact Hb.
Qed.

(* ================= A. the gauge of every object equals its requests in flight ================= *)
Definition InvA (s : lb) : Prop := InvL (objc s) (infl s) (nextid s).

Lemma objc_setact s s' id a :
  poolc s' = map (setact id a) (poolc s) -> deadc s' = map (setact id a) (deadc s) -> objc s' = map (setact id a) (objc s).
Proof. intros H1 H2. unfold objc. rewrite H1, H2, map_app. reflexivity. Qed.

Lemma neutral_InvA s s' : Neutral s s' -> InvA s -> InvA s'.
Proof. intros (N1 & N2 & N3 & N4 & _) H. unfold InvA, objc. rewrite N1, N2, N3, N4. exact H. Qed.

Lemma act_of_in l id n a : NoDup (map ci l) -> In (mkC id n a) l -> act_of id l = a - 1.
Proof.
  intros Hnd Hin. unfold act_of.
  destruct (find (fun c => Z.eqb (ci c) id) l) as [c|] eqn:E.
  - apply find_some in E as [Hc Hid]. apply Z.eqb_eq in Hid.
    assert (Hc' : c = mkC id n a) by (apply (ci_inj l); auto). rewrite Hc'. reflexivity.
  - exfalso. apply (find_none _ _ E) in Hin. cbn [ci] in Hin. rewrite Z.eqb_refl in Hin. discriminate.
Qed.

Lemma dispatched_InvA s s' rid x : Dispatched s s' rid x -> InvA s -> InvA s'.
Proof.
  intros (n & a & Hin & P1 & P2 & P3 & P4 & _) H. unfold InvA. rewrite (objc_setact _ _ _ _ P1 P2), P3, P4.
  apply InvL_begin; [exact H|]. unfold objc. apply in_or_app. left. exact Hin.
Qed.

Lemma ended_InvA s s' rid id name : lookup rid (infl s) = Some (id, name) -> Ended s s' rid id name -> InvA s -> InvA s'.
Proof.
  intros Hl (ok & P1 & P2 & P3 & P4 & _) H. cbn zeta in *. unfold InvA. rewrite (objc_setact _ _ _ _ P1 P2), P3, P4.
  destruct (InvL_end _ _ _ _ _ _ H Hl) as (a & Ha & Hinv). destruct H as (Hnd & _).
  rewrite (act_of_in _ _ _ _ Hnd Ha). exact Hinv.
Qed.

Lemma InvA_pool_nodup s : InvA s -> NoDup (map bid (pool s)).
Proof.
  intros (Hnd & _). unfold objc in Hnd. rewrite map_app in Hnd. apply nodup_app_l in Hnd.
  unfold poolc in Hnd. rewrite map_map in Hnd. exact Hnd.
Qed.

Theorem step_InvA cfg s o : InvA s -> InvA (fst (lb_step cfg s o)).
Proof.
  intros H. destruct o; cbn [lb_step].
  - destruct (begin_shape cfg s rid q) as [[_ Hn]|(s0 & Hn & E)].
    + destruct (lb_begin cfg s rid q) as [s' [k x]]. cbn [fst] in *. eapply neutral_InvA; eassumption.
    + pose proof (dispatch_tail_effect cfg s0 rid q) as Hd. cbn zeta in Hd. rewrite <- E in Hd.
      destruct (lb_begin cfg s rid q) as [s' [k x]]. cbn [fst snd] in *.
      apply (neutral_InvA _ _ Hn) in H. destruct Hd as [[_ Hd]|[_ Hd]]; [eapply neutral_InvA; eassumption|eapply dispatched_InvA; eassumption].
  - destruct (lookup rid (infl s)) as [[id name]|] eqn:El.
    + pose proof (end_effect cfg s rid o id name El) as He. destruct (lb_end cfg s rid o) as [s' st]. cbn [fst] in *.
      eapply ended_InvA; eassumption.
    + pose proof (end_none cfg s rid o El) as He. destruct (lb_end cfg s rid o) as [s' st]. cbn [fst] in *. subst. exact H.
  - exact H.
  - destruct (add_effect s name w addr_ok) as [[_ E]|(_ & _ & P1 & P2 & P3 & P4 & _)];
      destruct (lb_add s name w addr_ok) as [s' r]; cbn [fst snd] in *; [subst; exact H|].
    unfold InvA, objc. rewrite P1, P2, P3, P4.
    apply InvL_perm with ((poolc s ++ deadc s) ++ [mkC (nextid s) name 0]); [|apply InvL_add; exact H].
    rewrite <- !app_assoc. apply Permutation_app_head. apply Permutation_sym. apply Permutation_cons_append.
  - cbn [fst]. destruct (remove_effect s name (InvA_pool_nodup _ H)) as (rem & P1 & P2 & P3 & P4 & _). cbn zeta in *.
    unfold InvA, objc. rewrite P3, P4. apply InvL_perm with (poolc s ++ deadc s); [|exact H].
    apply Permutation_trans with ((rem ++ poolc (lb_remove s name)) ++ deadc s); [apply Permutation_app_tail, Permutation_sym; exact P1|].
    rewrite <- app_assoc. apply Permutation_trans with (poolc (lb_remove s name) ++ rem ++ deadc s).
    + rewrite !app_assoc. apply Permutation_app_tail. apply Permutation_app_comm.
    + apply Permutation_app_head. apply Permutation_sym. exact P2.
  - pose proof (neutral_strategy s k) as Hn. destruct (lb_set_strategy s k) as [s' r]. cbn [fst] in *. eapply neutral_InvA; eassumption.
  - exact H.
  - exact H.
  - cbn [fst]. eapply neutral_InvA; [apply neutral_probe|exact H].
  - cbn [fst]. eapply neutral_InvA; [apply neutral_lims|exact H].
  - exact H.
Qed.

Theorem run_InvA cfg ops : forall s, InvA s -> InvA (fst (lb_run cfg s ops)).
Proof.
  induction ops as [|o t IH]; intros s H; cbn [lb_run]; [exact H|].
  pose proof (step_InvA cfg s o H) as H1. destruct (lb_step cfg s o) as [s1 out]. cbn [fst] in H1.
  specialize (IH s1 H1). destruct (lb_run cfg s1 t) as [s2 outs]. exact IH.
Qed.

Lemma init_InvA cfg k t0 : InvA (lb_init cfg k t0).
Proof. split; [constructor|]. split; [intros c []|]. split; [intros c []|intros e []]. Qed.

(* in every reachable state, for every *Backend object (pooled or removed): ActiveConnections = requests in flight on it *)
Theorem object_gauge cfg k t0 ops :
  let s := fst (lb_run cfg (lb_init cfg k t0) ops) in
  forall b, In b (pool s ++ dead s) -> bactive b = cnt (bid b) (infl s).
Proof.
  cbn zeta. intros b Hb. pose proof (run_InvA cfg ops _ (init_InvA cfg k t0)) as (_ & _ & C & _).
  specialize (C (core_of b)). cbn [ca ci core_of] in C. apply C.
  unfold objc, poolc, deadc. rewrite <- map_app. apply in_map. exact Hb.
Qed.

Lemma cnt_nil_zero id fl : (forall e, In e fl -> eid e <> id) -> cnt id fl = 0.
Proof.
  induction fl as [|e t IH]; intros H; cbn [cnt]; [reflexivity|].
  assert (E : Z.eqb (eid e) id = false) by (apply Z.eqb_neq; apply H; left; reflexivity). rewrite E.
  rewrite IH; [reflexivity|]. intros e' He'. apply H. right. exact He'.
Qed.

(* ... hence zero for every object nothing is in flight on, and for all of them at quiescence *)
Theorem object_gauge_idle cfg k t0 ops :
  let s := fst (lb_run cfg (lb_init cfg k t0) ops) in
  forall b, In b (pool s ++ dead s) -> (forall e, In e (infl s) -> eid e <> bid b) -> bactive b = 0.
Proof. cbn zeta. intros b Hb Hidle. rewrite (object_gauge cfg k t0 ops b Hb). apply cnt_nil_zero. exact Hidle. Qed.

(* ================= B. per-name totals count the requests that were sent to that name ================= *)
Definition tot_of (v : Z * Z * Z * Z) : Z := let '(t, _, _, _) := v in t.
Definition succ_of (v : Z * Z * Z * Z) : Z := let '(_, su, _, _) := v in su.
Definition fail_of (v : Z * Z * Z * Z) : Z := let '(_, _, f, _) := v in f.
Definition gauge_of (v : Z * Z * Z * Z) : Z := let '(_, _, _, g) := v in g.

Definition name_of (s : lb) (id : Z) : Z := match find_obj s id with Some b => bname b | None => -1 end.

(* number of requests of the history that were dispatched to a backend object named [name] *)
Fixpoint sent (cfg : lbcfg) (name : Z) (s : lb) (ops : list lbop) : Z :=
  match ops with
  | [] => 0
  | o :: t =>
      let '(s', out) := lb_step cfg s o in
      (match o, out with
       | LBegin _ _, [0; x] => if Z.eqb (name_of s' x) name then 1 else 0
       | _, _ => 0
       end) + sent cfg name s' t
  end.

(* the measure that a dispatch increases and nothing else changes *)
Definition owed (s : lb) (n : Z) : Z := tot_of (nums s n) + cntn n (infl s).

Lemma neutral_owed s s' n : Neutral s s' -> owed s' n = owed s n.
Proof. intros (_ & _ & N3 & _ & N5). unfold owed. rewrite N3, N5. reflexivity. Qed.

Lemma find_obj_core s id b : find_obj s id = Some b -> In (core_of b) (objc s) /\ bid b = id.
Proof.
  unfold find_obj, objc, poolc, deadc. destruct (find_id id (pool s)) as [x|] eqn:E.
  - intros H. injection H as <-. apply find_id_in in E as [Hin Hid]. split; [apply in_or_app; left; apply in_map; exact Hin|exact Hid].
  - intros H. apply find_id_in in H as [Hin Hid]. split; [apply in_or_app; right; apply in_map; exact Hin|exact Hid].
Qed.

Lemma find_obj_none s id : find_obj s id = None -> ~ In id (map ci (objc s)).
Proof.
  unfold find_obj, objc, poolc, deadc. destruct (find_id id (pool s)) as [x|] eqn:E; [discriminate|].
  intros H Hin. rewrite map_app, !map_map in Hin. apply in_app_or in Hin as [Hin|Hin].
  - destruct (find_id_some id (pool s)) as [b Hb]; [exact Hin|congruence].
  - destruct (find_id_some id (dead s)) as [b Hb]; [exact Hin|congruence].
Qed.

Lemma name_of_core s x n a : NoDup (map ci (objc s)) -> In (mkC x n a) (objc s) -> name_of s x = n.
Proof.
  intros Hnd Hin. unfold name_of. destruct (find_obj s x) as [b|] eqn:E.
  - apply find_obj_core in E as [Hb Hid].
    assert (Hc : core_of b = mkC x n a) by (apply (ci_inj (objc s)); auto).
    apply (f_equal cn) in Hc. exact Hc.
  - exfalso. apply (find_obj_none _ _ E). change x with (ci (mkC x n a)). apply in_map. exact Hin.
Qed.

Lemma set_gauge_tot v g : tot_of (set_gauge v g) = tot_of v.
Proof. destruct v as [[[t su] f] g0]. reflexivity. Qed.
Lemma bump_tot_tot v ok : tot_of (bump_tot v ok) = tot_of v + 1.
Proof. destruct v as [[[t su] f] g0]. reflexivity. Qed.

Lemma step_owed cfg s o n : InvA s ->
  owed (fst (lb_step cfg s o)) n = owed s n + sent cfg n s [o].
Proof.
  intros H. pose proof (step_InvA cfg s o H) as H'. cbn [sent]. destruct o; cbn [lb_step] in *.
  - destruct (begin_shape cfg s rid q) as [[Hk Hn]|(s0 & Hn & E)].
    + destruct (lb_begin cfg s rid q) as [s' [k x]]. cbn [fst snd] in *. subst k. rewrite (neutral_owed _ _ _ Hn). lia.
    + pose proof (dispatch_tail_effect cfg s0 rid q) as Hd. cbn zeta in Hd. rewrite <- E in Hd.
      destruct (lb_begin cfg s rid q) as [s' [k x]]. cbn [fst snd] in *.
      destruct Hd as [[Hk Hd]|[Hk Hd]]; subst k.
      * rewrite (neutral_owed _ _ _ Hd), (neutral_owed _ _ _ Hn). lia.
      * destruct Hd as (n0 & a & Hin & P1 & P2 & P3 & P4 & P5).
        assert (Hname : name_of s' x = n0).
        { destruct H' as (Hnd' & _). apply (name_of_core s' x n0 (a + 1) Hnd').
          rewrite (objc_setact _ _ _ _ P1 P2). apply in_map_iff. exists (mkC x n0 a).
          split; [unfold setact; cbn [ci cn]; rewrite Z.eqb_refl; reflexivity|unfold objc; apply in_or_app; left; exact Hin]. }
        rewrite Hname. unfold owed. rewrite P3, P5. cbn [cntn ename fst snd].
        destruct Hn as (_ & _ & N3 & _ & N5). rewrite N3, N5.
        rewrite (Z.eqb_sym n0 n). destruct (Z.eqb n n0); [rewrite set_gauge_tot|]; lia.
  - destruct (lookup rid (infl s)) as [[id name]|] eqn:El.
    + pose proof (end_effect cfg s rid o id name El) as (ok & _ & _ & P3 & _ & P5). cbn zeta in *.
      destruct (lb_end cfg s rid o) as [s' st]. cbn [fst] in *. unfold owed. rewrite P3, P5, (cntn_remove _ _ _ _ n El).
      rewrite (Z.eqb_sym name n). destruct (Z.eqb n name); [rewrite set_gauge_tot, bump_tot_tot|]; lia.
    + pose proof (end_none cfg s rid o El) as He. destruct (lb_end cfg s rid o) as [s' st]. cbn [fst] in *. subst. lia.
  - cbn [fst]. unfold owed. change (nums (with_now s (now s + dt)) n) with (nums s n). cbn [infl with_now]. lia.
  - destruct (add_effect s name w addr_ok) as [[_ E]|(_ & _ & _ & _ & P3 & _ & P5)];
      destruct (lb_add s name w addr_ok) as [s' r]; cbn [fst snd] in *; [subst; lia|]. unfold owed. rewrite P3, P5. lia.
  - cbn [fst]. destruct (remove_effect s name (InvA_pool_nodup _ H)) as (rem & _ & _ & P3 & _ & P5). cbn zeta in *.
    unfold owed. rewrite P3, P5. lia.
  - pose proof (neutral_strategy s k) as Hn. destruct (lb_set_strategy s k) as [s' r]. cbn [fst] in *. rewrite (neutral_owed _ _ _ Hn). lia.
  - cbn [fst]. lia.
  - cbn [fst]. lia.
  - cbn [fst]. rewrite (neutral_owed _ _ _ (neutral_probe cfg s id ok)). lia.
  - cbn [fst]. rewrite (neutral_owed _ _ _ (neutral_lims s _)). lia.
  - cbn [fst]. unfold owed. change (nums (with_stopped s true) n) with (nums s n). cbn [infl with_stopped]. lia.
Qed.

Theorem run_owed cfg n ops : forall s, InvA s ->
  owed (fst (lb_run cfg s ops)) n = owed s n + sent cfg n s ops.
Proof.
  induction ops as [|o t IH]; intros s H; cbn [lb_run sent]; [cbn [fst]; lia|].
  pose proof (step_owed cfg s o n H) as H1. pose proof (step_InvA cfg s o H) as H2. cbn [sent] in H1.
  destruct (lb_step cfg s o) as [s1 out]. cbn [fst] in *.
  specialize (IH s1 H2). destruct (lb_run cfg s1 t) as [s2 outs]. cbn [fst] in *. cbn [sent] in H1. lia.
Qed.

(* per-name total + requests still in flight on that name = requests sent to backends of that name *)
Theorem backend_totals cfg k t0 ops n :
  let s := fst (lb_run cfg (lb_init cfg k t0) ops) in
  m_total (bm_get s n) + cntn n (infl s) = sent cfg n (lb_init cfg k t0) ops.
Proof.
  cbn zeta. pose proof (run_owed cfg n ops _ (init_InvA cfg k t0)) as H. unfold owed in H.
  change (tot_of (nums ?s n)) with (m_total (bm_get s n)) in H. cbn [infl lb_init cntn] in H.
  change (m_total (bm_get (lb_init cfg k t0) n)) with 0 in H. lia.
Qed.

(* every completed request of a name is counted as exactly one of successful / failed *)
Definition split_ok (s : lb) : Prop := forall n, tot_of (nums s n) = succ_of (nums s n) + fail_of (nums s n).

Lemma neutral_split s s' : Neutral s s' -> split_ok s -> split_ok s'.
Proof. intros (_ & _ & _ & _ & N5) H n. rewrite N5. apply H. Qed.

Lemma step_split cfg s o : split_ok s -> split_ok (fst (lb_step cfg s o)).
Proof.
  intros H. destruct o; cbn [lb_step]; try exact H.
  - destruct (begin_shape cfg s rid q) as [[_ Hn]|(s0 & Hn & E)].
    + destruct (lb_begin cfg s rid q) as [s' [k x]]. cbn [fst] in *. eapply neutral_split; eassumption.
    + pose proof (dispatch_tail_effect cfg s0 rid q) as Hd. cbn zeta in Hd. rewrite <- E in Hd.
      destruct (lb_begin cfg s rid q) as [s' [k x]]. cbn [fst snd] in *. apply (neutral_split _ _ Hn) in H.
      destruct Hd as [[_ Hd]|[_ Hd]]; [eapply neutral_split; eassumption|].
      destruct Hd as (n0 & a & _ & _ & _ & _ & _ & P5). intros n. rewrite P5. specialize (H n).
      destruct (Z.eqb n n0); [|exact H]. destruct (nums s0 n) as [[[t su] f] g]. exact H.
  - destruct (lookup rid (infl s)) as [[id name]|] eqn:El.
    + pose proof (end_effect cfg s rid o id name El) as (ok & _ & _ & _ & _ & P5). cbn zeta in *.
      destruct (lb_end cfg s rid o) as [s' st]. cbn [fst] in *. intros n. rewrite P5. specialize (H n).
      destruct (Z.eqb n name); [|exact H]. destruct (nums s n) as [[[t su] f] g]. cbn in *. destruct ok; lia.
    + pose proof (end_none cfg s rid o El) as He. destruct (lb_end cfg s rid o) as [s' st]. cbn [fst] in *. subst. exact H.
  - destruct (add_effect s name w addr_ok) as [[_ E]|(_ & _ & _ & _ & _ & _ & P5)];
      destruct (lb_add s name w addr_ok) as [s' r]; cbn [fst snd] in *; [subst; exact H|]. intros n. rewrite P5. apply H.
  - cbn [fst]. unfold lb_remove. intros n.
    assert (Hn : forall snap s0, nums (remove_named name snap s0) n = nums s0 n).
    { induction snap as [|b t IH]; intros s0; cbn [remove_named]; [reflexivity|].
      destruct (Z.eqb (bname b) name); [rewrite IH; reflexivity|apply IH]. }
    rewrite Hn. apply H.
  - pose proof (neutral_strategy s k) as Hn. destruct (lb_set_strategy s k) as [s' r]. cbn [fst] in *. eapply neutral_split; eassumption.
  - cbn [fst]. eapply neutral_split; [apply neutral_probe|exact H].
Qed.

Theorem backend_split cfg k t0 ops n :
  let s := fst (lb_run cfg (lb_init cfg k t0) ops) in
  m_total (bm_get s n) = m_succ (bm_get s n) + m_fail (bm_get s n).
Proof.
  cbn zeta. assert (H : forall ops s, split_ok s -> split_ok (fst (lb_run cfg s ops))).
  { clear. induction ops as [|o t IH]; intros s H; cbn [lb_run]; [exact H|].
    pose proof (step_split cfg s o H) as H1. destruct (lb_step cfg s o) as [s1 out]. cbn [fst] in H1.
    specialize (IH s1 H1). destruct (lb_run cfg s1 t) as [s2 outs]. exact IH. }
  assert (H0 : split_ok (lb_init cfg k t0)) by (intros m; reflexivity).
  exact (H ops _ H0 n).
Qed.

(* ================= C. the published (by-name) gauge ================= *)
(* A history is "clean" when no name is added while a request is still in flight on a (removed) backend of that name. *)
Definition clean_op (s : lb) (o : lbop) : Prop :=
  match o with
  | LAdd name _ true => has_name name (pool s) = false -> cntn name (infl s) = 0
  | _ => True
  end.
Fixpoint clean_run (cfg : lbcfg) (s : lb) (ops : list lbop) : Prop :=
  match ops with
  | [] => True
  | o :: t => clean_op s o /\ clean_run cfg (fst (lb_step cfg s o)) t
  end.

Definition InvC (s : lb) : Prop :=
  (forall n, gauge_of (nums s n) = cntn n (infl s))
  /\ (forall e c, In e (infl s) -> In c (poolc s) -> cn c = ename e -> ci c = eid e)
  /\ (forall e1 e2, In e1 (infl s) -> In e2 (infl s) -> ename e1 = ename e2 -> eid e1 = eid e2)
  /\ NoDup (map cn (poolc s)).

Lemma neutral_InvC s s' : Neutral s s' -> InvC s -> InvC s'.
Proof.
  intros (N1 & N2 & N3 & N4 & N5) (A & B & C & D). unfold InvC. rewrite N1, N3. split; [|split; [|split]]; auto.
  intros n. rewrite N5. apply A.
Qed.

Lemma cnt_eq_cntn id n fl : (forall e, In e fl -> (eid e = id <-> ename e = n)) -> cnt id fl = cntn n fl.
Proof.
  induction fl as [|e t IH]; intros H; cbn [cnt cntn]; [reflexivity|].
  rewrite IH by (intros e' He'; apply H; right; exact He').
  destruct (H e (or_introl eq_refl)) as [H1 H2].
  destruct (Z.eqb (eid e) id) eqn:E1; destruct (Z.eqb (ename e) n) eqn:E2; try reflexivity.
  - apply Z.eqb_eq in E1. apply H1 in E1. apply Z.eqb_neq in E2. contradiction.
  - apply Z.eqb_eq in E2. apply H2 in E2. apply Z.eqb_neq in E1. contradiction.
Qed.

Lemma cntn_zero_none n fl e : cntn n fl = 0 -> In e fl -> ename e <> n.
Proof.
  induction fl as [|x t IH]; cbn [cntn]; [intros _ []|].
  assert (Hnn : forall l, 0 <= cntn n l) by (induction l as [|y l IHl]; cbn [cntn]; [lia|destruct (Z.eqb (ename y) n); lia]).
  intros H [<-|Hin].
  - destruct (Z.eqb (ename x) n) eqn:E; [specialize (Hnn t); lia|apply Z.eqb_neq; exact E].
  - apply IH; [|exact Hin]. specialize (Hnn t). destruct (Z.eqb (ename x) n); lia.
Qed.

Lemma set_gauge_gauge v g : gauge_of (set_gauge v g) = g.
Proof. destruct v as [[[t su] f] g0]. reflexivity. Qed.

Lemma map_setact_cn id a l : map cn (map (setact id a) l) = map cn l.
Proof. rewrite map_map. apply map_ext. intros c. apply setact_cn. Qed.

Lemma cn_inj l c c' : NoDup (map cn l) -> In c l -> In c' l -> cn c = cn c' -> c = c'.
Proof.
  induction l as [|x t IH]; cbn [map]; intros Hnd H1 H2 He; [destruct H1|].
  inversion Hnd as [|y ys Hn Hd]; subst.
  destruct H1 as [->|H1]; destruct H2 as [->|H2]; auto.
  - exfalso. apply Hn. rewrite He. apply in_map. exact H2.
  - exfalso. apply Hn. rewrite <- He. apply in_map. exact H1.
Qed.

Lemma dispatched_InvC s s' rid x : Dispatched s s' rid x -> InvA s -> InvC s -> InvC s'.
Proof.
  intros (n & a & Hin & P1 & P2 & P3 & P4 & P5) HA (A & B & C & D).
  assert (Hobj : In (mkC x n a) (objc s)) by (unfold objc; apply in_or_app; left; exact Hin).
  destruct HA as (Hnd & _ & I3 & I4).
  (* every entry in flight on name n is on object x and conversely *)
  assert (Hiff : forall e, In e (infl s) -> (eid e = x <-> ename e = n)).
  { intros e He. split; intros E.
    - destruct (I4 e He) as [a' Ha']. assert (Hc : mkC (eid e) (ename e) a' = mkC x n a) by (apply (ci_inj (objc s)); auto).
      apply (f_equal cn) in Hc. exact Hc.
    - symmetry. apply (B e (mkC x n a) He Hin). cbn [cn]. symmetry. exact E. }
  assert (Ha : a = cntn n (infl s)).
  { specialize (I3 _ Hobj). cbn [ca ci] in I3. rewrite I3. apply cnt_eq_cntn. exact Hiff. }
  unfold InvC. rewrite P1, P3. split; [|split; [|split]].
  - intros m. rewrite P5. cbn [cntn ename fst snd]. rewrite (Z.eqb_sym n m). destruct (Z.eqb m n) eqn:E.
    + apply Z.eqb_eq in E. subst m. rewrite set_gauge_gauge. lia.
    + rewrite A. lia.
  - intros e c [<-|He] Hc Hn; apply in_map_iff in Hc as [c0 [<- Hc0]]; rewrite setact_ci; rewrite setact_cn in Hn; cbn [eid ename fst snd] in *.
    + assert (Hcc : c0 = mkC x n a) by (apply (cn_inj (poolc s)); auto). rewrite Hcc. reflexivity.
    + apply B; assumption.
  - intros e1 e2 [<-|H1] [<-|H2] Hn; cbn [eid ename fst snd] in *; auto.
    + symmetry. apply (Hiff e2 H2). symmetry. exact Hn.
    + apply (Hiff e1 H1). exact Hn.
  - rewrite map_setact_cn. exact D.
Qed.

Lemma ended_InvC s s' rid id name : lookup rid (infl s) = Some (id, name) -> Ended s s' rid id name -> InvA s -> InvC s -> InvC s'.
Proof.
  intros Hl (ok & P1 & P2 & P3 & P4 & P5) HA (A & B & C & D). cbn zeta in *.
  destruct (InvL_end _ _ _ _ _ _ HA Hl) as (a & Ha & _). destruct HA as (Hnd & _ & I3 & I4).
  rewrite (act_of_in _ _ _ _ Hnd Ha) in *.
  pose proof (lookup_in _ _ _ Hl) as Hent.
  assert (Hiff : forall e, In e (infl s) -> (eid e = id <-> ename e = name)).
  { intros e He. split; intros E.
    - destruct (I4 e He) as [a' Ha']. assert (Hc : mkC (eid e) (ename e) a' = mkC id name a) by (apply (ci_inj (objc s)); auto).
      apply (f_equal cn) in Hc. exact Hc.
    - apply (C e (rid, (id, name)) He Hent). exact E. }
  assert (Hcnt : a = cntn name (infl s)).
  { specialize (I3 _ Ha). cbn [ca ci] in I3. rewrite I3. apply cnt_eq_cntn. exact Hiff. }
  unfold InvC. rewrite P1, P3. split; [|split; [|split]].
  - intros m. rewrite P5, (cntn_remove _ _ _ _ m Hl). rewrite (Z.eqb_sym name m). destruct (Z.eqb m name) eqn:E.
    + apply Z.eqb_eq in E. subst m. rewrite set_gauge_gauge. lia.
    + rewrite A. lia.
  - intros e c He Hc Hn. apply remove_infl_in in He. apply in_map_iff in Hc as [c0 [<- Hc0]]. rewrite setact_ci. rewrite setact_cn in Hn.
    apply B; assumption.
  - intros e1 e2 H1 H2. apply remove_infl_in in H1. apply remove_infl_in in H2. apply C; assumption.
  - rewrite map_setact_cn. exact D.
Qed.

Lemma has_name_false name p : has_name name p = false -> ~ In name (map bname p).
Proof.
  unfold has_name. intros H Hin. apply in_map_iff in Hin as [b [Hb Hbin]].
  assert (existsb (fun b0 => Z.eqb (bname b0) name) p = true) by (apply existsb_exists; exists b; split; [exact Hbin|lia]). congruence.
Qed.

Theorem step_InvC cfg s o : InvA s -> InvC s -> clean_op s o -> InvC (fst (lb_step cfg s o)).
Proof.
  intros HA H Hclean. destruct o; cbn [lb_step].
  - destruct (begin_shape cfg s rid q) as [[_ Hn]|(s0 & Hn & E)].
    + destruct (lb_begin cfg s rid q) as [s' [k x]]. cbn [fst] in *. eapply neutral_InvC; eassumption.
    + pose proof (dispatch_tail_effect cfg s0 rid q) as Hd. cbn zeta in Hd. rewrite <- E in Hd.
      destruct (lb_begin cfg s rid q) as [s' [k x]]. cbn [fst snd] in *.
      apply (neutral_InvC _ _ Hn) in H. apply (neutral_InvA _ _ Hn) in HA.
      destruct Hd as [[_ Hd]|[_ Hd]]; [eapply neutral_InvC; eassumption|eapply dispatched_InvC; eassumption].
  - destruct (lookup rid (infl s)) as [[id name]|] eqn:El.
    + pose proof (end_effect cfg s rid o id name El) as He. destruct (lb_end cfg s rid o) as [s' st]. cbn [fst] in *.
      eapply ended_InvC; eassumption.
    + pose proof (end_none cfg s rid o El) as He. destruct (lb_end cfg s rid o) as [s' st]. cbn [fst] in *. subst. exact H.
  - exact H.
  - destruct (add_effect s name w addr_ok) as [[_ E]|(Hr & Hnm & P1 & P2 & P3 & P4 & P5)];
      destruct (lb_add s name w addr_ok) as [s' r] eqn:Ea; cbn [fst snd] in *; [subst; exact H|].
    assert (Hok : addr_ok = true) by (destruct addr_ok; [reflexivity|unfold lb_add in Ea; cbn in Ea; congruence]). subst addr_ok.
    cbn [clean_op] in Hclean. specialize (Hclean Hnm).
    destruct H as (A & B & C & D). unfold InvC. rewrite P1, P3. split; [|split; [|split]].
    + intros m. rewrite P5. apply A.
    + intros e c He Hc Hn. apply in_app_or in Hc as [Hc|[<-|[]]]; [apply B; assumption|].
      cbn [cn] in Hn. exfalso. apply (cntn_zero_none _ _ e Hclean He). symmetry. exact Hn.
    + exact C.
    + rewrite map_app. cbn [map cn]. apply NoDup_snoc; [exact D|].
      unfold poolc. rewrite map_map. apply has_name_false. exact Hnm.
  - cbn [fst]. destruct (remove_effect s name (InvA_pool_nodup _ HA)) as (rem & P1 & P2 & P3 & P4 & P5). cbn zeta in *.
    destruct H as (A & B & C & D). unfold InvC. rewrite P3. split; [|split; [|split]].
    + intros m. rewrite P5. apply A.
    + intros e c He Hc Hn. apply B; [exact He| |exact Hn]. apply (Permutation_in _ P1). apply in_or_app. right. exact Hc.
    + exact C.
    + assert (Hp : Permutation (map cn rem ++ map cn (poolc (lb_remove s name))) (map cn (poolc s))) by (rewrite <- map_app; apply Permutation_map; exact P1).
      apply (Permutation_NoDup (Permutation_sym Hp)) in D.
      apply (Permutation_NoDup (Permutation_app_comm _ _)) in D. apply nodup_app_l in D. exact D.
  - pose proof (neutral_strategy s k) as Hn. destruct (lb_set_strategy s k) as [s' r]. cbn [fst] in *. eapply neutral_InvC; eassumption.
  - exact H.
  - exact H.
  - cbn [fst]. eapply neutral_InvC; [apply neutral_probe|exact H].
  - cbn [fst]. eapply neutral_InvC; [apply neutral_lims|exact H].
  - exact H.
Qed.

Theorem run_InvC cfg ops : forall s, InvA s -> InvC s -> clean_run cfg s ops -> InvC (fst (lb_run cfg s ops)).
Proof.
  induction ops as [|o t IH]; intros s HA H Hc; cbn [lb_run]; [exact H|]. destruct Hc as [Hc1 Hc2].
  pose proof (step_InvA cfg s o HA) as HA1. pose proof (step_InvC cfg s o HA H Hc1) as H1.
  destruct (lb_step cfg s o) as [s1 out]. cbn [fst] in *.
  specialize (IH s1 HA1 H1 Hc2). destruct (lb_run cfg s1 t) as [s2 outs]. exact IH.
Qed.

Lemma init_InvC cfg k t0 : InvC (lb_init cfg k t0).
Proof. split; [intros n; reflexivity|]. split; [intros e c []|]. split; [intros e1 e2 []|constructor]. Qed.

(* on clean histories the published gauge of every name equals the requests in flight on that name *)
Theorem mirror_gauge_clean cfg k t0 ops n :
  clean_run cfg (lb_init cfg k t0) ops ->
  let s := fst (lb_run cfg (lb_init cfg k t0) ops) in m_gauge (bm_get s n) = cntn n (infl s).
Proof.
  intros Hc. cbn zeta. destruct (run_InvC cfg ops _ (init_InvA cfg k t0) (init_InvC cfg k t0) Hc) as (A & _). exact (A n).
Qed.

(* without the proviso the statement is false: the known finding, as a history of the model *)
Definition refute_cfg : lbcfg :=
  {| c_passive := false; c_pthr := 1; c_ptimeout := 30; c_active := false; c_lim := false;
     c_lcfg := {| Helios.Model.Limiter.lmax := 1; Helios.Model.Limiter.lrate := 1 |}; c_brk := false;
     c_bcfg := {| Helios.Model.Breaker.maxReq := 1; Helios.Model.Breaker.interval := 1;
                  Helios.Model.Breaker.btimeout := 1; Helios.Model.Breaker.fthr := 1; Helios.Model.Breaker.sthr := 1 |} |}.
Definition refute_q : req := {| h_xff := []; h_xri := []; h_remote := [49] |}.
Definition refute_ops : list lbop :=
  [LAdd 4 1 true; LBegin 1 refute_q; LRemove 4; LAdd 4 1 true; LBegin 2 refute_q; LEnd 1 (OStatus 200)].

Theorem mirror_gauge_refuted :
  let s := fst (lb_run refute_cfg (lb_init refute_cfg RR 0) refute_ops) in
  m_gauge (bm_get s 4) = 0 /\ cntn 4 (infl s) = 1.
Proof. vm_compute. split; reflexivity. Qed.
