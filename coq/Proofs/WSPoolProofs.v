(* Proofs about Model/WSPool.v: max_idle, freshness, exclusivity under the holder protocol, shutdown. *)
From Helios Require Import Base.Prelude Model.WSPool.

Local Arguments Z.add : simpl never.
Local Arguments Z.sub : simpl never.

Lemma count_backend_app b a c : count_backend b (a ++ c) = count_backend b a + count_backend b c.
Proof. unfold count_backend, zlen. rewrite filter_app, app_length. lia. Qed.

Lemma count_backend_nonneg b l : 0 <= count_backend b l.
Proof. unfold count_backend, zlen. lia. Qed.

Lemma count_backend_rev b l : count_backend b (rev l) = count_backend b l.
Proof.
  induction l as [|e t IH]; [reflexivity|]. cbn [rev]. rewrite count_backend_app, IH.
  unfold count_backend, zlen. cbn [filter]. destruct (Z.eqb (e_backend e) b); cbn [length]; lia.
Qed.

Lemma count_backend_filter b f l : count_backend b (filter f l) <= count_backend b l.
Proof.
  induction l as [|e t IH]; [cbn; lia|]. unfold count_backend, zlen in *. cbn [filter].
  destruct (f e); cbn [filter]; destruct (Z.eqb (e_backend e) b); cbn [length]; lia.
Qed.

Lemma count_backend_cons b e l :
  count_backend b (e :: l) = (if Z.eqb (e_backend e) b then 1 else 0) + count_backend b l.
Proof. unfold count_backend, zlen. cbn [filter]. destruct (Z.eqb (e_backend e) b); cbn [length]; lia. Qed.

(* ---- the scan of Get ---- *)
Definition scan_r cfg now b l := fst (fst (get_scan cfg now b l)).
Definition scan_rest cfg now b l := snd (fst (get_scan cfg now b l)).
Definition scan_cl cfg now b l := snd (get_scan cfg now b l).

Ltac scan_cases cfg now b e t :=
  unfold scan_r, scan_rest, scan_cl in *; cbn [get_scan] in *;
  destruct (Z.eqb (e_backend e) b) eqn:Eb;
  [destruct (stale cfg now e) eqn:Es; [destruct (get_scan cfg now b t) as [[r rest] cl]|]
  |destruct (get_scan cfg now b t) as [[r rest] cl]]; cbn [fst snd] in *.

Lemma scan_rest_sub cfg now b l e0 : In e0 (scan_rest cfg now b l) -> In e0 l.
Proof.
  induction l as [|e t IH]; [cbn; auto|]. scan_cases cfg now b e t.
  - intros H. right. apply IH. exact H.
  - intros H. right. exact H.
  - intros [<-|H]; [left; reflexivity|right; apply IH; exact H].
Qed.

Lemma scan_rest_conn cfg now b l c : In c (map e_conn (scan_rest cfg now b l)) -> In c (map e_conn l).
Proof. intros H. apply in_map_iff in H as [e [He Hin]]. apply scan_rest_sub in Hin. apply in_map_iff. exists e. auto. Qed.

Lemma scan_rest_nodup cfg now b l : NoDup (map e_conn l) -> NoDup (map e_conn (scan_rest cfg now b l)).
Proof.
  induction l as [|e t IH]; intros Hnd; [cbn; constructor|].
  cbn [map] in Hnd. inversion Hnd as [|x xs Hnin Hnd']; subst.
  pose proof (scan_rest_conn cfg now b t (e_conn e)) as Hsub.
  scan_cases cfg now b e t.
  - apply IH. exact Hnd'.
  - exact Hnd'.
  - cbn [map]. constructor; [intros H; apply Hnin; apply Hsub; exact H|apply IH; exact Hnd'].
Qed.

Lemma scan_cl_spec cfg now b l c :
  NoDup (map e_conn l) -> In c (scan_cl cfg now b l) -> In c (map e_conn l) /\ ~ In c (map e_conn (scan_rest cfg now b l)).
Proof.
  induction l as [|e t IH]; intros Hnd Hc; [cbn in Hc; destruct Hc|].
  cbn [map] in Hnd. inversion Hnd as [|x xs Hnin Hnd']; subst.
  pose proof (scan_rest_conn cfg now b t) as Hsub.
  scan_cases cfg now b e t.
  - destruct Hc as [<-|Hc].
    + split; [left; reflexivity|]. intros H. apply Hnin. apply Hsub. exact H.
    + destruct (IH Hnd' Hc) as [H1 H2]. split; [right; exact H1|exact H2].
  - destruct Hc.
  - destruct (IH Hnd' Hc) as [H1 H2]. split; [right; exact H1|].
    cbn [map]. intros [Heq|H]; [apply Hnin; rewrite Heq; exact H1|contradiction].
Qed.

Lemma scan_r_spec cfg now b l c :
  NoDup (map e_conn l) -> scan_r cfg now b l = Some c ->
  In c (map e_conn l) /\ ~ In c (map e_conn (scan_rest cfg now b l)) /\ ~ In c (scan_cl cfg now b l)
  /\ exists e, In e l /\ e_conn e = c /\ e_backend e = b /\ stale cfg now e = false.
Proof.
  induction l as [|e t IH]; intros Hnd Hr; [cbn in Hr; discriminate|].
  cbn [map] in Hnd. inversion Hnd as [|x xs Hnin Hnd']; subst.
  pose proof (scan_rest_conn cfg now b t) as Hsub.
  pose proof (fun c0 => scan_cl_spec cfg now b t c0 Hnd') as Hcl.
  scan_cases cfg now b e t.
  - destruct (IH Hnd' Hr) as (H1 & H2 & H3 & e' & He' & Hc' & Hb' & Hs').
    split; [right; exact H1|]. split; [exact H2|]. split.
    + intros [Heq|H]; [apply Hnin; rewrite Heq; exact H1|contradiction].
    + exists e'. repeat split; auto. right. exact He'.
  - injection Hr as <-. split; [left; reflexivity|]. split; [exact Hnin|]. split; [intros []|].
    exists e. repeat split; auto; [left; reflexivity|apply Z.eqb_eq; exact Eb].
  - destruct (IH Hnd' Hr) as (H1 & H2 & H3 & e' & He' & Hc' & Hb' & Hs').
    split; [right; exact H1|]. split.
    + cbn [map]. intros [Heq|H]; [apply Hnin; rewrite Heq; exact H1|contradiction].
    + split; [exact H3|]. exists e'. repeat split; auto. right. exact He'.
Qed.

(* ---- max_idle ---- *)
Definition MaxIdleInv (cfg : wpcfg) (s : wpool) : Prop := forall b, count_backend b (pw_idle s) <= Z.max 0 (wc_max_idle cfg).

Lemma NoDup_rev_map (l : list entry) : NoDup (map e_conn l) -> NoDup (map e_conn (rev l)).
Proof. intros H. rewrite map_rev. apply NoDup_rev. exact H. Qed.

Lemma get_scan_count cfg now b l b' :
  count_backend b' (snd (fst (get_scan cfg now b l))) <= count_backend b' l.
Proof.
  induction l as [|e t IH]; [cbn; lia|]. cbn [get_scan].
  destruct (Z.eqb (e_backend e) b) eqn:Eb.
  - destruct (stale cfg now e).
    + destruct (get_scan cfg now b t) as [[r rest] cl]. cbn [fst snd] in *. rewrite count_backend_cons.
      destruct (Z.eqb (e_backend e) b'); lia.
    + cbn [fst snd]. rewrite count_backend_cons. destruct (Z.eqb (e_backend e) b'); lia.
  - destruct (get_scan cfg now b t) as [[r rest] cl]. cbn [fst snd] in *. rewrite !count_backend_cons. lia.
Qed.

Lemma step_max_idle cfg s o : MaxIdleInv cfg s -> MaxIdleInv cfg (fst (wp_step cfg s o)).
Proof.
  intros Hi b'. destruct o as [b c|b|b c| | |dt|b]; cbn [wp_step].
  - destruct (wc_max_idle cfg <=? count_backend b (pw_idle s)) eqn:E; cbn [fst pw_idle]; [apply Hi|].
    rewrite count_backend_app, count_backend_cons. cbn [e_backend].
    assert (Hnil : count_backend b' [] = 0) by reflexivity. rewrite Hnil.
    pose proof (Hi b') as Hb'. pose proof (count_backend_nonneg b' (pw_idle s)).
    destruct (Z.eqb b b') eqn:Eb; [apply Z.eqb_eq in Eb; subst b'; lia|lia].
  - destruct (negb (memZ b (pw_pools s))); [apply Hi|].
    pose proof (get_scan_count cfg (pw_now s) b (rev (pw_idle s)) b') as H.
    destruct (get_scan cfg (pw_now s) b (rev (pw_idle s))) as [[r rest] cl]. cbn [fst snd pw_idle] in *.
    rewrite count_backend_rev. rewrite count_backend_rev in H. specialize (Hi b'). lia.
  - cbn [fst pw_idle]. apply Hi.
  - cbn [fst pw_idle]. pose proof (count_backend_filter b' (fun e => negb (stale cfg (pw_now s) e)) (pw_idle s)). specialize (Hi b'). lia.
  - cbn [fst pw_idle]. unfold count_backend, zlen. cbn. lia.
  - cbn [fst pw_idle]. apply Hi.
  - destruct (memZ b (pw_pools s)); apply Hi.
Qed.

Lemma run_max_idle cfg ops : forall s, MaxIdleInv cfg s -> MaxIdleInv cfg (fst (wp_run cfg s ops)).
Proof.
  induction ops as [|o t IH]; intros s Hi; cbn [wp_run]; [exact Hi|].
  pose proof (step_max_idle cfg s o Hi) as H1. destruct (wp_step cfg s o) as [s1 out]. cbn [fst] in H1.
  specialize (IH s1 H1). destruct (wp_run cfg s1 t) as [s2 outs]. exact IH.
Qed.

Lemma init_max_idle cfg : MaxIdleInv cfg wp_init.
Proof. intros b. unfold count_backend, zlen. cbn. lia. Qed.

(* ---- freshness: Get never returns a connection idle longer than idle_timeout, and closes the stale ones it skips ---- *)
Lemma get_fresh cfg s b c s' :
  NoDup (idle_conns s) -> wp_step cfg s (WGet b) = (s', OConn (Some c)) ->
  exists e, In e (pw_idle s) /\ e_conn e = c /\ e_backend e = b /\ pw_now s - e_last e <= wc_timeout cfg.
Proof.
  intros Hnd H. cbn [wp_step] in H. destruct (negb (memZ b (pw_pools s))); [discriminate|].
  pose proof (scan_r_spec cfg (pw_now s) b (rev (pw_idle s)) c (NoDup_rev_map _ Hnd)) as D. unfold scan_r in D.
  destruct (get_scan cfg (pw_now s) b (rev (pw_idle s))) as [[r rest] cl]. injection H as _ Hr. subst r.
  destruct (D eq_refl) as (_ & _ & _ & e & He & Hc & Hb & Hs).
  exists e. repeat split; auto; [apply in_rev; exact He|]. unfold stale in Hs. lia.
Qed.

(* ---- exclusivity under the holder protocol ---- *)
Record ExclInv (s : wpool) (held : list Z) : Prop := {
  ei_nodup : NoDup (idle_conns s);
  ei_held : NoDup held;
  ei_disj : forall c, In c (idle_conns s) -> ~ In c held /\ ~ In c (pw_closed s);
  ei_open : forall c, In c held -> ~ In c (pw_closed s)
}.

Lemma remove_z_in c x l : In x (remove_z c l) <-> In x l /\ x <> c.
Proof.
  induction l as [|y t IH]; cbn [remove_z]; [tauto|].
  destruct (Z.eqb y c) eqn:E.
  - apply Z.eqb_eq in E. subst y. rewrite IH. cbn [In]. split; [tauto|]. intros [[H|H] Hne]; [congruence|tauto].
  - apply Z.eqb_neq in E. cbn [In]. rewrite IH. split; [intros [H|[H1 H2]]; [subst; tauto|tauto]|tauto].
Qed.

Lemma remove_z_nodup c l : NoDup l -> NoDup (remove_z c l).
Proof.
  induction l as [|y t IH]; intros H; cbn [remove_z]; [constructor|].
  inversion H; subst. destruct (Z.eqb y c); [apply IH; assumption|].
  constructor; [rewrite remove_z_in; tauto|apply IH; assumption].
Qed.

Lemma map_filter_incl (f : entry -> bool) l c : In c (map e_conn (filter f l)) -> In c (map e_conn l).
Proof. intros H. apply in_map_iff in H as [e [He Hin]]. apply filter_In in Hin as [Hin _]. apply in_map_iff. exists e. auto. Qed.

Lemma nodup_map_filter (f : entry -> bool) l : NoDup (map e_conn l) -> NoDup (map e_conn (filter f l)).
Proof.
  induction l as [|e t IH]; intros H; cbn [filter map]; [constructor|]. cbn [map] in H. inversion H; subst.
  destruct (f e); cbn [map]; [constructor; [intros Hin; apply map_filter_incl in Hin; contradiction|apply IH; assumption]|apply IH; assumption].
Qed.

Lemma NoDup_app_snoc (l : list Z) x : NoDup l -> ~ In x l -> NoDup (l ++ [x]).
Proof.
  induction l as [|y t IH]; intros Hnd Hn; cbn [app]; [constructor; [intros []|constructor]|].
  inversion Hnd; subst. constructor.
  - intros Hin. apply in_app_or in Hin as [Hin|[Heq|[]]]; [contradiction|]. apply Hn. left. symmetry. exact Heq.
  - apply IH; [assumption|]. intros Hin. apply Hn. right. exact Hin.
Qed.

Lemma step_excl cfg s held o :
  ExclInv s held -> op_allowed held s o ->
  ExclInv (fst (wp_step cfg s o)) (held_after held o (snd (wp_step cfg s o))).
Proof.
  intros [Hnd Hh Hd Ho] Ha. unfold idle_conns in *. destruct o as [b c|b|b c| | |dt|b]; cbn [wp_step op_allowed] in *.
  - (* Put *)
    assert (Hc_idle : ~ In c (idle_conns s)) by (destruct Ha as [Hin|[H1 _]]; [intros Hi; destruct (Hd c Hi) as [G _]; apply G; exact Hin|exact H1]).
    assert (Hc_closed : ~ In c (pw_closed s)) by (destruct Ha as [Hin|[_ H2]]; [apply Ho; exact Hin|exact H2]).
    destruct (wc_max_idle cfg <=? count_backend b (pw_idle s)); cbn [fst snd held_after pw_idle pw_closed].
    + constructor; unfold idle_conns; cbn [pw_idle pw_closed].
      * exact Hnd.
      * apply remove_z_nodup. exact Hh.
      * intros x Hx. destruct (Hd x Hx) as [H1 H2]. split; [rewrite remove_z_in; tauto|].
        intros [Heq|Hin]; [subst x; contradiction|contradiction].
      * intros x Hx. apply remove_z_in in Hx as [Hx Hne]. intros [Heq|Hin]; [congruence|apply (Ho x Hx); exact Hin].
    + constructor; unfold idle_conns; cbn [pw_idle pw_closed].
      * rewrite map_app. cbn [map e_conn]. apply NoDup_app_snoc; assumption.
      * apply remove_z_nodup. exact Hh.
      * intros x Hx. rewrite map_app in Hx. apply in_app_or in Hx as [Hx|Hx].
        -- destruct (Hd x Hx) as [H1 H2]. split; [rewrite remove_z_in; tauto|exact H2].
        -- cbn in Hx. destruct Hx as [<-|[]]. split; [rewrite remove_z_in; tauto|exact Hc_closed].
      * intros x Hx. apply remove_z_in in Hx as [Hx _]. apply Ho. exact Hx.
  - (* Get *)
    destruct (negb (memZ b (pw_pools s))); [cbn; constructor; assumption|].
    pose proof (NoDup_rev_map _ Hnd) as Hndr.
    pose proof (fun e0 => scan_rest_sub cfg (pw_now s) b (rev (pw_idle s)) e0) as A.
    pose proof (scan_rest_nodup cfg (pw_now s) b (rev (pw_idle s)) Hndr) as B.
    pose proof (fun c0 => scan_cl_spec cfg (pw_now s) b (rev (pw_idle s)) c0 Hndr) as C.
    pose proof (fun c0 => scan_r_spec cfg (pw_now s) b (rev (pw_idle s)) c0 Hndr) as D.
    unfold scan_r, scan_rest, scan_cl in A, B, C, D.
    destruct (get_scan cfg (pw_now s) b (rev (pw_idle s))) as [[r rest] cl]. cbn [fst snd] in *.
    assert (Hsub : forall x, In x (map e_conn (rev rest)) -> In x (idle_conns s)).
    { intros x Hx. apply in_map_iff in Hx as [e [He Hin]]. apply in_rev in Hin. apply A in Hin. apply in_rev in Hin.
      apply in_map_iff. exists e. auto. }
    assert (Hcl : forall x, In x cl -> In x (idle_conns s) /\ ~ In x (map e_conn (rev rest))).
    { intros x Hx. destruct (C x Hx) as [H1 H2]. rewrite map_rev in H1. apply in_rev in H1. split; [exact H1|].
      rewrite map_rev. intros H3. apply in_rev in H3. contradiction. }
    destruct r as [c|]; cbn [held_after].
    + destruct (D c eq_refl) as (H1 & H2 & H3 & _). rewrite map_rev in H1. apply in_rev in H1.
      constructor; unfold idle_conns; cbn [pw_idle pw_closed].
      * rewrite map_rev. apply NoDup_rev. exact B.
      * constructor; [destruct (Hd c H1) as [G _]; exact G|exact Hh].
      * intros x Hx. pose proof (Hsub x Hx) as Hxi. destruct (Hd x Hxi) as [G1 G2]. split.
        -- intros [Heq|Hin]; [|contradiction]. subst x. apply H2. rewrite map_rev in Hx. apply in_rev in Hx. exact Hx.
        -- intros Hin. apply in_app_or in Hin as [Hin|Hin]; [apply (Hcl x Hin); exact Hx|contradiction].
      * intros x [<-|Hx] Hin; apply in_app_or in Hin as [Hin|Hin].
        -- contradiction.
        -- destruct (Hd c H1) as [_ G]. apply G. exact Hin.
        -- destruct (Hcl x Hin) as [G _]. destruct (Hd x G) as [G2 _]. apply G2. exact Hx.
        -- apply (Ho x Hx). exact Hin.
    + constructor; unfold idle_conns; cbn [pw_idle pw_closed].
      * rewrite map_rev. apply NoDup_rev. exact B.
      * exact Hh.
      * intros x Hx. pose proof (Hsub x Hx) as Hxi. destruct (Hd x Hxi) as [G1 G2]. split; [exact G1|].
        intros Hin. apply in_app_or in Hin as [Hin|Hin]; [apply (Hcl x Hin); exact Hx|contradiction].
      * intros x Hx Hin. apply in_app_or in Hin as [Hin|Hin]; [destruct (Hcl x Hin) as [G _]; destruct (Hd x G) as [G2 _]; apply G2; exact Hx|apply (Ho x Hx); exact Hin].
  - (* Close *)
    assert (Hc_idle : ~ In c (idle_conns s)) by (destruct Ha as [Hin|[H1 _]]; [intros Hi; destruct (Hd c Hi) as [G _]; apply G; exact Hin|exact H1]).
    cbn [fst snd held_after]. constructor; unfold idle_conns; cbn [pw_idle pw_closed].
    + exact Hnd.
    + apply remove_z_nodup. exact Hh.
    + intros x Hx. destruct (Hd x Hx) as [H1 H2]. split; [rewrite remove_z_in; tauto|].
      intros [Heq|Hin]; [subst x; contradiction|contradiction].
    + intros x Hx. apply remove_z_in in Hx as [Hx Hne]. intros [Heq|Hin]; [congruence|apply (Ho x Hx); exact Hin].
  - (* Cleanup *)
    cbn [fst snd held_after]. constructor; unfold idle_conns; cbn [pw_idle pw_closed].
    + apply nodup_map_filter. exact Hnd.
    + exact Hh.
    + intros x Hx. pose proof (map_filter_incl _ _ _ Hx) as Hxi. destruct (Hd x Hxi) as [H1 H2]. split; [exact H1|].
      intros Hin. apply in_app_or in Hin as [Hin|Hin]; [|contradiction].
      (* x is both kept and closed: impossible, its entry is unique *)
      apply in_map_iff in Hx as [e1 [He1 Hin1]]. apply in_map_iff in Hin as [e2 [He2 Hin2]].
      apply filter_In in Hin1 as [Hi1 Hf1]. apply filter_In in Hin2 as [Hi2 Hf2].
      assert (e1 = e2).
      { clear - Hnd Hi1 Hi2 He1 He2. induction (pw_idle s) as [|e t IH]; [destruct Hi1|].
        cbn [map] in Hnd. inversion Hnd as [|x0 xs0 Hn0 Hnd0]. destruct Hi1 as [E1|Hi1], Hi2 as [E2|Hi2].
        - congruence.
        - exfalso. apply Hn0. rewrite E1, He1, <- He2. apply in_map. exact Hi2.
        - exfalso. apply Hn0. rewrite E2, He2, <- He1. apply in_map. exact Hi1.
        - apply IH; assumption. }
      subst e2. rewrite Hf2 in Hf1. discriminate.
    + intros x Hx Hin. apply in_app_or in Hin as [Hin|Hin]; [|apply (Ho x Hx); exact Hin].
      apply map_filter_incl in Hin. destruct (Hd x Hin) as [G _]. apply G. exact Hx.
  - (* Shutdown *)
    cbn [fst snd held_after]. constructor; unfold idle_conns; cbn [pw_idle pw_closed map].
    + constructor.
    + exact Hh.
    + intros x [].
    + intros x Hx Hin. apply in_app_or in Hin as [Hin|Hin]; [destruct (Hd x Hin) as [G _]; apply G; exact Hx|apply (Ho x Hx); exact Hin].
  - cbn. constructor; assumption.
  - destruct (memZ b (pw_pools s)); cbn; constructor; assumption.
Qed.

(* ---- whole histories ---- *)
Fixpoint allowed_run (cfg : wpcfg) (s : wpool) (held : list Z) (ops : list wop) : Prop :=
  match ops with
  | [] => True
  | o :: t => op_allowed held s o /\ allowed_run cfg (fst (wp_step cfg s o)) (held_after held o (snd (wp_step cfg s o))) t
  end.

Fixpoint held_run (cfg : wpcfg) (s : wpool) (held : list Z) (ops : list wop) : list Z :=
  match ops with
  | [] => held
  | o :: t => held_run cfg (fst (wp_step cfg s o)) (held_after held o (snd (wp_step cfg s o))) t
  end.

Lemma wp_run_fst cfg s o t : fst (wp_run cfg s (o :: t)) = fst (wp_run cfg (fst (wp_step cfg s o)) t).
Proof. cbn [wp_run]. destruct (wp_step cfg s o) as [s1 out]. cbn [fst]. destruct (wp_run cfg s1 t) as [s2 outs]. reflexivity. Qed.

Lemma run_excl cfg ops : forall s held,
  ExclInv s held -> allowed_run cfg s held ops -> ExclInv (fst (wp_run cfg s ops)) (held_run cfg s held ops).
Proof.
  induction ops as [|o t IH]; intros s held Hi Ha; [exact Hi|].
  destruct Ha as [Ha1 Ha2]. rewrite wp_run_fst. cbn [held_run]. apply IH; [|exact Ha2].
  apply step_excl; assumption.
Qed.

Lemma init_excl : ExclInv wp_init [].
Proof. constructor; cbn; [constructor|constructor|intros c []|intros c []]. Qed.

(* a connection handed out by Get is held by nobody else, is open, and is no longer in the pool *)
Lemma get_exclusive cfg s held b c s' :
  ExclInv s held -> wp_step cfg s (WGet b) = (s', OConn (Some c)) ->
  ~ In c held /\ ~ In c (pw_closed s) /\ ~ In c (idle_conns s') /\ ~ In c (pw_closed s').
Proof.
  intros Hi Hs. pose proof (step_excl cfg s held (WGet b) Hi I) as H. rewrite Hs in H. cbn [fst snd held_after] in H.
  destruct H as [N1 N2 D O]. inversion N2 as [|x xs Hnin Hnd]; subst.
  assert (Hc : In c (c :: held)) by (left; reflexivity).
  split; [exact Hnin|]. split.
  - destruct Hi as [Hnd0 _ Hd _]. destruct (get_fresh cfg s b c s' Hnd0 Hs) as (e & He & Hec & _).
    assert (Hin : In c (idle_conns s)) by (unfold idle_conns; apply in_map_iff; exists e; auto).
    destruct (Hd c Hin) as [_ G]. exact G.
  - split; [intros Hin; destruct (D c Hin) as [G _]; apply G; exact Hc|apply O; exact Hc].
Qed.

(* shutdown closes everything the pool holds and leaves it empty *)
Lemma shutdown_closes cfg s :
  let s' := fst (wp_step cfg s WShutdown) in
  pw_idle s' = [] /\ pw_pools s' = [] /\ forall c, In c (idle_conns s) -> In c (pw_closed s').
Proof. cbn. split; [reflexivity|]. split; [reflexivity|]. intros c Hc. apply in_or_app. left. exact Hc. Qed.

(* what the pool closes on its own (stale entries met by Get, clean-up) is only ever something it held *)
Lemma cleanup_closes_only_stale cfg s c :
  In c (pw_closed (fst (wp_step cfg s WCleanup))) -> In c (pw_closed s) \/ exists e, In e (pw_idle s) /\ e_conn e = c /\ wc_timeout cfg < pw_now s - e_last e.
Proof.
  cbn. intros H. apply in_app_or in H as [H|H]; [right|left; exact H].
  apply in_map_iff in H as [e [He Hin]]. apply filter_In in Hin as [Hin Hs]. exists e. repeat split; auto. unfold stale in Hs. lia.
Qed.

Lemma cleanup_keeps_fresh cfg s e :
  In e (pw_idle s) -> pw_now s - e_last e <= wc_timeout cfg -> In e (pw_idle (fst (wp_step cfg s WCleanup))).
Proof. cbn. intros Hin Hf. apply filter_In. split; [exact Hin|]. unfold stale. apply negb_true_iff. lia. Qed.
