(* Proofs about Model/Shutdown.v: Stop, probes after Stop, what a probe does to the health state. *)
From Helios Require Import Base.Prelude Model.Shutdown.

(* Stop leaves no probe in flight and marks the balancer stopped *)
Lemma stop_completes cfg s : ps_pending (fst (pstep cfg s PStop)) = [] /\ ps_stopped (fst (pstep cfg s PStop)) = true.
Proof. cbn. auto. Qed.

(* repeated Stop calls are harmless: a second Stop changes nothing *)
Lemma stop_idempotent cfg s : fst (pstep cfg (fst (pstep cfg s PStop)) PStop) = fst (pstep cfg s PStop).
Proof. cbn. reflexivity. Qed.

Lemma stop_second_cancels_nothing cfg s : snd (pstep cfg (fst (pstep cfg s PStop)) PStop) = PStopped [].
Proof. cbn. reflexivity. Qed.

(* once stopped, always stopped, and nothing is in flight *)
Definition Quiet (s : pstate) : Prop := ps_stopped s = true /\ ps_pending s = [].

Lemma step_quiet cfg s o : Quiet s -> Quiet (fst (pstep cfg s o)).
Proof.
  intros [Hs Hp]. unfold Quiet. destruct o as [b sc| |dt| |]; cbn [pstep].
  - cbn. auto.
  - rewrite Hs. cbn. auto.
  - unfold fire_due. rewrite Hp. cbn. auto.
  - cbn. auto.
  - cbn. auto.
Qed.

(* no probe is sent after Stop: every later tick probes nobody *)
Lemma tick_after_stop cfg s : Quiet s -> snd (pstep cfg s PTick) = PProbed [].
Proof. intros [Hs _]. cbn [pstep]. rewrite Hs. reflexivity. Qed.

Fixpoint ticks_silent (ops : list pop) (outs : list pout) : Prop :=
  match ops, outs with
  | PTick :: t, o :: t' => o = PProbed [] /\ ticks_silent t t'
  | _ :: t, _ :: t' => ticks_silent t t'
  | _, _ => True
  end.

Lemma run_after_stop cfg ops : forall s, Quiet s -> ticks_silent ops (snd (prun cfg s ops)) /\ Quiet (fst (prun cfg s ops)).
Proof.
  induction ops as [|o t IH]; intros s Hq; [cbn; auto|].
  cbn [prun]. pose proof (step_quiet cfg s o Hq) as Hq1. pose proof (tick_after_stop cfg s Hq) as Ht.
  destruct (pstep cfg s o) as [s1 out] eqn:E. cbn [fst] in Hq1.
  destruct (IH s1 Hq1) as [A B]. destruct (prun cfg s1 t) as [s2 outs]. cbn [fst snd] in *.
  split; [|exact B]. destruct o; cbn [ticks_silent]; auto.
  split; [|exact A]. rewrite E in Ht. exact Ht.
Qed.

(* ---- what one probe does (C04, active part) ---- *)
(* a backend inside its unhealthy window is not probed and not touched *)
Lemma probe_skips_ejected cfg now b :
  in_window b now = true -> probe_one cfg now b = (b, []) /\ probed now b = false.
Proof.
  unfold in_window, probe_one, probed, refresh. intros H. apply andb_true_iff in H as [Hf Hw].
  assert (E : (pb_until b <? now) = false) by lia. rewrite Hf, E. cbn. rewrite Hf. cbn. split; [reflexivity|]. destruct (pb_flag b); [discriminate|reflexivity].
Qed.

(* a failed probe (wrong status or transport error) ejects for the configured window, starting now *)
Lemma probe_failure_ejects cfg now b :
  in_window b now = false -> pb_script b = 1 \/ pb_script b = 2 ->
  let b' := fst (probe_one cfg now b) in pb_flag b' = false /\ pb_until b' = now + pc_window cfg /\ in_window b' now = (0 <=? pc_window cfg).
Proof.
  unfold in_window, probe_one, refresh. intros Hw Hs.
  destruct (pb_flag b) eqn:Hf; cbn [negb andb] in *.
  - destruct Hs as [Hs|Hs]; rewrite Hs; cbn; rewrite ?Hf; cbn; (split; [reflexivity|split; [reflexivity|]]);
      destruct (now <=? now + pc_window cfg) eqn:A, (0 <=? pc_window cfg) eqn:B; try reflexivity; lia.
  - assert (E : (pb_until b <? now) = true) by lia. rewrite E. cbn.
    destruct Hs as [Hs|Hs]; rewrite Hs; cbn; rewrite ?Hf; cbn; (split; [reflexivity|split; [reflexivity|]]);
      destruct (now <=? now + pc_window cfg) eqn:A, (0 <=? pc_window cfg) eqn:B; try reflexivity; lia.
Qed.

(* a successful probe never ejects: the backend is eligible afterwards *)
Lemma probe_success_never_ejects cfg now b :
  in_window b now = false -> pb_script b = 0 -> pb_flag (fst (probe_one cfg now b)) = true.
Proof.
  unfold in_window, probe_one, refresh. intros Hw Hs.
  destruct (pb_flag b) eqn:Hf; cbn [negb andb] in *.
  - rewrite Hs. cbn. rewrite ?Hf. reflexivity.
  - assert (E : (pb_until b <? now) = true) by lia. rewrite E. cbn. rewrite Hs. reflexivity.
Qed.

(* traffic eligibility is exactly "outside the window" *)
Lemma refresh_flag now b : pb_flag (refresh now b) = negb (in_window b now).
Proof.
  unfold refresh, in_window. destruct (pb_flag b) eqn:Hf; cbn; [exact Hf|].
  destruct (pb_until b <? now) eqn:E; cbn; rewrite ?Hf; destruct (now <=? pb_until b) eqn:E2; try reflexivity; lia.
Qed.

Lemma stop_quiet cfg s : Quiet (fst (pstep cfg s PStop)).
Proof. unfold Quiet. cbn. auto. Qed.

Lemma no_probe_after_stop cfg s ops :
  let s' := fst (pstep cfg s PStop) in ticks_silent ops (snd (prun cfg s' ops)) /\ Quiet (fst (prun cfg s' ops)).
Proof. apply run_after_stop. apply stop_quiet. Qed.

Lemma stop_twice cfg s :
  fst (pstep cfg (fst (pstep cfg s PStop)) PStop) = fst (pstep cfg s PStop)
  /\ snd (pstep cfg (fst (pstep cfg s PStop)) PStop) = PStopped [].
Proof. split; [apply stop_idempotent|apply stop_second_cancels_nothing]. Qed.
