(* Proofs about Model/Chain.v: fail-closed construction, configured order, gating. *)
From Helios Require Import Base.Prelude Base.Bytes Model.Chain.

Lemma build_loop_fold ps base : build_loop ps base = fold_right wrap base ps.
Proof. unfold build_loop. rewrite <- fold_left_rev_right, rev_involutive. reflexivity. Qed.

Lemma serve_cons p t : serve (p :: t) = wrap p (serve t).
Proof. unfold serve. rewrite !build_loop_fold. reflexivity. Qed.

Definition enters (ps : list (Z * bool)) : list ev := map (fun p => Enter (fst p)) ps.
Definition exits (ps : list (Z * bool)) : list ev := map (fun p => Exit (fst p)) (rev ps).

(* nobody rejects: every plugin is entered in the configured order (first listed outermost), then the backend,
   then the plugins are left in the reverse order *)
Lemma serve_all_pass ps :
  forallb (fun p => negb (snd p)) ps = true -> serve ps = enters ps ++ [Backend] ++ exits ps.
Proof.
  induction ps as [|[i r] t IH]; intros H; [reflexivity|].
  cbn [forallb snd] in H. apply andb_true_iff in H as [Hr Ht]. destruct r; [discriminate|].
  rewrite serve_cons. unfold wrap. cbn [fst snd]. rewrite IH by exact Ht.
  unfold enters, exits. cbn [map rev fst]. rewrite map_app. cbn [map fst]. rewrite <- !app_assoc. reflexivity.
Qed.

(* the first rejecting plugin stops the chain: plugins before it are entered in order, it rejects, nothing after it
   (no later plugin, no backend) sees the request *)
Lemma serve_gate pre i post :
  forallb (fun p => negb (snd p)) pre = true ->
  serve (pre ++ (i, true) :: post) = enters pre ++ [Enter i; Reject i; Exit i] ++ exits pre.
Proof.
  induction pre as [|[j r] t IH]; intros H.
  - cbn [app]. rewrite serve_cons. reflexivity.
  - cbn [forallb snd] in H. apply andb_true_iff in H as [Hr Ht]. destruct r; [discriminate|].
    cbn [app]. rewrite serve_cons. unfold wrap. cbn [fst snd]. rewrite IH by exact Ht.
    unfold enters, exits. cbn [map rev fst]. rewrite map_app. cbn [map fst]. rewrite <- !app_assoc. reflexivity.
Qed.

Lemma gate_no_backend pre i post :
  forallb (fun p => negb (snd p)) pre = true -> ~ In Backend (serve (pre ++ (i, true) :: post)).
Proof.
  intros H. rewrite serve_gate by exact H. intros Hin.
  apply in_app_or in Hin as [Hin|Hin].
  - unfold enters in Hin. apply in_map_iff in Hin as [x [Hx _]]. discriminate.
  - apply in_app_or in Hin as [Hin|Hin].
    + cbn in Hin. intuition discriminate.
    + unfold exits in Hin. apply in_map_iff in Hin as [x [Hx _]]. discriminate.
Qed.

Lemma gate_no_later_plugin pre i post j :
  forallb (fun p => negb (snd p)) pre = true -> In j (map fst post) -> ~ In j (map fst pre) -> j <> i ->
  ~ In (Enter j) (serve (pre ++ (i, true) :: post)).
Proof.
  intros H Hj Hnp Hne. rewrite serve_gate by exact H. intros Hin.
  apply in_app_or in Hin as [Hin|Hin].
  - unfold enters in Hin. apply in_map_iff in Hin as [x [Hx Hxin]]. injection Hx as Hx. apply Hnp. subst j. apply in_map. exact Hxin.
  - apply in_app_or in Hin as [Hin|Hin].
    + cbn in Hin. destruct Hin as [Hin|[Hin|[Hin|[]]]]; try discriminate. injection Hin as Hin. congruence.
    + unfold exits in Hin. apply in_map_iff in Hin as [x [Hx _]]. discriminate.
Qed.

(* fail closed: a handler exists only if every entry names a registered plugin and carries options its factory accepts *)
Lemma build_ok_iff chain :
  chain <> [] -> (build_ok true chain = true <-> forall e, In e chain -> entry_ok e = true).
Proof.
  intros Hne. unfold build_ok. cbn [negb]. destruct chain as [|e0 t]; [contradiction|].
  rewrite forallb_forall. split; intros H e He; apply H.
  - apply in_rev in He. exact He.
  - apply in_rev. exact He.
Qed.

Lemma build_fails_on_bad_entry chain e :
  In e chain -> entry_ok e = false -> build_ok true chain = false.
Proof.
  intros He Hbad. destruct (build_ok true chain) eqn:E; [|reflexivity].
  assert (Hne : chain <> []) by (intros ->; destruct He).
  apply (proj1 (build_ok_iff chain Hne)) with (e := e) in E; [congruence|exact He].
Qed.

Lemma unknown_plugin_fails chain name o :
  In (name, o) chain -> factory_ok name o = None -> build_ok true chain = false.
Proof. intros He Hn. apply (build_fails_on_bad_entry chain (name, o) He). unfold entry_ok. cbn [fst snd]. rewrite Hn. reflexivity. Qed.
