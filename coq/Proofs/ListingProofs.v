(* Scenario 5 of Model/Conc.v (C11): a listing against concurrent removals, for EVERY schedule and any number of listings and
   removals: a finished listing names no backend twice, only backends of the pool, and every backend nobody removes. *)
From Coq Require Import Permutation.
From Helios Require Import Base.Prelude Model.Conc Proofs.ConcProofs.

Local Arguments Z.add : simpl never.
Local Arguments Z.sub : simpl never.
Local Arguments zlen : simpl never.

(* removal by swapping the last element into the slot: the other elements stay, nothing is duplicated *)
Lemma rm_swap_perm x l : exists q, Permutation (rm_swap x l ++ q) l /\ (q = [] \/ q = [x]).
Proof.
  induction l as [|y t IH]; cbn [rm_swap]; [exists []; split; [constructor|left; reflexivity]|].
  destruct (Z.eqb y x) eqn:E.
  - apply Z.eqb_eq in E. subst y. exists [x]. split; [|right; reflexivity].
    destruct (rev t) as [|z r] eqn:Er.
    + assert (t = []) by (destruct t; [reflexivity|]; apply (f_equal (@length _)) in Er; rewrite rev_length in Er; discriminate). subst. constructor. constructor.
    + assert (Ht : t = rev r ++ [z]) by (rewrite <- (rev_involutive t), Er; reflexivity).
      assert (Hrl : removelast t = rev r) by (rewrite Ht; apply removelast_last).
      rewrite Hrl, Ht. cbn [app].
      apply Permutation_trans with (x :: z :: rev r); [|constructor; apply Permutation_cons_append].
      apply Permutation_trans with (z :: x :: rev r); [|constructor].
      constructor. apply Permutation_sym. apply Permutation_cons_append.
  - destruct IH as (q & Hq & Hc). exists q. split; [cbn [app]; constructor; exact Hq|exact Hc].
Qed.

Lemma rm_swap_nodup x l : NoDup l -> NoDup (rm_swap x l).
Proof.
  intros H. destruct (rm_swap_perm x l) as (q & Hq & _).
  apply (Permutation_NoDup (Permutation_sym Hq)) in H.
  revert H. generalize (rm_swap x l). intros a. induction a as [|y t IH]; cbn [app]; intros H; [constructor|].
  inversion H as [|z zs Hn Hd]; subst. constructor; [intros Hin; apply Hn; apply in_or_app; left; exact Hin|apply IH; exact Hd].
Qed.

Lemma rm_swap_in x l y : In y (rm_swap x l) -> In y l.
Proof.
  intros H. destruct (rm_swap_perm x l) as (q & Hq & _). apply (Permutation_in y Hq). apply in_or_app. left. exact H.
Qed.

Lemma rm_swap_keeps x l y : y <> x -> In y l -> In y (rm_swap x l).
Proof.
  intros Hne H. destruct (rm_swap_perm x l) as (q & Hq & Hc).
  apply (Permutation_in y (Permutation_sym Hq)) in H. apply in_app_or in H as [H|H]; [exact H|].
  destruct Hc as [-> | ->]; [destruct H|]. destruct H as [->|[]]. contradiction.
Qed.

Section S5.
  Variables (n : Z) (kinds : list Z).
  Let init := map Z.of_nat (seq 1 (Z.to_nat n)).

  (* thread kinds are listings and removals *)
  Hypothesis Hkinds : forall k, In k kinds -> k = 30 \/ 41 <= k.

  Definition Pool (s : list Z) : Prop :=
    NoDup s /\ (forall x, In x s -> In x init) /\ (forall x, In x init -> memZ (40 + x) kinds = false -> In x s).

  Definition LInv (st : tstate (list Z * list Z)) : Prop :=
    match ts_pc st with
    | Some pc => pc = 0 \/ (Pool (fst (ts_local st)) /\ 1 <= pc <= zlen (fst (ts_local st))
                            /\ snd (ts_local st) = firstn (Z.to_nat (pc - 1)) (fst (ts_local st)))
    | None => Pool (snd (ts_local st))
    end.

  Definition Q5 (s : list Z) (ts : list (tstate (list Z * list Z))) : Prop :=
    Pool s /\ length ts = length kinds /\ forall i k st, nth_error kinds i = Some k -> nth_error ts i = Some st -> k = 30 -> LInv st.

  Lemma memZ_in' x l : In x l -> memZ x l = true.
  Proof. induction l as [|y t IH]; [intros []|]. cbn [memZ]. intros [->|H]; [rewrite Z.eqb_refl; reflexivity|rewrite (IH H); apply orb_true_r]. Qed.

  Lemma remover_pool k s : In k kinds -> 41 <= k -> Pool s -> Pool (rm_swap (k - 40) s).
  Proof.
    intros Hin Hk (A & B & C). split; [apply rm_swap_nodup; exact A|]. split.
    - intros x Hx. apply B. eapply rm_swap_in. exact Hx.
    - intros x Hx Hm. apply rm_swap_keeps; [|apply C; assumption].
      intros E. subst x. replace (40 + (k - 40)) with k in Hm by lia. rewrite (memZ_in' _ _ Hin) in Hm. discriminate.
  Qed.

  Lemma firstn_snoc {A} (l : list A) i d : (i < length l)%nat -> firstn (S i) l = firstn i l ++ [nth i l d].
  Proof.
    revert i. induction l as [|x t IH]; intros i Hi; cbn [length] in Hi; [lia|].
    destruct i as [|i]; [reflexivity|].
    change (firstn (S (S i)) (x :: t)) with (x :: firstn (S i) t). change (firstn (S i) (x :: t)) with (x :: firstn i t).
    change (nth (S i) (x :: t) d) with (nth i t d). rewrite (IH i) by lia. reflexivity.
  Qed.

  Lemma nth_error_map_some5 {A B} (f : A -> B) l i y : nth_error (map f l) i = Some y -> exists x, nth_error l i = Some x /\ y = f x.
  Proof. revert i; induction l as [|x t IH]; intros [|i] H; cbn in *; try discriminate; [injection H as <-; eauto|eauto]. Qed.

  Lemma Q5_step i th st pc s ts :
    nth_error (map s5_thread kinds) i = Some th -> nth_error ts i = Some st -> ts_pc st = Some pc -> Q5 s ts ->
    Q5 (fst (fst (t_step _ _ th s (ts_local st) pc)))
       (nth_upd i (fun _ => mkTS (snd (fst (t_step _ _ th s (ts_local st) pc))) (snd (t_step _ _ th s (ts_local st) pc))) ts).
  Proof.
    intros Hth Hst Hpc (Hs & Hlen & Hts). apply nth_error_map_some5 in Hth as (k & Hk & ->).
    pose proof (nth_error_In _ _ Hk) as Hin. unfold s5_thread.
    assert (Hothers : forall s' v, Pool s' -> (k = 30 -> LInv v) -> Q5 s' (nth_upd i (fun _ => v) ts)).
    { intros s' v Hs' Hv. split; [exact Hs'|]. split; [rewrite nth_upd_length; exact Hlen|].
      intros j k' st' Hk' Hst' E. destruct (Nat.eq_dec i j) as [<-|Hij].
      - rewrite (nth_upd_same _ _ _ _ Hst) in Hst'. injection Hst' as <-. rewrite Hk in Hk'. injection Hk' as <-. apply Hv. exact E.
      - rewrite nth_upd_other in Hst' by exact Hij. apply (Hts j k' st' Hk' Hst' E). }
    destruct (Z.eqb k 30) eqn:E30.
    - (* a listing *)
      apply Z.eqb_eq in E30. pose proof (Hts i k st Hk Hst E30) as Hl. unfold LInv in Hl. rewrite Hpc in Hl.
      unfold lister. cbn [t_step]. destruct (Z.eqb pc 0) eqn:E0.
      + (* the copy under the balancer's lock *)
        destruct s as [|x t] eqn:Es; cbn [fst snd].
        * apply Hothers; [exact Hs|]. intros _. unfold LInv. cbn [ts_pc ts_local snd]. exact Hs.
        * apply Hothers; [exact Hs|]. intros _. unfold LInv. cbn [ts_pc ts_local fst snd]. right.
          split; [exact Hs|]. split; [unfold zlen; cbn [length]; lia|reflexivity].
      + apply Z.eqb_neq in E0. destruct Hl as [Hl|(Hp & Hr & Hres)]; [contradiction|].
        destruct (ts_local st) as [snap res] eqn:El. cbn [fst snd] in *.
        assert (Hnat : Z.to_nat pc = S (Z.to_nat (pc - 1))) by lia.
        assert (Hres' : res ++ [nth (Z.to_nat (pc - 1)) snap 0] = firstn (Z.to_nat pc) snap).
        { rewrite Hres, Hnat. symmetry. apply firstn_snoc. unfold zlen in Hr. lia. }
        destruct (Z.eqb pc (zlen snap)) eqn:Een; cbn [fst snd].
        * apply Z.eqb_eq in Een. apply Hothers; [exact Hs|]. intros _. unfold LInv. cbn [ts_pc ts_local snd].
          rewrite Hres', Een. unfold zlen. rewrite Nat2Z.id, firstn_all. exact Hp.
        * apply Z.eqb_neq in Een. apply Hothers; [exact Hs|]. intros _. unfold LInv. cbn [ts_pc ts_local fst snd]. right.
          split; [exact Hp|]. split; [lia|]. rewrite Hres'. replace (pc + 1 - 1) with pc by lia. reflexivity.
    - (* a removal *)
      apply Z.eqb_neq in E30. destruct (Hkinds k Hin) as [->|Hk41]; [contradiction|].
      unfold remover. cbn [t_step fst snd]. apply Hothers; [apply remover_pool; assumption|]. intros E. contradiction.
  Qed.

  Lemma pool_init : Pool init.
  Proof.
    split; [|split; auto]. subst init. apply FinFun.Injective_map_NoDup; [intros a b H; lia|apply seq_NoDup].
  Qed.

  Theorem s5_invariant sched :
    let ths := map s5_thread kinds in
    let ts0 := map (fun _ : Z => mkTS (([] : list Z), ([] : list Z)) (Some 0)) kinds in
    Q5 (fst (fst (run_sched ths init ts0 sched []))) (snd (fst (run_sched ths init ts0 sched []))).
  Proof.
    intros ths ts0. apply (run_sched_joint Q5).
    - intros i th st pc s ts Hth Hst Hpc Hq. apply Q5_step; assumption.
    - split; [apply pool_init|]. split; [subst ts0; rewrite map_length; reflexivity|].
      intros i k st Hk Hst _. subst ts0. apply nth_error_map_some5 in Hst as (k' & _ & ->). unfold LInv. cbn. left. reflexivity.
  Qed.

  (* every finished listing *)
  Theorem s5_all_schedules sched :
    let ths := map s5_thread kinds in
    let ts0 := map (fun _ : Z => mkTS (([] : list Z), ([] : list Z)) (Some 0)) kinds in
    let ts := snd (fst (run_sched ths init ts0 sched [])) in
    forall i st, nth_error kinds i = Some 30 -> nth_error ts i = Some st -> ts_pc st = None ->
      let listing := snd (ts_local st) in
      NoDup listing /\ (forall x, In x listing -> 1 <= x <= n) /\ (forall x, 1 <= x <= n -> memZ (40 + x) kinds = false -> In x listing).
  Proof.
    intros ths ts0 ts i st Hi Hst Hdone. destruct (s5_invariant sched) as (_ & _ & Hts).
    specialize (Hts i 30 st Hi Hst eq_refl). unfold LInv in Hts. rewrite Hdone in Hts. destruct Hts as (A & B & C).
    cbn zeta. split; [exact A|]. split.
    - intros x Hx. apply B in Hx. subst init. apply in_map_iff in Hx as (k & <- & Hk). apply in_seq in Hk. lia.
    - intros x Hx Hm. apply C; [|exact Hm]. subst init. apply in_map_iff. exists (Z.to_nat x). split; [lia|]. apply in_seq. lia.
  Qed.
End S5.

(* ---------------------------------------------------------------------------------------------- *)
(* Scenario 6 of Model/Conc.v (C11): any number of AddBackend calls with ONE name, under EVERY schedule: the name is never
   listed twice, the calls answered "added" are as many as the name is listed, and once every call has returned exactly one
   was answered "added" and the others were refused. *)
Section S6.
  Definition cnt1 (ts : list (tstate Z)) : Z := sumZ (map (fun st => if Z.eqb (ts_local st) 1 then 1 else 0) ts).
  Definition wf6 (st : tstate Z) : Prop :=
    (ts_pc st = Some 0 /\ ts_local st = 0) \/ (ts_pc st = None /\ (ts_local st = 1 \/ ts_local st = 2)).
  Definition Q6 (s : list Z) (ts : list (tstate Z)) : Prop :=
    count_id DUP_NAME s = cnt1 ts /\ count_id DUP_NAME s <= 1 /\ Forall wf6 ts
    /\ (count_id DUP_NAME s = 0 -> Forall (fun st => ts_pc st = Some 0) ts).

  Lemma count_id_nonneg x l : 0 <= count_id x l.
  Proof. induction l as [|y t IH]; cbn [count_id]; [lia|]. destruct (Z.eqb y x); lia. Qed.

  Lemma memZ_count x l : memZ x l = true <-> 1 <= count_id x l.
  Proof.
    induction l as [|y t IH]; cbn [memZ count_id]; [split; [discriminate|lia]|].
    pose proof (count_id_nonneg x t). rewrite (Z.eqb_sym x y). destruct (Z.eqb y x) eqn:E; cbn [orb]; [split; [lia|reflexivity]|].
    rewrite IH. split; lia.
  Qed.

  Lemma count_id_snoc x l : count_id x (l ++ [x]) = count_id x l + 1.
  Proof. induction l as [|y t IH]; cbn [app count_id]; [rewrite Z.eqb_refl; lia|]. rewrite IH. lia. Qed.

  Lemma cnt1_upd i st st' ts : nth_error ts i = Some st ->
    cnt1 (nth_upd i (fun _ => st') ts) = cnt1 ts - (if Z.eqb (ts_local st) 1 then 1 else 0) + (if Z.eqb (ts_local st') 1 then 1 else 0).
  Proof.
    unfold cnt1. revert i. induction ts as [|a t IH]; intros [|i] H; cbn in H; try discriminate.
    - injection H as <-. cbn [nth_upd map sumZ]. lia.
    - cbn [nth_upd map sumZ]. rewrite (IH i H). lia.
  Qed.

  Lemma Forall_upd {A} (P : A -> Prop) i v l : Forall P l -> P v -> Forall P (nth_upd i (fun _ => v) l).
  Proof.
    revert i. induction l as [|a t IH]; intros i Hl Hv; [destruct i; constructor|].
    inversion Hl; subst. destruct i; cbn [nth_upd]; constructor; auto.
  Qed.

  Lemma Q6_step n i th st pc s ts :
    nth_error (repeat add_same n) i = Some th -> nth_error ts i = Some st -> ts_pc st = Some pc -> Q6 s ts ->
    Q6 (fst (fst (t_step _ _ th s (ts_local st) pc)))
       (nth_upd i (fun _ => mkTS (snd (fst (t_step _ _ th s (ts_local st) pc))) (snd (t_step _ _ th s (ts_local st) pc))) ts).
  Proof.
    intros Hth Hst Hpc (Hc & Hle & Hwf & Hrun).
    assert (th = add_same) by (apply nth_error_In in Hth; apply repeat_spec in Hth; exact Hth). subst th.
    assert (Hst_wf : wf6 st) by (eapply Forall_forall in Hwf; [exact Hwf|eapply nth_error_In; exact Hst]).
    destruct Hst_wf as [[_ Hl0]|[Hn _]]; [|congruence].
    unfold add_same. cbn [t_step]. destruct (memZ DUP_NAME s) eqn:Em; cbn [fst snd].
    - apply memZ_count in Em. split; [|split; [exact Hle|split]].
      + rewrite (cnt1_upd i st _ ts Hst). cbn [ts_local]. rewrite Hl0. cbn. lia.
      + apply Forall_upd; [exact Hwf|]. right. cbn. auto.
      + intros H0. lia.
    - assert (E0 : count_id DUP_NAME s = 0).
      { pose proof (count_id_nonneg DUP_NAME s). destruct (Z_lt_le_dec (count_id DUP_NAME s) 1); [lia|]. apply memZ_count in l. congruence. }
      unfold Q6. rewrite !count_id_snoc. split; [|split; [lia|split]].
      + rewrite (cnt1_upd i st _ ts Hst). cbn [ts_local]. rewrite Hl0. cbn. lia.
      + apply Forall_upd; [exact Hwf|]. right. cbn. auto.
      + intros H0. lia.
  Qed.

  Theorem s6_all_schedules n sched :
    let ths := repeat add_same n in
    let ts0 := repeat (mkTS 0 (Some 0)) n in
    let s := fst (fst (run_sched ths [1; 2] ts0 sched [])) in
    let ts := snd (fst (run_sched ths [1; 2] ts0 sched [])) in
    count_id DUP_NAME s <= 1 /\ count_id DUP_NAME s = cnt1 ts
    /\ ((1 <= n)%nat -> all_done ts = true -> length ts = n ->
        count_id DUP_NAME s = 1 /\ Forall (fun st => ts_local st = 1 \/ ts_local st = 2) ts).
  Proof.
    intros ths ts0 s ts.
    assert (HQ : Q6 s ts).
    { apply (run_sched_joint Q6). { intros i th st pc s1 ts1 A B C D. eapply Q6_step; eauto. }
      split; [|split; [cbn; lia|split]].
      - cbn. unfold cnt1, ts0. clear. induction n as [|k IH]; cbn; [reflexivity|]. rewrite <- IH. reflexivity.
      - apply Forall_forall. intros st Hst. apply repeat_spec in Hst. subst st. left. auto.
      - intros _. apply Forall_forall. intros st Hst. apply repeat_spec in Hst. subst st. reflexivity. }
    destruct HQ as (Hc & Hle & Hwf & Hrun). split; [exact Hle|]. split; [exact Hc|].
    intros Hn Hdone Hlen.
    assert (Hfin : Forall (fun st => ts_pc st = None) ts).
    { unfold all_done in Hdone. rewrite forallb_forall in Hdone. apply Forall_forall. intros st Hst. specialize (Hdone st Hst).
      destruct (ts_pc st); [discriminate|reflexivity]. }
    split.
    - pose proof (count_id_nonneg DUP_NAME s). destruct (Z.eq_dec (count_id DUP_NAME s) 0) as [E0|]; [|lia].
      specialize (Hrun E0). destruct ts as [|a t]; [cbn in Hlen; lia|].
      inversion Hrun; subst. inversion Hfin; subst. congruence.
    - apply Forall_forall. intros st Hst. pose proof (proj1 (Forall_forall _ _) Hwf st Hst) as [[Hp _]|[_ Hl]]; [|exact Hl].
      pose proof (proj1 (Forall_forall _ _) Hfin st Hst). congruence.
  Qed.
End S6.

(* ---------------------------------------------------------------------------------------------- *)
(* Scenario 7 of Model/Conc.v (C11): requests choosing their backend while the pool is changed under them (any number of
   selections, additions of n7 and removals of n1, EVERY schedule): a selection that has returned holds a backend of the
   deployment - never none: requests arriving during a change are served. *)
Section S7.
  Variable kinds : list Z.

  Definition dep (x : Z) : bool := memZ x [1; 2; 3; 7].
  Definition Pool7 (s : s7st) : Prop := In 2 (s7_pool s) /\ Forall (fun x => dep x = true) (s7_pool s).
  Definition L7 (st : tstate (list Z * Z)) : Prop :=
    match ts_pc st with
    | Some pc => (pc = 0 \/ 100 <= pc < 200 \/ pc = 200) \/ ((pc = 300 \/ pc = 400) /\ dep (snd (ts_local st)) = true)
    | None => dep (snd (ts_local st)) = true
    end.
  Definition Q7 (s : s7st) (ts : list (tstate (list Z * Z))) : Prop :=
    Pool7 s /\ length ts = length kinds
    /\ forall i k st, nth_error kinds i = Some k -> nth_error ts i = Some st -> k = 50 -> L7 st.

  Lemma Q7_step i th st pc s ts :
    nth_error (map s7_thread kinds) i = Some th -> nth_error ts i = Some st -> ts_pc st = Some pc -> Q7 s ts ->
    Q7 (fst (fst (t_step _ _ th s (ts_local st) pc)))
       (nth_upd i (fun _ => mkTS (snd (fst (t_step _ _ th s (ts_local st) pc))) (snd (t_step _ _ th s (ts_local st) pc))) ts).
  Proof.
    intros Hth Hst Hpc (Hs & Hlen & Hts). apply nth_error_map_some5 in Hth as (k & Hk & ->).
    assert (Hothers : forall s' v, Pool7 s' -> (k = 50 -> L7 v) -> Q7 s' (nth_upd i (fun _ => v) ts)).
    { intros s' v Hs' Hv. split; [exact Hs'|]. split; [rewrite nth_upd_length; exact Hlen|].
      intros j k' st' Hk' Hst' E. destruct (Nat.eq_dec i j) as [<-|Hij].
      - rewrite (nth_upd_same _ _ _ _ Hst) in Hst'. injection Hst' as <-. rewrite Hk in Hk'. injection Hk' as <-. apply Hv. exact E.
      - rewrite nth_upd_other in Hst' by exact Hij. apply (Hts j k' st' Hk' Hst' E). }
    unfold s7_thread. destruct (Z.eqb k 50) eqn:E50.
    - (* a selection *)
      apply Z.eqb_eq in E50. pose proof (Hts i k st Hk Hst E50) as Hl. unfold L7 in Hl. rewrite Hpc in Hl.
      unfold selector. cbn [t_step]. destruct Hs as [H2 Hall].
      destruct (Z.eqb pc 0) eqn:E0.
      { destruct (s7_pool s) eqn:Ep; [destruct H2|]. cbn [fst snd]. apply Hothers; [unfold Pool7; rewrite Ep; split; assumption|].
        intros _. unfold L7. cbn. left. lia. }
      destruct (pc <? 200) eqn:E2.
      { cbn [fst snd]. apply Hothers; [split; assumption|]. intros _. unfold L7. cbn [ts_pc]. left.
        apply Z.eqb_neq in E0. apply Z.ltb_lt in E2.
        destruct (pc - 100 + 1 <? zlen (fst (ts_local st))); destruct Hl as [[Hl|[Hl|Hl]]|[[Hl|Hl] _]]; lia. }
      destruct (Z.eqb pc 200) eqn:E200.
      { destruct (s7_pool s) as [|x0 t0] eqn:Ep; [destruct H2|]. cbn [fst snd].
        apply Hothers; [unfold Pool7; cbn [s7_pool]; split; assumption|]. intros _. unfold L7. cbn [ts_pc ts_local snd]. right.
        split; [left; reflexivity|].
        set (p := x0 :: t0) in *. set (c := s7_ctr s + 1).
        assert (Hlenp : 0 < zlen p) by (unfold zlen, p; cbn [length]; lia).
        assert (Hin : In (nth (Z.to_nat (c mod zlen p)) p 0) p).
        { apply nth_In. pose proof (Z.mod_pos_bound c (zlen p) Hlenp). unfold zlen in *. lia. }
        exact (proj1 (Forall_forall _ _) Hall _ Hin). }
      apply Z.eqb_neq in E0, E200. apply Z.ltb_ge in E2.
      assert (Hd : dep (snd (ts_local st)) = true) by (destruct Hl as [[Hl|[Hl|Hl]]|[_ Hl]]; [lia|lia|lia|exact Hl]).
      destruct (Z.eqb pc 300) eqn:E300; cbn [fst snd]; (apply Hothers; [split; assumption|]); intros _; unfold L7; cbn [ts_pc ts_local].
      + right. split; [right; reflexivity|exact Hd].
      + exact Hd.
    - (* a writer *)
      apply Z.eqb_neq in E50. unfold pool_writer. destruct Hs as [H2 Hall]. destruct (Z.eqb k 51); cbn [t_step fst snd].
      + apply Hothers; [|intros E; contradiction]. split; cbn [s7_pool].
        * destruct (memZ 7 (s7_pool s)); [exact H2|apply in_or_app; left; exact H2].
        * destruct (memZ 7 (s7_pool s)); [exact Hall|]. apply Forall_app. split; [exact Hall|constructor; [reflexivity|constructor]].
      + apply Hothers; [|intros E; contradiction]. split; cbn [s7_pool].
        * apply rm_swap_keeps; [lia|exact H2].
        * apply Forall_forall. intros x Hx. apply rm_swap_in in Hx. exact (proj1 (Forall_forall _ _) Hall x Hx).
  Qed.

  Theorem s7_all_schedules sched :
    let ths := map s7_thread kinds in
    let ts0 := map (fun _ : Z => mkTS (([] : list Z), 0) (Some 0)) kinds in
    let ts := snd (fst (run_sched ths (mkS7 [1; 2; 3] 0) ts0 sched [])) in
    forall i st, nth_error kinds i = Some 50 -> nth_error ts i = Some st -> ts_pc st = None ->
      In (snd (ts_local st)) [1; 2; 3; 7].
  Proof.
    intros ths ts0 ts i st Hi Hst Hdone.
    assert (HQ : Q7 (fst (fst (run_sched ths (mkS7 [1; 2; 3] 0) ts0 sched []))) ts).
    { apply (run_sched_joint Q7). { intros j th st' pc s1 ts1 A B C D. apply Q7_step; assumption. }
      split; [split; [cbn; auto|cbn; repeat constructor]|]. split; [subst ts0; rewrite map_length; reflexivity|].
      intros j k st' Hk Hst' _. subst ts0. apply nth_error_map_some5 in Hst' as (k' & _ & ->). unfold L7. cbn. left. left. reflexivity. }
    destruct HQ as (_ & _ & Hts). specialize (Hts i 50 st Hi Hst eq_refl). unfold L7 in Hts. rewrite Hdone in Hts.
    unfold dep in Hts. cbn [memZ] in Hts.
    repeat (match type of Hts with (Z.eqb ?a ?b || _) = true => destruct (Z.eqb_spec a b) as [->|_]; [cbn; auto|cbn [orb] in Hts] end).
    discriminate.
  Qed.
End S7.
