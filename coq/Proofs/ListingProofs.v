(* Scenario 5 of Model/Conc.v (C11): a listing against concurrent removals, for EVERY schedule and any number of listings and
   removals: a finished listing names no backend twice, only backends of the pool, and every backend nobody removes. *)
From Coq Require Import Permutation.
From Helios Require Import Base.Prelude Model.Conc Proofs.ConcProofs.

Local Arguments Z.add : simpl never.
Local Arguments Z.sub : simpl never.
Local Arguments zlen : simpl never.

(* removal by swapping the last element into the slot: the other elements stay, nothing is duplicated *)
Lemma rm_swap_perm x l : exists q, Permutation (rm_swap x l ++ q) l /\ (q = [] \/ q = [x]).
Proof.
  induction l as [|y t IH]; cbn [rm_swap]; [exists []; split; [constructor|left; reflexivity]|].
  destruct (Z.eqb y x) eqn:E.
  - apply Z.eqb_eq in E. subst y. exists [x]. split; [|right; reflexivity].
    destruct (rev t) as [|z r] eqn:Er.
    + assert (t = []) by (destruct t; [reflexivity|]; apply (f_equal (@length _)) in Er; rewrite rev_length in Er; discriminate). subst. constructor. constructor.
    + assert (Ht : t = rev r ++ [z]) by (rewrite <- (rev_involutive t), Er; reflexivity).
      assert (Hrl : removelast t = rev r) by (rewrite Ht; apply removelast_last).
      rewrite Hrl, Ht. cbn [app].
      apply Permutation_trans with (x :: z :: rev r); [|constructor; apply Permutation_cons_append].
      apply Permutation_trans with (z :: x :: rev r); [|constructor].
      constructor. apply Permutation_sym. apply Permutation_cons_append.
  - destruct IH as (q & Hq & Hc). exists q. split; [cbn [app]; constructor; exact Hq|exact Hc].
Qed.

Lemma rm_swap_nodup x l : NoDup l -> NoDup (rm_swap x l).
Proof.
  intros H. destruct (rm_swap_perm x l) as (q & Hq & _).
  apply (Permutation_NoDup (Permutation_sym Hq)) in H.
  revert H. generalize (rm_swap x l). intros a. induction a as [|y t IH]; cbn [app]; intros H; [constructor|].
  inversion H as [|z zs Hn Hd]; subst. constructor; [intros Hin; apply Hn; apply in_or_app; left; exact Hin|apply IH; exact Hd].
Qed.

Lemma rm_swap_in x l y : In y (rm_swap x l) -> In y l.
Proof.
  intros H. destruct (rm_swap_perm x l) as (q & Hq & _). apply (Permutation_in y Hq). apply in_or_app. left. exact H.
Qed.

Lemma rm_swap_keeps x l y : y <> x -> In y l -> In y (rm_swap x l).
Proof.
  intros Hne H. destruct (rm_swap_perm x l) as (q & Hq & Hc).
  apply (Permutation_in y (Permutation_sym Hq)) in H. apply in_app_or in H as [H|H]; [exact H|].
  destruct Hc as [-> | ->]; [destruct H|]. destruct H as [->|[]]. contradiction.
Qed.

Section S5.
  Variables (n : Z) (kinds : list Z).
  Let init := map Z.of_nat (seq 1 (Z.to_nat n)).

  (* thread kinds are listings and removals *)
  Hypothesis Hkinds : forall k, In k kinds -> k = 30 \/ 41 <= k.

  Definition Pool (s : list Z) : Prop :=
    NoDup s /\ (forall x, In x s -> In x init) /\ (forall x, In x init -> memZ (40 + x) kinds = false -> In x s).

  Definition LInv (st : tstate (list Z * list Z)) : Prop :=
    match ts_pc st with
    | Some pc => pc = 0 \/ (Pool (fst (ts_local st)) /\ 1 <= pc <= zlen (fst (ts_local st))
                            /\ snd (ts_local st) = firstn (Z.to_nat (pc - 1)) (fst (ts_local st)))
    | None => Pool (snd (ts_local st))
    end.

  Definition Q5 (s : list Z) (ts : list (tstate (list Z * list Z))) : Prop :=
    Pool s /\ length ts = length kinds /\ forall i k st, nth_error kinds i = Some k -> nth_error ts i = Some st -> k = 30 -> LInv st.

  Lemma memZ_in' x l : In x l -> memZ x l = true.
  Proof. induction l as [|y t IH]; [intros []|]. cbn [memZ]. intros [->|H]; [rewrite Z.eqb_refl; reflexivity|rewrite (IH H); apply orb_true_r]. Qed.

  Lemma remover_pool k s : In k kinds -> 41 <= k -> Pool s -> Pool (rm_swap (k - 40) s).
  Proof.
    intros Hin Hk (A & B & C). split; [apply rm_swap_nodup; exact A|]. split.
    - intros x Hx. apply B. eapply rm_swap_in. exact Hx.
    - intros x Hx Hm. apply rm_swap_keeps; [|apply C; assumption].
      intros E. subst x. replace (40 + (k - 40)) with k in Hm by lia. rewrite (memZ_in' _ _ Hin) in Hm. discriminate.
  Qed.

  Lemma firstn_snoc {A} (l : list A) i d : (i < length l)%nat -> firstn (S i) l = firstn i l ++ [nth i l d].
  Proof.
    revert i. induction l as [|x t IH]; intros i Hi; cbn [length] in Hi; [lia|].
    destruct i as [|i]; [reflexivity|].
    change (firstn (S (S i)) (x :: t)) with (x :: firstn (S i) t). change (firstn (S i) (x :: t)) with (x :: firstn i t).
    change (nth (S i) (x :: t) d) with (nth i t d). rewrite (IH i) by lia. reflexivity.
  Qed.

  Lemma nth_error_map_some5 {A B} (f : A -> B) l i y : nth_error (map f l) i = Some y -> exists x, nth_error l i = Some x /\ y = f x.
  Proof. revert i; induction l as [|x t IH]; intros [|i] H; cbn in *; try discriminate; [injection H as <-; eauto|eauto]. Qed.

  Lemma Q5_step i th st pc s ts :
    nth_error (map s5_thread kinds) i = Some th -> nth_error ts i = Some st -> ts_pc st = Some pc -> Q5 s ts ->
    Q5 (fst (fst (t_step _ _ th s (ts_local st) pc)))
       (nth_upd i (fun _ => mkTS (snd (fst (t_step _ _ th s (ts_local st) pc))) (snd (t_step _ _ th s (ts_local st) pc))) ts).
  Proof.
    intros Hth Hst Hpc (Hs & Hlen & Hts). apply nth_error_map_some5 in Hth as (k & Hk & ->).
    pose proof (nth_error_In _ _ Hk) as Hin. unfold s5_thread.
    assert (Hothers : forall s' v, Pool s' -> (k = 30 -> LInv v) -> Q5 s' (nth_upd i (fun _ => v) ts)).
    { intros s' v Hs' Hv. split; [exact Hs'|]. split; [rewrite nth_upd_length; exact Hlen|].
      intros j k' st' Hk' Hst' E. destruct (Nat.eq_dec i j) as [<-|Hij].
      - rewrite (nth_upd_same _ _ _ _ Hst) in Hst'. injection Hst' as <-. rewrite Hk in Hk'. injection Hk' as <-. apply Hv. exact E.
      - rewrite nth_upd_other in Hst' by exact Hij. apply (Hts j k' st' Hk' Hst' E). }
    destruct (Z.eqb k 30) eqn:E30.
    - (* a listing *)
      apply Z.eqb_eq in E30. pose proof (Hts i k st Hk Hst E30) as Hl. unfold LInv in Hl. rewrite Hpc in Hl.
      unfold lister. cbn [t_step]. destruct (Z.eqb pc 0) eqn:E0.
      + (* the copy under the balancer's lock *)
        destruct s as [|x t] eqn:Es; cbn [fst snd].
        * apply Hothers; [exact Hs|]. intros _. unfold LInv. cbn [ts_pc ts_local snd]. exact Hs.
        * apply Hothers; [exact Hs|]. intros _. unfold LInv. cbn [ts_pc ts_local fst snd]. right.
          split; [exact Hs|]. split; [unfold zlen; cbn [length]; lia|reflexivity].
      + apply Z.eqb_neq in E0. destruct Hl as [Hl|(Hp & Hr & Hres)]; [contradiction|].
        destruct (ts_local st) as [snap res] eqn:El. cbn [fst snd] in *.
        assert (Hnat : Z.to_nat pc = S (Z.to_nat (pc - 1))) by lia.
        assert (Hres' : res ++ [nth (Z.to_nat (pc - 1)) snap 0] = firstn (Z.to_nat pc) snap).
        { rewrite Hres, Hnat. symmetry. apply firstn_snoc. unfold zlen in Hr. lia. }
        destruct (Z.eqb pc (zlen snap)) eqn:Een; cbn [fst snd].
        * apply Z.eqb_eq in Een. apply Hothers; [exact Hs|]. intros _. unfold LInv. cbn [ts_pc ts_local snd].
          rewrite Hres', Een. unfold zlen. rewrite Nat2Z.id, firstn_all. exact Hp.
        * apply Z.eqb_neq in Een. apply Hothers; [exact Hs|]. intros _. unfold LInv. cbn [ts_pc ts_local fst snd]. right.
          split; [exact Hp|]. split; [lia|]. rewrite Hres'. replace (pc + 1 - 1) with pc by lia. reflexivity.
    - (* a removal *)
      apply Z.eqb_neq in E30. destruct (Hkinds k Hin) as [->|Hk41]; [contradiction|].
      unfold remover. cbn [t_step fst snd]. apply Hothers; [apply remover_pool; assumption|]. intros E. contradiction.
  Qed.

  Lemma pool_init : Pool init.
  Proof.
    split; [|split; auto]. subst init. apply FinFun.Injective_map_NoDup; [intros a b H; lia|apply seq_NoDup].
  Qed.

  Theorem s5_invariant sched :
    let ths := map s5_thread kinds in
    let ts0 := map (fun _ : Z => mkTS (([] : list Z), ([] : list Z)) (Some 0)) kinds in
    Q5 (fst (fst (run_sched ths init ts0 sched []))) (snd (fst (run_sched ths init ts0 sched []))).
  Proof.
    intros ths ts0. apply (run_sched_joint Q5).
    - intros i th st pc s ts Hth Hst Hpc Hq. apply Q5_step; assumption.
    - split; [apply pool_init|]. split; [subst ts0; rewrite map_length; reflexivity|].
      intros i k st Hk Hst _. subst ts0. apply nth_error_map_some5 in Hst as (k' & _ & ->). unfold LInv. cbn. left. reflexivity.
  Qed.

  (* every finished listing *)
  Theorem s5_all_schedules sched :
    let ths := map s5_thread kinds in
    let ts0 := map (fun _ : Z => mkTS (([] : list Z), ([] : list Z)) (Some 0)) kinds in
    let ts := snd (fst (run_sched ths init ts0 sched [])) in
    forall i st, nth_error kinds i = Some 30 -> nth_error ts i = Some st -> ts_pc st = None ->
      let listing := snd (ts_local st) in
      NoDup listing /\ (forall x, In x listing -> 1 <= x <= n) /\ (forall x, 1 <= x <= n -> memZ (40 + x) kinds = false -> In x listing).
  Proof.
    intros ths ts0 ts i st Hi Hst Hdone. destruct (s5_invariant sched) as (_ & _ & Hts).
    specialize (Hts i 30 st Hi Hst eq_refl). unfold LInv in Hts. rewrite Hdone in Hts. destruct Hts as (A & B & C).
    cbn zeta. split; [exact A|]. split.
    - intros x Hx. apply B in Hx. subst init. apply in_map_iff in Hx as (k & <- & Hk). apply in_seq in Hk. lia.
    - intros x Hx Hm. apply C; [|exact Hm]. subst init. apply in_map_iff. exists (Z.to_nat x). split; [lia|]. apply in_seq. lia.
  Qed.
End S5.
