(* Proofs about the composite balancer model Model/LB.v. *)
From Helios Require Import Base.Prelude Base.Wrap Base.Bytes Model.Hash Model.Strategy Model.ClientIP
                           Model.Limiter Model.Breaker Model.LB Proofs.StrategyProofs.

Local Arguments Z.add : simpl never.
Local Arguments Z.sub : simpl never.
Local Arguments Z.mul : simpl never.
Local Arguments zlen : simpl never.

(* ---- IsBackendHealthy decides exactly "not inside the unhealthy window" ---- *)
Lemma is_healthy_iff s b : fst (is_healthy s b) = negb (in_window b (now s)).
Proof.
  unfold is_healthy, in_window. destruct (bflag b); cbn [negb andb fst]; [reflexivity|].
  destruct (buntil b <? now s) eqn:E; cbn [fst]; lia.
Qed.

Lemma flag_not_in_window b t : bflag b = true -> in_window b t = false.
Proof. intros H. unfold in_window. rewrite H. reflexivity. Qed.

(* counters are not touched by the helpers that only move backends / mirrors around *)
Definition counters (s : lb) : Z * Z * Z * Z := (total s, succ s, failed s, rlim s).

Lemma counters_upd_obj s id f : counters (upd_obj s id f) = counters s.  Proof. reflexivity. Qed.
Lemma counters_mirror_health s n h : counters (mirror_health s n h) = counters s.  Proof. reflexivity. Qed.
Lemma counters_mirror_gauge s n g : counters (mirror_gauge s n g) = counters s.  Proof. reflexivity. Qed.
Lemma counters_record_backend s n ok : counters (record_backend s n ok) = counters s.  Proof. reflexivity. Qed.
Lemma infl_upd_obj s id f : infl (upd_obj s id f) = infl s.  Proof. reflexivity. Qed.

Lemma is_healthy_counters s b : counters (snd (is_healthy s b)) = counters s /\ infl (snd (is_healthy s b)) = infl s
                                /\ now (snd (is_healthy s b)) = now s.
Proof. unfold is_healthy. destruct (bflag b); [auto|]. destruct (buntil b <? now s); auto. Qed.

Lemma refresh_ids_counters ids : forall s,
  counters (refresh_ids ids s) = counters s /\ infl (refresh_ids ids s) = infl s /\ now (refresh_ids ids s) = now s.
Proof.
  induction ids as [|id t IH]; intros s; cbn [refresh_ids]; [auto|].
  destruct (find_obj s id) as [b|]; [|apply IH].
  destruct (IH (snd (is_healthy s b))) as (A & B & C). destruct (is_healthy_counters s b) as (A' & B' & C').
  rewrite A, B, C. auto.
Qed.

Lemma find_healthy_loop_counters fuel : forall s r,
  counters (snd (find_healthy_loop fuel s r)) = counters s /\ infl (snd (find_healthy_loop fuel s r)) = infl s
  /\ now (snd (find_healthy_loop fuel s r)) = now s.
Proof.
  induction fuel as [|f IH]; intros s r; cbn [find_healthy_loop]; [auto|].
  destruct (s_pick (ss s) r) as [ob ss']. destruct ob as [b|]; [|auto].
  destruct (find_obj (with_ss s ss') (bid b)) as [b'|]; [|auto].
  destruct (is_healthy_counters (with_ss s ss') b') as (A & B & C).
  destruct (is_healthy (with_ss s ss') b') as [h s2]. cbn [snd] in *.
  destruct h; cbn [snd]; [auto|].
  destruct (IH s2 r) as (A' & B' & C'). rewrite A', B', C'. auto.
Qed.

Lemma find_healthy_counters fuel s r :
  counters (snd (find_healthy fuel s r)) = counters s /\ infl (snd (find_healthy fuel s r)) = infl s
  /\ now (snd (find_healthy fuel s r)) = now s.
Proof.
  unfold find_healthy, refresh_all.
  destruct (find_healthy_loop_counters fuel (refresh_ids (map bid (pool s)) s) r) as (A & B & C).
  destruct (refresh_ids_counters (map bid (pool s)) s) as (A' & B' & C'). rewrite A, B, C. auto.
Qed.

(* ---- C13: conservation law.  Every request that reached the balancer is in exactly one of:
        successful, failed, rate-limited, or still in flight. ---- *)
Definition conserved (s : lb) : Prop := total s = succ s + failed s + rlim s + zlen (infl s).

Lemma zlen_cons {A} (x : A) l : zlen (x :: l) = zlen l + 1.
Proof. unfold zlen. cbn [length]. lia. Qed.

Lemma lb_begin_conserved cfg s rid q :
  conserved s ->
  conserved (fst (lb_begin cfg s rid q)) /\ total (fst (lb_begin cfg s rid q)) = total s + 1.
Proof.
  unfold conserved. intros H. unfold lb_begin.
  set (s0 := with_counts s (total s + 1) (succ s) (failed s) (rlim s)).
  assert (H0 : total s0 = succ s0 + failed s0 + rlim s0 + zlen (infl s0) + 1 /\ total s0 = total s + 1)
    by (subst s0; cbn; lia).
  clearbody s0.
  (* limiter *)
  destruct (c_lim cfg).
  - destruct (allow (c_lcfg cfg) {| lnow := now s0; lbuckets := lbuckets (lims s0) |} (q_client q)) as [l' ok].
    destruct ok; cbn [negb].
    + (* passes the gate *)
      set (s1 := with_lims s0 l'). assert (H1 : counters s1 = counters s0 /\ infl s1 = infl s0) by (split; reflexivity).
      clearbody s1.
      destruct (c_brk cfg).
      * destruct (begin (c_bcfg cfg) (advance (brk s1) (now s1 - bnow (brk s1))) rid) as [b' code].
        set (s2 := with_brk s1 b'). assert (H2 : counters s2 = counters s0 /\ infl s2 = infl s0)
          by (subst s2; destruct H1 as [A B]; unfold counters in *; cbn; split; [exact A|exact B]).
        clearbody s2.
        destruct (Z.eqb code 1); [cbn; unfold counters in *; destruct H2 as [A B]; inversion A; rewrite B; destruct H0; cbn; lia|].
        destruct (Z.eqb code 2); [cbn; unfold counters in *; destruct H2 as [A B]; inversion A; rewrite B; destruct H0; cbn; lia|].
        destruct (find_healthy_counters 3 s2 (q_h q)) as (A & B & _).
        destruct (find_healthy 3 s2 (q_h q)) as [ob s3]. cbn [snd] in A, B.
        destruct H2 as [A2 B2]. unfold counters in *. inversion A. inversion A2. destruct H0.
        destruct ob as [b|]; cbn; rewrite ?zlen_cons; rewrite ?B, ?B2; lia.
      * destruct (find_healthy_counters 3 s1 (q_h q)) as (A & B & _).
        destruct (find_healthy 3 s1 (q_h q)) as [ob s3]. cbn [snd] in A, B.
        destruct H1 as [A1 B1]. unfold counters in *. inversion A. inversion A1. destruct H0.
        destruct (0 =? 1) eqn:E01; [discriminate|]. destruct (0 =? 2) eqn:E02; [discriminate|].
        destruct ob as [b|]; cbn; rewrite ?zlen_cons; rewrite ?B, ?B1; lia.
    + cbn. destruct H0. lia.
  - cbn [negb].
    destruct (c_brk cfg).
    * destruct (begin (c_bcfg cfg) (advance (brk s0) (now s0 - bnow (brk s0))) rid) as [b' code].
      set (s2 := with_brk s0 b'). assert (H2 : counters s2 = counters s0 /\ infl s2 = infl s0) by (split; reflexivity).
      clearbody s2.
      destruct (Z.eqb code 1); [cbn; unfold counters in *; destruct H2 as [A B]; inversion A; rewrite B; destruct H0; cbn; lia|].
      destruct (Z.eqb code 2); [cbn; unfold counters in *; destruct H2 as [A B]; inversion A; rewrite B; destruct H0; cbn; lia|].
      destruct (find_healthy_counters 3 s2 (q_h q)) as (A & B & _).
      destruct (find_healthy 3 s2 (q_h q)) as [ob s3]. cbn [snd] in A, B.
      destruct H2 as [A2 B2]. unfold counters in *. inversion A. inversion A2. destruct H0.
      destruct ob as [b|]; cbn; rewrite ?zlen_cons; rewrite ?B, ?B2; lia.
    * destruct (find_healthy_counters 3 s0 (q_h q)) as (A & B & _).
      destruct (find_healthy 3 s0 (q_h q)) as [ob s3]. cbn [snd] in A, B.
      unfold counters in *. inversion A. destruct H0.
      destruct (0 =? 1) eqn:E01; [discriminate|]. destruct (0 =? 2) eqn:E02; [discriminate|].
      destruct ob as [b|]; cbn; rewrite ?zlen_cons; rewrite ?B; lia.
Qed.

Lemma remove_infl_len rid l v : lookup rid l = Some v -> zlen (remove_infl rid l) = zlen l - 1.
Proof.
  induction l as [|[r x] t IH]; cbn [lookup remove_infl]; [discriminate|].
  rewrite (Z.eqb_sym r rid). destruct (Z.eqb rid r); intros H.
  - rewrite zlen_cons. lia.
  - rewrite !zlen_cons. rewrite (IH H). lia.
Qed.

Lemma passive_fail_counters cfg s id name :
  counters (passive_fail cfg s id name) = counters s /\ infl (passive_fail cfg s id name) = infl s.
Proof. unfold passive_fail. destruct (c_pthr cfg <=? _); split; reflexivity. Qed.

Lemma lb_end_conserved cfg s rid o :
  conserved s -> conserved (fst (lb_end cfg s rid o)) /\ total (fst (lb_end cfg s rid o)) = total s.
Proof.
  unfold conserved. intros H. unfold lb_end.
  destruct (lookup rid (infl s)) as [[id name]|] eqn:El; [|cbn; auto].
  pose proof (remove_infl_len rid (infl s) _ El) as Hlen.
  set (s0 := with_infl s (remove_infl rid (infl s))).
  assert (H0 : total s0 = succ s0 + failed s0 + rlim s0 + zlen (infl s0) + 1 /\ total s0 = total s)
    by (subst s0; cbn; lia).
  clearbody s0. clear H Hlen El.
  destruct o as [code|].
  - set (ok := code <? 500).
    set (s1 := record_backend (record_response s0 ok) name ok).
    assert (H1 : total s1 = succ s1 + failed s1 + rlim s1 + zlen (infl s1) /\ total s1 = total s)
      by (subst s1; destruct H0; destruct ok; cbn; lia).
    clearbody s1.
    set (s2 := if (500 <=? code) && c_passive cfg then passive_fail cfg s1 id name else s1).
    assert (H2 : counters s2 = counters s1 /\ infl s2 = infl s1).
    { subst s2. destruct ((500 <=? code) && c_passive cfg); [apply passive_fail_counters|auto]. }
    clearbody s2. destruct H2 as [A B]. unfold counters in A. inversion A.
    destruct (c_brk cfg); cbn; rewrite ?B; destruct H1; split; lia.
  - destruct (c_brk cfg); cbn; destruct H0; split; lia.
Qed.

Lemma lb_step_conserved cfg s o : conserved s -> conserved (fst (lb_step cfg s o)).
Proof.
  intros H. destruct o; cbn [lb_step].
  - pose proof (lb_begin_conserved cfg s rid q H) as [A _]. destruct (lb_begin cfg s rid q) as [s' [k x]]. exact A.
  - pose proof (lb_end_conserved cfg s rid o H) as [A _]. destruct (lb_end cfg s rid o) as [s' st]. exact A.
  - exact H.
  - unfold lb_add. destruct (negb addr_ok); [exact H|]. destruct (has_name name (pool s)); exact H.
  - unfold lb_remove. cbn [fst]. revert H. generalize (pool s) at 1. intros snap. revert s.
    induction snap as [|b t IH]; intros s H; cbn [remove_named]; [exact H|].
    destruct (Z.eqb (bname b) name); apply IH; exact H.
  - unfold lb_set_strategy. destruct ((0 <=? k) && (k <=? 4)); exact H.
  - exact H.
  - exact H.
  - unfold lb_probe. cbn [fst]. destruct (stopped s); [exact H|]. destruct (find_obj s id) as [b|]; [|exact H].
    destruct (is_healthy_counters s b) as (A & B & _). destruct (is_healthy s b) as [h s1]. cbn [snd] in *.
    unfold conserved, counters in *. inversion A.
    destruct (negb h); [rewrite B; lia|]. destruct ok; cbn; rewrite ?B; lia.
  - exact H.
  - exact H.
Qed.

Theorem lb_run_conserved cfg ops : forall s, conserved s -> conserved (fst (lb_run cfg s ops)).
Proof.
  induction ops as [|o t IH]; intros s H; cbn [lb_run fst]; [exact H|].
  pose proof (lb_step_conserved cfg s o H) as H1. destruct (lb_step cfg s o) as [s1 out]. cbn [fst] in H1.
  specialize (IH s1 H1). destruct (lb_run cfg s1 t) as [s2 outs]. exact IH.
Qed.

Lemma lb_init_conserved cfg k t0 : conserved (lb_init cfg k t0).
Proof. unfold conserved. cbn. reflexivity. Qed.

(* total_requests counts the Begin operations *)
Fixpoint begins (ops : list lbop) : Z :=
  match ops with [] => 0 | LBegin _ _ :: t => 1 + begins t | _ :: t => begins t end.

Lemma lb_step_total cfg s o :
  conserved s -> total (fst (lb_step cfg s o)) = total s + (match o with LBegin _ _ => 1 | _ => 0 end).
Proof.
  intros H. destruct o; cbn [lb_step]; try (cbn; lia).
  - pose proof (lb_begin_conserved cfg s rid q H) as [_ A]. destruct (lb_begin cfg s rid q) as [s' [k x]]. exact A.
  - pose proof (lb_end_conserved cfg s rid o H) as [_ A]. destruct (lb_end cfg s rid o) as [s' st]. cbn [fst] in *. lia.
  - unfold lb_add. destruct (negb addr_ok); [cbn; lia|]. destruct (has_name name (pool s)); cbn; lia.
  - unfold lb_remove. cbn [fst]. rewrite Z.add_0_r. generalize (pool s) at 1. intros snap. revert s H.
    induction snap as [|b t IH]; intros s H; cbn [remove_named]; [reflexivity|].
    destruct (Z.eqb (bname b) name); [rewrite IH; [reflexivity|exact H]|apply IH; exact H].
  - unfold lb_set_strategy. destruct ((0 <=? k) && (k <=? 4)); cbn; lia.
  - unfold lb_probe. cbn [fst]. destruct (stopped s); [lia|]. destruct (find_obj s id) as [b|]; [|lia].
    destruct (is_healthy_counters s b) as (A & _). destruct (is_healthy s b) as [h s1]. cbn [snd] in *.
    unfold counters in A. inversion A. destruct (negb h); [lia|]. destruct ok; cbn; lia.
Qed.

Theorem lb_run_total cfg ops : forall s,
  conserved s -> total (fst (lb_run cfg s ops)) = total s + begins ops.
Proof.
  induction ops as [|o t IH]; intros s H; cbn [lb_run fst begins]; [lia|].
  pose proof (lb_step_conserved cfg s o H) as H1. pose proof (lb_step_total cfg s o H) as H2.
  destruct (lb_step cfg s o) as [s1 out]. cbn [fst] in *.
  specialize (IH s1 H1). destruct (lb_run cfg s1 t) as [s2 outs]. cbn [fst] in *. rewrite IH, H2.
  destruct o; lia.
Qed.

(* ---- C11 ---- *)
Lemma lb_add_fail_unchanged s name w ok : snd (lb_add s name w ok) = 1 -> fst (lb_add s name w ok) = s.
Proof.
  unfold lb_add. destruct (negb ok); [reflexivity|]. destruct (has_name name (pool s)); [reflexivity|].
  cbn. discriminate.
Qed.

Lemma lb_add_fails_iff s name w ok :
  snd (lb_add s name w ok) = 1 <-> (ok = false \/ has_name name (pool s) = true).
Proof.
  unfold lb_add. destruct ok; cbn [negb].
  - destruct (has_name name (pool s)); cbn; split; auto; try discriminate. intros [H|H]; discriminate.
  - cbn. split; auto.
Qed.

Lemma lb_list_app s b : lb_list (with_ss s (s_add (ss s) b)) = lb_list s ++ [bname b; b2z (bflag b); bactive b; bweight b].
Proof.
  unfold lb_list, pool, with_ss, s_add. cbn [ss spool]. rewrite flat_map_app. cbn [flat_map app]. reflexivity.
Qed.

(* a successful add is listed last, healthy, idle, with weight max(1, w) *)
Lemma lb_add_listed s name w :
  has_name name (pool s) = false ->
  snd (lb_add s name w true) = 0 /\
  lb_list (fst (lb_add s name w true)) = lb_list s ++ [name; 1; 0; (if w <? 1 then 1 else w)].
Proof.
  intros Hn. unfold lb_add. cbn [negb]. rewrite Hn. cbn [fst snd]. split; [reflexivity|].
  unfold mirror_health, bm_set. unfold lb_list at 1. unfold pool.
  change (spool (ss (with_bm _ _))) with (spool (s_add (ss s) (mkB (nextid s) name (if w <? 1 then 1 else w) true 0 0 0))).
  unfold s_add. cbn [spool]. rewrite flat_map_app. reflexivity.
Qed.

Lemma lb_set_strategy_fail_unchanged s k : snd (lb_set_strategy s k) = 1 -> fst (lb_set_strategy s k) = s.
Proof. unfold lb_set_strategy. destruct ((0 <=? k) && (k <=? 4)); [cbn; discriminate|reflexivity]. Qed.

(* a strategy switch keeps exactly the same backends, in the same order, with weights, health and in-flight counts *)
Lemma lb_set_strategy_list s k : lb_list (fst (lb_set_strategy s k)) = lb_list s.
Proof.
  unfold lb_set_strategy. destruct ((0 <=? k) && (k <=? 4)); [|reflexivity].
  cbn [fst]. unfold lb_list, pool, with_ss, s_switch. cbn [ss spool].
  induction (spool (ss s)) as [|b t IH]; cbn [map flat_map]; [reflexivity|]. rewrite IH. reflexivity.
Qed.

(* ---- C04 ---- *)
Lemma find_id_upd_same id f p b : find_id id p = Some b -> find_id id (upd_id id f p) = Some (f b) \/ bid (f b) <> id.
Proof.
  induction p as [|x t IH]; cbn [find_id upd_id map]; [discriminate|].
  destruct (Z.eqb (bid x) id) eqn:E.
  - intros H. inversion H; subst. destruct (Z.eqb (bid (f b)) id) eqn:E2; [left; reflexivity|right; lia].
  - intros H. rewrite E. apply IH. exact H.
Qed.

Lemma find_id_upd id id' f p : (forall b, bid (f b) = bid b) ->
  find_id id' (upd_id id f p) = if Z.eqb id' id then option_map f (find_id id' p) else find_id id' p.
Proof.
  intros Hf. induction p as [|x t IH]; cbn [find_id upd_id map option_map].
  - destruct (Z.eqb id' id); reflexivity.
  - destruct (Z.eqb (bid x) id) eqn:E1.
    + rewrite Hf. destruct (Z.eqb (bid x) id') eqn:E2.
      * assert (id' = id) by lia. subst. rewrite Z.eqb_refl. reflexivity.
      * exact IH.
    + destruct (Z.eqb (bid x) id') eqn:E2.
      * assert (E3 : Z.eqb id' id = false) by lia. rewrite E3. reflexivity.
      * exact IH.
Qed.

(* MarkBackendUnhealthy opens the window [now, now + unhealthy_timeout] on the object *)
Lemma mark_opens_window cfg s id name b :
  find_id id (pool s) = Some b -> 0 <= c_ptimeout cfg ->
  exists b', find_id id (pool (mark_unhealthy cfg s id name)) = Some b'
             /\ bflag b' = false /\ buntil b' = now s + c_ptimeout cfg
             /\ forall t, now s <= t <= now s + c_ptimeout cfg -> in_window b' t = true.
Proof.
  intros Hb Ht. unfold mark_unhealthy, mirror_health, bm_set, upd_obj.
  change (pool (with_bm _ _)) with (upd_id id (fun b0 => set_until (now s + c_ptimeout cfg) (set_flag false b0)) (pool s)).
  rewrite find_id_upd by (intros; reflexivity). rewrite Z.eqb_refl, Hb. cbn [option_map].
  eexists. split; [reflexivity|]. cbn. split; [reflexivity|]. split; [reflexivity|].
  intros t Hr. unfold in_window. cbn. lia.
Qed.

(* the passive counter of a name: reaches the threshold => reset to 0 (and the backend is ejected),
   otherwise incremented; successes never touch it *)
Lemma passive_counter cfg s id name :
  let n := match lookup name (pass s) with Some n => n | None => 0 end in
  lookup name (pass (passive_fail cfg s id name)) = Some (if c_pthr cfg <=? n + 1 then 0 else n + 1).
Proof.
  cbn zeta. unfold passive_fail. destruct (c_pthr cfg <=? _) eqn:E.
  - cbn [pass with_pass]. rewrite lookup_update_same. reflexivity.
  - cbn [pass with_pass]. rewrite lookup_update_same. reflexivity.
Qed.

(* a successful probe never ejects: no flag goes from true to false *)
Lemma probe_ok_no_eject cfg s id x :
  forall b, find_id x (pool s) = Some b -> bflag b = true ->
  exists b', find_id x (pool (lb_probe cfg s id true)) = Some b' /\ bflag b' = true.
Proof.
  intros b Hb Hf. unfold lb_probe. destruct (stopped s); [eauto|].
  destruct (find_obj s id) as [o|]; [|eauto].
  unfold is_healthy. destruct (bflag o) eqn:Eo.
  - cbn [negb]. unfold mirror_health, bm_set, upd_obj.
    change (pool (with_bm _ _)) with (upd_id id (set_flag true) (pool s)).
    rewrite find_id_upd by (intros; reflexivity). destruct (Z.eqb x id); rewrite Hb; cbn [option_map]; eauto.
  - destruct (buntil o <? now s).
    + cbn [negb]. unfold mirror_health, bm_set, upd_obj.
      change (pool (with_bm _ _)) with
        (upd_id id (set_flag true) (upd_id (bid o) (set_flag true) (pool s))).
      rewrite !find_id_upd by (intros; reflexivity).
      destruct (Z.eqb x id); destruct (Z.eqb x (bid o)); rewrite Hb; cbn [option_map]; eauto.
    + cbn [negb]. eauto.
Qed.
