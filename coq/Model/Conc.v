(* Step-level models of the critical sections of four pairs of operations, for schedule replay on the real code.
   A thread is parked before each lock acquisition (the yield points go2coq inserts); one schedule entry lets one thread run
   from the yield it is parked at to its next yield (or to its end).  An entry naming a finished thread is skipped. *)
From Helios Require Import Base.Prelude.

Section Sched.
  Variables Sh Lo : Type.
  (* a thread: program counter of its first yield; what the section starting at a pc does (new shared state, new local
     state, the pc of the next yield or None when the operation returns) ; the label of the yield at a pc *)
  Record thr := mkThr { t_step : Sh -> Lo -> Z -> Sh * Lo * option Z; t_lab : Z -> Z }.

  Record tstate := mkTS { ts_local : Lo; ts_pc : option Z }.

  Fixpoint nth_upd {A} (i : nat) (f : A -> A) (l : list A) : list A :=
    match l, i with [], _ => [] | x :: t, O => f x :: t | x :: t, S k => x :: nth_upd k f t end.

  (* run a schedule; returns the shared state, the thread states and the labels passed, as (thread, label) *)
  Fixpoint run_sched (ths : list thr) (s : Sh) (ts : list tstate) (sched : list Z) (trace : list (Z * Z)) : Sh * list tstate * list (Z * Z) :=
    match sched with
    | [] => (s, ts, rev trace)
    | i :: rest =>
        match nth_error ths (Z.to_nat i), nth_error ts (Z.to_nat i) with
        | Some th, Some st =>
            match ts_pc st with
            | None => run_sched ths s ts rest trace
            | Some pc =>
                let '(s', l', next) := t_step th s (ts_local st) pc in
                run_sched ths s' (nth_upd (Z.to_nat i) (fun _ => mkTS l' next) ts) rest ((i, t_lab th pc) :: trace)
            end
        | _, _ => run_sched ths s ts rest trace
        end
    end.

  (* after the schedule is exhausted the remaining threads run to completion one after the other (free run; only used
     with schedules long enough that nothing is left) *)
  Definition all_done (ts : list tstate) : bool := forallb (fun st => match ts_pc st with None => true | Some _ => false end) ts.
End Sched.

Arguments mkThr {Sh Lo}.
Arguments mkTS {Lo}.
Arguments run_sched {Sh Lo}.
Arguments all_done {Lo}.
Arguments ts_local {Lo}.
Arguments ts_pc {Lo}.

(* labels *)
Definition L_IBH_R : Z := 1.   (* IsBackendHealthy:RLock *)
Definition L_IBH_W : Z := 2.   (* IsBackendHealthy:Lock *)
Definition L_MARK : Z := 3.    (* MarkBackendUnhealthy:Lock *)
Definition L_BR_R : Z := 4.    (* beforeRequest:RLock *)
Definition L_BR_W : Z := 5.    (* beforeRequest:Lock *)
Definition L_EX_W : Z := 6.    (* Execute:Lock *)
Definition L_AR_W : Z := 7.    (* afterRequest:Lock *)
Definition L_SETSTRAT : Z := 8.
Definition L_ADD : Z := 9.
Definition L_REMOVE : Z := 10.
Definition L_PUT : Z := 11.
Definition L_SHUTDOWN : Z := 12.

(* ---------------------------------------------------------------------------------------------- *)
(* Scenario 1 (C04): lazy expiry (IsBackendHealthy) against a fresh ejection (MarkBackendUnhealthy).
   shared: (flag, window-is-fresh).  A checker: [RLock: snapshot] ; if the snapshot is "ejected and expired":
   [Lock: re-check on the CURRENT values, flip].  Result of the checker in its local state: -1 running, 0 false, 1 true. *)
Record hs := mkHS { h_flag : bool; h_fresh : bool }.

Definition checker : thr hs (Z * (bool * bool)) :=
  mkThr (fun s l pc =>
           if Z.eqb pc 0 then
             (* RLock section: snapshot *)
             let snap := (h_flag s, h_fresh s) in
             if negb (h_flag s) && negb (h_fresh s) then (s, (-1, snap), Some 1)      (* expired: go for the write lock *)
             else (s, (b2z (h_flag s), snap), None)
           else
             (* Lock section: double check on the current values *)
             if negb (h_flag s) && negb (h_fresh s) then (mkHS true (h_fresh s), (1, snd l), None)
             else (s, (0, snd l), None))
        (fun pc => if Z.eqb pc 0 then L_IBH_R else L_IBH_W).

Definition ejector : thr hs (Z * (bool * bool)) :=
  mkThr (fun s l pc => (mkHS false true, (0, snd l), None)) (fun _ => L_MARK).

(* kinds: 0 = checker, 1 = ejector; start: ejected, window elapsed *)
Definition s1_run (kinds : list Z) (sched : list Z) : list Z * list (Z * Z) :=
  let ths := map (fun k => if Z.eqb k 0 then checker else ejector) kinds in
  let ts0 := map (fun _ => mkTS (-1, (false, false)) (Some 0)) kinds in
  let '(s, ts, trace) := run_sched ths (mkHS false false) ts0 sched [] in
  (b2z (h_flag s) :: b2z (h_fresh s) :: map (fun st => fst (ts_local st)) ts, trace).

(* C04 on the outcome: a backend is never marked healthy while inside a fresh window *)
Definition s1_ok (obs : list Z) : bool :=
  match obs with flag :: fresh :: _ => negb (Z.eqb flag 1 && Z.eqb fresh 1) | _ => false end.

(* ---------------------------------------------------------------------------------------------- *)
(* Scenario 2 (C07): callers of Execute at the open -> half-open boundary.  shared: (state: 1 open (timeout elapsed),
   2 half-open, 0 closed; requestCount; successCount).  success_threshold is beyond reach: the episode stays open.
   Execute = [RLock: read the state]; open or half-open: [Lock: transition if still open; in half-open the budget is checked
   and the trial counted in this same section]; then fn; [Lock: afterRequest]. *)
Record bs := mkBS { bsl_state : Z; bsl_req : Z; bsl_succ : Z }.

Definition caller (maxreq : Z) : thr bs Z :=   (* local: -1 running, 0 admitted and done, 1 ErrOpen, 2 ErrTooManyRequests *)
  mkThr (fun s l pc =>
           if Z.eqb pc 0 then
             (* RLock: closed -> admitted at once (fn runs, then afterRequest) *)
             if Z.eqb (bsl_state s) 0 then (s, l, Some 2) else (s, l, Some 1)
           else if Z.eqb pc 1 then
             (* Lock: decide and account *)
             let s1 := if Z.eqb (bsl_state s) 1 then mkBS 2 0 0 else s in
             if Z.eqb (bsl_state s1) 2 then
               if maxreq <=? bsl_req s1 then (s1, 2, None)
               else (mkBS 2 (bsl_req s1 + 1) (bsl_succ s1), l, Some 2)
             else (s1, l, Some 2)
           else
             (* afterRequest (success) *)
             ((if Z.eqb (bsl_state s) 2 then mkBS 2 (bsl_req s) (bsl_succ s + 1) else s), 0, None))
        (fun pc => if Z.eqb pc 0 then L_BR_R else if Z.eqb pc 1 then L_BR_W else L_AR_W).

Definition s2_run (n maxreq : Z) (sched : list Z) : list Z * list (Z * Z) :=
  let ths := repeat_op (Z.to_nat n) (caller maxreq) in
  let ts0 := repeat_op (Z.to_nat n) (mkTS (-1) (Some 0)) in
  let '(s, ts, trace) := run_sched ths (mkBS 1 0 0) ts0 sched [] in
  (bsl_state s :: map (fun st => ts_local st) ts, trace).

(* C07 on the outcome: at most max_requests callers were admitted *)
Definition s2_ok (maxreq : Z) (obs : list Z) : bool :=
  match obs with _ :: codes => zlen (filter (Z.eqb 0) codes) <=? maxreq | [] => false end.

(* ---------------------------------------------------------------------------------------------- *)
(* Scenario 3 (C11): SetStrategy against AddBackend / RemoveBackend: each is ONE critical section of the balancer lock.
   shared: the listed names (ids) *)
Definition admin_thr (kind name : Z) : thr (list Z) Z :=
  mkThr (fun s l pc =>
           if Z.eqb kind 0 then (s, 0, None)                                   (* SetStrategy keeps the same backends *)
           else if Z.eqb kind 1 then ((if memZ name s then s else s ++ [name]), 0, None)
           else (filter (fun x => negb (Z.eqb x name)) s, 0, None))
        (fun _ => if Z.eqb kind 0 then L_SETSTRAT else if Z.eqb kind 1 then L_ADD else L_REMOVE).

Definition s3_run (ops : list (Z * Z)) (sched : list Z) : list Z * list (Z * Z) :=
  let ths := map (fun o => admin_thr (fst o) (snd o)) ops in
  let ts0 := map (fun _ => mkTS (-1) (Some 0)) ops in
  let '(s, ts, trace) := run_sched ths [1; 2] ts0 sched [] in
  (s, trace).

(* C11 on the outcome: a completed add is listed, a completed remove is not (the operations named distinct backends) *)
Definition s3_ok (ops : list (Z * Z)) (obs : list Z) : bool :=
  forallb (fun o => if Z.eqb (fst o) 1 then memZ (snd o) obs else if Z.eqb (fst o) 2 then negb (memZ (snd o) obs) else true) ops.

(* ---------------------------------------------------------------------------------------------- *)
(* Scenario 4 (C06 / C02 / C05 under concurrency): a strategy picks (LoadBalancer.NextBackend) while health flags flip.
   Every strategy reads each flag under that backend's own lock (markedHealthy): least_connections, weighted_round_robin,
   ip_hash and ip_hash_consistent read every backend once, in pool order, and then choose among those they saw healthy;
   round_robin reads along the rotation and takes the first healthy one.  shared: per backend (flag, window-is-fresh).
   The picker's local state: the flags it has read so far (in read order) and its result (-1 running, 0 nil, id >= 1). *)
From Helios Require Import Base.Wrap Base.Bytes Model.Hash Model.Strategy.

Definition L_NB_R : Z := 14.   (* NextBackend:RLock (the balancer's lock) *)
Definition L_MH : Z := 15.     (* markedHealthy:RLock *)

Definition flags := list (bool * bool).
Definition fl_get (s : flags) (j : Z) : bool * bool := nth (Z.to_nat j) s (false, false).
Definition fl_set (s : flags) (j : Z) (v : bool * bool) : flags := nth_upd (Z.to_nat j) (fun _ => v) s.

(* the pool a fresh strategy object holds: ids and names 1..n, weight 1, flags as given *)
Fixpoint pool_of (i : Z) (fs : list bool) : list backend :=
  match fs with [] => [] | f :: t => mkB i i 1 f 0 0 0 :: pool_of (i + 1) t end.

Definition pick_on_snapshot (kind : Z) (snap : list bool) (client : bytes) : Z :=
  let st := {| skd := skind_of kind; spool := pool_of 1 snap; sctr := 0 |} in
  match fst (s_pick st {| h_xff := []; h_xri := []; h_remote := client |}) with Some b => bid b | None => 0 end.

Definition pk_local := (list bool * Z)%type.

Definition picker (kind n : Z) (client : bytes) : thr flags pk_local :=
  mkThr (fun s l pc =>
           if Z.eqb pc 0 then
             (* the balancer's read lock; an empty pool is answered without looking at any flag *)
             if Z.eqb n 0 then (s, (fst l, 0), None) else (s, l, Some 1)
           else if Z.eqb kind 0 then
             (* round_robin: the counter starts at 0, the i-th probe looks at slot i mod n *)
             let f := fst (fl_get s (pc mod n)) in
             if f then (s, (fst l ++ [f], pc mod n + 1), None)
             else if Z.eqb pc n then (s, (fst l ++ [f], 0), None)
             else (s, (fst l ++ [f], -1), Some (pc + 1))
           else
             let f := fst (fl_get s (pc - 1)) in
             let snap := fst l ++ [f] in
             if Z.eqb pc n then (s, (snap, pick_on_snapshot kind snap client), None)
             else (s, (snap, -1), Some (pc + 1)))
        (fun pc => if Z.eqb pc 0 then L_NB_R else L_MH).

Definition flip_ejector (j : Z) : thr flags pk_local :=
  mkThr (fun s l pc => (fl_set s j (false, true), (fst l, 0), None)) (fun _ => L_MARK).

(* the lazy expiry of backend j (IsBackendHealthy), as in scenario 1 *)
Definition flip_healer (j : Z) : thr flags pk_local :=
  mkThr (fun s l pc =>
           let '(f, fr) := fl_get s j in
           if Z.eqb pc 0 then
             if negb f && negb fr then (s, (fst l, -1), Some 1) else (s, (fst l, b2z f), None)
           else
             if negb f && negb fr then (fl_set s j (true, fr), (fst l, 1), None) else (s, (fst l, 0), None))
        (fun pc => if Z.eqb pc 0 then L_IBH_R else L_IBH_W).

(* thread kinds: 0 = picker, 10 + j = ejector of backend j, 20 + j = healer of backend j (j from 1) *)
Definition s4_thread (kind n : Z) (client : bytes) (k : Z) : thr flags pk_local :=
  if Z.eqb k 0 then picker kind n client
  else if k <? 20 then flip_ejector (k - 11) else flip_healer (k - 21).

Definition s4_run (kind : Z) (init : list Z) (client : bytes) (kinds : list Z) (sched : list Z) : list Z * list (Z * Z) :=
  let n := zlen init in
  let ths := map (s4_thread kind n client) kinds in
  let ts0 := map (fun _ => mkTS (([] : list bool), -1) (Some 0)) kinds in
  let s0 := map (fun i => (Z.eqb i 1, false)) init in
  let '(s, ts, trace) := run_sched ths s0 ts0 sched [] in
  (map (fun p => b2z (fst p)) s ++ map (fun st => snd (ts_local st)) ts, trace).

(* the claim on the outcome, from the configuration of the scenario alone: a backend nobody ejects during the call and that
   was healthy at its start is healthy throughout: the pick may not be nil; a backend that is ejected from the start and that
   nobody re-admits is never the pick *)
Definition always_healthy (init kinds : list Z) (j : Z) : bool := Z.eqb (nth (Z.to_nat (j - 1)) init 0) 1 && negb (memZ (10 + j) kinds).
Definition always_ejected (init kinds : list Z) (j : Z) : bool := Z.eqb (nth (Z.to_nat (j - 1)) init 1) 0 && negb (memZ (20 + j) kinds).
(* a picker the schedule did not let finish reports -1 and claims nothing *)
Definition res_ok (init kinds : list Z) (r : Z) : bool :=
  Z.eqb r (-1)
  || (if Z.eqb r 0 then negb (existsb (always_healthy init kinds) (map Z.of_nat (seq 1 (length init))))
      else (1 <=? r) && (r <=? zlen init) && negb (always_ejected init kinds r)).
Fixpoint s4_results_ok (init kinds : list Z) (ks : list Z) (res : list Z) : bool :=
  match ks, res with
  | k :: ks', r :: res' => (if Z.eqb k 0 then res_ok init kinds r else true) && s4_results_ok init kinds ks' res'
  | _, _ => true
  end.
Definition s4_ok (init kinds : list Z) (obs : list Z) : bool :=
  s4_results_ok init kinds kinds (skipn (length init) obs).

(* ---------------------------------------------------------------------------------------------- *)
(* Scenario 5 (C11): a listing (ListBackends) against removals.  The listing copies the pool under the balancer's lock and then
   visits every backend of its copy under that backend's lock; a removal is one section and takes the slot of the removed
   backend by swapping the last one into it.  shared: the names in strategy order.  local: (snapshot, listing so far). *)
Definition L_LIST : Z := 16.   (* ListBackends:RLock *)

Fixpoint rm_swap (x : Z) (l : list Z) : list Z :=
  match l with
  | [] => []
  | y :: t => if Z.eqb y x then (match rev t with [] => [] | z :: _ => z :: removelast t end) else y :: rm_swap x t
  end.

Definition lister : thr (list Z) (list Z * list Z) :=
  mkThr (fun s l pc =>
           if Z.eqb pc 0 then (match s with [] => (s, ([], []), None) | _ => (s, (s, []), Some 1) end)
           else
             let res := snd l ++ [nth (Z.to_nat (pc - 1)) (fst l) 0] in
             if Z.eqb pc (zlen (fst l)) then (s, (fst l, res), None) else (s, (fst l, res), Some (pc + 1)))
        (fun _ => L_LIST).

Definition remover (x : Z) : thr (list Z) (list Z * list Z) :=
  mkThr (fun s l pc => (rm_swap x s, l, None)) (fun _ => L_REMOVE).

(* thread kinds: 30 = the listing, 40 + j = removal of backend j *)
Definition s5_thread (k : Z) : thr (list Z) (list Z * list Z) := if Z.eqb k 30 then lister else remover (k - 40).

Definition s5_run (n : Z) (kinds : list Z) (sched : list Z) : list Z * list (Z * Z) :=
  let init := map Z.of_nat (seq 1 (Z.to_nat n)) in
  let ths := map s5_thread kinds in
  let ts0 := map (fun _ : Z => mkTS (([] : list Z), ([] : list Z)) (Some 0)) kinds in
  let '(s, ts, trace) := run_sched ths init ts0 sched [] in
  (flat_map (fun kt => if Z.eqb (fst kt) 30 then snd (ts_local (snd kt)) ++ [-1] else []) (combine kinds ts) ++ s, trace).

(* the claim on the outcome: a listing names no backend twice, only backends of the pool, and every backend nobody removes *)
Fixpoint nodupZ (l : list Z) : bool := match l with [] => true | x :: t => negb (memZ x t) && nodupZ t end.
Fixpoint take_listing (obs : list Z) : list Z := match obs with [] => [] | x :: t => if Z.eqb x (-1) then [] else x :: take_listing t end.
Definition s5_ok (n : Z) (kinds : list Z) (obs : list Z) : bool :=
  let listing := take_listing obs in
  nodupZ listing
  && forallb (fun x => (1 <=? x) && (x <=? n)) listing
  && forallb (fun j => memZ (40 + j) kinds || memZ j listing) (map Z.of_nat (seq 1 (Z.to_nat n))).

(* ---------------------------------------------------------------------------------------------- *)
(* Scenario 6 (C11): several AddBackend calls with ONE name against each other.  An add is one critical section of the
   balancer lock: look the name up, refuse if it is listed, otherwise append.  shared: the listed names; local: the call's
   answer (0 running, 1 added, 2 refused). *)
Definition DUP_NAME : Z := 7.
Definition add_same : thr (list Z) Z :=
  mkThr (fun s l pc => if memZ DUP_NAME s then (s, 2, None) else (s ++ [DUP_NAME], 1, None)) (fun _ => L_ADD).

Definition s6_run (n : Z) (sched : list Z) : list Z * list (Z * Z) :=
  let ths := repeat add_same (Z.to_nat n) in
  let ts0 := repeat (mkTS 0 (Some 0)) (Z.to_nat n) in
  let '(s, ts, trace) := run_sched ths [1; 2] ts0 sched [] in
  (count_id DUP_NAME s :: map (fun st => ts_local st) ts, trace).

(* the claim on the outcome: the name is listed once, exactly one call was answered "added", the others were refused *)
Definition s6_ok (obs : list Z) : bool :=
  match obs with
  | c :: rets => Z.eqb c 1 && Z.eqb (count_id 1 rets) 1 && forallb (fun r => Z.eqb r 1 || Z.eqb r 2) rets
  | [] => false
  end.

(* ---------------------------------------------------------------------------------------------- *)
(* Scenario 7 (C11): a request choosing its backend (findHealthyBackend, round robin, every backend healthy) while the pool is
   changed under it (AddBackend of n7, RemoveBackend of n1).  The selection: [RLock: copy the pool] ; for every backend of the
   copy [IsBackendHealthy:RLock] ; [NextBackend:RLock: advance the rotation over the pool as it is NOW, choose] - and, still
   inside that section, [markedHealthy:RLock of the chosen one] ; [IsBackendHealthy:RLock of the chosen one].  It never holds the
   balancer's lock from one section into the next (except for the nested markedHealthy), so a writer is never starved.
   shared: (pool in strategy order, rotation counter); local: (copy, chosen backend; 0 = none).
   pc: 0 copy | 100 + i health of copy[i] | 200 choose | 300 its flag | 400 its health. *)
Definition L_AB_R : Z := 17.    (* AddBackend:RLock: not taken by the code this model describes *)
Definition L_FHB_R : Z := 18.   (* findHealthyBackend:RLock *)

Record s7st := mkS7 { s7_pool : list Z; s7_ctr : Z }.

Definition selector : thr s7st (list Z * Z) :=
  mkThr (fun s l pc =>
           if Z.eqb pc 0 then
             match s7_pool s with [] => (s, (s7_pool s, 0), Some 200) | _ => (s, (s7_pool s, 0), Some 100) end
           else if pc <? 200 then
             (s, l, Some (if pc - 100 + 1 <? zlen (fst l) then pc + 1 else 200))
           else if Z.eqb pc 200 then
             match s7_pool s with
             | [] => (s, (fst l, 0), None)
             | p => let c := s7_ctr s + 1 in (mkS7 p c, (fst l, nth (Z.to_nat (c mod zlen p)) p 0), Some 300)
             end
           else if Z.eqb pc 300 then (s, l, Some 400)
           else (s, l, None))
        (fun pc => if Z.eqb pc 0 then L_FHB_R else if pc <? 200 then L_IBH_R else if Z.eqb pc 200 then L_NB_R else if Z.eqb pc 300 then L_MH else L_IBH_R).

Definition pool_writer (k : Z) : thr s7st (list Z * Z) :=
  if Z.eqb k 51 then mkThr (fun s l pc => (mkS7 (if memZ 7 (s7_pool s) then s7_pool s else s7_pool s ++ [7]) (s7_ctr s), l, None)) (fun _ => L_ADD)
  else mkThr (fun s l pc => (mkS7 (rm_swap 1 (s7_pool s)) (s7_ctr s), l, None)) (fun _ => L_REMOVE).

(* thread kinds: 50 = a selection, 51 = AddBackend n7, 52 = RemoveBackend n1 *)
Definition s7_thread (k : Z) : thr s7st (list Z * Z) := if Z.eqb k 50 then selector else pool_writer k.

Definition s7_run (kinds : list Z) (sched : list Z) : list Z * list (Z * Z) :=
  let ths := map s7_thread kinds in
  let ts0 := map (fun _ : Z => mkTS (([] : list Z), 0) (Some 0)) kinds in
  let '(s, ts, trace) := run_sched ths (mkS7 [1; 2; 3] 0) ts0 sched [] in
  (map (fun x => b2z (memZ x (s7_pool s))) [1; 2; 3; 7]
   ++ flat_map (fun kt => if Z.eqb (fst kt) 50 then [snd (ts_local (snd kt))] else []) (combine kinds ts), trace).

(* the claim on the outcome: every selection got a backend of the deployment (requests arriving during a change are served) *)
Definition s7_ok (obs : list Z) : bool := forallb (fun x => memZ x [1; 2; 3; 7]) (skipn 4 obs).
