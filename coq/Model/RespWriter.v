(* The http.ResponseWriter contract as an executable machine, and the plugin wrappers
   (size_limit's limitedResponseWriter, gzip's gzipResponseWriter) as transformers of the call
   sequence a handler makes.  Bodies are prefixes of ONE deterministic byte stream, so a body is
   characterised by its length (the harness checks that the bytes received are exactly that prefix);
   a gzip-compressed body of n stream bytes is the opaque payload [PGz n], which decodes to n. *)
From Helios Require Import Base.Prelude.

(* header keys the models care about *)
Definition H_CT : Z := 1.   (* Content-Type: value = index of the content type in the case's table *)
Definition H_CL : Z := 2.   (* Content-Length *)
Definition H_CE : Z := 3.   (* Content-Encoding: 1 = gzip, 2 = some other encoding *)
(* keys >= 10 are application headers, values opaque *)

Inductive payload := PRaw (n : Z) | PGz (n : Z).

Inductive wcall :=
| CSet (k v : Z)          (* Header().Set *)
| CDel (k : Z)            (* Header().Del *)
| CHead (code : Z)        (* WriteHeader *)
| CWrite (p : payload)    (* Write *)
| CFlush.

Definition hmap := list (Z * Z).

Record base := {
  b_hdr : hmap;                    (* live header map *)
  b_commit : option (Z * hmap);    (* status and header snapshot once the header is sent *)
  b_interim : list Z;              (* 1xx responses sent, in order *)
  b_body : list payload;           (* accepted body writes, in order *)
  b_flushes : list Z               (* number of body writes accepted at each flush *)
}.

Definition base0 : base := {| b_hdr := []; b_commit := None; b_interim := []; b_body := []; b_flushes := [] |}.

Definition is_interim (c : Z) : bool := (100 <=? c) && (c <=? 199) && negb (Z.eqb c 101).
Definition body_allowed (c : Z) : bool := negb (((100 <=? c) && (c <=? 199)) || Z.eqb c 204 || Z.eqb c 304).

Definition commit (b : base) (c : Z) : base :=
  match b_commit b with
  | Some _ => b
  | None => {| b_hdr := b_hdr b; b_commit := Some (c, b_hdr b); b_interim := b_interim b; b_body := b_body b; b_flushes := b_flushes b |}
  end.

Definition payload_len (p : payload) : Z := match p with PRaw n => n | PGz n => n end.

Definition base_step (b : base) (c : wcall) : base :=
  match c with
  | CSet k v => {| b_hdr := update k v (b_hdr b); b_commit := b_commit b; b_interim := b_interim b; b_body := b_body b; b_flushes := b_flushes b |}
  | CDel k => {| b_hdr := remove_key k (b_hdr b); b_commit := b_commit b; b_interim := b_interim b; b_body := b_body b; b_flushes := b_flushes b |}
  | CHead code =>
      match b_commit b with
      | Some _ => b
      | None => if is_interim code
                then {| b_hdr := b_hdr b; b_commit := None; b_interim := b_interim b ++ [code]; b_body := b_body b; b_flushes := b_flushes b |}
                else commit b code
      end
  | CWrite p =>
      let b1 := commit b 200 in
      let st := match b_commit b1 with Some (c, _) => c | None => 200 end in
      if (payload_len p <=? 0) || negb (body_allowed st) then b1
      else {| b_hdr := b_hdr b1; b_commit := b_commit b1; b_interim := b_interim b1; b_body := b_body b1 ++ [p]; b_flushes := b_flushes b1 |}
  | CFlush =>
      let b1 := commit b 200 in
      {| b_hdr := b_hdr b1; b_commit := b_commit b1; b_interim := b_interim b1; b_body := b_body b1;
         b_flushes := b_flushes b1 ++ [zlen (b_body b1)] |}
  end.

Definition base_run (b : base) (cs : list wcall) : base := fold_left base_step cs b.

(* handler returned: the header goes out if it has not yet *)
Definition base_finish (b : base) : base := commit b 200.

(* what the client can observe: interim codes, status, the committed headers that matter, the decoded
   body length (None when the payloads cannot be decoded under the received Content-Encoding) *)
Record cview := { v_interim : list Z; v_status : Z; v_ct : option Z; v_ce : option Z; v_app : hmap; v_decoded : option Z; v_raw_parts : Z }.

Fixpoint raw_total (l : list payload) : option Z :=
  match l with
  | [] => Some 0
  | PRaw n :: t => option_map (Z.add n) (raw_total t)
  | PGz _ :: _ => None
  end.

Definition decode (ce : option Z) (l : list payload) : option Z :=
  match ce with
  | Some 1 => match l with [PGz n] => Some n | [] => Some 0 | _ => None end     (* gzip *)
  | _ => raw_total l                                                             (* identity / other: raw bytes *)
  end.

Definition view (b : base) : cview :=
  let b := base_finish b in
  match b_commit b with
  | Some (c, h) =>
      (* net/http suppresses Content-Type (and the length headers) on 304 responses *)
      {| v_interim := b_interim b; v_status := c; v_ct := (if Z.eqb c 304 then None else lookup H_CT h); v_ce := lookup H_CE h;
         v_app := filter (fun kv => 10 <=? fst kv) h; v_decoded := decode (lookup H_CE h) (b_body b);
         v_raw_parts := zlen (b_body b) |}
  | None => {| v_interim := []; v_status := 0; v_ct := None; v_ce := None; v_app := []; v_decoded := None; v_raw_parts := 0 |}
  end.

(* ------------------------------------------------------------------------------------------ *)
(* size_limit: limitedResponseWriter                                                          *)

Record slw := { sl_written : Z; sl_limit : Z; sl_reached : bool; sl_wrote : bool; sl_status : Z }.
Definition slw0 (limit : Z) : slw := {| sl_written := 0; sl_limit := limit; sl_reached := false; sl_wrote := false; sl_status := 0 |}.

Definition sl_ensure (w : slw) : slw * list wcall :=
  if sl_wrote w then (w, [])
  else let st := if Z.eqb (sl_status w) 0 then 200 else sl_status w in
       ({| sl_written := sl_written w; sl_limit := sl_limit w; sl_reached := sl_reached w; sl_wrote := true; sl_status := st |}, [CHead st]).

(* calls made on the wrapper -> calls the wrapper makes on the underlying writer *)
Definition sl_step (w : slw) (c : wcall) : slw * list wcall :=
  match c with
  | CSet k v => (w, [CSet k v])          (* Header() is the underlying map *)
  | CDel k => (w, [CDel k])
  | CHead code =>
      if sl_wrote w then (w, [])
      else if is_interim code then (w, [CHead code])
      else ({| sl_written := sl_written w; sl_limit := sl_limit w; sl_reached := sl_reached w; sl_wrote := false; sl_status := code |}, [])
  | CWrite p =>
      let n := payload_len p in
      if sl_reached w then (w, [])
      else if sl_limit w <? sl_written w + n then
        if sl_wrote w
        then ({| sl_written := sl_written w; sl_limit := sl_limit w; sl_reached := true; sl_wrote := true; sl_status := sl_status w |}, [])
        else ({| sl_written := sl_written w; sl_limit := sl_limit w; sl_reached := true; sl_wrote := true; sl_status := 413 |},
              (* the 413 drops the backend's Content-Length and is flushed at once: a proxy aborts the handler right after *)
              [CDel H_CL; CHead 413; CFlush])
      else
        let '(w1, pre) := sl_ensure w in
        let acc := if body_allowed (sl_status w1) then Z.max 0 n else 0 in
        ({| sl_written := sl_written w1 + acc; sl_limit := sl_limit w1; sl_reached := sl_reached w1; sl_wrote := sl_wrote w1; sl_status := sl_status w1 |},
         pre ++ [CWrite p])
  | CFlush => let '(w1, pre) := sl_ensure w in (w1, pre ++ [CFlush])
  end.

Fixpoint sl_run (w : slw) (cs : list wcall) : slw * list wcall :=
  match cs with
  | [] => (w, [])
  | c :: t => let '(w1, o1) := sl_step w c in let '(w2, o2) := sl_run w1 t in (w2, o1 ++ o2)
  end.

(* the handler panics (http.ErrAbortHandler) right after the first Write this wrapper refuses, as httputil.ReverseProxy does
   when copying the response fails: the calls made up to and including that write, and whether one was refused *)
Fixpoint sl_cut (w : slw) (cs : list wcall) : list wcall * bool :=
  match cs with
  | [] => ([], false)
  | c :: t =>
      let refused := match c with CWrite p => sl_reached w || (sl_limit w <? sl_written w + payload_len p) | _ => false end in
      if refused then ([c], true)
      else let '(r, f) := sl_cut (fst (sl_step w c)) t in (c :: r, f)
  end.

(* what a client has received when the connection is torn down by an aborted handler: only what had been flushed *)
Definition view_aborted (b : base) : cview :=
  match b_commit b, rev (b_flushes b) with
  | Some (c, h), n :: _ =>
      let body := firstn (Z.to_nat n) (b_body b) in
      {| v_interim := b_interim b; v_status := c; v_ct := (if Z.eqb c 304 then None else lookup H_CT h); v_ce := lookup H_CE h;
         v_app := filter (fun kv => 10 <=? fst kv) h; v_decoded := decode (lookup H_CE h) body; v_raw_parts := zlen body |}
  | _, _ => {| v_interim := b_interim b; v_status := 0; v_ct := None; v_ce := None; v_app := []; v_decoded := Some 0; v_raw_parts := 0 |}
  end.

(* after next.ServeHTTP returns: a recorded status that was never sent is sent now *)
Definition sl_finish (w : slw) : list wcall :=
  if negb (sl_wrote w) && negb (Z.eqb (sl_status w) 0) then [CHead (sl_status w)] else [].

Definition sl_transform (limit : Z) (cs : list wcall) : list wcall :=
  let '(w, out) := sl_run (slw0 limit) cs in out ++ sl_finish w.

(* request side: Content-Length pre-check and http.MaxBytesReader.
   declared: Some n for a declared length, None for chunked; actual: bytes the client sends.
   Result: None = rejected with 413 before the next handler; Some k = forwarded, next handler can read k bytes *)
Definition sl_request (maxreq : Z) (declared : option Z) (actual : Z) : option Z :=
  match declared with
  | Some n => if maxreq <? n then None else Some (Z.min actual maxreq)
  | None => Some (Z.min actual maxreq)
  end.

(* ------------------------------------------------------------------------------------------ *)
(* gzip: gzipResponseWriter                                                                   *)

Record gzcfg := { gz_min : Z; gz_cap : Z; gz_types : list Z (* indices of matching content types *) }.

Record gzw := { g_status : Z; g_wrote : bool; g_committed : bool; g_buf : Z (* buffered stream bytes *);
                g_bufparts : Z; g_stream : bool; g_hdr : hmap (* mirror of the live header map *) }.
Definition gzw0 : gzw := {| g_status := 0; g_wrote := false; g_committed := false; g_buf := 0; g_bufparts := 0; g_stream := false; g_hdr := [] |}.

Definition gz_commit (w : gzw) : gzw * list wcall :=
  if g_committed w then (w, [])
  else let st := if g_wrote w then g_status w else 200 in
       ({| g_status := st; g_wrote := true; g_committed := true; g_buf := g_buf w; g_bufparts := g_bufparts w; g_stream := g_stream w; g_hdr := g_hdr w |},
        [CHead st]).

Definition gz_stream (w : gzw) : gzw * list wcall :=
  if g_stream w then (w, [])
  else let '(w1, pre) := gz_commit w in
       ({| g_status := g_status w1; g_wrote := g_wrote w1; g_committed := g_committed w1; g_buf := 0; g_bufparts := 0; g_stream := true; g_hdr := g_hdr w1 |},
        pre ++ (if 0 <? g_buf w then [CWrite (PRaw (g_buf w))] else [])).

Definition gz_step (cfg : gzcfg) (w : gzw) (c : wcall) : gzw * list wcall :=
  match c with
  | CSet k v => ({| g_status := g_status w; g_wrote := g_wrote w; g_committed := g_committed w; g_buf := g_buf w; g_bufparts := g_bufparts w;
                    g_stream := g_stream w; g_hdr := update k v (g_hdr w) |}, [CSet k v])
  | CDel k => ({| g_status := g_status w; g_wrote := g_wrote w; g_committed := g_committed w; g_buf := g_buf w; g_bufparts := g_bufparts w;
                  g_stream := g_stream w; g_hdr := remove_key k (g_hdr w) |}, [CDel k])
  | CHead code =>
      if g_wrote w then (w, [])
      else if is_interim code then (w, [CHead code])
      else ({| g_status := code; g_wrote := true; g_committed := g_committed w; g_buf := g_buf w; g_bufparts := g_bufparts w; g_stream := g_stream w; g_hdr := g_hdr w |}, [])
  | CWrite p =>
      let n := payload_len p in
      if g_stream w then (w, [CWrite p])
      else
        (* a Write without a WriteHeader before it means 200, as in net/http *)
        let w := if g_wrote w then w
                 else {| g_status := 200; g_wrote := true; g_committed := g_committed w; g_buf := g_buf w; g_bufparts := g_bufparts w;
                         g_stream := g_stream w; g_hdr := g_hdr w |} in
        if gz_cap cfg <? g_buf w + n then let '(w1, pre) := gz_stream w in (w1, pre ++ [CWrite p])
        else ({| g_status := g_status w; g_wrote := g_wrote w; g_committed := g_committed w; g_buf := g_buf w + Z.max 0 n;
                 g_bufparts := g_bufparts w + 1; g_stream := false; g_hdr := g_hdr w |}, [])
  | CFlush => let '(w1, pre) := gz_stream w in (w1, pre ++ [CFlush])
  end.

Fixpoint gz_run (cfg : gzcfg) (w : gzw) (cs : list wcall) : gzw * list wcall :=
  match cs with
  | [] => (w, [])
  | c :: t => let '(w1, o1) := gz_step cfg w c in let '(w2, o2) := gz_run cfg w1 t in (w2, o1 ++ o2)
  end.

(* shouldGzipBody: non-empty, not already encoded, declared length (if any) and actual length >= min_size,
   content type matches a configured prefix *)
Definition gz_should (cfg : gzcfg) (w : gzw) : bool :=
  (0 <? g_buf w)
  && (match lookup H_CE (g_hdr w) with Some _ => false | None => true end)
  && (match lookup H_CL (g_hdr w) with Some cl => gz_min cfg <=? cl | None => true end)
  && (gz_min cfg <=? g_buf w)
  && (match lookup H_CT (g_hdr w) with Some ct => memZ ct (gz_types cfg) | None => false end).

Definition gz_finish (cfg : gzcfg) (w : gzw) : list wcall :=
  if g_stream w then []
  else if gz_should cfg w then
    let '(_, pre) := gz_commit w in [CSet H_CE 1; CDel H_CL] ++ pre ++ [CWrite (PGz (g_buf w))]
  else
    let '(_, pre) := gz_commit w in pre ++ (if 0 <? g_buf w then [CWrite (PRaw (g_buf w))] else []).

(* accept_gzip: the request's Accept-Encoding lists the token gzip *)
Definition gz_transform (cfg : gzcfg) (accept_gzip : bool) (cs : list wcall) : list wcall :=
  if negb accept_gzip then cs
  else let '(w, out) := gz_run cfg gzw0 cs in out ++ gz_finish cfg w.

(* ------------------------------------------------------------------------------------------ *)
(* well-formed handler scripts: headers first, then interim responses, then at most one final
   WriteHeader, then writes and flushes (what httputil.ReverseProxy does) *)
Fixpoint wf_tail (cs : list wcall) : bool :=          (* only writes / flushes *)
  match cs with [] => true | CWrite _ :: t | CFlush :: t => wf_tail t | _ => false end.
Fixpoint wf_mid (cs : list wcall) : bool :=           (* interim*, final?, tail *)
  match cs with
  | CHead c :: t => if is_interim c then wf_mid t else wf_tail t
  | _ => wf_tail cs
  end.
Fixpoint wf_script (cs : list wcall) : bool :=
  match cs with
  | CSet _ _ :: t | CDel _ :: t => wf_script t
  | _ => wf_mid cs
  end.

Fixpoint written_total (cs : list wcall) : Z :=
  match cs with [] => 0 | CWrite p :: t => Z.max 0 (payload_len p) + written_total t | _ :: t => written_total t end.
