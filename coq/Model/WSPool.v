(* The WebSocket connection pool (internal/loadbalancer/websocket_pool.go).
   Connections and backends are ids.  The per-backend idle stacks are kept as ONE list of entries in insertion order
   (a backend's stack is the sub-list of its entries; Get pops the most recent entry of that backend), which makes
   "no connection is pooled twice" a plain NoDup.  [pw_pools] is the set of backends that have a pool object (Put
   creates it; Get / Close / Stats only look it up; Shutdown forgets all of them). *)
From Helios Require Import Base.Prelude.

Record entry := mkEntry { e_backend : Z; e_conn : Z; e_last : Z }.

Record wpool := mkWPool {
  pw_idle : list entry;            (* oldest first *)
  pw_active : list (Z * Z);        (* backend -> active counter (as the code computes it) *)
  pw_pools : list Z;               (* backends with a pool object *)
  pw_closed : list Z;              (* connections the pool has closed *)
  pw_now : Z
}.

Record wpcfg := mkWpCfg { wc_max_idle : Z; wc_timeout : Z }.

Definition wp_init : wpool := {| pw_idle := []; pw_active := []; pw_pools := []; pw_closed := []; pw_now := 0 |}.

Inductive wop :=
| WPut (b c : Z)
| WGet (b : Z)
| WClose (b c : Z)
| WCleanup
| WShutdown
| WAdvance (dt : Z)
| WStats (b : Z).

Inductive wout := ONone | OBool (r : bool) | OConn (c : option Z) | OStats (idle active : Z).

Definition stale (cfg : wpcfg) (now : Z) (e : entry) : bool := wc_timeout cfg <? now - e_last e.

Definition count_backend (b : Z) (l : list entry) : Z := zlen (filter (fun e => Z.eqb (e_backend e) b) l).

Definition active_of (b : Z) (s : wpool) : Z := match lookup b (pw_active s) with Some a => a | None => 0 end.
Definition dec_active (b : Z) (s : wpool) : list (Z * Z) :=
  if 0 <? active_of b s then update b (active_of b s - 1) (pw_active s) else pw_active s.

(* scan a backend's entries from the most recent one: stale ones are closed and dropped, the first fresh one is handed out.
   [l] is the idle list reversed (most recent first); the result keeps that order. *)
Fixpoint get_scan (cfg : wpcfg) (now b : Z) (l : list entry) : option Z * list entry * list Z :=
  match l with
  | [] => (None, [], [])
  | e :: t =>
      if Z.eqb (e_backend e) b then
        if stale cfg now e then let '(r, rest, cl) := get_scan cfg now b t in (r, rest, e_conn e :: cl)
        else (Some (e_conn e), t, [])
      else let '(r, rest, cl) := get_scan cfg now b t in (r, e :: rest, cl)
  end.

Definition wp_step (cfg : wpcfg) (s : wpool) (o : wop) : wpool * wout :=
  match o with
  | WPut b c =>
      let pools := if memZ b (pw_pools s) then pw_pools s else pw_pools s ++ [b] in
      let act := dec_active b s in
      if wc_max_idle cfg <=? count_backend b (pw_idle s) then
        ({| pw_idle := pw_idle s; pw_active := act; pw_pools := pools; pw_closed := c :: pw_closed s; pw_now := pw_now s |}, OBool false)
      else
        ({| pw_idle := pw_idle s ++ [mkEntry b c (pw_now s)]; pw_active := act; pw_pools := pools; pw_closed := pw_closed s; pw_now := pw_now s |}, OBool true)
  | WGet b =>
      if negb (memZ b (pw_pools s)) then (s, OConn None)
      else
        let '(r, rest, cl) := get_scan cfg (pw_now s) b (rev (pw_idle s)) in
        let act := match r with Some _ => update b (active_of b s + 1) (pw_active s) | None => pw_active s end in
        ({| pw_idle := rev rest; pw_active := act; pw_pools := pw_pools s; pw_closed := cl ++ pw_closed s; pw_now := pw_now s |}, OConn r)
  | WClose b c =>
      ({| pw_idle := pw_idle s; pw_active := if memZ b (pw_pools s) then dec_active b s else pw_active s;
          pw_pools := pw_pools s; pw_closed := c :: pw_closed s; pw_now := pw_now s |}, ONone)
  | WCleanup =>
      ({| pw_idle := filter (fun e => negb (stale cfg (pw_now s) e)) (pw_idle s); pw_active := pw_active s; pw_pools := pw_pools s;
          pw_closed := map e_conn (filter (stale cfg (pw_now s)) (pw_idle s)) ++ pw_closed s; pw_now := pw_now s |}, ONone)
  | WShutdown =>
      ({| pw_idle := []; pw_active := []; pw_pools := []; pw_closed := map e_conn (pw_idle s) ++ pw_closed s; pw_now := pw_now s |}, ONone)
  | WAdvance dt =>
      ({| pw_idle := pw_idle s; pw_active := pw_active s; pw_pools := pw_pools s; pw_closed := pw_closed s; pw_now := pw_now s + Z.max 0 dt |}, ONone)
  | WStats b =>
      (s, if memZ b (pw_pools s) then OStats (count_backend b (pw_idle s)) (active_of b s) else OStats 0 0)
  end.

Fixpoint wp_run (cfg : wpcfg) (s : wpool) (ops : list wop) : wpool * list wout :=
  match ops with
  | [] => (s, [])
  | o :: t => let '(s1, out) := wp_step cfg s o in let '(s2, outs) := wp_run cfg s1 t in (s2, out :: outs)
  end.

(* ---- the holder protocol (ghost state): who holds which connection ---- *)
(* a client may Put or Close only a connection it holds (got from Get) or a brand-new one it has just dialled *)
Definition idle_conns (s : wpool) : list Z := map e_conn (pw_idle s).

Definition op_allowed (held : list Z) (s : wpool) (o : wop) : Prop :=
  match o with
  | WPut _ c | WClose _ c => In c held \/ (~ In c (idle_conns s) /\ ~ In c (pw_closed s))
  | _ => True
  end.

Fixpoint remove_z (c : Z) (l : list Z) : list Z :=
  match l with [] => [] | x :: t => if Z.eqb x c then remove_z c t else x :: remove_z c t end.

Definition held_after (held : list Z) (o : wop) (out : wout) : list Z :=
  match o, out with
  | WPut _ c, _ | WClose _ c, _ => remove_z c held
  | WGet _, OConn (Some c) => c :: held
  | _, _ => held
  end.
