(* Executable model of internal/circuitbreaker/circuitbreaker.go.
   One op per critical-section group as seen by a single caller:
     BBegin  = beforeRequest + the requestCount++ section of Execute (admission)
     BEnd ok = afterRequest ok   (a panic in the protected function is BEnd false)
   Requests may overlap: any interleaving of BBegin / BEnd is a history. *)
From Helios Require Import Base.Prelude.

Inductive bst := Closed | Open | HalfOpen.

Definition bst_code (s : bst) : Z := match s with Closed => 0 | Open => 1 | HalfOpen => 2 end.
Definition bst_eqb (a b : bst) : bool := Z.eqb (bst_code a) (bst_code b).

Record bcfg := { maxReq : Z; interval : Z; btimeout : Z; fthr : Z; sthr : Z }.

Record bstate := {
  bnow : Z;
  st : bst;
  fc : Z;                    (* failureCount *)
  sc : Z;                    (* successCount *)
  rc : Z;                    (* requestCount *)
  lastFail : option Z;       (* lastFailureTime; None = zero time *)
  nextAttempt : Z;
  (* ghost: admissions and successes since the current half-open episode began; episode number;
     in-flight requests (rid, episode in which they were admitted; 0 = admitted while closed) *)
  g_trials : Z;
  g_succ : Z;
  ep : Z;
  pend : list (Z * Z)
}.

Definition binit (t0 : Z) : bstate :=
  {| bnow := t0; st := Closed; fc := 0; sc := 0; rc := 0; lastFail := None; nextAttempt := 0;
     g_trials := 0; g_succ := 0; ep := 0; pend := [] |}.

Fixpoint remove_rid (rid : Z) (l : list (Z * Z)) : list (Z * Z) :=
  match l with
  | [] => []
  | (r, e) :: t => if Z.eqb r rid then t else (r, e) :: remove_rid rid t
  end.

(* result codes of Execute's admission: 0 admitted, 1 ErrCircuitBreakerOpen, 2 ErrTooManyRequests *)
Definition begin (cfg : bcfg) (s : bstate) (rid : Z) : bstate * Z :=
  let now := bnow s in
  match st s with
  | Closed =>
      let reset := match lastFail s with Some lf => lf + interval cfg <? now | None => false end in
      ({| bnow := now; st := Closed; fc := if reset then 0 else fc s; sc := sc s; rc := rc s;
          lastFail := lastFail s; nextAttempt := nextAttempt s; g_trials := g_trials s; g_succ := g_succ s;
          ep := ep s; pend := (rid, 0) :: pend s |}, 0)
  | Open =>
      if nextAttempt s <? now then
        (* -> half-open, counters cleared, then Execute counts this request *)
        ({| bnow := now; st := HalfOpen; fc := fc s; sc := 0; rc := 1;
            lastFail := lastFail s; nextAttempt := nextAttempt s; g_trials := 1; g_succ := 0;
            ep := ep s + 1; pend := (rid, ep s + 1) :: pend s |}, 0)
      else (s, 1)
  | HalfOpen =>
      if maxReq cfg <=? rc s then (s, 2)
      else ({| bnow := now; st := HalfOpen; fc := fc s; sc := sc s; rc := rc s + 1;
               lastFail := lastFail s; nextAttempt := nextAttempt s;
               g_trials := g_trials s + 1; g_succ := g_succ s; ep := ep s; pend := (rid, ep s) :: pend s |}, 0)
  end.

Definition finish0 (cfg : bcfg) (s : bstate) (ok : bool) : bstate :=
  let now := bnow s in
  if ok then
    match st s with
    | HalfOpen =>
        if sthr cfg <=? sc s + 1 then
          {| bnow := now; st := Closed; fc := 0; sc := sc s + 1; rc := rc s;
             lastFail := lastFail s; nextAttempt := nextAttempt s; g_trials := g_trials s; g_succ := g_succ s + 1; ep := ep s; pend := pend s |}
        else
          {| bnow := now; st := HalfOpen; fc := fc s; sc := sc s + 1; rc := rc s;
             lastFail := lastFail s; nextAttempt := nextAttempt s; g_trials := g_trials s; g_succ := g_succ s + 1; ep := ep s; pend := pend s |}
    | _ => s
    end
  else
    let fc' := fc s + 1 in
    match st s with
    | Closed =>
        if fthr cfg <=? fc' then
          {| bnow := now; st := Open; fc := fc'; sc := sc s; rc := rc s;
             lastFail := Some now; nextAttempt := now + btimeout cfg; g_trials := g_trials s; g_succ := g_succ s; ep := ep s; pend := pend s |}
        else
          {| bnow := now; st := Closed; fc := fc'; sc := sc s; rc := rc s;
             lastFail := Some now; nextAttempt := nextAttempt s; g_trials := g_trials s; g_succ := g_succ s; ep := ep s; pend := pend s |}
    | HalfOpen =>
        {| bnow := now; st := Open; fc := fc'; sc := sc s; rc := rc s;
           lastFail := Some now; nextAttempt := now + btimeout cfg; g_trials := g_trials s; g_succ := g_succ s; ep := ep s; pend := pend s |}
    | Open =>
        {| bnow := now; st := Open; fc := fc'; sc := sc s; rc := rc s;
           lastFail := Some now; nextAttempt := nextAttempt s; g_trials := g_trials s; g_succ := g_succ s; ep := ep s; pend := pend s |}
    end.

Definition finish (cfg : bcfg) (s : bstate) (rid : Z) (ok : bool) : bstate :=
  let s' := finish0 cfg s ok in
  {| bnow := bnow s'; st := st s'; fc := fc s'; sc := sc s'; rc := rc s'; lastFail := lastFail s';
     nextAttempt := nextAttempt s'; g_trials := g_trials s'; g_succ := g_succ s'; ep := ep s';
     pend := remove_rid rid (pend s') |}.

Definition advance (s : bstate) (dt : Z) : bstate :=
  {| bnow := bnow s + dt; st := st s; fc := fc s; sc := sc s; rc := rc s;
     lastFail := lastFail s; nextAttempt := nextAttempt s; g_trials := g_trials s; g_succ := g_succ s; ep := ep s; pend := pend s |}.

Inductive bop := BBegin (rid : Z) | BEnd (rid : Z) (ok : bool) | BAdv (dt : Z).

(* output per op: BBegin -> admission code; BEnd/BAdv -> -1.  Second component: State() afterwards *)
Definition bstep (cfg : bcfg) (s : bstate) (o : bop) : bstate * (Z * Z) :=
  match o with
  | BBegin rid => let '(s', code) := begin cfg s rid in (s', (code, bst_code (st s')))
  | BEnd rid ok => let s' := finish cfg s rid ok in (s', (-1, bst_code (st s')))
  | BAdv dt => let s' := advance s dt in (s', (-1, bst_code (st s')))
  end.

Fixpoint brun (cfg : bcfg) (s : bstate) (ops : list bop) : bstate * list (Z * Z) :=
  match ops with
  | [] => (s, [])
  | o :: t => let '(s1, out1) := bstep cfg s o in
              let '(s2, out2) := brun cfg s1 t in (s2, out1 :: out2)
  end.

Definition bwf_cfg (cfg : bcfg) : Prop :=
  1 <= maxReq cfg /\ 1 <= interval cfg /\ 1 <= btimeout cfg /\ 1 <= fthr cfg /\ 1 <= sthr cfg.

Definition bop_wf (o : bop) : Prop := match o with BAdv dt => 0 <= dt | _ => True end.

(* a complete, non-overlapping Execute with the given outcome: admission, then (if admitted) the end *)
Definition exec (cfg : bcfg) (s : bstate) (rid : Z) (ok : bool) : bstate * Z :=
  let '(s1, code) := begin cfg s rid in
  if Z.eqb code 0 then (finish cfg s1 rid ok, 0) else (s1, code).

(* ------------------------------------------------------------------------------------------ *)
(* Executable monitors over an observed trace.  An observation is
   (op, admission code or -1, State() code after the op); time is reconstructed from BAdv. *)

Record mon := {
  m_now : Z;
  m_prev : Z;            (* previous observed state code *)
  m_open_at : Z;         (* time the breaker was last seen entering Open *)
  m_trials : Z;          (* admissions in the current half-open episode *)
  m_succ : Z;            (* successes in the current half-open episode *)
  m_chain : Z;           (* failures in the current chain (Closed) *)
  m_chain_last : Z;      (* time of the last failure of the chain *)
  m_ok_block : bool; m_ok_trials : bool; m_ok_trip : bool; m_ok_close : bool; m_ok_reopen : bool
}.

Definition mon_init (t0 : Z) : mon :=
  {| m_now := t0; m_prev := 0; m_open_at := 0; m_trials := 0; m_succ := 0; m_chain := 0; m_chain_last := 0;
     m_ok_block := true; m_ok_trials := true; m_ok_trip := true; m_ok_close := true; m_ok_reopen := true |}.

Definition mon_step (cfg : bcfg) (m : mon) (o : bop) (code stc : Z) : mon :=
  let now := match o with BAdv dt => m_now m + dt | _ => m_now m end in
  let prev := m_prev m in
  (* entering states *)
  let enter_open := negb (Z.eqb prev 1) && Z.eqb stc 1 in
  let enter_half := negb (Z.eqb prev 2) && Z.eqb stc 2 in
  let open_at := if enter_open then now else m_open_at m in
  (* block: open and timeout not elapsed => ErrOpen *)
  let ok_block :=
    match o with
    | BBegin _ => if Z.eqb prev 1 && (now <=? m_open_at m + btimeout cfg) then Z.eqb code 1 && Z.eqb stc 1 else true
    | _ => true
    end in
  (* trials *)
  let admitted_half := match o with BBegin _ => Z.eqb code 0 && Z.eqb stc 2 | _ => false end in
  let trials := if enter_half then 1 else if admitted_half then m_trials m + 1 else m_trials m in
  let ok_trials := trials <=? maxReq cfg in
  (* successes within the episode; close only at the sthr-th, reopen on any failure *)
  let succ_in_half := match o with BEnd _ true => Z.eqb prev 2 | _ => false end in
  let succ := if enter_half then 0 else if succ_in_half then m_succ m + 1 else m_succ m in
  let ok_close :=
    if Z.eqb prev 2 && Z.eqb stc 0 then
      match o with BEnd _ true => sthr cfg <=? succ | _ => false end
    else if succ_in_half && (sthr cfg <=? succ) then Z.eqb stc 0 else true in
  let ok_reopen := match o with BEnd _ false => if Z.eqb prev 2 then Z.eqb stc 1 else true | _ => true end in
  (* failure chain while closed *)
  let fail_closed := match o with BEnd _ false => Z.eqb prev 0 | _ => false end in
  let chain :=
    if negb (Z.eqb prev 0) then 0
    else if fail_closed then
      (if (0 <? m_chain m) && (now - m_chain_last m <=? interval cfg) then m_chain m + 1 else 1)
    else m_chain m in
  let chain_last := if fail_closed then now else m_chain_last m in
  let ok_trip := if fail_closed && (fthr cfg <=? chain) then Z.eqb stc 1 else true in
  {| m_now := now; m_prev := stc; m_open_at := open_at; m_trials := trials; m_succ := succ;
     m_chain := (if Z.eqb stc 0 then chain else 0); m_chain_last := chain_last;
     m_ok_block := m_ok_block m && ok_block; m_ok_trials := m_ok_trials m && ok_trials;
     m_ok_trip := m_ok_trip m && ok_trip; m_ok_close := m_ok_close m && ok_close;
     m_ok_reopen := m_ok_reopen m && ok_reopen |}.

Fixpoint mon_run (cfg : bcfg) (m : mon) (ops : list bop) (obs : list (Z * Z)) : mon :=
  match ops, obs with
  | o :: t, (code, stc) :: obs' => mon_run cfg (mon_step cfg m o code stc) t obs'
  | _, _ => m
  end.
