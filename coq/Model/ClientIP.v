(* utils.GetClientIP (internal/utils/http.go): the address the rate limiter and the admin IP filter
   attribute a request to.  (The hash strategies use a different extraction: Strategy.hash_client.) *)
From Helios Require Import Base.Prelude Base.Bytes Model.Hash Model.Strategy.

Definition get_client_ip (r : hreq) : bytes :=
  if negb (is_nil (h_xff r)) then
    let idx := index_comma (h_xff r) in
    if 0 <? idx then trim_space (firstn (Z.to_nat idx) (h_xff r)) else trim_space (h_xff r)
  else if negb (is_nil (h_xri r)) then h_xri r
  else h_remote r.

Definition client_key (r : hreq) : Z := bytes_key (get_client_ip r).
