(* The proxied exchange as the Helios stack builds it (cmd/helios buildHandler):
     RequestContextMiddleware (request / trace IDs)  o  plugin chain  o  LoadBalancer  o  httputil.ReverseProxy.
   Headers are lists of (canonical key, value); a collection is compared after a stable sort by key, which is
   what an http.Header map preserves (order of the values of one key).
   The Helios parts (ID middleware, chain order and gating, the balancer's rejections) are models of repository
   code; the ReverseProxy / net/http parts (hop-by-hop removal, X-Forwarded-For, interim responses) are a model
   of the standard library, validated by the wire suite on every run. *)
From Helios Require Import Base.Prelude Base.Bytes.

Definition hdr := (bytes * bytes)%type.
Definition hdrs := list hdr.

Fixpoint bytes_leb (a b : bytes) : bool :=
  match a, b with
  | [], _ => true
  | _ :: _, [] => false
  | x :: a', y :: b' => if x <? y then true else if y <? x then false else bytes_leb a' b'
  end.

Definition hget (k : bytes) (h : hdrs) : option bytes :=
  match filter (fun kv => bytes_eqb (fst kv) k) h with [] => None | kv :: _ => Some (snd kv) end.
Definition hvalues (k : bytes) (h : hdrs) : list bytes := map snd (filter (fun kv => bytes_eqb (fst kv) k) h).
Definition hdel (k : bytes) (h : hdrs) : hdrs := filter (fun kv => negb (bytes_eqb (fst kv) k)) h.
Definition hset (k v : bytes) (h : hdrs) : hdrs := hdel k h ++ [(k, v)].
Definition hadd (k v : bytes) (h : hdrs) : hdrs := h ++ [(k, v)].
Definition hhas (k : bytes) (h : hdrs) : bool := existsb (fun kv => bytes_eqb (fst kv) k) h.

Fixpoint hinsert (kv : hdr) (l : hdrs) : hdrs :=
  match l with
  | [] => [kv]
  | x :: t => if bytes_leb (fst x) (fst kv) then x :: hinsert kv t else kv :: l
  end.
(* stable: an element is placed after the elements with a key <= its own *)
Definition hsort (l : hdrs) : hdrs := fold_left (fun acc kv => hinsert kv acc) l [].

Fixpoint hdrs_eqb (a b : hdrs) : bool :=
  match a, b with
  | [], [] => true
  | (k, v) :: a', (k', v') :: b' => bytes_eqb k k' && bytes_eqb v v' && hdrs_eqb a' b'
  | _, _ => false
  end.

(* ---- header-name constants (canonical MIME form) ---- *)
Definition s_connection : bytes := [67;111;110;110;101;99;116;105;111;110].
Definition s_proxy_connection : bytes := [80;114;111;120;121;45;67;111;110;110;101;99;116;105;111;110].
Definition s_keep_alive : bytes := [75;101;101;112;45;65;108;105;118;101].
Definition s_proxy_authenticate : bytes := [80;114;111;120;121;45;65;117;116;104;101;110;116;105;99;97;116;101].
Definition s_proxy_authorization : bytes := [80;114;111;120;121;45;65;117;116;104;111;114;105;122;97;116;105;111;110].
Definition s_te : bytes := [84;101].
Definition s_trailer : bytes := [84;114;97;105;108;101;114].
Definition s_transfer_encoding : bytes := [84;114;97;110;115;102;101;114;45;69;110;99;111;100;105;110;103].
Definition s_upgrade : bytes := [85;112;103;114;97;100;101].
Definition s_xff : bytes := [88;45;70;111;114;119;97;114;100;101;100;45;70;111;114].
Definition s_content_length : bytes := [67;111;110;116;101;110;116;45;76;101;110;103;116;104].
Definition s_user_agent : bytes := [85;115;101;114;45;65;103;101;110;116].
Definition s_api_key : bytes := [88;45;65;112;105;45;75;101;121].
Definition s_trailers_tok : bytes := [116;114;97;105;108;101;114;115].
Definition s_xrid : bytes := [88;45;82;101;113;117;101;115;116;45;73;100].   (* X-Request-Id *)

Definition hop_headers : list bytes :=
  [s_connection; s_proxy_connection; s_keep_alive; s_proxy_authenticate; s_proxy_authorization; s_te; s_trailer;
   s_transfer_encoding; s_upgrade].

(* ---- textproto.CanonicalMIMEHeaderKey on tokens; a name with a non-token byte is left alone ---- *)
Definition is_alpha_lower (c : Z) : bool := (97 <=? c) && (c <=? 122).
Definition is_alpha_upper (c : Z) : bool := (65 <=? c) && (c <=? 90).
Definition is_token_char (c : Z) : bool :=
  is_alpha_lower c || is_alpha_upper c || ((48 <=? c) && (c <=? 57))
  || memZ c [33; 35; 36; 37; 38; 39; 42; 43; 45; 46; 94; 95; 96; 124; 126].
Fixpoint canon_go (upper : bool) (s : bytes) : bytes :=
  match s with
  | [] => []
  | c :: t =>
      let c' := if upper then (if is_alpha_lower c then c - 32 else c) else (if is_alpha_upper c then c + 32 else c) in
      c' :: canon_go (Z.eqb c 45) t
  end.
Definition canon_key (s : bytes) : bytes := if forallb is_token_char s then canon_go true s else s.

(* textproto.TrimString: ASCII space and tab *)
Fixpoint trim_ows_left (s : bytes) : bytes :=
  match s with c :: t => if Z.eqb c 32 || Z.eqb c 9 then trim_ows_left t else s | [] => [] end.
Definition trim_ows (s : bytes) : bytes := rev (trim_ows_left (rev (trim_ows_left s))).

Fixpoint split_on (sep : Z) (cur : bytes) (s : bytes) : list bytes :=
  match s with
  | [] => [rev cur]
  | c :: t => if Z.eqb c sep then rev cur :: split_on sep [] t else split_on sep (c :: cur) t
  end.

Definition lower (s : bytes) : bytes := map (fun c => if is_alpha_upper c then c + 32 else c) s.

(* removeHopByHopHeaders: the headers named in Connection, then the fixed list *)
Definition conn_listed_vals (vals : list bytes) : list bytes :=
  flat_map (fun v => filter (fun t => negb (bytes_eqb t [])) (map (fun t => canon_key (trim_ows t)) (split_on 44 [] v))) vals.
Definition connection_listed (h : hdrs) : list bytes := conn_listed_vals (hvalues s_connection h).
Definition remove_hop (h : hdrs) : hdrs :=
  fold_left (fun acc k => hdel k acc) (connection_listed h ++ hop_headers) h.

Definition contains_token_ci (tok : bytes) (vals : list bytes) : bool :=
  existsb (fun v => existsb (fun t => bytes_eqb (lower (trim_ows t)) tok) (split_on 44 [] v)) vals.

Fixpoint join_comma_sp (l : list bytes) : bytes :=
  match l with [] => [] | [x] => x | x :: t => x ++ [44; 32] ++ join_comma_sp t end.

(* ---- configuration, request, views ---- *)
Inductive wplug :=
| WLogging
| WHeaders (set reqset : hdrs)
| WAuth (key : bytes)
| WSizeLimit (maxreq maxresp : Z)
| WGzip
| WReqId.                                  (* the tutorial plugin "request-id" (example_request_id.go) *)

Record wcfg := mkWCfg {
  c_rid : bool; c_rid_hdr : bytes;         (* request ID: enabled, canonical header name after defaulting *)
  c_tr : bool; c_tr_hdr : bytes;           (* trace ID *)
  c_chain : list wplug;                    (* first listed = outermost *)
  c_base : bytes;                          (* path of the backend address *)
  c_peer : bytes                           (* host part of the client's RemoteAddr as Go splits it *)
}.

Record wreq := mkWReq {
  q_method : bytes; q_path : bytes; q_query : bytes; q_host : bytes;
  q_hdrs : hdrs; q_blen : Z; q_framing : Z          (* 0 none, 1 Content-Length, 2 chunked *)
}.

(* what a backend sees *)
Record bview := mkBView {
  bv_method : bytes; bv_path : bytes; bv_query : bytes; bv_host : bytes; bv_hdrs : hdrs; bv_blen : Z; bv_framing : Z
}.

(* what a client sees: final status, headers (Date removed, sorted), body (length of the deterministic stream, -1 if other
   bytes), framing (0 none, 1 Content-Length, 2 chunked, 3 until close), interim responses, truncated flag *)
Record rview := mkRView {
  rv_status : Z; rv_hdrs : hdrs; rv_body : Z; rv_framing : Z; rv_interim : list (Z * hdrs); rv_trunc : Z
}.

(* ---- the ID middleware (internal/logging/middleware.go) ---- *)
(* a generated identifier is not predictable: the model marks it, the comparison accepts any well-formed fresh ID *)
Definition GEN_REQ : bytes := [0; 1].
Definition GEN_TRACE : bytes := [0; 2].
Definition GEN_PLUG : bytes := [0; 3].     (* generated by the request-id plugin: 32 hex digits *)

Definition id_value (supplied : option bytes) (gen : bytes) : bytes :=
  match supplied with
  | Some v => let t := trim_space v in if bytes_eqb t [] then gen else t
  | None => gen
  end.

(* returns the request headers the chain sees and the headers pre-set on the response *)
Definition id_middleware (c : wcfg) (h : hdrs) : hdrs * hdrs :=
  let '(h1, r1) := if c_rid c then let v := id_value (hget (c_rid_hdr c) h) GEN_REQ in (hset (c_rid_hdr c) v h, [(c_rid_hdr c, v)])
                   else (h, []) in
  let '(h2, r2) := if c_tr c then let v := id_value (hget (c_tr_hdr c) h1) GEN_TRACE in (hset (c_tr_hdr c) v h1, hset (c_tr_hdr c) v r1)
                   else (h1, r1) in
  (h2, r2).

(* ---- the chain on the request path: Some code = rejected by a plugin (later plugins and the backend never see it) ---- *)
Fixpoint chain_request (chain : list wplug) (q : wreq) (h pre : hdrs) : (option Z) * hdrs * hdrs :=
  match chain with
  | [] => (None, h, pre)
  | WLogging :: t | WGzip :: t => chain_request t q h pre
  | WHeaders set reqset :: t =>
      chain_request t q (fold_left (fun acc kv => hset (fst kv) (snd kv) acc) reqset h)
                        (fold_left (fun acc kv => hset (fst kv) (snd kv) acc) set pre)
  | WAuth key :: t =>
      if bytes_eqb (match hget s_api_key h with Some v => v | None => [] end) key then chain_request t q h pre
      else (Some 401, h, pre)
  | WSizeLimit maxreq _ :: t =>
      if Z.eqb (q_framing q) 1 && (maxreq <? q_blen q) then (Some 413, h, pre) else chain_request t q h pre
  | WReqId :: t =>
      (* keeps the ID the request already carries (the client's, or the one the ID middleware chose); generates otherwise *)
      let v := match hget s_xrid h with Some v => if bytes_eqb v [] then GEN_PLUG else v | None => GEN_PLUG end in
      chain_request t q (hset s_xrid v h) (hset s_xrid v pre)
  end.

(* ---- ReverseProxy (NewSingleHostReverseProxy, Director mode) on the request ---- *)
Definition join_path (base p : bytes) : bytes :=
  match base with
  | [] => p
  | _ =>
      let aslash := match rev base with 47 :: _ => true | _ => false end in
      let bslash := match p with 47 :: _ => true | _ => false end in
      if aslash && bslash then base ++ tl p
      else if negb aslash && negb bslash then base ++ [47] ++ p
      else base ++ p
  end.

Definition proxy_request (c : wcfg) (q : wreq) (h : hdrs) : bview :=
  let te_trailers := contains_token_ci s_trailers_tok (hvalues s_te h) in
  let h1 := remove_hop h in
  let h2 := if te_trailers then hset s_te s_trailers_tok h1 else h1 in
  let prior := hvalues s_xff h2 in
  let xff := match prior with [] => c_peer c | _ => join_comma_sp prior ++ [44; 32] ++ c_peer c end in
  let h3 := hset s_xff xff h2 in
  {| bv_method := q_method q; bv_path := join_path (c_base c) (q_path q); bv_query := q_query q; bv_host := q_host q;
     bv_hdrs := h3; bv_blen := q_blen q;
     bv_framing := if Z.eqb (q_framing q) 1 && Z.eqb (q_blen q) 0 then 0 else q_framing q |}.

(* phase of the balancer: 0 = dispatches, 1 = the limiter refuses this client (429), 2 = no healthy backend (503) *)
Inductive outcome :=
| Rejected (code : Z) (pre : hdrs)      (* answered by Helios itself; pre = headers set on the response before the rejection *)
| Forwarded (b : bview) (pre : hdrs).

Definition forward (c : wcfg) (phase : Z) (q : wreq) : outcome :=
  (* the front server's HTTP parser strips optional white space around field values *)
  let h0 := map (fun kv => (fst kv, trim_ows (snd kv))) (q_hdrs q) in
  let '(h1, pre1) := id_middleware c h0 in
  match chain_request (c_chain c) q h1 pre1 with
  | (Some code, _, pre) => Rejected code pre
  | (None, h2, pre) =>
      if Z.eqb phase 1 then Rejected 429 pre
      else if Z.eqb phase 2 then Rejected 503 pre
      else Forwarded (proxy_request c q h2) pre
  end.

(* ---- the response path: what the client sees, from what the backend sent (the view of a direct exchange) ---- *)
Definition id_headers (c : wcfg) (pre : hdrs) : hdrs :=
  filter (fun kv => (c_rid c && bytes_eqb (fst kv) (c_rid_hdr c)) || (c_tr c && bytes_eqb (fst kv) (c_tr_hdr c))) pre.

(* generateIdentifier: prefix ++ "_" ++ hex of 12 random bytes (the prefix constants below include the underscore) *)
Definition hexdigit (n : Z) : Z := if n <? 10 then 48 + n else 87 + n.
Fixpoint hex_of (rnd : list Z) : bytes :=
  match rnd with [] => [] | b :: t => hexdigit (b / 16) :: hexdigit (b mod 16) :: hex_of t end.
Definition gen_id (prefix : bytes) (rnd : list Z) : bytes := prefix ++ hex_of rnd.

(* the final header collection before canonical ordering *)
Definition response_headers (c : wcfg) (pre : hdrs) (d : rview) : hdrs :=
  (match rv_interim d with [] => pre | _ => id_headers c pre end) ++ remove_hop (rv_hdrs d).

Definition proxy_response (c : wcfg) (pre : hdrs) (d : rview) : rview :=
  (* interim responses: the first carries the headers set so far; ReverseProxy then clears the header map, so later ones
     and the final response start from nothing, except that the ID middleware re-asserts its headers when the final
     header is written *)
  let interim := match rv_interim d with
                 | [] => []
                 | (code, ih) :: t => (code, hsort (pre ++ ih)) :: t
                 end in
  {| rv_status := rv_status d; rv_hdrs := hsort (response_headers c pre d); rv_body := rv_body d;
     rv_framing := rv_framing d; rv_interim := interim; rv_trunc := rv_trunc d |}.
