(* Lock discipline over the access table regenerated from the source (Gen/Access.v). *)
From Coq Require Import ZArith String List Bool.
Import ListNotations.
Open Scope Z_scope.

Definition site := (string * string * Z * list (string * Z))%type.
Definition s_field (s : site) : string := fst (fst (fst s)).
Definition s_fn (s : site) : string := snd (fst (fst s)).
Definition s_kind (s : site) : Z := snd (fst s).
Definition s_locks (s : site) : list (string * Z) := snd s.

Definition is_write (k : Z) : bool := Z.eqb k 1 || Z.eqb k 3.
Definition is_atomic (k : Z) : bool := Z.eqb k 2 || Z.eqb k 3.

(* two sites conflict when they touch the same field, at least one writes, and they are not both atomic *)
Definition conflict (a b : site) : bool :=
  String.eqb (s_field a) (s_field b) && (is_write (s_kind a) || is_write (s_kind b)) && negb (is_atomic (s_kind a) && is_atomic (s_kind b)).

(* a common lock, held in write mode on at least one side, orders the two accesses *)
Definition ordered (a b : site) : bool :=
  existsb (fun la => existsb (fun lb => String.eqb (fst la) (fst lb) && (Z.eqb (snd la) 1 || Z.eqb (snd lb) 1)) (s_locks b)) (s_locks a).

Definition bad_pairs (l : list site) : list (site * site) :=
  flat_map (fun a => map (fun b => (a, b)) (filter (fun b => conflict a b && negb (ordered a b)) l)) l.

Definition disciplined (l : list site) : bool := match bad_pairs l with [] => true | _ => false end.

(* lock order: the transitive closure of "acquired while holding" has no loop *)
Definition succs (e : list (string * string)) (x : string) : list string := map snd (filter (fun p => String.eqb (fst p) x) e).
Fixpoint reach (fuel : nat) (e : list (string * string)) (frontier : list string) : list string :=
  match fuel with
  | O => frontier
  | S k => frontier ++ reach k e (flat_map (succs e) frontier)
  end.
Definition on_cycle (e : list (string * string)) (x : string) : bool :=
  existsb (String.eqb x) (reach (List.length e) e (succs e x)).
Definition cyclic_locks (e : list (string * string)) : list string := filter (on_cycle e) (map fst e).
Definition ranked (e : list (string * string)) : bool := match cyclic_locks e with [] => true | _ => false end.

(* ------------------------------------------------------------------------------------------ *)
(* Interleaving semantics: threads of lock / unlock / access events, any number of them, any schedule.
   A mutex is exclusive in write mode and shared in read mode (sync.RWMutex; a sync.Mutex is always taken in write mode). *)
Inductive ev := Acq (l : string) (m : Z) | Rel (l : string) | Acc (x : string) (k : Z).

Definition held := list (string * Z).

Definition release (l : string) (h : held) : held := filter (fun e => negb (String.eqb (fst e) l)) h.

Definition hstep (h : held) (e : ev) : held :=
  match e with Acq l m => (l, m) :: h | Rel l => release l h | Acc _ _ => h end.

Record th := mkTh { th_held : held; th_prog : list ev }.

(* what a thread's remaining program will access, with the locks it will hold there *)
Fixpoint sites_of (h : held) (p : list ev) : list (string * Z * held) :=
  match p with
  | [] => []
  | Acc x k :: t => (x, k, h) :: sites_of h t
  | e :: t => sites_of (hstep h e) t
  end.

Definition conflictk (x1 : string) (k1 : Z) (x2 : string) (k2 : Z) : bool :=
  String.eqb x1 x2 && (is_write k1 || is_write k2) && negb (is_atomic k1 && is_atomic k2).

(* the other threads allow the acquisition: nobody holds the lock, or everybody (including us) only reads *)
Definition enabled (others : list held) (e : ev) : Prop :=
  match e with
  | Acq l m => forall h m', In h others -> In (l, m') h -> m = 0 /\ m' = 0
  | _ => True
  end.

Fixpoint others_of {A} (i : nat) (l : list A) : list A :=
  match l, i with
  | [], _ => []
  | _ :: t, O => t
  | x :: t, S k => x :: others_of k t
  end.

Fixpoint set_nth {A} (i : nat) (v : A) (l : list A) : list A :=
  match l, i with
  | [], _ => []
  | _ :: t, O => v :: t
  | x :: t, S k => x :: set_nth k v t
  end.

Inductive step : list th -> list th -> Prop :=
| Step i ts h e rest :
    nth_error ts i = Some (mkTh h (e :: rest)) ->
    enabled (map th_held (others_of i ts)) e ->
    step ts (set_nth i (mkTh (hstep h e) rest) ts).

Inductive reach_from (ts0 : list th) : list th -> Prop :=
| R0 : reach_from ts0 ts0
| RS ts ts' : reach_from ts0 ts -> step ts ts' -> reach_from ts0 ts'.

(* a data race: two different threads are both about to perform conflicting accesses *)
Definition race_state (ts : list th) : Prop :=
  exists i j hi hj x1 k1 r1 x2 k2 r2,
    i <> j /\ nth_error ts i = Some (mkTh hi (Acc x1 k1 :: r1)) /\ nth_error ts j = Some (mkTh hj (Acc x2 k2 :: r2))
    /\ conflictk x1 k1 x2 k2 = true.

(* the discipline, as a proposition over a set of sites *)
Definition Disciplined (all : list (string * Z * held)) : Prop :=
  forall x1 k1 h1 x2 k2 h2, In (x1, k1, h1) all -> In (x2, k2, h2) all -> conflictk x1 k1 x2 k2 = true ->
    exists l m1 m2, In (l, m1) h1 /\ In (l, m2) h2 /\ (m1 = 1 \/ m2 = 1).
