(* internal/adminapi: NewMux (routing, bearer-token auth, handlers acting on the balancer) and the IP
   allow/deny filter.  Address texts are parsed by Go (net.ParseIP / net.ParseCIDR are oracles: the
   harness passes the parsed forms); the decision logic is modelled. *)
From Helios Require Import Base.Prelude Base.Bytes Model.Strategy Model.LB.

(* a parsed address: family 4 (IPv4, incl. IPv4-mapped IPv6, as net.IP.To4 sees it) or 6; value *)
Inductive addr := AUnparsable | AIP (fam : Z) (v : Z).
(* a parsed list entry: family, network prefix value, prefix length; or unparsable *)
Inductive entry := EBad | ENet (fam : Z) (prefix : Z) (len : Z).

Definition fam_bits (fam : Z) : Z := if Z.eqb fam 4 then 32 else 128.

(* IPNet.Contains: same family (after To4) and equal under the mask *)
Definition contains (e : entry) (a : addr) : bool :=
  match e, a with
  | ENet f p l, AIP f' v =>
      Z.eqb f f' && Z.eqb (Z.shiftr v (fam_bits f - l)) (Z.shiftr p (fam_bits f - l))
  | _, _ => false
  end.

Definition any_contains (l : list entry) (a : addr) : bool := existsb (fun e => contains e a) l.

(* IPFilter.IsAllowed *)
Definition is_allowed (allow deny : list entry) (a : addr) : bool :=
  match a with
  | AUnparsable => false
  | _ => if any_contains deny a then false
         else if is_nil allow then true else any_contains allow a
  end.

Definition has_bad (l : list entry) : bool := existsb (fun e => match e with EBad => true | _ => false end) l.

Record acfg := { a_token : bytes; a_allow : list entry; a_deny : list entry }.

(* filter stage: 0 = no filter configured, pass; 1 = pass; 2 = 403 *)
Definition filter_stage (c : acfg) (peer : addr) : bool :=
  if is_nil (a_allow c) && is_nil (a_deny c) then true
  else if has_bad (a_allow c) || has_bad (a_deny c) then false      (* invalid list: refuse everything *)
  else is_allowed (a_allow c) (a_deny c) peer.

Definition bearer : bytes := [66; 101; 97; 114; 101; 114; 32].   (* "Bearer " *)

(* auth: token "" = disabled; otherwise the FIRST Authorization value must be "Bearer " ++ token *)
Definition auth_ok (c : acfg) (authz : bytes) : bool :=
  if is_nil (a_token c) then true
  else prefixb bearer authz && bytes_eqb (skipn 7 authz) (a_token c).

(* endpoints *)
Inductive endpoint := EHealth | EMetrics | EList | EAdd | ERemove | EStrategy | EOther.
(* methods: 0 GET 1 POST 2 DELETE 3 other *)

(* decoded JSON body of the mutating endpoints; None = undecodable *)
Record abody := { ab_name : Z; ab_name_empty : bool; ab_addr_empty : bool; ab_addr_ok : bool; ab_weight : Z; ab_strategy : Z; ab_strategy_empty : bool }.

Record areq := { r_ep : endpoint; r_method : Z; r_authz : bytes; r_peer : addr; r_body : option abody }.

(* response: status code and body class
   0 none/other, 1 "unauthorized", 2 forbidden, 3 backend list json, 4 "added", 5 "removed", 6 "updated",
   7 health json, 8 metrics json, 9 error text *)
Definition admin_step (c : acfg) (s : lb) (r : areq) : lb * (Z * Z) :=
  if negb (filter_stage c (r_peer r)) then (s, (403, 2)) else
  match r_ep r with
  | EOther => (s, (404, 0))
  | EHealth => (s, (200, 7))
  | ep =>
      if negb (auth_ok c (r_authz r)) then (s, (401, 1)) else
      match ep with
      | EMetrics => (s, (200, 8))
      | EList => if Z.eqb (r_method r) 0 then (s, (200, 3)) else (s, (405, 0))
      | EAdd =>
          if negb (Z.eqb (r_method r) 1) then (s, (405, 0)) else
          match r_body r with
          | None => (s, (400, 9))
          | Some b =>
              if ab_name_empty b || ab_addr_empty b then (s, (400, 9)) else
              let '(s', rc) := lb_add s (ab_name b) (ab_weight b) (ab_addr_ok b) in
              if Z.eqb rc 0 then (s', (201, 4)) else (s', (400, 9))
          end
      | ERemove =>
          if negb (Z.eqb (r_method r) 1 || Z.eqb (r_method r) 2) then (s, (405, 0)) else
          match r_body r with
          | None => (s, (400, 9))
          | Some b => if ab_name_empty b then (s, (400, 9)) else (lb_remove s (ab_name b), (200, 5))
          end
      | EStrategy =>
          if negb (Z.eqb (r_method r) 1) then (s, (405, 0)) else
          match r_body r with
          | None => (s, (400, 9))
          | Some b =>
              if ab_strategy_empty b then (s, (400, 9)) else
              let '(s', rc) := lb_set_strategy s (ab_strategy b) in
              if Z.eqb rc 0 then (s', (200, 6)) else (s', (400, 9))
          end
      | _ => (s, (404, 0))
      end
  end.

(* observable balancer state after a request: strategy kind and the backend list *)
Definition admin_obs (s : lb) : list Z := skind_code (skd (ss s)) :: lb_list s.
