(* Active health checking and Stop (internal/loadbalancer/loadbalancer.go: startActiveHealthChecks, checkBackendsHealth,
   checkBackendHealth, performHealthCheck, MarkBackendUnhealthy, IsBackendHealthy, Stop).
   A tick probes every backend that is outside its unhealthy window; what a probe sees is scripted per backend:
   0 = 200 OK, 1 = another status, 2 = transport error, 3 = no answer (the probe ends when its client timeout fires, or at once
   when Stop cancels the balancer context).  A failed probe ejects the backend for the configured unhealthy window. *)
From Helios Require Import Base.Prelude.

Record pbackend := mkPB { pb_id : Z; pb_flag : bool; pb_until : Z; pb_script : Z }.

Record pcfg := mkPCfg { pc_window : Z (* ns *); pc_timeout : Z (* probe client timeout, ns *) }.

Record pstate := mkPS {
  ps_now : Z;
  ps_pool : list pbackend;
  ps_pending : list (Z * Z);      (* probes without an answer: backend id, instant at which the client timeout fires *)
  ps_stopped : bool
}.

Inductive pop :=
| PSet (b : Z) (script : Z)
| PTick                            (* the ticker fired (or the initial check at start-up) *)
| PAdvance (dt : Z)
| PRequest                         (* which backends are eligible for traffic right now (flags after the lazy expiry) *)
| PStop.

Inductive pout :=
| PNone
| PProbed (ids : list Z)           (* backends a probe was sent to at this tick, in pool order *)
| PEligible (ids : list Z)
| PStopped (cancelled : list Z).   (* probes that were in flight and were cancelled by Stop *)

Definition in_window (b : pbackend) (now : Z) : bool := negb (pb_flag b) && (now <=? pb_until b).

(* IsBackendHealthy: lazy expiry *)
Definition refresh (now : Z) (b : pbackend) : pbackend :=
  if negb (pb_flag b) && (pb_until b <? now) then mkPB (pb_id b) true (pb_until b) (pb_script b) else b.

Definition mark (now w : Z) (b : pbackend) : pbackend := mkPB (pb_id b) false (now + w) (pb_script b).
Definition heal (b : pbackend) : pbackend := mkPB (pb_id b) true (pb_until b) (pb_script b).

Definition map_backend (id : Z) (f : pbackend -> pbackend) (l : list pbackend) : list pbackend :=
  map (fun b => if Z.eqb (pb_id b) id then f b else b) l.

(* one probe of a backend that passed the "already unhealthy?" gate *)
Definition probe_one (cfg : pcfg) (now : Z) (b : pbackend) : pbackend * list (Z * Z) :=
  let b1 := refresh now b in
  if negb (pb_flag b1) then (b1, [])
  else if Z.eqb (pb_script b1) 0 then (heal b1, [])
  else if Z.eqb (pb_script b1) 3 then (b1, [(pb_id b1, now + pc_timeout cfg)])
  else (mark now (pc_window cfg) b1, []).

Definition probed (now : Z) (b : pbackend) : bool := pb_flag (refresh now b).

(* pending probes whose client timeout fires at or before [t] eject their backend at that instant *)
Definition fire_due (cfg : pcfg) (t : Z) (s : pstate) : pstate :=
  let due := filter (fun p => snd p <=? t) (ps_pending s) in
  let pool := fold_left (fun l p => map_backend (fst p) (mark (snd p) (pc_window cfg)) l) due (ps_pool s) in
  mkPS (ps_now s) pool (filter (fun p => negb (snd p <=? t)) (ps_pending s)) (ps_stopped s).

Definition pstep (cfg : pcfg) (s : pstate) (o : pop) : pstate * pout :=
  match o with
  | PSet b sc => (mkPS (ps_now s) (map_backend b (fun x => mkPB (pb_id x) (pb_flag x) (pb_until x) sc) (ps_pool s)) (ps_pending s) (ps_stopped s), PNone)
  | PTick =>
      if ps_stopped s then (s, PProbed [])
      else
        let res := map (probe_one cfg (ps_now s)) (ps_pool s) in
        (mkPS (ps_now s) (map fst res) (ps_pending s ++ flat_map snd res) false,
         PProbed (map pb_id (filter (probed (ps_now s)) (ps_pool s))))
  | PAdvance dt =>
      let t := ps_now s + Z.max 0 dt in
      let s1 := fire_due cfg t s in
      (mkPS t (ps_pool s1) (ps_pending s1) (ps_stopped s1), PNone)
  | PRequest =>
      let pool := map (refresh (ps_now s)) (ps_pool s) in
      (mkPS (ps_now s) pool (ps_pending s) (ps_stopped s), PEligible (map pb_id (filter pb_flag pool)))
  | PStop =>
      (* cancel: every probe in flight ends at once with an error (and ejects its backend); Stop then returns *)
      let pool := fold_left (fun l p => map_backend (fst p) (mark (ps_now s) (pc_window cfg)) l) (ps_pending s) (ps_pool s) in
      (mkPS (ps_now s) pool [] true, PStopped (map fst (ps_pending s)))
  end.

Fixpoint prun (cfg : pcfg) (s : pstate) (ops : list pop) : pstate * list pout :=
  match ops with
  | [] => (s, [])
  | o :: t => let '(s1, out) := pstep cfg s o in let '(s2, outs) := prun cfg s1 t in (s2, out :: outs)
  end.
