(* The documented constraints on a Helios configuration (README, the validator's messages, the shipped files), written by hand
   over the record tree that go2coq regenerates from internal/config/config.go. *)
From Coq Require Import ZArith String List Bool.
From Helios Require Import Gen.ConfigGen.
Import ListNotations.
Open Scope Z_scope.

Definition port_ok (p : Z) : Prop := 1 <= p <= 65535.

Definition strategies : list string :=
  ["round_robin"; "least_connections"; "weighted_round_robin"; "ip_hash"; "ip_hash_consistent"]%string.
Definition log_levels : list string := ["debug"; "info"; "warn"; "error"; "fatal"]%string.
Definition log_formats : list string := ["text"; "json"; "console"]%string.

Definition SpecBackends (c : Config) : Prop :=
  Config_Backends c <> [] /\
  Forall (fun b => BackendConfig_Name b <> ""%string /\ BackendConfig_Address b <> ""%string /\ 0 <= BackendConfig_Weight b) (Config_Backends c).

Definition SpecServer (c : Config) : Prop :=
  let s := Config_Server c in
  port_ok (ServerConfig_Port s) /\
  (TLSConfig_Enabled (ServerConfig_TLS s) = true ->
   TLSConfig_CertFile (ServerConfig_TLS s) <> ""%string /\ TLSConfig_KeyFile (ServerConfig_TLS s) <> ""%string).

Definition SpecTimeouts (c : Config) : Prop :=
  let t := ServerConfig_Timeouts (Config_Server c) in
  0 <= TimeoutConfig_Read t /\ 0 <= TimeoutConfig_Write t /\ 0 <= TimeoutConfig_Idle t /\ 0 <= TimeoutConfig_Handler t /\
  0 <= TimeoutConfig_Shutdown t /\ 0 <= TimeoutConfig_BackendDial t /\ 0 <= TimeoutConfig_BackendRead t /\ 0 <= TimeoutConfig_BackendIdle t.

Definition SpecLoadBalancer (c : Config) : Prop :=
  let l := Config_LoadBalancer c in let p := LoadBalancerConfig_WebSocketPool l in
  (LoadBalancerConfig_Strategy l = ""%string \/ In (LoadBalancerConfig_Strategy l) strategies) /\
  (WebSocketPoolConfig_Enabled p = true ->
   0 <= WebSocketPoolConfig_MaxIdle p /\ 0 <= WebSocketPoolConfig_MaxActive p /\
   (0 < WebSocketPoolConfig_MaxActive p -> WebSocketPoolConfig_MaxIdle p <= WebSocketPoolConfig_MaxActive p) /\
   0 <= WebSocketPoolConfig_IdleTimeoutSeconds p).

Definition SpecHealthChecks (c : Config) : Prop :=
  let a := HealthChecksConfig_Active (Config_HealthChecks c) in let p := HealthChecksConfig_Passive (Config_HealthChecks c) in
  (ActiveHealthCheckConfig_Enabled a = true ->
   0 < ActiveHealthCheckConfig_Interval a /\ 0 < ActiveHealthCheckConfig_Timeout a /\
   ActiveHealthCheckConfig_Timeout a < ActiveHealthCheckConfig_Interval a /\ ActiveHealthCheckConfig_Path a <> ""%string) /\
  (PassiveHealthCheckConfig_Enabled p = true ->
   0 < PassiveHealthCheckConfig_UnhealthyThreshold p /\ 0 < PassiveHealthCheckConfig_UnhealthyTimeout p).

Definition SpecRateLimit (c : Config) : Prop :=
  let r := Config_RateLimit c in
  RateLimitConfig_Enabled r = true -> 0 < RateLimitConfig_MaxTokens r /\ 0 < RateLimitConfig_RefillRate r.

Definition SpecCircuitBreaker (c : Config) : Prop :=
  let b := Config_CircuitBreaker c in
  CircuitBreakerConfig_Enabled b = true ->
  0 < CircuitBreakerConfig_FailureThreshold b /\ 0 < CircuitBreakerConfig_SuccessThreshold b /\
  0 < CircuitBreakerConfig_TimeoutSeconds b /\ 0 < CircuitBreakerConfig_IntervalSeconds b /\
  0 <= CircuitBreakerConfig_MaxRequests b /\
  (* 0 = default; otherwise the half-open budget must allow success_threshold successes (C08) *)
  (0 < CircuitBreakerConfig_MaxRequests b -> CircuitBreakerConfig_SuccessThreshold b <= CircuitBreakerConfig_MaxRequests b).

Definition SpecMetrics (c : Config) : Prop :=
  let m := Config_Metrics c in
  MetricsConfig_Enabled m = true -> port_ok (MetricsConfig_Port m) /\ MetricsConfig_Path m <> ""%string.

Definition SpecAdminAPI (c : Config) : Prop :=
  let a := Config_AdminAPI c in AdminAPIConfig_Enabled a = true -> port_ok (AdminAPIConfig_Port a).

Definition SpecLogging (c : Config) : Prop :=
  let l := Config_Logging c in
  (LoggingConfig_Level l = ""%string \/ In (LoggingConfig_Level l) log_levels) /\
  (LoggingConfig_Format l = ""%string \/ In (LoggingConfig_Format l) log_formats).

Definition Spec (c : Config) : Prop :=
  SpecBackends c /\ SpecServer c /\ SpecTimeouts c /\ SpecLoadBalancer c /\ SpecHealthChecks c /\ SpecRateLimit c /\
  SpecCircuitBreaker c /\ SpecMetrics c /\ SpecAdminAPI c /\ SpecLogging c.

(* ---- the same constraints in executable form (used as the oracle on implementation runs; proved equivalent to Spec) ---- *)
Definition port_okb (p : Z) : bool := (1 <=? p) && (p <=? 65535).
Definition nonempty (s : string) : bool := negb (String.eqb s "").
Definition imp (a b : bool) : bool := negb a || b.

Definition backends_b (c : Config) : bool :=
  negb (match Config_Backends c with [] => true | _ => false end)
  && forallb (fun x => nonempty (BackendConfig_Name x) && nonempty (BackendConfig_Address x) && (0 <=? BackendConfig_Weight x)) (Config_Backends c).
Definition server_b (c : Config) : bool :=
  let s := Config_Server c in
  port_okb (ServerConfig_Port s)
  && imp (TLSConfig_Enabled (ServerConfig_TLS s)) (nonempty (TLSConfig_CertFile (ServerConfig_TLS s)) && nonempty (TLSConfig_KeyFile (ServerConfig_TLS s))).
Definition timeouts_b (c : Config) : bool :=
  let t := ServerConfig_Timeouts (Config_Server c) in
  (0 <=? TimeoutConfig_Read t) && (0 <=? TimeoutConfig_Write t) && (0 <=? TimeoutConfig_Idle t) && (0 <=? TimeoutConfig_Handler t)
  && (0 <=? TimeoutConfig_Shutdown t) && (0 <=? TimeoutConfig_BackendDial t) && (0 <=? TimeoutConfig_BackendRead t) && (0 <=? TimeoutConfig_BackendIdle t).
Definition loadbalancer_b (c : Config) : bool :=
  let l := Config_LoadBalancer c in let p := LoadBalancerConfig_WebSocketPool l in
  (String.eqb (LoadBalancerConfig_Strategy l) "" || existsb (String.eqb (LoadBalancerConfig_Strategy l)) strategies)
  && imp (WebSocketPoolConfig_Enabled p)
         ((0 <=? WebSocketPoolConfig_MaxIdle p) && (0 <=? WebSocketPoolConfig_MaxActive p)
          && imp (0 <? WebSocketPoolConfig_MaxActive p) (WebSocketPoolConfig_MaxIdle p <=? WebSocketPoolConfig_MaxActive p)
          && (0 <=? WebSocketPoolConfig_IdleTimeoutSeconds p)).
Definition healthchecks_b (c : Config) : bool :=
  let a := HealthChecksConfig_Active (Config_HealthChecks c) in let pa := HealthChecksConfig_Passive (Config_HealthChecks c) in
  imp (ActiveHealthCheckConfig_Enabled a)
      ((0 <? ActiveHealthCheckConfig_Interval a) && (0 <? ActiveHealthCheckConfig_Timeout a)
       && (ActiveHealthCheckConfig_Timeout a <? ActiveHealthCheckConfig_Interval a) && nonempty (ActiveHealthCheckConfig_Path a))
  && imp (PassiveHealthCheckConfig_Enabled pa) ((0 <? PassiveHealthCheckConfig_UnhealthyThreshold pa) && (0 <? PassiveHealthCheckConfig_UnhealthyTimeout pa)).
Definition ratelimit_b (c : Config) : bool :=
  let r := Config_RateLimit c in imp (RateLimitConfig_Enabled r) ((0 <? RateLimitConfig_MaxTokens r) && (0 <? RateLimitConfig_RefillRate r)).
Definition circuitbreaker_b (c : Config) : bool :=
  let b := Config_CircuitBreaker c in
  imp (CircuitBreakerConfig_Enabled b)
      ((0 <? CircuitBreakerConfig_FailureThreshold b) && (0 <? CircuitBreakerConfig_SuccessThreshold b)
       && (0 <? CircuitBreakerConfig_TimeoutSeconds b) && (0 <? CircuitBreakerConfig_IntervalSeconds b)
       && (0 <=? CircuitBreakerConfig_MaxRequests b)
       && imp (0 <? CircuitBreakerConfig_MaxRequests b) (CircuitBreakerConfig_SuccessThreshold b <=? CircuitBreakerConfig_MaxRequests b)).
Definition metrics_b (c : Config) : bool :=
  let m := Config_Metrics c in imp (MetricsConfig_Enabled m) (port_okb (MetricsConfig_Port m) && nonempty (MetricsConfig_Path m)).
Definition adminapi_b (c : Config) : bool :=
  let ad := Config_AdminAPI c in imp (AdminAPIConfig_Enabled ad) (port_okb (AdminAPIConfig_Port ad)).
Definition logging_b (c : Config) : bool :=
  let lg := Config_Logging c in
  (String.eqb (LoggingConfig_Level lg) "" || existsb (String.eqb (LoggingConfig_Level lg)) log_levels)
  && (String.eqb (LoggingConfig_Format lg) "" || existsb (String.eqb (LoggingConfig_Format lg)) log_formats).

Definition spec_b (c : Config) : bool :=
  backends_b c && server_b c && timeouts_b c && loadbalancer_b c && healthchecks_b c && ratelimit_b c && circuitbreaker_b c
  && metrics_b c && adminapi_b c && logging_b c.
