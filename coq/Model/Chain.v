(* The plugin chain (internal/plugins/registry.go BuildChain + the built-in factories):
   construction (unknown name or invalid options => no handler at all) and the order in which the
   built middlewares see a request. *)
From Helios Require Import Base.Prelude Base.Bytes.

(* a decoded YAML / Go value as the factories inspect it *)
Inductive yval :=
| VNull
| VBool (b : bool)
| VInt (z : Z)            (* Go int / int64 *)
| VFloat (trunc : Z)      (* float64; the factories only ever use int64(v): the value truncated toward zero *)
| VStr (s : bytes)
| VList (l : list yval)
| VMap (m : list (bytes * yval)).

Definition opts := list (bytes * yval).

Fixpoint oget (k : bytes) (o : opts) : option yval :=
  match o with [] => None | (k', v) :: t => if bytes_eqb k' k then Some v else oget k t end.

(* plugin names *)
Definition n_logging : bytes := [108;111;103;103;105;110;103].
Definition n_headers : bytes := [104;101;97;100;101;114;115].
Definition n_custom_auth : bytes := [99;117;115;116;111;109;45;97;117;116;104].
Definition n_request_id : bytes := [114;101;113;117;101;115;116;45;105;100].
Definition n_size_limit : bytes := [115;105;122;101;95;108;105;109;105;116].
Definition n_gzip : bytes := [103;122;105;112].
(* option keys *)
Definition k_set : bytes := [115;101;116].
Definition k_request_set : bytes := [114;101;113;117;101;115;116;95;115;101;116].
Definition k_apiKey : bytes := [97;112;105;75;101;121].
Definition k_max_request_body : bytes := [109;97;120;95;114;101;113;117;101;115;116;95;98;111;100;121].
Definition k_max_response_body : bytes := [109;97;120;95;114;101;115;112;111;110;115;101;95;98;111;100;121].
Definition k_level : bytes := [108;101;118;101;108].
Definition k_min_size : bytes := [109;105;110;95;115;105;122;101].
Definition k_content_types : bytes := [99;111;110;116;101;110;116;95;116;121;112;101;115].

(* toStringMap: absent / null => empty; otherwise an object whose values are all strings *)
Definition string_map_ok (v : option yval) : bool :=
  match v with
  | None | Some VNull => true
  | Some (VMap m) => forallb (fun kv => match snd kv with VStr _ => true | _ => false end) m
  | Some _ => false
  end.

(* parseByteLimit: absent => default; a number (int, int64, float64) whose int64 value is positive *)
Definition byte_limit_ok (v : option yval) : bool :=
  match v with
  | None => true
  | Some (VInt z) | Some (VFloat z) => 0 <? z
  | Some _ => false
  end.

(* configInt *)
Definition config_int (v : option yval) : option Z :=
  match v with Some (VInt z) | Some (VFloat z) => Some z | _ => None end.

Definition gzip_ok (o : opts) : bool :=
  match config_int (oget k_level o) with
  | None => false
  | Some lv =>
      (-1 <=? lv) && (lv <=? 9)
      && (match config_int (oget k_min_size o) with None => false | Some _ => true end)
      && (match oget k_content_types o with
          | Some (VList l) => forallb (fun v => match v with VStr _ => true | _ => false end) l
          | _ => false
          end)
  end.

(* the registry: does the factory of [name] accept the options?  None = unknown plugin *)
Definition factory_ok (name : bytes) (o : opts) : option bool :=
  if bytes_eqb name n_logging || bytes_eqb name n_request_id then Some true
  else if bytes_eqb name n_headers then Some (string_map_ok (oget k_set o) && string_map_ok (oget k_request_set o))
  else if bytes_eqb name n_custom_auth then
    Some (match oget k_apiKey o with Some (VStr s) => negb (bytes_eqb s []) | _ => false end)
  else if bytes_eqb name n_size_limit then
    Some (byte_limit_ok (oget k_max_request_body o) && byte_limit_ok (oget k_max_response_body o))
  else if bytes_eqb name n_gzip then Some (gzip_ok o)
  else None.

Definition entry_ok (e : bytes * opts) : bool :=
  match factory_ok (fst e) (snd e) with Some true => true | _ => false end.

(* BuildChain's result: true = a handler exists.  plugins disabled or an empty chain => the base handler itself *)
Definition build_ok (enabled : bool) (chain : list (bytes * opts)) : bool :=
  if negb enabled then true
  else match chain with [] => true | _ => forallb entry_ok (rev chain) end.   (* the loop runs from the last entry to the first *)

(* ---- order and gating: what a request meets ---- *)
Inductive ev := Enter (i : Z) | Reject (i : Z) | Backend | Exit (i : Z).

(* a built middleware, for one given request: its index in the chain, and whether it rejects that request *)
Definition wrap (p : Z * bool) (inner : list ev) : list ev :=
  Enter (fst p) :: (if snd p then [Reject (fst p)] else inner) ++ [Exit (fst p)].

(* the loop of BuildChain: h := base; for i := len-1 .. 0 { h = mw_i(h) } *)
Definition build_loop (ps : list (Z * bool)) (base : list ev) : list ev :=
  fold_left (fun h p => wrap p h) (rev ps) base.

Definition serve (ps : list (Z * bool)) : list ev := build_loop ps [Backend].

(* ---- which built-in rejects a given request (custom-auth: X-API-Key differs; size_limit: declared length above the limit) ---- *)
Definition default_max_request : Z := 10485760.
Definition entry_rejects (req_key : bytes) (req_len : Z) (e : bytes * opts) : bool :=
  let '(name, o) := e in
  if bytes_eqb name n_custom_auth then
    match oget k_apiKey o with Some (VStr s) => negb (bytes_eqb req_key s) | _ => false end
  else if bytes_eqb name n_size_limit then
    match oget k_max_request_body o with
    | Some (VInt z) | Some (VFloat z) => z <? req_len
    | _ => default_max_request <? req_len
    end
  else false.
