(* Executable model of internal/ratelimiter/ratelimiter.go (TokenBucketRateLimiter).
   Time is nanoseconds (Z).  A bucket that the clean-up deleted is [None]. *)
From Helios Require Import Base.Prelude.

Record lcfg := { lmax : Z; lrate : Z }.          (* maxTokens ; refillRate in ns *)
Record bucket := { tokens : Z; last : Z }.

Definition hour : Z := 3600000000000.

(* bucketMaxAge(): buckets with lastRefill < now - cleanup_age are deleted by cleanup();
   at least one hour and at least the time of a complete refill *)
Definition cleanup_age (cfg : lcfg) : Z := Z.max hour (lmax cfg * lrate cfg).

Record lstate := { lnow : Z; lbuckets : list (Z * option bucket) }.

Definition linit (t0 : Z) : lstate := {| lnow := t0; lbuckets := [] |}.

Definition get_bucket (st : lstate) (c : Z) : option bucket :=
  match lookup c (lbuckets st) with Some (Some b) => Some b | _ => None end.

(* refillTokens *)
Definition refill (cfg : lcfg) (b : bucket) (now : Z) : bucket :=
  let add := (now - last b) / lrate cfg in
  if 0 <? add then {| tokens := Z.min (lmax cfg) (tokens b + add); last := now |} else b.

(* getOrCreateBucket + refill + spend, on one bucket *)
Definition allow_bucket (cfg : lcfg) (ob : option bucket) (now : Z) : bucket * bool :=
  let b := match ob with Some b => b | None => {| tokens := lmax cfg; last := now |} end in
  let b1 := refill cfg b now in
  if 0 <? tokens b1 then ({| tokens := tokens b1 - 1; last := last b1 |}, true)
  else (b1, false).

Definition allow (cfg : lcfg) (st : lstate) (c : Z) : lstate * bool :=
  let '(b, ok) := allow_bucket cfg (get_bucket st c) (lnow st) in
  ({| lnow := lnow st; lbuckets := update c (Some b) (lbuckets st) |}, ok).

Definition stale (cfg : lcfg) (now : Z) (b : bucket) : bool := last b <? now - cleanup_age cfg.

Definition cleanup (cfg : lcfg) (st : lstate) : lstate :=
  {| lnow := lnow st;
     lbuckets := amap (fun _ ob => match ob with
                                   | Some b => if stale cfg (lnow st) b then None else Some b
                                   | None => None end) (lbuckets st) |}.

Inductive lop := LAllow (c : Z) | LAdvance (dt : Z) | LCleanup.

Definition lstep (cfg : lcfg) (st : lstate) (o : lop) : lstate * list (Z * bool) :=
  match o with
  | LAllow c => let '(st', ok) := allow cfg st c in (st', [(c, ok)])
  | LAdvance dt => ({| lnow := lnow st + dt; lbuckets := lbuckets st |}, [])
  | LCleanup => (cleanup cfg st, [])
  end.

(* run a history; the output is the list of (client, admitted) in order *)
Fixpoint lrun (cfg : lcfg) (st : lstate) (ops : list lop) : lstate * list (Z * bool) :=
  match ops with
  | [] => (st, [])
  | o :: t => let '(st1, out1) := lstep cfg st o in
              let '(st2, out2) := lrun cfg st1 t in (st2, out1 ++ out2)
  end.

Definition wf_cfg (cfg : lcfg) : Prop := 1 <= lmax cfg /\ 1 <= lrate cfg.
Definition wf_cfgb (cfg : lcfg) : bool := (1 <=? lmax cfg) && (1 <=? lrate cfg).

Definition op_wf (o : lop) : Prop := match o with LAdvance dt => 0 <= dt | _ => True end.
Definition op_wfb (o : lop) : bool := match o with LAdvance dt => 0 <=? dt | _ => true end.

(* total time that passes during a history *)
Fixpoint dur (ops : list lop) : Z :=
  match ops with
  | [] => 0
  | LAdvance dt :: t => dt + dur t
  | _ :: t => dur t
  end.

(* number of admissions of client c in an output list *)
Fixpoint admitted (c : Z) (out : list (Z * bool)) : Z :=
  match out with
  | [] => 0
  | (c', ok) :: t => (if Z.eqb c c' && ok then 1 else 0) + admitted c t
  end.

(* ---- executable monitor of the window bound over an observed trace ----
   events carry absolute time; for every pair i <= j of events of the trace, the admissions of
   each client among events i..j must be <= max + (t_j - t_i)/r + 1. *)
Definition event := (Z * Z * bool)%type.   (* time, client, admitted *)

Fixpoint count_adm (c : Z) (evs : list event) : Z :=
  match evs with
  | [] => 0
  | (_, c', ok) :: t => (if Z.eqb c c' && ok then 1 else 0) + count_adm c t
  end.

(* scan windows starting at the head event: running count for client c *)
Fixpoint window_scan (cfg : lcfg) (c t0 : Z) (acc : Z) (evs : list event) : bool :=
  match evs with
  | [] => true
  | (t, c', ok) :: rest =>
      let acc' := acc + (if Z.eqb c c' && ok then 1 else 0) in
      (acc' <=? lmax cfg + (t - t0) / lrate cfg + 1) && window_scan cfg c t0 acc' rest
  end.

Fixpoint windows_ok (cfg : lcfg) (evs : list event) : bool :=
  match evs with
  | [] => true
  | (t0, c, ok) :: rest => window_scan cfg c t0 0 evs && windows_ok cfg rest
  end.

(* burst monitor: among events with identical timestamps, admissions per client <= max *)
Fixpoint burst_scan (cfg : lcfg) (c t0 : Z) (acc : Z) (evs : list event) : bool :=
  match evs with
  | [] => true
  | (t, c', ok) :: rest =>
      if Z.eqb t t0 then
        let acc' := acc + (if Z.eqb c c' && ok then 1 else 0) in
        (acc' <=? lmax cfg) && burst_scan cfg c t0 acc' rest
      else true
  end.

Fixpoint bursts_ok (cfg : lcfg) (evs : list event) : bool :=
  match evs with
  | [] => true
  | (t0, c, ok) :: rest => burst_scan cfg c t0 0 evs && bursts_ok cfg rest
  end.
