(* FNV-1a (hash/fnv New32a) and the jump consistent hash of ip_hash_consistent.go.
   The loop of jumpHash is NOT written here: jh_cond / jh_body / jh_ret are regenerated from the
   current source by go2coq (Gen/JumpGen.v); this file only iterates them with fuel. *)
From Helios Require Import Base.Prelude Base.Wrap Gen.JumpGen.

Definition fnv_offset : Z := 2166136261.
Definition fnv_prime : Z := 16777619.
Definition fnv_step (h b : Z) : Z := (Z.lxor h b * fnv_prime) mod 4294967296.
Definition fnv32a (bytes : list Z) : Z := fold_left fnv_step bytes fnv_offset.

(* the generated loop, iterated; None = out of fuel (excluded by theorem jump_hash_some) *)
Fixpoint jh_loop (fuel : nat) (key b j n : Z) : option Z :=
  match fuel with
  | O => None
  | S f => if jh_cond key b j n
           then let '(k', b', j') := jh_body key b j in jh_loop f k' b' j' n
           else Some (jh_ret key b j)
  end.

Definition jump_hash (key n : Z) : option Z :=
  jh_loop (Z.to_nat n + 2) key jh_init_b jh_init_j n.

(* hand-written reading of the same loop, used by the proofs; Proofs/HashProofs.v shows that the
   generated definitions agree with it on the reachable range *)
Definition lcg (k : Z) : Z := (k * 2862933555777941757 + 1) mod 18446744073709551616.
Definition nextj (k' j : Z) : Z := (j + 1) * (2147483648 / (Z.shiftr k' 33 + 1)).

Fixpoint jump (fuel : nat) (key b j n : Z) : option Z :=
  match fuel with
  | O => None
  | S f => if j <? n then jump f (lcg key) j (nextj (lcg key) j) n else Some b
  end.
