(* The five balancing strategies of internal/loadbalancer/{round_robin,least_connections,
   weighted_round_robin,ip_hash,ip_hash_consistent}.go over a pool kept in strategy order. *)
From Helios Require Import Base.Prelude Base.Wrap Model.Hash.

Record backend := mkB {
  bid : Z;          (* identity of the *Backend object *)
  bname : Z;        (* name (id of the string) *)
  bweight : Z;      (* Weight (>= 1 after AddBackend's clamp) *)
  bflag : bool;     (* IsHealthy *)
  buntil : Z;       (* UnhealthyUntil, ns *)
  bactive : Z;      (* ActiveConnections *)
  bcw : Z           (* weightedBackend.currentWeight *)
}.

Inductive skind := RR | LC | WRR | IPH | IPHC.

Definition skind_code (k : skind) : Z :=
  match k with RR => 0 | LC => 1 | WRR => 2 | IPH => 3 | IPHC => 4 end.
Definition skind_of (z : Z) : skind :=
  if Z.eqb z 1 then LC else if Z.eqb z 2 then WRR else if Z.eqb z 3 then IPH else if Z.eqb z 4 then IPHC else RR.

Definition set_flag (f : bool) (b : backend) : backend :=
  mkB (bid b) (bname b) (bweight b) f (buntil b) (bactive b) (bcw b).
Definition set_until (u : Z) (b : backend) : backend :=
  mkB (bid b) (bname b) (bweight b) (bflag b) u (bactive b) (bcw b).
Definition set_active (a : Z) (b : backend) : backend :=
  mkB (bid b) (bname b) (bweight b) (bflag b) (buntil b) a (bcw b).
Definition set_cw (c : Z) (b : backend) : backend :=
  mkB (bid b) (bname b) (bweight b) (bflag b) (buntil b) (bactive b) c.

Definition upd_id (id : Z) (f : backend -> backend) (pool : list backend) : list backend :=
  map (fun b => if Z.eqb (bid b) id then f b else b) pool.

Fixpoint find_id (id : Z) (pool : list backend) : option backend :=
  match pool with
  | [] => None
  | b :: t => if Z.eqb (bid b) id then Some b else find_id id t
  end.

(* RemoveBackend: overwrite the slot with the last element, truncate *)
Fixpoint remove_swap (id : Z) (pool : list backend) : list backend :=
  match pool with
  | [] => []
  | b :: t =>
      if Z.eqb (bid b) id then
        match rev t with
        | [] => []
        | l :: _ => l :: removelast t
        end
      else b :: remove_swap id t
  end.

Definition nthZ {A} (l : list A) (i : Z) : option A :=
  if i <? 0 then None else nth_error l (Z.to_nat i).

(* ---- round_robin: atomic.AddUint64(&current, 1) % len, skipping backends marked unhealthy,
        giving up after one full turn ---- *)
Fixpoint rr_scan (fuel : nat) (pool : list backend) (ctr : Z) : option backend * Z :=
  match fuel with
  | O => (None, ctr)
  | S f =>
      let c' := wrap_u64 (ctr + 1) in
      match nthZ pool (c' mod zlen pool) with
      | Some b => if bflag b then (Some b, c') else rr_scan f pool c'
      | None => (None, c')
      end
  end.
Definition rr_pick (pool : list backend) (ctr : Z) : option backend * Z :=
  match pool with
  | [] => (None, ctr)
  | _ => rr_scan (length pool) pool ctr
  end.

(* ---- least_connections: first strict minimum of ActiveConnections over the backends that are
        marked healthy ---- *)
Fixpoint lc_scan (best : option backend) (minc : Z) (pool : list backend) : option backend :=
  match pool with
  | [] => best
  | b :: t => if bflag b && (bactive b <? minc) then lc_scan (Some b) (bactive b) t else lc_scan best minc t
  end.
Definition lc_pick (pool : list backend) : option backend := lc_scan None 2147483647 pool.

(* ---- weighted_round_robin (smooth, nginx): only flag-healthy backends take part ---- *)
Definition wrr_bump (pool : list backend) : list backend :=
  map (fun b => if bflag b then set_cw (bcw b + bweight b) b else b) pool.

Fixpoint wrr_total (pool : list backend) : Z :=
  match pool with [] => 0 | b :: t => (if bflag b then bweight b else 0) + wrr_total t end.

(* first flag-healthy element with the strictly largest current weight *)
Fixpoint wrr_best (best : option backend) (pool : list backend) : option backend :=
  match pool with
  | [] => best
  | b :: t =>
      if bflag b then
        match best with
        | None => wrr_best (Some b) t
        | Some x => if bcw x <? bcw b then wrr_best (Some b) t else wrr_best best t
        end
      else wrr_best best t
  end.

Definition wrr_pick (pool : list backend) : option backend * list backend :=
  let bumped := wrr_bump pool in
  match wrr_best None bumped with
  | None => (None, bumped)
  | Some x => (Some x, upd_id (bid x) (set_cw (bcw x - wrr_total pool)) bumped)
  end.

(* ---- client string used by the two hash strategies (ip_hash.go:47-71) ---- *)
Record hreq := { h_xff : list Z; h_xri : list Z; h_remote : list Z (* host of RemoteAddr, or RemoteAddr *) }.

Fixpoint cut_comma (s : list Z) : list Z :=
  match s with [] => [] | c :: t => if Z.eqb c 44 then [] else c :: cut_comma t end.

Definition is_nil {A} (l : list A) : bool := match l with [] => true | _ => false end.

Definition hash_client (r : hreq) : list Z :=
  let ip := if negb (is_nil (h_xff r)) then h_xff r
            else if negb (is_nil (h_xri r)) then h_xri r else h_remote r in
  cut_comma ip.

Definition healthy (pool : list backend) : list backend := filter bflag pool.

Definition iph_pick (pool : list backend) (r : hreq) : option backend :=
  let hs := healthy pool in
  match hs with
  | [] => None
  | _ => nthZ hs (fnv32a (hash_client r) mod zlen hs)
  end.

Definition iphc_pick (pool : list backend) (r : hreq) : option backend :=
  let hs := healthy pool in
  match hs with
  | [] => None
  | _ => match jump_hash (fnv32a (hash_client r)) (zlen hs) with
         | Some i => nthZ hs i
         | None => None
         end
  end.

(* ---- a strategy object: kind, pool in order, round-robin counter ---- *)
Record sstate := { skd : skind; spool : list backend; sctr : Z }.

Definition s_pick (s : sstate) (r : hreq) : option backend * sstate :=
  match skd s with
  | RR => let '(b, c) := rr_pick (spool s) (sctr s) in (b, {| skd := RR; spool := spool s; sctr := c |})
  | LC => (lc_pick (spool s), s)
  | WRR => let '(b, p) := wrr_pick (spool s) in (b, {| skd := WRR; spool := p; sctr := sctr s |})
  | IPH => (iph_pick (spool s) r, s)
  | IPHC => (iphc_pick (spool s) r, s)
  end.

Definition s_add (s : sstate) (b : backend) : sstate :=
  {| skd := skd s; spool := spool s ++ [set_cw 0 b]; sctr := sctr s |}.
(* WeightedRoundRobinStrategy.RemoveBackend also starts a fresh cycle (running weights := 0);
   the other strategies do not use the running weight, so the reset is applied uniformly *)
Definition mem_id (id : Z) (pool : list backend) : bool := existsb (fun b => Z.eqb (bid b) id) pool.
Definition s_remove (s : sstate) (id : Z) : sstate :=
  {| skd := skd s;
     spool := if mem_id id (spool s) then map (set_cw 0) (remove_swap id (spool s)) else spool s;
     sctr := sctr s |}.
Definition s_upd (s : sstate) (id : Z) (f : backend -> backend) : sstate :=
  {| skd := skd s; spool := upd_id id f (spool s); sctr := sctr s |}.

(* SetStrategy: a fresh strategy object receives the same backends in order *)
Definition s_switch (s : sstate) (k : skind) : sstate :=
  {| skd := k; spool := map (set_cw 0) (spool s); sctr := 0 |}.

Definition s_init (k : skind) : sstate := {| skd := k; spool := []; sctr := 0 |}.
