(* Composite model of internal/loadbalancer/loadbalancer.go: request path (limiter gate, breaker,
   findHealthyBackend, proxying, accounting, passive health), active probes, admin operations,
   metrics mirror, Stop.  Deliberately the code that exists. *)
From Helios Require Import Base.Prelude Base.Wrap Base.Bytes Model.Hash Model.Strategy Model.ClientIP Model.Limiter Model.Breaker.

Record lbcfg := {
  c_passive : bool; c_pthr : Z; c_ptimeout : Z;        (* passive: threshold, unhealthy window (ns) *)
  c_active : bool;                                      (* active probes enabled *)
  c_lim : bool; c_lcfg : lcfg;
  c_brk : bool; c_bcfg : bcfg
}.

(* per-name entry of the metrics collector *)
Record bmetric := { m_total : Z; m_succ : Z; m_fail : Z; m_gauge : Z; m_healthy : bool }.
Definition bm0 : bmetric := {| m_total := 0; m_succ := 0; m_fail := 0; m_gauge := 0; m_healthy := false |}.

Record lb := {
  now : Z;
  ss : sstate;                       (* strategy object: kind, pool in order, rr counter *)
  dead : list backend;               (* removed *Backend objects (requests may still be in flight on them) *)
  pass : list (Z * Z);               (* passive failure counters, keyed by NAME *)
  lims : lstate;
  brk : bstate;
  total : Z; succ : Z; failed : Z; rlim : Z;
  bm : list (Z * bmetric);           (* metrics mirror keyed by name *)
  infl : list (Z * (Z * Z));         (* rid -> (backend object id, name) *)
  nextid : Z;
  stopped : bool
}.

Definition lb_init (cfg : lbcfg) (k : skind) (t0 : Z) : lb :=
  {| now := t0; ss := s_init k; dead := []; pass := []; lims := linit t0; brk := binit t0;
     total := 0; succ := 0; failed := 0; rlim := 0; bm := []; infl := []; nextid := 1; stopped := false |}.

(* ---- record update helpers ---- *)
Definition with_ss (s : lb) (x : sstate) : lb :=
  {| now := now s; ss := x; dead := dead s; pass := pass s; lims := lims s; brk := brk s; total := total s; succ := succ s;
     failed := failed s; rlim := rlim s; bm := bm s; infl := infl s; nextid := nextid s; stopped := stopped s |}.
Definition with_dead (s : lb) (x : list backend) : lb :=
  {| now := now s; ss := ss s; dead := x; pass := pass s; lims := lims s; brk := brk s; total := total s; succ := succ s;
     failed := failed s; rlim := rlim s; bm := bm s; infl := infl s; nextid := nextid s; stopped := stopped s |}.
Definition with_pass (s : lb) (x : list (Z * Z)) : lb :=
  {| now := now s; ss := ss s; dead := dead s; pass := x; lims := lims s; brk := brk s; total := total s; succ := succ s;
     failed := failed s; rlim := rlim s; bm := bm s; infl := infl s; nextid := nextid s; stopped := stopped s |}.
Definition with_lims (s : lb) (x : lstate) : lb :=
  {| now := now s; ss := ss s; dead := dead s; pass := pass s; lims := x; brk := brk s; total := total s; succ := succ s;
     failed := failed s; rlim := rlim s; bm := bm s; infl := infl s; nextid := nextid s; stopped := stopped s |}.
Definition with_brk (s : lb) (x : bstate) : lb :=
  {| now := now s; ss := ss s; dead := dead s; pass := pass s; lims := lims s; brk := x; total := total s; succ := succ s;
     failed := failed s; rlim := rlim s; bm := bm s; infl := infl s; nextid := nextid s; stopped := stopped s |}.
Definition with_counts (s : lb) (t su f r : Z) : lb :=
  {| now := now s; ss := ss s; dead := dead s; pass := pass s; lims := lims s; brk := brk s; total := t; succ := su;
     failed := f; rlim := r; bm := bm s; infl := infl s; nextid := nextid s; stopped := stopped s |}.
Definition with_bm (s : lb) (x : list (Z * bmetric)) : lb :=
  {| now := now s; ss := ss s; dead := dead s; pass := pass s; lims := lims s; brk := brk s; total := total s; succ := succ s;
     failed := failed s; rlim := rlim s; bm := x; infl := infl s; nextid := nextid s; stopped := stopped s |}.
Definition with_infl (s : lb) (x : list (Z * (Z * Z))) : lb :=
  {| now := now s; ss := ss s; dead := dead s; pass := pass s; lims := lims s; brk := brk s; total := total s; succ := succ s;
     failed := failed s; rlim := rlim s; bm := bm s; infl := x; nextid := nextid s; stopped := stopped s |}.
Definition with_now (s : lb) (t : Z) : lb :=
  {| now := t; ss := ss s; dead := dead s; pass := pass s; lims := lims s; brk := brk s; total := total s; succ := succ s;
     failed := failed s; rlim := rlim s; bm := bm s; infl := infl s; nextid := nextid s; stopped := stopped s |}.
Definition with_nextid (s : lb) (n : Z) : lb :=
  {| now := now s; ss := ss s; dead := dead s; pass := pass s; lims := lims s; brk := brk s; total := total s; succ := succ s;
     failed := failed s; rlim := rlim s; bm := bm s; infl := infl s; nextid := n; stopped := stopped s |}.
Definition with_stopped (s : lb) (b : bool) : lb :=
  {| now := now s; ss := ss s; dead := dead s; pass := pass s; lims := lims s; brk := brk s; total := total s; succ := succ s;
     failed := failed s; rlim := rlim s; bm := bm s; infl := infl s; nextid := nextid s; stopped := b |}.

Definition pool (s : lb) : list backend := spool (ss s).
Definition with_pool (s : lb) (p : list backend) : lb :=
  with_ss s {| skd := skd (ss s); spool := p; sctr := sctr (ss s) |}.

(* metrics mirror *)
Definition bm_get (s : lb) (name : Z) : bmetric := match lookup name (bm s) with Some m => m | None => bm0 end.
Definition bm_set (s : lb) (name : Z) (m : bmetric) : lb := with_bm s (update name m (bm s)).
Definition mirror_health (s : lb) (name : Z) (h : bool) : lb :=
  let m := bm_get s name in
  bm_set s name {| m_total := m_total m; m_succ := m_succ m; m_fail := m_fail m; m_gauge := m_gauge m; m_healthy := h |}.
Definition mirror_gauge (s : lb) (name : Z) (g : Z) : lb :=
  let m := bm_get s name in
  bm_set s name {| m_total := m_total m; m_succ := m_succ m; m_fail := m_fail m; m_gauge := g; m_healthy := m_healthy m |}.
Definition record_backend (s : lb) (name : Z) (ok : bool) : lb :=
  let m := bm_get s name in
  bm_set s name {| m_total := m_total m + 1; m_succ := m_succ m + (if ok then 1 else 0);
                   m_fail := m_fail m + (if ok then 0 else 1); m_gauge := m_gauge m; m_healthy := m_healthy m |}.
Definition record_response (s : lb) (ok : bool) : lb :=
  with_counts s (total s) (succ s + (if ok then 1 else 0)) (failed s + (if ok then 0 else 1)) (rlim s).

(* a *Backend object, in the pool or already removed *)
Definition find_obj (s : lb) (id : Z) : option backend :=
  match find_id id (pool s) with Some b => Some b | None => find_id id (dead s) end.
Definition upd_obj (s : lb) (id : Z) (f : backend -> backend) : lb :=
  with_dead (with_pool s (upd_id id f (pool s))) (upd_id id f (dead s)).

(* inside its unhealthy window at time t *)
Definition in_window (b : backend) (t : Z) : bool := negb (bflag b) && (t <=? buntil b).

(* IsBackendHealthy: lazy expiry with mirror update *)
Definition is_healthy (s : lb) (b : backend) : bool * lb :=
  if bflag b then (true, s)
  else if buntil b <? now s then
    (true, mirror_health (upd_obj s (bid b) (set_flag true)) (bname b) true)
  else (false, s).

(* MarkBackendUnhealthy *)
Definition mark_unhealthy (cfg : lbcfg) (s : lb) (id name : Z) : lb :=
  mirror_health (upd_obj s id (fun b => set_until (now s + c_ptimeout cfg) (set_flag false b))) name false.

(* findHealthyBackend: first every backend whose window has elapsed is re-admitted (lazy expiry of
   the whole pool), then up to 3 picks, each filtered by IsBackendHealthy *)
Fixpoint refresh_ids (ids : list Z) (s : lb) : lb :=
  match ids with
  | [] => s
  | id :: t => match find_obj s id with
               | Some b => refresh_ids t (snd (is_healthy s b))
               | None => refresh_ids t s
               end
  end.
Definition refresh_all (s : lb) : lb := refresh_ids (map bid (pool s)) s.

Fixpoint find_healthy_loop (fuel : nat) (s : lb) (r : hreq) : option backend * lb :=
  match fuel with
  | O => (None, s)
  | S f =>
      let '(ob, ss') := s_pick (ss s) r in
      let s1 := with_ss s ss' in
      match ob with
      | None => (None, s1)
      | Some b =>
          (* the pick is a snapshot of the object; re-read it from the state *)
          match find_obj s1 (bid b) with
          | None => (None, s1)
          | Some b' =>
              let '(h, s2) := is_healthy s1 b' in
              if h then (find_obj s2 (bid b), s2) else find_healthy_loop f s2 r
          end
      end
  end.
Definition find_healthy (fuel : nat) (s : lb) (r : hreq) : option backend * lb :=
  find_healthy_loop fuel (refresh_all s) r.

(* request attributes: the three sources of the client address; the limiter key is
   utils.GetClientIP of them, the hash strategies use Strategy.hash_client *)
Definition req := hreq.
Definition q_client (q : req) : Z := client_key q.
Definition q_h (q : req) : hreq := q.

(* Begin outcome: (kind, x) with kind 0 = dispatched to backend object x,
   kind 1 = rejected with reason x: 1 rate limited (429), 2 breaker open (503),
   3 breaker half-open budget (429), 4 no healthy backend (503) *)
Definition lb_begin (cfg : lbcfg) (s : lb) (rid : Z) (q : req) : lb * (Z * Z) :=
  let s := with_counts s (total s + 1) (succ s) (failed s) (rlim s) in
  (* limiter gate *)
  let '(s, pass_lim) :=
    if c_lim cfg then
      let '(l', ok) := allow (c_lcfg cfg) {| lnow := now s; lbuckets := lbuckets (lims s) |} (q_client q) in
      (with_lims s l', ok)
    else (s, true) in
  if negb pass_lim then (with_counts s (total s) (succ s) (failed s) (rlim s + 1), (1, 1)) else
  (* breaker admission *)
  let '(s, bcode) :=
    if c_brk cfg then
      let '(b', code) := begin (c_bcfg cfg) (advance (brk s) (now s - bnow (brk s))) rid in (with_brk s b', code)
    else (s, 0) in
  if Z.eqb bcode 1 then (record_response s false, (1, 2)) else
  if Z.eqb bcode 2 then (record_response s false, (1, 3)) else
  let '(ob, s) := find_healthy 3 s (q_h q) in
  match ob with
  | None =>
      (* 503, recorded as a failed response; the breaker sees a success (nothing was proxied) *)
      let s := record_response s false in
      let s := if c_brk cfg then with_brk s (finish (c_bcfg cfg) (brk s) rid true) else s in
      (s, (1, 4))
  | Some b =>
      let s := upd_obj s (bid b) (set_active (bactive b + 1)) in
      let s := mirror_gauge s (bname b) (bactive b + 1) in
      (with_infl s ((rid, (bid b, bname b)) :: infl s), (0, bid b))
  end.

Fixpoint remove_infl (rid : Z) (l : list (Z * (Z * Z))) : list (Z * (Z * Z)) :=
  match l with [] => [] | (r, x) :: t => if Z.eqb r rid then t else (r, x) :: remove_infl rid t end.

(* outcome of the proxied exchange: status code (a transport error is the default handler's 502),
   or abort (response failed mid-body: panic(http.ErrAbortHandler)) *)
Inductive outcome := OStatus (code : Z) | OAbort.

Definition passive_fail (cfg : lbcfg) (s : lb) (id name : Z) : lb :=
  let n := (match lookup name (pass s) with Some n => n | None => 0 end) + 1 in
  let s := with_pass s (update name n (pass s)) in
  if c_pthr cfg <=? n then with_pass (mark_unhealthy cfg s id name) (update name 0 (pass s)) else s.

(* End: client-visible status, -1 when the response was aborted *)
Definition lb_end (cfg : lbcfg) (s : lb) (rid : Z) (o : outcome) : lb * Z :=
  match lookup rid (infl s) with
  | None => (s, -2)
  | Some (id, name) =>
      let s := with_infl s (remove_infl rid (infl s)) in
      let release (s : lb) : lb :=
        let act := match find_obj s id with Some b => bactive b - 1 | None => 0 end in
        mirror_gauge (upd_obj s id (set_active act)) name act in
      match o with
      | OStatus code =>
          let ok := code <? 500 in
          let s := record_backend (record_response s ok) name ok in
          let s := if (500 <=? code) && c_passive cfg then passive_fail cfg s id name else s in
          let s := release s in
          (* a 5xx (incl. the 502 of an unreachable backend) is a failure for the breaker *)
          let s := if c_brk cfg then with_brk s (finish (c_bcfg cfg) (advance (brk s) (now s - bnow (brk s))) rid ok) else s in
          (s, code)
      | OAbort =>
          (* deferred release; the aborted request is recorded as failed; the breaker counts a failure *)
          let s := release s in
          let s := record_backend (record_response s false) name false in
          let s := if c_brk cfg then with_brk s (finish (c_bcfg cfg) (advance (brk s) (now s - bnow (brk s))) rid false) else s in
          (s, -1)
      end
  end.

(* ---- admin operations ---- *)
Definition has_name (name : Z) (p : list backend) : bool := existsb (fun b => Z.eqb (bname b) name) p.

Definition lb_add (s : lb) (name w : Z) (addr_ok : bool) : lb * Z :=
  if negb addr_ok then (s, 1) else
  if has_name name (pool s) then (s, 1) else
  let w' := if w <? 1 then 1 else w in
  let b := mkB (nextid s) name w' true 0 0 0 in
  let s := with_nextid (with_ss s (s_add (ss s) b)) (nextid s + 1) in
  (mirror_health s name true, 0).

(* RemoveBackend: every backend of the snapshot with that name is removed from the strategy, in
   snapshot order *)
Fixpoint remove_named (name : Z) (snapshot : list backend) (s : lb) : lb :=
  match snapshot with
  | [] => s
  | b :: t =>
      if Z.eqb (bname b) name then
        let cur := match find_id (bid b) (pool s) with Some x => x | None => b end in
        remove_named name t (with_dead (with_ss s (s_remove (ss s) (bid b))) (cur :: dead s))
      else remove_named name t s
  end.
Definition lb_remove (s : lb) (name : Z) : lb := remove_named name (pool s) s.

(* kind code 0..4 known; anything else is an unknown strategy name *)
Definition lb_set_strategy (s : lb) (k : Z) : lb * Z :=
  if (0 <=? k) && (k <=? 4) then (with_ss s (s_switch (ss s) (skind_of k)), 0) else (s, 1).

Definition lb_list (s : lb) : list Z :=
  flat_map (fun b => [bname b; b2z (bflag b); bactive b; bweight b]) (pool s).

(* Metrics: counters, then the mirror in the order the harness canonicalises (ascending name id;
   the model keeps insertion order and the evaluator sorts) *)
Definition lb_metrics_head (s : lb) : list Z := [total s; succ s; failed s; rlim s].
Definition lb_metrics_of (s : lb) (name : Z) : list Z :=
  let m := bm_get s name in [m_total m; m_succ m; m_fail m; m_gauge m; b2z (m_healthy m)].

(* ---- active probe of one backend object with a scripted result ---- *)
Definition lb_probe (cfg : lbcfg) (s : lb) (id : Z) (ok : bool) : lb :=
  if stopped s then s else
  match find_obj s id with
  | None => s
  | Some b =>
      let '(h, s) := is_healthy s b in
      if negb h then s            (* probes skip backends inside their window *)
      else if ok then mirror_health (upd_obj s id (set_flag true)) (bname b) true
      else mark_unhealthy cfg s id (bname b)
  end.

Inductive lbop :=
| LBegin (rid : Z) (q : req)
| LEnd (rid : Z) (o : outcome)
| LAdv (dt : Z)
| LAdd (name w : Z) (addr_ok : bool)
| LRemove (name : Z)
| LStrategy (k : Z)
| LList
| LMetrics (names : list Z)       (* names whose mirror entries are read, ascending *)
| LProbe (id : Z) (ok : bool)
| LCleanup                         (* limiter clean-up tick *)
| LStop.

Definition lb_step (cfg : lbcfg) (s : lb) (o : lbop) : lb * list Z :=
  match o with
  | LBegin rid q => let '(s', (k, x)) := lb_begin cfg s rid q in (s', [k; x])
  | LEnd rid oc => let '(s', st) := lb_end cfg s rid oc in (s', [st])
  | LAdv dt => (with_now s (now s + dt), [])
  | LAdd name w a => let '(s', r) := lb_add s name w a in (s', [r])
  | LRemove name => (lb_remove s name, [0])
  | LStrategy k => let '(s', r) := lb_set_strategy s k in (s', [r])
  | LList => (s, lb_list s)
  | LMetrics names => (s, lb_metrics_head s ++ [zlen (bm s)] ++ flat_map (lb_metrics_of s) names)
  | LProbe id ok => (lb_probe cfg s id ok, [])
  | LCleanup => (with_lims s (cleanup (c_lcfg cfg) {| lnow := now s; lbuckets := lbuckets (lims s) |}), [])
  | LStop => (with_stopped s true, [])
  end.

Fixpoint lb_run (cfg : lbcfg) (s : lb) (ops : list lbop) : lb * list (list Z) :=
  match ops with
  | [] => (s, [])
  | o :: t => let '(s1, out) := lb_step cfg s o in
              let '(s2, outs) := lb_run cfg s1 t in (s2, out :: outs)
  end.
