(* Go fixed-width integer wrap-around, as used by the generated definitions (go2coq). *)
From Coq Require Import ZArith Lia.
Open Scope Z_scope.

Definition wrap_u64 (x : Z) : Z := x mod 18446744073709551616.
Definition wrap_s64 (x : Z) : Z := (x + 9223372036854775808) mod 18446744073709551616 - 9223372036854775808.
Definition wrap_u32 (x : Z) : Z := x mod 4294967296.
Definition wrap_s32 (x : Z) : Z := (x + 2147483648) mod 4294967296 - 2147483648.

Lemma wrap_u64_id x : 0 <= x < 18446744073709551616 -> wrap_u64 x = x.
Proof. intros H. unfold wrap_u64. apply Z.mod_small. exact H. Qed.

Lemma wrap_s64_id x : -9223372036854775808 <= x < 9223372036854775808 -> wrap_s64 x = x.
Proof. intros H. unfold wrap_s64. rewrite Z.mod_small by lia. lia. Qed.

Lemma wrap_u32_id x : 0 <= x < 4294967296 -> wrap_u32 x = x.
Proof. intros H. unfold wrap_u32. apply Z.mod_small. exact H. Qed.

Lemma wrap_s32_id x : -2147483648 <= x < 2147483648 -> wrap_s32 x = x.
Proof. intros H. unfold wrap_s32. rewrite Z.mod_small by lia. lia. Qed.

Lemma wrap_u64_range x : 0 <= wrap_u64 x < 18446744073709551616.
Proof. unfold wrap_u64. apply Z.mod_pos_bound. lia. Qed.

Lemma wrap_u32_range x : 0 <= wrap_u32 x < 4294967296.
Proof. unfold wrap_u32. apply Z.mod_pos_bound. lia. Qed.
