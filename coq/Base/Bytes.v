(* Byte strings (lists of Z in 0..255) and strings.TrimSpace over UTF-8 encoded text. *)
From Helios Require Import Base.Prelude.

Definition bytes := list Z.
(* run-length notation used by the harness for long runs of one byte *)
Definition rpt (n c : Z) : bytes := repeat c (Z.to_nat n).

Fixpoint bytes_eqb (a b : bytes) : bool :=
  match a, b with
  | [], [] => true
  | x :: a', y :: b' => Z.eqb x y && bytes_eqb a' b'
  | _, _ => false
  end.

Fixpoint prefixb (p s : bytes) : bool :=
  match p, s with
  | [], _ => true
  | x :: p', y :: s' => Z.eqb x y && prefixb p' s'
  | _, [] => false
  end.

(* injective encoding of a byte string as a Z (used as a map key) *)
Fixpoint bytes_key (s : bytes) : Z :=
  match s with [] => 1 | b :: t => (b mod 256) + 256 * bytes_key t end.

(* length in bytes of a leading Unicode White_Space rune as Go's unicode.IsSpace sees it, 0 if none *)
Definition space_prefix (s : bytes) : nat :=
  match s with
  | c :: rest =>
      if (Z.eqb c 32) || ((9 <=? c) && (c <=? 13)) then 1%nat
      else if Z.eqb c 194 then
        match rest with d :: _ => if Z.eqb d 133 || Z.eqb d 160 then 2%nat else 0%nat | [] => 0%nat end
      else if Z.eqb c 225 then
        match rest with d :: e :: _ => if Z.eqb d 154 && Z.eqb e 128 then 3%nat else 0%nat | _ => 0%nat end
      else if Z.eqb c 226 then
        match rest with
        | d :: e :: _ =>
            if Z.eqb d 128 && (((128 <=? e) && (e <=? 138)) || Z.eqb e 168 || Z.eqb e 169 || Z.eqb e 175) then 3%nat
            else if Z.eqb d 129 && Z.eqb e 159 then 3%nat else 0%nat
        | _ => 0%nat
        end
      else if Z.eqb c 227 then
        match rest with d :: e :: _ => if Z.eqb d 128 && Z.eqb e 128 then 3%nat else 0%nat | _ => 0%nat end
      else 0%nat
  | [] => 0%nat
  end.

Fixpoint trim_left_fuel (fuel : nat) (s : bytes) : bytes :=
  match fuel with
  | O => s
  | S f => match space_prefix s with O => s | n => trim_left_fuel f (skipn n s) end
  end.
Definition trim_left (s : bytes) : bytes := trim_left_fuel (length s) s.

(* trailing white space: the same rune set, matched on the reversed string *)
Definition space_suffix_rev (r : bytes) : nat :=
  match r with
  | c :: rest =>
      if (Z.eqb c 32) || ((9 <=? c) && (c <=? 13)) then 1%nat
      else match rest with
           | d :: rest2 =>
               if Z.eqb d 194 && (Z.eqb c 133 || Z.eqb c 160) then 2%nat
               else match rest2 with
                    | e :: _ =>
                        if Z.eqb e 225 && Z.eqb d 154 && Z.eqb c 128 then 3%nat
                        else if Z.eqb e 226 && Z.eqb d 128 && (((128 <=? c) && (c <=? 138)) || Z.eqb c 168 || Z.eqb c 169 || Z.eqb c 175) then 3%nat
                        else if Z.eqb e 226 && Z.eqb d 129 && Z.eqb c 159 then 3%nat
                        else if Z.eqb e 227 && Z.eqb d 128 && Z.eqb c 128 then 3%nat
                        else 0%nat
                    | [] => 0%nat
                    end
           | [] => 0%nat
           end
  | [] => 0%nat
  end.

Fixpoint trim_right_rev_fuel (fuel : nat) (r : bytes) : bytes :=
  match fuel with
  | O => r
  | S f => match space_suffix_rev r with O => r | n => trim_right_rev_fuel f (skipn n r) end
  end.
Definition trim_right (s : bytes) : bytes := rev (trim_right_rev_fuel (length s) (rev s)).

Definition trim_space (s : bytes) : bytes := trim_right (trim_left s).

(* index of the first comma (44), -1 if none *)
Fixpoint index_comma_from (i : Z) (s : bytes) : Z :=
  match s with [] => -1 | c :: t => if Z.eqb c 44 then i else index_comma_from (i + 1) t end.
Definition index_comma := index_comma_from 0.
