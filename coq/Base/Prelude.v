(* Shared prelude: imports, arithmetic tactic set-up, association lists keyed by Z. *)
From Coq Require Export ZArith List Bool Lia.
From Coq Require Export ZifyBool ZifyNat ZifyN.
Export ListNotations.

(* make lia understand / and mod *)
Ltac Zify.zify_post_hook ::= Z.to_euclidean_division_equations.

Open Scope Z_scope.

Lemma div_bounds a r : 0 < r -> r * (a / r) <= a < r * (a / r) + r.
Proof. intros H. pose proof (Z.div_mod a r). pose proof (Z.mod_pos_bound a r H). lia. Qed.

(* ---------- association lists keyed by Z (first binding wins) ---------- *)
Section Assoc.
  Context {V : Type}.

  Fixpoint lookup (k : Z) (l : list (Z * V)) : option V :=
    match l with
    | [] => None
    | (k', v) :: t => if Z.eqb k k' then Some v else lookup k t
    end.

  (* replace the binding of k in place, or append a fresh binding at the end *)
  Fixpoint update (k : Z) (v : V) (l : list (Z * V)) : list (Z * V) :=
    match l with
    | [] => [(k, v)]
    | (k', v') :: t => if Z.eqb k k' then (k, v) :: t else (k', v') :: update k v t
    end.

  Fixpoint remove_key (k : Z) (l : list (Z * V)) : list (Z * V) :=
    match l with
    | [] => []
    | (k', v') :: t => if Z.eqb k k' then remove_key k t else (k', v') :: remove_key k t
    end.

  Lemma lookup_update_same k v l : lookup k (update k v l) = Some v.
  Proof.
    induction l as [|[k' v'] t IH]; cbn [update lookup].
    - rewrite Z.eqb_refl. reflexivity.
    - destruct (Z.eqb k k') eqn:E; cbn [lookup]; rewrite ?Z.eqb_refl, ?E; auto.
  Qed.

  Lemma lookup_update_other k k' v l : k <> k' -> lookup k' (update k v l) = lookup k' l.
  Proof.
    intros Hne. induction l as [|[k2 v2] t IH]; cbn [update lookup].
    - destruct (Z.eqb k' k) eqn:E; [apply Z.eqb_eq in E; congruence | reflexivity].
    - destruct (Z.eqb k k2) eqn:E; cbn [lookup].
      + apply Z.eqb_eq in E. subst k2.
        destruct (Z.eqb k' k) eqn:E2; [apply Z.eqb_eq in E2; congruence | reflexivity].
      + destruct (Z.eqb k' k2); auto.
  Qed.

  Definition amap (f : Z -> V -> V) (l : list (Z * V)) : list (Z * V) :=
    map (fun kv => (fst kv, f (fst kv) (snd kv))) l.

  Lemma lookup_amap f k l : lookup k (amap f l) = option_map (f k) (lookup k l).
  Proof.
    induction l as [|[k' v'] t IH]; cbn [amap map lookup fst snd option_map]; [reflexivity|].
    destruct (Z.eqb k k') eqn:E; [apply Z.eqb_eq in E; subst; reflexivity | exact IH].
  Qed.

  Lemma lookup_remove_same k l : lookup k (remove_key k l) = None.
  Proof.
    induction l as [|[k' v'] t IH]; cbn [remove_key lookup]; [reflexivity|].
    destruct (Z.eqb k k') eqn:E; [exact IH | cbn [lookup]; rewrite E; exact IH].
  Qed.

  Lemma lookup_remove_other k k' l : k <> k' -> lookup k' (remove_key k l) = lookup k' l.
  Proof.
    intros Hne. induction l as [|[k2 v2] t IH]; cbn [remove_key lookup]; [reflexivity|].
    destruct (Z.eqb k k2) eqn:E.
    - apply Z.eqb_eq in E. subst k2.
      destruct (Z.eqb k' k) eqn:E2; [apply Z.eqb_eq in E2; congruence | exact IH].
    - cbn [lookup]. destruct (Z.eqb k' k2); [reflexivity | exact IH].
  Qed.
End Assoc.

(* ---------- small list utilities ---------- *)
Fixpoint sumZ (l : list Z) : Z :=
  match l with [] => 0 | x :: t => x + sumZ t end.

Lemma sumZ_app a b : sumZ (a ++ b) = sumZ a + sumZ b.
Proof. induction a; cbn [sumZ app]; lia. Qed.

Definition b2z (b : bool) : Z := if b then 1 else 0.

Fixpoint count_true (l : list bool) : Z :=
  match l with [] => 0 | b :: t => b2z b + count_true t end.

Lemma count_true_app a b : count_true (a ++ b) = count_true a + count_true b.
Proof. induction a; cbn [count_true app]; lia. Qed.

Lemma count_true_nonneg l : 0 <= count_true l.
Proof. induction l as [|b t IH]; cbn [count_true]; [lia|destruct b; cbn [b2z]; lia]. Qed.

(* index of the first mismatch between two lists of Z (-1 when equal) *)
Fixpoint first_diff_from (i : Z) (a b : list Z) : Z :=
  match a, b with
  | [], [] => -1
  | x :: a', y :: b' => if Z.eqb x y then first_diff_from (i + 1) a' b' else i
  | _, _ => i
  end.
Definition first_diff := first_diff_from 0.

Definition list_eqb (a b : list Z) : bool := Z.eqb (first_diff a b) (-1).

Fixpoint repeat_op {A} (n : nat) (x : A) : list A :=
  match n with O => [] | S k => x :: repeat_op k x end.

Fixpoint count_id (id : Z) (l : list Z) : Z :=
  match l with [] => 0 | x :: t => (if Z.eqb x id then 1 else 0) + count_id id t end.

Fixpoint memZ (x : Z) (l : list Z) : bool :=
  match l with [] => false | y :: t => Z.eqb x y || memZ x t end.

Definition zlen {A} (l : list A) : Z := Z.of_nat (length l).
