Base/Prelude.vo Base/Prelude.glob Base/Prelude.v.beautified Base/Prelude.required_vo: Base/Prelude.v 
Base/Prelude.vio: Base/Prelude.v 
Base/Prelude.vos Base/Prelude.vok Base/Prelude.required_vos: Base/Prelude.v 
Model/Limiter.vo Model/Limiter.glob Model/Limiter.v.beautified Model/Limiter.required_vo: Model/Limiter.v Base/Prelude.vo
Model/Limiter.vio: Model/Limiter.v Base/Prelude.vio
Model/Limiter.vos Model/Limiter.vok Model/Limiter.required_vos: Model/Limiter.v Base/Prelude.vos
Model/Breaker.vo Model/Breaker.glob Model/Breaker.v.beautified Model/Breaker.required_vo: Model/Breaker.v Base/Prelude.vo
Model/Breaker.vio: Model/Breaker.v Base/Prelude.vio
Model/Breaker.vos Model/Breaker.vok Model/Breaker.required_vos: Model/Breaker.v Base/Prelude.vos
Proofs/LimiterProofs.vo Proofs/LimiterProofs.glob Proofs/LimiterProofs.v.beautified Proofs/LimiterProofs.required_vo: Proofs/LimiterProofs.v Base/Prelude.vo Model/Limiter.vo
Proofs/LimiterProofs.vio: Proofs/LimiterProofs.v Base/Prelude.vio Model/Limiter.vio
Proofs/LimiterProofs.vos Proofs/LimiterProofs.vok Proofs/LimiterProofs.required_vos: Proofs/LimiterProofs.v Base/Prelude.vos Model/Limiter.vos
Proofs/BreakerProofs.vo Proofs/BreakerProofs.glob Proofs/BreakerProofs.v.beautified Proofs/BreakerProofs.required_vo: Proofs/BreakerProofs.v Base/Prelude.vo Model/Breaker.vo
Proofs/BreakerProofs.vio: Proofs/BreakerProofs.v Base/Prelude.vio Model/Breaker.vio
Proofs/BreakerProofs.vos Proofs/BreakerProofs.vok Proofs/BreakerProofs.required_vos: Proofs/BreakerProofs.v Base/Prelude.vos Model/Breaker.vos
Cases/LimiterCase.vo Cases/LimiterCase.glob Cases/LimiterCase.v.beautified Cases/LimiterCase.required_vo: Cases/LimiterCase.v Base/Prelude.vo Model/Limiter.vo
Cases/LimiterCase.vio: Cases/LimiterCase.v Base/Prelude.vio Model/Limiter.vio
Cases/LimiterCase.vos Cases/LimiterCase.vok Cases/LimiterCase.required_vos: Cases/LimiterCase.v Base/Prelude.vos Model/Limiter.vos
Cases/BreakerCase.vo Cases/BreakerCase.glob Cases/BreakerCase.v.beautified Cases/BreakerCase.required_vo: Cases/BreakerCase.v Base/Prelude.vo Model/Breaker.vo
Cases/BreakerCase.vio: Cases/BreakerCase.v Base/Prelude.vio Model/Breaker.vio
Cases/BreakerCase.vos Cases/BreakerCase.vok Cases/BreakerCase.required_vos: Cases/BreakerCase.v Base/Prelude.vos Model/Breaker.vos
Props/C09.vo Props/C09.glob Props/C09.v.beautified Props/C09.required_vo: Props/C09.v Base/Prelude.vo Model/Limiter.vo Proofs/LimiterProofs.vo
Props/C09.vio: Props/C09.v Base/Prelude.vio Model/Limiter.vio Proofs/LimiterProofs.vio
Props/C09.vos Props/C09.vok Props/C09.required_vos: Props/C09.v Base/Prelude.vos Model/Limiter.vos Proofs/LimiterProofs.vos
Props/C07.vo Props/C07.glob Props/C07.v.beautified Props/C07.required_vo: Props/C07.v Base/Prelude.vo Model/Breaker.vo Proofs/BreakerProofs.vo
Props/C07.vio: Props/C07.v Base/Prelude.vio Model/Breaker.vio Proofs/BreakerProofs.vio
Props/C07.vos Props/C07.vok Props/C07.required_vos: Props/C07.v Base/Prelude.vos Model/Breaker.vos Proofs/BreakerProofs.vos
Props/C08.vo Props/C08.glob Props/C08.v.beautified Props/C08.required_vo: Props/C08.v Base/Prelude.vo Model/Breaker.vo Proofs/BreakerProofs.vo
Props/C08.vio: Props/C08.v Base/Prelude.vio Model/Breaker.vio Proofs/BreakerProofs.vio
Props/C08.vos Props/C08.vok Props/C08.required_vos: Props/C08.v Base/Prelude.vos Model/Breaker.vos Proofs/BreakerProofs.vos
