Base/Prelude.vo Base/Prelude.glob Base/Prelude.v.beautified Base/Prelude.required_vo: Base/Prelude.v 
Base/Prelude.vio: Base/Prelude.v 
Base/Prelude.vos Base/Prelude.vok Base/Prelude.required_vos: Base/Prelude.v 
Model/Limiter.vo Model/Limiter.glob Model/Limiter.v.beautified Model/Limiter.required_vo: Model/Limiter.v Base/Prelude.vo
Model/Limiter.vio: Model/Limiter.v Base/Prelude.vio
Model/Limiter.vos Model/Limiter.vok Model/Limiter.required_vos: Model/Limiter.v Base/Prelude.vos
Proofs/LimiterProofs.vo Proofs/LimiterProofs.glob Proofs/LimiterProofs.v.beautified Proofs/LimiterProofs.required_vo: Proofs/LimiterProofs.v Base/Prelude.vo Model/Limiter.vo
Proofs/LimiterProofs.vio: Proofs/LimiterProofs.v Base/Prelude.vio Model/Limiter.vio
Proofs/LimiterProofs.vos Proofs/LimiterProofs.vok Proofs/LimiterProofs.required_vos: Proofs/LimiterProofs.v Base/Prelude.vos Model/Limiter.vos
Cases/LimiterCase.vo Cases/LimiterCase.glob Cases/LimiterCase.v.beautified Cases/LimiterCase.required_vo: Cases/LimiterCase.v Base/Prelude.vo Model/Limiter.vo
Cases/LimiterCase.vio: Cases/LimiterCase.v Base/Prelude.vio Model/Limiter.vio
Cases/LimiterCase.vos Cases/LimiterCase.vok Cases/LimiterCase.required_vos: Cases/LimiterCase.v Base/Prelude.vos Model/Limiter.vos
Props/C09.vo Props/C09.glob Props/C09.v.beautified Props/C09.required_vo: Props/C09.v Base/Prelude.vo Model/Limiter.vo Proofs/LimiterProofs.vo
Props/C09.vio: Props/C09.v Base/Prelude.vio Model/Limiter.vio Proofs/LimiterProofs.vio
Props/C09.vos Props/C09.vok Props/C09.required_vos: Props/C09.v Base/Prelude.vos Model/Limiter.vos Proofs/LimiterProofs.vos
