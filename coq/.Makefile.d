Base/Prelude.vo Base/Prelude.glob Base/Prelude.v.beautified Base/Prelude.required_vo: Base/Prelude.v 
Base/Prelude.vio: Base/Prelude.v 
Base/Prelude.vos Base/Prelude.vok Base/Prelude.required_vos: Base/Prelude.v 
Base/Wrap.vo Base/Wrap.glob Base/Wrap.v.beautified Base/Wrap.required_vo: Base/Wrap.v 
Base/Wrap.vio: Base/Wrap.v 
Base/Wrap.vos Base/Wrap.vok Base/Wrap.required_vos: Base/Wrap.v 
Base/Bytes.vo Base/Bytes.glob Base/Bytes.v.beautified Base/Bytes.required_vo: Base/Bytes.v Base/Prelude.vo
Base/Bytes.vio: Base/Bytes.v Base/Prelude.vio
Base/Bytes.vos Base/Bytes.vok Base/Bytes.required_vos: Base/Bytes.v Base/Prelude.vos
Gen/JumpGen.vo Gen/JumpGen.glob Gen/JumpGen.v.beautified Gen/JumpGen.required_vo: Gen/JumpGen.v Base/Wrap.vo
Gen/JumpGen.vio: Gen/JumpGen.v Base/Wrap.vio
Gen/JumpGen.vos Gen/JumpGen.vok Gen/JumpGen.required_vos: Gen/JumpGen.v Base/Wrap.vos
Gen/Wrappers.vo Gen/Wrappers.glob Gen/Wrappers.v.beautified Gen/Wrappers.required_vo: Gen/Wrappers.v 
Gen/Wrappers.vio: Gen/Wrappers.v 
Gen/Wrappers.vos Gen/Wrappers.vok Gen/Wrappers.required_vos: Gen/Wrappers.v 
Gen/ProxyFacts.vo Gen/ProxyFacts.glob Gen/ProxyFacts.v.beautified Gen/ProxyFacts.required_vo: Gen/ProxyFacts.v 
Gen/ProxyFacts.vio: Gen/ProxyFacts.v 
Gen/ProxyFacts.vos Gen/ProxyFacts.vok Gen/ProxyFacts.required_vos: Gen/ProxyFacts.v 
Gen/ConfigGen.vo Gen/ConfigGen.glob Gen/ConfigGen.v.beautified Gen/ConfigGen.required_vo: Gen/ConfigGen.v 
Gen/ConfigGen.vio: Gen/ConfigGen.v 
Gen/ConfigGen.vos Gen/ConfigGen.vok Gen/ConfigGen.required_vos: Gen/ConfigGen.v 
Gen/Access.vo Gen/Access.glob Gen/Access.v.beautified Gen/Access.required_vo: Gen/Access.v 
Gen/Access.vio: Gen/Access.v 
Gen/Access.vos Gen/Access.vok Gen/Access.required_vos: Gen/Access.v 
Model/Limiter.vo Model/Limiter.glob Model/Limiter.v.beautified Model/Limiter.required_vo: Model/Limiter.v Base/Prelude.vo
Model/Limiter.vio: Model/Limiter.v Base/Prelude.vio
Model/Limiter.vos Model/Limiter.vok Model/Limiter.required_vos: Model/Limiter.v Base/Prelude.vos
Model/Breaker.vo Model/Breaker.glob Model/Breaker.v.beautified Model/Breaker.required_vo: Model/Breaker.v Base/Prelude.vo
Model/Breaker.vio: Model/Breaker.v Base/Prelude.vio
Model/Breaker.vos Model/Breaker.vok Model/Breaker.required_vos: Model/Breaker.v Base/Prelude.vos
Model/Hash.vo Model/Hash.glob Model/Hash.v.beautified Model/Hash.required_vo: Model/Hash.v Base/Prelude.vo Base/Wrap.vo Gen/JumpGen.vo
Model/Hash.vio: Model/Hash.v Base/Prelude.vio Base/Wrap.vio Gen/JumpGen.vio
Model/Hash.vos Model/Hash.vok Model/Hash.required_vos: Model/Hash.v Base/Prelude.vos Base/Wrap.vos Gen/JumpGen.vos
Model/Strategy.vo Model/Strategy.glob Model/Strategy.v.beautified Model/Strategy.required_vo: Model/Strategy.v Base/Prelude.vo Base/Wrap.vo Model/Hash.vo
Model/Strategy.vio: Model/Strategy.v Base/Prelude.vio Base/Wrap.vio Model/Hash.vio
Model/Strategy.vos Model/Strategy.vok Model/Strategy.required_vos: Model/Strategy.v Base/Prelude.vos Base/Wrap.vos Model/Hash.vos
Model/ClientIP.vo Model/ClientIP.glob Model/ClientIP.v.beautified Model/ClientIP.required_vo: Model/ClientIP.v Base/Prelude.vo Base/Bytes.vo Model/Hash.vo Model/Strategy.vo
Model/ClientIP.vio: Model/ClientIP.v Base/Prelude.vio Base/Bytes.vio Model/Hash.vio Model/Strategy.vio
Model/ClientIP.vos Model/ClientIP.vok Model/ClientIP.required_vos: Model/ClientIP.v Base/Prelude.vos Base/Bytes.vos Model/Hash.vos Model/Strategy.vos
Model/LB.vo Model/LB.glob Model/LB.v.beautified Model/LB.required_vo: Model/LB.v Base/Prelude.vo Base/Wrap.vo Base/Bytes.vo Model/Hash.vo Model/Strategy.vo Model/ClientIP.vo Model/Limiter.vo Model/Breaker.vo
Model/LB.vio: Model/LB.v Base/Prelude.vio Base/Wrap.vio Base/Bytes.vio Model/Hash.vio Model/Strategy.vio Model/ClientIP.vio Model/Limiter.vio Model/Breaker.vio
Model/LB.vos Model/LB.vok Model/LB.required_vos: Model/LB.v Base/Prelude.vos Base/Wrap.vos Base/Bytes.vos Model/Hash.vos Model/Strategy.vos Model/ClientIP.vos Model/Limiter.vos Model/Breaker.vos
Model/Admin.vo Model/Admin.glob Model/Admin.v.beautified Model/Admin.required_vo: Model/Admin.v Base/Prelude.vo Base/Bytes.vo Model/Strategy.vo Model/LB.vo
Model/Admin.vio: Model/Admin.v Base/Prelude.vio Base/Bytes.vio Model/Strategy.vio Model/LB.vio
Model/Admin.vos Model/Admin.vok Model/Admin.required_vos: Model/Admin.v Base/Prelude.vos Base/Bytes.vos Model/Strategy.vos Model/LB.vos
Model/RespWriter.vo Model/RespWriter.glob Model/RespWriter.v.beautified Model/RespWriter.required_vo: Model/RespWriter.v Base/Prelude.vo
Model/RespWriter.vio: Model/RespWriter.v Base/Prelude.vio
Model/RespWriter.vos Model/RespWriter.vok Model/RespWriter.required_vos: Model/RespWriter.v Base/Prelude.vos
Model/Proxy.vo Model/Proxy.glob Model/Proxy.v.beautified Model/Proxy.required_vo: Model/Proxy.v Base/Prelude.vo Base/Bytes.vo
Model/Proxy.vio: Model/Proxy.v Base/Prelude.vio Base/Bytes.vio
Model/Proxy.vos Model/Proxy.vok Model/Proxy.required_vos: Model/Proxy.v Base/Prelude.vos Base/Bytes.vos
Model/Chain.vo Model/Chain.glob Model/Chain.v.beautified Model/Chain.required_vo: Model/Chain.v Base/Prelude.vo Base/Bytes.vo
Model/Chain.vio: Model/Chain.v Base/Prelude.vio Base/Bytes.vio
Model/Chain.vos Model/Chain.vok Model/Chain.required_vos: Model/Chain.v Base/Prelude.vos Base/Bytes.vos
Model/ConfigSpec.vo Model/ConfigSpec.glob Model/ConfigSpec.v.beautified Model/ConfigSpec.required_vo: Model/ConfigSpec.v Gen/ConfigGen.vo
Model/ConfigSpec.vio: Model/ConfigSpec.v Gen/ConfigGen.vio
Model/ConfigSpec.vos Model/ConfigSpec.vok Model/ConfigSpec.required_vos: Model/ConfigSpec.v Gen/ConfigGen.vos
Model/WSPool.vo Model/WSPool.glob Model/WSPool.v.beautified Model/WSPool.required_vo: Model/WSPool.v Base/Prelude.vo
Model/WSPool.vio: Model/WSPool.v Base/Prelude.vio
Model/WSPool.vos Model/WSPool.vok Model/WSPool.required_vos: Model/WSPool.v Base/Prelude.vos
Model/Shutdown.vo Model/Shutdown.glob Model/Shutdown.v.beautified Model/Shutdown.required_vo: Model/Shutdown.v Base/Prelude.vo
Model/Shutdown.vio: Model/Shutdown.v Base/Prelude.vio
Model/Shutdown.vos Model/Shutdown.vok Model/Shutdown.required_vos: Model/Shutdown.v Base/Prelude.vos
Model/Lockset.vo Model/Lockset.glob Model/Lockset.v.beautified Model/Lockset.required_vo: Model/Lockset.v 
Model/Lockset.vio: Model/Lockset.v 
Model/Lockset.vos Model/Lockset.vok Model/Lockset.required_vos: Model/Lockset.v 
Model/Conc.vo Model/Conc.glob Model/Conc.v.beautified Model/Conc.required_vo: Model/Conc.v Base/Prelude.vo Base/Wrap.vo Base/Bytes.vo Model/Hash.vo Model/Strategy.vo
Model/Conc.vio: Model/Conc.v Base/Prelude.vio Base/Wrap.vio Base/Bytes.vio Model/Hash.vio Model/Strategy.vio
Model/Conc.vos Model/Conc.vok Model/Conc.required_vos: Model/Conc.v Base/Prelude.vos Base/Wrap.vos Base/Bytes.vos Model/Hash.vos Model/Strategy.vos
Proofs/LimiterProofs.vo Proofs/LimiterProofs.glob Proofs/LimiterProofs.v.beautified Proofs/LimiterProofs.required_vo: Proofs/LimiterProofs.v Base/Prelude.vo Model/Limiter.vo
Proofs/LimiterProofs.vio: Proofs/LimiterProofs.v Base/Prelude.vio Model/Limiter.vio
Proofs/LimiterProofs.vos Proofs/LimiterProofs.vok Proofs/LimiterProofs.required_vos: Proofs/LimiterProofs.v Base/Prelude.vos Model/Limiter.vos
Proofs/BreakerProofs.vo Proofs/BreakerProofs.glob Proofs/BreakerProofs.v.beautified Proofs/BreakerProofs.required_vo: Proofs/BreakerProofs.v Base/Prelude.vo Model/Breaker.vo
Proofs/BreakerProofs.vio: Proofs/BreakerProofs.v Base/Prelude.vio Model/Breaker.vio
Proofs/BreakerProofs.vos Proofs/BreakerProofs.vok Proofs/BreakerProofs.required_vos: Proofs/BreakerProofs.v Base/Prelude.vos Model/Breaker.vos
Proofs/HashProofs.vo Proofs/HashProofs.glob Proofs/HashProofs.v.beautified Proofs/HashProofs.required_vo: Proofs/HashProofs.v Base/Prelude.vo Base/Wrap.vo Gen/JumpGen.vo Model/Hash.vo
Proofs/HashProofs.vio: Proofs/HashProofs.v Base/Prelude.vio Base/Wrap.vio Gen/JumpGen.vio Model/Hash.vio
Proofs/HashProofs.vos Proofs/HashProofs.vok Proofs/HashProofs.required_vos: Proofs/HashProofs.v Base/Prelude.vos Base/Wrap.vos Gen/JumpGen.vos Model/Hash.vos
Proofs/StrategyProofs.vo Proofs/StrategyProofs.glob Proofs/StrategyProofs.v.beautified Proofs/StrategyProofs.required_vo: Proofs/StrategyProofs.v Base/Prelude.vo Base/Wrap.vo Model/Hash.vo Model/Strategy.vo Proofs/HashProofs.vo
Proofs/StrategyProofs.vio: Proofs/StrategyProofs.v Base/Prelude.vio Base/Wrap.vio Model/Hash.vio Model/Strategy.vio Proofs/HashProofs.vio
Proofs/StrategyProofs.vos Proofs/StrategyProofs.vok Proofs/StrategyProofs.required_vos: Proofs/StrategyProofs.v Base/Prelude.vos Base/Wrap.vos Model/Hash.vos Model/Strategy.vos Proofs/HashProofs.vos
Proofs/LBProofs.vo Proofs/LBProofs.glob Proofs/LBProofs.v.beautified Proofs/LBProofs.required_vo: Proofs/LBProofs.v Base/Prelude.vo Base/Wrap.vo Base/Bytes.vo Model/Hash.vo Model/Strategy.vo Model/ClientIP.vo Model/Limiter.vo Model/Breaker.vo Model/LB.vo Proofs/StrategyProofs.vo
Proofs/LBProofs.vio: Proofs/LBProofs.v Base/Prelude.vio Base/Wrap.vio Base/Bytes.vio Model/Hash.vio Model/Strategy.vio Model/ClientIP.vio Model/Limiter.vio Model/Breaker.vio Model/LB.vio Proofs/StrategyProofs.vio
Proofs/LBProofs.vos Proofs/LBProofs.vok Proofs/LBProofs.required_vos: Proofs/LBProofs.v Base/Prelude.vos Base/Wrap.vos Base/Bytes.vos Model/Hash.vos Model/Strategy.vos Model/ClientIP.vos Model/Limiter.vos Model/Breaker.vos Model/LB.vos Proofs/StrategyProofs.vos
Proofs/FailoverProofs.vo Proofs/FailoverProofs.glob Proofs/FailoverProofs.v.beautified Proofs/FailoverProofs.required_vo: Proofs/FailoverProofs.v Base/Prelude.vo Base/Wrap.vo Base/Bytes.vo Model/Hash.vo Model/Strategy.vo Model/ClientIP.vo Model/Limiter.vo Model/Breaker.vo Model/LB.vo Proofs/StrategyProofs.vo Proofs/LBProofs.vo
Proofs/FailoverProofs.vio: Proofs/FailoverProofs.v Base/Prelude.vio Base/Wrap.vio Base/Bytes.vio Model/Hash.vio Model/Strategy.vio Model/ClientIP.vio Model/Limiter.vio Model/Breaker.vio Model/LB.vio Proofs/StrategyProofs.vio Proofs/LBProofs.vio
Proofs/FailoverProofs.vos Proofs/FailoverProofs.vok Proofs/FailoverProofs.required_vos: Proofs/FailoverProofs.v Base/Prelude.vos Base/Wrap.vos Base/Bytes.vos Model/Hash.vos Model/Strategy.vos Model/ClientIP.vos Model/Limiter.vos Model/Breaker.vos Model/LB.vos Proofs/StrategyProofs.vos Proofs/LBProofs.vos
Proofs/AccountingProofs.vo Proofs/AccountingProofs.glob Proofs/AccountingProofs.v.beautified Proofs/AccountingProofs.required_vo: Proofs/AccountingProofs.v Base/Prelude.vo Base/Wrap.vo Base/Bytes.vo Model/Hash.vo Model/Strategy.vo Model/ClientIP.vo Model/Limiter.vo Model/Breaker.vo Model/LB.vo Proofs/StrategyProofs.vo Proofs/LBProofs.vo Proofs/FailoverProofs.vo
Proofs/AccountingProofs.vio: Proofs/AccountingProofs.v Base/Prelude.vio Base/Wrap.vio Base/Bytes.vio Model/Hash.vio Model/Strategy.vio Model/ClientIP.vio Model/Limiter.vio Model/Breaker.vio Model/LB.vio Proofs/StrategyProofs.vio Proofs/LBProofs.vio Proofs/FailoverProofs.vio
Proofs/AccountingProofs.vos Proofs/AccountingProofs.vok Proofs/AccountingProofs.required_vos: Proofs/AccountingProofs.v Base/Prelude.vos Base/Wrap.vos Base/Bytes.vos Model/Hash.vos Model/Strategy.vos Model/ClientIP.vos Model/Limiter.vos Model/Breaker.vos Model/LB.vos Proofs/StrategyProofs.vos Proofs/LBProofs.vos Proofs/FailoverProofs.vos
Proofs/PickFlipProofs.vo Proofs/PickFlipProofs.glob Proofs/PickFlipProofs.v.beautified Proofs/PickFlipProofs.required_vo: Proofs/PickFlipProofs.v Base/Prelude.vo Base/Wrap.vo Base/Bytes.vo Model/Hash.vo Model/Strategy.vo Model/ClientIP.vo Model/Limiter.vo Model/Breaker.vo Model/LB.vo Model/Conc.vo Proofs/StrategyProofs.vo Proofs/LBProofs.vo Proofs/FailoverProofs.vo Proofs/ConcProofs.vo
Proofs/PickFlipProofs.vio: Proofs/PickFlipProofs.v Base/Prelude.vio Base/Wrap.vio Base/Bytes.vio Model/Hash.vio Model/Strategy.vio Model/ClientIP.vio Model/Limiter.vio Model/Breaker.vio Model/LB.vio Model/Conc.vio Proofs/StrategyProofs.vio Proofs/LBProofs.vio Proofs/FailoverProofs.vio Proofs/ConcProofs.vio
Proofs/PickFlipProofs.vos Proofs/PickFlipProofs.vok Proofs/PickFlipProofs.required_vos: Proofs/PickFlipProofs.v Base/Prelude.vos Base/Wrap.vos Base/Bytes.vos Model/Hash.vos Model/Strategy.vos Model/ClientIP.vos Model/Limiter.vos Model/Breaker.vos Model/LB.vos Model/Conc.vos Proofs/StrategyProofs.vos Proofs/LBProofs.vos Proofs/FailoverProofs.vos Proofs/ConcProofs.vos
Proofs/AdminProofs.vo Proofs/AdminProofs.glob Proofs/AdminProofs.v.beautified Proofs/AdminProofs.required_vo: Proofs/AdminProofs.v Base/Prelude.vo Base/Bytes.vo Model/Strategy.vo Model/LB.vo Model/Admin.vo
Proofs/AdminProofs.vio: Proofs/AdminProofs.v Base/Prelude.vio Base/Bytes.vio Model/Strategy.vio Model/LB.vio Model/Admin.vio
Proofs/AdminProofs.vos Proofs/AdminProofs.vok Proofs/AdminProofs.required_vos: Proofs/AdminProofs.v Base/Prelude.vos Base/Bytes.vos Model/Strategy.vos Model/LB.vos Model/Admin.vos
Proofs/WriterProofs.vo Proofs/WriterProofs.glob Proofs/WriterProofs.v.beautified Proofs/WriterProofs.required_vo: Proofs/WriterProofs.v Base/Prelude.vo Model/RespWriter.vo
Proofs/WriterProofs.vio: Proofs/WriterProofs.v Base/Prelude.vio Model/RespWriter.vio
Proofs/WriterProofs.vos Proofs/WriterProofs.vok Proofs/WriterProofs.required_vos: Proofs/WriterProofs.v Base/Prelude.vos Model/RespWriter.vos
Proofs/ProxyProofs.vo Proofs/ProxyProofs.glob Proofs/ProxyProofs.v.beautified Proofs/ProxyProofs.required_vo: Proofs/ProxyProofs.v Base/Prelude.vo Base/Bytes.vo Model/Proxy.vo Gen/Wrappers.vo Gen/ProxyFacts.vo
Proofs/ProxyProofs.vio: Proofs/ProxyProofs.v Base/Prelude.vio Base/Bytes.vio Model/Proxy.vio Gen/Wrappers.vio Gen/ProxyFacts.vio
Proofs/ProxyProofs.vos Proofs/ProxyProofs.vok Proofs/ProxyProofs.required_vos: Proofs/ProxyProofs.v Base/Prelude.vos Base/Bytes.vos Model/Proxy.vos Gen/Wrappers.vos Gen/ProxyFacts.vos
Proofs/ChainProofs.vo Proofs/ChainProofs.glob Proofs/ChainProofs.v.beautified Proofs/ChainProofs.required_vo: Proofs/ChainProofs.v Base/Prelude.vo Base/Bytes.vo Model/Chain.vo
Proofs/ChainProofs.vio: Proofs/ChainProofs.v Base/Prelude.vio Base/Bytes.vio Model/Chain.vio
Proofs/ChainProofs.vos Proofs/ChainProofs.vok Proofs/ChainProofs.required_vos: Proofs/ChainProofs.v Base/Prelude.vos Base/Bytes.vos Model/Chain.vos
Proofs/ConfigProofs.vo Proofs/ConfigProofs.glob Proofs/ConfigProofs.v.beautified Proofs/ConfigProofs.required_vo: Proofs/ConfigProofs.v Gen/ConfigGen.vo Model/ConfigSpec.vo
Proofs/ConfigProofs.vio: Proofs/ConfigProofs.v Gen/ConfigGen.vio Model/ConfigSpec.vio
Proofs/ConfigProofs.vos Proofs/ConfigProofs.vok Proofs/ConfigProofs.required_vos: Proofs/ConfigProofs.v Gen/ConfigGen.vos Model/ConfigSpec.vos
Proofs/WSPoolProofs.vo Proofs/WSPoolProofs.glob Proofs/WSPoolProofs.v.beautified Proofs/WSPoolProofs.required_vo: Proofs/WSPoolProofs.v Base/Prelude.vo Model/WSPool.vo
Proofs/WSPoolProofs.vio: Proofs/WSPoolProofs.v Base/Prelude.vio Model/WSPool.vio
Proofs/WSPoolProofs.vos Proofs/WSPoolProofs.vok Proofs/WSPoolProofs.required_vos: Proofs/WSPoolProofs.v Base/Prelude.vos Model/WSPool.vos
Proofs/ShutdownProofs.vo Proofs/ShutdownProofs.glob Proofs/ShutdownProofs.v.beautified Proofs/ShutdownProofs.required_vo: Proofs/ShutdownProofs.v Base/Prelude.vo Model/Shutdown.vo
Proofs/ShutdownProofs.vio: Proofs/ShutdownProofs.v Base/Prelude.vio Model/Shutdown.vio
Proofs/ShutdownProofs.vos Proofs/ShutdownProofs.vok Proofs/ShutdownProofs.required_vos: Proofs/ShutdownProofs.v Base/Prelude.vos Model/Shutdown.vos
Proofs/LocksetProofs.vo Proofs/LocksetProofs.glob Proofs/LocksetProofs.v.beautified Proofs/LocksetProofs.required_vo: Proofs/LocksetProofs.v Model/Lockset.vo
Proofs/LocksetProofs.vio: Proofs/LocksetProofs.v Model/Lockset.vio
Proofs/LocksetProofs.vos Proofs/LocksetProofs.vok Proofs/LocksetProofs.required_vos: Proofs/LocksetProofs.v Model/Lockset.vos
Proofs/ConcProofs.vo Proofs/ConcProofs.glob Proofs/ConcProofs.v.beautified Proofs/ConcProofs.required_vo: Proofs/ConcProofs.v Base/Prelude.vo Model/Conc.vo
Proofs/ConcProofs.vio: Proofs/ConcProofs.v Base/Prelude.vio Model/Conc.vio
Proofs/ConcProofs.vos Proofs/ConcProofs.vok Proofs/ConcProofs.required_vos: Proofs/ConcProofs.v Base/Prelude.vos Model/Conc.vos
Cases/LimiterCase.vo Cases/LimiterCase.glob Cases/LimiterCase.v.beautified Cases/LimiterCase.required_vo: Cases/LimiterCase.v Base/Prelude.vo Model/Limiter.vo
Cases/LimiterCase.vio: Cases/LimiterCase.v Base/Prelude.vio Model/Limiter.vio
Cases/LimiterCase.vos Cases/LimiterCase.vok Cases/LimiterCase.required_vos: Cases/LimiterCase.v Base/Prelude.vos Model/Limiter.vos
Cases/BreakerCase.vo Cases/BreakerCase.glob Cases/BreakerCase.v.beautified Cases/BreakerCase.required_vo: Cases/BreakerCase.v Base/Prelude.vo Model/Breaker.vo
Cases/BreakerCase.vio: Cases/BreakerCase.v Base/Prelude.vio Model/Breaker.vio
Cases/BreakerCase.vos Cases/BreakerCase.vok Cases/BreakerCase.required_vos: Cases/BreakerCase.v Base/Prelude.vos Model/Breaker.vos
Cases/StrategyCase.vo Cases/StrategyCase.glob Cases/StrategyCase.v.beautified Cases/StrategyCase.required_vo: Cases/StrategyCase.v Base/Prelude.vo Base/Wrap.vo Model/Hash.vo Model/Strategy.vo
Cases/StrategyCase.vio: Cases/StrategyCase.v Base/Prelude.vio Base/Wrap.vio Model/Hash.vio Model/Strategy.vio
Cases/StrategyCase.vos Cases/StrategyCase.vok Cases/StrategyCase.required_vos: Cases/StrategyCase.v Base/Prelude.vos Base/Wrap.vos Model/Hash.vos Model/Strategy.vos
Cases/LBCase.vo Cases/LBCase.glob Cases/LBCase.v.beautified Cases/LBCase.required_vo: Cases/LBCase.v Base/Prelude.vo Base/Wrap.vo Base/Bytes.vo Model/Hash.vo Model/Strategy.vo Model/ClientIP.vo Model/Limiter.vo Model/Breaker.vo Model/LB.vo
Cases/LBCase.vio: Cases/LBCase.v Base/Prelude.vio Base/Wrap.vio Base/Bytes.vio Model/Hash.vio Model/Strategy.vio Model/ClientIP.vio Model/Limiter.vio Model/Breaker.vio Model/LB.vio
Cases/LBCase.vos Cases/LBCase.vok Cases/LBCase.required_vos: Cases/LBCase.v Base/Prelude.vos Base/Wrap.vos Base/Bytes.vos Model/Hash.vos Model/Strategy.vos Model/ClientIP.vos Model/Limiter.vos Model/Breaker.vos Model/LB.vos
Cases/AdminCase.vo Cases/AdminCase.glob Cases/AdminCase.v.beautified Cases/AdminCase.required_vo: Cases/AdminCase.v Base/Prelude.vo Base/Bytes.vo Model/Strategy.vo Model/LB.vo Model/Admin.vo
Cases/AdminCase.vio: Cases/AdminCase.v Base/Prelude.vio Base/Bytes.vio Model/Strategy.vio Model/LB.vio Model/Admin.vio
Cases/AdminCase.vos Cases/AdminCase.vok Cases/AdminCase.required_vos: Cases/AdminCase.v Base/Prelude.vos Base/Bytes.vos Model/Strategy.vos Model/LB.vos Model/Admin.vos
Cases/WriterCase.vo Cases/WriterCase.glob Cases/WriterCase.v.beautified Cases/WriterCase.required_vo: Cases/WriterCase.v Base/Prelude.vo Base/Bytes.vo Model/RespWriter.vo
Cases/WriterCase.vio: Cases/WriterCase.v Base/Prelude.vio Base/Bytes.vio Model/RespWriter.vio
Cases/WriterCase.vos Cases/WriterCase.vok Cases/WriterCase.required_vos: Cases/WriterCase.v Base/Prelude.vos Base/Bytes.vos Model/RespWriter.vos
Cases/WireCase.vo Cases/WireCase.glob Cases/WireCase.v.beautified Cases/WireCase.required_vo: Cases/WireCase.v Base/Prelude.vo Base/Bytes.vo Model/Proxy.vo
Cases/WireCase.vio: Cases/WireCase.v Base/Prelude.vio Base/Bytes.vio Model/Proxy.vio
Cases/WireCase.vos Cases/WireCase.vok Cases/WireCase.required_vos: Cases/WireCase.v Base/Prelude.vos Base/Bytes.vos Model/Proxy.vos
Cases/ChainCase.vo Cases/ChainCase.glob Cases/ChainCase.v.beautified Cases/ChainCase.required_vo: Cases/ChainCase.v Base/Prelude.vo Base/Bytes.vo Model/Chain.vo
Cases/ChainCase.vio: Cases/ChainCase.v Base/Prelude.vio Base/Bytes.vio Model/Chain.vio
Cases/ChainCase.vos Cases/ChainCase.vok Cases/ChainCase.required_vos: Cases/ChainCase.v Base/Prelude.vos Base/Bytes.vos Model/Chain.vos
Cases/ConfigCase.vo Cases/ConfigCase.glob Cases/ConfigCase.v.beautified Cases/ConfigCase.required_vo: Cases/ConfigCase.v Base/Prelude.vo Base/Bytes.vo Gen/ConfigGen.vo Model/ConfigSpec.vo Model/Chain.vo
Cases/ConfigCase.vio: Cases/ConfigCase.v Base/Prelude.vio Base/Bytes.vio Gen/ConfigGen.vio Model/ConfigSpec.vio Model/Chain.vio
Cases/ConfigCase.vos Cases/ConfigCase.vok Cases/ConfigCase.required_vos: Cases/ConfigCase.v Base/Prelude.vos Base/Bytes.vos Gen/ConfigGen.vos Model/ConfigSpec.vos Model/Chain.vos
Cases/WSPoolCase.vo Cases/WSPoolCase.glob Cases/WSPoolCase.v.beautified Cases/WSPoolCase.required_vo: Cases/WSPoolCase.v Base/Prelude.vo Model/WSPool.vo
Cases/WSPoolCase.vio: Cases/WSPoolCase.v Base/Prelude.vio Model/WSPool.vio
Cases/WSPoolCase.vos Cases/WSPoolCase.vok Cases/WSPoolCase.required_vos: Cases/WSPoolCase.v Base/Prelude.vos Model/WSPool.vos
Cases/ProbeCase.vo Cases/ProbeCase.glob Cases/ProbeCase.v.beautified Cases/ProbeCase.required_vo: Cases/ProbeCase.v Base/Prelude.vo Model/Shutdown.vo
Cases/ProbeCase.vio: Cases/ProbeCase.v Base/Prelude.vio Model/Shutdown.vio
Cases/ProbeCase.vos Cases/ProbeCase.vok Cases/ProbeCase.required_vos: Cases/ProbeCase.v Base/Prelude.vos Model/Shutdown.vos
Cases/SchedCase.vo Cases/SchedCase.glob Cases/SchedCase.v.beautified Cases/SchedCase.required_vo: Cases/SchedCase.v Base/Prelude.vo Model/Conc.vo
Cases/SchedCase.vio: Cases/SchedCase.v Base/Prelude.vio Model/Conc.vio
Cases/SchedCase.vos Cases/SchedCase.vok Cases/SchedCase.required_vos: Cases/SchedCase.v Base/Prelude.vos Model/Conc.vos
Props/C09.vo Props/C09.glob Props/C09.v.beautified Props/C09.required_vo: Props/C09.v Base/Prelude.vo Model/Limiter.vo Proofs/LimiterProofs.vo Gen/LimiterGen.vo Proofs/LimiterRefine.vo
Props/C09.vio: Props/C09.v Base/Prelude.vio Model/Limiter.vio Proofs/LimiterProofs.vio Gen/LimiterGen.vio Proofs/LimiterRefine.vio
Props/C09.vos Props/C09.vok Props/C09.required_vos: Props/C09.v Base/Prelude.vos Model/Limiter.vos Proofs/LimiterProofs.vos Gen/LimiterGen.vos Proofs/LimiterRefine.vos
Props/C07.vo Props/C07.glob Props/C07.v.beautified Props/C07.required_vo: Props/C07.v Base/Prelude.vo Model/Breaker.vo Proofs/BreakerProofs.vo Model/Conc.vo Proofs/ConcProofs.vo Gen/BreakerGen.vo Proofs/BreakerRefine.vo
Props/C07.vio: Props/C07.v Base/Prelude.vio Model/Breaker.vio Proofs/BreakerProofs.vio Model/Conc.vio Proofs/ConcProofs.vio Gen/BreakerGen.vio Proofs/BreakerRefine.vio
Props/C07.vos Props/C07.vok Props/C07.required_vos: Props/C07.v Base/Prelude.vos Model/Breaker.vos Proofs/BreakerProofs.vos Model/Conc.vos Proofs/ConcProofs.vos Gen/BreakerGen.vos Proofs/BreakerRefine.vos
Props/C08.vo Props/C08.glob Props/C08.v.beautified Props/C08.required_vo: Props/C08.v Base/Prelude.vo Model/Breaker.vo Proofs/BreakerProofs.vo Gen/BreakerGen.vo Proofs/BreakerRefine.vo
Props/C08.vio: Props/C08.v Base/Prelude.vio Model/Breaker.vio Proofs/BreakerProofs.vio Gen/BreakerGen.vio Proofs/BreakerRefine.vio
Props/C08.vos Props/C08.vok Props/C08.required_vos: Props/C08.v Base/Prelude.vos Model/Breaker.vos Proofs/BreakerProofs.vos Gen/BreakerGen.vos Proofs/BreakerRefine.vos
Props/C06.vo Props/C06.glob Props/C06.v.beautified Props/C06.required_vo: Props/C06.v Model/Conc.vo Proofs/PickFlipProofs.vo Base/Prelude.vo Base/Wrap.vo Model/Hash.vo Model/Strategy.vo Proofs/HashProofs.vo Proofs/StrategyProofs.vo
Props/C06.vio: Props/C06.v Model/Conc.vio Proofs/PickFlipProofs.vio Base/Prelude.vio Base/Wrap.vio Model/Hash.vio Model/Strategy.vio Proofs/HashProofs.vio Proofs/StrategyProofs.vio
Props/C06.vos Props/C06.vok Props/C06.required_vos: Props/C06.v Model/Conc.vos Proofs/PickFlipProofs.vos Base/Prelude.vos Base/Wrap.vos Model/Hash.vos Model/Strategy.vos Proofs/HashProofs.vos Proofs/StrategyProofs.vos
Props/C05.vo Props/C05.glob Props/C05.v.beautified Props/C05.required_vo: Props/C05.v Base/Prelude.vo Base/Wrap.vo Model/Hash.vo Model/Strategy.vo Proofs/StrategyProofs.vo Proofs/WrrBoundProofs.vo Gen/StrategyGen.vo Proofs/StrategyRefine.vo
Props/C05.vio: Props/C05.v Base/Prelude.vio Base/Wrap.vio Model/Hash.vio Model/Strategy.vio Proofs/StrategyProofs.vio Proofs/WrrBoundProofs.vio Gen/StrategyGen.vio Proofs/StrategyRefine.vio
Props/C05.vos Props/C05.vok Props/C05.required_vos: Props/C05.v Base/Prelude.vos Base/Wrap.vos Model/Hash.vos Model/Strategy.vos Proofs/StrategyProofs.vos Proofs/WrrBoundProofs.vos Gen/StrategyGen.vos Proofs/StrategyRefine.vos
Props/C13.vo Props/C13.glob Props/C13.v.beautified Props/C13.required_vo: Props/C13.v Base/Prelude.vo Model/Strategy.vo Model/LB.vo Proofs/LBProofs.vo Proofs/AccountingProofs.vo Gen/BackendGen.vo Proofs/BackendRefine.vo
Props/C13.vio: Props/C13.v Base/Prelude.vio Model/Strategy.vio Model/LB.vio Proofs/LBProofs.vio Proofs/AccountingProofs.vio Gen/BackendGen.vio Proofs/BackendRefine.vio
Props/C13.vos Props/C13.vok Props/C13.required_vos: Props/C13.v Base/Prelude.vos Model/Strategy.vos Model/LB.vos Proofs/LBProofs.vos Proofs/AccountingProofs.vos Gen/BackendGen.vos Proofs/BackendRefine.vos
Props/C11.vo Props/C11.glob Props/C11.v.beautified Props/C11.required_vo: Props/C11.v Base/Prelude.vo Model/Strategy.vo Model/LB.vo Proofs/LBProofs.vo Model/Conc.vo Proofs/ConcProofs.vo Proofs/ListingProofs.vo
Props/C11.vio: Props/C11.v Base/Prelude.vio Model/Strategy.vio Model/LB.vio Proofs/LBProofs.vio Model/Conc.vio Proofs/ConcProofs.vio Proofs/ListingProofs.vio
Props/C11.vos Props/C11.vok Props/C11.required_vos: Props/C11.v Base/Prelude.vos Model/Strategy.vos Model/LB.vos Proofs/LBProofs.vos Model/Conc.vos Proofs/ConcProofs.vos Proofs/ListingProofs.vos
Props/C02.vo Props/C02.glob Props/C02.v.beautified Props/C02.required_vo: Props/C02.v Base/Prelude.vo Base/Wrap.vo Model/Hash.vo Model/Strategy.vo Model/LB.vo Proofs/StrategyProofs.vo Proofs/LBProofs.vo Proofs/FailoverProofs.vo Gen/StrategyGen.vo Proofs/StrategyRefine.vo Gen/HealthGen.vo Proofs/HealthRefine.vo
Props/C02.vio: Props/C02.v Base/Prelude.vio Base/Wrap.vio Model/Hash.vio Model/Strategy.vio Model/LB.vio Proofs/StrategyProofs.vio Proofs/LBProofs.vio Proofs/FailoverProofs.vio Gen/StrategyGen.vio Proofs/StrategyRefine.vio Gen/HealthGen.vio Proofs/HealthRefine.vio
Props/C02.vos Props/C02.vok Props/C02.required_vos: Props/C02.v Base/Prelude.vos Base/Wrap.vos Model/Hash.vos Model/Strategy.vos Model/LB.vos Proofs/StrategyProofs.vos Proofs/LBProofs.vos Proofs/FailoverProofs.vos Gen/StrategyGen.vos Proofs/StrategyRefine.vos Gen/HealthGen.vos Proofs/HealthRefine.vos
Props/C04.vo Props/C04.glob Props/C04.v.beautified Props/C04.required_vo: Props/C04.v Base/Prelude.vo Model/Strategy.vo Model/LB.vo Proofs/LBProofs.vo Model/Shutdown.vo Proofs/ShutdownProofs.vo Model/Conc.vo Proofs/ConcProofs.vo Gen/HealthGen.vo Proofs/HealthRefine.vo
Props/C04.vio: Props/C04.v Base/Prelude.vio Model/Strategy.vio Model/LB.vio Proofs/LBProofs.vio Model/Shutdown.vio Proofs/ShutdownProofs.vio Model/Conc.vio Proofs/ConcProofs.vio Gen/HealthGen.vio Proofs/HealthRefine.vio
Props/C04.vos Props/C04.vok Props/C04.required_vos: Props/C04.v Base/Prelude.vos Model/Strategy.vos Model/LB.vos Proofs/LBProofs.vos Model/Shutdown.vos Proofs/ShutdownProofs.vos Model/Conc.vos Proofs/ConcProofs.vos Gen/HealthGen.vos Proofs/HealthRefine.vos
Props/C03.vo Props/C03.glob Props/C03.v.beautified Props/C03.required_vo: Props/C03.v Base/Prelude.vo Model/Strategy.vo Model/LB.vo Proofs/LBProofs.vo
Props/C03.vio: Props/C03.v Base/Prelude.vio Model/Strategy.vio Model/LB.vio Proofs/LBProofs.vio
Props/C03.vos Props/C03.vok Props/C03.required_vos: Props/C03.v Base/Prelude.vos Model/Strategy.vos Model/LB.vos Proofs/LBProofs.vos
Props/C10.vo Props/C10.glob Props/C10.v.beautified Props/C10.required_vo: Props/C10.v Base/Prelude.vo Base/Bytes.vo Model/Strategy.vo Model/LB.vo Model/Admin.vo Proofs/AdminProofs.vo
Props/C10.vio: Props/C10.v Base/Prelude.vio Base/Bytes.vio Model/Strategy.vio Model/LB.vio Model/Admin.vio Proofs/AdminProofs.vio
Props/C10.vos Props/C10.vok Props/C10.required_vos: Props/C10.v Base/Prelude.vos Base/Bytes.vos Model/Strategy.vos Model/LB.vos Model/Admin.vos Proofs/AdminProofs.vos
Props/C14.vo Props/C14.glob Props/C14.v.beautified Props/C14.required_vo: Props/C14.v Base/Prelude.vo Model/RespWriter.vo Proofs/WriterProofs.vo Proofs/GzipProofs.vo Proofs/SizeLimitProofs.vo Gen/SizeLimitGen.vo Proofs/SizeLimitRefine.vo
Props/C14.vio: Props/C14.v Base/Prelude.vio Model/RespWriter.vio Proofs/WriterProofs.vio Proofs/GzipProofs.vio Proofs/SizeLimitProofs.vio Gen/SizeLimitGen.vio Proofs/SizeLimitRefine.vio
Props/C14.vos Props/C14.vok Props/C14.required_vos: Props/C14.v Base/Prelude.vos Model/RespWriter.vos Proofs/WriterProofs.vos Proofs/GzipProofs.vos Proofs/SizeLimitProofs.vos Gen/SizeLimitGen.vos Proofs/SizeLimitRefine.vos
Props/C15.vo Props/C15.glob Props/C15.v.beautified Props/C15.required_vo: Props/C15.v Base/Prelude.vo Model/RespWriter.vo Proofs/WriterProofs.vo Proofs/GzipProofs.vo Gen/GzipGen.vo Proofs/GzipRefine.vo
Props/C15.vio: Props/C15.v Base/Prelude.vio Model/RespWriter.vio Proofs/WriterProofs.vio Proofs/GzipProofs.vio Gen/GzipGen.vio Proofs/GzipRefine.vio
Props/C15.vos Props/C15.vok Props/C15.required_vos: Props/C15.v Base/Prelude.vos Model/RespWriter.vos Proofs/WriterProofs.vos Proofs/GzipProofs.vos Gen/GzipGen.vos Proofs/GzipRefine.vos
Props/C16.vo Props/C16.glob Props/C16.v.beautified Props/C16.required_vo: Props/C16.v Base/Prelude.vo Base/Bytes.vo Model/Proxy.vo Proofs/ProxyProofs.vo
Props/C16.vio: Props/C16.v Base/Prelude.vio Base/Bytes.vio Model/Proxy.vio Proofs/ProxyProofs.vio
Props/C16.vos Props/C16.vok Props/C16.required_vos: Props/C16.v Base/Prelude.vos Base/Bytes.vos Model/Proxy.vos Proofs/ProxyProofs.vos
Props/C01.vo Props/C01.glob Props/C01.v.beautified Props/C01.required_vo: Props/C01.v Base/Prelude.vo Base/Bytes.vo Model/Proxy.vo Proofs/ProxyProofs.vo Gen/Wrappers.vo Gen/ProxyFacts.vo
Props/C01.vio: Props/C01.v Base/Prelude.vio Base/Bytes.vio Model/Proxy.vio Proofs/ProxyProofs.vio Gen/Wrappers.vio Gen/ProxyFacts.vio
Props/C01.vos Props/C01.vok Props/C01.required_vos: Props/C01.v Base/Prelude.vos Base/Bytes.vos Model/Proxy.vos Proofs/ProxyProofs.vos Gen/Wrappers.vos Gen/ProxyFacts.vos
Props/C17.vo Props/C17.glob Props/C17.v.beautified Props/C17.required_vo: Props/C17.v Base/Prelude.vo Base/Bytes.vo Model/Chain.vo Proofs/ChainProofs.vo Model/Proxy.vo Proofs/ProxyProofs.vo
Props/C17.vio: Props/C17.v Base/Prelude.vio Base/Bytes.vio Model/Chain.vio Proofs/ChainProofs.vio Model/Proxy.vio Proofs/ProxyProofs.vio
Props/C17.vos Props/C17.vok Props/C17.required_vos: Props/C17.v Base/Prelude.vos Base/Bytes.vos Model/Chain.vos Proofs/ChainProofs.vos Model/Proxy.vos Proofs/ProxyProofs.vos
Props/C18.vo Props/C18.glob Props/C18.v.beautified Props/C18.required_vo: Props/C18.v Gen/ConfigGen.vo Model/ConfigSpec.vo Proofs/ConfigProofs.vo Base/Bytes.vo Model/Chain.vo
Props/C18.vio: Props/C18.v Gen/ConfigGen.vio Model/ConfigSpec.vio Proofs/ConfigProofs.vio Base/Bytes.vio Model/Chain.vio
Props/C18.vos Props/C18.vok Props/C18.required_vos: Props/C18.v Gen/ConfigGen.vos Model/ConfigSpec.vos Proofs/ConfigProofs.vos Base/Bytes.vos Model/Chain.vos
Props/C20.vo Props/C20.glob Props/C20.v.beautified Props/C20.required_vo: Props/C20.v Base/Prelude.vo Model/WSPool.vo Proofs/WSPoolProofs.vo Proofs/ProxyProofs.vo Gen/Wrappers.vo
Props/C20.vio: Props/C20.v Base/Prelude.vio Model/WSPool.vio Proofs/WSPoolProofs.vio Proofs/ProxyProofs.vio Gen/Wrappers.vio
Props/C20.vos Props/C20.vok Props/C20.required_vos: Props/C20.v Base/Prelude.vos Model/WSPool.vos Proofs/WSPoolProofs.vos Proofs/ProxyProofs.vos Gen/Wrappers.vos
Props/C19.vo Props/C19.glob Props/C19.v.beautified Props/C19.required_vo: Props/C19.v Base/Prelude.vo Model/Shutdown.vo Proofs/ShutdownProofs.vo Model/WSPool.vo Proofs/WSPoolProofs.vo
Props/C19.vio: Props/C19.v Base/Prelude.vio Model/Shutdown.vio Proofs/ShutdownProofs.vio Model/WSPool.vio Proofs/WSPoolProofs.vio
Props/C19.vos Props/C19.vok Props/C19.required_vos: Props/C19.v Base/Prelude.vos Model/Shutdown.vos Proofs/ShutdownProofs.vos Model/WSPool.vos Proofs/WSPoolProofs.vos
Props/C12.vo Props/C12.glob Props/C12.v.beautified Props/C12.required_vo: Props/C12.v Gen/Access.vo Model/Lockset.vo Proofs/LocksetProofs.vo
Props/C12.vio: Props/C12.v Gen/Access.vio Model/Lockset.vio Proofs/LocksetProofs.vio
Props/C12.vos Props/C12.vok Props/C12.required_vos: Props/C12.v Gen/Access.vos Model/Lockset.vos Proofs/LocksetProofs.vos
Gen/BreakerGen.vo Gen/BreakerGen.glob Gen/BreakerGen.v.beautified Gen/BreakerGen.required_vo: Gen/BreakerGen.v Base/Prelude.vo
Gen/BreakerGen.vio: Gen/BreakerGen.v Base/Prelude.vio
Gen/BreakerGen.vos Gen/BreakerGen.vok Gen/BreakerGen.required_vos: Gen/BreakerGen.v Base/Prelude.vos
Gen/LimiterGen.vo Gen/LimiterGen.glob Gen/LimiterGen.v.beautified Gen/LimiterGen.required_vo: Gen/LimiterGen.v Base/Prelude.vo
Gen/LimiterGen.vio: Gen/LimiterGen.v Base/Prelude.vio
Gen/LimiterGen.vos Gen/LimiterGen.vok Gen/LimiterGen.required_vos: Gen/LimiterGen.v Base/Prelude.vos
Gen/HealthGen.vo Gen/HealthGen.glob Gen/HealthGen.v.beautified Gen/HealthGen.required_vo: Gen/HealthGen.v Base/Prelude.vo
Gen/HealthGen.vio: Gen/HealthGen.v Base/Prelude.vio
Gen/HealthGen.vos Gen/HealthGen.vok Gen/HealthGen.required_vos: Gen/HealthGen.v Base/Prelude.vos
Proofs/GzipProofs.vo Proofs/GzipProofs.glob Proofs/GzipProofs.v.beautified Proofs/GzipProofs.required_vo: Proofs/GzipProofs.v Base/Prelude.vo Model/RespWriter.vo Proofs/WriterProofs.vo
Proofs/GzipProofs.vio: Proofs/GzipProofs.v Base/Prelude.vio Model/RespWriter.vio Proofs/WriterProofs.vio
Proofs/GzipProofs.vos Proofs/GzipProofs.vok Proofs/GzipProofs.required_vos: Proofs/GzipProofs.v Base/Prelude.vos Model/RespWriter.vos Proofs/WriterProofs.vos
Proofs/SizeLimitProofs.vo Proofs/SizeLimitProofs.glob Proofs/SizeLimitProofs.v.beautified Proofs/SizeLimitProofs.required_vo: Proofs/SizeLimitProofs.v Base/Prelude.vo Model/RespWriter.vo Proofs/WriterProofs.vo Proofs/GzipProofs.vo
Proofs/SizeLimitProofs.vio: Proofs/SizeLimitProofs.v Base/Prelude.vio Model/RespWriter.vio Proofs/WriterProofs.vio Proofs/GzipProofs.vio
Proofs/SizeLimitProofs.vos Proofs/SizeLimitProofs.vok Proofs/SizeLimitProofs.required_vos: Proofs/SizeLimitProofs.v Base/Prelude.vos Model/RespWriter.vos Proofs/WriterProofs.vos Proofs/GzipProofs.vos
Proofs/BreakerRefine.vo Proofs/BreakerRefine.glob Proofs/BreakerRefine.v.beautified Proofs/BreakerRefine.required_vo: Proofs/BreakerRefine.v Base/Prelude.vo Model/Breaker.vo Gen/BreakerGen.vo
Proofs/BreakerRefine.vio: Proofs/BreakerRefine.v Base/Prelude.vio Model/Breaker.vio Gen/BreakerGen.vio
Proofs/BreakerRefine.vos Proofs/BreakerRefine.vok Proofs/BreakerRefine.required_vos: Proofs/BreakerRefine.v Base/Prelude.vos Model/Breaker.vos Gen/BreakerGen.vos
Proofs/LimiterRefine.vo Proofs/LimiterRefine.glob Proofs/LimiterRefine.v.beautified Proofs/LimiterRefine.required_vo: Proofs/LimiterRefine.v Base/Prelude.vo Model/Limiter.vo Gen/LimiterGen.vo
Proofs/LimiterRefine.vio: Proofs/LimiterRefine.v Base/Prelude.vio Model/Limiter.vio Gen/LimiterGen.vio
Proofs/LimiterRefine.vos Proofs/LimiterRefine.vok Proofs/LimiterRefine.required_vos: Proofs/LimiterRefine.v Base/Prelude.vos Model/Limiter.vos Gen/LimiterGen.vos
Proofs/HealthRefine.vo Proofs/HealthRefine.glob Proofs/HealthRefine.v.beautified Proofs/HealthRefine.required_vo: Proofs/HealthRefine.v Base/Prelude.vo Model/Strategy.vo Model/LB.vo Gen/HealthGen.vo
Proofs/HealthRefine.vio: Proofs/HealthRefine.v Base/Prelude.vio Model/Strategy.vio Model/LB.vio Gen/HealthGen.vio
Proofs/HealthRefine.vos Proofs/HealthRefine.vok Proofs/HealthRefine.required_vos: Proofs/HealthRefine.v Base/Prelude.vos Model/Strategy.vos Model/LB.vos Gen/HealthGen.vos
Proofs/ListingProofs.vo Proofs/ListingProofs.glob Proofs/ListingProofs.v.beautified Proofs/ListingProofs.required_vo: Proofs/ListingProofs.v Base/Prelude.vo Model/Conc.vo Proofs/ConcProofs.vo
Proofs/ListingProofs.vio: Proofs/ListingProofs.v Base/Prelude.vio Model/Conc.vio Proofs/ConcProofs.vio
Proofs/ListingProofs.vos Proofs/ListingProofs.vok Proofs/ListingProofs.required_vos: Proofs/ListingProofs.v Base/Prelude.vos Model/Conc.vos Proofs/ConcProofs.vos
Gen/SizeLimitGen.vo Gen/SizeLimitGen.glob Gen/SizeLimitGen.v.beautified Gen/SizeLimitGen.required_vo: Gen/SizeLimitGen.v Base/Prelude.vo Model/RespWriter.vo
Gen/SizeLimitGen.vio: Gen/SizeLimitGen.v Base/Prelude.vio Model/RespWriter.vio
Gen/SizeLimitGen.vos Gen/SizeLimitGen.vok Gen/SizeLimitGen.required_vos: Gen/SizeLimitGen.v Base/Prelude.vos Model/RespWriter.vos
Gen/GzipGen.vo Gen/GzipGen.glob Gen/GzipGen.v.beautified Gen/GzipGen.required_vo: Gen/GzipGen.v Base/Prelude.vo Model/RespWriter.vo
Gen/GzipGen.vio: Gen/GzipGen.v Base/Prelude.vio Model/RespWriter.vio
Gen/GzipGen.vos Gen/GzipGen.vok Gen/GzipGen.required_vos: Gen/GzipGen.v Base/Prelude.vos Model/RespWriter.vos
Proofs/SizeLimitRefine.vo Proofs/SizeLimitRefine.glob Proofs/SizeLimitRefine.v.beautified Proofs/SizeLimitRefine.required_vo: Proofs/SizeLimitRefine.v Base/Prelude.vo Model/RespWriter.vo Gen/SizeLimitGen.vo
Proofs/SizeLimitRefine.vio: Proofs/SizeLimitRefine.v Base/Prelude.vio Model/RespWriter.vio Gen/SizeLimitGen.vio
Proofs/SizeLimitRefine.vos Proofs/SizeLimitRefine.vok Proofs/SizeLimitRefine.required_vos: Proofs/SizeLimitRefine.v Base/Prelude.vos Model/RespWriter.vos Gen/SizeLimitGen.vos
Proofs/GzipRefine.vo Proofs/GzipRefine.glob Proofs/GzipRefine.v.beautified Proofs/GzipRefine.required_vo: Proofs/GzipRefine.v Base/Prelude.vo Model/RespWriter.vo Gen/GzipGen.vo
Proofs/GzipRefine.vio: Proofs/GzipRefine.v Base/Prelude.vio Model/RespWriter.vio Gen/GzipGen.vio
Proofs/GzipRefine.vos Proofs/GzipRefine.vok Proofs/GzipRefine.required_vos: Proofs/GzipRefine.v Base/Prelude.vos Model/RespWriter.vos Gen/GzipGen.vos
Proofs/WrrBoundProofs.vo Proofs/WrrBoundProofs.glob Proofs/WrrBoundProofs.v.beautified Proofs/WrrBoundProofs.required_vo: Proofs/WrrBoundProofs.v Base/Prelude.vo Base/Wrap.vo Model/Hash.vo Model/Strategy.vo Proofs/StrategyProofs.vo Proofs/FailoverProofs.vo
Proofs/WrrBoundProofs.vio: Proofs/WrrBoundProofs.v Base/Prelude.vio Base/Wrap.vio Model/Hash.vio Model/Strategy.vio Proofs/StrategyProofs.vio Proofs/FailoverProofs.vio
Proofs/WrrBoundProofs.vos Proofs/WrrBoundProofs.vok Proofs/WrrBoundProofs.required_vos: Proofs/WrrBoundProofs.v Base/Prelude.vos Base/Wrap.vos Model/Hash.vos Model/Strategy.vos Proofs/StrategyProofs.vos Proofs/FailoverProofs.vos
Gen/StrategyGen.vo Gen/StrategyGen.glob Gen/StrategyGen.v.beautified Gen/StrategyGen.required_vo: Gen/StrategyGen.v Base/Prelude.vo Base/Wrap.vo Model/Hash.vo Model/Strategy.vo
Gen/StrategyGen.vio: Gen/StrategyGen.v Base/Prelude.vio Base/Wrap.vio Model/Hash.vio Model/Strategy.vio
Gen/StrategyGen.vos Gen/StrategyGen.vok Gen/StrategyGen.required_vos: Gen/StrategyGen.v Base/Prelude.vos Base/Wrap.vos Model/Hash.vos Model/Strategy.vos
Proofs/StrategyRefine.vo Proofs/StrategyRefine.glob Proofs/StrategyRefine.v.beautified Proofs/StrategyRefine.required_vo: Proofs/StrategyRefine.v Base/Prelude.vo Base/Wrap.vo Model/Hash.vo Model/Strategy.vo Proofs/StrategyProofs.vo Gen/StrategyGen.vo
Proofs/StrategyRefine.vio: Proofs/StrategyRefine.v Base/Prelude.vio Base/Wrap.vio Model/Hash.vio Model/Strategy.vio Proofs/StrategyProofs.vio Gen/StrategyGen.vio
Proofs/StrategyRefine.vos Proofs/StrategyRefine.vok Proofs/StrategyRefine.required_vos: Proofs/StrategyRefine.v Base/Prelude.vos Base/Wrap.vos Model/Hash.vos Model/Strategy.vos Proofs/StrategyProofs.vos Gen/StrategyGen.vos
Gen/BackendGen.vo Gen/BackendGen.glob Gen/BackendGen.v.beautified Gen/BackendGen.required_vo: Gen/BackendGen.v Base/Prelude.vo
Gen/BackendGen.vio: Gen/BackendGen.v Base/Prelude.vio
Gen/BackendGen.vos Gen/BackendGen.vok Gen/BackendGen.required_vos: Gen/BackendGen.v Base/Prelude.vos
Proofs/BackendRefine.vo Proofs/BackendRefine.glob Proofs/BackendRefine.v.beautified Proofs/BackendRefine.required_vo: Proofs/BackendRefine.v Base/Prelude.vo Base/Wrap.vo Model/Hash.vo Model/Strategy.vo Gen/BackendGen.vo
Proofs/BackendRefine.vio: Proofs/BackendRefine.v Base/Prelude.vio Base/Wrap.vio Model/Hash.vio Model/Strategy.vio Gen/BackendGen.vio
Proofs/BackendRefine.vos Proofs/BackendRefine.vok Proofs/BackendRefine.required_vos: Proofs/BackendRefine.v Base/Prelude.vos Base/Wrap.vos Model/Hash.vos Model/Strategy.vos Gen/BackendGen.vos
