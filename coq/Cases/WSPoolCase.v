(* Correspondence + monitors for the wspool suite (pool half of C20): the real WebSocketPool under virtual time. *)
From Helios Require Export Base.Prelude Model.WSPool.

Record wp_case := mkWpCase {
  wk_max_idle : Z; wk_timeout : Z;
  wk_ops : list wop;             (* clean-up runs of the pool's ticker made explicit *)
  wk_obs : list Z;               (* per op: put -> 0/1, get -> connection id or -1, stats -> idle*1000+active, otherwise 0 *)
  wk_closed : list Z;            (* connections that were closed at the end (sorted) *)
  wk_held : list Z               (* connections clients still hold at the end (sorted) *)
}.

Definition enc_out (o : wout) : Z :=
  match o with
  | ONone => 0
  | OBool b => b2z b
  | OConn (Some c) => c
  | OConn None => -1
  | OStats i a => i * 1000 + a
  end.

Fixpoint insert_sorted (x : Z) (l : list Z) : list Z :=
  match l with [] => [x] | y :: t => if x <=? y then x :: l else y :: insert_sorted x t end.
Definition sort_z (l : list Z) : list Z := fold_right insert_sorted [] l.
Fixpoint dedup_sorted (l : list Z) : list Z :=
  match l with x :: ((y :: _) as t) => if Z.eqb x y then dedup_sorted t else x :: dedup_sorted t | _ => l end.

(* monitors on the implementation's own trace: replay the observed outputs against the op list, tracking who holds what *)
Record mstate := { m_idle : list (Z * Z * Z) (* backend, conn, time pooled *); m_held : list Z; m_now : Z; m_ok_excl : bool; m_ok_fresh : bool; m_ok_max : bool;
                   m_seen_idle : list Z }.

Definition mon_step (maxidle timeout : Z) (m : mstate) (oo : wop * Z) : mstate :=
  let '(o, out) := oo in
  match o with
  | WPut b c =>
      let held := remove_z c (m_held m) in
      if Z.eqb out 1 then
        let idle := m_idle m ++ [(b, c, m_now m)] in
        {| m_idle := idle; m_held := held; m_now := m_now m; m_ok_excl := m_ok_excl m; m_ok_fresh := m_ok_fresh m;
           m_ok_max := m_ok_max m; m_seen_idle := m_seen_idle m |}
      else {| m_idle := m_idle m; m_held := held; m_now := m_now m; m_ok_excl := m_ok_excl m; m_ok_fresh := m_ok_fresh m; m_ok_max := m_ok_max m; m_seen_idle := m_seen_idle m |}
  | WGet b =>
      if Z.eqb out (-1) then m
      else
        (* exclusivity: the connection handed out is held by nobody; freshness: it was pooled at most idle_timeout ago *)
        let pooled := filter (fun e => Z.eqb (snd (fst e)) out) (m_idle m) in
        let fresh := match rev pooled with e :: _ => (m_now m - snd e <=? timeout) && Z.eqb (fst (fst e)) b | [] => false end in
        {| m_idle := filter (fun e => negb (Z.eqb (snd (fst e)) out)) (m_idle m); m_held := out :: m_held m; m_now := m_now m;
           m_ok_excl := m_ok_excl m && negb (memZ out (m_held m)); m_ok_fresh := m_ok_fresh m && fresh; m_ok_max := m_ok_max m; m_seen_idle := m_seen_idle m |}
  | WClose _ c =>
      {| m_idle := m_idle m; m_held := remove_z c (m_held m); m_now := m_now m; m_ok_excl := m_ok_excl m; m_ok_fresh := m_ok_fresh m; m_ok_max := m_ok_max m; m_seen_idle := m_seen_idle m |}
  | WAdvance dt =>
      {| m_idle := m_idle m; m_held := m_held m; m_now := m_now m + Z.max 0 dt; m_ok_excl := m_ok_excl m; m_ok_fresh := m_ok_fresh m; m_ok_max := m_ok_max m; m_seen_idle := m_seen_idle m |}
  | WShutdown =>
      (* everything pooled at that moment must end up closed *)
      {| m_idle := []; m_held := m_held m; m_now := m_now m; m_ok_excl := m_ok_excl m; m_ok_fresh := m_ok_fresh m; m_ok_max := m_ok_max m;
         m_seen_idle := map (fun e => snd (fst e)) (m_idle m) ++ m_seen_idle m |}
  | WStats _ =>
      (* the pool never keeps more than max_idle idle connections per backend (as it reports itself) *)
      {| m_idle := m_idle m; m_held := m_held m; m_now := m_now m; m_ok_excl := m_ok_excl m; m_ok_fresh := m_ok_fresh m;
         m_ok_max := m_ok_max m && (out / 1000 <=? Z.max 0 maxidle); m_seen_idle := m_seen_idle m |}
  | WCleanup => m
  end.

Definition mon_run (k : wp_case) : mstate :=
  fold_left (mon_step (wk_max_idle k) (wk_timeout k)) (combine (wk_ops k) (wk_obs k))
            {| m_idle := []; m_held := []; m_now := 0; m_ok_excl := true; m_ok_fresh := true; m_ok_max := true; m_seen_idle := [] |}.

Definition has_get_hit_after_advance (k : wp_case) : bool :=
  let fix go (adv : bool) (l : list (wop * Z)) : bool :=
    match l with
    | [] => false
    | (WAdvance dt, _) :: t => go (adv || (0 <? dt)) t
    | (WGet _, out) :: t => (adv && negb (Z.eqb out (-1))) || go adv t
    | _ :: t => go adv t
    end in go false (combine (wk_ops k) (wk_obs k)).

(* result vector: [diff_out; diff_closed; mon_exclusive; mon_fresh; mon_max_idle; mon_shutdown; nt_c20] *)
Definition eval_wp_case (k : wp_case) : list Z :=
  let cfg := mkWpCfg (wk_max_idle k) (wk_timeout k) in
  let '(s, outs) := wp_run cfg wp_init (wk_ops k) in
  let m := mon_run k in
  [ first_diff (map enc_out outs) (wk_obs k);
    first_diff (dedup_sorted (sort_z (pw_closed s))) (wk_closed k);
    b2z (m_ok_excl m); b2z (m_ok_fresh m); b2z (m_ok_max m);
    b2z (forallb (fun c => memZ c (wk_closed k)) (m_seen_idle m));
    b2z (has_get_hit_after_advance k) ].
