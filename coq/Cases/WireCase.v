(* Correspondence + monitors for the wire suite (C01, C16, wire part of C17): the real cmd/helios binary in front of
   scripted backends over real sockets; every exchange is also made directly to the backend. *)
From Helios Require Export Base.Prelude Base.Bytes Model.Proxy.

Record wi_case := mkWiCase {
  wi_cfg : wcfg; wi_phase : Z; wi_req : wreq;
  wi_sflags : Z;                 (* 1 = streaming exchange (flushed segments, no declared length) *)
  wi_direct : rview;             (* what the backend produced: the client's view of the same request made directly *)
  wi_back : option bview;        (* what the backend saw on the proxied exchange; None = not contacted *)
  wi_through : rview;            (* what the client saw through Helios *)
  wi_streamed : bool;            (* every flushed segment had reached the client before the backend went on *)
  wi_unique : bool               (* no generated ID of this response was seen before in the run *)
}.

(* ---- generated identifiers: prefix ++ "_" ++ 24 lower-case hex digits ---- *)
Definition is_hex_lower (c : Z) : bool := ((48 <=? c) && (c <=? 57)) || ((97 <=? c) && (c <=? 102)).
Definition p_req : bytes := [114; 101; 113; 95].            (* req_ *)
Definition p_trace : bytes := [116; 114; 97; 99; 101; 95].  (* trace_ *)
Definition is_gen (prefix v : bytes) : bool :=
  prefixb prefix v && Nat.eqb (length v) (length prefix + 24) && forallb is_hex_lower (skipn (length prefix) v).

(* the request-id plugin: hex of 16 random bytes *)
Definition is_plug_gen (v : bytes) : bool := Nat.eqb (length v) 32 && forallb is_hex_lower v.

Definition val_match (pv ov : bytes) : bool :=
  if bytes_eqb pv GEN_REQ then is_gen p_req ov
  else if bytes_eqb pv GEN_TRACE then is_gen p_trace ov
  else if bytes_eqb pv GEN_PLUG then is_plug_gen ov
  else bytes_eqb pv ov.

Fixpoint hdrs_match (p o : hdrs) : bool :=
  match p, o with
  | [], [] => true
  | (k, v) :: p', (k', v') :: o' => bytes_eqb k k' && val_match v v' && hdrs_match p' o'
  | _, _ => false
  end.

Definition no_cl (h : hdrs) : hdrs := hdel s_content_length h.

Definition interim_match (p o : list (Z * hdrs)) : bool :=
  Nat.eqb (length p) (length o)
  (* a "100 Continue" is compared by its code only: behind a Go reverse proxy it is either the server's own (no headers) or the
     forwarded one (with the headers set so far), whichever wins a race inside the standard library *)
  && forallb (fun po => Z.eqb (fst (fst po)) (fst (snd po))
                        && (Z.eqb (fst (fst po)) 100 || hdrs_match (hsort (snd (fst po))) (hsort (snd (snd po))))) (combine p o).

(* every (k, v) of [pre] occurs in [h] *)
Definition pre_present (pre h : hdrs) : bool :=
  forallb (fun kv => existsb (fun kv' => bytes_eqb (fst kv) (fst kv') && val_match (snd kv) (snd kv')) h) pre.

(* ---- correspondence: -1 = model and implementation agree, otherwise the index of the first differing part ---- *)
Definition diff_fwd (k : wi_case) : Z :=
  match forward (wi_cfg k) (wi_phase k) (wi_req k), wi_back k with
  | Rejected code pre, None =>
      if negb (Z.eqb (rv_status (wi_through k)) code) then 1
      else if negb (pre_present pre (rv_hdrs (wi_through k))) then 2 else -1
  | Rejected _ _, Some _ => 0
  | Forwarded _ _, None => 0
  | Forwarded b _, Some o =>
      if negb (bytes_eqb (bv_method b) (bv_method o)) then 3
      else if negb (bytes_eqb (bv_path b) (bv_path o)) then 4
      else if negb (bytes_eqb (bv_query b) (bv_query o)) then 5
      else if negb (bytes_eqb (bv_host b) (bv_host o)) then 6
      else if negb (Z.eqb (bv_blen b) (bv_blen o)) then 7
      else if negb (Z.eqb (bv_framing b) (bv_framing o)) then 8
      else if negb (hdrs_match (hsort (no_cl (bv_hdrs b))) (hsort (no_cl (bv_hdrs o)))) then 9
      else -1
  end.

Definition diff_resp (k : wi_case) : Z :=
  match forward (wi_cfg k) (wi_phase k) (wi_req k), wi_back k with
  | Forwarded _ pre, Some _ =>
      let p := proxy_response (wi_cfg k) pre (wi_direct k) in
      let o := wi_through k in
      if negb (Z.eqb (rv_status p) (rv_status o)) then 1
      else if negb (hdrs_match (rv_hdrs p) (hsort (rv_hdrs o))) then 2
      else if negb (Z.eqb (rv_body p) (rv_body o)) then 3
      else if negb (Z.eqb (rv_framing p) (rv_framing o)) then 4
      else if negb (interim_match (rv_interim p) (rv_interim o)) then 5
      else if negb (Z.eqb (rv_trunc p) (rv_trunc o)) then 6
      else -1
  | _, _ => -1
  end.

(* ---- monitors: predicates on what the implementation did, stated from the request and the two views alone ---- *)
Definition called (k : wi_case) : bool := match wi_back k with Some _ => true | None => false end.

Definition reqset_keys (c : wcfg) : list bytes :=
  flat_map (fun p => match p with WHeaders _ rs => map fst rs | _ => [] end) (c_chain c).
Definition set_keys (c : wcfg) : list bytes :=
  flat_map (fun p => match p with WHeaders s _ => map fst s | _ => [] end) (c_chain c).
Definition has_reqid (chain : list wplug) : bool := existsb (fun p => match p with WReqId => true | _ => false end) chain.
Definition id_keys (c : wcfg) : list bytes :=
  (if c_rid c then [c_rid_hdr c] else []) ++ (if c_tr c then [c_tr_hdr c] else [])
  ++ (if has_reqid (c_chain c) then [s_xrid] else []).

Definition hdel_all (ks : list bytes) (h : hdrs) : hdrs := fold_left (fun acc k => hdel k acc) ks h.

(* end-to-end part of a header collection: hop-by-hop headers (also those listed in Connection) and the framing length removed;
   values as an HTTP parser delivers them (optional white space trimmed) *)
Definition e2e (h : hdrs) : hdrs :=
  hsort (map (fun kv => (fst kv, trim_ows (snd kv))) (no_cl (remove_hop h))).

(* C01 (a): the backend receives method, path, query, end-to-end headers and body unchanged, plus only the documented
   additions (X-Forwarded-For, the ID headers, request_set of a configured headers plugin) *)
Definition c01_req (k : wi_case) : bool :=
  match wi_back k with
  | None => true
  | Some o =>
      let q := wi_req k in
      let allowed := s_xff :: id_keys (wi_cfg k) ++ reqset_keys (wi_cfg k) in
      bytes_eqb (bv_method o) (q_method q) && bytes_eqb (bv_path o) (join_path (c_base (wi_cfg k)) (q_path q))
      && bytes_eqb (bv_query o) (q_query q) && bytes_eqb (bv_host o) (q_host q) && Z.eqb (bv_blen o) (q_blen q)
      && hdrs_eqb (hdel_all allowed (e2e (bv_hdrs o))) (hdel_all allowed (e2e (q_hdrs q)))
      (* the forwarding header names the peer, after whatever the client supplied *)
      && (match hvalues s_xff (bv_hdrs o) with
          | [v] => bytes_eqb v (match hvalues s_xff (q_hdrs q) with [] => c_peer (wi_cfg k)
                                | l => join_comma_sp (map trim_ows l) ++ [44; 32] ++ c_peer (wi_cfg k) end)
          | _ => false
          end)
  end.

(* C01 (b): the client receives exactly the status, end-to-end headers and body the backend produced *)
Definition c01_resp (k : wi_case) : bool :=
  if called k then
    let t := wi_through k in let d := wi_direct k in
    let allowed := id_keys (wi_cfg k) ++ set_keys (wi_cfg k) in
    Z.eqb (rv_status t) (rv_status d) && Z.eqb (rv_body t) (rv_body d) && Z.eqb (rv_trunc t) (rv_trunc d)
    && Z.eqb (rv_framing t) (rv_framing d)
    && hdrs_eqb (hdel_all allowed (hsort (remove_hop (rv_hdrs t)))) (hdel_all allowed (hsort (remove_hop (rv_hdrs d))))
    (* what the backend itself put into a header that also carries an ID of the proxy is still delivered (nothing dropped) - unless
       an interim response of the backend made the reverse proxy start the header map afresh *)
    && (match rv_interim d with
        | [] => forallb (fun kv => negb (existsb (fun k => bytes_eqb (canon_key k) (canon_key (fst kv))) (id_keys (wi_cfg k)))
                                   || existsb (fun kv' => bytes_eqb (canon_key (fst kv)) (canon_key (fst kv')) && bytes_eqb (snd kv) (snd kv')) (rv_hdrs t))
                        (rv_hdrs d)
        | _ => true end)
    && list_eqb (map fst (rv_interim t)) (map fst (rv_interim d))
    && forallb (fun td => forallb (fun kv => existsb (fun kv' => bytes_eqb (fst kv) (fst kv') && bytes_eqb (snd kv) (snd kv')) (snd (fst td)))
                                  (snd (snd td)))
               (combine (rv_interim t) (rv_interim d))
  else true.

Definition s_head : bytes := [72; 69; 65; 68].
(* C01 (c): flushed bytes reach the client before the response ends *)
Definition c01_stream (k : wi_case) : bool :=
  if called k && Z.eqb (wi_sflags k) 1 && negb (bytes_eqb (q_method (wi_req k)) s_head) then wi_streamed k else true.

(* C16 *)
Definition c16_one (on : bool) (name gen_prefix : bytes) (k : wi_case) : bool * bool * bool * bool * bool :=
  let q := wi_req k in let t := wi_through k in
  let supplied := match hvalues name (q_hdrs q) with [] => [] | v :: _ => trim_space v end in
  let got := hvalues name (rv_hdrs t) in
  if on then
    let present := negb (match got with [] => true | _ => false end) in
    let equal := match wi_back k with
                 | Some o => match hvalues name (bv_hdrs o), got with [b], g :: _ => bytes_eqb b g | _, _ => false end
                 | None => true
                 end in
    let echo := if bytes_eqb supplied [] then true else match got with g :: _ => bytes_eqb g supplied | [] => false end in
    let fresh := if bytes_eqb supplied [] then match got with g :: _ => is_gen gen_prefix g && wi_unique k | [] => false end else true in
    (present, equal, echo, fresh, true)
  else
    (* disabled: neither generated nor altered in either direction *)
    let untouched :=
      match wi_back k with
      | Some o => hdrs_eqb (map (fun v => (name, v)) (hvalues name (bv_hdrs o))) (map (fun v => (name, trim_ows v)) (hvalues name (q_hdrs q)))
                  && hdrs_eqb (map (fun v => (name, v)) got) (map (fun v => (name, v)) (hvalues name (rv_hdrs (wi_direct k))))
      | None => match got with [] => true | _ => false end
      end in
    (true, true, true, true, untouched).

(* a name used by a request_set / set of a configured headers plugin, or shared by both features, is outside the claim *)
(* ... and so is X-Request-Id for a DISABLED feature when the request-id plugin is configured (the plugin then owns the header);
   with the feature enabled the claim applies in full with the plugin in the chain *)
Definition c16_applies (k : wi_case) (name : bytes) (on : bool) : bool :=
  negb (existsb (bytes_eqb name) (reqset_keys (wi_cfg k) ++ set_keys (wi_cfg k)))
  && negb (bytes_eqb (c_rid_hdr (wi_cfg k)) (c_tr_hdr (wi_cfg k)))
  && negb (has_reqid (c_chain (wi_cfg k)) && bytes_eqb name s_xrid && negb on).

(* the tutorial request-id plugin owns X-Request-Id when no enabled feature is configured on that name: a client-supplied value
   is passed on and echoed unchanged, otherwise the value the backend sees is the (generated) value the client gets *)
Definition c16_plug (k : wi_case) : bool * bool :=
  let c := wi_cfg k in
  let owned := has_reqid (c_chain c)
               && negb (c_rid c && bytes_eqb (c_rid_hdr c) s_xrid) && negb (c_tr c && bytes_eqb (c_tr_hdr c) s_xrid)
               && negb (existsb (bytes_eqb s_xrid) (reqset_keys c ++ set_keys c))
               (* after an interim response of the backend httputil.ReverseProxy starts the header map afresh: what plugins had set is
                  gone, as for the `headers` plugin (c17_order); only the ID middleware re-asserts its own headers *)
               && (match rv_interim (wi_direct k) with [] => true | _ => false end) in
  match wi_back k with
  | Some o =>
      if owned then
        let supplied := match hvalues s_xrid (q_hdrs (wi_req k)) with [] => [] | v :: _ => trim_ows v end in
        let got := hvalues s_xrid (rv_hdrs (wi_through k)) in
        let seen := hvalues s_xrid (bv_hdrs o) in
        let equal := match seen, got with [b], g :: _ => bytes_eqb b g | _, _ => false end in
        let echo := if bytes_eqb supplied [] then true else match got with g :: _ => bytes_eqb g supplied | [] => false end in
        (equal, echo)
      else (true, true)
  | None => (true, true)
  end.

Definition c16_all (k : wi_case) : bool * bool * bool * bool * bool :=
  let c := wi_cfg k in
  let '(p1, e1, c1, f1, d1) := if c16_applies k (c_rid_hdr c) (c_rid c) then c16_one (c_rid c) (c_rid_hdr c) p_req k else (true, true, true, true, true) in
  let '(p2, e2, c2, f2, d2) := if c16_applies k (c_tr_hdr c) (c_tr c) then c16_one (c_tr c) (c_tr_hdr c) p_trace k else (true, true, true, true, true) in
  let '(pe, pc) := c16_plug k in
  (p1 && p2, e1 && e2 && pe, c1 && c2 && pc, f1 && f2, d1 && d2).

(* C17 on the real stack: the first plugin (in configured order) that rejects this request *)
Fixpoint first_rejecter (chain : list wplug) (q : wreq) (i : nat) : option (nat * Z) :=
  match chain with
  | [] => None
  | WAuth key :: t =>
      if bytes_eqb (match hget s_api_key (q_hdrs q) with Some v => trim_ows v | None => [] end) key then first_rejecter t q (S i)
      else Some (i, 401)
  | WSizeLimit maxreq _ :: t =>
      if Z.eqb (q_framing q) 1 && (maxreq <? q_blen q) then Some (i, 413) else first_rejecter t q (S i)
  | _ :: t => first_rejecter t q (S i)
  end.

Definition set_of (p : wplug) : hdrs := match p with WHeaders s _ => s | _ => [] end.
Definition reqset_of (p : wplug) : hdrs := match p with WHeaders _ rs => rs | _ => [] end.

(* last binding wins: the value a sequence of Header.Set calls leaves for each key *)
Definition last_sets (l : hdrs) : hdrs := fold_left (fun acc kv => hset (fst kv) (snd kv) acc) l [].

Definition c17_gate (k : wi_case) : bool :=
  match first_rejecter (c_chain (wi_cfg k)) (wi_req k) 0 with
  | Some (i, code) =>
      negb (called k) && Z.eqb (rv_status (wi_through k)) code
      (* plugins before the rejecter ran (their response headers are there), plugins after it did not *)
      && pre_present (last_sets (flat_map set_of (firstn i (c_chain (wi_cfg k))))) (rv_hdrs (wi_through k))
      && forallb (fun kv => existsb (bytes_eqb (fst kv)) (map fst (flat_map set_of (firstn i (c_chain (wi_cfg k)))))
                            || negb (hhas (fst kv) (rv_hdrs (wi_through k))))
                 (flat_map set_of (skipn (S i) (c_chain (wi_cfg k))))
  | None => if Z.eqb (wi_phase k) 0 then called k else true
  end.

(* configured order: every request_set reaches the backend with the value of the LAST plugin that sets the key (the first listed
   runs first), and likewise for the response headers when no interim response wiped them *)
Definition c17_order (k : wi_case) : bool :=
  match wi_back k with
  | Some o =>
      pre_present (last_sets (flat_map reqset_of (c_chain (wi_cfg k)))) (bv_hdrs o)
      && (match rv_interim (wi_direct k) with
          | [] => forallb (fun kv => match hvalues (fst kv) (rv_hdrs (wi_through k)) with v :: _ => bytes_eqb v (snd kv) | [] => false end)
                          (last_sets (flat_map set_of (c_chain (wi_cfg k))))
          | _ => true
          end)
  | None => true
  end.

Definition has_interim (k : wi_case) : bool := match rv_interim (wi_direct k) with [] => false | _ => true end.

(* result vector: [diff_fwd; diff_resp; mon_c01_req; mon_c01_resp; mon_c01_stream; mon_c16_present; mon_c16_equal; mon_c16_echo;
                   mon_c16_fresh; mon_c16_disabled; mon_c17_gate; mon_c17_order; cls_interim; nt_c01; nt_c16; nt_c17] *)
Definition eval_wi_case (k : wi_case) : list Z :=
  let '(p, e, c, f, d) := c16_all k in
  [ diff_fwd k; diff_resp k; b2z (c01_req k); b2z (c01_resp k); b2z (c01_stream k);
    b2z p; b2z e; b2z c; b2z f; b2z d; b2z (c17_gate k); b2z (c17_order k); b2z (has_interim k);
    b2z (called k && ((0 <? rv_body (wi_direct k)) || negb (Z.eqb (rv_status (wi_direct k)) 200) || (0 <? q_blen (wi_req k)) || Z.eqb (wi_sflags k) 1));
    b2z (hhas (c_rid_hdr (wi_cfg k)) (q_hdrs (wi_req k)) || hhas (c_tr_hdr (wi_cfg k)) (q_hdrs (wi_req k)) || negb (called k));
    b2z ((2 <=? zlen (c_chain (wi_cfg k))) || match first_rejecter (c_chain (wi_cfg k)) (wi_req k) 0 with Some _ => true | None => false end) ].

(* ---- idgen suite: concurrent generations through the real middleware (supporting evidence for uniqueness) ---- *)
Record id_case := mkIdCase { id_total : Z; id_distinct : Z; id_wellformed : Z }.
(* result vector: [diff (none: there is nothing to predict); mon_c16_unique; nt] *)
Definition eval_id_case (k : id_case) : list Z :=
  [ -1; b2z (Z.eqb (id_total k) (id_distinct k) && Z.eqb (id_wellformed k) (id_total k)); b2z (1000 <=? id_total k) ].

(* ---- tunnel suite (C20, tunnelling half): an Upgrade session through the real binary with a plugin chain ---- *)
Record tu_case := mkTuCase {
  tu_chain : list wplug; tu_msgs : list (Z * Z) (* direction, bytes *); tu_closer : Z; tu_idle : Z;
  tu_upgraded : bool;          (* the client got 101 Switching Protocols *)
  tu_delivered : bool;         (* every message arrived at the other side, byte for byte, in order *)
  tu_close_seen : bool         (* after one side closed, the other side saw the end of the stream *)
}.
(* a blank custom-auth key can never be presented by a client (HTTP strips the value): such a chain refuses the handshake *)
Definition tu_refused (k : tu_case) : bool :=
  existsb (fun p => match p with WAuth key => bytes_eqb (trim_ows key) [] && negb (bytes_eqb key []) | _ => false end) (tu_chain k).
(* result vector: [diff; mon_tunnel_relay; mon_tunnel_close; nt_c20] *)
Definition eval_tu_case (k : tu_case) : list Z :=
  let expect := negb (tu_refused k) in
  [ (if Bool.eqb (tu_upgraded k) expect then -1 else 0);
    b2z (if expect then tu_upgraded k && tu_delivered k else true);
    b2z (if expect then tu_close_seen k else true);
    b2z (2 <=? zlen (tu_msgs k)) ].
