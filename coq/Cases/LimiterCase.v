(* Correspondence + monitors for the limiter suite.  A case carries the operations the
   harness ran on the real TokenBucketRateLimiter (clean-up ticks made explicit) and the
   admit/deny flags it observed, in order. *)
From Helios Require Export Base.Prelude Model.Limiter.

Record lim_case := mkLimCase {
  lc_max : Z; lc_rate : Z; lc_t0 : Z; lc_ops : list lop; lc_obs : list Z }.

(* pair the ops with observed flags: absolute-time event list of the IMPLEMENTATION *)
Fixpoint events_of (now : Z) (ops : list lop) (obs : list Z) : list event :=
  match ops with
  | [] => []
  | LAllow c :: t =>
      match obs with
      | [] => []
      | f :: obs' => (now, c, Z.eqb f 1) :: events_of now t obs'
      end
  | LAdvance dt :: t => events_of (now + dt) t obs
  | LCleanup :: t => events_of now t obs
  end.

Fixpoint has_cleanup (ops : list lop) : bool :=
  match ops with [] => false | LCleanup :: _ => true | _ :: t => has_cleanup t end.

Fixpoint has_deny (obs : list Z) : bool :=
  match obs with [] => false | f :: t => Z.eqb f 0 || has_deny t end.

Fixpoint has_gap_ge (r : Z) (ops : list lop) : bool :=
  match ops with [] => false | LAdvance dt :: t => (r <=? dt) || has_gap_ge r t | _ :: t => has_gap_ge r t end.

(* "a new client starts with a full burst" and isolation, on the implementation's trace alone: tokens only ever grow back, and a
   bucket dropped by the clean-up is a full one again, so the first max_tokens requests of every client are admitted whatever
   any other client did.  seen: number of requests of each client so far. *)
Fixpoint first_burst_ok (maxt : Z) (seen : list (Z * Z)) (evs : list event) : bool :=
  match evs with
  | [] => true
  | (_, c, ok) :: t =>
      let n := match lookup c seen with Some n => n | None => 0 end in
      (if n <? maxt then ok else true) && first_burst_ok maxt (update c (n + 1) seen) t
  end.

(* result vector:
   [ first mismatch index (-1 = model and implementation agree);
     window monitor on the implementation trace; burst monitor on the implementation trace;
     classifier: clean-up re-grant possible (max*rate > cleanup age and a clean-up ran);
     non-trivial: >= 1 denial and (>= 1 gap of a refill period or a clean-up) ] *)
Definition eval_lim_case (k : lim_case) : list Z :=
  let cfg := {| lmax := lc_max k; lrate := lc_rate k |} in
  let out := snd (lrun cfg (linit (lc_t0 k)) (lc_ops k)) in
  let model := map (fun p => b2z (snd p)) out in
  let evs := events_of (lc_t0 k) (lc_ops k) (lc_obs k) in
  [ first_diff model (lc_obs k);
    b2z (windows_ok cfg evs);
    b2z (bursts_ok cfg evs);
    b2z ((cleanup_age cfg <? lmax cfg * lrate cfg) && has_cleanup (lc_ops k));
    b2z (has_deny (lc_obs k) && (has_gap_ge (lc_rate k) (lc_ops k) || has_cleanup (lc_ops k)));
    b2z (first_burst_ok (lc_max k) [] evs) ].
