(* Correspondence + monitors for the limiter suite.  A case carries the operations the
   harness ran on the real TokenBucketRateLimiter (clean-up ticks made explicit) and the
   admit/deny flags it observed, in order. *)
From Helios Require Export Base.Prelude Model.Limiter.

Record lim_case := mkLimCase {
  lc_max : Z; lc_rate : Z; lc_t0 : Z; lc_ops : list lop; lc_obs : list Z }.

(* pair the ops with observed flags: absolute-time event list of the IMPLEMENTATION *)
Fixpoint events_of (now : Z) (ops : list lop) (obs : list Z) : list event :=
  match ops with
  | [] => []
  | LAllow c :: t =>
      match obs with
      | [] => []
      | f :: obs' => (now, c, Z.eqb f 1) :: events_of now t obs'
      end
  | LAdvance dt :: t => events_of (now + dt) t obs
  | LCleanup :: t => events_of now t obs
  end.

Fixpoint has_cleanup (ops : list lop) : bool :=
  match ops with [] => false | LCleanup :: _ => true | _ :: t => has_cleanup t end.

Fixpoint has_deny (obs : list Z) : bool :=
  match obs with [] => false | f :: t => Z.eqb f 0 || has_deny t end.

Fixpoint has_gap_ge (r : Z) (ops : list lop) : bool :=
  match ops with [] => false | LAdvance dt :: t => (r <=? dt) || has_gap_ge r t | _ :: t => has_gap_ge r t end.

(* "a new client starts with a full burst" and isolation, on the implementation's trace alone: tokens only ever grow back, and a
   bucket dropped by the clean-up is a full one again, so the first max_tokens requests of every client are admitted whatever
   any other client did.  seen: number of requests of each client so far. *)
Fixpoint first_burst_ok (maxt : Z) (seen : list (Z * Z)) (evs : list event) : bool :=
  match evs with
  | [] => true
  | (_, c, ok) :: t =>
      let n := match lookup c seen with Some n => n | None => 0 end in
      (if n <? maxt then ok else true) && first_burst_ok maxt (update c (n + 1) seen) t
  end.

(* "a client that has stayed idle for k refill periods is admitted at least min(k, max_tokens) more times", on the
   implementation's trace alone: when two consecutive requests of a client are k refill periods apart, the bucket holds at least
   min(k, max) tokens at the second one (the refill is anchored at or before the first; a bucket the clean-up dropped comes back
   full), so the next min(k, max) requests of that client are admitted whenever they come.
   per client: time of its previous request, number of admissions still owed *)
Fixpoint idle_ok (maxt rate : Z) (st : list (Z * (Z * Z))) (evs : list event) : bool :=
  match evs with
  | [] => true
  | (t, c, ok) :: rest =>
      let '(prev, owed) := match lookup c st with Some x => x | None => (t, 0) end in
      let k := (t - prev) / rate in
      let owed' := Z.max owed (Z.min k maxt) in
      (if 0 <? owed' then ok else true) && idle_ok maxt rate (update c (t, owed' - 1) st) rest
  end.

(* the window bound over each client's whole history (first request to last): a linear-time consequence of the bound over
   all windows, used alone on very long histories.  per client: time of its first request, admissions so far *)
Fixpoint whole_ok (maxt rate : Z) (st : list (Z * (Z * Z))) (evs : list event) : bool :=
  match evs with
  | [] => true
  | (t, c, ok) :: rest =>
      let '(t0, adm) := match lookup c st with Some x => x | None => (t, 0) end in
      let adm' := adm + (if ok then 1 else 0) in
      (adm' <=? maxt + (t - t0) / rate + 1) && whole_ok maxt rate (update c (t0, adm') st) rest
  end.

(* result vector:
   [ first mismatch index (-1 = model and implementation agree);
     window monitor on the implementation trace; burst monitor on the implementation trace;
     classifier: clean-up re-grant possible (max*rate > cleanup age and a clean-up ran);
     non-trivial: >= 1 denial and (>= 1 gap of a refill period or a clean-up) ] *)
(* very long histories (thousands of clients) are judged on their projection to the first client: every monitor is a
   per-client statement, and by the isolation theorem (C09) the model's answers to a client are those of the history with
   the other clients' requests removed *)
Fixpoint project (focus : Z) (ops : list lop) (obs : list Z) : list lop * list Z :=
  match ops with
  | [] => ([], [])
  | LAllow c :: t =>
      match obs with
      | [] => ([], [])
      | f :: obs' => let '(o', b') := project focus t obs' in if Z.eqb c focus then (LAllow c :: o', f :: b') else (o', b')
      end
  | o :: t => let '(o', b') := project focus t obs in (o :: o', b')
  end.
Fixpoint first_client (ops : list lop) : Z := match ops with [] => 0 | LAllow c :: _ => c | _ :: t => first_client t end.

Definition eval_lim_small (maxt rate t0 : Z) (ops : list lop) (obs : list Z) : list Z :=
  let cfg := {| lmax := maxt; lrate := rate |} in
  let out := snd (lrun cfg (linit t0) ops) in
  let model := map (fun p => b2z (snd p)) out in
  let evs := events_of t0 ops obs in
  [ first_diff model obs;
    b2z ((rate <=? 0) || (windows_ok cfg evs && whole_ok maxt rate [] evs));
    b2z (bursts_ok cfg evs);
    b2z ((cleanup_age cfg <? lmax cfg * lrate cfg) && has_cleanup ops);
    b2z (has_deny obs && (has_gap_ge rate ops || has_cleanup ops));
    b2z (first_burst_ok maxt [] evs);
    b2z ((rate <=? 0) || idle_ok maxt rate [] evs) ].

Definition eval_lim_case (k : lim_case) : list Z :=
  if 5000 <? zlen (lc_ops k) then
    let '(ops', obs') := project (first_client (lc_ops k)) (lc_ops k) (lc_obs k) in
    eval_lim_small (lc_max k) (lc_rate k) (lc_t0 k) ops' obs'
  else eval_lim_small (lc_max k) (lc_rate k) (lc_t0 k) (lc_ops k) (lc_obs k).
