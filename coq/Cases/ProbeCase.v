(* Correspondence + monitors for the probe suite (C19 and the active-check part of C04). *)
From Helios Require Export Base.Prelude Model.Shutdown.

Record pr_case := mkPrCase {
  pk_n : Z; pk_window : Z; pk_timeout : Z;
  pk_ops : list pop;               (* ticks of the balancer's own ticker made explicit *)
  pk_obs : list (list Z);          (* per op: tick -> backends probed; request -> backends that served; stop -> probes cancelled ([-1] = Stop did not return) *)
  pk_late : Z                      (* probes sent after Stop had returned *)
}.

Fixpoint seqZ (i : Z) (n : nat) : list Z := match n with O => [] | S k => i :: seqZ (i + 1) k end.

Definition pinit (k : pr_case) : pstate :=
  mkPS 0 (map (fun i => mkPB i true 0 0) (seqZ 1 (Z.to_nat (pk_n k)))) [] false.

Definition enc_pout (o : pout) : list Z :=
  match o with PNone => [] | PProbed l => l | PEligible l => l | PStopped l => l end.

Fixpoint insert_sorted (x : Z) (l : list Z) : list Z :=
  match l with [] => [x] | y :: t => if x <=? y then x :: l else y :: insert_sorted x t end.
Definition sort_z (l : list Z) : list Z := fold_right insert_sorted [] l.

Fixpoint first_diff_ll (i : Z) (a b : list (list Z)) : Z :=
  match a, b with
  | [], [] => -1
  | x :: a', y :: b' => if list_eqb (sort_z x) (sort_z y) then first_diff_ll (i + 1) a' b' else i
  | _, _ => i
  end.

(* monitors on the implementation's trace *)
Definition stop_returned (k : pr_case) : bool :=
  forallb (fun oo => match fst oo with PStop => negb (list_eqb (snd oo) [-1]) | _ => true end) (combine (pk_ops k) (pk_obs k)).
Fixpoint no_probe_after_stop (stopped : bool) (l : list (pop * list Z)) : bool :=
  match l with
  | [] => true
  | (PStop, _) :: t => no_probe_after_stop true t
  | (PTick, probed) :: t => (if stopped then match probed with [] => true | _ => false end else true) && no_probe_after_stop stopped t
  | _ :: t => no_probe_after_stop stopped t
  end.
Definition has_stop (k : pr_case) : bool := existsb (fun o => match o with PStop => true | _ => false end) (pk_ops k).
Definition stop_with_inflight (k : pr_case) : bool :=
  existsb (fun oo => match fst oo with PStop => match snd oo with [] => false | _ => true end | _ => false end) (combine (pk_ops k) (pk_obs k)).
Definition count_stops (k : pr_case) : Z := zlen (filter (fun o => match o with PStop => true | _ => false end) (pk_ops k)).

(* C04 / C02 on the implementation's own trace.  A backend whose probe failed at instant t (status 500 or transport error: the
   scripted transport answers at once; no answer: the probe's own time-out fires at t + timeout, or Stop cancels it earlier)
   serves no client request up to and including the end of the window that opens then; and a backend that is outside every
   such window serves again (the requests of a PRequest go round the whole pool).
   State: now, current script of each backend, end of the window of each backend, probes without an answer (backend, due). *)
Definition zget (k : Z) (l : list (Z * Z)) (d : Z) : Z := match lookup k l with Some v => v | None => d end.

Definition fire (w now : Z) (untils pending : list (Z * Z)) : list (Z * Z) * list (Z * Z) :=
  (fold_left (fun u p => if snd p <=? now then update (fst p) (Z.max (zget (fst p) u (snd p + w)) (snd p + w)) u else u) pending untils,
   filter (fun p => negb (snd p <=? now)) pending).

Fixpoint window_mon (w tmo n now : Z) (stopped : bool) (scripts untils pending : list (Z * Z)) (l : list (pop * list Z)) : bool * bool :=
  match l with
  | [] => (true, true)
  | (PSet b sc, _) :: t => window_mon w tmo n now stopped (update b sc scripts) untils pending t
  | (PAdvance dt, _) :: t =>
      let now' := now + Z.max 0 dt in
      let '(u, p) := fire w now' untils pending in window_mon w tmo n now' stopped scripts u p t
  | (PTick, probed) :: t =>
      let untils' := fold_left (fun u i => let sc := zget i scripts 0 in
                                           if Z.eqb sc 1 || Z.eqb sc 2 then update i (now + w) u else u) probed untils in
      let pending' := pending ++ flat_map (fun i => if Z.eqb (zget i scripts 0) 3 then [(i, now + tmo)] else []) probed in
      let '(u, p) := fire w now untils' pending' in
      window_mon w tmo n now stopped scripts u p t
  | (PRequest, served) :: t =>
      let inwin i := match lookup i untils with Some u => now <=? u | None => false end in
      (* a backend with a probe still in flight may be ejected at this very instant by its time-out: it claims nothing *)
      let undecided i := existsb (fun p => Z.eqb (fst p) i) pending in
      let ok1 := forallb (fun i => negb (inwin i)) served in
      let ok2 := forallb (fun i => inwin i || undecided i || memZ i served) (map Z.of_nat (seq 1 (Z.to_nat n))) in
      let '(r1, r2) := window_mon w tmo n now stopped scripts untils pending t in
      (ok1 && r1, ok2 && r2)
  | (PStop, _) :: t =>
      (* cancelled probes fail now *)
      let untils' := fold_left (fun u p => update (fst p) (Z.max (zget (fst p) u (now + w)) (now + w)) u) pending untils in
      window_mon w tmo n now true scripts untils' [] t
  end.

(* result vector: [diff; mon_c19_stop_returns; mon_c19_no_probe_after; nt_c19; nt_c04; mon_c04_probe_window; mon_c04_probe_recover] *)
Definition eval_pr_case (k : pr_case) : list Z :=
  let cfg := mkPCfg (pk_window k) (pk_timeout k) in
  let outs := snd (prun cfg (pinit k) (pk_ops k)) in
  [ first_diff_ll 0 (map enc_pout outs) (pk_obs k);
    b2z (stop_returned k);
    b2z (no_probe_after_stop false (combine (pk_ops k) (pk_obs k)) && Z.eqb (pk_late k) 0);
    b2z (has_stop k && (stop_with_inflight k || (2 <=? count_stops k)));
    b2z (existsb (fun o => match o with PSet _ s => negb (Z.eqb s 0) | _ => false end) (pk_ops k));
    b2z (fst (window_mon (pk_window k) (pk_timeout k) (pk_n k) 0 false [] [] [] (combine (pk_ops k) (pk_obs k))));
    b2z (snd (window_mon (pk_window k) (pk_timeout k) (pk_n k) 0 false [] [] [] (combine (pk_ops k) (pk_obs k)))) ].

(* ---- sigterm suite (C19, process level): SIGTERM / SIGINT to the real binary with a request and probes in flight ---- *)
Record sg_case := mkSgCase {
  sg_phase : Z;            (* 0 idle, 1 the backend has not sent its header yet, 2 the body is half way *)
  sg_hang_hc : bool;       (* active checks enabled against a health endpoint that never answers *)
  sg_timeout : Z;          (* configured shutdown timeout, seconds *)
  sg_signals : Z;
  sg_completed : bool;     (* the request in flight was answered 200 with its whole body *)
  sg_exit_ms : Z;          (* time from the signal to the exit, -1 = did not exit *)
  sg_code : Z              (* exit status *)
}.
(* result vector: [diff (nothing is predicted beyond the monitors); mon_c19_drains; mon_c19_exits_in_time; nt_c19] *)
Definition eval_sg_case (k : sg_case) : list Z :=
  [ -1; b2z (sg_completed k);
    b2z ((0 <=? sg_exit_ms k) && (sg_exit_ms k <=? sg_timeout k * 1000 + 500) && Z.eqb (sg_code k) 0);
    b2z (negb (Z.eqb (sg_phase k) 0) || sg_hang_hc k) ].

(* ---- race suite (C12): concurrent operation mix on the real balancer under the race detector ---- *)
Record rc_case := mkRcCase {
  rc_cfg : Z;            (* strategy*32 + breaker*16 + limiter*8 + active*4 + passive*2 + pool *)
  rc_goroutines : Z;
  rc_races : Z;          (* DATA RACE reports of the detector during this run *)
  rc_panics : Z;         (* panics other than the proxy's own ErrAbortHandler *)
  rc_deadlock : Z        (* 1 = workers or Stop did not finish within the watchdog *)
}.
(* result vector: [diff (nothing predicted); mon_c12_no_race; mon_c12_no_panic; mon_c12_no_deadlock; nt_c12] *)
Definition eval_rc_case (k : rc_case) : list Z :=
  [ -1; b2z (Z.eqb (rc_races k) 0); b2z (Z.eqb (rc_panics k) 0); b2z (Z.eqb (rc_deadlock k) 0); b2z (8 <=? rc_goroutines k) ].

(* ---- stall suite (C03, process level): a client that stops talking in the middle of a request ---- *)
Record st_case := mkStCase {
  st_kind : Z;          (* 0 = head and part of the declared body, then silence; 1 = part of the header block, then silence *)
  st_read_ms : Z;       (* configured server read time-out *)
  st_elapsed_ms : Z;    (* until the exchange ended (response or closed connection), or until the harness gave up *)
  st_ended : bool;
  st_followup : bool    (* a request to the healthy backend succeeded afterwards *)
}.
(* kind 2 (C11, process level): a name removed and added again at another address through the admin API: st_ended = the next
   requests were served by the new address, st_followup = the admin calls were accepted and the old address served before *)
(* result vector: [diff (nothing predicted beyond the monitors); mon_c03_stall_ends; mon_c03_stall_followup; nt_c03; mon_c11_readd] *)
Definition eval_st_case (k : st_case) : list Z :=
  if Z.eqb (st_kind k) 2 then [ -1; 1; 1; 0; b2z (st_ended k && st_followup k) ]
  else [ -1; b2z (st_ended k && (st_elapsed_ms k <=? st_read_ms k + 1500)); b2z (st_followup k); 1; 1 ].
