(* Correspondence + monitors for the probe suite (C19 and the active-check part of C04). *)
From Helios Require Export Base.Prelude Model.Shutdown.

Record pr_case := mkPrCase {
  pk_n : Z; pk_window : Z; pk_timeout : Z;
  pk_ops : list pop;               (* ticks of the balancer's own ticker made explicit *)
  pk_obs : list (list Z);          (* per op: tick -> backends probed; request -> backends that served; stop -> probes cancelled ([-1] = Stop did not return) *)
  pk_late : Z                      (* probes sent after Stop had returned *)
}.

Fixpoint seqZ (i : Z) (n : nat) : list Z := match n with O => [] | S k => i :: seqZ (i + 1) k end.

Definition pinit (k : pr_case) : pstate :=
  mkPS 0 (map (fun i => mkPB i true 0 0) (seqZ 1 (Z.to_nat (pk_n k)))) [] false.

Definition enc_pout (o : pout) : list Z :=
  match o with PNone => [] | PProbed l => l | PEligible l => l | PStopped l => l end.

Fixpoint insert_sorted (x : Z) (l : list Z) : list Z :=
  match l with [] => [x] | y :: t => if x <=? y then x :: l else y :: insert_sorted x t end.
Definition sort_z (l : list Z) : list Z := fold_right insert_sorted [] l.

Fixpoint first_diff_ll (i : Z) (a b : list (list Z)) : Z :=
  match a, b with
  | [], [] => -1
  | x :: a', y :: b' => if list_eqb (sort_z x) (sort_z y) then first_diff_ll (i + 1) a' b' else i
  | _, _ => i
  end.

(* monitors on the implementation's trace *)
Definition stop_returned (k : pr_case) : bool :=
  forallb (fun oo => match fst oo with PStop => negb (list_eqb (snd oo) [-1]) | _ => true end) (combine (pk_ops k) (pk_obs k)).
Fixpoint no_probe_after_stop (stopped : bool) (l : list (pop * list Z)) : bool :=
  match l with
  | [] => true
  | (PStop, _) :: t => no_probe_after_stop true t
  | (PTick, probed) :: t => (if stopped then match probed with [] => true | _ => false end else true) && no_probe_after_stop stopped t
  | _ :: t => no_probe_after_stop stopped t
  end.
Definition has_stop (k : pr_case) : bool := existsb (fun o => match o with PStop => true | _ => false end) (pk_ops k).
Definition stop_with_inflight (k : pr_case) : bool :=
  existsb (fun oo => match fst oo with PStop => match snd oo with [] => false | _ => true end | _ => false end) (combine (pk_ops k) (pk_obs k)).
Definition count_stops (k : pr_case) : Z := zlen (filter (fun o => match o with PStop => true | _ => false end) (pk_ops k)).

(* C04 / C02 on the implementation's own trace: a backend whose probe failed at instant t (status 500 or transport error;
   the scripted transport answers at once) serves no client request up to and including t + window.  State: now, current
   script of each backend, end of the window of each backend. *)
Definition zget (k : Z) (l : list (Z * Z)) (d : Z) : Z := match lookup k l with Some v => v | None => d end.
Fixpoint window_ok (w now : Z) (scripts untils : list (Z * Z)) (l : list (pop * list Z)) : bool :=
  match l with
  | [] => true
  | (PSet b sc, _) :: t => window_ok w now (update b sc scripts) untils t
  | (PAdvance dt, _) :: t => window_ok w (now + Z.max 0 dt) scripts untils t
  | (PTick, probed) :: t =>
      let untils' := fold_left (fun u i => let sc := zget i scripts 0 in
                                           if Z.eqb sc 1 || Z.eqb sc 2 then update i (now + w) u else u) probed untils in
      window_ok w now scripts untils' t
  | (PRequest, served) :: t =>
      forallb (fun i => match lookup i untils with Some u => u <? now | None => true end) served && window_ok w now scripts untils t
  | (PStop, _) :: t => window_ok w now scripts untils t
  end.

(* result vector: [diff; mon_c19_stop_returns; mon_c19_no_probe_after; nt_c19; nt_c04; mon_c04_probe_window] *)
Definition eval_pr_case (k : pr_case) : list Z :=
  let cfg := mkPCfg (pk_window k) (pk_timeout k) in
  let outs := snd (prun cfg (pinit k) (pk_ops k)) in
  [ first_diff_ll 0 (map enc_pout outs) (pk_obs k);
    b2z (stop_returned k);
    b2z (no_probe_after_stop false (combine (pk_ops k) (pk_obs k)) && Z.eqb (pk_late k) 0);
    b2z (has_stop k && (stop_with_inflight k || (2 <=? count_stops k)));
    b2z (existsb (fun o => match o with PSet _ s => negb (Z.eqb s 0) | _ => false end) (pk_ops k));
    b2z (window_ok (pk_window k) 0 [] [] (combine (pk_ops k) (pk_obs k))) ].

(* ---- sigterm suite (C19, process level): SIGTERM / SIGINT to the real binary with a request and probes in flight ---- *)
Record sg_case := mkSgCase {
  sg_phase : Z;            (* 0 idle, 1 the backend has not sent its header yet, 2 the body is half way *)
  sg_hang_hc : bool;       (* active checks enabled against a health endpoint that never answers *)
  sg_timeout : Z;          (* configured shutdown timeout, seconds *)
  sg_signals : Z;
  sg_completed : bool;     (* the request in flight was answered 200 with its whole body *)
  sg_exit_ms : Z;          (* time from the signal to the exit, -1 = did not exit *)
  sg_code : Z              (* exit status *)
}.
(* result vector: [diff (nothing is predicted beyond the monitors); mon_c19_drains; mon_c19_exits_in_time; nt_c19] *)
Definition eval_sg_case (k : sg_case) : list Z :=
  [ -1; b2z (sg_completed k);
    b2z ((0 <=? sg_exit_ms k) && (sg_exit_ms k <=? sg_timeout k * 1000 + 500) && Z.eqb (sg_code k) 0);
    b2z (negb (Z.eqb (sg_phase k) 0) || sg_hang_hc k) ].

(* ---- race suite (C12): concurrent operation mix on the real balancer under the race detector ---- *)
Record rc_case := mkRcCase {
  rc_cfg : Z;            (* strategy*32 + breaker*16 + limiter*8 + active*4 + passive*2 + pool *)
  rc_goroutines : Z;
  rc_races : Z;          (* DATA RACE reports of the detector during this run *)
  rc_panics : Z;         (* panics other than the proxy's own ErrAbortHandler *)
  rc_deadlock : Z        (* 1 = workers or Stop did not finish within the watchdog *)
}.
(* result vector: [diff (nothing predicted); mon_c12_no_race; mon_c12_no_panic; mon_c12_no_deadlock; nt_c12] *)
Definition eval_rc_case (k : rc_case) : list Z :=
  [ -1; b2z (Z.eqb (rc_races k) 0); b2z (Z.eqb (rc_panics k) 0); b2z (Z.eqb (rc_deadlock k) 0); b2z (8 <=? rc_goroutines k) ].
