(* Correspondence + monitors for the lbseq suite: the real LoadBalancer under virtual time with
   scripted in-memory backends.  Serves C02 C03 C04 C07 C09 C11 C13 (and C19 for Stop). *)
From Helios Require Export Base.Prelude Base.Wrap Base.Bytes Model.Hash Model.Strategy Model.ClientIP
                           Model.Limiter Model.Breaker Model.LB.

Inductive cop :=
| CBegin (rid xff xri remote : Z)      (* header strings as indices into the case's string table *)
| CEnd (rid code : Z)                  (* code = -1 : response aborted mid-body *)
| CAdv (dt : Z)
| CAdd (name w : Z) (ok : bool)
| CRemove (name : Z)
| CStrategy (k : Z)
| CList
| CMetrics (names : list Z)
| CProbe (id : Z) (ok : bool)
| CCleanup
| CStop.

Record lb_case := mkLbCase {
  k_kind : Z;
  k_passive : bool; k_pthr : Z; k_ptimeout : Z;
  k_active : bool;
  k_lim : bool; k_lmax : Z; k_lrate : Z;
  k_brk : bool; k_bmax : Z; k_binterval : Z; k_btimeout : Z; k_bfthr : Z; k_bsthr : Z;
  k_t0 : Z;
  k_tab : list bytes;
  k_ops : list cop;
  k_obs : list (list Z);
  k_rec_from : Z        (* index of the first op of the appended recovery script (C03) *)
}.

Definition case_cfg (k : lb_case) : lbcfg :=
  {| c_passive := k_passive k; c_pthr := k_pthr k; c_ptimeout := k_ptimeout k; c_active := k_active k;
     c_lim := k_lim k; c_lcfg := {| lmax := k_lmax k; lrate := k_lrate k |};
     c_brk := k_brk k;
     c_bcfg := {| maxReq := k_bmax k; interval := k_binterval k; btimeout := k_btimeout k; fthr := k_bfthr k; sthr := k_bsthr k |} |}.

Definition tget (tab : list bytes) (i : Z) : bytes := nth (Z.to_nat i) tab [].

Definition to_lbop (tab : list bytes) (o : cop) : lbop :=
  match o with
  | CBegin rid a b c => LBegin rid {| h_xff := tget tab a; h_xri := tget tab b; h_remote := tget tab c |}
  | CEnd rid code => LEnd rid (if code <? 0 then OAbort else OStatus code)
  | CAdv dt => LAdv dt
  | CAdd n w ok => LAdd n w ok
  | CRemove n => LRemove n
  | CStrategy k => LStrategy k
  | CList => LList
  | CMetrics names => LMetrics names
  | CProbe id ok => LProbe id ok
  | CCleanup => LCleanup
  | CStop => LStop
  end.

(* op classes for the projected correspondences *)
Definition op_class (o : cop) : Z :=
  match o with
  | CBegin _ _ _ _ => 0 | CEnd _ _ => 1
  | CAdd _ _ _ | CRemove _ | CStrategy _ | CList => 2
  | CMetrics _ => 3
  | _ => 4
  end.

Fixpoint proj (cls : Z) (ops : list cop) (outs : list (list Z)) : list Z :=
  match ops, outs with
  | o :: t, out :: outs' =>
      (if Z.eqb (op_class o) cls then (zlen out :: out) else []) ++ proj cls t outs'
  | _, _ => []
  end.

(* ------------------------------------------------------------------------------------------ *)
(* monitors                                                                                    *)

Definition all_in_window (p : list backend) (t : Z) : bool := forallb (fun b => in_window b t) p.

(* classifiers of a 503 "no healthy backend" answered although some backend is outside its window *)
Definition nth_ineligible (p : list backend) (t i : Z) : bool :=
  match nthZ p i with Some b => in_window b t | None => true end.
Definition cls_rr3 (s : lb) : bool :=
  let p := pool s in let n := zlen p in
  match skd (ss s) with
  | RR => (0 <? n) && nth_ineligible p (now s) ((sctr (ss s) + 1) mod n)
                   && nth_ineligible p (now s) ((sctr (ss s) + 2) mod n)
                   && nth_ineligible p (now s) ((sctr (ss s) + 3) mod n)
  | _ => false end.
Definition cls_lcmin (s : lb) : bool :=
  match skd (ss s) with
  | LC => match lc_pick (pool s) with Some b => in_window b (now s) | None => false end
  | _ => false end.
Definition cls_stale (s : lb) : bool :=
  match skd (ss s) with
  | WRR | IPH | IPHC => is_nil (healthy (pool s))
  | _ => false end.

Record mon := {
  m_s : lb;                    (* model state run alongside *)
  m_spec_brk : bstate;         (* C07: breaker spec fed with the property's notion of failure *)
  m_spec_lim : lstate;         (* C09: limiter spec fed with the documented client attribution *)
  m_begins : Z;                (* C13 tallies from the trace *)
  m_inflight : list (Z * Z);   (* rid -> name of dispatched, not yet ended *)
  m_ended : list Z;            (* names of ended dispatches *)
  m_seen_nobackend : bool; m_seen_abort : bool;
  m_last_list : list Z; m_have_list : bool;
  m_pending : Z;               (* pending expectation about the next List: 0 none, 1 add-ok, 2 unchanged, 3 removed *)
  m_pending_name : Z; m_pending_w : Z;
  m_dupnames : bool;           (* a name was re-added while its removed namesake still had requests in flight *)
  ok_c02_disp : bool; ok_c02_503 : bool; c02_cls_rr3 : bool; c02_cls_lc : bool; c02_cls_stale : bool;
  ok_c04_list : bool; ok_c04_only_after : bool; ok_c04_mirror : bool;
  ok_c07 : bool; ok_c09 : bool; ok_c11 : bool; c11_cls_dup : bool;
  ok_c13_total : bool; ok_c13_partition : bool; ok_c13_backend : bool; ok_c13_gauge : bool;
  nt_c02 : bool; nt_c04 : bool; nt_c07 : bool; nt_c09 : bool; nt_c11 : bool; nt_c13 : Z
}.

Definition set_mon_s (m : mon) (s : lb) : mon :=
  {| m_s := s; m_spec_brk := m_spec_brk m; m_spec_lim := m_spec_lim m; m_begins := m_begins m; m_inflight := m_inflight m;
     m_ended := m_ended m; m_seen_nobackend := m_seen_nobackend m; m_seen_abort := m_seen_abort m;
     m_last_list := m_last_list m; m_have_list := m_have_list m; m_pending := m_pending m; m_pending_name := m_pending_name m;
     m_pending_w := m_pending_w m; m_dupnames := m_dupnames m;
     ok_c02_disp := ok_c02_disp m; ok_c02_503 := ok_c02_503 m; c02_cls_rr3 := c02_cls_rr3 m; c02_cls_lc := c02_cls_lc m;
     c02_cls_stale := c02_cls_stale m; ok_c04_list := ok_c04_list m; ok_c04_only_after := ok_c04_only_after m;
     ok_c04_mirror := ok_c04_mirror m; ok_c07 := ok_c07 m; ok_c09 := ok_c09 m; ok_c11 := ok_c11 m; c11_cls_dup := c11_cls_dup m;
     ok_c13_total := ok_c13_total m; ok_c13_partition := ok_c13_partition m; ok_c13_backend := ok_c13_backend m;
     ok_c13_gauge := ok_c13_gauge m; nt_c02 := nt_c02 m; nt_c04 := nt_c04 m; nt_c07 := nt_c07 m; nt_c09 := nt_c09 m;
     nt_c11 := nt_c11 m; nt_c13 := nt_c13 m |}.

Fixpoint list_names (l : list Z) : list Z :=      (* List output is (name, flag, active, weight)* *)
  match l with n :: _ :: _ :: _ :: t => n :: list_names t | _ => [] end.

Fixpoint list_entry (name : Z) (l : list Z) : option (Z * Z * Z) :=   (* last entry with that name *)
  match l with
  | n :: f :: a :: w :: t =>
      match list_entry name t with
      | Some e => Some e
      | None => if Z.eqb n name then Some (f, a, w) else None
      end
  | _ => None
  end.

Fixpoint lookupZ (k : Z) (l : list (Z * Z)) : option Z :=
  match l with [] => None | (k', v) :: t => if Z.eqb k k' then Some v else lookupZ k t end.
Fixpoint removeZ (k : Z) (l : list (Z * Z)) : list (Z * Z) :=
  match l with [] => [] | (k', v) :: t => if Z.eqb k k' then t else (k', v) :: removeZ k t end.

(* List output vs windows of the model: (a) an ejected backend is never listed healthy;
   (b) a backend listed unhealthy is one the model has ejected *)
Fixpoint list_vs_model (s : lb) (p : list backend) (l : list Z) : bool * bool :=
  match p, l with
  | b :: p', n :: f :: a :: w :: l' =>
      let '(x, y) := list_vs_model s p' l' in
      ((if in_window b (now s) then Z.eqb f 0 else true) && x,
       (if Z.eqb f 0 then negb (bflag b) else true) && y)
  | _, _ => (true, true)
  end.

(* Metrics output: head [total; succ; failed; rlim; nentries] then 5 values per name *)
Fixpoint metrics_entries (names : list Z) (l : list Z) : list (Z * (Z * Z * Z * Z * Z)) :=
  match names, l with
  | n :: names', t :: su :: f :: g :: h :: l' => (n, (t, su, f, g, h)) :: metrics_entries names' l'
  | _, _ => []
  end.

Definition mon_step (cfg : lbcfg) (tab : list bytes) (m : mon) (o : cop) (ob : list Z) : mon :=
  let s := m_s m in
  let '(s', _) := lb_step cfg s (to_lbop tab o) in
  let m := set_mon_s m s' in
  match o with
  | CBegin rid a b c =>
      let q := {| h_xff := tget tab a; h_xri := tget tab b; h_remote := tget tab c |} in
      let kind := nth 0 ob (-9) in let x := nth 1 ob (-9) in
      (* C09 spec limiter *)
      let '(sl, lim_ok) :=
        if c_lim cfg then allow (c_lcfg cfg) {| lnow := now s; lbuckets := lbuckets (m_spec_lim m) |} (client_key q)
        else (m_spec_lim m, true) in
      let impl_lim_rej := Z.eqb kind 1 && Z.eqb x 1 in
      let okc09 := Bool.eqb impl_lim_rej (negb lim_ok) in
      (* C07 spec breaker: only requests that pass the gate reach it *)
      let '(sb, bcode) :=
        if c_brk cfg && negb impl_lim_rej then begin (c_bcfg cfg) (advance (m_spec_brk m) (now s - bnow (m_spec_brk m))) rid
        else (m_spec_brk m, 0) in
      let impl_bcode := if Z.eqb kind 1 && Z.eqb x 2 then 1 else if Z.eqb kind 1 && Z.eqb x 3 then 2 else 0 in
      let okc07 := if c_brk cfg && negb impl_lim_rej then Z.eqb bcode impl_bcode else true in
      (* the no-backend 503 completes the breaker call as a success *)
      let sb := if c_brk cfg && Z.eqb kind 1 && Z.eqb x 4 && Z.eqb bcode 0 then finish (c_bcfg cfg) sb rid true else sb in
      (* C02 *)
      let p := pool s in
      let disp := Z.eqb kind 0 in
      let okdisp := if disp then match find_id x p with Some bb => negb (in_window bb (now s)) | None => false end else true in
      let nobk := Z.eqb kind 1 && Z.eqb x 4 in
      let ok503 := if nobk then all_in_window p (now s) else true in
      let name := match find_id x p with Some bb => bname bb | None => -1 end in
      {| m_s := s'; m_spec_brk := sb; m_spec_lim := sl; m_begins := m_begins m + 1;
         m_inflight := (if disp then (rid, name) :: m_inflight m else m_inflight m);
         m_ended := m_ended m; m_seen_nobackend := m_seen_nobackend m || nobk; m_seen_abort := m_seen_abort m;
         m_last_list := m_last_list m; m_have_list := m_have_list m; m_pending := m_pending m;
         m_pending_name := m_pending_name m; m_pending_w := m_pending_w m; m_dupnames := m_dupnames m;
         ok_c02_disp := ok_c02_disp m && okdisp; ok_c02_503 := ok_c02_503 m && ok503;
         c02_cls_rr3 := c02_cls_rr3 m || (negb ok503 && cls_rr3 s); c02_cls_lc := c02_cls_lc m || (negb ok503 && cls_lcmin s);
         c02_cls_stale := c02_cls_stale m || (negb ok503 && cls_stale s);
         ok_c04_list := ok_c04_list m; ok_c04_only_after := ok_c04_only_after m; ok_c04_mirror := ok_c04_mirror m;
         ok_c07 := ok_c07 m && okc07; ok_c09 := ok_c09 m && okc09; ok_c11 := ok_c11 m; c11_cls_dup := c11_cls_dup m;
         ok_c13_total := ok_c13_total m; ok_c13_partition := ok_c13_partition m; ok_c13_backend := ok_c13_backend m;
         ok_c13_gauge := ok_c13_gauge m;
         nt_c02 := nt_c02 m || ((2 <=? zlen p) && existsb (fun bb => in_window bb (now s)) p);
         nt_c04 := nt_c04 m; nt_c07 := nt_c07 m || Z.eqb impl_bcode 1; nt_c09 := nt_c09 m || impl_lim_rej;
         nt_c11 := nt_c11 m; nt_c13 := nt_c13 m |}
  | CEnd rid code =>
      let failed_req := (code <? 0) || (500 <=? code) in
      let sb := if c_brk cfg && (match lookupZ rid (m_inflight m) with Some _ => true | None => false end)
                then finish (c_bcfg cfg) (advance (m_spec_brk m) (now s - bnow (m_spec_brk m))) rid (negb failed_req)
                else m_spec_brk m in
      let name := match lookupZ rid (m_inflight m) with Some n => n | None => -1 end in
      {| m_s := s'; m_spec_brk := sb; m_spec_lim := m_spec_lim m; m_begins := m_begins m;
         m_inflight := removeZ rid (m_inflight m);
         m_ended := name :: m_ended m;
         m_seen_nobackend := m_seen_nobackend m; m_seen_abort := m_seen_abort m || (code <? 0);
         m_last_list := m_last_list m; m_have_list := m_have_list m; m_pending := m_pending m;
         m_pending_name := m_pending_name m; m_pending_w := m_pending_w m; m_dupnames := m_dupnames m;
         ok_c02_disp := ok_c02_disp m; ok_c02_503 := ok_c02_503 m; c02_cls_rr3 := c02_cls_rr3 m; c02_cls_lc := c02_cls_lc m;
         c02_cls_stale := c02_cls_stale m; ok_c04_list := ok_c04_list m; ok_c04_only_after := ok_c04_only_after m;
         ok_c04_mirror := ok_c04_mirror m; ok_c07 := ok_c07 m; ok_c09 := ok_c09 m; ok_c11 := ok_c11 m; c11_cls_dup := c11_cls_dup m;
         ok_c13_total := ok_c13_total m; ok_c13_partition := ok_c13_partition m; ok_c13_backend := ok_c13_backend m;
         ok_c13_gauge := ok_c13_gauge m; nt_c02 := nt_c02 m;
         nt_c04 := nt_c04 m || (500 <=? code); nt_c07 := nt_c07 m; nt_c09 := nt_c09 m; nt_c11 := nt_c11 m;
         nt_c13 := nt_c13 m |}
  | CList =>
      let '(a, b) := list_vs_model s' (pool s') ob in
      (* expectation left by the preceding admin op *)
      let names := list_names ob in
      let okc11 :=
        match m_pending m with
        | 1 => match list_entry (m_pending_name m) ob with
               | Some (f, act, w) => Z.eqb f 1 && Z.eqb w (if m_pending_w m <? 1 then 1 else m_pending_w m)
                                     && list_eqb (list_names (m_last_list m) ++ [m_pending_name m]) names
               | None => false end
        | 2 => list_eqb (m_last_list m) ob
        | 3 => negb (memZ (m_pending_name m) names)
        | _ => true
        end in
      {| m_s := s'; m_spec_brk := m_spec_brk m; m_spec_lim := m_spec_lim m; m_begins := m_begins m; m_inflight := m_inflight m;
         m_ended := m_ended m; m_seen_nobackend := m_seen_nobackend m; m_seen_abort := m_seen_abort m;
         m_last_list := ob; m_have_list := true; m_pending := 0; m_pending_name := 0; m_pending_w := 0; m_dupnames := m_dupnames m;
         ok_c02_disp := ok_c02_disp m; ok_c02_503 := ok_c02_503 m; c02_cls_rr3 := c02_cls_rr3 m; c02_cls_lc := c02_cls_lc m;
         c02_cls_stale := c02_cls_stale m; ok_c04_list := ok_c04_list m && a; ok_c04_only_after := ok_c04_only_after m && b;
         ok_c04_mirror := ok_c04_mirror m; ok_c07 := ok_c07 m; ok_c09 := ok_c09 m;
         ok_c11 := ok_c11 m && (if m_have_list m then okc11 else true);
         c11_cls_dup := c11_cls_dup m || (negb okc11 && m_dupnames m);
         ok_c13_total := ok_c13_total m; ok_c13_partition := ok_c13_partition m; ok_c13_backend := ok_c13_backend m;
         ok_c13_gauge := ok_c13_gauge m; nt_c02 := nt_c02 m;
         nt_c04 := nt_c04 m; nt_c07 := nt_c07 m; nt_c09 := nt_c09 m; nt_c11 := nt_c11 m; nt_c13 := nt_c13 m |}
  | CAdd name w ok =>
      let r := nth 0 ob (-9) in
      let dup := memZ name (list_names (m_last_list m)) in
      let readd := existsb (fun bb => Z.eqb (bname bb) name && (0 <? bactive bb)) (dead s) in
      {| m_s := s'; m_spec_brk := m_spec_brk m; m_spec_lim := m_spec_lim m; m_begins := m_begins m; m_inflight := m_inflight m;
         m_ended := m_ended m; m_seen_nobackend := m_seen_nobackend m; m_seen_abort := m_seen_abort m;
         m_last_list := m_last_list m; m_have_list := m_have_list m;
         m_pending := (if Z.eqb r 0 then 1 else 2); m_pending_name := name; m_pending_w := w;
         m_dupnames := m_dupnames m || (readd && Z.eqb r 0);
         ok_c02_disp := ok_c02_disp m; ok_c02_503 := ok_c02_503 m; c02_cls_rr3 := c02_cls_rr3 m; c02_cls_lc := c02_cls_lc m;
         c02_cls_stale := c02_cls_stale m; ok_c04_list := ok_c04_list m; ok_c04_only_after := ok_c04_only_after m;
         ok_c04_mirror := ok_c04_mirror m; ok_c07 := ok_c07 m; ok_c09 := ok_c09 m;
         (* add fails exactly when the address does not parse or the name is already listed *)
         ok_c11 := ok_c11 m && (if m_have_list m then Bool.eqb (Z.eqb r 0) (ok && negb dup) else true);
         c11_cls_dup := c11_cls_dup m;
         ok_c13_total := ok_c13_total m; ok_c13_partition := ok_c13_partition m; ok_c13_backend := ok_c13_backend m;
         ok_c13_gauge := ok_c13_gauge m; nt_c02 := nt_c02 m; nt_c04 := nt_c04 m; nt_c07 := nt_c07 m; nt_c09 := nt_c09 m;
         nt_c11 := nt_c11 m || negb ok || dup; nt_c13 := nt_c13 m |}
  | CRemove name =>
      {| m_s := s'; m_spec_brk := m_spec_brk m; m_spec_lim := m_spec_lim m; m_begins := m_begins m; m_inflight := m_inflight m;
         m_ended := m_ended m; m_seen_nobackend := m_seen_nobackend m; m_seen_abort := m_seen_abort m;
         m_last_list := m_last_list m; m_have_list := m_have_list m;
         m_pending := 3; m_pending_name := name; m_pending_w := 0; m_dupnames := m_dupnames m;
         ok_c02_disp := ok_c02_disp m; ok_c02_503 := ok_c02_503 m; c02_cls_rr3 := c02_cls_rr3 m; c02_cls_lc := c02_cls_lc m;
         c02_cls_stale := c02_cls_stale m; ok_c04_list := ok_c04_list m; ok_c04_only_after := ok_c04_only_after m;
         ok_c04_mirror := ok_c04_mirror m; ok_c07 := ok_c07 m; ok_c09 := ok_c09 m; ok_c11 := ok_c11 m; c11_cls_dup := c11_cls_dup m;
         ok_c13_total := ok_c13_total m; ok_c13_partition := ok_c13_partition m; ok_c13_backend := ok_c13_backend m;
         ok_c13_gauge := ok_c13_gauge m; nt_c02 := nt_c02 m; nt_c04 := nt_c04 m; nt_c07 := nt_c07 m; nt_c09 := nt_c09 m;
         nt_c11 := nt_c11 m || negb (memZ name (list_names (m_last_list m))) || negb (is_nil (m_inflight m)); nt_c13 := nt_c13 m |}
  | CStrategy k =>
      let r := nth 0 ob (-9) in
      {| m_s := s'; m_spec_brk := m_spec_brk m; m_spec_lim := m_spec_lim m; m_begins := m_begins m; m_inflight := m_inflight m;
         m_ended := m_ended m; m_seen_nobackend := m_seen_nobackend m; m_seen_abort := m_seen_abort m;
         m_last_list := m_last_list m; m_have_list := m_have_list m;
         m_pending := 2; m_pending_name := 0; m_pending_w := 0; m_dupnames := m_dupnames m;
         ok_c02_disp := ok_c02_disp m; ok_c02_503 := ok_c02_503 m; c02_cls_rr3 := c02_cls_rr3 m; c02_cls_lc := c02_cls_lc m;
         c02_cls_stale := c02_cls_stale m; ok_c04_list := ok_c04_list m; ok_c04_only_after := ok_c04_only_after m;
         ok_c04_mirror := ok_c04_mirror m; ok_c07 := ok_c07 m; ok_c09 := ok_c09 m;
         ok_c11 := ok_c11 m && Bool.eqb (Z.eqb r 0) ((0 <=? k) && (k <=? 4)); c11_cls_dup := c11_cls_dup m;
         ok_c13_total := ok_c13_total m; ok_c13_partition := ok_c13_partition m; ok_c13_backend := ok_c13_backend m;
         ok_c13_gauge := ok_c13_gauge m; nt_c02 := nt_c02 m; nt_c04 := nt_c04 m; nt_c07 := nt_c07 m; nt_c09 := nt_c09 m;
         nt_c11 := nt_c11 m || negb (Z.eqb r 0) || negb (is_nil (m_inflight m)); nt_c13 := nt_c13 m |}
  | CMetrics names =>
      let tot := nth 0 ob (-9) in let su := nth 1 ob (-9) in let fa := nth 2 ob (-9) in let rl := nth 3 ob (-9) in
      let entries := metrics_entries names (skipn 5 ob) in
      let quiescent := is_nil (m_inflight m) in
      let okbackend := forallb (fun e => let '(n, (t, _, _, _, _)) := e in Z.eqb t (count_id n (m_ended m))) entries in
      (* a name whose removed namesake is still draining requests is published by two objects in
         turn; the gauge claim is checked for every other name, and for all names at quiescence *)
      let draining (n : Z) := existsb (fun bb => Z.eqb (bname bb) n && (0 <? bactive bb)) (dead s') in
      let okgauge := forallb (fun e => let '(n, (_, _, _, g, _)) := e in
                                        draining n || Z.eqb g (count_id n (map snd (m_inflight m)))) entries in
      (* mirror: an ejected backend is never reported healthy *)
      let okmirror := forallb (fun bb => if in_window bb (now s') then
                                            match lookup (bname bb) entries with
                                            | Some (_, _, _, _, h) =>
                                                (* another live backend of the same name may legitimately be healthy *)
                                                Z.eqb h 0 || (1 <? count_id (bname bb) (map bname (pool s')))
                                            | None => true end
                                          else true) (pool s') in
      {| m_s := s'; m_spec_brk := m_spec_brk m; m_spec_lim := m_spec_lim m; m_begins := m_begins m; m_inflight := m_inflight m;
         m_ended := m_ended m; m_seen_nobackend := m_seen_nobackend m; m_seen_abort := m_seen_abort m;
         m_last_list := m_last_list m; m_have_list := m_have_list m; m_pending := m_pending m;
         m_pending_name := m_pending_name m; m_pending_w := m_pending_w m; m_dupnames := m_dupnames m;
         ok_c02_disp := ok_c02_disp m; ok_c02_503 := ok_c02_503 m; c02_cls_rr3 := c02_cls_rr3 m; c02_cls_lc := c02_cls_lc m;
         c02_cls_stale := c02_cls_stale m; ok_c04_list := ok_c04_list m; ok_c04_only_after := ok_c04_only_after m;
         ok_c04_mirror := ok_c04_mirror m && okmirror; ok_c07 := ok_c07 m; ok_c09 := ok_c09 m; ok_c11 := ok_c11 m;
         c11_cls_dup := c11_cls_dup m;
         ok_c13_total := ok_c13_total m && Z.eqb tot (m_begins m);
         ok_c13_partition := ok_c13_partition m && (if quiescent then Z.eqb tot (su + fa + rl) else true);
         ok_c13_backend := ok_c13_backend m && (if quiescent then okbackend else true);
         ok_c13_gauge := ok_c13_gauge m && okgauge;
         nt_c02 := nt_c02 m; nt_c04 := nt_c04 m; nt_c07 := nt_c07 m; nt_c09 := nt_c09 m; nt_c11 := nt_c11 m;
         nt_c13 := nt_c13 m + (if quiescent then 1 else 0) |}
  | _ => m
  end.

Definition mon_init (cfg : lbcfg) (k : skind) (t0 : Z) : mon :=
  {| m_s := lb_init cfg k t0; m_spec_brk := binit t0; m_spec_lim := linit t0; m_begins := 0; m_inflight := []; m_ended := [];
     m_seen_nobackend := false; m_seen_abort := false; m_last_list := []; m_have_list := false; m_pending := 0;
     m_pending_name := 0; m_pending_w := 0; m_dupnames := false;
     ok_c02_disp := true; ok_c02_503 := true; c02_cls_rr3 := false; c02_cls_lc := false; c02_cls_stale := false;
     ok_c04_list := true; ok_c04_only_after := true; ok_c04_mirror := true; ok_c07 := true; ok_c09 := true; ok_c11 := true;
     c11_cls_dup := false; ok_c13_total := true; ok_c13_partition := true; ok_c13_backend := true; ok_c13_gauge := true;
     nt_c02 := false; nt_c04 := false; nt_c07 := false; nt_c09 := false; nt_c11 := false; nt_c13 := 0 |}.

Fixpoint mon_run (cfg : lbcfg) (tab : list bytes) (m : mon) (ops : list cop) (obs : list (list Z)) : mon :=
  match ops, obs with
  | o :: t, ob :: obs' => mon_run cfg tab (mon_step cfg tab m o ob) t obs'
  | _, _ => m
  end.

(* C03 recovery script: from index [from] on, every Begin is dispatched and ends 200; at the end all
   gauges are zero (checked by the final Metrics op through ok_c13_gauge) *)
Fixpoint rec_ok (i from : Z) (ops : list cop) (obs : list (list Z)) : bool :=
  match ops, obs with
  | o :: t, ob :: obs' =>
      (if from <=? i then
         match o with
         | CBegin _ _ _ _ => Z.eqb (nth 0 ob (-9)) 0
         | CEnd _ _ => Z.eqb (nth 0 ob (-9)) 200
         | _ => true end
       else true) && rec_ok (i + 1) from t obs'
  | _, _ => true
  end.

(* C03: a faulted exchange ends as an error response (5xx) or an aborted connection (-1), never as a success *)
Fixpoint faults_visible (ops : list cop) (obs : list (list Z)) : bool :=
  match ops, obs with
  | CEnd _ code :: t, ob :: obs' =>
      (if code <? 0 then nth 0 ob 0 <? 0 else if 500 <=? code then 500 <=? nth 0 ob 0 else true) && faults_visible t obs'
  | _ :: t, _ :: obs' => faults_visible t obs'
  | _, _ => true
  end.

Fixpoint has_fault (n : Z) (ops : list cop) : bool :=
  match ops with
  | [] => false
  | CEnd _ code :: t => if 0 <? n then (code <? 0) || (500 <=? code) || has_fault (n - 1) t else false
  | _ :: t => if 0 <? n then has_fault (n - 1) t else false
  end.

(* result vector *)
Definition eval_lb_case (k : lb_case) : list Z :=
  let cfg := case_cfg k in
  let kind := skind_of (k_kind k) in
  let ops := map (to_lbop (k_tab k)) (k_ops k) in
  let outs := snd (lb_run cfg (lb_init cfg kind (k_t0 k)) ops) in
  let m := mon_run cfg (k_tab k) (mon_init cfg kind (k_t0 k)) (k_ops k) (k_obs k) in
  [ first_diff (proj 0 (k_ops k) outs) (proj 0 (k_ops k) (k_obs k));      (* 0 diff_begin *)
    first_diff (proj 1 (k_ops k) outs) (proj 1 (k_ops k) (k_obs k));      (* 1 diff_end *)
    first_diff (proj 2 (k_ops k) outs) (proj 2 (k_ops k) (k_obs k));      (* 2 diff_admin (incl. List) *)
    first_diff (proj 3 (k_ops k) outs) (proj 3 (k_ops k) (k_obs k));      (* 3 diff_metrics *)
    b2z (ok_c02_disp m); b2z (ok_c02_503 m);                                (* 4 5 *)
    b2z (c02_cls_rr3 m); b2z (c02_cls_lc m); b2z (c02_cls_stale m);         (* 6 7 8 *)
    b2z (ok_c04_list m); b2z (ok_c04_only_after m); b2z (ok_c04_mirror m);  (* 9 10 11 *)
    b2z (ok_c07 m); b2z (ok_c09 m);                                         (* 12 13 *)
    b2z (ok_c11 m); b2z (m_dupnames m);                                     (* 14 15: 15 = classifier re-add while draining *)
    b2z (ok_c13_total m); b2z (ok_c13_partition m); b2z (ok_c13_backend m); b2z (ok_c13_gauge m);   (* 16..19 *)
    b2z (m_seen_nobackend m); b2z (m_seen_abort m);                         (* 20 21 classifiers for C13 *)
    b2z (rec_ok 0 (k_rec_from k) (k_ops k) (k_obs k));                      (* 22 mon_c03_recover *)
    b2z (nt_c02 m); b2z (nt_c04 m); b2z (nt_c07 m); b2z (nt_c09 m); b2z (nt_c11 m);   (* 23..27 *)
    b2z (2 <=? nt_c13 m);                                                   (* 28 *)
    b2z (has_fault (k_rec_from k) (k_ops k));                               (* 29 nt_c03 *)
    b2z (faults_visible (k_ops k) (k_obs k)) ].                             (* 30 mon_c03_fault_visible *)
