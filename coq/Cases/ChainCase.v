(* Correspondence + monitors for the chain suite (C17): plugins.BuildChain on generated chains (built-ins with valid and
   invalid options, unknown names, a tracing probe plugin registered through RegisterBuiltin), one request through every
   built chain, and the real binary started on a sample of the chains. *)
From Helios Require Export Base.Prelude Base.Bytes Model.Chain.

Definition n_vprobe : bytes := [118;112;114;111;98;101].
Definition k_reject : bytes := [114;101;106;101;99;116].

Definition is_probe (e : bytes * opts) : bool := bytes_eqb (fst e) n_vprobe.
Definition entry_ok' (e : bytes * opts) : bool := if is_probe e then true else entry_ok e.
Definition build_ok' (enabled : bool) (chain : list (bytes * opts)) : bool :=
  if negb enabled then true else match chain with [] => true | _ => forallb entry_ok' (rev chain) end.
Definition rejects' (key : bytes) (len : Z) (e : bytes * opts) : bool :=
  if is_probe e then match oget k_reject (snd e) with Some (VBool true) => true | _ => false end
  else entry_rejects key len e.

Record ch_case := mkChCase {
  ch_enabled : bool;
  ch_chain : list (bytes * opts);
  ch_key : bytes; ch_len : Z;        (* the request: X-API-Key value, declared Content-Length *)
  ch_built : bool;                   (* BuildChain returned a handler *)
  ch_trace : list Z;                 (* probe events and the backend, in order: Enter i = 10i+1, Reject i = 10i+2, Exit i = 10i+3, Backend = 0 *)
  ch_proc : Z                        (* the real binary on this chain: -1 not run, 0 exited without listening, 1 listening *)
}.

Fixpoint indexed {A} (i : Z) (l : list A) : list (Z * A) :=
  match l with [] => [] | x :: t => (i, x) :: indexed (i + 1) t end.

Definition enc (e : ev) : Z :=
  match e with Enter i => 10 * i + 1 | Reject i => 10 * i + 2 | Exit i => 10 * i + 3 | Backend => 0 end.
Definition ev_index (e : ev) : option Z := match e with Enter i | Reject i | Exit i => Some i | Backend => None end.

(* predicted trace, projected on what the probes and the base handler can record *)
Definition predict_trace (k : ch_case) : list Z :=
  let chain := if ch_enabled k then ch_chain k else [] in
  let ix := indexed 0 chain in
  let ps := map (fun ie => (fst ie, rejects' (ch_key k) (ch_len k) (snd ie))) ix in
  let probe_ix := map fst (filter (fun ie => is_probe (snd ie)) ix) in
  map enc (filter (fun e => match ev_index e with Some i => memZ i probe_ix | None => true end) (serve ps)).

Definition diff_chain (k : ch_case) : Z :=
  let ok := build_ok' (ch_enabled k) (ch_chain k) in
  if negb (Bool.eqb ok (ch_built k)) then 0
  else if ok && negb (list_eqb (predict_trace k) (ch_trace k)) then 1
  else if (0 <=? ch_proc k) && negb (Z.eqb (ch_proc k) (b2z ok)) then 2
  else -1.

(* monitors, from the observation alone *)
(* fail closed: an unknown name or options the documentation rules out never yield a handler / a listening process *)
Definition known_names : list bytes := [n_logging; n_headers; n_custom_auth; n_request_id; n_size_limit; n_gzip; n_vprobe].
Definition has_unknown (k : ch_case) : bool :=
  ch_enabled k && existsb (fun e => negb (existsb (bytes_eqb (fst e)) known_names)) (ch_chain k).
Definition mon_fail_closed (k : ch_case) : bool :=
  if ch_enabled k && negb (forallb entry_ok' (ch_chain k)) then negb (ch_built k) && negb (Z.eqb (ch_proc k) 1) else true.
(* order: the Enter events of the probes are increasing, the Exit events decreasing, exits mirror enters *)
Fixpoint increasing (l : list Z) : bool :=
  match l with x :: ((y :: _) as t) => (x <? y) && increasing t | _ => true end.
Definition enters_of (t : list Z) : list Z := map (fun z => z / 10) (filter (fun z => Z.eqb (z mod 10) 1 && negb (Z.eqb z 0)) t).
Definition exits_of (t : list Z) : list Z := map (fun z => z / 10) (filter (fun z => Z.eqb (z mod 10) 3) t).
Definition rejects_of (t : list Z) : list Z := map (fun z => z / 10) (filter (fun z => Z.eqb (z mod 10) 2) t).
Definition mon_order (k : ch_case) : bool :=
  if ch_built k then increasing (enters_of (ch_trace k)) && list_eqb (exits_of (ch_trace k)) (rev (enters_of (ch_trace k))) else true.
(* gating: after a rejection (by a probe, custom-auth or size_limit) no later probe and no backend *)
Definition first_rejecting (k : ch_case) : option Z :=
  match filter (fun ie => rejects' (ch_key k) (ch_len k) (snd ie)) (indexed 0 (if ch_enabled k then ch_chain k else [])) with
  | [] => None | ie :: _ => Some (fst ie) end.
Definition mon_gate (k : ch_case) : bool :=
  if ch_built k then
    match first_rejecting k with
    | Some i => negb (memZ 0 (ch_trace k))
                && list_eqb (enters_of (ch_trace k))
                            (filter (fun j => j <=? i) (map fst (filter (fun ie => is_probe (snd ie)) (indexed 0 (if ch_enabled k then ch_chain k else [])))))
    | None => memZ 0 (ch_trace k)
                && list_eqb (enters_of (ch_trace k)) (map fst (filter (fun ie => is_probe (snd ie)) (indexed 0 (if ch_enabled k then ch_chain k else []))))
    end
  else true.

(* result vector: [diff; mon_fail_closed; mon_order; mon_gate; nt_c17] *)
Definition eval_ch_case (k : ch_case) : list Z :=
  [ diff_chain k; b2z (mon_fail_closed k); b2z (mon_order k); b2z (mon_gate k);
    b2z ((2 <=? zlen (ch_chain k)) || negb (build_ok' (ch_enabled k) (ch_chain k))
         || match first_rejecting k with Some _ => true | None => false end) ].
