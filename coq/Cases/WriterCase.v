(* Correspondence + monitors for the writer suite (C14, C15, C17 order part): plugin chains around a
   scripted handler, served by a real net/http server, observed by a raw TCP client. *)
From Helios Require Export Base.Prelude Base.Bytes Model.RespWriter.

(* chain elements, first listed = outermost *)
Inductive plug := PLogging | PSizeLimit (maxreq maxresp : Z) | PGzip (cfg : gzcfg).

(* logging plugin's statusRecorder: an explicit WriteHeader(200) before the first Write when no
   WriteHeader was seen *)
Fixpoint lg_run (wrote : bool) (cs : list wcall) : list wcall :=
  match cs with
  | [] => []
  | CHead c :: t => CHead c :: lg_run true t
  | CWrite p :: t => (if wrote then [CWrite p] else [CHead 200; CWrite p]) ++ lg_run true t
  | c :: t => c :: lg_run wrote t
  end.

(* strings.Split(ae, ","), TrimSpace, == "gzip" *)
Fixpoint split_comma (cur : bytes) (s : bytes) : list bytes :=
  match s with
  | [] => [rev cur]
  | c :: t => if Z.eqb c 44 then rev cur :: split_comma [] t else split_comma (c :: cur) t
  end.
Definition gzip_tok : bytes := [103; 122; 105; 112].
Definition contains_gzip (ae : bytes) : bool :=
  existsb (fun tok => bytes_eqb (trim_space tok) gzip_tok) (split_comma [] ae).

Definition plug_transform (ae : bytes) (p : plug) (cs : list wcall) : list wcall :=
  match p with
  | PLogging => lg_run false cs
  | PSizeLimit _ maxresp => sl_transform maxresp cs
  | PGzip cfg => gz_transform cfg (contains_gzip ae) cs
  end.

(* the handler's calls pass the innermost (last listed) wrapper first *)
Definition chain_transform (ae : bytes) (chain : list plug) (cs : list wcall) : list wcall :=
  fold_right (plug_transform ae) cs chain.

(* request side: every size_limit of the chain applies its gate, outermost first *)
Fixpoint chain_request (chain : list plug) (declared : option Z) (actual : Z) : option Z :=
  match chain with
  | [] => Some actual
  | PSizeLimit maxreq _ :: t =>
      match sl_request maxreq declared actual with
      | None => None
      | Some k => match chain_request t declared actual with None => None | Some k' => Some (Z.min k k') end
      end
  | _ :: t => chain_request t declared actual
  end.

Record wr_case := mkWrCase {
  w_chain : list plug; w_ae : bytes;
  w_declared : option Z; w_actual : Z;           (* request body: declared length (None = chunked), bytes sent *)
  w_head : bool;                                  (* HEAD request: no body reaches the client *)
  w_abort : bool;                                 (* the handler panics with ErrAbortHandler when a Write is refused *)
  w_script : list wcall;
  w_obs : list Z
  (* observed: [handler called; request bytes the handler could read; same_as_direct; status; ct; ce; decoded;
                n_interim; interim...; n_app; k; v; ...] *)
}.

Fixpoint flat_kv (l : hmap) : list Z := match l with [] => [] | (k, v) :: t => k :: v :: flat_kv t end.

Fixpoint sort_insert (kv : Z * Z) (l : hmap) : hmap :=
  match l with [] => [kv] | x :: t => if fst kv <=? fst x then kv :: l else x :: sort_insert kv t end.
Definition sort_kv (l : hmap) : hmap := fold_right sort_insert [] l.

Definition oz (o : option Z) : Z := match o with Some z => z | None => -1 end.

(* the chain when the handler is aborted: nothing runs after next.ServeHTTP (no finishing of size_limit, no gzip Finish) *)
Definition plug_transform_aborted (ae : bytes) (p : plug) (cs : list wcall) : list wcall :=
  match p with
  | PLogging => lg_run false cs
  | PSizeLimit _ maxresp => snd (sl_run (slw0 maxresp) cs)
  | PGzip cfg => if contains_gzip ae then snd (gz_run cfg gzw0 cs) else cs
  end.
Definition innermost_limit (chain : list plug) : option Z :=
  match rev chain with PSizeLimit _ m :: _ => Some m | _ => None end.
(* Some prefix = the handler aborted after that prefix of its script *)
Definition aborted_prefix (k : wr_case) : option (list wcall) :=
  if w_abort k then
    match innermost_limit (w_chain k) with
    | Some m => let '(pre, failed) := sl_cut (slw0 m) (w_script k) in if failed then Some pre else None
    | None => None
    end
  else None.

(* predicted observation; ct is only predicted when the script sets it (the server may sniff one otherwise) *)
Definition predict (k : wr_case) : list Z :=
  match chain_request (w_chain k) (w_declared k) (w_actual k) with
  | None => [0; 0; -9; 413]
  | Some readable =>
      let v := match aborted_prefix k with
               | Some pre => view_aborted (base_run base0 (fold_right (plug_transform_aborted (w_ae k)) pre (w_chain k)))
               | None => view (base_run base0 (chain_transform (w_ae k) (w_chain k) (w_script k)))
               end in
      [1; readable; -9; v_status v; oz (v_ct v); oz (v_ce v); (if w_head k then 0 else oz (v_decoded v)); zlen (v_interim v)] ++ v_interim v
      ++ [zlen (v_app v)] ++ flat_kv (sort_kv (v_app v))
  end.

(* compare, ignoring the differential flag (index 2) and an unpredicted content type *)
Definition obs_match (pred obs : list Z) : Z :=
  match pred with
  | [0; 0; _; 413] => if Z.eqb (nth 0 obs 9) 0 && Z.eqb (nth 3 obs 0) 413 then -1 else 0
  | _ =>
      let fix go (i : Z) (p o : list Z) : Z :=
        match p, o with
        | [], [] => -1
        | x :: p', y :: o' =>
            if Z.eqb i 2 || (Z.eqb i 4 && Z.eqb x (-1)) || Z.eqb x y then go (i + 1) p' o' else i
        | _, _ => i
        end in go 0 pred obs
  end.

Definition handler_status_of (cs : list wcall) : Z := v_status (view (base_run base0 cs)).
Fixpoint has_sl (chain : list plug) : bool := match chain with [] => false | PSizeLimit _ _ :: _ => true | _ :: t => has_sl t end.
Fixpoint has_gz (chain : list plug) : bool := match chain with [] => false | PGzip _ :: _ => true | _ :: t => has_gz t end.
Fixpoint min_resp (chain : list plug) : Z :=
  match chain with [] => 1000000000 | PSizeLimit _ m :: t => Z.min m (min_resp t) | _ :: t => min_resp t end.
Fixpoint max_req (chain : list plug) : Z :=
  match chain with [] => 1000000000 | PSizeLimit m _ :: t => Z.min m (max_req t) | _ :: t => max_req t end.

(* C14 monitors on the implementation's answers:
   - bound: the client never receives more than max_response_body body bytes (decoded length of the stream)
   - request: the handler reads at most max_request_body bytes; a declared length above it is rejected with 413
     before the handler; a body of exactly the limit passes in full
   - transparent: exchange within the limits and no gzip in the chain => identical to the direct exchange *)
Definition c14_bound (k : wr_case) : bool :=
  if has_sl (w_chain k) && negb (has_gz (w_chain k)) then (nth 6 (w_obs k) 0 <=? min_resp (w_chain k)) else true.
Definition c14_request (k : wr_case) : bool :=
  if has_sl (w_chain k) then
    let called := nth 0 (w_obs k) 0 in let read := nth 1 (w_obs k) 0 in
    (read <=? max_req (w_chain k))
    && (match w_declared k with
        | Some n => if max_req (w_chain k) <? n then Z.eqb called 0 && Z.eqb (nth 3 (w_obs k) 0) 413
                    else Z.eqb called 1 && Z.eqb read (Z.min (w_actual k) n)
        | None => Z.eqb called 1 && Z.eqb read (Z.min (w_actual k) (max_req (w_chain k)))
        end)
  else true.
Definition within_limits (k : wr_case) : bool :=
  (written_total (w_script k) <=? min_resp (w_chain k))
  && (match w_declared k with Some n => n <=? max_req (w_chain k) | None => w_actual k <=? max_req (w_chain k) end).
Definition c14_transparent (k : wr_case) : bool :=
  if has_sl (w_chain k) && negb (has_gz (w_chain k)) && within_limits k && wf_script (w_script k)
  then Z.eqb (nth 2 (w_obs k) 0) 1 else true.

(* 413 if the excess is detected before anything was sent: the first refused write comes before any accepted write or flush,
   and the response is not a HEAD / gzip one.  Also when the handler is aborted right after (the proxy's behaviour). *)
Fixpoint nothing_sent_before_refusal (w : slw) (cs : list wcall) : bool :=
  match cs with
  | [] => false
  | CWrite p :: t => if sl_reached w || (sl_limit w <? sl_written w + payload_len p) then true else false
  | CFlush :: _ => false
  | c :: t => nothing_sent_before_refusal (fst (sl_step w c)) t
  end.
Definition c14_413 (k : wr_case) : bool :=
  match w_chain k with
  | [PSizeLimit _ m] | [PLogging; PSizeLimit _ m] =>
      if Z.eqb (nth 0 (w_obs k) 0) 1 && negb (w_head k) && wf_script (w_script k) && nothing_sent_before_refusal (slw0 m) (w_script k)
         && body_allowed (handler_status_of (w_script k))
      then Z.eqb (nth 3 (w_obs k) 0) 413 else true
  | _ => true
  end.

(* C15 monitors: decoding what the client received under the headers it received gives the stream bytes the
   handler wrote (within the size limit, if any), with the handler's status; compressed only if allowed *)
Definition handler_status (cs : list wcall) : Z := v_status (view (base_run base0 cs)).
Definition c15_decodes (k : wr_case) : bool :=
  if has_gz (w_chain k) && Z.eqb (nth 0 (w_obs k) 0) 1 && negb (w_head k) && negb (has_sl (w_chain k)) then
    let direct := view (base_run base0 (w_script k)) in
    (* the status is the handler's for EVERY script (a second WriteHeader is as superfluous behind the plugin as without it);
       the body claim is made for well-formed scripts *)
    Z.eqb (nth 3 (w_obs k) 0) (v_status direct)
    && (if wf_script (w_script k) then Z.eqb (nth 6 (w_obs k) 0) (oz (v_decoded direct)) else true)
  else true.
Definition c15_only_if (k : wr_case) : bool :=
  (* compressed (ce observed 1 although the script did not set it) only if AE lists gzip *)
  if has_gz (w_chain k) && Z.eqb (nth 5 (w_obs k) 0) 1 && negb (existsb (fun c => match c with CSet 3 _ => true | _ => false end) (w_script k))
  then contains_gzip (w_ae k) else true.
Definition c15_identical_when_plain (k : wr_case) : bool :=
  (* AE does not list gzip => byte-identical, header-identical to the direct exchange *)
  if has_gz (w_chain k) && negb (has_sl (w_chain k)) && negb (contains_gzip (w_ae k)) && Z.eqb (nth 0 (w_obs k) 0) 1
  then Z.eqb (nth 2 (w_obs k) 0) 1 else true.

(* spec-level eligibility, from the handler's own script: the response may be compressed only if ... *)
Fixpoint first_gz (chain : list plug) : option gzcfg :=
  match chain with [] => None | PGzip c :: _ => Some c | _ :: t => first_gz t end.
Definition script_sets_ce (cs : list wcall) : bool := existsb (fun c => match c with CSet 3 _ => true | _ => false end) cs.
Definition eligible (k : wr_case) : bool :=
  match first_gz (w_chain k) with
  | None => false
  | Some cfg =>
      let d := view (base_run base0 (w_script k)) in
      let total := written_total (w_script k) in
      contains_gzip (w_ae k) && (0 <? total) && (gz_min cfg <=? total) && negb (script_sets_ce (w_script k))
      && (match v_ct d with Some ct => memZ ct (gz_types cfg) | None => false end)
      && body_allowed (v_status d)
  end.
(* compressed by the plugin (Content-Encoding gzip observed although the handler did not set one) => eligible *)
Definition c15_conditions (k : wr_case) : bool :=
  (* only when the handler ran: a rejection produced by an inner plugin (size_limit's 413 text) is that plugin's
     own response, which gzip may compress like any other *)
  if has_gz (w_chain k) && Z.eqb (nth 0 (w_obs k) 0) 1 && Z.eqb (nth 5 (w_obs k) 0) 1 && negb (script_sets_ce (w_script k)) then eligible k else true.
(* not eligible => delivered byte- and header-identical to the direct exchange *)
Definition c15_identical_unless_eligible (k : wr_case) : bool :=
  if has_gz (w_chain k) && negb (has_sl (w_chain k)) && negb (eligible k) && Z.eqb (nth 0 (w_obs k) 0) 1 && wf_script (w_script k)
  then Z.eqb (nth 2 (w_obs k) 0) 1 else true.

(* result vector: [diff; mon_c14_bound; mon_c14_request; mon_c14_transparent; mon_c15_decodes; mon_c15_only_if;
                   mon_c15_plain_identical; nt_c14; nt_c15] *)
Definition eval_wr_case (k : wr_case) : list Z :=
  [ obs_match (predict k) (w_obs k);
    b2z (c14_bound k && c14_413 k); b2z (c14_request k); b2z (c14_transparent k);
    b2z (c15_decodes k); b2z (c15_only_if k && c15_conditions k); b2z (c15_identical_when_plain k && c15_identical_unless_eligible k);
    b2z (has_sl (w_chain k) && ((Z.abs (written_total (w_script k) - min_resp (w_chain k)) <=? 1)
                                || negb (body_allowed (handler_status (w_script k)))
                                || (2 <=? zlen (filter (fun c => match c with CWrite _ => true | _ => false end) (w_script k)))));
    b2z (has_gz (w_chain k) && contains_gzip (w_ae k)) ].
