(* Correspondence + monitors for the strategy suite (C05, C06): the real strategy objects are
   driven directly (add / remove / flag / in-flight count / pick / concurrent picks). *)
From Helios Require Export Base.Prelude Base.Wrap Model.Hash Model.Strategy.

Inductive sop :=
| OAdd (id name w : Z)
| ORemove (id : Z)
| OFlag (id : Z) (f : bool)
| OActive (id : Z) (a : Z)
| OPick (r : hreq)
| OCPick (n : Z)           (* n picks issued by concurrent goroutines (round robin) *)
| OJump (key n : Z)        (* jumpHash(key, n) called directly *)
| OPickI (xff xri remote : Z)   (* pick whose header strings are indices into the case's string table *)
| OCtr (v : Z).             (* the round-robin rotation counter is set to v (harness hook) *)

Record str_case := mkStrCase { sc_kind : Z; sc_tab : list (list Z); sc_ops0 : list sop; sc_obs : list (list Z) }.

Definition tab_get (tab : list (list Z)) (i : Z) : list Z := nth (Z.to_nat i) tab [].
Definition resolve (tab : list (list Z)) (o : sop) : sop :=
  match o with
  | OPickI a b c => OPick {| h_xff := tab_get tab a; h_xri := tab_get tab b; h_remote := tab_get tab c |}
  | _ => o
  end.
Definition sc_ops (k : str_case) : list sop := map (resolve (sc_tab k)) (sc_ops0 k).

Definition pick_id (ob : option backend) : Z := match ob with Some b => bid b | None => -1 end.

Definition mk_backend (id name w : Z) : backend := mkB id name w true 0 0 0.

Definition no_req : hreq := {| h_xff := []; h_xri := []; h_remote := [] |}.

(* n sequential picks; returns ids in order *)
Fixpoint picks_n (n : nat) (s : sstate) : list Z * sstate :=
  match n with
  | O => ([], s)
  | S k => let '(b, s1) := s_pick s no_req in
           let '(l, s2) := picks_n k s1 in (pick_id b :: l, s2)
  end.


(* counts for ids 1..n *)
Fixpoint counts_upto (n : nat) (l : list Z) : list Z :=
  match n with O => [] | S k => counts_upto k l ++ [count_id (Z.of_nat (S k)) l] end.

(* model step: new state, expected observation, number of backends ever added *)
Definition str_step (s : sstate) (nadd : Z) (o : sop) : sstate * list Z * Z :=
  match o with
  | OAdd id name w => (s_add s (mk_backend id name w), [], nadd + 1)
  | ORemove id => (s_remove s id, [], nadd)
  | OFlag id f => (s_upd s id (set_flag f), [], nadd)
  | OActive id a => (s_upd s id (set_active a), [], nadd)
  | OPick r => let '(b, s') := s_pick s r in (s', [pick_id b], nadd)
  | OCPick n => let '(l, s') := picks_n (Z.to_nat n) s in (s', counts_upto (Z.to_nat nadd) l, nadd)
  | OJump key n => (s, [match jump_hash key n with Some r => r | None => -2 end], nadd)
  | OPickI _ _ _ => (s, [], nadd)
  | OCtr v => ({| skd := skd s; spool := spool s; sctr := v |}, [], nadd)
  end.

Fixpoint str_run (s : sstate) (nadd : Z) (ops : list sop) : list (list Z) :=
  match ops with
  | [] => []
  | o :: t => let '(s', out, nadd') := str_step s nadd o in out :: str_run s' nadd' t
  end.

Fixpoint flat_obs (l : list (list Z)) : list Z :=
  match l with [] => [] | x :: t => (zlen x :: x) ++ flat_obs t end.

(* ------------------------------------------------------------------------------------------ *)
(* monitors on the IMPLEMENTATION's picks; the pool (ids, weights, flags, in-flight counts) is
   reconstructed from the operations, which are inputs                                         *)

Definition ids (pool : list backend) : list Z := map bid pool.
Definition flagged_ids (pool : list backend) : list Z := map bid (healthy pool).


Fixpoint nodupb (l : list Z) : bool :=
  match l with [] => true | x :: t => negb (memZ x t) && nodupb t end.

Fixpoint all_in (l pool : list Z) : bool :=
  match l with [] => true | x :: t => memZ x pool && all_in t pool end.

Definition total_weight (pool : list backend) : Z := sumZ (map bweight pool).

Definition zabs_le (a b : Z) : bool := (Z.abs a <=? b).

Record smon := {
  sm_s : sstate;                 (* pool bookkeeping (model state) *)
  sm_stretch : list Z;           (* observed picks since the last change, most recent first *)
  sm_fresh : bool;               (* stretch began with all running weights zero *)
  sm_removed : bool;             (* a removal happened since the strategy was created *)
  sm_changed_flags : bool;       (* a flag change happened since the strategy was created *)
  sm_seen : list (list Z * Z);   (* client -> pick within the current stretch *)
  sm_prev : list (list Z * Z);   (* client -> pick in the previous stretch *)
  sm_appended : Z;               (* id appended by the change that ended the previous stretch, or -1 *)
  sm_lastjump : Z * Z * Z;       (* key, n, result of the previous direct jumpHash call *)
  sm_ok_jump : bool;
  sm_ok_rr : bool; sm_ok_wrr_exact : bool; sm_ok_wrr_bound : bool; sm_ok_lc : bool;
  sm_wx : bool * bool * bool;    (* WRR: the proved bound 2(n-1)W_T held; the stated bound 2W_T failed in the known class (five or more
                                    members, after health changes, within the proved bound); it failed outside that class *)
  sm_ok_aff : bool; sm_ok_valid : bool; sm_ok_remap : bool;
  sm_ok_some : bool;             (* every pick of every strategy: an eligible member, or none only when no member is eligible *)
  sm_nt5 : bool; sm_nt6 : bool
}.

Fixpoint lookup_client (k : list Z) (l : list (list Z * Z)) : option Z :=
  match l with
  | [] => None
  | (k', v) :: t => if list_eqb k k' then Some v else lookup_client k t
  end.

(* for every eligible backend i: | n_i * W_E - N * w_i | <= 2 * W_T *)
Definition wrr_bound_ok (pool : list backend) (stretch : list Z) : bool :=
  let hs := healthy pool in
  let we := total_weight hs in
  let wt := total_weight pool in
  let n := zlen stretch in
  forallb (fun b => zabs_le (count_id (bid b) stretch * we - n * bweight b) (2 * wt)) hs.

(* the bound that is a theorem (Props/C05.v, C05_wrr_bounded_after_any_history): | n_i * W_E - N * w_i | <= 2 * (n - 1) * W_T *)
Definition wrr_proved_ok (pool : list backend) (stretch : list Z) : bool :=
  let hs := healthy pool in
  let we := total_weight hs in
  let wt := total_weight pool in
  let n := zlen stretch in
  forallb (fun b => zabs_le (count_id (bid b) stretch * we - n * bweight b) (2 * ((zlen pool - 1) * wt))) hs.

Definition wrr_exact_ok (pool : list backend) (stretch : list Z) : bool :=
  let w := total_weight pool in
  if zlen stretch <? w then true
  else let win := firstn (Z.to_nat w) stretch in
       forallb (fun b => Z.eqb (count_id (bid b) win) (bweight b)) pool.

(* every window of n_E consecutive picks contains each of the n_E eligible backends exactly once *)
Definition rr_window_ok (pool : list backend) (stretch : list Z) : bool :=
  let n := zlen (healthy pool) in
  if zlen stretch <? n then true
  else let win := firstn (Z.to_nat n) stretch in nodupb win && all_in win (flagged_ids pool).

Definition all_flagged (pool : list backend) : bool := forallb bflag pool.

Definition lc_min_ok (pool : list backend) (p : Z) : bool :=
  match find_id p pool with
  | None => is_nil (healthy pool)
  | Some b => bflag b && forallb (fun x => (bactive b <=? bactive x)) (healthy pool)
  end.

Definition distinct_weights (pool : list backend) : bool :=
  match pool with [] => false | b :: t => negb (forallb (fun x => Z.eqb (bweight x) (bweight b)) t) end.

Definition sm_change (m : smon) (s' : sstate) (appended : Z) (removed flagchg : bool) : smon :=
  {| sm_s := s'; sm_stretch := [];
     sm_fresh := (match skd s' with WRR => removed || (sm_fresh m && is_nil (sm_stretch m)) | _ => false end);
     sm_removed := sm_removed m || removed; sm_changed_flags := sm_changed_flags m || flagchg;
     sm_seen := []; sm_prev := sm_seen m; sm_appended := appended; sm_lastjump := sm_lastjump m; sm_ok_jump := sm_ok_jump m;
     sm_ok_rr := sm_ok_rr m; sm_ok_wrr_exact := sm_ok_wrr_exact m; sm_ok_wrr_bound := sm_ok_wrr_bound m; sm_wx := sm_wx m; sm_ok_some := sm_ok_some m;
     sm_ok_lc := sm_ok_lc m; sm_ok_aff := sm_ok_aff m; sm_ok_valid := sm_ok_valid m; sm_ok_remap := sm_ok_remap m;
     sm_nt5 := sm_nt5 m; sm_nt6 := sm_nt6 m |}.

Definition sm_pick (m : smon) (r : hreq) (p : Z) : smon :=
  let s := sm_s m in
  let pool := spool s in
  let stretch := p :: sm_stretch m in
  let key := hash_client r in
  let hashk := match skd s with IPH | IPHC => true | _ => false end in
  let s' := snd (s_pick s r) in     (* keeps the model's counter / running weights moving *)
  {| sm_s := s'; sm_stretch := stretch; sm_fresh := sm_fresh m; sm_removed := sm_removed m;
     sm_changed_flags := sm_changed_flags m;
     sm_seen := (if hashk then match lookup_client key (sm_seen m) with Some _ => sm_seen m | None => (key, p) :: sm_seen m end
                 else sm_seen m);
     sm_prev := sm_prev m; sm_appended := sm_appended m; sm_lastjump := sm_lastjump m; sm_ok_jump := sm_ok_jump m;
     sm_ok_rr := sm_ok_rr m && (match skd s with RR => rr_window_ok pool stretch | _ => true end);
     sm_ok_wrr_exact := sm_ok_wrr_exact m &&
        (match skd s with WRR => if sm_fresh m && all_flagged pool then wrr_exact_ok pool stretch else true | _ => true end);
     sm_ok_wrr_bound := sm_ok_wrr_bound m && (match skd s with WRR => wrr_bound_ok pool stretch | _ => true end);
     sm_wx := (match skd s with
               | WRR =>
                   let '(pv, known, other) := sm_wx m in
                   let stated := wrr_bound_ok pool stretch in
                   let proved := wrr_proved_ok pool stretch in
                   let cls := (5 <=? zlen pool) && sm_changed_flags m && proved in
                   (pv && proved, known || (negb stated && cls), other || (negb stated && negb cls))
               | _ => sm_wx m end);
     sm_ok_some := sm_ok_some m && (if is_nil (healthy pool) then Z.eqb p (-1) else memZ p (flagged_ids pool));
     sm_ok_lc := sm_ok_lc m && (match skd s with LC => lc_min_ok pool p | _ => true end);
     sm_ok_aff := sm_ok_aff m &&
        (if hashk then match lookup_client key (sm_seen m) with Some q => Z.eqb p q | None => true end else true);
     sm_ok_valid := sm_ok_valid m &&
        (if hashk then (if is_nil (healthy pool) then Z.eqb p (-1) else memZ p (flagged_ids pool)) else true);
     sm_ok_remap := sm_ok_remap m &&
        (match skd s with
         | IPHC => if 0 <=? sm_appended m then
                     match lookup_client key (sm_prev m) with
                     | Some q => Z.eqb p q || Z.eqb p (sm_appended m)
                     | None => true
                     end
                   else true
         | _ => true end);
     sm_nt5 := sm_nt5 m || (match skd s with
                            | RR => 2 <=? zlen pool
                            | WRR => (2 <=? zlen pool) && (distinct_weights pool || sm_removed m || sm_changed_flags m)
                            | LC => (2 <=? zlen pool) && distinct_weights (map (fun b => set_cw 0 (mkB (bid b) 0 (bactive b) true 0 0 0)) pool)
                            | _ => false end);
     sm_nt6 := sm_nt6 m || (hashk && (2 <=? zlen (healthy pool))) |}.

Definition sm_step (m : smon) (o : sop) (ob : list Z) : smon :=
  let s := sm_s m in
  match o with
  | OAdd id name w =>
      sm_change m (s_add s (mk_backend id name w)) id false false
  | ORemove id => sm_change m (s_remove s id) (-1) true false
  | OFlag id f => sm_change m (s_upd s id (set_flag f)) (-1) false true
  | OActive id a =>
      {| sm_s := s_upd s id (set_active a); sm_stretch := sm_stretch m; sm_fresh := sm_fresh m;
         sm_removed := sm_removed m; sm_changed_flags := sm_changed_flags m;
         sm_seen := sm_seen m; sm_prev := sm_prev m; sm_appended := sm_appended m; sm_lastjump := sm_lastjump m; sm_ok_jump := sm_ok_jump m;
         sm_ok_rr := sm_ok_rr m; sm_ok_wrr_exact := sm_ok_wrr_exact m; sm_ok_wrr_bound := sm_ok_wrr_bound m; sm_wx := sm_wx m; sm_ok_some := sm_ok_some m;
         sm_ok_lc := sm_ok_lc m; sm_ok_aff := sm_ok_aff m; sm_ok_valid := sm_ok_valid m; sm_ok_remap := sm_ok_remap m;
         sm_nt5 := sm_nt5 m; sm_nt6 := sm_nt6 m |}
  | OPick r => match ob with p :: _ => sm_pick m r p | [] => m end
  | OCPick n =>
      (* concurrent round-robin picks: n = k * len(pool) picks must give every backend exactly k *)
      let pool := spool s in
      let len := zlen pool in
      let ok := match skd s with
                | RR => if (0 <? len) && Z.eqb (n mod len) 0 && all_flagged pool then
                          forallb (fun b => Z.eqb (nth (Z.to_nat (bid b - 1)) ob 0) (n / len)) pool
                        else true
                | _ => true end in
      (* concurrent weighted picks from a fresh pool: a pick is one critical section, so n = k * W picks give backend i exactly k * w_i *)
      let w := total_weight pool in
      let okw := match skd s with
                 | WRR => if sm_fresh m && is_nil (sm_stretch m) && all_flagged pool && (0 <? w) && Z.eqb (n mod w) 0 then
                            forallb (fun b => Z.eqb (nth (Z.to_nat (bid b - 1)) ob 0) (bweight b * (n / w))) pool
                          else true
                 | _ => true end in
      let s' := snd (picks_n (Z.to_nat n) s) in
      {| sm_s := s'; sm_stretch := []; sm_fresh := false;
         sm_removed := sm_removed m; sm_changed_flags := sm_changed_flags m;
         sm_seen := sm_seen m; sm_prev := sm_prev m; sm_appended := sm_appended m; sm_lastjump := sm_lastjump m; sm_ok_jump := sm_ok_jump m;
         sm_ok_rr := sm_ok_rr m && ok; sm_ok_wrr_exact := sm_ok_wrr_exact m && okw; sm_ok_wrr_bound := sm_ok_wrr_bound m; sm_wx := sm_wx m; sm_ok_some := sm_ok_some m;
         sm_ok_lc := sm_ok_lc m; sm_ok_aff := sm_ok_aff m; sm_ok_valid := sm_ok_valid m; sm_ok_remap := sm_ok_remap m;
         sm_nt5 := sm_nt5 m || (2 <=? len); sm_nt6 := sm_nt6 m |}
  | OJump key n =>
      let r := match ob with x :: _ => x | [] => -3 end in
      let '(pk, pn, pr) := sm_lastjump m in
      let ok := (0 <=? r) && (r <? n) &&
                (if Z.eqb pk key && Z.eqb (pn + 1) n then Z.eqb r pr || Z.eqb r pn else true) in
      {| sm_s := s; sm_stretch := sm_stretch m; sm_fresh := sm_fresh m;
         sm_removed := sm_removed m; sm_changed_flags := sm_changed_flags m;
         sm_seen := sm_seen m; sm_prev := sm_prev m; sm_appended := sm_appended m;
         sm_lastjump := (key, n, r); sm_ok_jump := sm_ok_jump m && ok;
         sm_ok_rr := sm_ok_rr m; sm_ok_wrr_exact := sm_ok_wrr_exact m; sm_ok_wrr_bound := sm_ok_wrr_bound m; sm_wx := sm_wx m; sm_ok_some := sm_ok_some m;
         sm_ok_lc := sm_ok_lc m; sm_ok_aff := sm_ok_aff m; sm_ok_valid := sm_ok_valid m; sm_ok_remap := sm_ok_remap m;
         sm_nt5 := sm_nt5 m; sm_nt6 := sm_nt6 m || (2 <=? n) |}
  | OPickI _ _ _ => m
  | OCtr v => sm_change m {| skd := skd s; spool := spool s; sctr := v |} (-1) false false
  end.

Fixpoint sm_run (m : smon) (ops : list sop) (obs : list (list Z)) : smon :=
  match ops, obs with
  | o :: t, ob :: obs' => sm_run (sm_step m o ob) t obs'
  | _, _ => m
  end.

Definition sm_init (k : skind) : smon :=
  {| sm_s := s_init k; sm_stretch := []; sm_fresh := true; sm_removed := false; sm_changed_flags := false;
     sm_seen := []; sm_prev := []; sm_appended := -1; sm_lastjump := (-1, -1, -1); sm_ok_jump := true;
     sm_ok_rr := true; sm_ok_wrr_exact := true; sm_ok_wrr_bound := true; sm_wx := (true, false, false); sm_ok_some := true; sm_ok_lc := true;
     sm_ok_aff := true; sm_ok_valid := true; sm_ok_remap := true; sm_nt5 := false; sm_nt6 := false |}.

(* result vector:
   [ diff; mon_rr; mon_wrr_exact; mon_wrr_bound; mon_lc; mon_affinity; mon_valid; mon_remap;
     cls_wrr_removed (a removal preceded: stale running weights); nt_c05; nt_c06;
     mon_wrr_proved (the proved bound 2(n-1)W_T/W_E); cls_wrr_flap (every failure of the stated bound 2W_T/W_E is in the known class);
     mon_pick_eligible (every strategy, every pick: an eligible member, none only when none is eligible) ] *)
Definition eval_str_case (k : str_case) : list Z :=
  let kind := skind_of (sc_kind k) in
  let model := str_run (s_init kind) 0 (sc_ops k) in
  let m := sm_run (sm_init kind) (sc_ops k) (sc_obs k) in
  [ first_diff (flat_obs model) (flat_obs (sc_obs k));
    b2z (sm_ok_rr m); b2z (sm_ok_wrr_exact m); b2z (sm_ok_wrr_bound m); b2z (sm_ok_lc m);
    b2z (sm_ok_aff m); b2z (sm_ok_valid m); b2z (sm_ok_remap m && sm_ok_jump m);
    b2z (sm_removed m); b2z (sm_nt5 m); b2z (sm_nt6 m);
    b2z (fst (fst (sm_wx m))); b2z (snd (fst (sm_wx m)) && negb (snd (sm_wx m))); b2z (sm_ok_some m) ].
