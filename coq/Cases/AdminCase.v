(* Correspondence + monitors for the admin suite (C10): adminapi.NewMux on a live balancer. *)
From Helios Require Export Base.Prelude Base.Bytes Model.Strategy Model.LB Model.Admin.

Record adm_case := mkAdmCase {
  ad_token : bytes; ad_allow : list entry; ad_deny : list entry;
  ad_kind : Z; ad_backends : list (Z * Z);         (* initial (name, weight) *)
  ad_reqs : list areq;
  ad_obs : list (list Z)                           (* per request: status, body class, strategy, List *)
}.

Definition dummy_cfg : lbcfg :=
  {| c_passive := false; c_pthr := 1; c_ptimeout := 0; c_active := false; c_lim := false;
     c_lcfg := {| Helios.Model.Limiter.lmax := 1; Helios.Model.Limiter.lrate := 1 |}; c_brk := false;
     c_bcfg := {| Helios.Model.Breaker.maxReq := 1; Helios.Model.Breaker.interval := 1; Helios.Model.Breaker.btimeout := 1;
                  Helios.Model.Breaker.fthr := 1; Helios.Model.Breaker.sthr := 1 |} |}.

Fixpoint add_all (s : lb) (l : list (Z * Z)) : lb :=
  match l with [] => s | (n, w) :: t => add_all (fst (lb_add s n w true)) t end.

Fixpoint adm_run (c : acfg) (s : lb) (rs : list areq) : list (list Z) :=
  match rs with
  | [] => []
  | r :: t => let '(s', (st, cl)) := admin_step c s r in (st :: cl :: admin_obs s') :: adm_run c s' t
  end.

Fixpoint flat_obs (l : list (list Z)) : list Z :=
  match l with [] => [] | x :: t => (zlen x :: x) ++ flat_obs t end.

Definition is_data_ep (e : endpoint) : bool := match e with EHealth | EOther => false | _ => true end.

(* monitors on the implementation's answers; [prev] is the observed balancer state before the request *)
Fixpoint adm_mon (c : acfg) (prev : list Z) (rs : list areq) (obs : list (list Z)) : bool * bool * bool :=
  match rs, obs with
  | r :: t, ob :: obs' =>
      let st := nth 0 ob (-9) in let cl := nth 1 ob (-9) in let cur := skipn 2 ob in
      let '(a, f, n) := adm_mon c cur t obs' in
      let bad_auth := negb (is_nil (a_token c)) && negb (bytes_eqb (r_authz r) (bearer ++ a_token c)) in
      let ok_auth := if bad_auth && is_data_ep (r_ep r)
                     then ((Z.eqb st 401 && Z.eqb cl 1) || (Z.eqb st 403 && Z.eqb cl 2)) && list_eqb prev cur else true in
      let configured := negb (is_nil (a_allow c)) || negb (is_nil (a_deny c)) in
      let refused := Z.eqb st 403 && Z.eqb cl 2 in
      let ok_filter := if configured then Bool.eqb (negb refused) (filter_stage c (r_peer r)) && (if refused then list_eqb prev cur else true)
                       else negb refused in
      (ok_auth && a, ok_filter && f, (bad_auth || configured) || n)
  | _, _ => (true, true, false)
  end.

(* C11 through the HTTP API, from the observed answers alone: a rejected add / strategy change leaves the
   observed state untouched; a 201 add appends (name, healthy, idle, max(1,w)); a 200 remove leaves no
   backend of that name; a 200 strategy change sets the strategy and keeps the list *)
Fixpoint names_of (l : list Z) : list Z := match l with n :: _ :: _ :: _ :: t => n :: names_of t | _ => [] end.
Fixpoint last4 (l : list Z) : list Z := match l with [a; b; c; d] => [a; b; c; d] | _ :: t => last4 t | [] => [] end.

Fixpoint adm_mon11 (prev : list Z) (rs : list areq) (obs : list (list Z)) : bool :=
  match rs, obs with
  | r :: t, ob :: obs' =>
      let st := nth 0 ob (-9) in let cl := nth 1 ob (-9) in let cur := skipn 2 ob in
      let passed := negb (Z.eqb st 401 || Z.eqb st 403) in
      let ok :=
        if negb passed then list_eqb prev cur else
        match r_ep r, r_body r with
        | EAdd, Some b =>
            if Z.eqb (r_method r) 1 then
              if ab_name_empty b || ab_addr_empty b || negb (ab_addr_ok b) || memZ (ab_name b) (names_of (skipn 1 prev))
              then Z.eqb st 400 && list_eqb prev cur
              else Z.eqb st 201 && list_eqb cur (prev ++ [ab_name b; 1; 0; (if ab_weight b <? 1 then 1 else ab_weight b)])
            else list_eqb prev cur
        | EAdd, None => list_eqb prev cur && negb (Z.eqb st 201)
        | ERemove, Some b =>
            if (Z.eqb (r_method r) 1 || Z.eqb (r_method r) 2) && negb (ab_name_empty b)
            then Z.eqb st 200 && negb (memZ (ab_name b) (names_of (skipn 1 cur)))
            else list_eqb prev cur
        | EStrategy, Some b =>
            if Z.eqb (r_method r) 1 && negb (ab_strategy_empty b) && (0 <=? ab_strategy b) && (ab_strategy b <=? 4)
            then Z.eqb st 200 && list_eqb cur (ab_strategy b :: skipn 1 prev)
            else list_eqb prev cur && negb (Z.eqb st 200)
        | _, _ => list_eqb prev cur
        end in
      ok && adm_mon11 cur t obs'
  | _, _ => true
  end.

(* result vector: [diff; mon_auth; mon_filter; nt_c10; mon_c11_admin] *)
Definition eval_adm_case (k : adm_case) : list Z :=
  let c := {| a_token := ad_token k; a_allow := ad_allow k; a_deny := ad_deny k |} in
  let s0 := add_all (lb_init dummy_cfg (skind_of (ad_kind k)) 0) (ad_backends k) in
  let model := adm_run c s0 (ad_reqs k) in
  let '(a, f, n) := adm_mon c (admin_obs s0) (ad_reqs k) (ad_obs k) in
  [ first_diff (flat_obs model) (flat_obs (ad_obs k)); b2z a; b2z f; b2z n;
    b2z (adm_mon11 (admin_obs s0) (ad_reqs k) (ad_obs k)) ].
