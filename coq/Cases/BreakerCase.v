(* Correspondence + monitors for the breaker suite. *)
From Helios Require Export Base.Prelude Model.Breaker.

Record brk_case := mkBrkCase {
  bk_max : Z; bk_interval : Z; bk_timeout : Z; bk_fthr : Z; bk_sthr : Z;
  bk_t0 : Z;
  bk_ops : list bop;
  bk_obs : list (Z * Z);      (* per op: admission code (or -1), State() afterwards *)
  bk_rec_from : Z             (* index of the first op of the appended recovery script *)
}.

Fixpoint flat (l : list (Z * Z)) : list Z :=
  match l with [] => [] | (a, b) :: t => a :: b :: flat t end.

Fixpoint reaches_open (obs : list (Z * Z)) : bool :=
  match obs with [] => false | (_, s) :: t => Z.eqb s 1 || reaches_open t end.

Fixpoint nth_state (i : Z) (obs : list (Z * Z)) (d : Z) : Z :=
  match obs with
  | [] => d
  | (_, s) :: t => if i <=? 0 then s else nth_state (i - 1) t d
  end.

(* recovery script: from index [from] on, every Begin is admitted; the last observed state is closed *)
Fixpoint rec_ok (i from : Z) (ops : list bop) (obs : list (Z * Z)) (last : Z) : bool :=
  match ops, obs with
  | o :: t, (code, s) :: obs' =>
      (if from <=? i then match o with BBegin _ => Z.eqb code 0 | _ => true end else true)
      && rec_ok (i + 1) from t obs' s
  | _, _ => Z.eqb last 0
  end.

(* result vector:
   [ first differing index of the (code,state) observation stream, -1 = agree;
     monitors on the implementation trace: block, trials, trip, close, reopen, recover;
     classifier lock-out configuration (max_requests < success_threshold);
     non-trivial C07 (reaches open); non-trivial C08 (not closed when the recovery script starts) ] *)
Definition eval_brk_case (k : brk_case) : list Z :=
  let cfg := {| maxReq := bk_max k; interval := bk_interval k; btimeout := bk_timeout k;
                fthr := bk_fthr k; sthr := bk_sthr k |} in
  let out := snd (brun cfg (binit (bk_t0 k)) (bk_ops k)) in
  let m := mon_run cfg (mon_init (bk_t0 k)) (bk_ops k) (bk_obs k) in
  [ first_diff (flat out) (flat (bk_obs k));
    b2z (m_ok_block m); b2z (m_ok_trials m); b2z (m_ok_trip m); b2z (m_ok_close m); b2z (m_ok_reopen m);
    (* recovery is claimed for accepted configurations: success_threshold <= max_requests *)
    b2z (rec_ok 0 (bk_rec_from k) (bk_ops k) (bk_obs k) 0 || (bk_max k <? bk_sthr k));
    b2z (bk_max k <? bk_sthr k);
    b2z (reaches_open (bk_obs k));
    b2z (negb (Z.eqb (nth_state (bk_rec_from k - 1) (bk_obs k) 0) 0)) ].
