(* Correspondence + monitors for the config suite (C18): Config.Validate / LoadConfig on generated and documented
   configurations, the plugin factories on their options, and the real binary started on a sample. *)
From Coq Require Export String.
From Helios Require Export Base.Prelude Base.Bytes Gen.ConfigGen Model.ConfigSpec Model.Chain.

Record cf_case := mkCfCase {
  cf_cfg : option Config;              (* None: the YAML text does not decode into the configuration structure *)
  cf_plugins_enabled : bool;
  cf_chain : list (bytes * opts);
  cf_validates : bool;                 (* Config.Validate() = nil on the decoded structure *)
  cf_loaded : bool;                    (* config.LoadConfig(file) succeeded *)
  cf_chain_ok : bool;                  (* plugins.BuildChain succeeded *)
  cf_proc : Z;                         (* real binary: -1 not run, 0 exited with an error message, 1 listening, 2 neither, 3 panicked, 4 exited without a word *)
  cf_served : Z;                       (* -1 not run, 1 = answered a plain and a gzip-accepting request correctly, 0 = did not *)
  cf_run_ok : bool;                    (* the copy the binary ran (free ports, harness backend, no TLS / probes) validates and its chain builds *)
  cf_doc : bool;                       (* a shipped file or a documentation snippet *)
  cf_startable : bool                  (* oracle: every backend can be registered (names pairwise distinct, every address parses as a URL) *)
}.

(* correspondence: the translated validator and the factory model against the implementation *)
Definition diff_config (k : cf_case) : Z :=
  match cf_cfg k with
  | None => if cf_loaded k then 0 else -1
  | Some c =>
      if negb (Bool.eqb (Validate c) (cf_validates k)) then 1
      else if negb (Bool.eqb (cf_validates k) (cf_loaded k)) then 2
      else if negb (Bool.eqb (build_ok (cf_plugins_enabled k) (cf_chain k)) (cf_chain_ok k)) then 3
      else -1
  end.

(* monitors on the implementation's answers *)
(* accepted exactly when the documented constraints hold *)
Definition mon_spec (k : cf_case) : bool :=
  match cf_cfg k with Some c => Bool.eqb (spec_b c) (cf_validates k) && Bool.eqb (cf_validates k) (cf_loaded k) | None => negb (cf_loaded k) end.
(* every documented file / snippet is accepted and its plugin chain builds *)
Definition mon_docs (k : cf_case) : bool := if cf_doc k then cf_loaded k && cf_chain_ok k else true.
(* an accepted configuration starts a working proxy or fails with a clear error: never a panic, never half-configured *)
Definition mon_starts (k : cf_case) : bool :=
  if 0 <=? cf_proc k then
    if cf_run_ok k && cf_startable k then Z.eqb (cf_proc k) 1 && Z.eqb (cf_served k) 1
    else Z.eqb (cf_proc k) 0      (* rejected, or a backend cannot be registered: a clear error, not a proxy with part of its pool *)
  else true.

(* result vector: [diff; mon_spec; mon_docs; mon_starts; nt_c18] *)
Definition eval_cf_case (k : cf_case) : list Z :=
  [ diff_config k; b2z (mon_spec k); b2z (mon_docs k); b2z (mon_starts k);
    b2z (cf_doc k || negb (cf_validates k) || (0 <=? cf_proc k) || match cf_chain k with [] => false | _ => true end) ].
