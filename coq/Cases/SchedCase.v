(* Correspondence + monitors for the sched suite: schedules replayed on the yield-instrumented real code. *)
From Helios Require Export Base.Prelude Model.Conc.

Record sd_case := mkSdCase {
  sd_scenario : Z; sd_kinds : list Z; sd_n : Z; sd_max : Z;
  sd_schedule : list Z;
  sd_obs : list Z;                 (* final observables of the implementation *)
  sd_trace : list (Z * Z);         (* (thread, label) at every yield the controller granted *)
  sd_infeasible : bool;            (* the thread whose turn it was could not reach a yield *)
  sd_finished : bool;              (* every thread returned *)
  sd_init : list Z;                (* scenario 4: 1 = healthy, 0 = ejected with an elapsed window, per backend *)
  sd_client : list Z               (* scenario 4: the client address the hash strategies see *)
}.

Definition model_run (k : sd_case) : list Z * list (Z * Z) :=
  if Z.eqb (sd_scenario k) 1 then s1_run (sd_kinds k) (sd_schedule k)
  else if Z.eqb (sd_scenario k) 2 then s2_run (sd_n k) (sd_max k) (sd_schedule k)
  else s3_run (map (fun ik => (snd ik, 10 + fst ik)) (combine (map Z.of_nat (seq 0 (length (sd_kinds k)))) (sd_kinds k))) (sd_schedule k).

(* scenario 3: the remove targets n1, the adds n(10+i) *)
Definition s3_ops (k : sd_case) : list (Z * Z) :=
  map (fun ik => (snd ik, if Z.eqb (snd ik) 2 then 1 else 10 + fst ik)) (combine (map Z.of_nat (seq 0 (length (sd_kinds k)))) (sd_kinds k)).

Definition model_run' (k : sd_case) : list Z * list (Z * Z) :=
  if Z.eqb (sd_scenario k) 3 then s3_run (s3_ops k) (sd_schedule k)
  else if Z.eqb (sd_scenario k) 4 then s4_run (sd_n k) (sd_init k) (sd_client k) (sd_kinds k) (sd_schedule k)
  else if Z.eqb (sd_scenario k) 5 then s5_run (sd_max k) (sd_kinds k) (sd_schedule k)
  else if Z.eqb (sd_scenario k) 6 then s6_run (sd_n k) (sd_schedule k)
  else if Z.eqb (sd_scenario k) 7 then s7_run (sd_kinds k) (sd_schedule k)
  else model_run k.

Fixpoint trace_diff (i : Z) (a b : list (Z * Z)) : Z :=
  match a, b with
  | [], [] => -1
  | (t1, l1) :: a', (t2, l2) :: b' => if Z.eqb t1 t2 && Z.eqb l1 l2 then trace_diff (i + 1) a' b' else i
  | _, _ => i
  end.

Definition prop_ok (k : sd_case) : bool :=
  if Z.eqb (sd_scenario k) 1 then s1_ok (sd_obs k)
  else if Z.eqb (sd_scenario k) 2 then s2_ok (sd_max k) (sd_obs k)
  else if Z.eqb (sd_scenario k) 4 then s4_ok (sd_init k) (sd_kinds k) (sd_obs k)
  else if Z.eqb (sd_scenario k) 5 then s5_ok (sd_max k) (sd_kinds k) (sd_obs k)
  else if Z.eqb (sd_scenario k) 6 then s6_ok (sd_obs k)
  else if Z.eqb (sd_scenario k) 7 then s7_ok (sd_obs k)
  else s3_ok (s3_ops k) (sd_obs k).

(* a schedule interleaves when it is not a concatenation of the threads' runs *)
Fixpoint switches (l : list Z) : Z :=
  match l with x :: ((y :: _) as t) => (if Z.eqb x y then 0 else 1) + switches t | _ => 0 end.

(* result vector: [diff_obs; diff_trace; mon_sched_prop; mon_sched_finished; nt_sched] *)
Definition eval_sd_case (k : sd_case) : list Z :=
  let '(obs, trace) := model_run' k in
  if sd_infeasible k then [-1; -1; 1; b2z (sd_finished k); 0]
  else
  [ first_diff obs (sd_obs k); trace_diff 0 trace (sd_trace k); b2z (prop_ok k); b2z (sd_finished k);
    b2z (zlen (sd_kinds k) + (if Z.eqb (sd_scenario k) 4 || Z.eqb (sd_scenario k) 5 || Z.eqb (sd_scenario k) 6 || Z.eqb (sd_scenario k) 7 then 0 else sd_n k) <=? switches (sd_schedule k)) ].
