(* C07 — Circuit breaker safety: trip, block while open, bounded half-open trials.
   Statements only; proofs in Proofs/BreakerProofs.v.  Histories are arbitrary interleavings of
   request admissions (BBegin) and completions (BEnd) and time steps, so overlapping requests are
   covered; the step-level (intra-critical-section) concurrency claim is C07_concurrent below. *)
From Helios Require Import Base.Prelude Model.Breaker Proofs.BreakerProofs.

(* every state reachable by any history satisfies the invariant *)
Theorem C07_reachable_inv :
  forall cfg t0 ops, bwf_cfg cfg -> Forall bop_wf ops -> BInv cfg (fst (brun cfg (binit t0) ops)).
Proof. intros cfg t0 ops Hw Hf. apply brun_inv; auto using binit_inv. Qed.
Print Assumptions C07_reachable_inv.

(* Trip: from any reachable closed state, failure_threshold failed requests whose consecutive gaps
   are <= interval (any number of successes in between) open the breaker by the last of them. *)
Theorem C07_trip :
  forall cfg ops s, bwf_cfg cfg -> BInv cfg s -> st s = Closed ->
    fthr cfg <= fails ops -> gaps_ok (interval cfg) None ops -> opened cfg s ops.
Proof. exact trip. Qed.
Print Assumptions C07_trip.

(* Block: open and timeout not elapsed => ErrCircuitBreakerOpen, protected function not run,
   state unchanged; the deadline is (time of the trip) + timeout. *)
Theorem C07_block :
  forall cfg s rid, st s = Open -> bnow s <= nextAttempt s -> begin cfg s rid = (s, 1).
Proof. exact block_while_open. Qed.
Print Assumptions C07_block.

Theorem C07_block_deadline :
  forall cfg s rid, st s <> Open -> st (finish cfg s rid false) = Open ->
    nextAttempt (finish cfg s rid false) = bnow s + btimeout cfg.
Proof. exact trip_sets_deadline. Qed.
Print Assumptions C07_block_deadline.

(* Bounded trials: in every reachable half-open state the admissions of the episode are <= max_requests. *)
Theorem C07_trials_bounded :
  forall cfg t0 ops, bwf_cfg cfg -> Forall bop_wf ops ->
    let s := fst (brun cfg (binit t0) ops) in
    st s = HalfOpen -> g_trials s <= maxReq cfg /\ g_trials s = rc s.
Proof.
  intros cfg t0 ops Hw Hf s E.
  assert (Hi : BInv cfg s) by (apply brun_inv; auto using binit_inv).
  split; [apply trials_bounded; auto|]. destruct (i_half _ _ Hi E) as (-> & _). reflexivity.
Qed.
Print Assumptions C07_trials_bounded.

(* Close / re-open rules. *)
Theorem C07_close_reopen :
  forall cfg s o, st s = HalfOpen ->
    (st (fst (bstep cfg s o)) = Closed -> exists rid, o = BEnd rid true /\ sthr cfg <= sc s + 1)
    /\ (forall rid, st (finish cfg s rid false) = Open
                    /\ nextAttempt (finish cfg s rid false) = bnow s + btimeout cfg).
Proof.
  intros cfg s o E. split.
  - apply only_end_closes. exact E.
  - intros rid. apply reopen_rule. exact E.
Qed.
Print Assumptions C07_close_reopen.

Example C07_nonvacuous :
  let cfg := {| maxReq := 1; interval := 60; btimeout := 60; fthr := 2; sthr := 1 |} in
  bwf_cfg cfg /\
  snd (brun cfg (binit 0) [BBegin 1; BEnd 1 false; BBegin 2; BEnd 2 false; BBegin 3; BAdv 61; BBegin 4; BBegin 5; BEnd 4 true])
  = [(0, 0); (-1, 0); (0, 0); (-1, 1); (1, 1); (-1, 1); (0, 2); (2, 2); (-1, 0)].
Proof. cbn zeta. split; [unfold bwf_cfg; cbn; lia|]. vm_compute. reflexivity. Qed.

(* ---- concurrent callers (step-level model Model/Conc.v, replayed on the real code by the sched suite) ---- *)
From Helios Require Import Model.Conc Proofs.ConcProofs.
(* for EVERY schedule of ANY number of concurrent callers arriving at the open -> half-open boundary, at most max_requests of
   them are admitted as trials *)
Theorem C07_trials_bounded_under_concurrency :
  forall n maxreq sched, 0 <= maxreq -> s2_ok maxreq (fst (s2_run n maxreq sched)) = true.
Proof. exact s2_all_schedules. Qed.
Print Assumptions C07_trials_bounded_under_concurrency.

From Helios Require Import Gen.BreakerGen Proofs.BreakerRefine.

(* The model IS the source: its admission and completion steps are beforeRequest / afterRequest of circuitbreaker.go as go2coq
   regenerates them on every run (Gen/BreakerGen.v), field for field; times are positive, which every history starting at a
   positive instant preserves. *)
Theorem C07_model_is_source_admission :
  forall cfg s rid l, bwf_cfg cfg -> times_pos s ->
    cb_beforeRequest (abs_cb cfg s l) (bnow s) = (abs_cb cfg (fst (begin cfg s rid)) l, snd (begin cfg s rid)).
Proof. exact before_refines. Qed.
Print Assumptions C07_model_is_source_admission.

Theorem C07_model_is_source_completion :
  forall cfg s rid ok l,
    fst (cb_afterRequest (abs_cb cfg s l) (bnow s) ok) = abs_cb cfg (finish cfg s rid ok) (if ok then bnow s else l).
Proof. exact after_refines. Qed.
Print Assumptions C07_model_is_source_completion.

Theorem C07_times_positive_invariant :
  forall cfg s o, bop_wf o -> times_pos s -> times_pos (fst (bstep cfg s o)).
Proof. exact times_pos_step. Qed.
Print Assumptions C07_times_positive_invariant.
