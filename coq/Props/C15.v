(* C15 — gzip plugin: what the client decodes is exactly what the backend sent.  Statements only. *)
From Helios Require Import Base.Prelude Model.RespWriter Proofs.WriterProofs Proofs.GzipProofs.
From Helios Require Import Gen.GzipGen Proofs.GzipRefine.

(* without the token "gzip" in Accept-Encoding the plugin does not touch the exchange at all *)
Theorem C15_identity_without_ae : forall cfg cs, gz_transform cfg false cs = cs.
Proof. exact gz_identity_without_ae. Qed.
Print Assumptions C15_identity_without_ae.

(* a compressed payload is produced only at the end of the exchange, only when nothing was streamed, ... *)
Theorem C15_compress_only_if :
  forall cfg w, (exists n, In (CWrite (PGz n)) (gz_finish cfg w)) -> g_stream w = false /\ gz_should cfg w = true.
Proof. exact gz_finish_compresses. Qed.
Print Assumptions C15_compress_only_if.

(* ... and only for a non-empty body of at least min_size bytes (declared and actual), of a configured
   content type, that is not already encoded *)
Theorem C15_conditions :
  forall cfg w, gz_should cfg w = true ->
    0 < g_buf w /\ lookup H_CE (g_hdr w) = None /\ gz_min cfg <= g_buf w
    /\ (exists ct, lookup H_CT (g_hdr w) = Some ct /\ memZ ct (gz_types cfg) = true)
    /\ (forall cl, lookup H_CL (g_hdr w) = Some cl -> gz_min cfg <= cl).
Proof. exact gz_should_conditions. Qed.
Print Assumptions C15_conditions.

(* Decoding the bytes the client receives according to the Content-Encoding it receives yields exactly the handler's body, with
   the handler's status (and its interim responses, content type and application headers): for every configuration of the
   plugin, every Accept-Encoding verdict and every well-formed script of a handler that writes its body as it is (what the
   reverse proxy does).  compress/gzip itself is a library: gunzip (gzip b) = b is the meaning of the payload [PGz n]. *)
Theorem C15_decodes :
  forall cfg ae cs, wf_script cs = true -> raw_script cs = true ->
    view_eq (view (base_run base0 (gz_transform cfg ae cs))) (view (base_run base0 cs)).
Proof. exact gz_decodes. Qed.
Print Assumptions C15_decodes.

(* The wrapper machine the theorems above speak of is the source: Gen/GzipGen.v is regenerated from compression.go on every run
   (gzipResponseWriter's WriteHeader, commit, streamUncompressed, Write, Flush, Finish, as functions that append the calls they
   make on the underlying writer to a log; shouldGzipBody's decision is handed in), and for every script of handler calls with
   byte-slice writes the regenerated methods make exactly the calls of gz_transform *)
Theorem C15_model_is_source :
  forall mn lv cfg cs, gz_cap cfg = 10 * 1024 * 1024 -> forallb byte_call cs = true ->
    gzg_out (fst (gzg_Finish (fun n => n) (fold_left gzg_step cs (mkgzipResponseWriter 0 false false mn lv 0 false [])) 0
                             (gz_should cfg (fst (gz_run cfg gzw0 cs)))))
    = gz_transform cfg true cs.
Proof. exact transform_is_source. Qed.
Print Assumptions C15_model_is_source.

(* ... and the wrapper type offers no way around the buffer: it implements Flush and Hijack only *)
Theorem C15_no_bypass : gzg_optional_interfaces = [1; 2].
Proof. exact interfaces_as_modelled. Qed.

Example C15_nonvacuous :
  let cfg := {| gz_min := 16; gz_cap := 10485760; gz_types := [0] |} in
  gz_transform cfg true [CSet 1 0; CSet 2 40; CHead 201; CWrite (PRaw 40)]
    = [CSet 1 0; CSet 2 40; CSet 3 1; CDel 2; CHead 201; CWrite (PGz 40)]
  /\ v_decoded (view (base_run base0 (gz_transform cfg true [CSet 1 0; CSet 2 40; CHead 201; CWrite (PRaw 40)]))) = Some 40
  /\ gz_transform cfg true [CSet 1 0; CWrite (PRaw 20); CFlush; CWrite (PRaw 20)]
    = [CSet 1 0; CHead 200; CWrite (PRaw 20); CFlush; CWrite (PRaw 20)].
Proof. vm_compute. repeat split; reflexivity. Qed.
