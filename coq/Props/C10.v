(* C10 — Admin API access control: bearer token and IP allow/deny fail closed.  Statements only. *)
From Helios Require Import Base.Prelude Base.Bytes Model.Strategy Model.LB Model.Admin Proofs.AdminProofs.

Theorem C10_auth_exact :
  forall c authz, a_token c <> [] -> (auth_ok c authz = true <-> authz = bearer ++ a_token c).
Proof. exact auth_exact. Qed.
Print Assumptions C10_auth_exact.

(* token configured, header not exactly "Bearer <token>": every data endpoint answers 401 (or the
   filter's 403) and the balancer is unchanged *)
Theorem C10_auth_gate :
  forall c s r, a_token c <> [] -> r_authz r <> bearer ++ a_token c ->
    match r_ep r with EHealth | EOther => True | _ =>
      admin_step c s r = (s, (401, 1)) \/ admin_step c s r = (s, (403, 2)) end.
Proof. exact auth_gate. Qed.
Print Assumptions C10_auth_gate.

Theorem C10_refused_changes_nothing :
  forall c s r, (snd (admin_step c s r) = (401, 1) \/ snd (admin_step c s r) = (403, 2)) -> fst (admin_step c s r) = s.
Proof. exact refused_changes_nothing. Qed.
Print Assumptions C10_refused_changes_nothing.

(* served <=> peer parses, is in no deny entry, and the allow list is empty or contains it; a malformed
   entry never yields an unfiltered API *)
Theorem C10_filter_decision :
  forall c peer, (a_allow c <> [] \/ a_deny c <> []) ->
    filter_stage c peer = true <->
      (has_bad (a_allow c) = false /\ has_bad (a_deny c) = false /\ peer <> AUnparsable
       /\ any_contains (a_deny c) peer = false /\ (a_allow c = [] \/ any_contains (a_allow c) peer = true)).
Proof. exact filter_decision. Qed.
Print Assumptions C10_filter_decision.

Theorem C10_deny_wins : forall c peer, any_contains (a_deny c) peer = true -> filter_stage c peer = false.
Proof. exact deny_wins. Qed.
Print Assumptions C10_deny_wins.

(* the decision does not depend on client-supplied headers: only the peer address enters *)
Theorem C10_header_independent :
  forall c r1 r2 s, r_peer r1 = r_peer r2 -> filter_stage c (r_peer r1) = false ->
    admin_step c s r1 = (s, (403, 2)) /\ admin_step c s r2 = (s, (403, 2)).
Proof. exact filter_ignores_headers. Qed.
Print Assumptions C10_header_independent.
