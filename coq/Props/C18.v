(* C18 — Configuration loading: rejects exactly the invalid, accepts all documented forms.  Statements only.
   [Validate] and the Config record tree are REGENERATED from internal/config/config.go by go2coq on every run;
   [Spec] is the hand-written statement of the documented constraints (Model/ConfigSpec.v). *)
From Coq Require Import ZArith String List Bool.
From Helios Require Import Gen.ConfigGen Model.ConfigSpec Proofs.ConfigProofs Base.Bytes Model.Chain.
Import ListNotations.
Open Scope Z_scope.

(* loading succeeds exactly when every documented constraint holds, for every value of every field of every section at once *)
Theorem C18_accepts_exactly_the_valid : forall c : Config, Validate c = true <-> Spec c.
Proof. exact validate_iff_spec. Qed.
Print Assumptions C18_accepts_exactly_the_valid.

(* the executable oracle run on the implementation's answers is that same specification *)
Theorem C18_oracle_is_spec : forall c : Config, spec_b c = true <-> Spec c.
Proof. exact spec_b_iff. Qed.
Print Assumptions C18_oracle_is_spec.

Theorem C18_validator_equals_oracle : forall c : Config, Validate c = spec_b c.
Proof. exact validate_eq_spec_b. Qed.
Print Assumptions C18_validator_equals_oracle.

(* numbers as YAML writes them: every numeric plugin option is accepted as an integer and as a float alike *)
Theorem C18_yaml_numbers :
  forall z, config_int (Some (VInt z)) = config_int (Some (VFloat z)) /\ byte_limit_ok (Some (VInt z)) = byte_limit_ok (Some (VFloat z)).
Proof. intros z. split; reflexivity. Qed.
Print Assumptions C18_yaml_numbers.

Theorem C18_gzip_levels : forall lv ms types, -1 <= lv <= 9 ->
  gzip_ok [(k_level, VInt lv); (k_min_size, VInt ms); (k_content_types, VList (map VStr types))] = true.
Proof.
  intros lv ms types H. unfold gzip_ok. cbn.
  replace (-1 <=? lv) with true by (symmetry; apply Z.leb_le; apply H).
  replace (lv <=? 9) with true by (symmetry; apply Z.leb_le; apply H). cbn.
  induction types; cbn; auto.
Qed.
Print Assumptions C18_gzip_levels.

Definition minimal : Config :=
  mkConfig (mkServerConfig 8080 (mkTLSConfig false "" "") (mkTimeoutConfig 0 0 0 0 0 0 0 0))
           [mkBackendConfig "s1" "http://127.0.0.1:9001" 1]
           (mkLoadBalancerConfig "round_robin" (mkWebSocketPoolConfig false 0 0 0))
           (mkHealthChecksConfig (mkActiveHealthCheckConfig false 0 0 "") (mkPassiveHealthCheckConfig false 0 0))
           (mkRateLimitConfig false 0 0) (mkCircuitBreakerConfig false 0 0 0 0 0) (mkMetricsConfig false 0 "")
           (mkAdminAPIConfig false 0 "" [] []) (mkPluginsConfig false []) (mkLoggingConfig "info" "text" false (mkRequestIDConfig false "") (mkTraceConfig false "")).

Example C18_nonvacuous :
  Validate minimal = true /\
  Validate (mkConfig (mkServerConfig 65536 (mkTLSConfig false "" "") (mkTimeoutConfig 0 0 0 0 0 0 0 0)) (Config_Backends minimal)
                     (Config_LoadBalancer minimal) (Config_HealthChecks minimal) (Config_RateLimit minimal) (Config_CircuitBreaker minimal)
                     (Config_Metrics minimal) (Config_AdminAPI minimal) (Config_Plugins minimal) (Config_Logging minimal)) = false.
Proof. vm_compute. split; reflexivity. Qed.
