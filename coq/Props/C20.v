(* C20 — WebSocket tunnelling and connection-pool invariants.  Statements only.
   Pool half: theorems over every history of the model of websocket_pool.go.  Tunnel half (PARTIAL): the relay itself is
   httputil.ReverseProxy's; what Helios contributes is that every response-writer wrapper forwards Hijack. *)
From Helios Require Import Base.Prelude Model.WSPool Proofs.WSPoolProofs Proofs.ProxyProofs Gen.Wrappers.

(* never more than max_idle idle connections per backend, in every reachable state *)
Theorem C20_max_idle :
  forall cfg ops b, count_backend b (pw_idle (fst (wp_run cfg wp_init ops))) <= Z.max 0 (wc_max_idle cfg).
Proof. intros cfg ops b. apply (run_max_idle cfg ops wp_init (init_max_idle cfg)). Qed.
Print Assumptions C20_max_idle.

(* Get never returns a connection idle longer than idle_timeout: what it returns was pooled for that backend at most
   idle_timeout ago *)
Theorem C20_fresh :
  forall cfg s b c s', NoDup (idle_conns s) -> wp_step cfg s (WGet b) = (s', OConn (Some c)) ->
    exists e, In e (pw_idle s) /\ e_conn e = c /\ e_backend e = b /\ pw_now s - e_last e <= wc_timeout cfg.
Proof. exact get_fresh. Qed.
Print Assumptions C20_fresh.

(* the holder protocol keeps, over every history: no connection is pooled twice, a pooled connection is held by no client and is
   open, a held connection is open *)
Theorem C20_exclusive_invariant :
  forall cfg ops, allowed_run cfg wp_init [] ops ->
    ExclInv (fst (wp_run cfg wp_init ops)) (held_run cfg wp_init [] ops).
Proof. intros cfg ops H. apply run_excl; [exact init_excl|exact H]. Qed.
Print Assumptions C20_exclusive_invariant.

(* hence: a connection handed out by Get is held by nobody else, has not been closed, and has left the pool *)
Theorem C20_never_two_holders :
  forall cfg s held b c s', ExclInv s held -> wp_step cfg s (WGet b) = (s', OConn (Some c)) ->
    ~ In c held /\ ~ In c (pw_closed s) /\ ~ In c (idle_conns s') /\ ~ In c (pw_closed s').
Proof. exact get_exclusive. Qed.
Print Assumptions C20_never_two_holders.

(* shutdown closes everything the pool holds and leaves it empty *)
Theorem C20_shutdown :
  forall cfg s, let s' := fst (wp_step cfg s WShutdown) in
    pw_idle s' = [] /\ pw_pools s' = [] /\ forall c, In c (idle_conns s) -> In c (pw_closed s').
Proof. exact shutdown_closes. Qed.
Print Assumptions C20_shutdown.

(* the periodic clean-up closes only connections idle longer than idle_timeout and keeps every other one *)
Theorem C20_cleanup :
  forall cfg s, (forall c, In c (pw_closed (fst (wp_step cfg s WCleanup))) ->
                   In c (pw_closed s) \/ exists e, In e (pw_idle s) /\ e_conn e = c /\ wc_timeout cfg < pw_now s - e_last e)
             /\ (forall e, In e (pw_idle s) -> pw_now s - e_last e <= wc_timeout cfg -> In e (pw_idle (fst (wp_step cfg s WCleanup)))).
Proof. intros cfg s. split; [apply cleanup_closes_only_stale|apply cleanup_keeps_fresh]. Qed.
Print Assumptions C20_cleanup.

(* tunnel: with any plugin chain, the composed response writer supports Hijack (table regenerated from the source) *)
Theorem C20_hijack_through_any_chain :
  forall stack, (forall w, In w stack -> In w wrappers) -> hijack_reaches stack = true.
Proof. intros stack H. apply (caps_preserved stack H). Qed.
Print Assumptions C20_hijack_through_any_chain.

Example C20_nonvacuous :
  let cfg := mkWpCfg 2 10 in
  snd (wp_run cfg wp_init [WPut 1 1; WPut 1 2; WPut 1 3; WAdvance 11; WPut 1 4; WGet 1; WGet 1; WShutdown; WGet 1])
  = [OBool true; OBool true; OBool false; ONone; OBool false; OConn None; OConn None; ONone; OConn None]
  /\ snd (wp_run cfg wp_init [WPut 1 1; WAdvance 5; WPut 1 2; WAdvance 6; WGet 1; WGet 1])
  = [OBool true; ONone; OBool true; ONone; OConn (Some 2); OConn None].
Proof. vm_compute. split; reflexivity. Qed.
