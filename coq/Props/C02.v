(* C02 — Failover: only healthy backends are used; 503 only when none is healthy.  Statements only. *)
From Helios Require Import Base.Prelude Base.Wrap Model.Hash Model.Strategy Model.LB Proofs.StrategyProofs Proofs.LBProofs Proofs.FailoverProofs.
From Helios Require Import Gen.StrategyGen Proofs.StrategyRefine.

(* the health gate every dispatch goes through decides exactly "not inside the unhealthy window" *)
Theorem C02_gate :
  forall s b, fst (is_healthy s b) = negb (in_window b (now s)).
Proof. exact is_healthy_iff. Qed.
Print Assumptions C02_gate.

(* every strategy hands out a backend that is marked eligible whenever one exists in the pool, and
   reports "none" only if no pooled backend is marked eligible (all five strategies) *)
Theorem C02_strategy_eligible :
  forall s r, 0 <= sctr s -> sctr s + zlen (spool s) < 18446744073709551616 ->
    zlen (healthy (spool s)) < 2147483648 -> (forall x, In x (spool s) -> bactive x < 2147483647) ->
    match fst (s_pick s r) with
    | Some b => bflag b = true /\ In (bid b) (map bid (spool s))
    | None => forall y, In y (spool s) -> bflag y = false
    end.
Proof. exact pick_eligible. Qed.
Print Assumptions C02_strategy_eligible.

(* a backend that is marked eligible is outside its window *)
Theorem C02_flag_outside_window : forall b t, bflag b = true -> in_window b t = false.
Proof. exact flag_not_in_window. Qed.
Print Assumptions C02_flag_outside_window.

(* object identities are pairwise distinct in EVERY reachable state (any history of requests, outcomes, time, probes,
   admin operations from the initial state) *)
Theorem C02_identities_distinct :
  forall cfg k t0 ops, IdsOK (fst (lb_run cfg (lb_init cfg k t0) ops)).
Proof. intros cfg k t0 ops. apply lb_run_ids. apply init_ids. Qed.
Print Assumptions C02_identities_distinct.

(* whatever findHealthyBackend hands to the proxy is outside its unhealthy window (under every strategy) *)
Theorem C02_dispatch_only_outside_window :
  forall fuel s r b t, fst (find_healthy fuel s r) = Some b -> in_window b t = false.
Proof. exact find_healthy_some. Qed.
Print Assumptions C02_dispatch_only_outside_window.

(* THE COMPOSITION: in every reachable state, under every strategy, a request is answered "no healthy backend" (503) only
   if every pooled backend is inside its unhealthy window at that moment - an ejected backend never makes a request fail
   while another backend is healthy.  [sane] = the numeric side conditions (counter below 2^64 - n, fewer than 2^31 backends
   and in-flight requests per backend). *)
Theorem C02_503_only_if_every_backend_in_window :
  forall cfg k t0 ops rid q s',
    let s := fst (lb_run cfg (lb_init cfg k t0) ops) in
    sane s -> lb_begin cfg s rid q = (s', (1, 4)) ->
    forall b, In b (pool s) -> in_window b (now s) = true.
Proof.
  intros cfg k t0 ops rid q s' s Hs Hb. apply (begin_503_all_in_window cfg s rid q s'); [|exact Hs|exact Hb].
  apply lb_run_ids. apply init_ids.
Qed.
Print Assumptions C02_503_only_if_every_backend_in_window.

Example C02_nonvacuous :
  (* two backends, one ejected with its window still open, one healthy: the request is dispatched (to the healthy one);
     both ejected: 503 *)
  let cfg := {| c_passive := false; c_pthr := 1; c_ptimeout := 30; c_active := false; c_lim := false;
                c_lcfg := {| Limiter.lmax := 1; Limiter.lrate := 1 |}; c_brk := false;
                c_bcfg := {| Breaker.maxReq := 1; Breaker.interval := 1; Breaker.btimeout := 1; Breaker.fthr := 1; Breaker.sthr := 1 |} |} in
  let s0 := fst (lb_run cfg (lb_init cfg RR 0) [LAdd 1 1 true; LAdd 2 1 true]) in
  let s1 := mark_unhealthy cfg s0 1 1 in
  let s2 := mark_unhealthy cfg s1 2 2 in
  snd (lb_begin cfg s1 7 {| h_xff := []; h_xri := []; h_remote := [] |}) = (0, 2)
  /\ snd (lb_begin cfg s2 7 {| h_xff := []; h_xri := []; h_remote := [] |}) = (1, 4).
Proof. vm_compute. split; reflexivity. Qed.

From Helios Require Import Gen.HealthGen Proofs.HealthRefine.

(* The gate IS the source: IsBackendHealthy / MarkBackendUnhealthy of loadbalancer.go as go2coq regenerates them on every run
   (Gen/HealthGen.v) answer and update what the model's is_healthy / mark_unhealthy answer and update. *)
Theorem C02_gate_is_source :
  forall s b, lb_IsBackendHealthy mkLoadBalancer (abs_be b) (now s)
              = (abs_be (if negb (bflag b) && (buntil b <? now s) then set_flag true b else b), fst (is_healthy s b)).
Proof. exact is_healthy_refines. Qed.
Print Assumptions C02_gate_is_source.

Theorem C02_ejection_is_source :
  forall b now d, fst (lb_MarkBackendUnhealthy mkLoadBalancer (abs_be b) now d) = abs_be (set_until (now + d) (set_flag false b)).
Proof. exact mark_refines. Qed.
Print Assumptions C02_ejection_is_source.

(* The selection functions of the three counting strategies, on which the eligibility theorems above rest, are the source:
   regenerated from the NextBackend loops on every run (Gen/StrategyGen.v) and proved equal to the models (StrategyRefine.v) *)
Theorem C02_selection_is_source :
  (forall pool ctr, (at_idx pool (fst (sg_rr_next pool ctr)), snd (snd (sg_rr_next pool ctr))) = rr_pick pool ctr)
  /\ (forall pool ctr, at_idx pool (fst (sg_lc_next pool ctr)) = lc_pick pool)
  /\ (forall pool ctr, NoDup (map bid pool) ->
        option_map (fun j => bid (nth j pool dB)) (fst (sg_wrr_next pool ctr)) = option_map bid (fst (wrr_pick pool))).
Proof.
  split; [intros pool ctr; exact (proj1 (rr_is_source pool ctr))|].
  split; [intros pool ctr; exact (proj1 (lc_is_source pool ctr))|].
  intros pool ctr H. exact (proj1 (proj2 (wrr_is_source pool ctr H))).
Qed.
Print Assumptions C02_selection_is_source.
