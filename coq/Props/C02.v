(* C02 — Failover: only healthy backends are used; 503 only when none is healthy.  Statements only. *)
From Helios Require Import Base.Prelude Base.Wrap Model.Hash Model.Strategy Model.LB Proofs.StrategyProofs Proofs.LBProofs.

(* the health gate every dispatch goes through decides exactly "not inside the unhealthy window" *)
Theorem C02_gate :
  forall s b, fst (is_healthy s b) = negb (in_window b (now s)).
Proof. exact is_healthy_iff. Qed.
Print Assumptions C02_gate.

(* every strategy hands out a backend that is marked eligible whenever one exists in the pool, and
   reports "none" only if no pooled backend is marked eligible (all five strategies) *)
Theorem C02_strategy_eligible :
  forall s r, 0 <= sctr s -> sctr s + zlen (spool s) < 18446744073709551616 ->
    zlen (healthy (spool s)) < 2147483648 -> (forall x, In x (spool s) -> bactive x < 2147483647) ->
    match fst (s_pick s r) with
    | Some b => bflag b = true /\ In (bid b) (map bid (spool s))
    | None => forall y, In y (spool s) -> bflag y = false
    end.
Proof. exact pick_eligible. Qed.
Print Assumptions C02_strategy_eligible.

(* a backend that is marked eligible is outside its window *)
Theorem C02_flag_outside_window : forall b t, bflag b = true -> in_window b t = false.
Proof. exact flag_not_in_window. Qed.
Print Assumptions C02_flag_outside_window.

(* PARTIAL: the composition "lb_begin answers (1,4) => every pooled backend is inside its window" needs the
   post-condition of refresh_all (after the lazy expiry of the whole pool, flag = false <-> inside window)
   which is not yet proved for the pool/removed-object representation; it is monitored on every
   implementation trace (mon_c02_503) together with "dispatched => outside window" (mon_c02_disp). *)
