(* C09 — Rate limiting: per-client token-bucket bound, isolation, refill.
   This file contains statements only; proofs live in Proofs/LimiterProofs.v. *)
From Helios Require Import Base.Prelude Model.Limiter Proofs.LimiterProofs.

(* Full statement: for every accepted limiter configuration, every history (requests of any
   clients, time steps, clean-up runs at any instants) and every segment [mid] of it, each
   client is admitted at most max + floor(T/r) + 1 times during the segment (T = time that
   passes in it) and at most max times when no time passes. *)
Definition C09_window_statement : Prop :=
  forall cfg t0 pre mid c, wf_cfg cfg -> Forall op_wf (pre ++ mid) ->
    admitted c (snd (lrun cfg (fst (lrun cfg (linit t0) pre)) mid)) <= lmax cfg + dur mid / lrate cfg + 1
    /\ (dur mid = 0 -> admitted c (snd (lrun cfg (fst (lrun cfg (linit t0) pre)) mid)) <= lmax cfg).

Theorem C09_window : C09_window_statement.
Proof.
  intros cfg t0 pre mid c Hw Hf. split.
  - exact (window_bound cfg t0 pre mid c Hw (age_ok cfg) Hf).
  - exact (burst_bound cfg t0 pre mid c Hw (age_ok cfg) Hf).
Qed.
Print Assumptions C09_window.

(* Clean-up is unobservable: any history yields the same admissions as the history with its
   clean-up runs removed. *)
Theorem C09_cleanup_invisible :
  forall cfg t0 ops, wf_cfg cfg -> Forall op_wf ops ->
    snd (lrun cfg (linit t0) ops) = snd (lrun cfg (linit t0) (strip ops)).
Proof.
  intros cfg t0 ops Hw Hf.
  exact (proj1 (sim_run cfg ops (linit t0) (linit t0) Hw (age_ok cfg) Hf (sim_refl _ _) (linit_sinv _ _))).
Qed.
Print Assumptions C09_cleanup_invisible.

(* Isolation: what client c observes does not depend on other clients' requests. *)
Theorem C09_isolation :
  forall cfg c ops st,
    outs_of c (snd (lrun cfg st ops)) = outs_of c (snd (lrun cfg st (only c ops))).
Proof. exact isolation. Qed.
Print Assumptions C09_isolation.

(* A new client starts with a full burst. *)
Theorem C09_new_full :
  forall cfg c n st, wf_cfg cfg -> sinv cfg st -> get_bucket st c = None -> Z.of_nat n <= lmax cfg ->
    snd (lrun cfg st (repeat_op n (LAllow c))) = repeat_op n (c, true).
Proof. exact new_client_full. Qed.
Print Assumptions C09_new_full.

(* A client idle for k refill periods is admitted min(k,max) more times. *)
Theorem C09_idle :
  forall cfg c k n idle st,
    wf_cfg cfg -> sinv cfg st -> Forall op_wf idle -> Forall (no_allow_of c) idle ->
    0 <= k -> k * lrate cfg <= dur idle -> Z.of_nat n <= Z.min k (lmax cfg) ->
    snd (lrun cfg (fst (lrun cfg st idle)) (repeat_op n (LAllow c))) = repeat_op n (c, true).
Proof. exact idle_refill. Qed.
Print Assumptions C09_idle.

(* every reachable state satisfies the invariant the two theorems above assume *)
Theorem C09_reachable_inv :
  forall cfg t0 ops, wf_cfg cfg -> Forall op_wf ops -> sinv cfg (fst (lrun cfg (linit t0) ops)).
Proof. intros cfg t0 ops Hw Hf. apply lrun_sinv; auto using linit_sinv. Qed.
Print Assumptions C09_reachable_inv.

(* non-vacuity: a concrete configuration and history meet the hypotheses *)
Example C09_nonvacuous :
  wf_cfg {| lmax := 3; lrate := 1000000000 |}
  /\ Forall op_wf [LAllow 1; LAdvance 5; LCleanup; LAllow 2]
  /\ snd (lrun {| lmax := 3; lrate := 1000000000 |} (linit 0) [LAllow 1; LAllow 1; LAllow 1; LAllow 1])
     = [(1, true); (1, true); (1, true); (1, false)].
Proof. unfold wf_cfg. cbn. repeat split; try lia; repeat constructor; cbn; lia. Qed.

From Helios Require Import Gen.LimiterGen Proofs.LimiterRefine.

(* The model IS the source: refillTokens, the per-bucket part of Allow and bucketMaxAge of ratelimiter.go, as go2coq regenerates
   them on every run (Gen/LimiterGen.v), compute what Model/Limiter.v computes (buckets are stamped with times not in the future;
   a new client's bucket is full and stamped now). *)
Theorem C09_model_is_source_refill :
  forall cfg tick b now, 1 <= lrate cfg -> last b <= now ->
    rl_refillTokens (abs_rl cfg tick) (abs_b b) now = (abs_b (refill cfg b now), 0).
Proof. exact refill_refines. Qed.
Print Assumptions C09_model_is_source_refill.

Theorem C09_model_is_source_allow :
  forall cfg tick b now, 1 <= lrate cfg -> last b <= now ->
    rl_Allow (abs_rl cfg tick) (abs_b b) now = (abs_b (fst (allow_bucket cfg (Some b) now)), snd (allow_bucket cfg (Some b) now)).
Proof. exact allow_refines. Qed.
Print Assumptions C09_model_is_source_allow.

Theorem C09_model_is_source_max_age :
  forall cfg tick now, 1 <= lmax cfg -> 1 <= lrate cfg -> snd (rl_bucketMaxAge (abs_rl cfg tick) now) = cleanup_age cfg.
Proof. exact maxage_refines. Qed.
Print Assumptions C09_model_is_source_max_age.
