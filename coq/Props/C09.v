(* C09 — Rate limiting: per-client token-bucket bound, isolation, refill.
   This file contains statements only; proofs live in Proofs/LimiterProofs.v. *)
From Helios Require Import Base.Prelude Model.Limiter Proofs.LimiterProofs.

(* Full statement: for every accepted limiter configuration, every history (requests of any
   clients, time steps, clean-up runs at any instants) and every segment [mid] of it, each
   client is admitted at most max + floor(T/r) + 1 times during the segment (T = time that
   passes in it) and at most max times when no time passes. *)
Definition C09_window_statement : Prop :=
  forall cfg t0 pre mid c, wf_cfg cfg -> Forall op_wf (pre ++ mid) ->
    admitted c (snd (lrun cfg (fst (lrun cfg (linit t0) pre)) mid)) <= lmax cfg + dur mid / lrate cfg + 1
    /\ (dur mid = 0 -> admitted c (snd (lrun cfg (fst (lrun cfg (linit t0) pre)) mid)) <= lmax cfg).

(* Proved under the side condition that a deleted bucket would have refilled completely. *)
Theorem C09_window_partial :
  forall cfg t0 pre mid c, wf_cfg cfg -> lmax cfg * lrate cfg <= cleanup_age cfg ->
    Forall op_wf (pre ++ mid) ->
    admitted c (snd (lrun cfg (fst (lrun cfg (linit t0) pre)) mid)) <= lmax cfg + dur mid / lrate cfg + 1
    /\ (dur mid = 0 -> admitted c (snd (lrun cfg (fst (lrun cfg (linit t0) pre)) mid)) <= lmax cfg).
Proof.
  intros cfg t0 pre mid c Hw Hage Hf. split.
  - exact (window_bound cfg t0 pre mid c Hw Hage Hf).
  - exact (burst_bound cfg t0 pre mid c Hw Hage Hf).
Qed.
Print Assumptions C09_window_partial.

(* The full statement is false of the faithful model: max = 2, refill = 7200 s. *)
Theorem C09_window_refuted : ~ C09_window_statement.
Proof.
  intros H. destruct (H refute_cfg 0 [] refute_ops 1) as [Hb _].
  - unfold wf_cfg, refute_cfg; cbn; lia.
  - unfold refute_ops. repeat constructor; cbn; lia.
  - cbn [lrun fst] in Hb. destruct refute_admitted as [E1 E2]. rewrite E1, E2 in Hb. lia.
Qed.
Print Assumptions C09_window_refuted.

(* Isolation: what client c observes does not depend on other clients' requests. *)
Theorem C09_isolation :
  forall cfg c ops st,
    outs_of c (snd (lrun cfg st ops)) = outs_of c (snd (lrun cfg st (only c ops))).
Proof. exact isolation. Qed.
Print Assumptions C09_isolation.

(* A new client starts with a full burst. *)
Theorem C09_new_full :
  forall cfg c n st, wf_cfg cfg -> sinv cfg st -> get_bucket st c = None -> Z.of_nat n <= lmax cfg ->
    snd (lrun cfg st (repeat_op n (LAllow c))) = repeat_op n (c, true).
Proof. exact new_client_full. Qed.
Print Assumptions C09_new_full.

(* A client idle for k refill periods is admitted min(k,max) more times. *)
Theorem C09_idle :
  forall cfg c k n idle st,
    wf_cfg cfg -> sinv cfg st -> Forall op_wf idle -> Forall (no_allow_of c) idle ->
    0 <= k -> k * lrate cfg <= dur idle -> Z.of_nat n <= Z.min k (lmax cfg) ->
    snd (lrun cfg (fst (lrun cfg st idle)) (repeat_op n (LAllow c))) = repeat_op n (c, true).
Proof. exact idle_refill. Qed.
Print Assumptions C09_idle.

(* every reachable state satisfies the invariant the two theorems above assume *)
Theorem C09_reachable_inv :
  forall cfg t0 ops, wf_cfg cfg -> Forall op_wf ops -> sinv cfg (fst (lrun cfg (linit t0) ops)).
Proof. intros cfg t0 ops Hw Hf. apply lrun_sinv; auto using linit_sinv. Qed.
Print Assumptions C09_reachable_inv.

(* non-vacuity: a concrete configuration and history meet the hypotheses *)
Example C09_nonvacuous :
  wf_cfg {| lmax := 3; lrate := 1000000000 |}
  /\ lmax {| lmax := 3; lrate := 1000000000 |} * lrate {| lmax := 3; lrate := 1000000000 |} <= cleanup_age {| lmax := 3; lrate := 1000000000 |}
  /\ Forall op_wf [LAllow 1; LAdvance 5; LCleanup; LAllow 2]
  /\ snd (lrun {| lmax := 3; lrate := 1000000000 |} (linit 0) [LAllow 1; LAllow 1; LAllow 1; LAllow 1])
     = [(1, true); (1, true); (1, true); (1, false)].
Proof. unfold wf_cfg, cleanup_age, hour. cbn. repeat split; try lia; repeat constructor; cbn; lia. Qed.
