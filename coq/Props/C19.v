(* C19 — Graceful shutdown completes, drains requests and stops probing.  Statements only.
   PARTIAL: that Stop RETURNS (no step of it waits on something that waits on Stop), that http.Server.Shutdown drains and that the
   process exits within the timeout are runtime behaviour: they are decided on every run by the probe suite (virtual time,
   Stop placed before the first tick, while probes get no answer, between ticks, repeatedly, concurrently) and by the sigterm
   suite on the real binary.  The theorems are about the protocol state. *)
From Helios Require Import Base.Prelude Model.Shutdown Proofs.ShutdownProofs Model.WSPool Proofs.WSPoolProofs.

(* Stop leaves no probe in flight (every pending probe has been cancelled) and marks the balancer stopped *)
Theorem C19_stop_completes :
  forall cfg s, ps_pending (fst (pstep cfg s PStop)) = [] /\ ps_stopped (fst (pstep cfg s PStop)) = true.
Proof. exact stop_completes. Qed.
Print Assumptions C19_stop_completes.

(* no health probe is sent after Stop returned: over EVERY later history every tick probes nobody, and the state stays quiet *)
Theorem C19_no_probe_after_stop :
  forall cfg s ops, let s' := fst (pstep cfg s PStop) in
    ticks_silent ops (snd (prun cfg s' ops)) /\ Quiet (fst (prun cfg s' ops)).
Proof. exact no_probe_after_stop. Qed.
Print Assumptions C19_no_probe_after_stop.

(* repeated Stop calls are harmless *)
Theorem C19_stop_idempotent :
  forall cfg s, fst (pstep cfg (fst (pstep cfg s PStop)) PStop) = fst (pstep cfg s PStop)
             /\ snd (pstep cfg (fst (pstep cfg s PStop)) PStop) = PStopped [].
Proof. exact stop_twice. Qed.
Print Assumptions C19_stop_idempotent.

(* pooled connections are closed by Stop (it calls the pool's Shutdown) *)
Theorem C19_pool_closed :
  forall cfg s, let s' := fst (wp_step cfg s WShutdown) in
    pw_idle s' = [] /\ pw_pools s' = [] /\ forall c, In c (idle_conns s) -> In c (pw_closed s').
Proof. exact shutdown_closes. Qed.
Print Assumptions C19_pool_closed.

Example C19_nonvacuous :
  let cfg := mkPCfg 30 5 in
  let s0 := mkPS 0 [mkPB 1 true 0 3; mkPB 2 true 0 0] [] false in
  snd (prun cfg s0 [PTick; PAdvance 2; PStop; PAdvance 10; PTick; PRequest; PStop])
  = [PProbed [1; 2]; PNone; PStopped [1]; PNone; PProbed []; PEligible [2]; PStopped []].
Proof. vm_compute. reflexivity. Qed.
