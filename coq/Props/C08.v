(* C08 — Circuit breaker liveness.  Statements only; proofs in Proofs/BreakerProofs.v. *)
From Helios Require Import Base.Prelude Model.Breaker Proofs.BreakerProofs.

(* Full statement: from every state reachable by any history, once the in-flight requests have ended
   (with whatever outcomes), waiting longer than the timeout and then issuing success_threshold
   successful requests admits all of them and leaves the breaker closed. *)
Definition C08_recovers (cfg : bcfg) : Prop :=
  forall t0 ops outs dt, Forall bop_wf ops ->
    let s := fst (brun cfg (binit t0) ops) in
    (length (pend s) <= length outs)%nat -> btimeout cfg < dt ->
    let s1 := advance (drain cfg s outs) dt in
    st (fst (run_succ cfg s1 (Z.to_nat (sthr cfg)))) = Closed
    /\ snd (run_succ cfg s1 (Z.to_nat (sthr cfg))) = true.

Theorem C08_partial : forall cfg, bwf_cfg cfg -> sthr cfg <= maxReq cfg -> C08_recovers cfg.
Proof.
  intros cfg Hw Hms t0 ops outs dt Hf s Hl Hdt s1.
  assert (Hi : BInv cfg s) by (apply brun_inv; auto using binit_inv).
  apply recover; auto using drain_inv, drain_empty.
Qed.
Print Assumptions C08_partial.

(* Without success_threshold <= max_requests the statement is false: lock-out for ever. *)
Theorem C08_refuted_lockout :
  bwf_cfg lock_cfg /\ ~ C08_recovers lock_cfg.
Proof.
  split; [unfold bwf_cfg, lock_cfg; cbn; lia|].
  intros H.
  assert (Hf : Forall bop_wf [BBegin 1; BEnd 1 false; BAdv 61; BBegin 2; BEnd 2 true])
    by (repeat constructor; cbn; lia).
  pose proof (H 0 _ [] 61 Hf) as H1. cbn zeta in H1.
  assert (Hl : (length (pend (fst (brun lock_cfg (binit 0) [BBegin 1; BEnd 1 false; BAdv 61; BBegin 2; BEnd 2 true])))
                <= length (@nil bool))%nat) by (vm_compute; lia).
  assert (Ht : btimeout lock_cfg < 61) by (cbn; lia).
  destruct (H1 Hl Ht) as [H2 _]. vm_compute in H2. discriminate.
Qed.
Print Assumptions C08_refuted_lockout.

Theorem C08_lockout_is_permanent :
  forall ops, st (srun lock_cfg lock_state ops) = HalfOpen /\ rc (srun lock_cfg lock_state ops) = rc lock_state.
Proof.
  intros ops. destruct lock_state_facts as (E & _ & _ & Hr). apply stuck_forever; auto.
Qed.
Print Assumptions C08_lockout_is_permanent.

(* once closed, successful traffic keeps it closed and is always admitted *)
Theorem C08_closed_stays :
  forall cfg n s, st s = Closed -> st (fst (run_succ cfg s n)) = Closed /\ snd (run_succ cfg s n) = true.
Proof. intros. apply closed_run; auto. Qed.
Print Assumptions C08_closed_stays.

From Helios Require Import Gen.BreakerGen Proofs.BreakerRefine.

(* The model IS the source: its admission and completion steps are beforeRequest / afterRequest of circuitbreaker.go as go2coq
   regenerates them on every run (Gen/BreakerGen.v), field for field; times are positive, which every history starting at a
   positive instant preserves. *)
Theorem C08_model_is_source_admission :
  forall cfg s rid l, bwf_cfg cfg -> times_pos s ->
    cb_beforeRequest (abs_cb cfg s l) (bnow s) = (abs_cb cfg (fst (begin cfg s rid)) l, snd (begin cfg s rid)).
Proof. exact before_refines. Qed.
Print Assumptions C08_model_is_source_admission.

Theorem C08_model_is_source_completion :
  forall cfg s rid ok l,
    fst (cb_afterRequest (abs_cb cfg s l) (bnow s) ok) = abs_cb cfg (finish cfg s rid ok) (if ok then bnow s else l).
Proof. exact after_refines. Qed.
Print Assumptions C08_model_is_source_completion.

(* the state query reads and nothing else: no transition (open -> half-open, new trial episode) hides in State() *)
Theorem C08_state_query_is_pure : forall self now, cb_State self now = (self, cb_state self).
Proof. exact state_query_is_pure. Qed.
Print Assumptions C08_state_query_is_pure.

Theorem C08_times_positive_invariant :
  forall cfg s o, bop_wf o -> times_pos s -> times_pos (fst (bstep cfg s o)).
Proof. exact times_pos_step. Qed.
Print Assumptions C08_times_positive_invariant.
