(* C05 — Distribution contracts of round_robin, weighted_round_robin, least_connections.
   Statements only; proofs in Proofs/StrategyProofs.v. *)
From Helios Require Import Base.Prelude Base.Wrap Model.Hash Model.Strategy Proofs.StrategyProofs Proofs.WrrBoundProofs.
From Helios Require Import Gen.StrategyGen Proofs.StrategyRefine.

(* round robin with every backend eligible: the pick after counter value c returns the backend at
   index (c+1) mod n and advances the counter by one ... *)
Theorem C05_rr_index :
  forall pool c, all_flag pool -> pool <> [] -> 0 <= c -> c + 1 < 18446744073709551616 ->
    rr_pick pool c = (nthZ pool ((c + 1) mod zlen pool), c + 1).
Proof. exact rr_pick_index. Qed.
Print Assumptions C05_rr_index.

(* with ineligible members the scan skips them and returns an eligible backend whenever one exists *)
Theorem C05_rr_eligible :
  forall pool c, 0 <= c -> c + zlen pool < 18446744073709551616 ->
    (exists b, In b pool /\ bflag b = true) ->
    exists b c', rr_pick pool c = (Some b, c') /\ In b pool /\ bflag b = true.
Proof. exact rr_finds_flagged. Qed.
Print Assumptions C05_rr_eligible.

(* ... and among any n*m consecutive counter values every index 0..n-1 occurs exactly m times
   (m = 1: exactly one of every n consecutive requests).  The counter is advanced by one atomic
   fetch-and-add per pick, so the multiset handed to concurrent pickers is that of the sequential run. *)
Theorem C05_rr_window :
  forall n i c m, 0 < n -> 0 <= i < n -> 0 <= m -> cnt n i c (Z.to_nat (n * m)) = m.
Proof. exact rr_window. Qed.
Print Assumptions C05_rr_window.

(* smooth weighted round robin, fresh pool, stable eligible set: after W = sum(w) picks backend i
   was picked exactly w_i times and the state is the initial state again ... *)
Theorem C05_wrr_exact :
  forall p, all_flag p -> p <> [] -> NoDup (map bid p) -> weights_pos p -> fresh p ->
    let '(ps, p') := wrun (Z.to_nat (Wt p)) p in
    (forall b, In b p -> count_in (bid b) ps = bweight b) /\ p' = p.
Proof. exact swrr_exact. Qed.
Print Assumptions C05_wrr_exact.

(* ... hence EVERY window of W consecutive picks, at any offset a, contains exactly w_i picks of i *)
Theorem C05_wrr_sliding :
  forall p a, all_flag p -> p <> [] -> NoDup (map bid p) -> weights_pos p -> fresh p ->
    forall b, In b p ->
      count_in (bid b) (fst (wrun (Z.to_nat (Wt p) + a) p)) - count_in (bid b) (fst (wrun a p)) = bweight b.
Proof. exact swrr_sliding. Qed.
Print Assumptions C05_wrr_sliding.

(* lag identity: after k picks of a stable stretch, cw_i(k) = cw_i(0) + k*w_i - W*n_i, i.e. the deviation
   of backend i from its proportional share is (cw_i(0) - cw_i(k)) / W: it does not grow with k as long
   as the running weights stay bounded (they stay in (-W, ...) from any state with sum zero) *)
Theorem C05_wrr_lag_identity :
  forall k p, all_flag p -> p <> [] -> NoDup (map bid p) -> weights_pos p -> WInv p ->
    let '(ps, p') := wrun k p in
    p' = map (after_run (Z.of_nat k) (Wt p) ps) p /\ WInv p' /\ length ps = k.
Proof.
  intros k p Hf Hne Hnd Hw Hi. pose proof (wrun_spec k p Hf Hne Hnd Hw Hi) as H.
  destruct (wrun k p) as [ps p']. tauto.
Qed.
Print Assumptions C05_wrr_lag_identity.

(* After ANY history of additions (fresh object, weight >= 1), removals, health changes, in-flight updates and picks, with any
   eligible set at every pick: in the stable stretch that follows, after k picks (every k) every eligible backend i has received
   n_i requests with | n_i * W_E - k * w_i | <= 2 * (n - 1) * W_T, i.e. it stays within 2 * (n - 1) * W_T / W_E of its
   proportional share k * w_i / W_E - a bound that does not grow with the number of requests.  (n members, W_T their total
   weight, W_E the eligible weight.)  By the subset-sum invariant of Proofs/WrrBoundProofs.v. *)
Theorem C05_wrr_bounded_after_any_history :
  forall ops, h_valid (s_init WRR) ops ->
    let p := spool (fold_left h_step ops (s_init WRR)) in
    forall k b, In b p -> bflag b = true ->
      Z.abs (count_in (bid b) (fst (wrun k p)) * wrr_total p - Z.of_nat k * bweight b) <= 2 * ((zlen p - 1) * Wt p).
Proof. exact wrr_deviation_bounded. Qed.
Print Assumptions C05_wrr_bounded_after_any_history.

(* ... because the running weights themselves stay bounded in every reachable state *)
Theorem C05_wrr_running_weights_bounded :
  forall ops, h_valid (s_init WRR) ops ->
    let p := spool (fold_left h_step ops (s_init WRR)) in
    forall b, In b p -> Z.abs (bcw b) <= (zlen p - 1) * Wt p.
Proof.
  intros ops Hv p b Hb. destruct (history_inv ops (s_init WRR) HInv_init Hv) as (_ & Hnd & _ & Hi).
  apply cw_bounded; assumption.
Qed.
Print Assumptions C05_wrr_running_weights_bounded.

(* The constant the property names, 2 * W_T / W_E, is NOT a bound: the statement with that constant is refuted by a history of
   health changes over five backends of weights 8,1,1,1,1 (known finding wrr-flap-beyond-two-ratio: replayed on the
   implementation by the strategy suite's corpus).  What is proved is the constant 2 * (n - 1) * W_T / W_E above. *)
Theorem C05_wrr_two_ratio_refuted :
  exists ops k b,
    h_valid (s_init WRR) ops /\
    let p := spool (fold_left h_step ops (s_init WRR)) in
    In b p /\ bflag b = true /\
    Z.abs (count_in (bid b) (fst (wrun k p)) * wrr_total p - Z.of_nat k * bweight b) > 2 * Wt p.
Proof.
  exists flap_history, 7%nat, (mkB 2 2 1 true 0 0 16). split; [exact flap_history_valid|].
  vm_compute. split; [right; left; reflexivity|]. split; reflexivity.
Qed.
Print Assumptions C05_wrr_two_ratio_refuted.

(* Removal starts a fresh cycle (s_remove), so the exactness theorems apply again after every removal: *)
Theorem C05_wrr_fresh_after_removal :
  forall s id, mem_id id (spool s) = true -> fresh (spool (s_remove s id)).
Proof.
  intros s id H. unfold s_remove. cbn [spool]. rewrite H. unfold fresh. rewrite Forall_map.
  apply Forall_forall. intros b _. reflexivity.
Qed.
Print Assumptions C05_wrr_fresh_after_removal.

(* For the record: WITHOUT that reset the bound was false (the former behaviour, kept as a witness). *)
Definition wrr_after_removal_stale : list backend :=
  let p0 := [mkB 1 1 6 true 0 0 0; mkB 2 2 1 true 0 0 0; mkB 3 3 1 true 0 0 0; mkB 4 4 1 true 0 0 0] in
  remove_swap 1 (snd (wrun 3 p0)).
Theorem C05_wrr_stale_removal_witness :
  Wt wrr_after_removal_stale = 3 /\
  count_in 2 (fst (wrun 7 wrr_after_removal_stale)) = 0 /\
  Z.abs (0 * 3 - 7 * 1) > 2 * 3.
Proof. vm_compute. repeat split; reflexivity. Qed.
Print Assumptions C05_wrr_stale_removal_witness.

(* least connections: the pick is eligible and has a minimal in-flight count among the eligible backends *)
Theorem C05_lc_min :
  forall pool, (exists b, In b pool /\ bflag b = true) -> (forall x, In x pool -> bactive x < 2147483647) ->
    exists b, lc_pick pool = Some b /\ In b pool /\ bflag b = true
              /\ forall x, In x pool -> bflag x = true -> bactive b <= bactive x.
Proof. exact lc_min. Qed.
Print Assumptions C05_lc_min.

(* The three selection functions these theorems speak of are the source: Gen/StrategyGen.v is regenerated on every run from the
   NextBackend loops of round_robin.go, least_connections.go and weighted_round_robin.go (loops over slice indices, pointers into
   the slice as indices, early return and continue), and for every pool and counter they compute what the models compute: the
   same pick (by position / identity), the same counter, the same running weights. *)
Theorem C05_rr_is_source :
  forall pool ctr,
    (at_idx pool (fst (sg_rr_next pool ctr)), snd (snd (sg_rr_next pool ctr))) = rr_pick pool ctr
    /\ fst (snd (sg_rr_next pool ctr)) = pool.
Proof. exact rr_is_source. Qed.
Print Assumptions C05_rr_is_source.

Theorem C05_lc_is_source :
  forall pool ctr, at_idx pool (fst (sg_lc_next pool ctr)) = lc_pick pool /\ snd (sg_lc_next pool ctr) = (pool, ctr).
Proof. exact lc_is_source. Qed.
Print Assumptions C05_lc_is_source.

Theorem C05_wrr_is_source :
  forall pool ctr, NoDup (map bid pool) ->
    fst (snd (sg_wrr_next pool ctr)) = snd (wrr_pick pool)
    /\ option_map (fun j => bid (nth j pool dB)) (fst (sg_wrr_next pool ctr)) = option_map bid (fst (wrr_pick pool))
    /\ snd (snd (sg_wrr_next pool ctr)) = ctr.
Proof. exact wrr_is_source. Qed.
Print Assumptions C05_wrr_is_source.

Example C05_nonvacuous :
  let p := [mkB 1 1 5 true 0 0 0; mkB 2 2 1 true 0 0 0; mkB 3 3 1 true 0 0 0] in
  all_flag p /\ NoDup (map bid p) /\ weights_pos p /\ fresh p /\
  fst (wrun 7 p) = [1; 1; 2; 1; 3; 1; 1].
Proof.
  cbn zeta. repeat split; try (repeat constructor; cbn; intuition lia).
Qed.
