(* C17 — Plugin chain: configured order, rejection stops the chain, startup fails closed.  Statements only. *)
From Helios Require Import Base.Prelude Base.Bytes Model.Chain Proofs.ChainProofs Model.Proxy Proofs.ProxyProofs.

(* BuildChain's loop (last entry first) builds the nesting "first listed outermost" *)
Theorem C17_first_listed_outermost : forall ps base, build_loop ps base = fold_right wrap base ps.
Proof. exact build_loop_fold. Qed.
Print Assumptions C17_first_listed_outermost.

(* for EVERY chain: when no plugin rejects, the plugins are entered in exactly the configured order, then the backend is
   called, then they are left in the reverse order *)
Theorem C17_order :
  forall ps, forallb (fun p => negb (snd p)) ps = true -> serve ps = enters ps ++ [Backend] ++ exits ps.
Proof. exact serve_all_pass. Qed.
Print Assumptions C17_order.

(* a rejecting plugin prevents all later plugins and the backend from seeing the request *)
Theorem C17_gating :
  forall pre i post, forallb (fun p => negb (snd p)) pre = true ->
    serve (pre ++ (i, true) :: post) = enters pre ++ [Enter i; Reject i; Exit i] ++ exits pre.
Proof. exact serve_gate. Qed.
Print Assumptions C17_gating.

Theorem C17_rejected_never_reaches_backend :
  forall pre i post, forallb (fun p => negb (snd p)) pre = true -> ~ In Backend (serve (pre ++ (i, true) :: post)).
Proof. exact gate_no_backend. Qed.
Print Assumptions C17_rejected_never_reaches_backend.

Theorem C17_rejected_never_reaches_later_plugin :
  forall pre i post j, forallb (fun p => negb (snd p)) pre = true -> In j (map fst post) -> ~ In j (map fst pre) -> j <> i ->
    ~ In (Enter j) (serve (pre ++ (i, true) :: post)).
Proof. exact gate_no_later_plugin. Qed.
Print Assumptions C17_rejected_never_reaches_later_plugin.

(* startup fails closed: a handler exists iff every entry names a registered plugin whose factory accepts its options *)
Theorem C17_fail_closed :
  forall chain, chain <> [] -> (build_ok true chain = true <-> forall e, In e chain -> entry_ok e = true).
Proof. exact build_ok_iff. Qed.
Print Assumptions C17_fail_closed.

Theorem C17_unknown_plugin_prevents_startup :
  forall chain name o, In (name, o) chain -> factory_ok name o = None -> build_ok true chain = false.
Proof. exact unknown_plugin_fails. Qed.
Print Assumptions C17_unknown_plugin_prevents_startup.

(* on the full stack: a request a plugin rejects is answered by Helios and no backend view exists for it *)
Theorem C17_stack_rejection_contacts_no_backend :
  forall c phase q code pre, forward c phase q = Rejected code pre -> forall b pre', forward c phase q <> Forwarded b pre'.
Proof. exact rejected_no_backend. Qed.
Print Assumptions C17_stack_rejection_contacts_no_backend.

Example C17_nonvacuous :
  serve [(0, false); (1, false); (2, true); (3, false)] = [Enter 0; Enter 1; Enter 2; Reject 2; Exit 2; Exit 1; Exit 0]
  /\ serve [(0, false); (1, false)] = [Enter 0; Enter 1; Backend; Exit 1; Exit 0]
  /\ build_ok true [(n_logging, []); (n_size_limit, [(k_max_request_body, VInt 0)])] = false
  /\ build_ok true [(n_logging, []); ([103;122], [])] = false
  /\ build_ok true [(n_custom_auth, [(k_apiKey, VStr [107])]); (n_gzip, [(k_level, VInt 5); (k_min_size, VFloat 10); (k_content_types, VList [VStr [116]])])] = true.
Proof. vm_compute. repeat split; reflexivity. Qed.
