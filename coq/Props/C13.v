(* C13 — Accounting: counters conserve requests; in-flight gauges return to zero.
   Statements only; proofs in Proofs/LBProofs.v. *)
From Helios Require Import Base.Prelude Model.Strategy Model.LB Proofs.LBProofs.

(* Conservation law, for every configuration and every history of the composite balancer model
   (requests of any clients overlapping arbitrarily, any outcomes incl. aborted responses, rate-limited,
   breaker-rejected and no-healthy-backend requests, admin operations, probes, time):
   total = successful + failed + rate_limited + (requests still in flight). *)
Theorem C13_conservation :
  forall cfg k t0 ops, conserved (fst (lb_run cfg (lb_init cfg k t0) ops)).
Proof. intros. apply lb_run_conserved. apply lb_init_conserved. Qed.
Print Assumptions C13_conservation.

(* hence at every quiescent moment every request is in exactly one of the three classes *)
Theorem C13_partition_at_quiescence :
  forall cfg k t0 ops, let s := fst (lb_run cfg (lb_init cfg k t0) ops) in
    infl s = [] -> total s = succ s + failed s + rlim s.
Proof.
  intros cfg k t0 ops s Hq. pose proof (C13_conservation cfg k t0 ops) as H. unfold conserved in H.
  fold s in H. rewrite Hq in H. cbn in H. lia.
Qed.
Print Assumptions C13_partition_at_quiescence.

(* total_requests equals the number of requests that reached the balancer *)
Theorem C13_total :
  forall cfg k t0 ops, total (fst (lb_run cfg (lb_init cfg k t0) ops)) = begins ops.
Proof. intros. rewrite lb_run_total by apply lb_init_conserved. reflexivity. Qed.
Print Assumptions C13_total.

Example C13_nonvacuous :
  let cfg := {| c_passive := true; c_pthr := 1; c_ptimeout := 30; c_active := false; c_lim := false;
                c_lcfg := {| Helios.Model.Limiter.lmax := 1; Helios.Model.Limiter.lrate := 1 |}; c_brk := false;
                c_bcfg := {| Helios.Model.Breaker.maxReq := 1; Helios.Model.Breaker.interval := 1;
                             Helios.Model.Breaker.btimeout := 1; Helios.Model.Breaker.fthr := 1; Helios.Model.Breaker.sthr := 1 |} |} in
  let q := {| h_xff := []; h_xri := []; h_remote := [49] |} in
  let s := fst (lb_run cfg (lb_init cfg RR 0)
                  [LAdd 1 1 true; LBegin 1 q; LEnd 1 (OStatus 500); LBegin 2 q; LBegin 3 q; LAdv 31; LBegin 4 q; LEnd 4 OAbort]) in
  (total s, succ s, failed s, rlim s, infl s) = (4, 0, 4, 0, []).
Proof. vm_compute. reflexivity. Qed.
