(* C13 — Accounting: counters conserve requests; in-flight gauges return to zero.
   Statements only; proofs in Proofs/LBProofs.v and Proofs/AccountingProofs.v. *)
From Helios Require Import Base.Prelude Model.Strategy Model.LB Proofs.LBProofs Proofs.AccountingProofs.
From Helios Require Import Gen.BackendGen Proofs.BackendRefine.

(* Conservation law, for every configuration and every history of the composite balancer model
   (requests of any clients overlapping arbitrarily, any outcomes incl. aborted responses, rate-limited,
   breaker-rejected and no-healthy-backend requests, admin operations, probes, time):
   total = successful + failed + rate_limited + (requests still in flight). *)
Theorem C13_conservation :
  forall cfg k t0 ops, conserved (fst (lb_run cfg (lb_init cfg k t0) ops)).
Proof. intros. apply lb_run_conserved. apply lb_init_conserved. Qed.
Print Assumptions C13_conservation.

(* hence at every quiescent moment every request is in exactly one of the three classes *)
Theorem C13_partition_at_quiescence :
  forall cfg k t0 ops, let s := fst (lb_run cfg (lb_init cfg k t0) ops) in
    infl s = [] -> total s = succ s + failed s + rlim s.
Proof.
  intros cfg k t0 ops s Hq. pose proof (C13_conservation cfg k t0 ops) as H. unfold conserved in H.
  fold s in H. rewrite Hq in H. cbn in H. lia.
Qed.
Print Assumptions C13_partition_at_quiescence.

(* total_requests equals the number of requests that reached the balancer *)
Theorem C13_total :
  forall cfg k t0 ops, total (fst (lb_run cfg (lb_init cfg k t0) ops)) = begins ops.
Proof. intros. rewrite lb_run_total by apply lb_init_conserved. reflexivity. Qed.
Print Assumptions C13_total.

(* Each backend's active-connection gauge equals its number of in-flight requests: in every reachable state, for every
   *Backend object - pooled or already removed with requests still draining - ActiveConnections is the number of entries of the
   in-flight table that were dispatched to that object ... *)
Theorem C13_object_gauge :
  forall cfg k t0 ops, let s := fst (lb_run cfg (lb_init cfg k t0) ops) in
  forall b, In b (pool s ++ dead s) -> bactive b = cnt (bid b) (infl s).
Proof. exact object_gauge. Qed.
Print Assumptions C13_object_gauge.

(* ... returning to zero when idle, after every kind of failed, rejected or aborted request *)
Theorem C13_object_gauge_zero_when_idle :
  forall cfg k t0 ops, let s := fst (lb_run cfg (lb_init cfg k t0) ops) in
  forall b, In b (pool s ++ dead s) -> (forall e, In e (infl s) -> eid e <> bid b) -> bactive b = 0.
Proof. exact object_gauge_idle. Qed.
Print Assumptions C13_object_gauge_zero_when_idle.

(* Per-backend totals equal the number of requests each backend was actually sent: the collector's total of a name plus the
   requests still in flight on that name is the number of dispatch decisions of the history whose object carries that name *)
Theorem C13_backend_totals :
  forall cfg k t0 ops n, let s := fst (lb_run cfg (lb_init cfg k t0) ops) in
  m_total (bm_get s n) + cntn n (infl s) = sent cfg n (lb_init cfg k t0) ops.
Proof. exact backend_totals. Qed.
Print Assumptions C13_backend_totals.

(* and each of them is counted as exactly one of successful / failed *)
Theorem C13_backend_split :
  forall cfg k t0 ops n, let s := fst (lb_run cfg (lb_init cfg k t0) ops) in
  m_total (bm_get s n) = m_succ (bm_get s n) + m_fail (bm_get s n).
Proof. exact backend_split. Qed.
Print Assumptions C13_backend_split.

(* The PUBLISHED gauge (the collector's mirror, keyed by name).  Full statement: in every reachable state it equals the number
   of requests in flight on that name.  That is FALSE of the code (known finding gauge-stale-after-readd-while-draining):
   the witness below is the history the lbseq corpus replays on the implementation. *)
Theorem C13_published_gauge_refuted :
  let s := fst (lb_run refute_cfg (lb_init refute_cfg RR 0) refute_ops) in
  m_gauge (bm_get s 4) = 0 /\ cntn 4 (infl s) = 1.
Proof. exact mirror_gauge_refuted. Qed.
Print Assumptions C13_published_gauge_refuted.

(* What does hold (partial): on every history in which no name is added again while a removed backend of that name still has
   requests in flight, the published gauge of every name equals the requests in flight on it, in every reachable state. *)
Theorem C13_published_gauge_partial :
  forall cfg k t0 ops n, clean_run cfg (lb_init cfg k t0) ops ->
  let s := fst (lb_run cfg (lb_init cfg k t0) ops) in m_gauge (bm_get s n) = cntn n (infl s).
Proof. exact mirror_gauge_clean. Qed.
Print Assumptions C13_published_gauge_partial.

Example C13_nonvacuous :
  let cfg := {| c_passive := true; c_pthr := 1; c_ptimeout := 30; c_active := false; c_lim := false;
                c_lcfg := {| Helios.Model.Limiter.lmax := 1; Helios.Model.Limiter.lrate := 1 |}; c_brk := false;
                c_bcfg := {| Helios.Model.Breaker.maxReq := 1; Helios.Model.Breaker.interval := 1;
                             Helios.Model.Breaker.btimeout := 1; Helios.Model.Breaker.fthr := 1; Helios.Model.Breaker.sthr := 1 |} |} in
  let q := {| h_xff := []; h_xri := []; h_remote := [49] |} in
  let s := fst (lb_run cfg (lb_init cfg RR 0)
                  [LAdd 1 1 true; LBegin 1 q; LEnd 1 (OStatus 500); LBegin 2 q; LBegin 3 q; LAdv 31; LBegin 4 q; LEnd 4 OAbort]) in
  (total s, succ s, failed s, rlim s, infl s) = (4, 0, 4, 0, []).
Proof. vm_compute. reflexivity. Qed.

(* a clean history that removes a backend with a request in flight, lets it drain, adds the name again and dispatches to the
   new object: the hypotheses of the partial theorem are satisfiable on a history that exercises remove / re-add *)
Example C13_clean_nonvacuous :
  let ops := [LAdd 4 1 true; LBegin 1 refute_q; LRemove 4; LEnd 1 (OStatus 200); LAdd 4 1 true; LBegin 2 refute_q] in
  clean_run refute_cfg (lb_init refute_cfg RR 0) ops
  /\ let s := fst (lb_run refute_cfg (lb_init refute_cfg RR 0) ops) in
     (m_gauge (bm_get s 4), cntn 4 (infl s), m_total (bm_get s 4), sent refute_cfg 4 (lb_init refute_cfg RR 0) ops) = (1, 1, 1, 2).
Proof. split; [cbn; repeat split; intros; reflexivity|vm_compute; reflexivity]. Qed.

(* The gauge steps of the model are the source: Gen/BackendGen.v is regenerated from loadbalancer.go on every run
   (IncrementConnections, DecrementConnections, GetActiveConnections, markedHealthy of one backend object): dispatch adds one to the
   object's gauge, completion takes one off, reading changes nothing - and nothing else of the object moves *)
Theorem C13_gauge_steps_are_source :
  forall b now,
    fst (bo_IncrementConnections (abs_bo b) now) = abs_bo (set_active (bactive b + 1) b)
    /\ fst (bo_DecrementConnections (abs_bo b) now) = abs_bo (set_active (bactive b - 1) b)
    /\ bo_GetActiveConnections (abs_bo b) now = (abs_bo b, bactive b)
    /\ fst (bo_DecrementConnections (fst (bo_IncrementConnections (abs_bo b) now)) now) = abs_bo b.
Proof.
  intros b now. split; [apply increment_is_plus_one|]. split; [apply decrement_is_minus_one|].
  split; [apply active_connections_is_gauge|apply increment_decrement].
Qed.
Print Assumptions C13_gauge_steps_are_source.
