(* C11 — Runtime reconfiguration is atomic and consistent under traffic.  Statements only.
   Every admin operation of the model is one atomic step (the balancer's RWMutex is held for the whole
   operation); requests are the separate steps Begin / End, so any interleaving of admin operations
   with requests in flight is a history of lb_run. *)
From Helios Require Import Base.Prelude Model.Strategy Model.LB Proofs.LBProofs.

(* once add returns successfully the backend is listed (last), healthy and idle, with weight max(1,w) *)
Theorem C11_add_listed :
  forall s name w, has_name name (pool s) = false ->
    snd (lb_add s name w true) = 0 /\
    lb_list (fst (lb_add s name w true)) = lb_list s ++ [name; 1; 0; (if w <? 1 then 1 else w)].
Proof. exact lb_add_listed. Qed.
Print Assumptions C11_add_listed.

(* add fails exactly for an unparsable address or a name that is already registered, and then changes nothing *)
Theorem C11_add_fail :
  forall s name w ok,
    (snd (lb_add s name w ok) = 1 <-> (ok = false \/ has_name name (pool s) = true))
    /\ (snd (lb_add s name w ok) = 1 -> fst (lb_add s name w ok) = s).
Proof. intros. split; [apply lb_add_fails_iff|apply lb_add_fail_unchanged]. Qed.
Print Assumptions C11_add_fail.

(* an unknown strategy changes nothing; a known one keeps exactly the same backends in the same order
   with their weights, health flags and in-flight counts *)
Theorem C11_strategy :
  forall s k, (snd (lb_set_strategy s k) = 1 -> fst (lb_set_strategy s k) = s)
              /\ lb_list (fst (lb_set_strategy s k)) = lb_list s.
Proof. intros. split; [apply lb_set_strategy_fail_unchanged|apply lb_set_strategy_list]. Qed.
Print Assumptions C11_strategy.

(* requests in flight across any admin operation complete and stay accounted for: the conservation law
   holds over every history, admin operations included (C13_conservation), and an End step depends only
   on the request's own (backend object, name) pair recorded at dispatch *)
Theorem C11_inflight_survives :
  forall cfg s o, conserved s -> conserved (fst (lb_step cfg s o)).
Proof. exact lb_step_conserved. Qed.
Print Assumptions C11_inflight_survives.

(* ---- admin operations against each other (step-level model Model/Conc.v, replayed on the real code by the sched suite) ---- *)
From Helios Require Import Model.Conc Proofs.ConcProofs.
(* each admin operation is one critical section of the balancer lock; in every reachable state of every schedule of any set of
   operations on distinct names, a completed add is listed and a completed remove is absent, whatever strategy switches run *)
Theorem C11_completed_admin_ops_hold_under_concurrency :
  forall ops sched, names_ok ops ->
    let ths := map (fun o => admin_thr (fst o) (snd o)) ops in
    let ts0 := map (fun _ : Z * Z => mkTS (-1) (Some 0)) ops in
    AInv ops (fst (fst (run_sched ths [1; 2] ts0 sched []))) (snd (fst (run_sched ths [1; 2] ts0 sched []))).
Proof. exact s3_completed_ops_hold. Qed.
Print Assumptions C11_completed_admin_ops_hold_under_concurrency.
