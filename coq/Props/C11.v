(* C11 — Runtime reconfiguration is atomic and consistent under traffic.  Statements only.
   Every admin operation of the model is one atomic step (the balancer's RWMutex is held for the whole
   operation); requests are the separate steps Begin / End, so any interleaving of admin operations
   with requests in flight is a history of lb_run. *)
From Helios Require Import Base.Prelude Model.Strategy Model.LB Proofs.LBProofs.

(* once add returns successfully the backend is listed (last), healthy and idle, with weight max(1,w) *)
Theorem C11_add_listed :
  forall s name w, has_name name (pool s) = false ->
    snd (lb_add s name w true) = 0 /\
    lb_list (fst (lb_add s name w true)) = lb_list s ++ [name; 1; 0; (if w <? 1 then 1 else w)].
Proof. exact lb_add_listed. Qed.
Print Assumptions C11_add_listed.

(* add fails exactly for an unparsable address or a name that is already registered, and then changes nothing *)
Theorem C11_add_fail :
  forall s name w ok,
    (snd (lb_add s name w ok) = 1 <-> (ok = false \/ has_name name (pool s) = true))
    /\ (snd (lb_add s name w ok) = 1 -> fst (lb_add s name w ok) = s).
Proof. intros. split; [apply lb_add_fails_iff|apply lb_add_fail_unchanged]. Qed.
Print Assumptions C11_add_fail.

(* an unknown strategy changes nothing; a known one keeps exactly the same backends in the same order
   with their weights, health flags and in-flight counts *)
Theorem C11_strategy :
  forall s k, (snd (lb_set_strategy s k) = 1 -> fst (lb_set_strategy s k) = s)
              /\ lb_list (fst (lb_set_strategy s k)) = lb_list s.
Proof. intros. split; [apply lb_set_strategy_fail_unchanged|apply lb_set_strategy_list]. Qed.
Print Assumptions C11_strategy.

(* requests in flight across any admin operation complete and stay accounted for: the conservation law
   holds over every history, admin operations included (C13_conservation), and an End step depends only
   on the request's own (backend object, name) pair recorded at dispatch *)
Theorem C11_inflight_survives :
  forall cfg s o, conserved s -> conserved (fst (lb_step cfg s o)).
Proof. exact lb_step_conserved. Qed.
Print Assumptions C11_inflight_survives.

(* ---- admin operations against each other (step-level model Model/Conc.v, replayed on the real code by the sched suite) ---- *)
From Helios Require Import Model.Conc Proofs.ConcProofs.
(* each admin operation is one critical section of the balancer lock; in every reachable state of every schedule of any set of
   operations on distinct names, a completed add is listed and a completed remove is absent, whatever strategy switches run *)
Theorem C11_completed_admin_ops_hold_under_concurrency :
  forall ops sched, names_ok ops ->
    let ths := map (fun o => admin_thr (fst o) (snd o)) ops in
    let ts0 := map (fun _ : Z * Z => mkTS (-1) (Some 0)) ops in
    AInv ops (fst (fst (run_sched ths [1; 2] ts0 sched []))) (snd (fst (run_sched ths [1; 2] ts0 sched []))).
Proof. exact s3_completed_ops_hold. Qed.
Print Assumptions C11_completed_admin_ops_hold_under_concurrency.

From Helios Require Import Proofs.ListingProofs.

(* A listing that overlaps removals (ListBackends copies the pool under the balancer's lock, then visits every backend of its
   copy; RemoveBackend swaps the last backend into the freed slot): under EVERY schedule, with any number of concurrent listings
   and removals, a finished listing names no backend twice, only backends of the pool, and every backend nobody removes.
   (Step-level model Model/Conc.v scenario 5, tied to the real code by schedule replay.) *)
Theorem C11_listing_consistent :
  forall n kinds sched, (forall k, In k kinds -> k = 30 \/ 41 <= k) ->
    let init := map Z.of_nat (seq 1 (Z.to_nat n)) in
    let ths := map s5_thread kinds in
    let ts0 := map (fun _ : Z => mkTS (([] : list Z), ([] : list Z)) (Some 0)) kinds in
    let ts := snd (fst (run_sched ths init ts0 sched [])) in
    forall i st, nth_error kinds i = Some 30 -> nth_error ts i = Some st -> ts_pc st = None ->
      let listing := snd (ts_local st) in
      NoDup listing /\ (forall x, In x listing -> 1 <= x <= n) /\ (forall x, 1 <= x <= n -> memZ (40 + x) kinds = false -> In x listing).
Proof. intros n kinds sched Hk. exact (s5_all_schedules n kinds Hk sched). Qed.
Print Assumptions C11_listing_consistent.

(* Atomicity between admin operations on one name: any number of concurrent AddBackend calls with ONE name, under EVERY
   schedule: the name is never listed twice, and once every call has returned exactly one was answered "added" and all the
   others were refused (a refused add changed nothing).  (Step-level model Model/Conc.v scenario 6: an add is one critical
   section; tied to the real code by schedule replay, where a duplicate check outside the write lock shows as a second
   yield and as two calls answered "added".) *)
Theorem C11_same_name_adds :
  forall n sched,
    let ths := repeat add_same n in
    let ts0 := repeat (mkTS 0 (Some 0)) n in
    let s := fst (fst (run_sched ths [1; 2] ts0 sched [])) in
    let ts := snd (fst (run_sched ths [1; 2] ts0 sched [])) in
    count_id DUP_NAME s <= 1 /\ count_id DUP_NAME s = cnt1 ts
    /\ ((1 <= n)%nat -> all_done ts = true -> length ts = n ->
        count_id DUP_NAME s = 1 /\ Forall (fun st => ts_local st = 1 \/ ts_local st = 2) ts).
Proof. exact s6_all_schedules. Qed.
Print Assumptions C11_same_name_adds.

Example C11_same_name_nonvacuous : fst (s6_run 3 [1; 0; 2; 1; 0; 2]) = [1; 2; 1; 2] /\ s6_ok (fst (s6_run 3 [1; 0; 2; 1; 0; 2])) = true.
Proof. vm_compute. split; reflexivity. Qed.

(* Requests arriving during a change are served: any number of requests choosing their backend (findHealthyBackend, round robin)
   while AddBackend / RemoveBackend calls change the pool under them, under EVERY schedule: a selection that has returned holds a
   backend of the deployment, never none.  (Step-level model Model/Conc.v scenario 7; tied to the real code by schedule replay,
   where a selection that keeps the balancer's lock across its sections - and so blocks, or deadlocks with, a waiting writer -
   never returns.) *)
Theorem C11_selection_during_changes :
  forall kinds sched,
    let ths := map s7_thread kinds in
    let ts0 := map (fun _ : Z => mkTS (([] : list Z), 0) (Some 0)) kinds in
    let ts := snd (fst (run_sched ths (mkS7 [1; 2; 3] 0) ts0 sched [])) in
    forall i st, nth_error kinds i = Some 50 -> nth_error ts i = Some st -> ts_pc st = None ->
      In (snd (ts_local st)) [1; 2; 3; 7].
Proof. exact s7_all_schedules. Qed.
Print Assumptions C11_selection_during_changes.

Example C11_selection_nonvacuous : fst (s7_run [50; 52; 51] [0; 1; 0; 0; 2; 0; 0; 0; 0]) = [0; 1; 1; 1; 2].
Proof. vm_compute. reflexivity. Qed.

Example C11_listing_nonvacuous :
  fst (s5_run 3 [30; 42] [0; 0; 1; 0; 0]) = [1; 2; 3; -1; 1; 3].
Proof. vm_compute. reflexivity. Qed.
