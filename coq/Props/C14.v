(* C14 — size_limit plugin: bodies are bounded, everything within bounds is untouched.  Statements only. *)
From Helios Require Import Base.Prelude Model.RespWriter Proofs.WriterProofs Proofs.GzipProofs Proofs.SizeLimitProofs.
From Helios Require Import Gen.SizeLimitGen Proofs.SizeLimitRefine.

(* the client never receives more than max_response_body body bytes, for EVERY sequence of
   Header().Set/Del, WriteHeader, Write (any partition of the body) and Flush calls of the handler *)
Theorem C14_response_bound :
  forall limit cs, 0 <= limit -> body_total (b_body (base_run base0 (sl_transform limit cs))) <= limit.
Proof. exact sl_response_bound. Qed.
Print Assumptions C14_response_bound.

(* the wrapper/underlying-writer coupling used above holds in every reachable state *)
Theorem C14_reachable_inv :
  forall limit cs, 0 <= limit ->
    SLInv (fst (sl_run (slw0 limit) cs)) (base_run base0 (snd (sl_run (slw0 limit) cs))).
Proof. intros limit cs H. apply sl_run_inv. apply sl_init_inv. exact H. Qed.
Print Assumptions C14_reachable_inv.

(* 413 if the excess is detected before anything was sent; afterwards nothing is forwarded *)
Theorem C14_413 :
  forall w p, sl_wrote w = false -> sl_reached w = false -> sl_limit w < sl_written w + payload_len p ->
    snd (sl_step w (CWrite p)) = [CDel H_CL; CHead 413; CFlush] /\ sl_reached (fst (sl_step w (CWrite p))) = true.
Proof. exact sl_413. Qed.
Print Assumptions C14_413.

(* request side: rejected (413, next handler never invoked) exactly for a declared length above the limit;
   otherwise the next handler (and so the backend) can read at most max_request_body bytes, and the whole
   body when it is within the limit (a body of exactly the limit passes) *)
Theorem C14_request :
  forall maxreq declared actual, 0 <= actual -> 0 <= maxreq ->
    match sl_request maxreq declared actual with
    | None => exists n, declared = Some n /\ maxreq < n
    | Some k => k <= maxreq /\ k <= actual /\ (actual <= maxreq -> k = actual)
    end.
Proof. exact sl_request_spec. Qed.
Print Assumptions C14_request.

(* Exchanges within the limit pass through unchanged - interim responses, status, headers, body - bodiless responses included:
   for every limit and every well-formed handler script (headers, interim responses, at most one final WriteHeader with a valid
   code, then writes and flushes in any partition) whose body stays within the limit, the client of the wrapper sees exactly what
   the client of the bare handler sees *)
Theorem C14_transparent :
  forall limit cs, 0 <= limit -> wf_script cs = true -> valid_codes cs = true -> written_total cs <= limit ->
    view (base_run base0 (sl_transform limit cs)) = view (base_run base0 cs).
Proof. exact sl_transparent. Qed.
Print Assumptions C14_transparent.

(* The wrapper machine the theorems above speak of is the source: Gen/SizeLimitGen.v is regenerated from sizelimit.go on every
   run (limitedResponseWriter's Write, checkLimit, ensureHeaderWritten, WriteHeader, Flush, as functions that append the calls
   they make on the underlying writer to a log), and for every script of handler calls with byte-slice writes the regenerated
   methods, followed by the closure's late header, make exactly the calls of sl_transform *)
Theorem C14_model_is_source :
  forall limit cs, forallb byte_call cs = true ->
    slg_after (fold_left slg_step cs (mklimitedResponseWriter 0 limit false false 0 [])) = sl_transform limit cs.
Proof. exact transform_is_source. Qed.
Print Assumptions C14_model_is_source.

(* ... a Write is refused (returns an error) exactly when the limit was reached before or this write would cross it *)
Theorem C14_refusal_is_source :
  forall w o now n, 0 <= n ->
    let r := slg_Write (under_accept w) (abs_sl w o) now n in
    fst r = abs_sl (fst (sl_step w (CWrite (PRaw n)))) (o ++ snd (sl_step w (CWrite (PRaw n))))
    /\ (snd r <> 0 <-> (sl_reached w = true \/ sl_limit w < sl_written w + n)).
Proof. exact write_refines. Qed.
Print Assumptions C14_refusal_is_source.

(* ... and the wrapper type offers no way around Write: of the optional interfaces net/http, httputil.ReverseProxy and
   http.ResponseController look for, it implements Flush and Hijack only (no ReadFrom, Unwrap, FlushError) *)
Theorem C14_no_bypass : slg_optional_interfaces = [1; 2].
Proof. exact interfaces_as_modelled. Qed.

Example C14_nonvacuous :
  sl_transform 5 [CHead 204] = [CHead 204] /\
  sl_transform 5 [CHead 201; CWrite (PRaw 3); CWrite (PRaw 2); CWrite (PRaw 1)] = [CHead 201; CWrite (PRaw 3); CWrite (PRaw 2)] /\
  sl_transform 5 [CWrite (PRaw 6)] = [CDel H_CL; CHead 413; CFlush].
Proof. vm_compute. repeat split; reflexivity. Qed.

(* the hypotheses of C14_transparent are satisfiable by scripts that exercise the deferred status: a bodiless 204, a 201 with a
   body of exactly the limit in three writes *)
Example C14_transparent_nonvacuous :
  (wf_script [CSet 10 7; CHead 103; CHead 204] && valid_codes [CSet 10 7; CHead 103; CHead 204]) = true /\
  (wf_script [CHead 201; CWrite (PRaw 3); CFlush; CWrite (PRaw 1); CWrite (PRaw 1)] = true /\ written_total [CHead 201; CWrite (PRaw 3); CFlush; CWrite (PRaw 1); CWrite (PRaw 1)] = 5) /\
  v_status (view (base_run base0 (sl_transform 5 [CSet 10 7; CHead 103; CHead 204]))) = 204.
Proof. vm_compute. repeat split; reflexivity. Qed.
