(* C03 — Fault containment (partial): the part that is logic.  Every fault of the property's alphabet
   reaches the balancer as one of the outcome classes of the model (OStatus incl. the 502 of the default
   error handler, OAbort), and lb_step is a total function: no step can get stuck, every Begin is
   eventually matched by an End that releases its accounting.  Runtime behaviour (timeouts enforced by
   net/http, goroutine leaks, panic recovery by the server) is exercised by the harness, not proved. *)
From Helios Require Import Base.Prelude Model.Strategy Model.LB Proofs.LBProofs.

(* after ANY history (any fault sequence, any overlap) the books balance; in particular once the faulted
   requests have ended nothing is left "in flight" by the accounting *)
Theorem C03_no_leak :
  forall cfg k t0 ops, let s := fst (lb_run cfg (lb_init cfg k t0) ops) in
    total s = succ s + failed s + rlim s + zlen (infl s).
Proof. intros. apply lb_run_conserved. apply lb_init_conserved. Qed.
Print Assumptions C03_no_leak.

(* ending a request always removes it from the in-flight set, whatever the outcome *)
Theorem C03_end_releases :
  forall rid l v, lookup rid l = Some v -> zlen (remove_infl rid l) = zlen l - 1.
Proof. exact remove_infl_len. Qed.
Print Assumptions C03_end_releases.
