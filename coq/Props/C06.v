(* C06 — Client affinity (ip_hash) and minimal remapping (ip_hash_consistent).
   Statements only; proofs in Proofs/HashProofs.v and Proofs/StrategyProofs.v.
   jump_hash iterates jh_cond/jh_body/jh_ret, which go2coq regenerates from the current source. *)
From Helios Require Import Model.Conc Proofs.PickFlipProofs Base.Prelude Base.Wrap Model.Hash Model.Strategy Proofs.HashProofs Proofs.StrategyProofs.

(* the jump-hash loop terminates and lands in range, for every 64-bit key and every pool size *)
Theorem C06_jump_range :
  forall key n, 0 <= key < 18446744073709551616 -> 1 <= n < 2147483648 ->
    exists r, jump_hash key n = Some r /\ 0 <= r < n.
Proof. exact jump_hash_range. Qed.
Print Assumptions C06_jump_range.

(* minimal remapping at the level of bucket indices *)
Theorem C06_minimal_remap :
  forall key n, 0 <= key < 18446744073709551616 -> 1 <= n -> n + 1 < 2147483648 ->
    jump_hash key (n + 1) = jump_hash key n \/ jump_hash key (n + 1) = Some n.
Proof. exact jump_hash_remap. Qed.
Print Assumptions C06_minimal_remap.

(* lifted to the strategy: appending a healthy backend moves a client only to the new backend *)
Theorem C06_append :
  forall pool nb r, bflag nb = true -> zlen (healthy pool) + 1 < 2147483648 -> healthy pool <> [] ->
    iphc_pick (pool ++ [nb]) r = iphc_pick pool r \/ iphc_pick (pool ++ [nb]) r = Some nb.
Proof. exact iphc_append. Qed.
Print Assumptions C06_append.

(* affinity: the choice is a function of the attributed client string and the flag-healthy sublist *)
Theorem C06_affinity :
  forall p1 p2 r1 r2, healthy p1 = healthy p2 -> hash_client r1 = hash_client r2 ->
    iph_pick p1 r1 = iph_pick p2 r2 /\ iphc_pick p1 r1 = iphc_pick p2 r2.
Proof. exact hash_affinity. Qed.
Print Assumptions C06_affinity.

(* validity: for every byte string and every non-empty eligible list the choice is an eligible backend *)
Theorem C06_valid :
  forall pool r, healthy pool <> [] -> zlen (healthy pool) < 2147483648 ->
    (exists b, iph_pick pool r = Some b /\ In b (healthy pool))
    /\ (exists b, iphc_pick pool r = Some b /\ In b (healthy pool)).
Proof. exact hash_valid. Qed.
Print Assumptions C06_valid.

Example C06_nonvacuous :
  jump_hash 975451704 3 = Some 2 /\ jump_hash 12345678901234567 1000 = Some 366
  /\ fnv32a [49; 48; 46; 48; 46; 48; 46; 49] = 3737042573.
Proof. vm_compute. repeat split; reflexivity. Qed.

(* "... the choice is a valid eligible backend, regardless of concurrent traffic": one pick of any strategy (the critical
   sections of LoadBalancer.NextBackend: every flag is read once under that backend's lock) against any number of concurrent
   ejections and lazy re-admissions, under EVERY schedule: a finished pick is nil only if no backend stayed healthy throughout
   the call, and it is never a backend that stayed ejected throughout the call.  (Step-level model Model/Conc.v scenario 4,
   tied to the real code by schedule replay.) *)
Theorem C06_valid_under_concurrent_flips :
  forall kind client init kinds sched,
    zlen init < 2147483648 -> (forall v, In v init -> v = 0 \/ v = 1) ->
    (forall k, In k kinds -> k = 0 \/ (11 <= k < 20) \/ 21 <= k) ->
    let ths := map (s4_thread kind (zlen init) client) kinds in
    let ts0 := map (fun _ : Z => mkTS (([] : list bool), -1) (Some 0)) kinds in
    let s0 := map (fun i => (Z.eqb i 1, false)) init in
    let ts := snd (fst (run_sched ths s0 ts0 sched [])) in
    forall i st, nth_error kinds i = Some 0 -> nth_error ts i = Some st -> ts_pc st = None ->
      res_ok init kinds (snd (ts_local st)) = true.
Proof. exact s4_all_schedules. Qed.
Print Assumptions C06_valid_under_concurrent_flips.

(* non-vacuity: ip_hash over three backends, the first one ejected while the pick is between its second and third read:
   the pick finishes and is one of the backends that stayed healthy *)
Example C06_flip_nonvacuous :
  fst (s4_run 3 [1; 1; 1] [49; 48; 46; 48; 46; 48; 46; 50] [0; 11] [0; 0; 0; 1; 0]) = [0; 1; 1; 3; 0].
Proof. vm_compute. reflexivity. Qed.
