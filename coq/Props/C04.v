(* C04 — Health state machine: ejection threshold, unhealthy window, recovery.  Statements only. *)
From Helios Require Import Base.Prelude Model.Strategy Model.LB Proofs.LBProofs.

(* the passive counter of a name reaches the threshold exactly when it is reset (and the backend
   ejected); below the threshold it only grows; successes never touch it: so an ejection needs
   unhealthy_threshold failed responses since the previous one, and that many in a row always eject *)
Theorem C04_passive_counter :
  forall cfg s id name,
    let n := match lookup name (pass s) with Some n => n | None => 0 end in
    lookup name (pass (passive_fail cfg s id name)) = Some (if c_pthr cfg <=? n + 1 then 0 else n + 1).
Proof. exact passive_counter. Qed.
Print Assumptions C04_passive_counter.

(* ejection opens the window [now, now + unhealthy_timeout] *)
Theorem C04_window :
  forall cfg s id name b, find_id id (pool s) = Some b -> 0 <= c_ptimeout cfg ->
    exists b', find_id id (pool (mark_unhealthy cfg s id name)) = Some b'
               /\ bflag b' = false /\ buntil b' = now s + c_ptimeout cfg
               /\ forall t, now s <= t <= now s + c_ptimeout cfg -> in_window b' t = true.
Proof. exact mark_opens_window. Qed.
Print Assumptions C04_window.

(* no traffic inside the window, eligible again as soon as it has elapsed: the gate is exactly the window *)
Theorem C04_gate_is_window : forall s b, fst (is_healthy s b) = negb (in_window b (now s)).
Proof. exact is_healthy_iff. Qed.
Print Assumptions C04_gate_is_window.

(* a successful probe never ejects *)
Theorem C04_probe_ok :
  forall cfg s id x b, find_id x (pool s) = Some b -> bflag b = true ->
    exists b', find_id x (pool (lb_probe cfg s id true)) = Some b' /\ bflag b' = true.
Proof. intros. eapply probe_ok_no_eject; eauto. Qed.
Print Assumptions C04_probe_ok.

(* ---- active checks (Model/Shutdown.v, tied by the probe suite) ---- *)
From Helios Require Import Model.Shutdown Proofs.ShutdownProofs.

(* a failed active probe ejects the backend for the configured window, starting at the probe *)
Theorem C04_failed_probe_ejects :
  forall cfg now b, Shutdown.in_window b now = false -> pb_script b = 1 \/ pb_script b = 2 ->
    let b' := fst (probe_one cfg now b) in
    pb_flag b' = false /\ pb_until b' = now + pc_window cfg /\ Shutdown.in_window b' now = (0 <=? pc_window cfg).
Proof. exact probe_failure_ejects. Qed.
Print Assumptions C04_failed_probe_ejects.

(* a successful active probe never ejects *)
Theorem C04_successful_probe_never_ejects :
  forall cfg now b, Shutdown.in_window b now = false -> pb_script b = 0 -> pb_flag (fst (probe_one cfg now b)) = true.
Proof. exact probe_success_never_ejects. Qed.
Print Assumptions C04_successful_probe_never_ejects.

(* while ejected a backend is neither probed nor touched; it is eligible for traffic exactly outside the window *)
Theorem C04_ejected_not_probed :
  forall cfg now b, Shutdown.in_window b now = true -> probe_one cfg now b = (b, []) /\ probed now b = false.
Proof. exact probe_skips_ejected. Qed.
Print Assumptions C04_ejected_not_probed.

Theorem C04_eligible_iff_outside_window : forall now b, pb_flag (refresh now b) = negb (Shutdown.in_window b now).
Proof. exact refresh_flag. Qed.
Print Assumptions C04_eligible_iff_outside_window.

(* ---- the expiry check racing a fresh ejection (step-level model Model/Conc.v, replayed on the real code by the sched suite) ---- *)
From Helios Require Import Model.Conc Proofs.ConcProofs.
(* for EVERY schedule of ANY number of lazy-expiry checks and ejections, the backend is never marked healthy while inside a
   fresh unhealthy window *)
Theorem C04_expiry_never_overrides_a_fresh_ejection : forall kinds sched, s1_ok (fst (s1_run kinds sched)) = true.
Proof. exact s1_all_schedules. Qed.
Print Assumptions C04_expiry_never_overrides_a_fresh_ejection.

From Helios Require Import Gen.HealthGen Proofs.HealthRefine.

(* The gate IS the source: IsBackendHealthy / MarkBackendUnhealthy of loadbalancer.go as go2coq regenerates them on every run
   (Gen/HealthGen.v) answer and update what the model's is_healthy / mark_unhealthy answer and update. *)
Theorem C04_gate_is_source :
  forall s b, lb_IsBackendHealthy mkLoadBalancer (abs_be b) (now s)
              = (abs_be (if negb (bflag b) && (buntil b <? now s) then set_flag true b else b), fst (is_healthy s b)).
Proof. exact is_healthy_refines. Qed.
Print Assumptions C04_gate_is_source.

Theorem C04_ejection_is_source :
  forall b now d, fst (lb_MarkBackendUnhealthy mkLoadBalancer (abs_be b) now d) = abs_be (set_until (now + d) (set_flag false b)).
Proof. exact mark_refines. Qed.
Print Assumptions C04_ejection_is_source.
