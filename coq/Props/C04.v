(* C04 — Health state machine: ejection threshold, unhealthy window, recovery.  Statements only. *)
From Helios Require Import Base.Prelude Model.Strategy Model.LB Proofs.LBProofs.

(* the passive counter of a name reaches the threshold exactly when it is reset (and the backend
   ejected); below the threshold it only grows; successes never touch it: so an ejection needs
   unhealthy_threshold failed responses since the previous one, and that many in a row always eject *)
Theorem C04_passive_counter :
  forall cfg s id name,
    let n := match lookup name (pass s) with Some n => n | None => 0 end in
    lookup name (pass (passive_fail cfg s id name)) = Some (if c_pthr cfg <=? n + 1 then 0 else n + 1).
Proof. exact passive_counter. Qed.
Print Assumptions C04_passive_counter.

(* ejection opens the window [now, now + unhealthy_timeout] *)
Theorem C04_window :
  forall cfg s id name b, find_id id (pool s) = Some b -> 0 <= c_ptimeout cfg ->
    exists b', find_id id (pool (mark_unhealthy cfg s id name)) = Some b'
               /\ bflag b' = false /\ buntil b' = now s + c_ptimeout cfg
               /\ forall t, now s <= t <= now s + c_ptimeout cfg -> in_window b' t = true.
Proof. exact mark_opens_window. Qed.
Print Assumptions C04_window.

(* no traffic inside the window, eligible again as soon as it has elapsed: the gate is exactly the window *)
Theorem C04_gate_is_window : forall s b, fst (is_healthy s b) = negb (in_window b (now s)).
Proof. exact is_healthy_iff. Qed.
Print Assumptions C04_gate_is_window.

(* a successful probe never ejects *)
Theorem C04_probe_ok :
  forall cfg s id x b, find_id x (pool s) = Some b -> bflag b = true ->
    exists b', find_id x (pool (lb_probe cfg s id true)) = Some b' /\ bflag b' = true.
Proof. intros. eapply probe_ok_no_eject; eauto. Qed.
Print Assumptions C04_probe_ok.
