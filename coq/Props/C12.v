(* C12 — Concurrency safety: no data races, panics or deadlocks.  Statements only.
   PARTIAL.  [sites] and [lock_edges] are REGENERATED from the source by go2coq/access on every run (go/types resolves every lock
   and field; the lockset computation is a syntactic approximation, see DESIGN.md).  The Go memory model is assumed, not
   formalised; panics and deadlocks other than lock cycles are looked for by the race suite under the race detector. *)
From Coq Require Import ZArith String List Bool.
From Helios Require Import Gen.Access Model.Lockset Proofs.LocksetProofs.
Import ListNotations.

(* generic: lock discipline implies race freedom, for any set of programs, any number of threads, any schedule *)
Theorem C12_lockset_sound :
  forall all ts0, Disciplined all -> Excl ts0 -> Covered all ts0 -> forall ts, reach_from ts0 ts -> ~ race_state ts.
Proof. exact lockset_sound. Qed.
Print Assumptions C12_lockset_sound.

(* the current source: every pair of conflicting access sites shares a lock that one of them holds in write mode *)
Theorem C12_helios_disciplined : disciplined sites = true.
Proof. vm_compute. reflexivity. Qed.
Print Assumptions C12_helios_disciplined.

(* hence: any number of threads, each executing any access site of the table under the locks recorded for it, in any
   interleaving, never reaches a state in which two of them are about to perform conflicting accesses *)
Theorem C12_no_data_race :
  forall instances, incl instances sites ->
  forall ts, reach_from (initial (map row_prog instances)) ts -> ~ race_state ts.
Proof. exact (table_race_free sites C12_helios_disciplined). Qed.
Print Assumptions C12_no_data_race.

(* no lock cycle: the "acquired while holding" relation of the current source (through calls, interface methods and
   stored callbacks) has no loop - in particular no mutex is re-acquired while held, not even for reading *)
Theorem C12_lock_order_acyclic : ranked lock_edges = true.
Proof. vm_compute. reflexivity. Qed.
Print Assumptions C12_lock_order_acyclic.

Example C12_nonvacuous :
  (* the table is not empty, and the checker rejects the pre-repair forms *)
  (10 <=? Z.of_nat (List.length sites))%Z = true
  /\ disciplined (("Backend.IsHealthy", "WeightedRoundRobinStrategy.NextBackend", 0%Z, [("WeightedRoundRobinStrategy.mutex", 1%Z)]) :: sites) = false
  /\ ranked (("LoadBalancer.mutex/0", "LoadBalancer.mutex/0") :: lock_edges) = false.
Proof. vm_compute. repeat split; reflexivity. Qed.
