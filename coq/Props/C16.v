(* C16 — Request-ID / trace-ID propagation is consistent end to end.  Statements only. *)
From Helios Require Import Base.Prelude Base.Bytes Model.Proxy Proofs.ProxyProofs.

(* The value Helios puts on the request is the client's own (white space trimmed) when it supplied a non-blank one, and a
   generated one otherwise. *)
Theorem C16_supplied_or_fresh :
  forall supplied gen,
    (id_value supplied gen = gen /\ (supplied = None \/ exists v, supplied = Some v /\ trim_space v = []))
    \/ (exists v, supplied = Some v /\ trim_space v <> [] /\ id_value supplied gen = trim_space v).
Proof. exact id_value_cases. Qed.
Print Assumptions C16_supplied_or_fresh.

(* Every response path (proxied, plugin 401 / 413, limiter 429, no-backend 503) carries the request-ID header with one value v,
   for every configuration, chain (the tutorial request-id plugin included, wherever it is listed), phase of the balancer and
   request; the hypotheses name the header as one no configured `headers` plugin overwrites. *)
Theorem C16_present_on_every_path :
  forall c phase q, c_rid c = true -> c_rid_hdr c <> c_tr_hdr c ->
    ~ In (c_rid_hdr c) (hdr_reqset_keys (c_chain c)) -> ~ In (c_rid_hdr c) (hdr_set_keys (c_chain c)) ->
    hvalues (c_rid_hdr c) (outcome_pre (forward c phase q)) = [id_value (hget (c_rid_hdr c) (parsed q)) GEN_REQ].
Proof.
  intros c phase q Hon Hne H1 H2. destruct (id_mw_rid c (parsed q) Hon Hne) as [A B].
  apply (forward_id c phase q _ _ A B); [apply id_value_nonempty; discriminate|exact H1|exact H2].
Qed.
Print Assumptions C16_present_on_every_path.

Theorem C16_trace_present_on_every_path :
  forall c phase q, c_tr c = true -> c_rid_hdr c <> c_tr_hdr c ->
    ~ In (c_tr_hdr c) (hdr_reqset_keys (c_chain c)) -> ~ In (c_tr_hdr c) (hdr_set_keys (c_chain c)) ->
    hvalues (c_tr_hdr c) (outcome_pre (forward c phase q)) = [id_value (hget (c_tr_hdr c) (parsed q)) GEN_TRACE].
Proof.
  intros c phase q Hon Hne H1 H2. destruct (id_mw_tr c (parsed q) Hon Hne) as [A B].
  apply (forward_id c phase q _ _ A B); [apply id_value_nonempty; discriminate|exact H1|exact H2].
Qed.
Print Assumptions C16_trace_present_on_every_path.

(* ... and it stays on the final response whatever the backend sends, interim (1xx) responses included, in front of any value
   the backend supplies itself *)
Theorem C16_survives_the_response :
  forall c pre d k v, (c_rid c = true /\ k = c_rid_hdr c) \/ (c_tr c = true /\ k = c_tr_hdr c) ->
    hvalues k pre = [v] -> exists rest, hvalues k (response_headers c pre d) = v :: rest.
Proof. exact response_has_id. Qed.
Print Assumptions C16_survives_the_response.

(* The value the backend sees equals the value the client gets: both are the single value v above.  The header must not be
   declared hop-by-hop by the client (a header listed in Connection is, correctly, not forwarded at all). *)
Theorem C16_backend_sees_what_client_gets :
  forall c q b pre, forward c 0 q = Forwarded b pre -> c_rid c = true -> c_rid_hdr c <> c_tr_hdr c ->
    ~ In (c_rid_hdr c) (hdr_reqset_keys (c_chain c)) -> ~ In (c_rid_hdr c) (hdr_set_keys (c_chain c)) ->
    ~ In s_connection (chain_reqset_keys (c_chain c)) -> s_connection <> c_tr_hdr c ->
    ~ In (c_rid_hdr c) (conn_listed_vals (map trim_ows (hvalues s_connection (q_hdrs q))) ++ hop_headers) -> c_rid_hdr c <> s_xff ->
    hvalues (c_rid_hdr c) (bv_hdrs b) = hvalues (c_rid_hdr c) pre
    /\ hvalues (c_rid_hdr c) pre = [id_value (hget (c_rid_hdr c) (parsed q)) GEN_REQ].
Proof.
  intros c q b pre Hf Hon Hne H1 H2 Hc Ht Hn Hx.
  assert (Hr : s_connection <> c_rid_hdr c).
  { intros E. apply Hn. apply in_or_app. right. rewrite <- E. unfold hop_headers. cbn. tauto. }
  destruct (id_mw_rid c (parsed q) Hon Hne) as [A B].
  assert (Hg : GEN_REQ <> []) by discriminate.
  destruct (forward_id c 0 q _ _ A B (id_value_nonempty _ _ Hg) H1 H2) as [P Q].
  rewrite Hf in P. cbn [outcome_pre] in P. rewrite P. split; [|reflexivity].
  apply (Q b pre Hf Hc Hr Ht Hn Hx).
Qed.
Print Assumptions C16_backend_sees_what_client_gets.

(* A disabled feature neither generates nor alters its header: the request keeps the client's values, nothing is pre-set on
   the response, and the response carries exactly the backend's values. *)
Theorem C16_disabled_untouched :
  forall c h, c_rid c = false -> c_rid_hdr c <> c_tr_hdr c ->
    hvalues (c_rid_hdr c) (fst (id_middleware c h)) = hvalues (c_rid_hdr c) h /\ hvalues (c_rid_hdr c) (snd (id_middleware c h)) = [].
Proof. exact id_mw_rid_off. Qed.
Print Assumptions C16_disabled_untouched.

Theorem C16_trace_disabled_untouched :
  forall c h, c_tr c = false -> c_rid_hdr c <> c_tr_hdr c ->
    hvalues (c_tr_hdr c) (fst (id_middleware c h)) = hvalues (c_tr_hdr c) h /\ hvalues (c_tr_hdr c) (snd (id_middleware c h)) = [].
Proof. exact id_mw_tr_off. Qed.
Print Assumptions C16_trace_disabled_untouched.

Theorem C16_disabled_response_is_backends :
  forall c pre d k, hvalues k pre = [] -> ~ In k (connection_listed (rv_hdrs d) ++ hop_headers) ->
    hvalues k (response_headers c pre d) = hvalues k (rv_hdrs d).
Proof. exact response_e2e. Qed.
Print Assumptions C16_disabled_response_is_backends.

(* Generated IDs are prefix ++ hex(random bytes): distinct random draws give distinct IDs (uniqueness reduces to the entropy
   source, crypto/rand; the harness checks every generated ID of a run for duplicates) *)
Theorem C16_generator_injective :
  forall prefix a b, byte_list a -> byte_list b -> gen_id prefix a = gen_id prefix b -> a = b.
Proof. exact gen_id_inj. Qed.
Print Assumptions C16_generator_injective.

Example C16_nonvacuous :
  let c := mkWCfg true [88;45;82] true [88;45;84] [WLogging; WAuth [107]] [] [49] in
  let q := mkWReq [71;69;84] [47] [] [104] [([88;45;82], [32;97;98;99;194;160]); (s_api_key, [107])] 0 0 in
  match forward c 0 q with
  | Forwarded b pre => hvalues [88;45;82] (bv_hdrs b) = [[97;98;99]] /\ hvalues [88;45;82] pre = [[97;98;99]] /\ hvalues [88;45;84] pre = [GEN_TRACE]
  | _ => False
  end.
Proof. vm_compute. repeat split; reflexivity. Qed.

(* the same with the tutorial request-id plugin in the chain and X-Request-Id as the configured header: the plugin keeps the ID
   the middleware chose, so the backend and the client still see one and the same value *)
Example C16_nonvacuous_with_plugin :
  let c := mkWCfg true s_xrid false [88;45;84] [WLogging; WReqId; WAuth [107]] [] [49] in
  let q := mkWReq [71;69;84] [47] [] [104] [(s_xrid, [32;97;98;99]); (s_api_key, [107])] 0 0 in
  let q' := mkWReq [71;69;84] [47] [] [104] [(s_api_key, [107])] 0 0 in
  match forward c 0 q, forward c 0 q' with
  | Forwarded b pre, Forwarded b' pre' =>
      hvalues s_xrid (bv_hdrs b) = [[97;98;99]] /\ hvalues s_xrid pre = [[97;98;99]]
      /\ hvalues s_xrid (bv_hdrs b') = [GEN_REQ] /\ hvalues s_xrid pre' = [GEN_REQ]
  | _, _ => False
  end.
Proof. vm_compute. repeat split; reflexivity. Qed.
