import sys,os,json,glob,collections
suite=sys.argv[1]; col=sys.argv[2]; excl=sys.argv[3:]  # excl: cols that must be 0
sys.path.insert(0,'/verif/lib'); from props import SUITES
cols=SUITES[suite]['cols']
d=sorted(glob.glob('/verif/.work/out/%s-*/results.json'%suite),key=os.path.getmtime)[-1]
r=json.load(open(d))
n=0
for c in r['cases']:
    v=dict(zip(cols,c['vec']))
    bad = v[col]!=-1 if col.startswith('diff') else v[col]==0
    if bad and all(v[e]==0 for e in excl):
        n+=1
        if n<=int(os.environ.get('N','1')):
            print(c['idx'],c['kind']); print(c['coq'][:int(os.environ.get('W','3000'))]); print({a:b for a,b in v.items() if not a.startswith('nt')})
print('count',n)
