#!/bin/bash
# usage: seed_run.sh <seedname> <property ids...> : apply seeded/<name>/patch.diff to /repo, run checks, undo
name=$1; shift
cd /verif
git -C /repo diff --quiet || { echo "/repo dirty"; exit 2; }
git -C /repo apply /verif/seeded/$name/patch.diff || { echo "apply failed"; exit 2; }
for p in "$@"; do
  out=$(./check $p 2>/dev/null | grep -E "VIOLATION|KNOWN" | grep -v KNOWN | head -2)
  echo "$name $p => ${out:-PASS(no violation)}"
done
git -C /repo checkout -- .
