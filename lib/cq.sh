#!/bin/bash
# usage: cq.sh File.v  -- compile one file of /verif/coq and show the error with source context
cd /verif/coq
out=$(timeout 600 coqc -Q . Helios -w none "$1" 2>&1)
rc=$?
echo "$out" | grep -v "^Closed under" | tail -${2:-40}
if [ $rc -ne 0 ]; then
  ln=$(echo "$out" | grep -o 'line [0-9]*' | head -1 | cut -d' ' -f2)
  [ -n "$ln" ] && { echo "---- source around line $ln:"; sed -n "$((ln-3)),$((ln+2))p" "$1"; }
fi
exit $rc
