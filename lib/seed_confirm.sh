#!/bin/bash
# usage: seed_confirm.sh <worktree> <seeddir> <demo dest path relative to worktree> <name>
# Confirms: patch applies, builds, full existing suite passes with it, demo fails with it and
# passes without it.  On success copies the seed to /verif/seeded/<name>/.
export GOFLAGS=-mod=mod GOPROXY=off GOSUMDB=off GOTOOLCHAIN=local
wt=$1; sd=$2; dest=$3; name=$4
demo=$(ls $sd/*_test.go | head -1)
git -C $wt checkout -q -- . ; git -C $wt clean -fdq -e _seed
set -o pipefail
git -C $wt apply $sd/patch.diff || { echo "FAIL apply"; exit 1; }
(cd $wt && go build ./... ) || { echo "FAIL build"; git -C $wt checkout -q -- .; exit 1; }
(cd $wt && go test -count=1 ./... >/tmp/seed_suite.log 2>&1) || { echo "FAIL existing suite with change"; tail -5 /tmp/seed_suite.log; git -C $wt checkout -q -- .; exit 1; }
cp $demo $wt/$dest
pkg=./$(dirname $dest)/
(cd $wt && go test -count=1 -race -run "Demo|Seed" $pkg >/tmp/seed_demo_with.log 2>&1); rc_with=$?
git -C $wt checkout -q -- .
(cd $wt && go test -count=1 -race -run "Demo|Seed" $pkg >/tmp/seed_demo_without.log 2>&1); rc_without=$?
rm -f $wt/$dest
echo "$name: suite-with-change=pass demo-with-change rc=$rc_with demo-without rc=$rc_without"
if [ $rc_with -ne 0 ] && [ $rc_without -eq 0 ]; then
  mkdir -p /verif/seeded/$name
  cp $sd/patch.diff /verif/seeded/$name/patch.diff
  cp $demo /verif/seeded/$name/$(basename $dest)
  cp $sd/notes.md /verif/seeded/$name/notes.md
  echo "$dest" > /verif/seeded/$name/demo_dest.txt
  echo CONFIRMED
else
  echo NOT-CONFIRMED; tail -5 /tmp/seed_demo_with.log /tmp/seed_demo_without.log
fi
