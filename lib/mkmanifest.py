#!/usr/bin/env python3
"""Regenerate /verif/MANIFEST.json from lib/props.py (run after editing the tables)."""
import json, os, sys
HERE = os.path.dirname(os.path.abspath(__file__))
sys.path.insert(0, HERE)
from props import PROPS, NOT_APPLICABLE  # noqa

VERIF = os.path.dirname(HERE)
checks = []
for pid in sorted(PROPS):
    s = PROPS[pid]
    checks.append({
        "property_id": pid,
        "quick_cmd": "./check %s --tier quick" % pid,
        "thorough_cmd": "./check %s --tier thorough" % pid,
        "evidence_file": "/verif/evidence/%s.json" % pid,
        "replay_cmd_template": "./check %s --replay {path}" % pid,
        "engine": "coq-proof+correspondence",
        "level_claimed": {"category": "proof", "text": s["level_text"], "design_ref": s.get("design_ref", "DESIGN.md section 4, " + pid)},
        "level_note": s["level_note"],
        "technique": s.get("technique", "machine-checked proof in Coq 8.16 of an executable model, tied to the code by a correspondence run"),
    })
m = {
    "version": 1,
    "setup_cmd": "./check --setup",
    "hooks": {
        "guard": "verif",
        "enable": "go1.26 test -c -tags verif -overlay .work/overlay.json (export files under /verif/harness/_overlay are mapped into the repo packages at build time; nothing is written under /repo)",
        "baseline_off_cmd": "cd /repo && go test -vet=off -count=1 ./...",
        "source_commits": [],
        "add_only": True,
    },
    "engines": [{
        "name": "coq-proof+correspondence", "path": "/verif/check",
        "serves_properties": sorted(PROPS),
        "kind_free_text": "Coq 8.16.1 theorems about executable Gallina models (coq/Model, coq/Proofs, coq/Props); models tied to /repo on every run by (H) a Go harness that runs the real code under testing/synctest / real sockets and evaluates the model on the same cases inside the Coq kernel (vm_compute), and (T) a translator go2coq that regenerates coq/Gen/*.v from the current source",
    }],
    "checks": checks,
    "not_applicable": NOT_APPLICABLE,
    "notes": "Every check rebuilds from /repo's working tree. Known findings: /verif/known-findings.txt. Design: /verif/DESIGN.md.",
}
with open(os.path.join(VERIF, "MANIFEST.json"), "w") as f:
    json.dump(m, f, indent=1)
print("MANIFEST.json: %d checks, %d not applicable" % (len(checks), len(NOT_APPLICABLE)))
