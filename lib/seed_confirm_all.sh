#!/bin/bash
# usage: seed_confirm_all.sh C01 C16 ...   confirm the agents' seeds in /tmp/seed-<id>/_seed/{1,2} against /repo HEAD
head=$(git -C /repo rev-parse HEAD)
for s in "$@"; do
  wt=/tmp/seed-$s
  git -C $wt checkout -q --detach $head 2>/dev/null
  for n in 1 2 3; do
    d=$wt/_seed/$n; [ -d $d ] || continue
    dest=$(grep -oE '(internal|cmd)/[a-z/]+/zz_seed[a-z0-9_]*_test\.go' $d/notes.md | head -1)
    name=$s-$n; k=$n
    while [ -d /verif/seeded/$name ] && ! cmp -s /verif/seeded/$name/patch.diff $d/patch.diff; do k=$((k+1)); name=$s-$k; done
    bash /verif/lib/seed_confirm.sh $wt $d $dest $name 2>&1 | tail -4
  done
done
