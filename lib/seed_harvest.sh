#!/bin/bash
# usage: seed_harvest.sh <prefix e.g. /tmp/seed2-> <ids...> : confirm each _seed/N of the sub-agent worktrees and copy confirmed ones to seeded/
pre=$1; shift
for id in "$@"; do
  wt=$pre$id
  for n in 1 2; do
    sd=$wt/_seed/$n
    [ -f $sd/patch.diff ] || { echo "$id/$n: no patch"; continue; }
    dest=$(grep -oE '(internal|cmd|pkg)/[A-Za-z0-9_/.-]*_test\.go' $sd/notes.md | grep -v "^$" | head -1)
    [ -n "$dest" ] || { echo "$id/$n: no demo destination in notes"; continue; }
    k=1; while [ -d /verif/seeded/$id-$k ]; do k=$((k+1)); done
    /verif/lib/seed_confirm.sh $wt $sd $dest $id-$k 2>&1 | tail -3
  done
done
