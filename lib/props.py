"""Property and suite tables for ./check.

SUITES: how a harness suite is run and how its cases are evaluated in Coq.
  cols  = meaning of each entry of the result vector computed by the suite's evaluator
PROPS : which theorems (Props/<id>.v) and which suite columns decide each property.
"""

SUITES = {
    "limiter": dict(
        test="TestLimiter", coq_module="Cases.LimiterCase", case_type="lim_case", eval="eval_lim_case",
        cols=["diff", "mon_window", "mon_burst", "cls_cleanup_regrant", "nt_c09"],
        batches={"quick": 4, "thorough": 16}, timeout={"quick": 300, "thorough": 3000},
    ),
}

SUITES["breaker"] = dict(
    test="TestBreaker", coq_module="Cases.BreakerCase", case_type="brk_case", eval="eval_brk_case",
    cols=["diff", "mon_block", "mon_trials", "mon_trip", "mon_close", "mon_reopen", "mon_recover",
          "cls_lockout", "nt_c07", "nt_c08"],
    batches={"quick": 4, "thorough": 16}, timeout={"quick": 300, "thorough": 3000},
)

PROPS = {
    "C09": dict(
        props_file="Props/C09.v",
        suites=[dict(suite="limiter", corr=["diff"], monitors=["mon_window", "mon_burst"],
                     classifiers={"cleanup-regrant": "cls_cleanup_regrant"}, nontrivial="nt_c09")],
        rule="limiter histories under virtual time (corpus + seeded structured random: 1-4 clients, max 1..5, "
             "11 refill rates, gaps on refill/clean-up/1h boundaries +-1ns, concurrent bursts of 2..64 callers); "
             "non-trivial = at least one denial and (a gap of >= one refill period or a clean-up run); "
             "distinct = by hash of the full case term",
        trusted_base=["model Model/Limiter.v of internal/ratelimiter/ratelimiter.go (hand-written; tied by the limiter suite)",
                      "clean-up ticks are placed by the harness at t0 + k*10min (the ticker period is read as a constant of the code)"],
        level_text="Theorems over the limiter model for every configuration, history, segment and client (window bound by a "
                   "potential function, burst bound, isolation, new-client burst, idle refill), unbounded in length and values; "
                   "model tied to ratelimiter.go by running the same histories on the real limiter under virtual time "
                   "and evaluating the model in the Coq kernel; monitors of the bound run on the implementation's traces.",
        level_note="Trusted: Coq kernel, harness, hand model of ratelimiter.go (checked by correspondence on every run), "
                   "Go runtime mutual exclusion. Concurrency is covered as same-instant bursts of 2..64 goroutines whose "
                   "admitted count is compared; the LB gate (429, not forwarded) is decided with the lbseq suite.",
        assumptions=["virtual time is non-decreasing", "time.Duration/int overflow out of scope",
                     "sync.Mutex / sync.Map give mutual exclusion and atomic LoadOrStore (Go runtime, modelled not verified)"],
    ),
}

PROPS["C07"] = dict(
    props_file="Props/C07.v",
    suites=[dict(suite="breaker", corr=["diff"], monitors=["mon_block", "mon_trials", "mon_trip", "mon_close", "mon_reopen"],
                 classifiers={}, nontrivial="nt_c07")],
    rule="breaker histories under virtual time: overlapping Execute calls (begin/end separately), outcomes ok/err/panic, "
         "gaps on interval/timeout boundaries +-1ns, thresholds and max_requests in 1..3; non-trivial = the history reaches OPEN; "
         "distinct = by hash of the full case term",
    level_text="Theorems over the breaker model for all configurations and all histories of overlapping requests: reachable-state "
               "invariant, trip after failure_threshold failures with gaps <= interval, block while open until the deadline, "
               "bounded trials per half-open episode, close only at the success_threshold-th success, re-open on any trial failure. "
               "Tied to circuitbreaker.go by running the same histories on the real breaker under virtual time (return value "
               "class, whether the function ran, State() after every op) and evaluating model and trace monitors in the Coq kernel.",
    level_note="Trusted: Coq kernel, harness, hand model of circuitbreaker.go. Requests overlap at the granularity of "
               "admission/completion; interleavings inside beforeRequest/Execute critical sections are a separate step-level claim.",
    trusted_base=["model Model/Breaker.v of internal/circuitbreaker/circuitbreaker.go (hand-written; tied by the breaker suite)"],
    assumptions=["virtual time is non-decreasing", "uint32 counter overflow out of scope", "sync.RWMutex gives mutual exclusion"],
)
PROPS["C08"] = dict(
    props_file="Props/C08.v",
    suites=[dict(suite="breaker", corr=["diff"], monitors=["mon_recover"],
                 classifiers={"lockout-max-lt-success": "cls_lockout"}, nontrivial="nt_c08")],
    rule="every breaker history is followed by the recovery script (end in-flight requests, wait > timeout, success_threshold "
         "successful requests); non-trivial = the breaker is not CLOSED when the script starts; distinct = by hash of the case term",
    level_text="Theorem: from every state reachable by any history of overlapping requests, after in-flight requests end, waiting "
               "> timeout and success_threshold successes close the breaker with all of them admitted, whenever "
               "success_threshold <= max_requests; the converse configuration is proved to lock out for ever (refutation with witness). "
               "Tie: the same recovery script is run on the real breaker after every generated history.",
    level_note="Trusted: Coq kernel, harness, hand model of circuitbreaker.go. Deadlock-freedom of state-change notifications is "
               "decided at balancer level (lbseq suite), not here.",
    trusted_base=["model Model/Breaker.v of internal/circuitbreaker/circuitbreaker.go (hand-written; tied by the breaker suite)"],
    assumptions=["virtual time is non-decreasing", "in-flight requests eventually end"],
)

# properties not claimed, each with a one-line reason (kept current as checks are added)
_ALL = ["C%02d" % i for i in range(1, 21)]
NOT_APPLICABLE = [dict(property_id=p, reason="check not built yet in this session (claimed in DESIGN.md; machinery in progress)")
                  for p in _ALL if p not in PROPS]
