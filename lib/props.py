"""Property and suite tables for ./check.

SUITES: how a harness suite is run and how its cases are evaluated in Coq.
  cols  = meaning of each entry of the result vector computed by the suite's evaluator
PROPS : which theorems (Props/<id>.v) and which suite columns decide each property.
"""

SUITES = {
    "limiter": dict(
        test="TestLimiter", coq_module="Cases.LimiterCase", case_type="lim_case", eval="eval_lim_case",
        cols=["diff", "mon_window", "mon_burst", "cls_cleanup_regrant", "nt_c09", "mon_first_burst", "mon_idle_refill"],
        batches={"quick": 4, "thorough": 16}, timeout={"quick": 300, "thorough": 3000},
    ),
}

SUITES["breaker"] = dict(
    test="TestBreaker", coq_module="Cases.BreakerCase", case_type="brk_case", eval="eval_brk_case",
    cols=["diff", "mon_block", "mon_trials", "mon_trip", "mon_close", "mon_reopen", "mon_recover",
          "cls_lockout", "nt_c07", "nt_c08"],
    batches={"quick": 4, "thorough": 16}, timeout={"quick": 300, "thorough": 3000},
)

SUITES["strategy"] = dict(
    test="TestStrategy", coq_module="Cases.StrategyCase", case_type="str_case", eval="eval_str_case",
    cols=["diff", "mon_rr", "mon_wrr_exact", "mon_wrr_bound", "mon_lc", "mon_affinity", "mon_valid", "mon_remap",
          "cls_wrr_removed", "nt_c05", "nt_c06", "mon_wrr_proved", "cls_wrr_flap", "mon_pick_eligible"],
    batches={"quick": 4, "thorough": 16}, timeout={"quick": 300, "thorough": 3000},
)

SUITES["lbseq"] = dict(
    test="TestLbSeq", coq_module="Cases.LBCase", case_type="lb_case", eval="eval_lb_case",
    cols=["diff_begin", "diff_end", "diff_admin", "diff_metrics",
          "mon_c02_disp", "mon_c02_503", "cls_c02_rr3", "cls_c02_lc", "cls_c02_stale",
          "mon_c04_list", "mon_c04_only_after", "mon_c04_mirror", "mon_c07_lb", "mon_c09_gate",
          "mon_c11", "cls_readd_draining", "mon_c13_total", "mon_c13_partition", "mon_c13_backend", "mon_c13_gauge",
          "cls_seen_nobackend", "cls_seen_abort", "mon_c03_recover",
          "nt_c02", "nt_c04", "nt_c07", "nt_c09", "nt_c11", "nt_c13", "nt_c03", "mon_c03_fault_visible"],
    batches={"quick": 6, "thorough": 16}, timeout={"quick": 400, "thorough": 3000},
)

SUITES["admin"] = dict(
    test="TestAdmin", coq_module="Cases.AdminCase", case_type="adm_case", eval="eval_adm_case",
    cols=["diff", "mon_auth", "mon_filter", "nt_c10", "mon_c11_admin"],
    batches={"quick": 4, "thorough": 16}, timeout={"quick": 300, "thorough": 3000},
)

SUITES["writer"] = dict(
    test="TestWriter", coq_module="Cases.WriterCase", case_type="wr_case", eval="eval_wr_case",
    cols=["diff", "mon_c14_bound", "mon_c14_request", "mon_c14_transparent", "mon_c15_decodes", "mon_c15_only_if",
          "mon_c15_plain_identical", "nt_c14", "nt_c15"],
    batches={"quick": 8, "thorough": 16}, timeout={"quick": 400, "thorough": 3000},
)

SUITES["wire"] = dict(
    test="TestWire", coq_module="Cases.WireCase", case_type="wi_case", eval="eval_wi_case", needs_binary=True,
    cols=["diff_fwd", "diff_resp", "mon_c01_req", "mon_c01_resp", "mon_c01_stream", "mon_c16_present", "mon_c16_equal",
          "mon_c16_echo", "mon_c16_fresh", "mon_c16_disabled", "mon_c17_gate", "mon_c17_order", "cls_interim",
          "nt_c01", "nt_c16", "nt_c17"],
    batches={"quick": 8, "thorough": 16}, timeout={"quick": 400, "thorough": 3000},
)

SUITES["chain"] = dict(
    test="TestChain", coq_module="Cases.ChainCase", case_type="ch_case", eval="eval_ch_case", needs_binary=True,
    cols=["diff", "mon_fail_closed", "mon_order", "mon_gate", "nt_c17"],
    batches={"quick": 4, "thorough": 16}, timeout={"quick": 300, "thorough": 3000},
)

SUITES["config"] = dict(
    test="TestConfig", coq_module="Cases.ConfigCase", case_type="cf_case", eval="eval_cf_case", needs_binary=True,
    cols=["diff", "mon_spec", "mon_docs", "mon_starts", "nt_c18"],
    batches={"quick": 8, "thorough": 16}, timeout={"quick": 400, "thorough": 3000},
)

SUITES["idgen"] = dict(
    test="TestIdGen", coq_module="Cases.WireCase", case_type="id_case", eval="eval_id_case",
    cols=["diff", "mon_c16_unique", "nt_c16"],
    batches={"quick": 3, "thorough": 5}, timeout={"quick": 300, "thorough": 1200},
)

SUITES["wspool"] = dict(
    test="TestWsPool", coq_module="Cases.WSPoolCase", case_type="wp_case", eval="eval_wp_case",
    cols=["diff_out", "diff_closed", "mon_exclusive", "mon_fresh", "mon_max_idle", "mon_shutdown", "nt_c20"],
    batches={"quick": 4, "thorough": 16}, timeout={"quick": 300, "thorough": 3000},
)

SUITES["tunnel"] = dict(
    test="TestTunnel", coq_module="Cases.WireCase", case_type="tu_case", eval="eval_tu_case", needs_binary=True,
    cols=["diff", "mon_tunnel_relay", "mon_tunnel_close", "nt_c20"],
    batches={"quick": 6, "thorough": 16}, timeout={"quick": 400, "thorough": 3000},
)

SUITES["probe"] = dict(
    test="TestProbe", coq_module="Cases.ProbeCase", case_type="pr_case", eval="eval_pr_case",
    cols=["diff", "mon_c19_stop_returns", "mon_c19_no_probe_after", "nt_c19", "nt_c04", "mon_c04_probe_window", "mon_c04_probe_recover"],
    batches={"quick": 4, "thorough": 16}, timeout={"quick": 300, "thorough": 3000},
)

SUITES["stall"] = dict(
    test="TestStall", coq_module="Cases.ProbeCase", case_type="st_case", eval="eval_st_case", needs_binary=True,
    cols=["diff", "mon_c03_stall_ends", "mon_c03_stall_followup", "nt_c03", "mon_c11_readd"],
    batches={"quick": 1, "thorough": 2}, timeout={"quick": 120, "thorough": 300},
)

SUITES["sigterm"] = dict(
    test="TestSigterm", coq_module="Cases.ProbeCase", case_type="sg_case", eval="eval_sg_case", needs_binary=True,
    cols=["diff", "mon_c19_drains", "mon_c19_exits_in_time", "nt_c19"],
    batches={"quick": 8, "thorough": 16}, timeout={"quick": 300, "thorough": 1200},
)

SUITES["race"] = dict(
    test="TestRace", coq_module="Cases.ProbeCase", case_type="rc_case", eval="eval_rc_case", binary="harness.race.test",
    cols=["diff", "mon_c12_no_race", "mon_c12_no_panic", "mon_c12_no_deadlock", "nt_c12"],
    batches={"quick": 8, "thorough": 16}, timeout={"quick": 600, "thorough": 3000},
)

SUITES["sched"] = dict(
    test="TestSched", coq_module="Cases.SchedCase", case_type="sd_case", eval="eval_sd_case", binary="harness.sched.test",
    cols=["diff_obs", "diff_trace", "mon_sched_prop", "mon_sched_finished", "nt_sched"],
    batches={"quick": 8, "thorough": 16}, timeout={"quick": 600, "thorough": 3000},
)

PROPS = {
    "C09": dict(
        props_file="Props/C09.v", gen=["LimiterGen"],
        suites=[dict(suite="limiter", corr=["diff"], monitors=["mon_window", "mon_burst", "mon_first_burst", "mon_idle_refill"],
                     classifiers={"cleanup-regrant": "cls_cleanup_regrant"}, nontrivial="nt_c09"),
                dict(suite="lbseq", corr=["diff_begin"], monitors=["mon_c09_gate"], classifiers={}, nontrivial="nt_c09")],
        rule="limiter histories under virtual time (corpus + seeded structured random: 1-4 clients, max 1..5, "
             "11 refill rates, gaps on refill/clean-up/1h boundaries +-1ns, concurrent bursts of 2..64 callers); "
             "non-trivial = at least one denial and (a gap of >= one refill period or a clean-up run); "
             "distinct = by hash of the full case term",
        trusted_base=["model Model/Limiter.v of internal/ratelimiter/ratelimiter.go (hand-written; tied by the limiter suite)",
                      "clean-up ticks are placed by the harness at t0 + k*10min (the ticker period is read as a constant of the code)"],
        level_text="Theorems over the limiter model for every configuration, history, segment and client (window bound by a "
                   "potential function, burst bound, isolation, new-client burst, idle refill), unbounded in length and values; "
                   "model tied to ratelimiter.go by running the same histories on the real limiter under virtual time "
                   "and evaluating the model in the Coq kernel; monitors of the bound run on the implementation's traces.",
        level_note="Trusted: Coq kernel, harness, hand model of ratelimiter.go (checked by correspondence on every run), "
                   "Go runtime mutual exclusion. Concurrency is covered as same-instant bursts of 2..64 goroutines whose "
                   "admitted count is compared; the LB gate (429, not forwarded) is decided with the lbseq suite.",
        assumptions=["virtual time is non-decreasing", "time.Duration/int overflow out of scope",
                     "sync.Mutex / sync.Map give mutual exclusion and atomic LoadOrStore (Go runtime, modelled not verified)"],
    ),
}

PROPS["C07"] = dict(
    props_file="Props/C07.v", gen=["BreakerGen"],
    suites=[dict(suite="breaker", corr=["diff"], monitors=["mon_block", "mon_trials", "mon_trip", "mon_close", "mon_reopen"],
                 classifiers={}, nontrivial="nt_c07"),
            dict(suite="lbseq", corr=["diff_begin"], monitors=["mon_c07_lb"], classifiers={}, nontrivial="nt_c07"),
            dict(suite="sched", corr=["diff_obs", "diff_trace"], monitors=["mon_sched_prop", "mon_sched_finished"], classifiers={},
                 nontrivial="nt_sched", filter=lambda c: c["repl"].get("scenario") == 2)],
    rule="sched: every interleaving of the critical sections of 2 Execute calls (and 60 sampled ones of 3) at the open -> half-open "
         "boundary with max_requests 1 and 2, replayed on the yield-instrumented real breaker; breaker histories under virtual time: overlapping Execute calls (begin/end separately), outcomes ok/err/panic, "
         "gaps on interval/timeout boundaries +-1ns, thresholds and max_requests in 1..3; non-trivial = the history reaches OPEN; "
         "distinct = by hash of the full case term",
    level_text="Theorems over the breaker model for all configurations and all histories of overlapping requests: reachable-state "
               "invariant, trip after failure_threshold failures with gaps <= interval, block while open until the deadline, "
               "bounded trials per half-open episode, close only at the success_threshold-th success, re-open on any trial failure. "
               "Tied to circuitbreaker.go by running the same histories on the real breaker under virtual time (return value "
               "class, whether the function ran, State() after every op) and evaluating model and trace monitors in the Coq kernel.",
    level_note="Trusted: Coq kernel, harness, hand model of circuitbreaker.go. Requests overlap at the granularity of "
               "admission/completion; interleavings of the critical sections are covered by the step-level model (Model/Conc.v) and schedule "
               "replay for the half-open admission, not for the other paths.",
    trusted_base=["model Model/Breaker.v of internal/circuitbreaker/circuitbreaker.go (hand-written; tied by the breaker suite)"],
    assumptions=["virtual time is non-decreasing", "uint32 counter overflow out of scope", "sync.RWMutex gives mutual exclusion"],
)
PROPS["C08"] = dict(
    props_file="Props/C08.v", gen=["BreakerGen"],
    suites=[dict(suite="breaker", corr=["diff"], monitors=["mon_recover"],
                 classifiers={"lockout-max-lt-success": "cls_lockout"}, nontrivial="nt_c08"),
            # notifications never block request processing: decided on the balancer (its callback is the one installed in production);
            # a hang is caught by the watchdog and reported with the history that caused it
            dict(suite="lbseq", corr=["diff_begin"], monitors=["mon_c03_recover", "mon_c07_lb"], classifiers={}, nontrivial="nt_c07")],
    rule="balancer level: configurations as the validator accepts them, thresholds beyond 32 bits included; every breaker history is followed by the recovery script (end in-flight requests, wait > timeout, success_threshold "
         "successful requests); non-trivial = the breaker is not CLOSED when the script starts; distinct = by hash of the case term",
    level_text="Theorem: from every state reachable by any history of overlapping requests, after in-flight requests end, waiting "
               "> timeout and success_threshold successes close the breaker with all of them admitted, whenever "
               "success_threshold <= max_requests; the converse configuration is proved to lock out for ever (refutation with witness). "
               "Tie: the same recovery script is run on the real breaker after every generated history.",
    level_note="Trusted: Coq kernel, harness, hand model of circuitbreaker.go. Deadlock-freedom of state-change notifications is "
               "decided at balancer level (lbseq suite), not here.",
    trusted_base=["model Model/Breaker.v of internal/circuitbreaker/circuitbreaker.go (hand-written; tied by the breaker suite)"],
    assumptions=["virtual time is non-decreasing", "in-flight requests eventually end"],
)

PROPS["C06"] = dict(
    props_file="Props/C06.v", gen=["JumpGen"],
    suites=[dict(suite="strategy", corr=["diff"], monitors=["mon_affinity", "mon_valid", "mon_remap"],
                 classifiers={}, nontrivial="nt_c06"),
            # "a valid eligible backend ... regardless of concurrent traffic": a pick against health flips, every interleaving
            dict(suite="sched", corr=["diff_obs", "diff_trace"], monitors=["mon_sched_prop", "mon_sched_finished"], classifiers={},
                 nontrivial="nt_sched", filter=lambda c: c["repl"].get("scenario") == 4)],
    rule="real IPHash / IPHashConsistent strategy objects: 18 client strings (IPv4, IPv6, zone, lists, spaces, junk) via XFF / "
         "X-Real-IP / RemoteAddr with varying port and path, the same clients before and after append / flag / remove; direct "
         "jumpHash calls on 34 adversarial 32-bit keys (extreme LCG iterates, found by exhaustive search), LCG-inverted 64-bit keys "
         "and random keys over consecutive bucket counts; non-trivial = >= 2 eligible backends (or n >= 2); distinct = by case hash",
    level_text="Theorems for all 2^64 keys and all pool sizes < 2^31 about the jump-hash loop REGENERATED FROM SOURCE by go2coq "
               "(termination, range, minimal remapping jh k (n+1) in {jh k n, n}), lifted to the strategy (append moves a client only "
               "to the new backend), affinity and validity for both hash strategies. FNV-1a, client-string extraction and the "
               "strategy glue are hand models tied by running the real strategies on the same requests.",
    level_note="Trusted: Coq kernel, go2coq's arithmetic translator (typed expressions with explicit wrap-around), harness; "
               "net.SplitHostPort is an oracle (harness passes Go's result); hash/fnv is modelled and validated by the runs.",
    trusted_base=["go2coq arithmetic translator (Gen/JumpGen.v)", "Model/Strategy.v, Model/Hash.v (hand-written parts)"],
    assumptions=["pool sizes below 2^31", "hash/fnv New32a is FNV-1a 32-bit (validated by correspondence)"],
)

PROPS["C05"] = dict(
    props_file="Props/C05.v", gen=["StrategyGen", "BackendGen"],
    suites=[dict(suite="strategy", corr=["diff"], monitors=["mon_rr", "mon_wrr_exact", "mon_wrr_bound", "mon_wrr_proved", "mon_lc"],
                 classifiers={"wrr-flap-beyond-two-ratio": "cls_wrr_flap", "wrr-stale-after-removal": "cls_wrr_removed"}, nontrivial="nt_c05"),
            # "weights below 1 count as 1" on every path a backend can be added by (configuration and admin API)
            # ... and least_connections on the balancer's own gauges (requests in flight across ejections and recoveries)
            dict(suite="lbseq", corr=["diff_admin", "diff_begin"], monitors=["mon_c11", "mon_c02_disp"], classifiers={}, nontrivial="nt_c11")],
    rule="real RoundRobin / WeightedRoundRobin / LeastConnections strategy objects: pools 1..8, weights 1..6, stretches of picks "
         "separated by add / remove / flag changes, in-flight counts 0..3, concurrent pickers (2..64 goroutines, 6720 picks) for the "
         "exact round-robin counts; non-trivial = n >= 2 and (WRR) unequal weights or a preceding membership/health event, "
         "(LC) >= 2 distinct in-flight counts; distinct = by case hash",
    level_text="Theorems: round-robin index formula and exact counting over any n*m consecutive counter values; smooth WRR "
               "exactness from a fresh pool (each backend exactly w_i of W picks, state returns to fresh) and therefore every "
               "sliding window of W picks; lag identity; least-connections minimality. WRR after ANY history of additions, removals, "
               "health changes and picks with any eligible sets: the running weights satisfy a family of subset-sum bounds "
               "(Proofs/WrrBoundProofs.v), hence every eligible backend stays within 2(n-1)W_T/W_E of its proportional share over a "
               "stable stretch of any length - a bound that does not grow with the number of requests (C05_wrr_bounded_after_any_history). "
               "The constant the property names, 2 W_T/W_E, is REFUTED (C05_wrr_two_ratio_refuted: weights 8,1,1,1,1 after 88 picks "
               "between health changes; replayed on the real strategy by the corpus, known finding wrr-flap-beyond-two-ratio); the "
               "stated constant is still monitored on every implementation trace and every failure outside that class is reported. "
               "The three selection functions ARE the source: go2coq regenerates the NextBackend loops of round_robin.go, "
               "least_connections.go and weighted_round_robin.go (Gen/StrategyGen.v: loops over slice indices, pointers into the slice as "
               "indices, early return / continue) and Proofs/StrategyRefine.v proves that they compute the models' picks, counter and running "
               "weights for every pool (C05_rr_is_source, C05_lc_is_source, C05_wrr_is_source). "
               "Tie H: same operation sequences on the real strategy objects, pick by pick.",
    level_note="Trusted: Coq kernel, harness, Model/Strategy.v. atomic.AddUint64 is assumed atomic; concurrency of round robin is "
               "exercised with 2..64 goroutines (exact per-backend totals), not proved beyond the atomic-step argument.",
    trusted_base=["go2coq strategy-loop translator (Gen/StrategyGen.v; how a slice element's Go accessors map to the model's fields is its configuration)",
                  "Model/Strategy.v (hand-written: pool operations, hash strategies; tied by the strategy suite)"],
    assumptions=["counter window does not cross 2^64", "weights >= 1 (AddBackend clamp, decided with the lbseq suite)"],
)


_LB_NOTE = ("Trusted: Coq kernel, harness, hand model Model/LB.v. httputil.ReverseProxy and net/http are represented by the "
            "outcome classes of the scripted transport (status incl. the default error handler's 502, abort mid-body). "
            "url.Parse and net.SplitHostPort are oracles (the harness passes Go's answers).")
_LB_TRUST = ["model Model/LB.v (+Strategy/Limiter/Breaker/ClientIP) of internal/loadbalancer/loadbalancer.go (hand-written; tied by the lbseq suite)",
                  "harness: scripted in-memory RoundTrippers per backend, testing/synctest virtual clock, request context carrying http.ServerContextKey"]

PROPS["C02"] = dict(
    props_file="Props/C02.v", gen=["HealthGen", "StrategyGen"],
    suites=[dict(suite="lbseq", corr=["diff_begin"], monitors=["mon_c02_disp", "mon_c02_503"],
                 classifiers={}, nontrivial="nt_c02"),
            # ejection by the active checker: no traffic inside the window whatever later probes say
            dict(suite="probe", corr=["diff"], monitors=["mon_c04_probe_window", "mon_c04_probe_recover"], classifiers={}, nontrivial="nt_c04"),
            # no 503 while a backend is healthy throughout, no pick of a backend that is ejected throughout, under every interleaving with flips
            dict(suite="sched", corr=["diff_obs", "diff_trace"], monitors=["mon_sched_prop", "mon_sched_finished"], classifiers={},
                 nontrivial="nt_sched", filter=lambda c: c["repl"].get("scenario") in (1, 4)),
            # every strategy object, every pick: an eligible member, none only when none is eligible (also with 100 and more requests in flight)
            dict(suite="strategy", corr=["diff"], monitors=["mon_pick_eligible", "mon_valid"], classifiers={}, nontrivial="nt_c05")],
    rule="probe suite: backends ejected by failed probes, later probes scripted ok inside the window, traffic in between; "
         "balancer histories under virtual time: 5 strategies x pools 1..5 (+admin add/remove), passive ejections by 5xx/502, "
         "windows straddled by +-1 ns gaps, overlapping requests held open by the scripted transports; non-trivial = the pool has "
         ">= 2 backends and at least one is inside its window at a dispatch; distinct = by case hash",
    level_text="Theorems: in EVERY reachable state (any history of requests, outcomes, time, probes and admin operations) and under every "
               "strategy, a request is answered 'no healthy backend' only if every pooled backend is inside its unhealthy window at that "
               "moment (composition of: object identities stay pairwise distinct - an invariant proved over all operations -, the lazy expiry of "
               "the whole pool makes flag = outside-window, every strategy returns a flagged backend whenever one exists, the gate is exactly the "
               "window); whatever findHealthyBackend returns is outside its window. Tie: same histories on the real LoadBalancer; dispatch "
               "decisions compared request by request.",
    level_note=_LB_NOTE, trusted_base=_LB_TRUST,
    assumptions=["virtual time non-decreasing", "pool below 2^31 backends, in-flight counts below 2^31-1"],
)
PROPS["C04"] = dict(
    props_file="Props/C04.v", gen=["HealthGen"],
    suites=[dict(suite="lbseq", corr=["diff_begin", "diff_admin"], monitors=["mon_c04_list", "mon_c04_only_after", "mon_c04_mirror", "mon_c02_disp", "mon_c02_503"],
                 classifiers={}, nontrivial="nt_c04"),
            dict(suite="probe", corr=["diff"], monitors=["mon_c04_probe_window", "mon_c04_probe_recover"], classifiers={}, nontrivial="nt_c04"),
            dict(suite="sched", corr=["diff_obs", "diff_trace"], monitors=["mon_sched_prop", "mon_sched_finished"], classifiers={},
                 nontrivial="nt_sched", filter=lambda c: c["repl"].get("scenario") == 1)],
    rule="sched: every interleaving of the critical sections of 1-2 lazy-expiry checks (IsBackendHealthy) and 1-2 fresh ejections "
         "(MarkBackendUnhealthy) on a backend whose window has just elapsed, replayed on the yield-instrumented real code; probe suite: the real balancer with active checks under virtual time (1-4 backends, intervals 5/10/30 s, probe timeouts, windows "
         "0..60 s, per-backend scripted probe results ok / 500 / transport error / no answer, gaps on interval / timeout / window +-1 ns): "
         "which backends each tick probes and which backends then receive traffic; lbseq: "
         "balancer histories with failed (5xx / unreachable) and good responses per backend, thresholds 1..3, windows 1/5/30 s straddled "
         "by +-1 ns, all five strategies, List and metrics snapshots; non-trivial = the history contains a failed response; distinct = by case hash",
    level_text="Theorems: passive counter semantics (ejection exactly when the per-name count reaches the threshold, reset then, never "
               "touched by successes), ejection opens [now, now+timeout], the gate is exactly the window (no traffic inside, eligible as "
               "soon as it has elapsed), a successful probe never ejects. Reporting (List / metrics mirror never show an ejected backend "
               "healthy) and recovery under every strategy are monitored on implementation traces. Tie: lbseq histories.",
    level_note=_LB_NOTE + " Active probing is tied by the probe suite (Model/Shutdown.v); the expiry-vs-ejection race is not explored at step level.",
    trusted_base=_LB_TRUST, assumptions=["virtual time non-decreasing"],
)
PROPS["C11"] = dict(
    props_file="Props/C11.v",
    suites=[dict(suite="lbseq", corr=["diff_admin", "diff_begin"], monitors=["mon_c11", "mon_c02_disp"],
                 classifiers={}, nontrivial="nt_c11"),
            dict(suite="admin", corr=["diff"], monitors=["mon_c11_admin"], classifiers={}, nontrivial="nt_c10"),
            dict(suite="sched", corr=["diff_obs", "diff_trace"], monitors=["mon_sched_prop", "mon_sched_finished"], classifiers={},
                 nontrivial="nt_sched", filter=lambda c: c["repl"].get("scenario") in (3, 5, 6, 7)),
            # a name removed and added again at another address, on the real binary through the admin API
            dict(suite="stall", corr=[], monitors=["mon_c11_readd"], classifiers={}, nontrivial="mon_c11_readd", filter=lambda c: c["repl"].get("kind") == "readd")],
    rule="balancer histories with add (valid / unparsable address / duplicate name / weight 0..4), remove (present / absent names), "
         "set_strategy (5 valid + invalid names) interleaved with requests in flight, List before and after every admin operation; "
         "non-trivial = an admin op fails, repeats a name, removes an absent name or overlaps traffic; distinct = by case hash",
    level_text="Theorems: successful add => listed last, healthy, idle, weight max(1,w); add fails exactly for an unparsable address or "
               "a registered name and then changes nothing; unknown strategy changes nothing, a switch keeps the same backends in order "
               "with weights, health and in-flight counts; the conservation law survives every admin step (requests in flight complete "
               "and stay accounted). Admin operations are single atomic steps of the model (the balancer lock spans them), so every "
               "interleaving with Begin/End is a history. Tie: lbseq; the HTTP admin API itself is decided under C10.",
    level_note=_LB_NOTE + " Atomicity of the admin operations against each other is checked by schedule replay: SetStrategy / AddBackend / "
               "RemoveBackend are each one critical section (an extra yield point = a split section is a correspondence failure, and the lost "
               "update it allows is looked for over all interleavings).",
    trusted_base=_LB_TRUST, assumptions=[],
)
PROPS["C13"] = dict(
    props_file="Props/C13.v", gen=["BackendGen"],
    suites=[dict(suite="lbseq", corr=["diff_metrics"], monitors=["mon_c13_total", "mon_c13_partition", "mon_c13_backend", "mon_c13_gauge"],
                 classifiers={"gauge-stale-after-readd-while-draining": "cls_readd_draining"}, nontrivial="nt_c13")],
    rule="balancer histories mixing ok / 4xx / 5xx / unreachable / aborted-mid-body / rate-limited / breaker-rejected / "
         "no-healthy-backend requests with overlaps, Metrics snapshots (drained first in most of them); the monitors are computed from the "
         "trace alone (own tallies of begins, dispatches and ends per name); non-trivial = >= 2 quiescent snapshots; distinct = by case hash",
    level_text="Theorems for every configuration and history of the composite model: conservation total = successful + failed + "
               "rate_limited + in-flight (hence the partition at quiescence); total = number of requests; for every *Backend object, "
               "pooled or removed, ActiveConnections = requests in flight on it (zero when idle); per-name total + in flight = number "
               "of dispatches to objects of that name, each completed one counted as exactly one of successful/failed. The published "
               "by-name gauge: the full statement is REFUTED by a witness history (the known finding), and proved on every history "
               "that does not add a name again while a removed backend of that name is still draining (C13_published_gauge_partial). "
               "The same four quantities are monitored from the trace's own tallies on every implementation run. Tie: the real "
               "/metrics snapshot structure (MetricsCollector.GetMetrics) compared field by field with the model.",
    level_note=_LB_NOTE + " uint64/int32 counter widths and the 1000-name cap are out of scope.",
    trusted_base=_LB_TRUST, assumptions=["fewer than 1000 distinct backend names"],
)
PROPS["C03"] = dict(
    props_file="Props/C03.v",
    suites=[dict(suite="lbseq", corr=["diff_begin", "diff_end"], monitors=["mon_c03_recover", "mon_c03_fault_visible"],
                 classifiers={}, nontrivial="nt_c03"),
            # backend faults as the active checker sees them (refused, wrong status, no answer): the process must survive every one
            dict(suite="probe", corr=["diff"], monitors=["mon_c19_stop_returns", "mon_c04_probe_recover"], classifiers={}, nontrivial="nt_c04"),
            # a client that stalls mid-request: the real binary must end the exchange within its read time-out
            dict(suite="stall", corr=[], monitors=["mon_c03_stall_ends", "mon_c03_stall_followup"], classifiers={}, nontrivial="nt_c03")],
    rule="every lbseq history (faults: 5xx, transport error, abort mid-body, with breaker / limiter / passive checks on or off, all "
         "strategies, overlapping) is followed by the recovery script: end everything in flight, wait past every timer, add a fresh "
         "backend, three well-behaved requests that must be dispatched and answered 200, final metrics with zero gauges; "
         "non-trivial = >= 1 fault before the script; distinct = by case hash",
    level_text="PARTIAL. Theorems: the step function is total (no stuck step) and the accounting releases every request whatever its "
               "outcome (conservation law, End always removes the request). The recovery claim is decided on implementation traces by the "
               "appended script; the breaker-callback deadlock regression runs under a real-time watchdog. Timeouts, goroutine/fd leaks "
               "and panic recovery in net/http are runtime behaviour the model cannot exhibit.",
    level_note=_LB_NOTE, trusted_base=_LB_TRUST,
    assumptions=["faults reach the balancer as status / transport error / abort (validated for the in-memory transport only)"],
)

PROPS["C10"] = dict(
    props_file="Props/C10.v",
    suites=[dict(suite="admin", corr=["diff"], monitors=["mon_auth", "mon_filter"], classifiers={}, nontrivial="nt_c10")],
    rule="adminapi.NewMux on a live balancer: 7 path classes x methods, 16 Authorization spellings (prefix of a 300-char token, token "
         "+1/255/256/257/512 junk bytes, case, double space, two header values, Basic), 20 peer addresses as RemoteAddr with and "
         "without port (IPv4, IPv6, IPv4-mapped, zone, junk, empty), allow/deny lists from 15 well-formed (overlapping, nested, "
         "mapped) and 7 malformed entries, forged X-Forwarded-For / X-Real-IP in a third of the requests, JSON bodies valid / partial "
         "/ malformed; non-trivial = token set with a wrong header, or lists configured; distinct = by case hash",
    level_text="Theorems: auth accepts exactly 'Bearer '++token; with a token every data endpoint answers 401 and the balancer is "
               "unchanged otherwise; with lists configured a request passes the filter iff the PEER parses, is in no deny entry and the "
               "allow list is empty or contains it; a malformed entry refuses everyone; deny wins; the decision is independent of "
               "request headers. Tie: every request's status, body class and the balancer's strategy + backend list afterwards.",
    level_note="Trusted: Coq kernel, harness, Model/Admin.v; net.ParseIP / ParseCIDR / SplitHostPort, encoding/json and url.Parse are oracles "
               "(the harness passes parsed forms); ServeMux path matching is validated by the runs (unknown paths only checked to serve nothing).",
    trusted_base=["Model/Admin.v (hand-written; tied by the admin suite)", "Go address / JSON / URL parsers as oracles"],
    assumptions=["requests are driven through mux.ServeHTTP with RemoteAddr set as net/http sets it"],
)

_WR_NOTE = ("Trusted: Coq kernel, harness (raw TCP client, scripted handler), Model/RespWriter.v: a hand model of the http.ResponseWriter "
            "contract of net/http (header snapshot at commit, implicit 200, 1xx interim, body-less statuses, 304 header suppression) which "
            "is itself under correspondence on every run because each case is also served without any plugin. Bodies are prefixes of "
            "one deterministic byte stream and are represented by their length; the harness checks the received bytes are that prefix. "
            "compress/gzip and http.MaxBytesReader are libraries (modelled, validated by the runs). Compressed sizes are not modelled.")
PROPS["C14"] = dict(
    props_file="Props/C14.v", gen=["SizeLimitGen"],
    suites=[dict(suite="writer", corr=["diff"], monitors=["mon_c14_bound", "mon_c14_request", "mon_c14_transparent"],
                 classifiers={}, nontrivial="nt_c14")],
    rule="plugin chains (size_limit alone, with logging before/after, with gzip inside/outside) around a scripted handler over real "
         "connections: response limits 1..48 with bodies limit-1 / limit / limit+1 / far beyond / 0 in every partition into writes, "
         "statuses with and without bodies (200 201 202 204 301 302 304 400 404 500 503), implicit / explicit WriteHeader, 103 interim, "
         "Flush positions, declared and absent Content-Length, late WriteHeader; request limits 1..32 with declared and chunked bodies "
         "of limit-1 / limit / limit+1 / +9; each exchange also made directly (differential); non-trivial = body within 1 of the limit, "
         "a body-less status, or >= 2 writes; distinct = by case hash",
    level_text="Theorems: for every call sequence of a handler the client-side body is <= max_response_body (invariant coupling the wrapper "
               "with the writer below it, proved for all reachable states); 413 when the excess is found before anything was sent and "
               "nothing forwarded afterwards; request gate: rejected exactly for a declared length above the limit, otherwise at most "
               "max_request_body bytes readable and all of them when within the limit; transparency: for every well-formed handler "
               "script within the limit the client of the wrapper sees exactly what the client of the bare handler sees (simulation, "
               "Proofs/SizeLimitProofs.v). The wrapper machine of these theorems IS the source: go2coq regenerates "
               "limitedResponseWriter's Write / checkLimit / ensureHeaderWritten / WriteHeader / Flush on every run (Gen/SizeLimitGen.v) "
               "and Proofs/SizeLimitRefine.v proves that, driven by any script of handler calls, they make exactly the calls of the model "
               "(C14_model_is_source), refuse exactly the writes the model refuses, and that the type offers no ReadFrom / Unwrap / "
               "FlushError around Write. The differential monitor decides the same on every implementation run.",
    level_note=_WR_NOTE, trusted_base=["go2coq imperative translator in emitter mode (Gen/SizeLimitGen.v)",
                                       "Model/RespWriter.v (hand-written: base writer machine, request gate, the middleware closure; tied by the writer suite incl. the direct exchange)"],
    assumptions=["HTTP/1.1 over loopback sockets; HTTP/2 not exercised"],
)
PROPS["C15"] = dict(
    props_file="Props/C15.v", gen=["GzipGen"],
    suites=[dict(suite="writer", corr=["diff"], monitors=["mon_c15_decodes", "mon_c15_only_if", "mon_c15_plain_identical"],
                 classifiers={}, nontrivial="nt_c15")],
    rule="gzip plugin (alone, after logging, inside / outside size_limit) over real connections with a raw client that does not "
         "decode: 13 Accept-Encoding spellings (absent, gzip, lists, q-values, case, spaces, look-alikes), 7 content types x 5 configured "
         "prefixes, min_size 0/1/8/16/24/40 with bodies min-1 / min / min+1, declared vs absent Content-Length, levels -1..9 given as "
         "float or int, already-encoded responses, Flush mid-body, body-less statuses, HEAD; non-trivial = gzip in the chain and the "
         "request lists gzip; distinct = by case hash",
    level_text="Theorems: without a gzip token the plugin is the identity; a compressed payload is produced only at the end of an "
               "unstreamed exchange and only for a non-empty, not yet encoded body of >= min_size (declared and actual) whose content "
               "type matches a configured prefix; decoding: for every configuration, Accept-Encoding verdict and well-formed handler "
               "script the client decodes, under the Content-Encoding it receives, exactly the handler's body with the handler's status "
               "(simulation, Proofs/GzipProofs.v). The wrapper machine of these theorems IS the source: go2coq regenerates "
               "gzipResponseWriter's WriteHeader / commit / streamUncompressed / Write / Flush / Finish on every run (Gen/GzipGen.v) and "
               "Proofs/GzipRefine.v proves that, driven by any script of handler calls, they make exactly the calls of the model "
               "(C15_model_is_source; shouldGzipBody's decision is an oracle there, tied by the suite). The harness gunzips the raw "
               "bytes on every implementation run; the 10 MB buffering cap is only exercised in the thorough tier.",
    level_note=_WR_NOTE, trusted_base=["go2coq imperative translator in emitter mode (Gen/GzipGen.v)",
                                       "Model/RespWriter.v (hand-written: base writer machine, shouldGzipBody, the middleware closure; tied by the writer suite incl. the direct exchange)"],
    assumptions=["gunzip(gzip(b)) = b (compress/gzip)", "HTTP/1.1 over loopback sockets"],
)

_WI_NOTE = ("Trusted: Coq kernel, harness (raw TCP client, scripted backends, process control of the real binary), go2coq for the "
            "structural facts. Model/Proxy.v contains a hand model of what httputil.ReverseProxy / net/http do to a request and a response "
            "(hop-by-hop removal, X-Forwarded-For, path join, interim responses); it is compared with the real binary on every exchange "
            "of every run. The configured header names reach the model canonicalised and trimmed by Go (http.CanonicalHeaderKey).")
_WI_TRUST = ["Model/Proxy.v (hand-written; tied by the wire suite on the real cmd/helios binary built from the current tree)",
             "go2coq structural translators (Gen/Wrappers.v, Gen/ProxyFacts.v)"]
PROPS["C01"] = dict(
    props_file="Props/C01.v", gen=["Wrappers", "ProxyFacts"],
    suites=[dict(suite="wire", corr=["diff_fwd", "diff_resp"], monitors=["mon_c01_req", "mon_c01_resp", "mon_c01_stream"],
                 classifiers={}, nontrivial="nt_c01"),
            # backends added at run time, two of them on one server under different base paths: each request reaches its backend's own address
            dict(suite="stall", corr=[], monitors=["mon_c11_readd"], classifiers={}, nontrivial="mon_c11_readd", filter=lambda c: c["repl"].get("kind") == "readd")],
    rule="the real cmd/helios binary (built from the current tree, one process per generated configuration: 5 strategies, 1-2 backends, "
         "backend base paths, ID features on/off, plugin chains of length 0..5, handler timeout set or not) in front of scripted backends "
         "over real sockets; 9 methods, 13 paths (escaped, dot segments, double slash, long), 9 query forms, multi-valued / empty / "
         "long / non-ASCII headers, Connection-listed and fixed hop-by-hop headers, Accept-Encoding and User-Agent present or absent, bodies "
         "0..100000 in both framings; backend statuses 200..503 incl. 204/304, interim 103 responses, missing Content-Type, duplicate "
         "headers, declared or chunked bodies in 1..3 segments up to 64 KiB, flushed segments with a backend-side barrier (the next "
         "segment is only sent once the client has the previous one); every exchange is also made directly to the backend; "
         "non-trivial = proxied exchange with a body, a non-200 status or streaming; distinct = by case hash",
    level_text="PARTIAL. Theorems over the model of the stack (ID middleware o plugin chain o balancer o ReverseProxy): request line, body "
               "length and every end-to-end header reach the backend unchanged, hop-by-hop headers are dropped, X-Forwarded-For has one value; "
               "status / body / framing / end-to-end response headers are the backend's; any stack of the response-writer wrappers present in "
               "the source forwards Flush and Hijack (table regenerated by go2coq), and the source facts the model relies on "
               "(DisableCompression, no ModifyResponse, handler layers) are re-derived from the source on every run. Tie: the real binary "
               "over sockets, backend view and client view compared with the model and with a direct exchange. The byte relay itself is "
               "net/http / httputil runtime behaviour the model cannot exhibit.",
    level_note=_WI_NOTE, trusted_base=_WI_TRUST,
    assumptions=["HTTP/1.1 over loopback; HTTP/2, TLS and trailers not exercised", "client address 127.0.0.1"],
)
PROPS["C16"] = dict(
    props_file="Props/C16.v",
    suites=[dict(suite="wire", corr=["diff_fwd", "diff_resp"],
                 monitors=["mon_c16_present", "mon_c16_equal", "mon_c16_echo", "mon_c16_fresh", "mon_c16_disabled"],
                 classifiers={}, nontrivial="nt_c16"),
            dict(suite="idgen", corr=[], monitors=["mon_c16_unique"], classifiers={}, nontrivial="nt_c16")],
    rule="same runs as C01: default and custom header names (also with surrounding blanks in the configuration), both features on/off "
         "independently, 12 client-supplied values (empty, blanks, padded, NBSP / EM SPACE edges, 200 chars, punctuation, two values), "
         "backends that set an ID header themselves or send 103 Early Hints first, and every response path: proxied, custom-auth 401, "
         "size_limit 413, limiter 429, no healthy backend 503; every generated ID of a run is checked for its format and for "
         "duplicates; idgen: 50 000 - 200 000 IDs generated by 1 / 8 / 64 goroutines through the real middleware within well under a second, "
         "all required well-formed and pairwise distinct; non-trivial = client-supplied ID, a non-proxied path or custom names; distinct = by case hash",
    level_text="Theorems over the model for every configuration, chain, balancer phase and request: the ID header is pre-set with one "
               "value on every response path and survives the backend's response incl. interim responses; that value is the client's "
               "trimmed one when non-blank, else a generated one; the backend sees exactly that value; a disabled feature leaves request and "
               "response untouched; the generator is injective in its random bytes. Tie: the real binary over sockets, both directions.",
    level_note=_WI_NOTE, trusted_base=_WI_TRUST,
    assumptions=["crypto/rand yields distinct 12-byte draws (uniqueness reduces to it; duplicates are looked for in every run)",
                 "a header the client itself lists in Connection is hop-by-hop and not forwarded"],
)
PROPS["C17"] = dict(
    props_file="Props/C17.v",
    suites=[dict(suite="chain", corr=["diff"], monitors=["mon_fail_closed", "mon_order", "mon_gate"], classifiers={}, nontrivial="nt_c17"),
            dict(suite="wire", corr=["diff_fwd"], monitors=["mon_c17_gate", "mon_c17_order"], classifiers={}, nontrivial="nt_c17")],
    rule="plugins.BuildChain on chains of length 0..7 over the six built-ins and a tracing probe plugin registered through RegisterBuiltin "
         "(sub-multisets and permutations, repeated plugins with different options), valid and invalid option payloads per plugin "
         "(wrong type, null, zero / negative / fractional numbers as int and float, missing keys, misspelt keys), unknown and misspelt "
         "names, plugins disabled; one request (API key right / wrong / absent / blank, declared length around the limits) through every "
         "built chain with the probes recording enter / reject / exit; the real binary started on a sample of the chains (must exit without "
         "listening iff the chain is invalid); plus the wire suite: two headers-plugins writing the same key, rejecting plugins at "
         "every position; non-trivial = length >= 2, an invalid chain or a rejecting plugin; distinct = by case hash",
    level_text="Theorems for every chain: BuildChain's loop nests the first listed plugin outermost; with no rejection the plugins are entered "
               "in the configured order, then the backend, then left in reverse; the first rejecting plugin hides the request from all later "
               "plugins and the backend; a handler exists iff every entry is registered and its options are accepted (fail closed). Tie: real "
               "BuildChain + probe traces, the real binary's start-up, and the full stack over sockets.",
    level_note="Trusted: Coq kernel, harness, Model/Chain.v (factory option rules written from the plugin sources; tied by the chain suite).",
    trusted_base=["Model/Chain.v (hand-written; tied by the chain suite)", "Model/Proxy.v chain_request (tied by the wire suite)"],
    assumptions=["option maps as yaml.v3 / Go deliver them (int, float64, string, list, map, nil)"],
)

PROPS["C18"] = dict(
    props_file="Props/C18.v", gen=["ConfigGen"],
    suites=[dict(suite="config", corr=["diff"], monitors=["mon_spec", "mon_docs", "mon_starts"], classifiers={}, nontrivial="nt_c18"),
            # "never half-configured": every configured plugin entry works with its own options, in its own place
            dict(suite="chain", corr=["diff"], monitors=["mon_fail_closed", "mon_order", "mon_gate"], classifiers={}, nontrivial="nt_c17")],
    rule="Config.Validate and config.LoadConfig on generated configurations (a minimal valid configuration with 0..4 sections replaced by "
         "boundary-valued variants: ports 0/1/65535/65536, timeouts -1/0, every strategy / level / format spelling incl. wrong case, pool and "
         "health-check relations at and around equality, breaker max_requests vs success_threshold, backends without name / address / with "
         "negative weight, plugin chains with valid and invalid options) written as YAML (numbers as YAML integers); the shipped helios.yaml, "
         "helios.docker.yaml and every YAML block of README.md and docs/*.md (fragments on a minimal base); the real binary started on a "
         "sample incl. all documented files and made to answer a plain and a gzip-accepting request; non-trivial = documented file, "
         "rejected configuration, plugin chain present or binary run; distinct = by case hash",
    level_text="Theorem: Validate c = true <-> Spec c for every configuration value, where Validate and the record tree are REGENERATED from "
               "config.go by go2coq on every run (so an edited comparison, enum or early return re-opens the proof) and Spec is the hand-written "
               "statement of the documented constraints; the executable oracle spec_b is proved equal to both. Numeric plugin options are "
               "accepted as int and float alike (factory model). Tie: the same configurations through the real Validate / LoadConfig / "
               "BuildChain and the real binary's start-up.",
    level_note="Trusted: Coq kernel, go2coq's statement/expression subset for config.go (its output is also compared with the real Validate on "
               "every generated configuration), harness, yaml.v3 decoding, Model/Chain.v factory rules (tied by the chain suite).",
    trusted_base=["go2coq config translator (Gen/ConfigGen.v)", "Model/ConfigSpec.v (hand-written specification of the documented constraints)"],
    assumptions=["time.Duration overflow for absurd second counts out of scope", "TLS files' existence is checked at start-up, not by Validate"],
)

PROPS["C20"] = dict(
    props_file="Props/C20.v", gen=["Wrappers"],
    suites=[dict(suite="wspool", corr=["diff_out", "diff_closed"], monitors=["mon_exclusive", "mon_fresh", "mon_max_idle", "mon_shutdown"],
                 classifiers={}, nontrivial="nt_c20"),
            dict(suite="tunnel", corr=["diff"], monitors=["mon_tunnel_relay", "mon_tunnel_close"], classifiers={}, nontrivial="nt_c20")],
    rule="wspool: the real WebSocketPool under virtual time with fake net.Conns: max_idle 0..3, idle_timeout 0 / 1 ns / 1..300 s, 1-2 backends, "
         "histories of Put (new or held connection) / Get / Close / Stats / Shutdown / time gaps on the timeout and on the 30 s clean-up "
         "ticker +-1 ns (the pool's own ticker runs the clean-up), and a Get or Put started from another goroutine WHILE the clean-up is "
         "closing a stale connection of that backend; compared: every return value, Stats, the set of closed connections. tunnel: an Upgrade "
         "session through the real binary with plugin chains of length 0..3 (pool enabled or not, backend_read 1 s): 0..8 binary messages of "
         "1..100000 bytes in both directions, optional 1.3 s of silence, close from either side; non-trivial = a Get that returns a "
         "connection after a time gap / a session with >= 2 messages; distinct = by case hash",
    level_text="Pool: theorems over every history of the model: never more than max_idle idle connections per backend; Get returns only a "
               "connection pooled for that backend at most idle_timeout ago; under the holder protocol no connection is pooled twice, handed "
               "to two holders or handed out closed (invariant over all histories); Shutdown closes everything held and empties the pool; the "
               "clean-up closes exactly the stale ones. Tunnel (PARTIAL): any stack of the response-writer wrappers in the source forwards "
               "Hijack (regenerated table); the byte relay is httputil's and is exercised, not proved.",
    level_note="Trusted: Coq kernel, harness (fake connections, synctest clock, close hook for the concurrent case), Model/WSPool.v. Mutual "
               "exclusion of the per-backend mutex is assumed; the only interleaving exercised inside an operation is Get/Put against a "
               "running clean-up of the same backend. The proxy path never calls Put (stated; the pool is exercised through its API).",
    trusted_base=["Model/WSPool.v (hand-written; tied by the wspool suite)", "go2coq Gen/Wrappers.v"],
    assumptions=["holders Put / Close only connections they hold or have just dialled", "virtual time non-decreasing"],
)

PROPS["C19"] = dict(
    props_file="Props/C19.v",
    suites=[dict(suite="probe", corr=["diff"], monitors=["mon_c19_stop_returns", "mon_c19_no_probe_after"], classifiers={}, nontrivial="nt_c19"),
            dict(suite="sigterm", corr=[], monitors=["mon_c19_drains", "mon_c19_exits_in_time"], classifiers={}, nontrivial="nt_c19"),
            # the pool half of Stop: everything pooled is closed whatever Close answers, also when the clean-up is running
            dict(suite="wspool", corr=["diff_out", "diff_closed"], monitors=["mon_shutdown"], classifiers={}, nontrivial="nt_c20")],
    rule="probe: the real balancer with active checks under virtual time; Stop placed before the first tick, while probes get no answer, "
         "between ticks, after ticks, twice in a row and from three goroutines at once; Stop must return without time passing, the probes "
         "in flight are the ones cancelled, and no probe is sent during three further intervals. sigterm: the real binary receives "
         "SIGTERM / SIGINT (once or repeatedly) while a request waits for the backend's header or is half way through its body, with and "
         "without active checks against a health endpoint that never answers: the request must complete with its whole body and the process "
         "must exit 0 within the configured shutdown timeout; non-trivial = Stop with a probe in flight or repeated, or a request / hanging "
         "probe in flight at the signal; distinct = by case hash",
    level_text="PARTIAL. Theorems over the protocol model: Stop leaves no probe in flight and marks the balancer stopped; over every later "
               "history no tick probes anything (invariant Quiet); a second Stop changes nothing; the pool's Shutdown closes everything it "
               "holds. That Stop returns, that in-flight requests are drained and that the process exits in time are runtime behaviour "
               "(http.Server.Shutdown, context cancellation, WaitGroup): decided on every run by the two suites, not proved.",
    level_note="Trusted: Coq kernel, harness (scripted http.DefaultTransport for probes, synctest clock; process control and signals for the "
               "binary), Model/Shutdown.v.",
    trusted_base=["Model/Shutdown.v (hand-written; tied by the probe suite)"],
    assumptions=["probe results are the four scripted classes", "loopback sockets, real time for the sigterm suite (slack 500 ms)"],
)

PROPS["C12"] = dict(
    props_file="Props/C12.v", gen=["Access"],
    suites=[dict(suite="race", corr=[], monitors=["mon_c12_no_race", "mon_c12_no_panic", "mon_c12_no_deadlock"], classifiers={}, nontrivial="nt_c12"),
            # panics and deadlocks that need one particular interleaving: the schedule-replay scenarios (all of them)
            dict(suite="sched", corr=["diff_obs", "diff_trace"], monitors=["mon_sched_prop", "mon_sched_finished"], classifiers={}, nontrivial="nt_sched")],
    rule="race suite: the real balancer built with the race detector; 8 / 16 / 32 / 64 goroutines run a mix of client traffic (ok / 5xx / "
         "unreachable / aborted mid-body), admin API calls (list, add, remove, strategy switch over HTTP), metrics and health reads, "
         "ListBackends, ejections and lazy expiries, with active / passive checks, breaker, limiter and websocket pool switched on and off, "
         "for every strategy; Stop arrives twice while everything runs; a DATA RACE report, a panic or a watchdog time-out fails the case "
         "(the replay names the racing functions). Table: every field access and lock acquisition of loadbalancer, metrics, "
         "circuitbreaker and ratelimiter; non-trivial = >= 8 goroutines; distinct = by case hash",
    level_text="PARTIAL. Theorems: lock discipline (every pair of conflicting access sites shares a lock one side holds in write mode) implies "
               "that no interleaving of any number of threads reaches a state with two conflicting accesses pending (proved once, generic); the "
               "access table REGENERATED from the current source is disciplined and its acquired-while-holding relation is acyclic (decided by "
               "computation on the finite generated table), hence no data race between table sites and no lock cycle. The lockset computation "
               "of the translator is a static approximation and the Go memory model is assumed; channel / WaitGroup ordering is not modelled. "
               "Implementation side: the race detector's happens-before analysis on a concurrent soak.",
    level_note="Trusted: Coq kernel, go2coq/access (go/packages + go/types; branch join by intersection, entry locksets from call sites, interface "
               "and callback resolution, ownership table of goroutine-local objects: sync.Pool / GetMetrics copies, per-request responseWriter), "
               "the Go race detector, harness.",
    trusted_base=["go2coq/access translator (Gen/Access.v) incl. its ownership table", "Go race detector (ThreadSanitizer runtime)"],
    assumptions=["sync.Mutex / RWMutex give mutual exclusion, sync/atomic operations are atomic (Go memory model)",
                 "constructors (New*, create*, setup*) run before the object is shared"],
)

# properties not claimed, each with a one-line reason (kept current as checks are added)
_ALL = ["C%02d" % i for i in range(1, 21)]
NOT_APPLICABLE = [dict(property_id=p, reason="check not built yet in this session (claimed in DESIGN.md; machinery in progress)")
                  for p in _ALL if p not in PROPS]
