import sys,os,json,collections
sys.path.insert(0,'/verif'); argv0=sys.argv[:]; sys.argv=['check']
import importlib.util, importlib.machinery
loader=importlib.machinery.SourceFileLoader('chk','/verif/check'); spec=importlib.util.spec_from_loader('chk',loader); chk=importlib.util.module_from_spec(spec); loader.exec_module(chk)
suite=argv0[1] if len(argv0)>1 else os.environ['SUITE']
with chk.Lock():
    print(chk.prepare(need_race=True, need_sched=True))
    r=chk.run_suite(suite,'quick',1)
print('error',(r.get('error') or '')[:3000]); cols=chk.SUITES[suite]['cols']
cnt=collections.Counter()
first={}
for c in r['cases']:
    v=c.get('vec')
    if v is None: cnt['novec']+=1; continue
    for i,col in enumerate(cols):
        bad = (v[i]!=-1) if col.startswith('diff') else (v[i]==0 if col.startswith('mon') else False)
        if bad:
            cnt[col]+=1; first.setdefault(col,c)
        if col.startswith('nt') or col.startswith('cls'):
            cnt['#'+col]+=v[i]
print(len(r['cases']),'cases', r.get('wall_impl_s'), r.get('wall_total_s')); 
for k,v in sorted(cnt.items()): print(k,v)
json.dump({k:{'coq':c['coq'],'vec':dict(zip(cols,c['vec'])),'idx':c['idx'],'kind':c['kind']} for k,c in first.items()},open('/tmp/first.json','w'),indent=1)
