import os, re, json, glob, sys
res = {}
for line in open(sys.argv[1]):
    m = re.match(r'(\S+) (\S+) => (.*)', line.strip())
    if m:
        res.setdefault(m.group(1), {})[m.group(2)] = m.group(3)
props = {json.loads(l)['id']: json.loads(l) for l in open('/verif/properties.jsonl')}
rows = []
for d in sorted(glob.glob('/verif/seeded/*/')):
    name = os.path.basename(d.rstrip('/'))
    pid = name.split('-')[0]
    notes = open(os.path.join(d, 'notes.md')).read() if os.path.exists(os.path.join(d, 'notes.md')) else ''
    title = (notes.splitlines() or [''])[0].lstrip('# ').strip()
    # "what is needed" paragraph
    m = re.search(r'(?is)(what (?:it |is )?need(?:s|ed)[^\n]*\n)(.*?)(\n#|\Z)', notes)
    needs = (m.group(2).strip() if m else '')[:1500]
    m2 = re.search(r'(?is)(part of the property[^\n]*\n|which clause[^\n]*\n|clause[^\n]*broken[^\n]*\n)(.*?)(\n#|\Z)', notes)
    clause = (m2.group(2).strip() if m2 else '')[:1000]
    dest = open(os.path.join(d, 'demo_dest.txt')).read().strip() if os.path.exists(os.path.join(d, 'demo_dest.txt')) else ''
    demo = [os.path.basename(f) for f in glob.glob(os.path.join(d, '*_test.go'))]
    det = res.get(name, {})
    meta = {
        "seed": name, "property": pid, "property_title": props[pid]['title'], "summary": title,
        "breaks": clause, "needs_to_manifest": needs,
        "patch": "patch.diff", "demonstration": demo, "demonstration_destination": dest,
        "confirmed": {
            "procedure": "scratch git worktree of /repo at HEAD (outside /repo and /verif): git apply patch.diff; go build ./...; go test -count=1 ./... (whole existing suite passes); copy the demonstration to its destination; go test -race -run 'Demo|Seed' <package> fails with the change and passes without it (lib/seed_confirm.sh)",
            "result": "confirmed",
        },
        "checks_run": {p: ("detected: " + r if r.startswith("VIOLATION") else "missed") for p, r in det.items()},
    }
    json.dump(meta, open(os.path.join(d, 'meta.json'), 'w'), indent=1)
    rows.append((name, pid, title, det))
# table for DESIGN.md
out = ["| seed | what the change is | check that catches it | how |", "|------|--------------------|-----------------------|-----|"]
for name, pid, title, det in rows:
    hows = []
    for p, r in det.items():
        if r.startswith("VIOLATION"):
            rp = re.search(r'replay=(\S+)', r).group(1)
            how = "no-failing-input-found" if "no-failing-input-found" in r else "replay"
            try:
                j = json.load(open(rp))
                mons = j.get('monitors_failed') or []
                if mons:
                    how = (j.get('suite') or '') + ": " + ", ".join(m[:60] for m in mons[:3])
                elif j.get('theorem_or_correspondence_broken'):
                    how = "broken tie: " + j['theorem_or_correspondence_broken'][0][:70].replace('\n', ' ')
            except Exception:
                pass
            hows.append((p, how))
    caught = ", ".join(p for p, _ in hows) or "**missed**"
    out.append("| %s | %s | %s | %s |" % (name, title[:110].replace('|', '/'), caught, "; ".join(h for _, h in hows)[:160].replace('|', '/')))
open('/tmp/seedtable.md', 'w').write("\n".join(out) + "\n")
print(len(rows), "seeds")
