#!/bin/bash
# usage: seed_run_all.sh <out file> [seed names...]: every seed (or the named ones) against its own property's quick check
out=$1; shift
cd /verif
seeds="$@"
[ -z "$seeds" ] && seeds=$(ls seeded | grep -E '^C[0-9]+-[0-9]+$')
: > $out
for s in $seeds; do
  p=${s%%-*}
  git -C /repo apply --check /verif/seeded/$s/patch.diff 2>/dev/null || { echo "$s $p => DOES-NOT-APPLY" >> $out; continue; }
  timeout 1800 /verif/lib/seed_run.sh $s $p 2>&1 | grep "=>" >> $out
  git -C /repo checkout -q -- . 2>/dev/null
done
git -C /repo status --short >> $out
echo DONE >> $out
