package verifharness

import (
	"bufio"
	"encoding/json"
	"fmt"
	"io"
	"net"
	"net/http"
	"net/http/httptest"
	"strings"
	"testing"
	"time"
)

// ---- stall suite (C03, process level): a client that stops talking in the middle of a request.  The real binary with a
// small server read time-out; the exchange must end (error response or closed connection) within that time-out and a
// request to the healthy backend must succeed afterwards. ----

type StCase struct {
	Kind   string `json:"kind"`   // body: head and part of the declared body, then silence | head: part of the header block, then silence
	ReadTO int    `json:"readto"` // server.timeouts.read, seconds
	Write  int    `json:"write"`  // server.timeouts.write, seconds
}

func runStCase(c StCase, tag string) (string, map[string]int) {
	stats := map[string]int{"kind_" + c.Kind: 1}
	be := httptest.NewServer(http.HandlerFunc(func(w http.ResponseWriter, r *http.Request) {
		io.Copy(io.Discard, r.Body) // a backend that wants the whole upload
		w.WriteHeader(200)
		w.Write([]byte("ok"))
	}))
	defer be.Close()
	cfg := wiConfig(WiCfg{Strategy: "round_robin"}, freePort(), []string{be.URL})
	cfg.Server.Timeouts.Read, cfg.Server.Timeouts.Write = c.ReadTO, c.Write
	hp, err := startHelios(cfg, "st."+tag)
	if err != nil {
		panic(err)
	}
	defer hp.stop()
	addr := fmt.Sprintf("127.0.0.1:%d", hp.port)
	conn, err := net.DialTimeout("tcp", addr, 2*time.Second)
	if err != nil {
		panic(err)
	}
	defer conn.Close()
	switch c.Kind {
	case "body":
		conn.Write([]byte("POST /upload HTTP/1.1\r\nHost: st.local\r\nContent-Length: 100\r\nContent-Type: application/octet-stream\r\n\r\n0123456789"))
	default:
		conn.Write([]byte("GET /slow HTTP/1.1\r\nHost: st.local\r\nX-Part"))
	}
	t0 := time.Now()
	limit := time.Duration(c.ReadTO)*time.Second + 2500*time.Millisecond
	conn.SetReadDeadline(t0.Add(limit))
	br := bufio.NewReader(conn)
	ended := false
	status := 0
	line, rerr := br.ReadString('\n')
	if rerr == nil {
		fmt.Sscanf(line, "HTTP/1.1 %d", &status)
		ended = true
	} else if ne, ok := rerr.(net.Error); !(ok && ne.Timeout()) {
		ended = true // closed by the server
	}
	elapsed := time.Since(t0).Milliseconds()
	stats[fmt.Sprintf("status_%d", status)]++
	// afterwards a request to the healthy backend succeeds normally
	follow := false
	r2 := rawExchange(addr, buildRequest("GET", "/after", "st.local", nil, nil, ""), "GET", 3*time.Second)
	if r2.Status == 200 && strings.TrimSpace(string(r2.Body)) == "ok" {
		follow = true
	}
	kind := map[string]int{"body": 0, "head": 1}[c.Kind]
	return fmt.Sprintf("mkStCase %d %d %s %s %s", kind, c.ReadTO*1000, ZI(int(elapsed)), B(ended), B(follow)), stats
}

func TestStall(t *testing.T) {
	cw := NewCaseWriter("stall")
	cases := []StCase{{Kind: "body", ReadTO: 1, Write: 30}, {Kind: "head", ReadTO: 1, Write: 30}, {Kind: "body", ReadTO: 1, Write: 0}}
	if Tier() == "thorough" {
		cases = append(cases, StCase{Kind: "body", ReadTO: 2, Write: 1}, StCase{Kind: "head", ReadTO: 2, Write: 0}, StCase{Kind: "body", ReadTO: 3, Write: 30})
	}
	if rp := ReplayCases(); rp != nil {
		cases = nil
		for _, raw := range rp {
			var c StCase
			json.Unmarshal(raw, &c)
			cases = append(cases, c)
		}
	}
	for i, c := range cases {
		if Mine(i) {
			pre, _ := json.Marshal(c)
			cw.Begin(i, "process", pre)
			coq, stats := runStCase(c, fmt.Sprint(i))
			cw.Put(Case{Idx: i, Kind: "process", Coq: coq, Repl: pre, Stats: stats})
		}
	}
	cw.Close()
}
