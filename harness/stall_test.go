package verifharness

import (
	"bufio"
	"encoding/json"
	"fmt"
	"io"
	"net"
	"net/http"
	"net/http/httptest"
	"strings"
	"testing"
	"time"
)

// ---- stall suite (C03, process level): a client that stops talking in the middle of a request.  The real binary with a
// small server read time-out; the exchange must end (error response or closed connection) within that time-out and a
// request to the healthy backend must succeed afterwards. ----

type StCase struct {
	Kind   string `json:"kind"`   // body: head and part of the declared body, then silence | head: part of the header block, then silence
	ReadTO int    `json:"readto"` // server.timeouts.read, seconds
	Write  int    `json:"write"`  // server.timeouts.write, seconds
}

// readd: a backend name is removed and added again at ANOTHER address through the admin API of the real binary: traffic
// for the name must reach the new address (and only it)
func runReadd(tag string, strat int) (string, map[string]int) {
	stats := map[string]int{"kind_readd": 1}
	mk := func(who string) *httptest.Server {
		return httptest.NewServer(http.HandlerFunc(func(w http.ResponseWriter, r *http.Request) { w.Write([]byte(who + ":" + r.URL.Path)) }))
	}
	oldS, newS := mk("old"), mk("new")
	defer oldS.Close()
	defer newS.Close()
	cfg := wiConfig(WiCfg{Strategy: []string{"round_robin", "least_connections", "weighted_round_robin", "ip_hash", "ip_hash_consistent"}[strat%5]}, freePort(), []string{oldS.URL})
	cfg.AdminAPI.Enabled, cfg.AdminAPI.Port = true, freePort()
	hp, err := startHelios(cfg, "st."+tag)
	if err != nil {
		panic(err)
	}
	defer hp.stop()
	front := fmt.Sprintf("127.0.0.1:%d", hp.port)
	admin := fmt.Sprintf("http://127.0.0.1:%d", cfg.AdminAPI.Port)
	who := func() string {
		r := rawExchange(front, buildRequest("GET", "/who", "st.local", nil, nil, ""), "GET", 3*time.Second)
		return strings.TrimSpace(string(r.Body))
	}
	post := func(path, body string) int {
		resp, err := http.Post(admin+path, "application/json", strings.NewReader(body))
		if err != nil {
			return -1
		}
		resp.Body.Close()
		return resp.StatusCode
	}
	before := who()
	rm := post("/v1/backends/remove", `{"name":"b0"}`)
	add := post("/v1/backends/add", fmt.Sprintf(`{"name":"b0","address":%q,"weight":1}`, newS.URL))
	a1, a2 := who(), who()
	stats["before_"+before]++
	stats["after_"+a1]++
	adminOK := before == "old:/who" && rm == 200 && (add == 200 || add == 201)
	servedNew := a1 == "new:/who" && a2 == "new:/who"
	// the same name once more, now on the SAME server under a base path, and a second backend of that server under another one:
	// every backend is reached under its own address
	rm2 := post("/v1/backends/remove", `{"name":"b0"}`)
	add2 := post("/v1/backends/add", fmt.Sprintf(`{"name":"b0","address":%q,"weight":1}`, newS.URL+"/green"))
	add3 := post("/v1/backends/add", fmt.Sprintf(`{"name":"b1","address":%q,"weight":1}`, newS.URL+"/v2"))
	seen := map[string]int{}
	for i := 0; i < 12; i++ {
		// a client address of its own per request, so that the hash strategies spread
		r := rawExchange(front, buildRequest("GET", "/who", "st.local", [][2]string{{"X-Forwarded-For", fmt.Sprintf("10.3.%d.%d", i, 7*i+1)}}, nil, ""), "GET", 3*time.Second)
		seen[strings.TrimSpace(string(r.Body))]++
	}
	adminOK = adminOK && rm2 == 200 && (add2 == 200 || add2 == 201) && (add3 == 200 || add3 == 201)
	stats[fmt.Sprintf("codes_%d_%d_%d", rm2, add2, add3)]++
	for k := range seen {
		if k != "new:/green/who" && k != "new:/v2/who" {
			servedNew = false
			stats["after2_"+k]++
		}
	}
	if seen["new:/green/who"] == 0 || seen["new:/v2/who"] == 0 {
		stats["after2_one_sided"]++
		if strat%5 == 0 || strat%5 == 2 { // the two rotating strategies must reach both
			servedNew = false
		}
	}
	return fmt.Sprintf("mkStCase 2 0 0 %s %s", B(servedNew), B(adminOK)), stats
}

func runStCase(c StCase, tag string) (string, map[string]int) {
	if c.Kind == "readd" {
		return runReadd(tag, c.Write) // for this kind the field carries the strategy
	}
	stats := map[string]int{"kind_" + c.Kind: 1}
	be := httptest.NewServer(http.HandlerFunc(func(w http.ResponseWriter, r *http.Request) {
		io.Copy(io.Discard, r.Body) // a backend that wants the whole upload
		w.WriteHeader(200)
		w.Write([]byte("ok"))
	}))
	defer be.Close()
	cfg := wiConfig(WiCfg{Strategy: "round_robin"}, freePort(), []string{be.URL})
	cfg.Server.Timeouts.Read, cfg.Server.Timeouts.Write = c.ReadTO, c.Write
	hp, err := startHelios(cfg, "st."+tag)
	if err != nil {
		panic(err)
	}
	defer hp.stop()
	addr := fmt.Sprintf("127.0.0.1:%d", hp.port)
	conn, err := net.DialTimeout("tcp", addr, 2*time.Second)
	if err != nil {
		panic(err)
	}
	defer conn.Close()
	switch c.Kind {
	case "body":
		conn.Write([]byte("POST /upload HTTP/1.1\r\nHost: st.local\r\nContent-Length: 100\r\nContent-Type: application/octet-stream\r\n\r\n0123456789"))
	default:
		conn.Write([]byte("GET /slow HTTP/1.1\r\nHost: st.local\r\nX-Part"))
	}
	t0 := time.Now()
	limit := time.Duration(c.ReadTO)*time.Second + 2500*time.Millisecond
	conn.SetReadDeadline(t0.Add(limit))
	br := bufio.NewReader(conn)
	ended := false
	status := 0
	line, rerr := br.ReadString('\n')
	if rerr == nil {
		fmt.Sscanf(line, "HTTP/1.1 %d", &status)
		ended = true
	} else if ne, ok := rerr.(net.Error); !(ok && ne.Timeout()) {
		ended = true // closed by the server
	}
	elapsed := time.Since(t0).Milliseconds()
	stats[fmt.Sprintf("status_%d", status)]++
	// afterwards a request to the healthy backend succeeds normally
	follow := false
	r2 := rawExchange(addr, buildRequest("GET", "/after", "st.local", nil, nil, ""), "GET", 3*time.Second)
	if r2.Status == 200 && strings.TrimSpace(string(r2.Body)) == "ok" {
		follow = true
	}
	kind := map[string]int{"body": 0, "head": 1}[c.Kind]
	return fmt.Sprintf("mkStCase %d %d %s %s %s", kind, c.ReadTO*1000, ZI(int(elapsed)), B(ended), B(follow)), stats
}

func TestStall(t *testing.T) {
	cw := NewCaseWriter("stall")
	cases := []StCase{{Kind: "body", ReadTO: 1, Write: 30}, {Kind: "head", ReadTO: 1, Write: 30}, {Kind: "body", ReadTO: 1, Write: 0}, {Kind: "readd", Write: 1}, {Kind: "readd", Write: 0}, {Kind: "readd", Write: 3}}
	if Tier() == "thorough" {
		cases = append(cases, StCase{Kind: "body", ReadTO: 2, Write: 1}, StCase{Kind: "head", ReadTO: 2, Write: 0}, StCase{Kind: "body", ReadTO: 3, Write: 30})
	}
	if rp := ReplayCases(); rp != nil {
		cases = nil
		for _, raw := range rp {
			var c StCase
			json.Unmarshal(raw, &c)
			cases = append(cases, c)
		}
	}
	for i, c := range cases {
		if Mine(i) {
			pre, _ := json.Marshal(c)
			cw.Begin(i, "process", pre)
			coq, stats := runStCase(c, fmt.Sprint(i))
			cw.Put(Case{Idx: i, Kind: "process", Coq: coq, Repl: pre, Stats: stats})
		}
	}
	cw.Close()
}
