package verifharness

import (
	"context"
	"errors"
	"fmt"
	"io"
	"net/http"
	"net/http/httptest"
	"net/http/httptrace"
	"net/textproto"
	neturl "net/url"
	"strings"
	"sync"

	"github.com/0xReLogic/Helios/internal/config"
	lbp "github.com/0xReLogic/Helios/internal/loadbalancer"
	"github.com/0xReLogic/Helios/internal/logging"
)

func init() {
	// silence Helios' own logging during harness runs
	logging.Init(config.LoggingConfig{Level: "fatal", Format: "json"})
}

// scriptedRT is an in-memory http.RoundTripper installed as a backend's transport: it reports
// which backend was hit and blocks until the harness releases the request with an outcome.
type rtOutcome struct {
	kind    string // status | err | abort
	status  int
	interim bool // a 103 Early Hints goes out before the final status
}

type rtCall struct {
	backend *lbp.Backend
	req     *http.Request
	release chan rtOutcome
}

type scriptedRT struct {
	backend *lbp.Backend
	calls   chan *rtCall
}

type failingBody struct{ sent bool }

func (f *failingBody) Read(p []byte) (int, error) {
	if !f.sent {
		f.sent = true
		n := copy(p, "partial")
		return n, nil
	}
	return 0, errors.New("backend connection reset mid-body")
}
func (f *failingBody) Close() error { return nil }

func (s *scriptedRT) RoundTrip(r *http.Request) (*http.Response, error) {
	c := &rtCall{backend: s.backend, req: r, release: make(chan rtOutcome, 1)}
	s.calls <- c
	var out rtOutcome
	select {
	case out = <-c.release:
	case <-r.Context().Done():
		return nil, r.Context().Err()
	}
	switch out.kind {
	case "err":
		return nil, errors.New("dial tcp: connection refused")
	case "abort":
		// headers arrive, then the body fails: ReverseProxy panics with http.ErrAbortHandler
		return &http.Response{StatusCode: 200, Status: "200 OK", Proto: "HTTP/1.1", ProtoMajor: 1, ProtoMinor: 1,
			Header: http.Header{"Content-Type": {"text/plain"}}, Body: &failingBody{}, ContentLength: -1, Request: r}, nil
	}
	if out.interim { // what net/http's transport does on a 1xx: it tells the caller through the client trace of the request
		if tr := httptrace.ContextClientTrace(r.Context()); tr != nil && tr.Got1xxResponse != nil {
			tr.Got1xxResponse(103, textproto.MIMEHeader{"Link": {"</s.css>; rel=preload"}})
		}
	}
	body := fmt.Sprintf("backend %s status %d", s.backend.Name, out.status)
	if out.status == 204 || out.status == 304 {
		body = ""
	}
	return &http.Response{StatusCode: out.status, Status: fmt.Sprintf("%d %s", out.status, http.StatusText(out.status)),
		Proto: "HTTP/1.1", ProtoMajor: 1, ProtoMinor: 1, Header: http.Header{"Content-Type": {"text/plain"}},
		Body: io.NopCloser(strings.NewReader(body)), ContentLength: int64(len(body)), Request: r}, nil
}

// installTransports puts a scriptedRT on every backend that does not have one yet
func installTransports(lb *lbp.LoadBalancer, calls chan *rtCall, seen map[*lbp.Backend]bool) {
	for _, b := range lb.VerifBackends() {
		if !seen[b] {
			seen[b] = true
			b.ReverseProxy.Transport = &scriptedRT{backend: b, calls: calls}
		}
	}
}

// serveResult is what the client of one request observes
type serveResult struct {
	status  int
	body    string
	aborted bool
}

// serveAsync runs handler.ServeHTTP in a goroutine the way net/http's server would (request context
// carries http.ServerContextKey so that httputil's abort path panics with ErrAbortHandler).
func serveAsync(h http.Handler, r *http.Request) chan serveResult {
	done := make(chan serveResult, 1)
	go func() {
		rec := &finalRecorder{ResponseRecorder: httptest.NewRecorder()}
		var res serveResult
		defer func() {
			if p := recover(); p != nil {
				res = serveResult{status: -1, aborted: true}
			}
			done <- res
		}()
		ctx := context.WithValue(r.Context(), http.ServerContextKey, &http.Server{})
		h.ServeHTTP(rec, r.WithContext(ctx))
		res = serveResult{status: rec.Code, body: rec.Body.String()}
	}()
	return done
}

// finalRecorder: a client sees interim (1xx) responses go by and takes the final status
type finalRecorder struct{ *httptest.ResponseRecorder }

func (f *finalRecorder) WriteHeader(code int) {
	if code >= 100 && code < 200 && code != 101 {
		return
	}
	f.ResponseRecorder.WriteHeader(code)
}
func (f *finalRecorder) Flush() { f.ResponseRecorder.Flush() }

var _ = sync.Mutex{}

// urlParseOK is the oracle for url.Parse (AddBackend fails exactly when the address does not parse)
func urlParseOK(addr string) (string, bool) {
	_, err := neturl.Parse(addr)
	return addr, err == nil
}
