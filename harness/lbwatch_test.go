package verifharness

import (
	"net/http"
	"testing"
	"time"

	"github.com/0xReLogic/Helios/internal/config"
	lbp "github.com/0xReLogic/Helios/internal/loadbalancer"
)

// TestWatchBreakerCallback: real time, no bubble.  A breaker state change must not wedge request
// processing (C03/C08/C12).  Returns through t.Fatal when a request does not return within 3 s.
func watchBreakerCallback() (hung bool, detail string) {
	cfg := &config.Config{Server: config.ServerConfig{Port: 8080},
		Backends:       []config.BackendConfig{{Name: "a", Address: "http://a.invalid:1"}},
		LoadBalancer:   config.LoadBalancerConfig{Strategy: "round_robin"},
		CircuitBreaker: config.CircuitBreakerConfig{Enabled: true, MaxRequests: 1, IntervalSeconds: 60, TimeoutSeconds: 60, FailureThreshold: 1, SuccessThreshold: 1},
	}
	lb, err := lbp.NewLoadBalancer(cfg)
	if err != nil {
		return false, "NewLoadBalancer: " + err.Error()
	}
	calls := make(chan *rtCall, 16)
	installTransports(lb, calls, map[*lbp.Backend]bool{})
	// request 1: aborted mid-body => breaker failure => state change CLOSED -> OPEN => callback
	r1, _ := http.NewRequest("GET", "http://lb.local/", nil)
	d1 := serveAsync(lb, r1)
	select {
	case c := <-calls:
		c.release <- rtOutcome{kind: "abort"}
	case <-time.After(3 * time.Second):
		return true, "request 1 never reached the backend"
	}
	select {
	case <-d1:
	case <-time.After(3 * time.Second):
		return true, "request 1 (aborted response, trips the breaker) never returned: state-change callback blocks"
	}
	// request 2 must be answered (503 breaker open) promptly
	r2, _ := http.NewRequest("GET", "http://lb.local/", nil)
	d2 := serveAsync(lb, r2)
	select {
	case res := <-d2:
		if res.status != 503 {
			return false, "request 2 unexpected status"
		}
	case <-time.After(3 * time.Second):
		return true, "request 2 after the trip never returned"
	}
	return false, ""
}

func TestWatchBreakerCallbackRaw(t *testing.T) {
	hung, detail := watchBreakerCallback()
	t.Logf("hung=%v %s", hung, detail)
	if hung {
		t.Fatal(detail)
	}
}
