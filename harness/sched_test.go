package verifharness

import (
	"bytes"
	"encoding/json"
	"fmt"
	"net/http/httptest"
	"runtime"
	"sort"
	"strconv"
	"sync"
	"sync/atomic"
	"testing"
	"time"

	"github.com/0xReLogic/Helios/internal/circuitbreaker"
	"github.com/0xReLogic/Helios/internal/config"
	lbp "github.com/0xReLogic/Helios/internal/loadbalancer"
)

// ---- sched suite: schedule replay on the real code.  The sched build substitutes yield-instrumented copies of
// loadbalancer.go, websocket_pool.go, circuitbreaker.go and ratelimiter.go (go2coq -instrument): every acquisition of a
// mutex is preceded by verifYield("<Func>:<Lock|RLock>").  The controller below parks each scenario thread at its yields
// and releases them in the order the schedule says. ----

type SdCase struct {
	Scenario int    `json:"scenario"` // 1 expiry vs ejection, 2 half-open trials, 3 strategy switch vs add / remove, 4 pick vs flips, 5 listing vs removals, 6 adds of one name
	Kinds    []int  `json:"kinds"`    // scenario 1: 0 checker 1 ejector; scenario 3: 0 set_strategy 1 add 2 remove
	N        int    `json:"n"`        // scenario 2: callers
	Max      int    `json:"max"`      // scenario 2: max_requests
	Schedule []int  `json:"schedule"`
	Init     []int  `json:"init,omitempty"`   // scenario 4: per backend 1 = healthy, 0 = ejected with an elapsed window
	Client   string `json:"client,omitempty"` // scenario 4: RemoteAddr host of the picking request
}

type schedCtl struct {
	mu         sync.Mutex
	gids       map[int64]int
	schedule   []int
	pos        int
	done       map[int]bool
	running    int         // the thread that was granted a step and has not reached its next yield (or its end) yet; -1 = none
	trace      [][2]string // thread, label
	freeRun    atomic.Bool
	infeasible atomic.Bool
}

var activeCtl atomic.Pointer[schedCtl]

func curGoid() int64 {
	var buf [64]byte
	n := runtime.Stack(buf[:], false)
	b := bytes.TrimPrefix(buf[:n], []byte("goroutine "))
	i := bytes.IndexByte(b, ' ')
	id, _ := strconv.ParseInt(string(b[:i]), 10, 64)
	return id
}

// schedYield is installed as the yield hook of every instrumented package
func schedYield(label string) {
	c := activeCtl.Load()
	if c == nil || c.freeRun.Load() {
		return
	}
	gid := curGoid()
	c.mu.Lock()
	t, ok := c.gids[gid]
	c.mu.Unlock()
	if !ok {
		return // not a scenario thread (tickers, callbacks on other goroutines)
	}
	start := time.Now()
	c.mu.Lock()
	if c.running == t {
		c.running = -1 // this thread's granted section is over: it is parked again
	}
	c.mu.Unlock()
	for !c.freeRun.Load() {
		c.mu.Lock()
		if c.running != -1 { // one section at a time: the previous grant is still executing
			c.mu.Unlock()
			if time.Since(start) > 400*time.Millisecond {
				c.infeasible.Store(true)
				c.freeRun.Store(true)
				return
			}
			time.Sleep(5 * time.Microsecond)
			continue
		}
		for c.pos < len(c.schedule) && c.done[c.schedule[c.pos]] {
			c.pos++ // entries of finished threads are skipped
		}
		if c.pos >= len(c.schedule) {
			c.mu.Unlock()
			c.freeRun.Store(true)
			return
		}
		if c.schedule[c.pos] == t {
			c.pos++
			c.running = t
			c.trace = append(c.trace, [2]string{strconv.Itoa(t), label})
			c.mu.Unlock()
			return
		}
		c.mu.Unlock()
		if time.Since(start) > 400*time.Millisecond {
			// the thread whose turn it is cannot reach a yield (it waits for a lock a parked thread holds): not a schedule of this code
			c.infeasible.Store(true)
			c.freeRun.Store(true)
			return
		}
		time.Sleep(5 * time.Microsecond)
	}
}

// runThreads starts the scenario threads, lets the controller drive them through the schedule and waits for all of them
func runThreads(schedule []int, threads []func()) (*schedCtl, bool) {
	c := &schedCtl{gids: map[int64]int{}, schedule: schedule, done: map[int]bool{}, running: -1}
	activeCtl.Store(c)
	defer activeCtl.Store(nil)
	var wg sync.WaitGroup
	ready := make(chan struct{})
	for i, f := range threads {
		wg.Add(1)
		go func(i int, f func()) {
			defer wg.Done()
			c.mu.Lock()
			c.gids[curGoid()] = i
			c.mu.Unlock()
			<-ready
			defer func() {
				c.mu.Lock()
				c.done[i] = true
				if c.running == i {
					c.running = -1
				}
				c.mu.Unlock()
			}()
			f()
		}(i, f)
	}
	time.Sleep(200 * time.Microsecond)
	close(ready)
	fin := make(chan struct{})
	go func() { wg.Wait(); close(fin) }()
	select {
	case <-fin:
		return c, true
	case <-time.After(5 * time.Second):
		c.freeRun.Store(true)
		select {
		case <-fin:
		case <-time.After(3 * time.Second):
		}
		return c, false
	}
}

var sdLabels = map[string]int{
	"IsBackendHealthy:RLock": 1, "IsBackendHealthy:Lock": 2, "MarkBackendUnhealthy:Lock": 3,
	"beforeRequest:RLock": 4, "beforeRequest:Lock": 5, "Execute:Lock": 6, "afterRequest:Lock": 7,
	"SetStrategy:Lock": 8, "AddBackend:Lock": 9, "RemoveBackend:Lock": 10, "Put:Lock": 11, "Shutdown:Lock": 12,
	"SetStrategy:RLock": 13, "NextBackend:RLock": 14, "markedHealthy:RLock": 15, "ListBackends:RLock": 16,
	"AddBackend:RLock": 17, "findHealthyBackend:RLock": 18,
}

func installSchedHooks() {
	lbp.VerifYieldHook = schedYield
	circuitbreaker.VerifYieldHook = schedYield
}

func sdLB(n int) *lbp.LoadBalancer { return sdLBStrategy(n, "round_robin") }

func sdLBStrategy(n int, strategy string) *lbp.LoadBalancer {
	cfg := &config.Config{Server: config.ServerConfig{Port: 8080}, LoadBalancer: config.LoadBalancerConfig{Strategy: strategy}}
	for i := 1; i <= n; i++ {
		cfg.Backends = append(cfg.Backends, config.BackendConfig{Name: fmt.Sprintf("n%d", i), Address: fmt.Sprintf("http://sd%d.probe", i)})
	}
	lb, err := lbp.NewLoadBalancer(cfg)
	if err != nil {
		panic(err)
	}
	return lb
}

func runSdCase(c SdCase) (string, map[string]int) {
	stats := map[string]int{fmt.Sprintf("scenario_%d", c.Scenario): 1}
	var obs []int
	var ctl *schedCtl
	finished := true
	switch c.Scenario {
	case 1:
		lb := sdLB(1)
		b := lb.VerifBackends()[0]
		lb.MarkBackendUnhealthy(b, time.Millisecond)
		time.Sleep(3 * time.Millisecond) // ejected, window elapsed, nobody has flipped the flag yet
		rets := make([]int, len(c.Kinds))
		var threads []func()
		for i, k := range c.Kinds {
			i, k := i, k
			rets[i] = -1
			if k == 0 {
				threads = append(threads, func() { rets[i] = b2i(lb.IsBackendHealthy(b)) })
			} else {
				threads = append(threads, func() { lb.MarkBackendUnhealthy(b, time.Hour); rets[i] = 0 })
			}
		}
		ctl, finished = runThreads(c.Schedule, threads)
		b.Mutex.RLock()
		flag, fresh := b.IsHealthy, time.Now().Before(b.UnhealthyUntil)
		b.Mutex.RUnlock()
		obs = append([]int{b2i(flag), b2i(fresh)}, rets...)
	case 2:
		cb := circuitbreaker.NewCircuitBreaker(circuitbreaker.Settings{Name: "sd", MaxRequests: uint32(c.Max), Interval: time.Minute, Timeout: time.Millisecond,
			FailureThreshold: 1, SuccessThreshold: uint32(c.Max + 50),
			OnStateChange: func(string, circuitbreaker.State, circuitbreaker.State) {}})
		cb.Execute(func() error { return fmt.Errorf("trip") })
		time.Sleep(3 * time.Millisecond) // open, timeout elapsed
		codes := make([]int, c.N)
		var threads []func()
		for i := 0; i < c.N; i++ {
			i := i
			codes[i] = -1
			threads = append(threads, func() {
				err := cb.Execute(func() error { return nil })
				switch err {
				case nil:
					codes[i] = 0
				case circuitbreaker.ErrCircuitBreakerOpen:
					codes[i] = 1
				case circuitbreaker.ErrTooManyRequests:
					codes[i] = 2
				default:
					codes[i] = 3
				}
			})
		}
		ctl, finished = runThreads(c.Schedule, threads)
		obs = append([]int{int(cb.State())}, codes...)
	case 4:
		// a pick (LoadBalancer.NextBackend) against ejections (MarkBackendUnhealthy) and lazy re-admissions (IsBackendHealthy)
		lb := sdLBStrategy(len(c.Init), strategyNames[c.N])
		bs := lb.VerifBackends()
		for j, h := range c.Init {
			if h == 0 {
				lb.MarkBackendUnhealthy(bs[j], time.Millisecond)
			}
		}
		time.Sleep(3 * time.Millisecond)
		rets := make([]int, len(c.Kinds))
		var threads []func()
		for i, k := range c.Kinds {
			i, k := i, k
			rets[i] = -1
			switch {
			case k == 0:
				threads = append(threads, func() {
					defer func() {
						if p := recover(); p != nil {
							rets[i] = -2 // the selection panicked
						}
					}()
					req := httptest.NewRequest("GET", "http://lb.local/x", nil)
					req.RemoteAddr = c.Client + ":4000"
					b := lb.NextBackend(req)
					rets[i] = 0
					for j, x := range bs {
						if x == b {
							rets[i] = j + 1
						}
					}
				})
			case k < 20:
				threads = append(threads, func() { lb.MarkBackendUnhealthy(bs[k-11], time.Hour); rets[i] = 0 })
			default:
				threads = append(threads, func() { rets[i] = b2i(lb.IsBackendHealthy(bs[k-21])) })
			}
		}
		ctl, finished = runThreads(c.Schedule, threads)
		for _, b := range bs {
			b.Mutex.RLock()
			obs = append(obs, b2i(b.IsHealthy))
			b.Mutex.RUnlock()
		}
		obs = append(obs, rets...)
		lb.Stop()
	case 5:
		// a listing (ListBackends) against removals of some of the listed backends
		lb := sdLBStrategy(c.Max, strategyNames[c.N])
		listings := make([][]int, len(c.Kinds))
		var threads []func()
		for i, k := range c.Kinds {
			i, k := i, k
			if k == 30 {
				threads = append(threads, func() {
					for _, bi := range lb.ListBackends() {
						var id int
						fmt.Sscanf(bi.Name, "n%d", &id)
						listings[i] = append(listings[i], id)
					}
				})
			} else {
				threads = append(threads, func() { lb.RemoveBackend(fmt.Sprintf("n%d", k-40)) })
			}
		}
		ctl, finished = runThreads(c.Schedule, threads)
		for i, k := range c.Kinds {
			if k == 30 {
				obs = append(obs, listings[i]...)
				obs = append(obs, -1)
			}
		}
		for _, bi := range lb.ListBackends() {
			var id int
			fmt.Sscanf(bi.Name, "n%d", &id)
			obs = append(obs, id)
		}
		lb.Stop()
	case 7:
		// a request choosing its backend while the pool is changed under it
		lb := sdLBStrategy(3, "round_robin")
		bs := lb.VerifBackends()
		var picks []*int
		var threads []func()
		for _, k := range c.Kinds {
			switch k {
			case 50:
				ret := new(int)
				picks = append(picks, ret)
				threads = append(threads, func() {
					req := httptest.NewRequest("GET", "http://lb.local/x", nil)
					req.RemoteAddr = "10.0.0.1:4000"
					b := lb.VerifFindHealthyBackend(req)
					*ret = 0
					if b != nil {
						fmt.Sscanf(b.Name, "n%d", ret)
					}
				})
			case 51:
				threads = append(threads, func() {
					lb.AddBackend(config.BackendConfig{Name: "n7", Address: "http://sd7.probe", Weight: 1})
				})
			default:
				threads = append(threads, func() { lb.RemoveBackend("n1") })
			}
		}
		_ = bs
		ctl, finished = runThreads(c.Schedule, threads)
		listed := map[int]bool{}
		if finished {
			for _, bi := range lb.ListBackends() {
				var id int
				fmt.Sscanf(bi.Name, "n%d", &id)
				listed[id] = true
			}
		}
		for _, id := range []int{1, 2, 3, 7} {
			obs = append(obs, b2i(listed[id]))
		}
		for _, p := range picks {
			obs = append(obs, *p)
		}
		if finished {
			lb.Stop()
		}
	case 6:
		// several AddBackend calls with one name: exactly one may be answered "added"
		lb := sdLB(2)
		rets := make([]int, c.N)
		var threads []func()
		for i := 0; i < c.N; i++ {
			i := i
			threads = append(threads, func() {
				if err := lb.AddBackend(config.BackendConfig{Name: "n7", Address: fmt.Sprintf("http://sd%d.probe", i), Weight: 1}); err == nil {
					rets[i] = 1
				} else {
					rets[i] = 2
				}
			})
		}
		ctl, finished = runThreads(c.Schedule, threads)
		cnt := 0
		for _, bi := range lb.ListBackends() {
			if bi.Name == "n7" {
				cnt++
			}
		}
		obs = append([]int{cnt}, rets...)
		lb.Stop()
	case 3:
		lb := sdLB(2)
		var threads []func()
		for i, k := range c.Kinds {
			name := fmt.Sprintf("n%d", 10+i)
			switch k {
			case 0:
				threads = append(threads, func() { lb.SetStrategy("least_connections") })
			case 1:
				threads = append(threads, func() { lb.AddBackend(config.BackendConfig{Name: name, Address: "http://sdx.probe"}) })
			default:
				threads = append(threads, func() { lb.RemoveBackend("n1") })
			}
		}
		ctl, finished = runThreads(c.Schedule, threads)
		for _, bi := range lb.ListBackends() {
			var id int
			fmt.Sscanf(bi.Name, "n%d", &id)
			obs = append(obs, id)
		}
		sort.Ints(obs)
		lb.Stop()
	}
	var trace []string
	for _, tl := range ctl.trace {
		code, ok := sdLabels[tl[1]]
		if !ok {
			code = 99
		}
		trace = append(trace, fmt.Sprintf("(%s, %d)", tl[0], code))
	}
	if ctl.infeasible.Load() {
		stats["infeasible"]++
	}
	if !finished {
		stats["hung"]++
	}
	return fmt.Sprintf("mkSdCase %d %s %d %d %s %s %s %s %s %s %s", c.Scenario, IList(c.Kinds), c.N, c.Max, IList(c.Schedule), IList(obs), List(trace), B(ctl.infeasible.Load()), B(finished), IList(c.Init), Bytes(c.Client)), stats
}

// interleavings: every sequence in which thread t occurs counts[t] times (capped; sampled beyond the cap)
func interleavings(counts []int, limit int, g *Rng) [][]int {
	total := 0
	for _, c := range counts {
		total += c
	}
	var out [][]int
	var rec func(cur []int, left []int)
	rec = func(cur []int, left []int) {
		if len(out) >= limit {
			return
		}
		if len(cur) == total {
			out = append(out, append([]int(nil), cur...))
			return
		}
		for t := range left {
			if left[t] > 0 {
				left[t]--
				rec(append(cur, t), left)
				left[t]++
			}
		}
	}
	rec(nil, append([]int(nil), counts...))
	if len(out) >= limit { // too many: add random ones
		for k := 0; k < limit; k++ {
			left := append([]int(nil), counts...)
			var s []int
			for len(s) < total {
				t := g.Intn(len(left))
				if left[t] > 0 {
					left[t]--
					s = append(s, t)
				}
			}
			out = append(out, s)
		}
	}
	return out
}

func TestSched(t *testing.T) {
	installSchedHooks()
	cw := NewCaseWriter("sched")
	idx := 0
	emit := func(kind string, c SdCase) {
		if Mine(idx) {
			pre, _ := json.Marshal(c)
			cw.Begin(idx, kind, pre)
			coq, stats := runSdCase(c)
			cw.Put(Case{Idx: idx, Kind: kind, Coq: coq, Repl: pre, Stats: stats})
		}
		idx++
	}
	if rp := ReplayCases(); rp != nil {
		for _, raw := range rp {
			var c SdCase
			json.Unmarshal(raw, &c)
			emit("replay", c)
		}
		cw.Close()
		return
	}
	g := NewRng(Seed() + 404)
	lim := 60
	if Tier() == "thorough" {
		lim = 2000
	}
	// every thread gets one step more than its model needs: a code change that splits a critical section shows up as an extra yield
	for _, kinds := range [][]int{{0, 1}, {0, 0, 1}, {0, 1, 1}} {
		counts := make([]int, len(kinds))
		for i, k := range kinds {
			counts[i] = []int{3, 2}[k]
		}
		for _, s := range interleavings(counts, lim, g) {
			emit("enum", SdCase{Scenario: 1, Kinds: kinds, Schedule: s})
		}
	}
	for _, nm := range [][2]int{{2, 1}, {3, 1}, {3, 2}} {
		counts := make([]int, nm[0])
		for i := range counts {
			counts[i] = 4
		}
		for _, s := range interleavings(counts, lim, g) {
			emit("enum", SdCase{Scenario: 2, N: nm[0], Max: nm[1], Schedule: s})
		}
	}
	for _, kinds := range [][]int{{0, 1}, {0, 2}, {0, 1, 2}, {1, 0, 0}} {
		counts := make([]int, len(kinds))
		for i, k := range kinds {
			counts[i] = []int{3, 2, 2}[k]
		}
		for _, s := range interleavings(counts, lim, g) {
			emit("enum", SdCase{Scenario: 3, Kinds: kinds, Schedule: s})
		}
	}
	// scenario 7: one or two selections of a backend (a selection is 7 sections over three backends, 8 once n7 is listed) against
	// an add and / or a removal, every interleaving (sampled beyond the limit); each thread gets extra steps
	for _, kinds := range [][]int{{50, 51}, {50, 52}, {50, 51, 52}, {50, 50, 51}} {
		counts := make([]int, len(kinds))
		for i, k := range kinds {
			counts[i] = map[int]int{50: 9, 51: 3, 52: 3}[k]
		}
		for _, s := range interleavings(counts, lim, g) {
			emit("enum", SdCase{Scenario: 7, Kinds: kinds, Schedule: s})
		}
	}
	// scenario 6: two or three adds of one name, every interleaving (an add is one section; each thread gets two more steps,
	// so a check that moved out of the write lock is both seen as a second yield and explored)
	for _, n := range []int{2, 3} {
		counts := make([]int, n)
		kinds := make([]int, n)
		for i := range counts {
			counts[i], kinds[i] = 3, 1
		}
		for _, s := range interleavings(counts, lim, g) {
			emit("enum", SdCase{Scenario: 6, N: n, Kinds: kinds, Schedule: s})
		}
	}
	// scenario 4: one pick of every strategy over 3 backends against one or two flips, every interleaving.  A picker needs
	// 1 + n sections (round_robin stops at the first healthy slot), an ejector 1, a healer 2; each gets one more.
	s4 := []struct {
		init  []int
		kinds []int
	}{
		{[]int{1, 1, 1}, []int{0, 11}},     // the first backend is ejected during the pick
		{[]int{1, 1, 1}, []int{0, 13}},     // the last one
		{[]int{0, 1, 1}, []int{0, 21}},     // the first one comes back during the pick
		{[]int{1, 0, 1}, []int{0, 22, 11}}, // one comes back, another one goes
		{[]int{0, 0, 1}, []int{0, 13, 21}}, // the only healthy one goes while another comes back
	}
	for kind := 0; kind <= 4; kind++ {
		for _, sc := range s4 {
			counts := make([]int, len(sc.kinds))
			for i, k := range sc.kinds {
				switch {
				case k == 0:
					counts[i] = 1 + len(sc.init) + 1
				case k < 20:
					counts[i] = 2
				default:
					counts[i] = 3
				}
			}
			l4 := lim / 3
			if len(sc.kinds) == 2 {
				l4 = lim
			}
			for _, s := range interleavings(counts, l4, g) {
				emit("enum", SdCase{Scenario: 4, N: kind, Kinds: sc.kinds, Init: sc.init, Client: []string{"10.0.0.1", "10.0.0.2", "10.0.0.7"}[len(s)%3], Schedule: s})
			}
		}
	}
	// scenario 5: one listing of a three-backend pool against one or two removals, every interleaving, every strategy.
	// The listing needs 1 + 3 sections, a removal 1; each gets one more.
	for kind := 0; kind <= 4; kind++ {
		for _, kinds := range [][]int{{30, 42}, {30, 41}, {30, 43}, {30, 41, 42}} {
			counts := make([]int, len(kinds))
			for i, k := range kinds {
				if k == 30 {
					counts[i] = 5
				} else {
					counts[i] = 2
				}
			}
			for _, s := range interleavings(counts, lim, g) {
				emit("enum", SdCase{Scenario: 5, N: kind, Max: 3, Kinds: kinds, Schedule: s})
			}
		}
	}
	cw.Close()
}
